//go:build c11

package main

// conc / concli — the in-silico PCR under concurrent use.
//
//	conc   [race] <g> <r> <fwd> <rev> <ef> <er> <min> <max> <ext> <full> <circ> <n> n × <tpl>[,<tpl>...]
//	       -> <result of the `pcr` case of batch 1> ; <… of batch 2> ; …
//	concli [race] <r> <fwd> <rev> <e> <min> <max> <delta> <full> <circ> <frag> <n> n × <tpl>
//	       -> <result of the `cli` case of template 1> ; <… of template 2> ; …
//
// What obipcr runs in parallel (pkg/obitools/obipcr/pcr.go, verified in the code):
//   - ONE closure built once by obiapat.PCRSliceWorker(opts...) — it captured ONE Options value, i.e. the four compiled
//     patterns (forward, reverse and their complements: C structures) and the scalar options — is called by the
//     CLIParallelWorkers() goroutines of MakeISliceWorker, each call on the batch it took from the iterator;
//   - every CALL of the closure (_PCRSlice) creates its own ApatSequence with the first template of its batch and
//     recycles that C structure from one template of the batch to the next (it is neither kept for the next call nor
//     shared with another worker); _Pcr builds its result slice, its amplicons (Subsequence / ReverseComplement on
//     objects of its own), its match strings and annotation maps per call; the hit stacks belong to the ApatSequence;
//   - with --fragmented (linear): obiiter.IFragments(…, nworkers) upstream: nworkers goroutines run the same cutting
//     closure (it captured step, minsize, length), each on the batches it takes, with a slice of pieces of its own per
//     batch; the pieces are then re-batched by 100 and go to the PCR workers.
//
// conc: the result line is what the n batches answer when the worker closure (built once) is called on them one after
// the other — the model recomputes it with pcrSlice, as for a `pcr` line. The oracle then REBUILDS the closure (a state
// warmed by the calls made alone would hide a lazily initialised shared value) and calls it on the same n batches
// (fresh sequence objects for every call, as a worker owns its batch) from g goroutines released together, r rounds;
// the slice the closure returned is read a few runtime.Gosched() later (a result slice shared by the calls is
// overwritten by then). Every answer must be the answer obtained alone (conc.differs), every call must return
// (conc.panic).
//
// concli: the whole command. Result line: each template alone through obipcr.CLIPCR (= its `cli` case). Then the n
// templates go through ONE CLIPCR as n batches of one template (ids x0, x1, …): IFragments and the PCR workers run
// with the number of workers the command uses, r rounds; the amplicons are grouped by template and compared, as
// sorted lists, with the list obtained alone.
//
// The concurrent phase runs in a child process (this binary, `exec` mode): an end by the Go runtime (`fatal error:
// concurrent map writes`, a SIGSEGV in the C matcher on a buffer another goroutine reallocated, an unrecovered panic in
// a goroutine of the pipeline) is the failure conc.crash with its case line instead of the end of the whole run. In the
// thorough tier (first seed) a few cases are replayed (`race`: few goroutines / rounds) through a `go build -race`
// build; a report whose racing access lies in pkg/obiapat, pkg/obitools/obipcr, pkg/obiiter/fragment.go or
// pkg/obiseq/fragment_ends.go is conc.race-detector.

import (
	"bytes"
	"fmt"
	"math/rand"
	"os"
	"os/exec"
	"path/filepath"
	"runtime"
	"sort"
	"strconv"
	"strings"
	"sync"
	"time"

	"git.metabarcoding.org/obitools/obitools4/obitools4/pkg/obiapat"
	"git.metabarcoding.org/obitools/obitools4/obitools4/pkg/obiiter"
	"git.metabarcoding.org/obitools/obitools4/obitools4/pkg/obiseq"
	"git.metabarcoding.org/obitools/obitools4/obitools4/pkg/obitools/obipcr"
)

type c11ConcCase struct {
	cli     bool
	g, r    int
	o       c11Opt
	batches [][][]byte // conc: the batches; concli: one template per "batch"
	// concli
	mn, delta int
	frag      bool
}

func c11ParseConc(f []string) (cc c11ConcCase, ok bool) {
	if len(f) >= 2 && f[1] == "race" {
		f = append([]string{f[0]}, f[2:]...)
	}
	num := func(s string, lo, hi int) (int, bool) {
		v, err := strconv.Atoi(s)
		return v, err == nil && v >= lo && v <= hi
	}
	switch f[0] {
	case "conc":
		if len(f) < 13 {
			return
		}
		g, ok1 := num(f[1], 1, 64)
		r, ok2 := num(f[2], 1, 500)
		o, ok3 := c11ParseOpt(f[3:12])
		n, ok4 := num(f[12], 1, 64)
		if !ok1 || !ok2 || !ok3 || !ok4 || len(f) != 13+n {
			return
		}
		if len(o.fwd) >= c11MaxPatLen || len(o.rev) >= c11MaxPatLen {
			return
		}
		cc.g, cc.r, cc.o = g, r, o
		for _, w := range f[13:] {
			var b [][]byte
			for _, h := range strings.Split(w, ",") {
				t, okT := unhx(h)
				if !okT {
					return
				}
				b = append(b, t)
			}
			cc.batches = append(cc.batches, b)
		}
		return cc, true
	case "concli":
		if len(f) < 12 {
			return
		}
		r, ok1 := num(f[1], 1, 100)
		o, ok2 := c11ParseOpt([]string{f[2], f[3], f[4], f[4], "0", f[6], f[7], f[8], f[9]})
		mn, ok3 := num(f[5], -1000, 1<<30)
		n, ok4 := num(f[11], 1, 400)
		if !ok1 || !ok2 || !ok3 || !ok4 || (f[10] != "0" && f[10] != "1") || o.max < 1 || len(f) != 12+n {
			return
		}
		if len(o.fwd) >= c11MaxPatLen || len(o.rev) >= c11MaxPatLen {
			return
		}
		cc.cli, cc.r, cc.o, cc.mn, cc.delta, cc.frag = true, r, o, mn, o.ext, f[10] == "1"
		if cc.frag && !o.circ {
			overlap := o.max + len(o.fwd) + len(o.rev)
			if o.ext >= 0 {
				overlap += 2 * o.ext
			}
			if o.max*100-overlap < 1 {
				return // IFragments does not advance
			}
		}
		for _, h := range f[12:] {
			t, okT := unhx(h)
			if !okT {
				return
			}
			cc.batches = append(cc.batches, [][]byte{t})
		}
		return cc, true
	}
	return
}

// ---- conc: the worker closure ----

func c11ConcBatch(tpls [][]byte) obiseq.BioSequenceSlice {
	batch := make(obiseq.BioSequenceSlice, len(tpls))
	for i, t := range tpls {
		batch[i] = obiseq.NewBioSequence("t"+strconv.Itoa(i), append([]byte{}, t...), "")
		c11SetTplAnnot(batch[i], i)
	}
	return batch
}

// the result of a `pcr` line, from what the worker returned (no global state: called from many goroutines)
func c11ConcShow(ntpl int, res obiseq.BioSequenceSlice) string {
	out := make([][]c11Amp, ntpl)
	for _, s := range res {
		if s == nil {
			return "nil-amplicon"
		}
		id := s.Id()
		p := strings.LastIndex(id, "_sub[")
		if p < 1 || id[0] != 't' || !strings.HasSuffix(id, "]") {
			return "bad-id:" + id
		}
		k, err := strconv.Atoi(id[1:p])
		coord := id[p+5 : len(id)-1]
		dots := strings.Index(coord, "..")
		if err != nil || k < 0 || k >= ntpl || dots < 0 {
			return "bad-id:" + id
		}
		from1, _ := strconv.Atoi(coord[:dots])
		a := c11Amp{from: from1 - 1, idto: coord[dots+2:], amp: string(s.Sequence())}
		c11ReadAnnot(s, &a)
		out[k] = append(out[k], a)
	}
	return c11Show(out)
}

func c11Short(s string) string {
	if len(s) > 200 {
		return s[:200] + "…"
	}
	return s
}

// where two results differ (the first differing amplicon)
func c11FirstDiff(a, b string) string {
	as, bs := strings.FieldsFunc(a, func(r rune) bool { return r == ',' || r == '|' }), strings.FieldsFunc(b, func(r rune) bool { return r == ',' || r == '|' })
	k := 0
	for k < len(as) && k < len(bs) && as[k] == bs[k] {
		k++
	}
	x, y := "(end)", "(end)"
	if k < len(as) {
		x = as[k]
	}
	if k < len(bs) {
		y = bs[k]
	}
	return fmt.Sprintf("record %d of %d / %d: alone %s, concurrently %s", k+1, len(as), len(bs), c11Short(x), c11Short(y))
}

func c11ConcWorkerRun(cc c11ConcCase, concurrent bool) (string, []Fail) {
	var fails []Fail
	res := guardT(120*time.Second, func() string {
		worker := obiapat.PCRSliceWorker(cc.o.options()...) // one closure for all the calls, as CLIPCR builds it
		call := func(w obiseq.SeqSliceWorker, i int, wait int) (res string) {
			defer func() {
				if recover() != nil {
					res = "panic"
				}
			}()
			batch := c11ConcBatch(cc.batches[i])
			out, err := w(batch)
			for q := 0; q < wait; q++ {
				runtime.Gosched()
			}
			if err != nil {
				return "error"
			}
			return c11ConcShow(len(batch), out)
		}
		alone := make([]string, len(cc.batches))
		for i := range cc.batches {
			alone[i] = call(worker, i, 0)
		}
		if !concurrent {
			return strings.Join(alone, " ; ")
		}
		shared := obiapat.PCRSliceWorker(cc.o.options()...) // rebuilt: nothing warmed by the calls made alone
		type bad struct {
			i, goroutine int
			got          string
		}
		var mu sync.Mutex
		var first *bad
		nbad, total, started := 0, 0, 0
		start := make(chan struct{})
		var wg sync.WaitGroup
		n := len(cc.batches)
		// the rounds stop after a time budget (a loaded machine, a case with many amplicons): what counts is that every call
		// that was started returns the answer obtained alone
		budget := 20 * time.Second * watchdogScale()
		t0 := time.Now()
		for k := 0; k < cc.g; k++ {
			wg.Add(1)
			go func(k int) {
				defer wg.Done()
				<-start
				for round := 0; round < cc.r; round++ {
					for j := 0; j < n; j++ {
						i := (j + k) % n
						mu.Lock()
						if started >= cc.g && time.Since(t0) > budget {
							mu.Unlock()
							return
						}
						started++
						mu.Unlock()
						got := call(shared, i, 3)
						mu.Lock()
						total++
						if got != alone[i] {
							nbad++
							if first == nil {
								first = &bad{i, k, got}
							}
						}
						mu.Unlock()
					}
				}
			}(k)
		}
		close(start)
		wg.Wait()
		stat(fmt.Sprintf("conc:worker:g%d", cc.g))
		statMu.Lock()
		stats["conc:worker-calls"] += total
		statMu.Unlock()
		if started < cc.g*cc.r*n {
			stat("conc:worker-rounds-cut-at-budget")
		}
		if total != started {
			fails = append(fails, Fail{"conc.panic", fmt.Sprintf("%d of %d concurrent calls of the PCR worker did not return (log.Fatal in a worker goroutine)", started-total, started)})
		}
		if first != nil {
			sig := "conc.differs"
			if first.got == "panic" {
				sig = "conc.panic"
			}
			fails = append(fails, Fail{sig, fmt.Sprintf(
				"%d of %d concurrent calls of the PCR worker (one closure, %d goroutines) differ from the call made alone; e.g. batch %d (%d templates) in goroutine %d: %s",
				nbad, total, cc.g, first.i+1, len(cc.batches[first.i]), first.goroutine, c11FirstDiff(alone[first.i], first.got))})
		}
		return strings.Join(alone, " ; ")
	})
	return res, fails
}

// ---- concli: the whole command ----

// runs CLIPCR on the templates (one batch each); returns per template the sorted records of a `cli` line
func c11ConcCliPipe(cc c11ConcCase, which []int) ([]string, string) {
	obipcr.VerifSetOptions(cc.o.fwd, cc.o.rev, cc.o.ef, cc.mn, cc.o.max, cc.delta, cc.o.full, cc.o.circ, cc.frag)
	tpls := make(obiseq.BioSequenceSlice, len(which))
	pos := map[string]int{}
	for q, i := range which {
		id := "x" + strconv.Itoa(i)
		tpls[q] = obiseq.NewBioSequence(id, append([]byte{}, cc.batches[i][0]...), "")
		c11SetTplAnnot(tpls[q], 1)
		pos[id] = q
	}
	it, err := obipcr.CLIPCR(obiiter.IBatchOver("x", tpls, 1))
	if err != nil {
		return nil, "error"
	}
	per := make([][]string, len(which))
	problem := ""
	for it.Next() {
		for _, s := range it.Get().Slice() {
			id := s.Id()
			p := strings.LastIndex(id, "_sub[")
			first := strings.Index(id, "_sub[")
			if p < 0 || !strings.HasSuffix(id, "]") {
				problem = "bad-id:" + id
				continue
			}
			q, known := pos[id[:first]]
			coord := id[p+5 : len(id)-1]
			dots := strings.Index(coord, "..")
			if !known || dots < 0 {
				problem = "bad-id:" + id
				continue
			}
			from1, _ := strconv.Atoi(coord[:dots])
			frg, start := "whole", 0
			if first < p {
				frg = id[first+5 : p-1]
				d := strings.Index(frg, "..")
				if d < 0 {
					problem = "bad-id:" + id
					continue
				}
				start, _ = strconv.Atoi(frg[:d])
				start--
			}
			a := c11Amp{from: start + from1 - 1, amp: string(s.Sequence())}
			c11ReadAnnot(s, &a)
			per[q] = append(per[q], fmt.Sprintf("%c/%s/%d/%s/%s", a.dir, frg, a.from+1, hx([]byte(a.amp)), a.annotFields()))
		}
	}
	out := make([]string, len(which))
	for q := range per {
		sort.Strings(per[q])
		out[q] = "-"
		if len(per[q]) > 0 {
			out[q] = strings.Join(per[q], ",")
		}
	}
	return out, problem
}

func c11ConcCliRun(cc c11ConcCase, concurrent bool) (string, []Fail) {
	var fails []Fail
	res := guardT(180*time.Second, func() string {
		n := len(cc.batches)
		alone := make([]string, n)
		for i := 0; i < n; i++ {
			one, problem := c11ConcCliPipe(cc, []int{i})
			if problem != "" {
				return problem
			}
			alone[i] = one[0]
		}
		if !concurrent {
			return strings.Join(alone, " ; ")
		}
		all := make([]int, n)
		for i := range all {
			all[i] = i
		}
		nbad, total := 0, 0
		firstAt, firstRound, firstGot := -1, 0, ""
		t0 := time.Now()
		for round := 0; round < cc.r; round++ {
			if round > 0 && time.Since(t0) > 20*time.Second*watchdogScale() {
				stat("conc:cli-rounds-cut-at-budget")
				break
			}
			// another arrival order of the templates every round
			order := append(append([]int{}, all[round%n:]...), all[:round%n]...)
			got, problem := c11ConcCliPipe(cc, order)
			if problem != "" {
				fails = append(fails, Fail{"conc.differs", "obipcr on " + strconv.Itoa(n) + " templates returns a record that belongs to none of them: " + c11Short(problem)})
				break
			}
			for q, i := range order {
				total++
				if got[q] != alone[i] {
					nbad++
					if firstAt < 0 {
						firstAt, firstRound, firstGot = i, round, got[q]
					}
				}
			}
		}
		stat("conc:cli")
		statMu.Lock()
		stats["conc:cli-templates"] += total
		statMu.Unlock()
		if firstAt >= 0 {
			fails = append(fails, Fail{"conc.differs", fmt.Sprintf(
				"obipcr on %d templates at once (IFragments and PCR workers in parallel): %d of %d template results differ from the result of the template run alone; e.g. template %d (%d symbols) in round %d: %s",
				n, nbad, total, firstAt+1, len(cc.batches[firstAt][0]), firstRound+1, c11FirstDiff(alone[firstAt], firstGot))})
		}
		return strings.Join(alone, " ; ")
	})
	if res == "fatal" || res == "panic" || res == "hang" {
		if concurrent {
			fails = append(fails, Fail{"conc.panic", "obipcr on several templates at once ends in " + res})
		}
	}
	return res, fails
}

func c11ConcRun(cc c11ConcCase, concurrent bool) (string, []Fail) {
	if cc.cli {
		return c11ConcCliRun(cc, concurrent)
	}
	return c11ConcWorkerRun(cc, concurrent)
}

// ---- child process ----

func c11ConcChild(c string, race bool) (res string, fails []Fail, stderr string, ran bool) {
	bin, err := os.Executable()
	env := append(os.Environ(), "VERIF_C11_CONC=child")
	if race {
		bin, err = c11RaceBuild(), nil
		env = append(env, "GORACE=halt_on_error=0", "VERIF_WATCHDOG_SCALE=10")
		if bin == "" {
			return "", nil, "", false
		}
	}
	if err != nil {
		return "", nil, "", false
	}
	cmd := exec.Command(bin, "C11", "exec")
	cmd.Stdin = strings.NewReader(c + "\n")
	cmd.Env = env
	var so, se bytes.Buffer
	cmd.Stdout, cmd.Stderr = &so, &se
	if err := cmd.Start(); err != nil {
		return "", nil, "", false
	}
	ch := make(chan error, 1)
	go func() { ch <- cmd.Wait() }()
	select {
	case <-ch:
	case <-time.After(300 * time.Second * watchdogScale()):
		cmd.Process.Kill()
		<-ch
		return "", []Fail{{"conc.hang", "the process running the concurrent phase did not finish within the watchdog delay (hang)"}}, "", true
	}
	stderr = se.String()
	for _, l := range strings.Split(so.String(), "\n") {
		w := strings.Split(l, "\t")
		if w[0] == "C" && len(w) >= 3 {
			res = w[2]
		}
		if w[0] == "F" && len(w) >= 4 {
			fails = append(fails, Fail{w[1], w[3]})
		}
		if w[0] == "S" && len(w) == 3 && strings.HasPrefix(w[1], "conc:") {
			if n, err := strconv.Atoi(w[2]); err == nil {
				statMu.Lock()
				stats[w[1]] += n
				statMu.Unlock()
			}
		}
	}
	if res == "" {
		// the process was ended by the Go runtime (fatal error, unrecovered panic, signal raised by the C code)
		what, where := "", ""
		for _, l := range strings.Split(stderr, "\n") {
			t := strings.TrimSpace(l)
			if what == "" && (strings.HasPrefix(t, "fatal error:") || strings.HasPrefix(t, "panic:") || strings.HasPrefix(t, "SIGSEGV") ||
				strings.HasPrefix(t, "SIGABRT") || strings.HasPrefix(t, "SIGBUS") || strings.Contains(t, "double free") || strings.Contains(t, "corrupted") ||
				strings.Contains(t, "malloc") || strings.Contains(t, "invalid pointer") || strings.Contains(t, "invalid next size")) {
				what = t
			}
			if what != "" && where == "" && strings.Contains(t, "/pkg/") && strings.Contains(t, ".go:") {
				where = t[strings.LastIndex(t, "/pkg/")+1:]
				if k := strings.IndexByte(where, ' '); k > 0 {
					where = where[:k]
				}
			}
		}
		if what == "" { // killed from outside (memory, signal): not an observation about the code
			stat("conc:child-lost")
			return "", nil, stderr, false
		}
		fails = append(fails, Fail{"conc.crash", fmt.Sprintf("the process running the PCR from several goroutines was ended by the runtime: %s (at %s)", c11Short(what), where)})
	}
	return res, fails, stderr, true
}

func c11ExecConc(c string) (string, []Fail) {
	f := strings.Fields(c)
	cc, ok := c11ParseConc(f)
	if !ok {
		caseTrivial = true
		return "bad-op", nil
	}
	race := len(f) >= 2 && f[1] == "race"
	if os.Getenv("VERIF_C11_CONC") == "child" {
		return c11ConcRun(cc, true)
	}
	// the calls one after the other: the result line
	res, fails := c11ConcRun(cc, false)
	if res == "fatal" || res == "panic" || res == "hang" || res == "error" {
		return res, fails
	}
	cres, cfails, stderr, ran := c11ConcChild(c, race)
	if !ran {
		if race {
			stat("conc-race:unavailable")
			return res, fails
		}
		stat("conc:in-process")
		cres, cfails = c11ConcRun(cc, true)
	} else {
		stat("conc:child")
	}
	fails = append(fails, cfails...)
	if cres == "fatal" || cres == "panic" || cres == "hang" {
		// (the calls made alone in this process all returned)
		fails = append(fails, Fail{"conc.panic", "the PCR run from several goroutines ends in " + cres + " (log.Fatal, panic or no return in one of them)"})
	} else if cres != "" && cres != res {
		a, b := strings.Split(res, " ; "), strings.Split(cres, " ; ")
		k := 0
		for k < len(a) && k < len(b) && a[k] == b[k] {
			k++
		}
		at := "the number of answers"
		if k < len(a) && k < len(b) {
			at = fmt.Sprintf("sub-case %d: %s", k+1, c11FirstDiff(a[k], b[k]))
		}
		fails = append(fails, Fail{"conc.alone", "the calls made alone in the process of the concurrent phase do not answer as the calls made alone in this process; " + at})
	}
	if race {
		stat("conc-race:replayed")
		if n, where := c11RaceReports(stderr); n > 0 {
			stat("conc-race:DATA-RACE")
			fails = append(fails, Fail{"conc.race-detector", fmt.Sprintf("the Go race detector reports %d data race(s) with an access in the PCR code (at %s)", n, strings.Join(where, ", "))})
		} else {
			stat("conc-race:quiet")
		}
	}
	return res, fails
}

// ---- race replay (thorough tier, first seed) ----

var (
	c11RaceBin   string
	c11RaceTried bool
	c11RaceMu    sync.Mutex
)

func c11FirstSeed() bool {
	for i, a := range os.Args {
		if a == "-seed" && i+1 < len(os.Args) {
			s, err := strconv.Atoi(os.Args[i+1])
			return err == nil && s%1000 == 0
		}
	}
	return false
}

func c11RaceBuild() string {
	c11RaceMu.Lock()
	defer c11RaceMu.Unlock()
	if c11RaceTried {
		return c11RaceBin
	}
	c11RaceTried = true
	root := os.Getenv("VERIF_ROOT")
	if root == "" {
		root = "/verif"
	}
	bin := filepath.Join(binDir(), "harness_C11_race")
	args := []string{"build", "-race", "-tags", "verif,c11", "-o", bin}
	repo := os.Getenv("VERIF_REPO")
	if repo != "" && repo != "/repo" {
		// a scratch tree is under check: the driver wrote go.alt.mod (module replaced by that tree)
		alt := filepath.Join(root, "harness", "go.alt.mod")
		if m := os.Getenv("VERIF_C11_ALTMOD"); m != "" { // a modfile of one's own (the shared one may be rewritten by a concurrent check)
			alt = m
		}
		if b, err := os.ReadFile(alt); err == nil && strings.Contains(string(b), "=> "+repo) {
			args = append(args, "-modfile", alt)
		} else {
			stat("conc-race-build:no-alt-mod")
			return ""
		}
	}
	build := exec.Command("go", append(args, ".")...)
	build.Dir = filepath.Join(root, "harness")
	build.Env = append(os.Environ(), "GOWORK=off", "GOFLAGS=-mod=mod", "GOPROXY=off", "GOSUMDB=off", "GOTOOLCHAIN=local", "CGO_CFLAGS=-w -O2 -g")
	if _, err := build.CombinedOutput(); err != nil {
		stat("conc-race-build:failed")
		return ""
	}
	stat("conc-race-build:ok")
	c11RaceBin = bin
	return bin
}

// c11RaceReports counts the reports one of whose two racing accesses (first frame in /pkg/) lies in the anchored code
func c11RaceReports(stderr string) (int, []string) {
	ours := 0
	var where []string
	mine := func(t string) bool {
		if strings.Contains(t, "verif_hooks") {
			return false
		}
		for _, p := range []string{"/pkg/obiapat/", "/pkg/obitools/obipcr/", "/pkg/obiiter/fragment.go", "/pkg/obiseq/fragment_ends.go"} {
			if strings.Contains(t, p) {
				return true
			}
		}
		return false
	}
	for _, block := range strings.Split(stderr, "==================") {
		if !strings.Contains(block, "WARNING: DATA RACE") {
			continue
		}
		inAccess, hit := false, false
		for _, l := range strings.Split(block, "\n") {
			t := strings.TrimSpace(l)
			switch {
			case strings.HasPrefix(t, "Read at"), strings.HasPrefix(t, "Write at"), strings.HasPrefix(t, "Previous read at"),
				strings.HasPrefix(t, "Previous write at"), strings.HasPrefix(t, "Atomic"), strings.HasPrefix(t, "Previous atomic"):
				inAccess = true
			case strings.HasPrefix(t, "Goroutine "):
				inAccess = false
			case inAccess && strings.Contains(t, ".go:"):
				if !strings.Contains(t, "/pkg/") { // frames of the runtime (map helpers, memmove) come first
					continue
				}
				inAccess = false
				if mine(t) {
					hit = true
					loc := t[strings.LastIndex(t, "/pkg/")+1:]
					if k := strings.IndexByte(loc, ' '); k > 0 {
						loc = loc[:k]
					}
					dup := false
					for _, w := range where {
						dup = dup || w == loc
					}
					if !dup && len(where) < 4 {
						where = append(where, loc)
					}
				}
			}
		}
		if hit {
			ours++
		} else {
			stat("conc-race:race-elsewhere")
		}
	}
	return ours, where
}

// ---- generator ----

// a template of L symbols with a pair of sites (either orientation, 0..e substitutions each, gap 1..maxgap) about every
// `every` symbols
func c11ConcTemplate(rng *rand.Rand, L int, F, R []c11Tok, ef, er, maxgap, every int, circ bool) []byte {
	t := c11RandSeq(rng, L, "acgt")
	rcF, rcR := c11RcSets(F), c11RcSets(R)
	for i := rng.Intn(every/2 + 1); i+len(F)+len(R)+maxgap < L || (circ && i < L); i += every/2 + rng.Intn(every) {
		gap := 1 + rng.Intn(maxgap)
		if rng.Intn(2) == 0 {
			c11Plant(t, i, c11Instance(rng, F, rng.Intn(ef+1)), circ)
			c11Plant(t, i+len(F)+gap, c11Instance(rng, rcR, rng.Intn(er+1)), circ)
		} else {
			c11Plant(t, i, c11Instance(rng, R, rng.Intn(er+1)), circ)
			c11Plant(t, i+len(R)+gap, c11Instance(rng, rcF, rng.Intn(ef+1)), circ)
		}
	}
	// upper case here and there (the encoder folds the case)
	if rng.Intn(3) == 0 {
		for k := 0; k < L/50; k++ {
			p := rng.Intn(L)
			if t[p] >= 'a' {
				t[p] -= 32
			}
		}
	}
	return t
}

func c11GenConc(rng *rand.Rand, tier string, emit func(string)) {
	b := func(x bool) int {
		if x {
			return 1
		}
		return 0
	}
	// --- the worker closure shared by g goroutines
	ncase, g, r, lmax := 4, 8, 16, 5000
	if tier == "thorough" {
		ncase, g, r, lmax = 4, 16, 20, 10000 // per seed (the thorough tier runs 8 seeds); the model recomputes every template: ~10 us per symbol
	}
	var raceLines []string
	for c := 0; c < ncase; c++ {
		// primers of 12..22 positions and a maximal length > 0: the number of amplicons stays linear in the template length
		// (with short primers, budget 2 and no maximal length every pair of chance sites of a template is an amplicon)
		fl, rl := 12+rng.Intn(11), 12+rng.Intn(11)
		fw, rv := c11RandPrimer(rng, fl, 8), c11RandPrimer(rng, rl, 8)
		ext := c%4 == 3
		if ext {
			fw = c11RandPrimerExt(rng, fl)
		}
		F, okF := c11Primer(fw)
		R, okR := c11Primer(rv)
		if !okF || !okR {
			fw, rv = c11RandPrimer(rng, fl, 0), c11RandPrimer(rng, rl, 0)
			F, _ = c11Primer(fw)
			R, _ = c11Primer(rv)
		}
		o := c11Opt{fwd: fw, rev: rv, ef: rng.Intn(3), er: rng.Intn(3), ext: -1}
		if ext && okF && okR && o.ef > 1 {
			o.ef = 1 // a negated position accepts three symbols out of four
		}
		maxgap := 30 + rng.Intn(60)
		o.max = []int{maxgap, maxgap, maxgap / 2, 3 * maxgap}[rng.Intn(4)]
		o.min = []int{0, 0, 5, maxgap / 3}[rng.Intn(4)]
		if o.max != 0 && o.min > o.max {
			o.min = 0
		}
		if c%3 != 0 {
			o.ext = []int{0, 3, 10, 40}[rng.Intn(4)]
			o.full = rng.Intn(2) == 0
		}
		o.circ = c%3 == 2
		n := 4 + rng.Intn(3)
		var sb strings.Builder
		head := fmt.Sprintf("%s %s %d %d %d %d %d %d %d %d", hx([]byte(o.fwd)), hx([]byte(o.rev)), o.ef, o.er, o.min, o.max, o.ext, b(o.full), b(o.circ), n)
		for i := 0; i < n; i++ {
			// batches of 2..5 templates of unequal lengths: the recycled C buffer is reallocated, reused, left with
			// left-overs of the previous template within the call
			nt := 2 + rng.Intn(4)
			hs := make([]string, nt)
			for k := range hs {
				L := 200 + rng.Intn(lmax)
				if k == 1 {
					L = 70 + rng.Intn(200)
				}
				hs[k] = hx(c11ConcTemplate(rng, L, F, R, o.ef, o.er, maxgap, 150+rng.Intn(300), o.circ))
			}
			sb.WriteString(" " + strings.Join(hs, ","))
		}
		emit(fmt.Sprintf("conc %d %d %s%s", g, r, head, sb.String()))
		stat("gen:conc")
		if len(raceLines) < 2 {
			raceLines = append(raceLines, fmt.Sprintf("conc race 6 2 %s%s", head, sb.String()))
		}
	}
	// --- the whole command: IFragments with its workers, then the PCR workers. A small maximal length keeps the templates
	// short (cut when longer than 1000 x max length, pieces of 100 x max length): tens of batches for the cutting
	// goroutines, hundreds of pieces (re-batched by 100) for the PCR workers
	ncli, rcli, nt := 2, 3, 36
	if tier == "thorough" {
		ncli, rcli, nt = 3, 4, 60
	}
	for c := 0; c < ncli; c++ {
		fl, rl := 5+rng.Intn(4), 5+rng.Intn(4)
		fw, rv := c11RandPrimer(rng, fl, 0), c11RandPrimer(rng, rl, 0)
		F, _ := c11Primer(fw)
		R, _ := c11Primer(rv)
		e := rng.Intn(2)
		mx := 1 + rng.Intn(2)
		delta := []int{-1, 0, 2, 5}[rng.Intn(4)]
		full := rng.Intn(2) == 0
		circ := tier == "thorough" && c == 1 && rng.Intn(2) == 0 // --fragmented is ignored then: the templates go whole to the PCR workers, one batch each
		var sb strings.Builder
		for i := 0; i < nt; i++ {
			// most templates are cut (11..25 pieces each), a few go through whole
			L := mx*1000 + 1 + rng.Intn(mx*1000)
			if i%5 == 4 {
				L = 64 + rng.Intn(mx*900)
			}
			sb.WriteString(" " + hx(c11ConcTemplate(rng, L, F, R, e, e, mx, 40+rng.Intn(80), false)))
		}
		head := fmt.Sprintf("%s %s %d %d %d %d %d %d 1 %d", hx([]byte(fw)), hx([]byte(rv)), e, []int{0, 0, 1}[rng.Intn(3)], mx, delta, b(full), b(circ), nt)
		emit(fmt.Sprintf("concli %d %s%s", rcli, head, sb.String()))
		stat("gen:concli")
		if len(raceLines) < 3 {
			raceLines = append(raceLines, fmt.Sprintf("concli race 1 %s%s", head, sb.String()))
		}
	}
	if tier == "thorough" && c11FirstSeed() {
		for _, l := range raceLines {
			emit(l)
			stat("gen:conc-race")
		}
	}
}
