//go:build c12

package main

// C12 — multi-read cases: a HISTORY of reads on one library object, and the whole obimultiplex stage.
//
//	multi <keep 0|1> <unid 0|1> <fmt o|c> <style> <e> <indel> <K> K × [ marker … ] <N> N × [ <id> <seq> ]
//	      [hits N × K × [ 4 × ( <n> n × [ <begin> <end> <mismatches> ] ) ]]     appended by Exec
//
// Exec (1) reads the sheet ONCE and sends the N reads, in order, through the one worker built on that library
// (what obimultiplex does for a whole data set), (2) sends every read through a worker built on a FRESH library
// (sheet read again): the two results must be identical — the answer for a read is a function of (sheet, options,
// read), never of the reads demultiplexed before; (3) runs the real obimultiplex stage (IExtractBarcode, options set
// through the command's own option parser) on the N reads with/without --keep-errors and -u: the main output and
// the file of unidentified reads are compared with the model's routing of the per-read records.
//
// Result: `H <res 1> @@ … @@ <res N> || out <rec> ## … || unid <id>|<seq>|<error> ## …` (`unid -` without -u).

import (
	"fmt"
	"math/rand"
	"os"
	"path/filepath"
	"sort"
	"strconv"
	"strings"
	"time"
	_ "unsafe" // go:linkname below

	"github.com/DavidGamba/go-getoptions"

	"git.metabarcoding.org/obitools/obitools4/obitools4/pkg/obiapat"
	"git.metabarcoding.org/obitools/obitools4/obitools4/pkg/obiformats"
	"git.metabarcoding.org/obitools/obitools4/obitools4/pkg/obiiter"
	"git.metabarcoding.org/obitools/obitools4/obitools4/pkg/obingslibrary"
	"git.metabarcoding.org/obitools/obitools4/obitools4/pkg/obiseq"
	"git.metabarcoding.org/obitools/obitools4/obitools4/pkg/obitools/obimultiplex"
)

type c12MultiCase struct {
	keep, unid bool
	c          *c12Case
	ids        []string
	seqs       [][]byte
}

func (m *c12MultiCase) line() string {
	c := m.c
	var b strings.Builder
	fmt.Fprintf(&b, "multi %d %d %s %d %d %d %d", c12b(m.keep), c12b(m.unid), c.format, c.style, c.e, c12b(c.indel), len(c.markers))
	for _, mk := range c.markers {
		fmt.Fprintf(&b, " %s %s %d %d %d %d %d %d %s %d %d %d %d %d", c12h(mk.fp), c12h(mk.rp), mk.fsp, mk.rsp, mk.fdl, mk.rdl, mk.fin, mk.rin,
			mk.mode, mk.ferr, mk.rerr, c12b(mk.fpi), c12b(mk.rpi), len(mk.samples))
		for _, s := range mk.samples {
			fmt.Fprintf(&b, " %s %s %s %s %s", c12h(s.ftag), c12h(s.rtag), c12h(s.name), c12h(s.exp), c12h(s.extra))
		}
	}
	fmt.Fprintf(&b, " %d", len(m.ids))
	for i := range m.ids {
		fmt.Fprintf(&b, " %s %s", c12h(m.ids[i]), hx(m.seqs[i]))
	}
	return b.String()
}

func c12ParseMulti(f []string) (*c12MultiCase, bool) {
	p := &c12Toks{t: f}
	m := &c12MultiCase{c: &c12Case{}}
	m.keep, m.unid = p.int() == 1, p.int() == 1
	c := m.c
	c.format = p.next()
	c.style = p.int()
	c.e = p.int()
	c.indel = p.int() == 1
	k := p.int()
	if p.bad || k < 0 || k > 16 || (c.format != "o" && c.format != "c") {
		return nil, false
	}
	if !c12ParseMarkers(p, c, k) {
		return nil, false
	}
	n := p.int()
	if p.bad || n < 1 || n > 64 {
		return nil, false
	}
	for i := 0; i < n; i++ {
		id := p.hex()
		seq := p.hex()
		// the read number is recovered from the identifier
		if id != fmt.Sprintf("r%d", i) {
			return nil, false
		}
		m.ids = append(m.ids, id)
		m.seqs = append(m.seqs, []byte(seq))
	}
	if p.bad || (len(p.t) > 0 && p.t[0] != "hits") {
		return nil, false
	}
	return m, true
}

func c12RecStr(r *obiseq.BioSequence) string {
	keys := []string{}
	ann := map[string]string{}
	if r.HasAnnotation() {
		for k, v := range r.Annotations() {
			ann[k] = fmt.Sprint(v)
			keys = append(keys, k)
		}
	}
	sort.Strings(keys)
	kv := make([]string, len(keys))
	for i, k := range keys {
		kv[i] = k + "=" + ann[k]
	}
	return r.Id() + "|" + hx([]byte(r.String())) + "|" + strings.Join(kv, ";")
}

// the read number of a record of the output ("r12" or "r12_sub[3..40]")
func c12ReadNo(id string) int {
	if i := strings.Index(id, "_sub["); i >= 0 {
		id = id[:i]
	}
	n, err := strconv.Atoi(strings.TrimPrefix(id, "r"))
	if err != nil {
		return 1 << 30
	}
	return n
}

// The option parser cannot give a string option the empty value again ("Missing argument"): the file name of -u is cleared
// directly in the package variable of the command (read-only access would need no hook; a hook file in /repo is avoided so
// that the harness also builds against a tree that does not have it).
//
//go:linkname c12MplexUnidentified git.metabarcoding.org/obitools/obitools4/obitools4/pkg/obitools/obimultiplex._UnidentifiedFile
var c12MplexUnidentified string

// c12SetMplexOptions sets the options of the obimultiplex command through its own option parser.  The two boolean
// options toggle the current value when present: they are passed only when the current value is not the wanted one.
func c12SetMplexOptions(sheet string, keep bool, unid string, e int, indel bool) error {
	parse := func(args ...string) error {
		opt := getoptions.New()
		obimultiplex.MultiplexOptionSet(opt)
		_, err := opt.Parse(args)
		return err
	}
	c12MplexUnidentified = ""
	if err := parse("--tag-list="+sheet, "--allowed-mismatches="+strconv.Itoa(e)); err != nil {
		return err
	}
	var args []string
	if obimultiplex.CLIConservedErrors() != keep { // no -u at this point: the value of --keep-errors itself
		args = append(args, "--keep-errors")
	}
	if obimultiplex.CLIAllowsIndel() != indel {
		args = append(args, "--with-indels")
	}
	if err := parse(args...); err != nil {
		return err
	}
	if unid != "" {
		if err := parse("--unidentified=" + unid); err != nil {
			return err
		}
	}
	if obimultiplex.CLIAllowsIndel() != indel || obimultiplex.CLIUnidentifiedFileName() != unid || obimultiplex.CLIAllowedMismatch() != e ||
		obimultiplex.CLIConservedErrors() != (keep || unid != "") {
		return fmt.Errorf("options not set as requested")
	}
	return nil
}

var c12Tmp string

func c12TmpDir() string {
	if c12Tmp == "" {
		d, err := os.MkdirTemp("", "c12mplex")
		if err != nil {
			d = os.TempDir()
		}
		c12Tmp = d
	}
	return c12Tmp
}

func c12NewWorker(sheet string, e int, indel bool) (lib *obingslibrary.NGSLibrary, worker obiseq.SeqSliceWorker, st string) {
	st = guardT(10*time.Second, func() string {
		l, err := obiformats.ReadNGSFilter(strings.NewReader(sheet))
		if err != nil {
			return "sheet-error"
		}
		lib = l
		worker = lib.ExtractMultiBarcodeSliceWorker(
			obingslibrary.OptionAllowedMismatches(e),
			obingslibrary.OptionAllowedIndel(indel))
		return "ok"
	})
	return
}

func (c12) execMulti(f []string) (string, []Fail) {
	m, ok := c12ParseMulti(f)
	if !ok {
		return "bad-op", nil
	}
	c := m.c
	c.sortMarkers()
	n := len(m.ids)
	var fails []Fail
	sheet := c12Sheet(c)
	nohits := " hits" + strings.Repeat(" 0 0 0 0", len(c.markers)*n)
	lib, worker, st := c12NewWorker(sheet, c.e, c.indel)
	if st != "ok" {
		stat("multi.sheet-" + st)
		caseOverride = m.line() + nohits
		return st, nil
	}
	mks := make([]*obingslibrary.Marker, len(c.markers))
	for i, mk := range c.markers {
		x, ok := lib.Markers[obingslibrary.PrimerPair{Forward: mk.fp, Reverse: mk.rp}]
		if !ok {
			return "bad-op", []Fail{{"sheet.marker", "declared marker missing from the library read by ReadNGSFilter: " + mk.fp + "," + mk.rp}}
		}
		mks[i] = x
	}
	// primer hits of every read, with the calls of ExtractMultiBarcode
	hits := " hits"
	hst := guardT(20*time.Second, func() string {
		for r := 0; r < n; r++ {
			seq := obiseq.NewBioSequence(m.ids[r], append([]byte{}, m.seqs[r]...), "")
			aseq, err := obiapat.MakeApatSequence(seq, false)
			if err != nil {
				return "fatal"
			}
			for _, mk := range mks {
				pf, pcf, pr, pcr := mk.VerifPatterns()
				s, locs := c12HitList(pf, aseq, 0)
				hits += s
				begin := 0
				if len(locs) > 0 {
					begin = locs[0][0] + 1
				}
				s, _ = c12HitList(pcr, aseq, begin)
				hits += s
				s, locs = c12HitList(pr, aseq, 0)
				hits += s
				begin = 0
				if len(locs) > 0 {
					begin = locs[0][0] + 1
				}
				s, _ = c12HitList(pcf, aseq, begin)
				hits += s
			}
		}
		return "ok"
	})
	if hst != "ok" {
		caseOverride = m.line() + nohits
		return "bad-op", []Fail{{"multi.hits", "primer hits could not be computed: " + hst}}
	}
	caseOverride = m.line() + hits

	runOn := func(w obiseq.SeqSliceWorker, r int) string {
		return guardT(10*time.Second, func() string {
			s := obiseq.NewBioSequence(m.ids[r], append([]byte{}, m.seqs[r]...), "")
			out, err := w(obiseq.BioSequenceSlice{s})
			if err != nil {
				return "error"
			}
			_, res := c12Render(out)
			return res
		})
	}
	// (1) the history on ONE library, (2) every read on a fresh library
	hist := make([]string, n)
	allok := true
	libBefore := c12Dump(lib)
	for r := 0; r < n; r++ {
		hist[r] = runOn(worker, r)
		if !strings.HasPrefix(hist[r], "ok ") {
			allok = false
			stat("multi.abort")
		}
	}
	// frame (Props/C12S.lean read_leaves_library_unchanged): the reads only READ the library object — every parameter, tag
	// length and sample table is as it was before the history
	if after := c12Dump(lib); after != libBefore {
		fails = append(fails, Fail{"history.library-mutated", "the library object after the history differs from before: " + libBefore + "  VERSUS  " + after})
	}
	for r := 0; r < n; r++ {
		_, w2, st2 := c12NewWorker(sheet, c.e, c.indel)
		if st2 != "ok" {
			fails = append(fails, Fail{"history.sheet", "second reading of the same sheet: " + st2})
			break
		}
		fresh := runOn(w2, r)
		if fresh != hist[r] {
			stat("multi.history-dependent")
			fails = append(fails, Fail{"history.depends-on-previous-reads." + c.markers[0].mode, fmt.Sprintf(
				"read %d (%s) after reads 0..%d on the same library object: %s  VERSUS on a fresh library: %s", r, m.ids[r], r-1, hist[r], fresh)})
			break
		}
	}
	stat(fmt.Sprintf("multi.reads-%d", n))
	res := "H " + strings.Join(hist, " @@ ")
	if !allok {
		return res + " || abort", fails
	}

	// (3) the obimultiplex stage
	dir := c12TmpDir()
	sheetFn, unidFn := filepath.Join(dir, "sheet.txt"), ""
	if m.unid {
		unidFn = filepath.Join(dir, "unid.fasta")
		os.Remove(unidFn)
	}
	if err := os.WriteFile(sheetFn, []byte(sheet), 0o644); err != nil {
		return "bad-op", []Fail{{"multi.infra", "cannot write the sheet: " + err.Error()}}
	}
	var outRecs, unidRecs []string
	unidOrder := ""
	mst := guardT(30*time.Second, func() string {
		if err := c12SetMplexOptions(sheetFn, m.keep, unidFn, c.e, c.indel); err != nil {
			return "options: " + err.Error()
		}
		sl := obiseq.MakeBioSequenceSlice()
		for r := 0; r < n; r++ {
			sl = append(sl, obiseq.NewBioSequence(m.ids[r], append([]byte{}, m.seqs[r]...), ""))
		}
		it := obiiter.IBatchOver("src", sl, n)
		out, err := obimultiplex.IExtractBarcode(it)
		if err != nil {
			return "error"
		}
		// Batches travel with their batch number and arrive in ANY order (parallel workers): an order-sensitive consumer
		// sorts them (SortBatches), as every writer of the commands does.  Without it the comparison below would depend on
		// the schedule.
		out = out.SortBatches()
		var got obiseq.BioSequenceSlice
		for out.Next() {
			got = append(got, out.Get().Slice()...)
		}
		obiiter.WaitForLastPipe()
		sort.SliceStable(got, func(a, b int) bool { return c12ReadNo(got[a].Id()) < c12ReadNo(got[b].Id()) })
		for _, s := range got {
			outRecs = append(outRecs, c12RecStr(s))
		}
		if m.unid {
			if fi, err := os.Stat(unidFn); err != nil {
				return "no-unidentified-file"
			} else if fi.Size() > 0 {
				rd, err := obiformats.ReadSequencesFromFile(unidFn)
				if err != nil {
					return "unidentified-file-unreadable"
				}
				// ReadFasta cuts the file into chunks — for a small file: everything but the last record, then the last record —
				// parsed by parallel workers; the header-parsing stage (IParseFastSeqHeaderBatch) delivers the numbered batches
				// in ARRIVAL order and Load() appends them as they come (Model/IterMore.lean `load`: "the callers sort
				// upstream").  Reading the batches in batch order is the harness's job: with a bare Load() the last record of
				// the file came first in ~5 % of the readings (reproduced on a 6-record file: 187 of 3000 readings, 0 of 3000 with
				// SortBatches), and the stable sort by read number below then exchanged the last two records of one read (alarm
				// of the unchanged-tree sweep, thorough seed 1).  The FILE was in the right order: checked below on its bytes.
				_, us := rd.SortBatches().Load()
				if raw, err := os.ReadFile(unidFn); err == nil {
					var fileIds, readIds []string
					for _, ln := range strings.Split(string(raw), "\n") {
						if strings.HasPrefix(ln, ">") {
							fileIds = append(fileIds, strings.Fields(ln[1:] + " ")[0])
						}
					}
					for _, s := range us {
						readIds = append(readIds, s.Id())
					}
					if strings.Join(fileIds, " ") != strings.Join(readIds, " ") {
						unidOrder = "records of the -u file in file order: " + strings.Join(fileIds, " ") + "  VERSUS read back in batch order: " + strings.Join(readIds, " ")
					}
					sorted := sort.SliceIsSorted(fileIds, func(a, b int) bool { return c12ReadNo(fileIds[a]) < c12ReadNo(fileIds[b]) })
					if !sorted {
						unidOrder = "the -u file does not hold the records in the order of the reads: " + strings.Join(fileIds, " ")
					}
				}
				sort.SliceStable(us, func(a, b int) bool { return c12ReadNo(us[a].Id()) < c12ReadNo(us[b].Id()) })
				for _, s := range us {
					e, _ := s.GetAttribute("obimultiplex_error")
					unidRecs = append(unidRecs, s.Id()+"|"+hx([]byte(s.String()))+"|"+fmt.Sprint(e))
				}
			}
		}
		return "ok"
	})
	stat(fmt.Sprintf("multi.route-keep%d-unid%d", c12b(m.keep), c12b(m.unid)))
	if mst != "ok" {
		fails = append(fails, Fail{"mplex.abort", "the obimultiplex stage ended with: " + mst})
		return res + " || " + mst, fails
	}
	us := "-"
	if m.unid {
		us = strings.Join(unidRecs, " ## ")
	}
	if unidOrder != "" {
		fails = append(fails, Fail{"mplex.unid-file-order", unidOrder})
	}
	// oracle (statement of the property): without --keep-errors / with -u every record of the main output carries a sample and
	// no error; with -u every unidentified record carries an error; nothing is lost
	total := 0
	for _, h := range hist {
		k, _ := strconv.Atoi(strings.Fields(h)[1])
		total += k
	}
	if !m.keep || m.unid {
		for _, r := range outRecs {
			if strings.Contains(r, "obimultiplex_error=") || !strings.Contains(r, ";sample=") {
				fails = append(fails, Fail{"mplex.unassigned-in-output", "record of the main output without sample or with an error: " + r})
				break
			}
		}
	}
	if m.keep && !m.unid && len(outRecs) != total {
		fails = append(fails, Fail{"mplex.lost", fmt.Sprintf("--keep-errors: %d records produced, %d written", total, len(outRecs))})
	}
	if m.unid && len(outRecs)+len(unidRecs) != total {
		fails = append(fails, Fail{"mplex.lost", fmt.Sprintf("-u: %d records produced, %d + %d written", total, len(outRecs), len(unidRecs))})
	}
	return res + " || out " + strings.Join(outRecs, " ## ") + " || unid " + us, fails
}

// ------------------------------------------------------------------------------------------------
// generators
// ------------------------------------------------------------------------------------------------

// a read carrying one amplicon of marker mi with the given OBSERVED tags (exact primers, random flanks and orientation)
func c12ReadWith(rng *rand.Rand, c *c12Case, mi int, ftag, rtag string) []byte {
	m := c.markers[mi]
	side := func(tag string, sp int, dl byte) string {
		if dl == 0 {
			return tag + c12Rand(rng, sp, "acgt")
		}
		d := string([]byte{dl})
		return c12Rand(rng, 1, c12Without("acgt", dl)) + strings.Repeat(d, sp) + tag + strings.Repeat(d, sp)
	}
	pf, _ := c12Instance(rng, m.fp, 0)
	pr, _ := c12Instance(rng, m.rp, 0)
	text := side(ftag, m.fsp, m.fdl) + pf + c12Rand(rng, 5+rng.Intn(40), "acgt") + c12Rc(side(rtag, m.rsp, m.rdl)+pr)
	if rng.Intn(2) == 0 {
		text = c12Rc(text)
	}
	return []byte(c12Rand(rng, 1+rng.Intn(12), "acgt") + text + c12Rand(rng, 1+rng.Intn(12), "acgt"))
}

// a library made for histories: nearest-tag matching, the same tag length on both sides, the tags of both sides drawn
// from one pool but the forward and reverse tag SETS different (combinatorial design with unused combinations)
func c12HistLibrary(rng *rand.Rand) (*c12Case, []string) {
	c := &c12Case{format: "c", style: rng.Intn(64), e: -1, id: "r0"}
	mode := "h"
	if rng.Intn(2) == 0 {
		mode = "i"
	}
	tl := 4 + rng.Intn(5)
	var pool []string
	k := 1 + rng.Intn(2)
	for i := 0; i < k; i++ {
		var m c12Marker
		m.fp, m.rp = c12Rand(rng, 17+rng.Intn(6), "acgt"), c12Rand(rng, 17+rng.Intn(6), "acgt")
		m.mode, m.ferr, m.rerr = mode, 2, 2
		m.fsp, m.rsp = rng.Intn(3), rng.Intn(3)
		if rng.Intn(5) == 0 { // delimited (and, half of the time, rescue) extraction
			m.fdl = "acgt"[rng.Intn(4)]
			m.rdl = m.fdl
			m.fsp, m.rsp = 1+rng.Intn(2), 1+rng.Intn(2)
			if rng.Intn(2) == 0 {
				m.fin, m.rin = 1, 1
			}
		}
		alpha := c12Without("acgt", m.fdl)
		var tags []string
		for len(tags) < 5 {
			t := c12Rand(rng, tl, alpha)
			if len(tags) > 0 && rng.Intn(2) == 0 {
				t = c12Mutate(rng, tags[rng.Intn(len(tags))], alpha, false) // close neighbours: ties and near ties
			}
			dup := false
			for _, x := range tags {
				dup = dup || x == t
			}
			if !dup {
				tags = append(tags, t)
			}
		}
		// forward tags among tags[0..3], reverse tags among tags[1..4]
		seen := map[string]bool{}
		ns := 2 + rng.Intn(5)
		for j := 0; j < ns; j++ {
			s := c12Sample{ftag: tags[rng.Intn(4)], rtag: tags[1+rng.Intn(4)], name: fmt.Sprintf("s%d_%d", i, j), exp: "e"}
			if seen[s.ftag+":"+s.rtag] {
				continue
			}
			seen[s.ftag+":"+s.rtag] = true
			m.samples = append(m.samples, s)
		}
		pool = append(pool, tags...)
		c.markers = append(c.markers, m)
	}
	return c, pool
}

func c12GenMulti(rng *rand.Rand, tier string, emit func(string)) {
	nhist, nfree := 70, 40
	if tier == "thorough" {
		nhist, nfree = 110, 60
	}
	// hand-picked history (the shape of the stale-cache regression): forward tags {aacctt, ggttaa}, reverse tags {aacctg, ccaagg};
	// read 0 shows aacctg as a FORWARD tag (nearest forward tag aacctt at distance 1), read 1 shows aacctg as a REVERSE tag (declared)
	{
		P1, P2 := "ggtcaacaaatcataaagatattgg", "taaacttcagggtgaccaaaaaatca"
		mk := c12Marker{fp: P1, rp: P2, mode: "h", ferr: 2, rerr: 2, samples: []c12Sample{
			{"aacctt", "aacctg", "s1", "e", ""}, {"ggttaa", "ccaagg", "s2", "e", ""}, {"aacctt", "ccaagg", "s3", "e", ""}}}
		for _, mode := range []string{"h", "i"} {
			mk.mode = mode
			c := &c12Case{format: "c", style: 0, e: -1, markers: []c12Marker{mk}}
			bc := "ttagccatgacgtagctagctaggatc"
			rd := func(ft, rt string) []byte { return []byte("acgtac" + ft + P1 + bc + c12Rc(rt+P2) + "ttgaca") }
			for _, opt := range [][2]bool{{false, false}, {true, false}, {false, true}} {
				m := &c12MultiCase{keep: opt[0], unid: opt[1], c: c}
				for i, s := range [][]byte{rd("aacctg", "ccaagg"), rd("aacctt", "aacctg"), rd("ccaagg", "aacctt"), []byte(c12Rc(string(rd("aacctt", "aacctg")))), []byte("acgtacgtacgtacgt")} {
					m.ids = append(m.ids, fmt.Sprintf("r%d", i))
					m.seqs = append(m.seqs, s)
				}
				emit(m.line())
			}
		}
	}
	opts := func() (bool, bool) {
		switch rng.Intn(4) {
		case 0:
			return true, false
		case 1:
			return false, true
		case 2:
			return true, true
		}
		return false, false
	}
	// histories on libraries made for them: the same (erroneous or declared) tag string shows up on either side of later reads
	for i := 0; i < nhist; i++ {
		c, _ := c12HistLibrary(rng)
		m := &c12MultiCase{c: c}
		m.keep, m.unid = opts()
		n := 3 + rng.Intn(6)
		// the strings of this history: declared tags of both sides and a few erroneous versions of them
		var words [][]string
		for _, mk := range c.markers {
			var w []string
			for _, s := range mk.samples {
				w = append(w, s.ftag, s.rtag)
			}
			alpha := c12Without("acgt", mk.fdl)
			for k := 0; k < 3; k++ {
				w = append(w, c12Mutate(rng, w[rng.Intn(len(w))], alpha, mk.mode == "i" && (mk.fdl != 0) && rng.Intn(2) == 0))
			}
			words = append(words, w)
		}
		for r := 0; r < n; r++ {
			mi := rng.Intn(len(c.markers))
			mk := c.markers[mi]
			s := mk.samples[rng.Intn(len(mk.samples))]
			ft, rt := s.ftag, s.rtag
			w := words[mi]
			switch rng.Intn(6) {
			case 0:
				ft = w[rng.Intn(len(w))]
			case 1:
				rt = w[rng.Intn(len(w))]
			case 2:
				ft, rt = w[rng.Intn(len(w))], w[rng.Intn(len(w))]
			case 3: // the previous read's tags, sides exchanged
				ft, rt = rt, ft
			}
			m.ids = append(m.ids, fmt.Sprintf("r%d", r))
			m.seqs = append(m.seqs, c12ReadWith(rng, c, mi, ft, rt))
		}
		stat("multi.history-made")
		emit(m.line())
	}
	// data sets of generated reads (every class of c12Read: chimeras, lone sites, truncated reads …) on random libraries
	for i := 0; i < nfree; i++ {
		c := c12Library(rng)
		m := &c12MultiCase{c: &c12Case{format: c.format, style: c.style, e: c.e, indel: c.indel, markers: c.markers}}
		m.keep, m.unid = opts()
		n := 2 + rng.Intn(7)
		for r := 0; r < n; r++ {
			c12Read(rng, c)
			m.ids = append(m.ids, fmt.Sprintf("r%d", r))
			m.seqs = append(m.seqs, append([]byte{}, c.seq...))
		}
		stat("multi.dataset-made")
		emit(m.line())
	}
}
