//go:build c08

package main

// conc — paired-end assembly under concurrent use. obipairing (and obitagpcr through the same function) runs
// IAssemblePESequencesBatch with N workers; every worker calls AssemblePESequences -> PEAlign (Index4mer,
// FastShiftFourMer, the two fills, _Backtracking) -> BuildQualityConsensus on its OWN arena (MakePEAlignArena(150,150):
// score / path matrices, path buffer, 4-mer index, four alignment rows) and its OWN shifts map, both created inside the
// worker closure; the workers SHARE the score tables of pkg/obialign (_NucPartMatch, _NucScorePartMatchMatch/Mismatch:
// filled once behind sync.Once by the first PEAlign, whichever worker gets there first), the read-only code tables
// (_FourBitsBaseCode/_FourBitsBaseDecode, the 4-mer code table of obikmer), the parameters captured by the closure and the
// byte-slice / annotation pools of obiseq (NewBioSequence, ReverseComplement(true), Recycle with inplace = true).
//
//	conc <g> <r> <race> <fast> <rel> <delta> <gi> <si> <minov> <idn> <idd> <n>  n × [ <A> <QA> <B> <QB> ]
//	     -> <pl-result of pair 1> ;; <pl-result of pair 2> ;; ...
//
// The result line is what the n pairs answer one after the other on one worker state (the model recomputes each
// with the existing sequential `pl` clause: vote, score along the path, consensus, record and all annotations; Exec
// appends " | <gap penalty> <adj table> n × [ <isLeft> <path> <column scores> ]"). The oracle then runs, in a CHILD
// process of this same binary (a crash of the Go runtime — concurrent map writes, an index out of range in a worker
// goroutine of the real pipeline — is then a reported failure with its input, not a dead harness; and the child starts
// COLD: its very first PEAlign calls are the concurrent ones, so the one-time initialisation of the shared tables is
// exercised, fix 4b389da):
//
//	phase a: g goroutines released together, each with its own arena and shifts map as the real worker, r rounds
//	         over the n pairs (PEAlign, BuildQualityConsensus, then the worker's call AssemblePESequences(A,
//	         B.ReverseComplement(true), ..., inplace = true)); then the pairs alone; every concurrent answer must be
//	         the answer obtained alone (conc.differs / conc.panic);
//	phase b: the real IAssemblePESequencesBatch with g workers on a paired iterator of g*r batches holding the n
//	         pairs (reverse reads as the sequencer gives them); every record that comes out must be the record
//	         obtained alone (conc.batch-differs / conc.batch-lost).
//
// race = 1 (thorough tier, first seed): the child is a `go build -race` build of this harness; a report of the race
// detector whose racing access lies in pkg/obialign, pkg/obikmer or pkg/obitools/obipairing is a failure (race.detector).

import (
	"bytes"
	"context"
	"fmt"
	"math"
	"math/rand"
	"os"
	"os/exec"
	"path/filepath"
	"strconv"
	"strings"
	"sync"
	"time"

	"git.metabarcoding.org/obitools/obitools4/obitools4/pkg/obialign"
	"git.metabarcoding.org/obitools/obitools4/obitools4/pkg/obiiter"
	"git.metabarcoding.org/obitools/obitools4/obitools4/pkg/obiseq"
	"git.metabarcoding.org/obitools/obitools4/obitools4/pkg/obitools/obipairing"
)

type c08ConcPair struct {
	A, QA, B, QB []byte
	rB, rQB      []byte // the reverse read as the sequencer gives it
	vnum, vden   int    // naive 4-mer vote (for the canonical print of the relative fast score)
}

type c08ConcCase struct {
	g, r                           int
	race                           bool
	fast, rel                      bool
	delta, gi, si, minov, idn, idd int
	pairs                          []c08ConcPair
	head                           string // the eight setting fields, as in a pl line
}

func c08ParseConc(c string) (*c08ConcCase, bool) {
	if k := strings.Index(c, " | "); k >= 0 {
		c = c[:k]
	}
	f := strings.Fields(c)
	if len(f) < 13 || f[0] != "conc" {
		return nil, false
	}
	var v [12]int
	for i := range v {
		x, err := strconv.Atoi(f[1+i])
		if err != nil || x < 0 {
			return nil, false
		}
		v[i] = x
	}
	g, r, race, n := v[0], v[1], v[2], v[11]
	if g < 1 || g > 64 || r < 1 || r > 200 || race > 1 || n < 1 || n > 32 || len(f) != 13+4*n ||
		v[3] > 1 || v[4] > 1 || v[6] >= len(c08Gaps) || v[7] >= len(c08Scales) || v[10] == 0 {
		return nil, false
	}
	cc := &c08ConcCase{g: g, r: r, race: race == 1, fast: v[3] == 1, rel: v[4] == 1, delta: v[5], gi: v[6], si: v[7],
		minov: v[8], idn: v[9], idd: v[10], head: strings.Join(f[4:12], " ")}
	for i := 0; i < n; i++ {
		w := f[13+4*i : 17+4*i]
		var p c08ConcPair
		var ok [4]bool
		p.A, ok[0] = unhx(w[0])
		p.QA, ok[1] = unhx(w[1])
		p.B, ok[2] = unhx(w[2])
		p.QB, ok[3] = unhx(w[3])
		if !(ok[0] && ok[1] && ok[2] && ok[3]) || len(p.A) != len(p.QA) || len(p.B) != len(p.QB) || len(p.A) == 0 || len(p.B) == 0 {
			return nil, false
		}
		for _, q := range append(append([]byte(nil), p.QA...), p.QB...) {
			if q > 93 {
				return nil, false
			}
		}
		var okr bool
		if p.rB, p.rQB, okr = c08RevComp(p.B, p.QB); !okr {
			return nil, false
		}
		for _, b := range p.A {
			if _, ok := c08Comp[b]; !ok {
				return nil, false
			}
		}
		p.vnum, p.vden = -1, 1
		if cc.fast {
			_, _, p.vnum, p.vden, _ = c08Vote(p.A, p.B, cc.rel)
		}
		cc.pairs = append(cc.pairs, p)
	}
	return cc, true
}

// c08ConcAsm prints an assembled record exactly as the fourth part of a pe / pl result
func c08ConcAsm(out *obiseq.BioSequence, vnum, vden int) string {
	an := out.Annotations()
	geti := func(k string) (int, bool) {
		x, ok := an[k].(int)
		return x, ok
	}
	md, _ := an["mode"].(string)
	dir := "-"
	if d, ok := an["ali_dir"].(string); ok {
		dir = d
	}
	ass, bss := "-", "-"
	if as, ok := geti("seq_a_single"); ok {
		ass = strconv.Itoa(as)
	}
	if bs, ok := geti("seq_b_single"); ok {
		bss = strconv.Itoa(bs)
	}
	al, _ := geti("ali_length")
	ma, _ := geti("seq_ab_match")
	sc, _ := geti("score")
	return fmt.Sprintf("%s s=%s q=%s dir=%s as=%s bs=%s al=%d ma=%d sc=%d ann=%s", md, hx(out.Sequence()), hx(out.Qualities()),
		dir, ass, bss, al, ma, sc, c08Annotations(an, al, ma, vnum, vden))
}

type c08ConcAns struct {
	whole  string // "L=.. sc=.. p=.. fc=.. ov=.. fs=.. | c=.. q=.. m=.. | <record>"
	asm    string // the record alone
	isLeft bool
	path   []int
}

// c08ConcOne: what one worker does for one pair, on the worker's own arena and shifts map
func (cc *c08ConcCase) one(i int, arena obialign.PEAlignArena, shifts *map[int]int) (ans c08ConcAns) {
	p := &cc.pairs[i]
	gap, scale := c08Gaps[cc.gi], c08Scales[cc.si]
	mk := func(id string, s, q []byte) *obiseq.BioSequence {
		return obiseq.NewBioSequenceWithQualities(id, s, "", q) // SetSequence / SetQualities copy
	}
	seqA, seqB := mk("A", p.A, p.QA), mk("B", p.B, p.QB)
	isLeft, score, pth, fastCount, over, fastScore := obialign.PEAlign(seqA, seqB, gap, scale, cc.fast, cc.delta, cc.rel, arena, shifts)
	path := append([]int(nil), pth...)
	fsStr := "-1"
	if cc.fast {
		switch {
		case p.vnum < 0 && fastScore == -1.0:
			fsStr = "-1"
		case p.vnum >= 0 && fastScore == float64(fastCount)/float64(p.vden):
			fsStr = fmt.Sprintf("%d/%d", fastCount, p.vden)
		default:
			fsStr = "?" + strconv.FormatUint(math.Float64bits(fastScore), 16)
		}
	}
	var sb strings.Builder
	fmt.Fprintf(&sb, "L=%d sc=%d p=%s fc=%d ov=%d fs=%s", b2i(isLeft), score, c08PathStr(path), fastCount, over, fsStr)
	cons, m := obialign.BuildQualityConsensus(seqA, seqB, path, true, arena)
	fmt.Fprintf(&sb, " | c=%s q=%s m=%d", hx(cons.Sequence()), hx(cons.Qualities()), m)
	// the worker's call: the reverse read is reverse-complemented in place, both reads are recycled
	out := obipairing.AssemblePESequences(mk("A", p.A, p.QA), mk("B", p.rB, p.rQB).ReverseComplement(true), gap, scale,
		cc.delta, cc.minov, float64(cc.idn)/float64(cc.idd), true, true, cc.fast, cc.rel, arena, shifts)
	ans.asm = c08ConcAsm(out, p.vnum, p.vden)
	fmt.Fprintf(&sb, " | %s", ans.asm)
	ans.whole, ans.isLeft, ans.path = sb.String(), isLeft, path
	return
}

// alone: the n pairs one after the other on one worker state
func (cc *c08ConcCase) alone() []c08ConcAns {
	arena := obialign.MakePEAlignArena(150, 150)
	shifts := make(map[int]int)
	res := make([]c08ConcAns, len(cc.pairs))
	for i := range cc.pairs {
		res[i] = cc.one(i, arena, &shifts)
	}
	return res
}

func c08Short(s string) string {
	if len(s) > 200 {
		return s[:200] + "…"
	}
	return s
}

// c08Diff: the first field in which two canonical answers differ
func c08Diff(want, got string) string {
	w, g := strings.Fields(want), strings.Fields(got)
	for i := 0; i < len(w) && i < len(g); i++ {
		if w[i] != g[i] {
			return fmt.Sprintf("alone %s, concurrently %s", c08Short(w[i]), c08Short(g[i]))
		}
	}
	return fmt.Sprintf("alone %s, concurrently %s", c08Short(want), c08Short(got))
}

// phaseA: g goroutines released together, each with its own arena and shifts map, r rounds over the pairs; returns
// every answer (goroutine, pair) -> distinct answers seen, and the number of calls that finished
func (cc *c08ConcCase) phaseA() (got [][]map[string]int, done int) {
	n := len(cc.pairs)
	got = make([][]map[string]int, cc.g)
	start := make(chan struct{})
	var wg sync.WaitGroup
	var mu sync.Mutex
	for k := 0; k < cc.g; k++ {
		got[k] = make([]map[string]int, n)
		for i := range got[k] {
			got[k][i] = map[string]int{}
		}
		wg.Add(1)
		go func(k int) {
			defer wg.Done()
			defer func() { recover() }()
			// exactly what the worker closure of IAssemblePESequencesBatch creates
			arena := obialign.MakePEAlignArena(150, 150)
			shifts := make(map[int]int)
			<-start
			// the workers do not reach their first pair at the same instant: goroutine k comes k x 25 microseconds late, well
			// inside the time the first one needs to fill the shared tables
			for t0 := time.Now(); time.Since(t0) < time.Duration(k)*25*time.Microsecond; {
			}
			for round := 0; round < cc.r; round++ {
				for j := 0; j < n; j++ {
					i := (j + k + round) % n
					a := cc.one(i, arena, &shifts)
					got[k][i][a.whole]++
					mu.Lock()
					done++
					mu.Unlock()
				}
			}
		}(k)
	}
	close(start)
	wg.Wait()
	return
}

// phaseB: the real worker pipeline with g workers on g*r batches of the n pairs
func (cc *c08ConcCase) phaseB(alone []c08ConcAns) (fails []Fail) {
	n := len(cc.pairs)
	nb := cc.g * cc.r
	gap, scale := c08Gaps[cc.gi], c08Scales[cc.si]
	nbad, total := 0, 0
	first := ""
	res := guardT(120*time.Second, func() string {
		mk := func(id string, s, q []byte) *obiseq.BioSequence {
			return obiseq.NewBioSequenceWithQualities(id, s, "", q)
		}
		it := obiiter.MakeIBioSequence()
		it.Add(1)
		go func() {
			for b := 0; b < nb; b++ {
				sl := make(obiseq.BioSequenceSlice, 0, n)
				for j := 0; j < n; j++ {
					i := (j + b) % n
					p := &cc.pairs[i]
					s := mk("s"+strconv.Itoa(i), p.A, p.QA)
					s.PairTo(mk("s"+strconv.Itoa(i), p.rB, p.rQB))
					sl = append(sl, s)
				}
				it.Push(obiiter.MakeBioSequenceBatch("src", b, sl))
			}
			it.Done()
		}()
		go it.WaitAndClose()
		it.MarkAsPaired()
		paired := obipairing.IAssemblePESequencesBatch(it, gap, scale, cc.delta, cc.minov, float64(cc.idn)/float64(cc.idd),
			cc.fast, cc.rel, true, cc.g)
		for paired.Next() {
			for _, o := range paired.Get().Slice() {
				total++
				i, err := strconv.Atoi(strings.TrimPrefix(o.Id(), "s"))
				if err != nil || i < 0 || i >= n {
					nbad++
					if first == "" {
						first = fmt.Sprintf("a record with the unknown identifier %q", o.Id())
					}
					continue
				}
				if got := c08ConcAsm(o, cc.pairs[i].vnum, cc.pairs[i].vden); got != alone[i].asm {
					nbad++
					if first == "" {
						first = fmt.Sprintf("pair %d (A %d bases, B %d bases): %s", i, len(cc.pairs[i].A), len(cc.pairs[i].B), c08Diff(alone[i].asm, got))
					}
				}
			}
		}
		return "ok"
	})
	if res != "ok" {
		fails = append(fails, Fail{"conc.batch-" + res, fmt.Sprintf("IAssemblePESequencesBatch with %d workers on %d batches of %d pairs: %s", cc.g, nb, n, res)})
		return
	}
	if total != nb*n {
		fails = append(fails, Fail{"conc.batch-lost", fmt.Sprintf("IAssemblePESequencesBatch with %d workers: %d records out for %d pairs in", cc.g, total, nb*n)})
	}
	if nbad > 0 {
		fails = append(fails, Fail{"conc.batch-differs", fmt.Sprintf("IAssemblePESequencesBatch with %d workers: %d of %d records differ from the record assembled alone; e.g. %s",
			cc.g, nbad, total, first)})
	}
	return
}

func (cc *c08ConcCase) result(alone []c08ConcAns) string {
	parts := make([]string, len(alone))
	for i, a := range alone {
		parts[i] = a.whole
	}
	return strings.Join(parts, " ;; ")
}

// the data of the model: gap penalty, adjustment table, and per pair the side, the path and its column scores
func (cc *c08ConcCase) augment(base string, alone []c08ConcAns) string {
	gap, scale := c08Gaps[cc.gi], c08Scales[cc.si]
	var sb strings.Builder
	fmt.Fprintf(&sb, "%s | %d %s", base, obialign.VerifGapPenalty(gap, scale), hx(c08Adj()))
	for i, a := range alone {
		p := &cc.pairs[i]
		ref := &c08Ref{A: p.A, QA: p.QA, B: p.B, QB: p.QB, scale: scale}
		ps := []string{}
		if c08Consumes(a.path, len(p.A), len(p.B)) {
			x, y := 0, 0
			for k := 0; k < len(a.path); k += 2 {
				if a.path[k] < 0 {
					x -= a.path[k]
				} else {
					y += a.path[k]
				}
				for m := 0; m < a.path[k+1]; m++ {
					ps = append(ps, strconv.Itoa(ref.s(x, y)))
					x++
					y++
				}
			}
		}
		pss := "-"
		if len(ps) > 0 {
			pss = strings.Join(ps, ",")
		}
		fmt.Fprintf(&sb, " %d %s %s", b2i(a.isLeft), c08PathStr(a.path), pss)
	}
	return sb.String()
}

// ---- the child: concurrent first (cold start), then alone, then the real pipeline

func c08ConcChild(cc *c08ConcCase, base string) (string, []Fail) {
	var fails []Fail
	n := len(cc.pairs)
	var got [][]map[string]int
	done := 0
	var alone []c08ConcAns
	fmt.Fprintln(os.Stderr, "c08conc-phase: a (own goroutines, own arenas)")
	res := guardT(240*time.Second, func() string {
		got, done = cc.phaseA()
		alone = cc.alone()
		return "ok"
	})
	if res != "ok" {
		return res, []Fail{{"conc." + res, fmt.Sprintf("%d goroutines x %d rounds x %d pairs, then the pairs alone: %s", cc.g, cc.r, n, res)}}
	}
	caseOverride = cc.augment(base, alone)
	want := cc.g * cc.r * n
	if done != want {
		fails = append(fails, Fail{"conc.panic", fmt.Sprintf("%d of %d concurrent calls did not finish (panic in PEAlign / BuildQualityConsensus / AssemblePESequences)", want-done, want)})
	}
	nbad, total := 0, 0
	first := ""
	for k := range got {
		for i := range got[k] {
			for a, c := range got[k][i] {
				total += c
				if a != alone[i].whole {
					nbad += c
					if first == "" {
						first = fmt.Sprintf("pair %d (A %d bases, B %d bases) in goroutine %d: %s", i, len(cc.pairs[i].A), len(cc.pairs[i].B), k, c08Diff(alone[i].whole, a))
					}
				}
			}
		}
	}
	if nbad > 0 {
		fails = append(fails, Fail{"conc.differs", fmt.Sprintf("%d of %d concurrent calls (%d goroutines, each with its own arena and shifts map) differ from the call run alone; e.g. %s",
			nbad, total, cc.g, first)})
	}
	if len(fails) == 0 {
		fmt.Fprintln(os.Stderr, "c08conc-phase: b (IAssemblePESequencesBatch)")
		fails = append(fails, cc.phaseB(alone)...)
	} else {
		stat("conc:batch-skipped")
	}
	fmt.Fprintln(os.Stderr, "c08conc-phase: end")
	return cc.result(alone), fails
}

// ---- the parent

var (
	c08RaceBin   string
	c08RaceTried bool
)

func c08RepoDir() string {
	if d := os.Getenv("VERIF_REPO"); d != "" {
		return d
	}
	return "/repo"
}

func c08RaceBuild() string {
	if c08RaceTried {
		return c08RaceBin
	}
	c08RaceTried = true
	root := os.Getenv("VERIF_ROOT")
	if root == "" {
		root = "/verif"
	}
	bin := filepath.Join(binDir(), "harness_C08_race")
	args := []string{"build", "-race", "-tags", "verif,c08", "-o", bin}
	if repo := c08RepoDir(); repo != "/repo" {
		// a scratch tree is under check: an alternative go.mod of our own (go.alt.mod of the driver is shared by every
		// engineer checking a scratch tree at the same time)
		hs := filepath.Join(root, "harness")
		alt := filepath.Join(binDir(), "go.c08race.mod") // with its go.c08race.sum next to it
		mod, err1 := os.ReadFile(filepath.Join(hs, "go.mod"))
		sum, err2 := os.ReadFile(filepath.Join(hs, "go.sum"))
		if err1 != nil || err2 != nil || !strings.Contains(string(mod), "=> /repo") ||
			os.WriteFile(alt, []byte(strings.ReplaceAll(string(mod), "=> /repo", "=> "+repo)), 0o644) != nil ||
			os.WriteFile(filepath.Join(binDir(), "go.c08race.sum"), sum, 0o644) != nil {
			stat("conc:race-build-no-alt-mod")
			return ""
		}
		args = append(args, "-modfile", alt)
	}
	build := exec.Command("go", append(args, ".")...)
	build.Dir = filepath.Join(root, "harness")
	build.Env = append(os.Environ(), "GOWORK=off", "GOFLAGS=-mod=mod", "GOPROXY=off", "GOSUMDB=off", "GOTOOLCHAIN=local", "CGO_CFLAGS=-w -O2 -g")
	if _, err := build.CombinedOutput(); err != nil {
		stat("conc:race-build-failed")
		return ""
	}
	stat("conc:race-build-ok")
	c08RaceBin = bin
	return bin
}

// c08RaceReports: the reports of the race detector whose racing access (innermost frame of either access) lies in
// the anchored packages
func c08RaceReports(stderr string) (ours, other int, where []string) {
	anchored := []string{"/pkg/obialign/", "/pkg/obikmer/", "/pkg/obitools/obipairing/"}
	for _, block := range strings.Split(stderr, "==================") {
		if !strings.Contains(block, "WARNING: DATA RACE") {
			continue
		}
		inAccess, mine := false, false
		for _, l := range strings.Split(block, "\n") {
			t := strings.TrimSpace(l)
			switch {
			case strings.HasPrefix(t, "Read at"), strings.HasPrefix(t, "Write at"), strings.HasPrefix(t, "Previous read at"),
				strings.HasPrefix(t, "Previous write at"), strings.HasPrefix(t, "Atomic"), strings.HasPrefix(t, "Previous atomic"):
				inAccess = true
			case strings.HasPrefix(t, "Goroutine "):
				inAccess = false
			case inAccess && strings.Contains(t, ".go:"):
				inAccess = false
				for _, a := range anchored {
					if strings.Contains(t, a) && !strings.Contains(t, "verif_hooks") {
						mine = true
						loc := t[strings.LastIndex(t, "/pkg/")+1:]
						if k := strings.IndexByte(loc, ' '); k > 0 {
							loc = loc[:k]
						}
						dup := false
						for _, w := range where {
							dup = dup || w == loc
						}
						if !dup && len(where) < 4 {
							where = append(where, loc)
						}
					}
				}
			}
		}
		if mine {
			ours++
		} else {
			other++
		}
	}
	return
}

func c08ExecConc(c string) (string, []Fail) {
	cc, ok := c08ParseConc(c)
	if !ok {
		caseTrivial = true
		return "bad-op", nil
	}
	base := c
	if k := strings.Index(c, " | "); k >= 0 {
		base = c[:k]
	}
	if os.Getenv("VERIF_C08_CONC_CHILD") != "" {
		return c08ConcChild(cc, base)
	}
	stat("op:conc")
	stat(fmt.Sprintf("conc:g%d-r%d-n%d", cc.g, cc.r, len(cc.pairs)))
	if cc.fast {
		stat("conc:fast")
	} else {
		stat("conc:exact")
	}
	// the child first: this process must not have filled the shared tables for it (it has its own anyway), and a
	// child that dies must not take the answers of this process with it
	var fails []Fail
	bin, err := os.Executable()
	env := append(os.Environ(), "VERIF_C08_CONC_CHILD=1")
	if cc.race {
		if rb := c08RaceBuild(); rb != "" {
			bin, err = rb, nil
			env = append(env, "GORACE=halt_on_error=0")
			stat("conc:race-child")
		} else {
			stat("conc:race-unavailable")
		}
	}
	childRes := ""
	if err != nil {
		stat("conc:child-unavailable")
	} else {
		ctx, cancel := context.WithTimeout(context.Background(), 600*time.Second*watchdogScale())
		cmd := exec.CommandContext(ctx, bin, "C08", "exec")
		cmd.Stdin = strings.NewReader(base + "\n")
		cmd.Env = env
		var stdout, stderr bytes.Buffer
		cmd.Stdout, cmd.Stderr = &stdout, &stderr
		runErr := cmd.Run()
		timedOut := ctx.Err() == context.DeadlineExceeded
		cancel()
		seen := false
		for _, l := range strings.Split(stdout.String(), "\n") {
			f := strings.Split(l, "\t")
			if f[0] == "C" && len(f) >= 3 {
				childRes, seen = f[2], true
			}
			if f[0] == "F" && len(f) >= 4 {
				fails = append(fails, Fail{f[1], f[3]})
				stat("conc:FAIL-" + f[1])
			}
			if f[0] == "S" && len(f) >= 3 && strings.HasPrefix(f[1], "conc:") {
				stat(f[1])
			}
		}
		if timedOut {
			fails = append(fails, Fail{"conc.hang", fmt.Sprintf("the concurrent run (%d workers, %d rounds, %d pairs) did not finish", cc.g, cc.r, len(cc.pairs))})
		} else if raceExit := cc.race && seen && cmd.ProcessState != nil && cmd.ProcessState.ExitCode() == 66; (runErr != nil && !raceExit) || !seen {
			// (66 = the exit status of a process in which the race detector reported something; see race.detector below)
			// the Go runtime killed the child: unrecovered panic in a goroutine of the real pipeline, concurrent map access, ...
			phase, why := "?", ""
			for _, l := range strings.Split(stderr.String(), "\n") {
				if strings.HasPrefix(l, "c08conc-phase: ") {
					phase = strings.TrimPrefix(l, "c08conc-phase: ")
				}
				if why == "" && (strings.HasPrefix(l, "panic:") || strings.HasPrefix(l, "fatal error:") || strings.Contains(l, "SIGSEGV")) {
					why = l
				}
			}
			if why == "" {
				why = fmt.Sprintf("%v", runErr)
			}
			fails = append(fails, Fail{"conc.panic", fmt.Sprintf("the concurrent run (%d workers, %d rounds, %d pairs) killed the process in phase %s: %s",
				cc.g, cc.r, len(cc.pairs), phase, c08Short(why))})
		} else {
			stat("conc:child-ok")
		}
		if cc.race {
			ours, other, where := c08RaceReports(stderr.String())
			if other > 0 {
				stat("conc:race-elsewhere")
			}
			if ours > 0 {
				fails = append(fails, Fail{"race.detector", fmt.Sprintf("the Go race detector reports %d data race(s) in the pairing code (at %s)", ours, strings.Join(where, ", "))})
			}
		}
	}
	// the answers of this process, alone
	var alone []c08ConcAns
	res := guardT(60*time.Second, func() string {
		alone = cc.alone()
		return "ok"
	})
	if res != "ok" {
		fails = append(fails, Fail{"conc.alone-" + res, fmt.Sprintf("the %d pairs one after the other: %s", len(cc.pairs), res)})
		return res, fails
	}
	caseOverride = cc.augment(base, alone)
	out := cc.result(alone)
	for _, a := range alone {
		stat("conc:mode-" + strings.Fields(a.asm)[0])
	}
	if childRes != "" && childRes != out && childRes != "panic" && childRes != "fatal" && childRes != "hang" {
		// the process that started with the concurrent calls answers differently when it then runs the pairs alone
		fails = append(fails, Fail{"conc.cold-start", "after a concurrent cold start the pairs run alone answer differently: " + c08Diff(out, childRes)})
	}
	return out, fails
}

// c08GenConc: pairs of 100..250 bases cut from one fragment (overlaps of 20..150, substitutions, indels and IUPAC symbols in
// most pairs so that fast mode runs its local DP, some error-free so that it takes the identical-overlap branch, one unrelated
// pair), one setting per case as one obipairing run has
func c08GenConc(rng *rand.Rand, tier string, emit func(string)) {
	g := &c08Gen{rng: rng, emit: emit}
	ncase, gor, rounds, lmin, lspan := 4, 8, 3, 100, 120
	if tier == "thorough" {
		ncase, gor, rounds, lmin, lspan = 10, 16, 6, 100, 200
	}
	firstSeed := false
	for i, a := range os.Args {
		if a == "-seed" && i+1 < len(os.Args) {
			s, err := strconv.Atoi(os.Args[i+1])
			firstSeed = err == nil && s%1000 == 0
		}
	}
	for c := 0; c < ncase; c++ {
		fast, rel, delta, gi, si, minov, idn, idd := g.settings()
		fast = c % 2 // exact and fast alternate
		if c < 2 {
			gi, si, minov, idn, idd = 0, 0, 20, 9, 10 // the defaults of obipairing
		}
		race := 0
		if tier == "thorough" && firstSeed && c < 2 {
			race = 1
		}
		n := 4 + rng.Intn(3)
		var b strings.Builder
		fmt.Fprintf(&b, "conc %d %d %d %d %d %d %d %d %d %d %d %d", gor, rounds, race, fast, rel, delta, gi, si, minov, idn, idd, n)
		for i := 0; i < n; i++ {
			la, lb := lmin+rng.Intn(lspan), lmin+rng.Intn(lspan)
			ov := 20 + rng.Intn(min(la, lb)-19)
			var a0, b0 int
			switch rng.Intn(5) {
			case 0: // B first
				b0, a0 = 0, lb-ov
			case 1: // identical starts
				a0, b0 = 0, 0
			default:
				a0, b0 = 0, la-ov
			}
			F := g.frag(max(a0+la, b0+lb), 0)
			A := append([]byte(nil), F[a0:a0+la]...)
			B := append([]byte(nil), F[b0:b0+lb]...)
			switch {
			case i == 0: // error free: the identical-overlap branch of fast mode
			case i == 1 && rng.Intn(2) == 0: // unrelated reads
				B = g.frag(lb, 0)
			default:
				psub := []float64{0.005, 0.02, 0.05}[rng.Intn(3)]
				pind := []float64{0, 0.01, 0.03}[rng.Intn(3)]
				piu := []float64{0, 0, 0.02}[rng.Intn(3)]
				A, B = g.mutate(A, psub, pind, piu), g.mutate(B, psub, pind, piu)
			}
			if len(A) == 0 {
				A = []byte{'a'}
			}
			if len(B) == 0 {
				B = []byte{'c'}
			}
			// mostly the qualities of a real run (30..41, decaying), sometimes one of the seven profiles of the other cases
			ql := func(m int) []byte {
				if rng.Intn(4) == 0 {
					return g.quals(m)
				}
				q := make([]byte, m)
				for k := range q {
					q[k] = byte(41 - (k*12)/(m+1) - rng.Intn(4))
				}
				return q
			}
			fmt.Fprintf(&b, " %s %s %s %s", hx(A), hx(ql(len(A))), hx(B), hx(ql(len(B))))
		}
		emit(b.String())
		stat("gen:conc")
	}
}
