//go:build c07

package main

import (
	"fmt"
	"math/rand"
	"sort"
	"strconv"
	"strings"
	"time"

	"git.metabarcoding.org/obitools/obitools4/obitools4/pkg/obiseq"
)

type c07 struct{}

func init() { props["C07"] = c07{} }

const c07Alpha = "acgtrymkswbdhvn.-[]"

func c07RandSeq(rng *rand.Rand, n int, upper bool) []byte {
	s := make([]byte, n)
	for i := range s {
		if rng.Intn(3) == 0 {
			s[i] = c07Alpha[rng.Intn(len(c07Alpha))]
		} else {
			s[i] = "acgt"[rng.Intn(4)]
		}
		if upper && s[i] >= 'a' && s[i] <= 'z' && rng.Intn(2) == 0 {
			s[i] -= 32
		}
	}
	return s
}

func (c07) Gen(rng *rand.Rand, tier string, emit func(string)) {
	for b := 0; b < 256; b++ {
		emit(fmt.Sprintf("comp %d", b))
	}
	// exhaustive short strings over the 19-symbol alphabet: length <= 2 (quick), <= 3 (thorough)
	maxl := 2
	if tier == "thorough" {
		maxl = 3
	}
	var rec func(cur []byte, l int)
	rec = func(cur []byte, l int) {
		if len(cur) == l {
			emit(fmt.Sprintf("rc %s -", hx(cur)))
			return
		}
		for i := 0; i < len(c07Alpha); i++ {
			rec(append(cur, c07Alpha[i]), l)
		}
	}
	for l := 0; l <= maxl; l++ {
		rec(nil, l)
	}
	// every window of a few sequences, linear and circular
	for _, n := range []int{1, 2, 5, 6} {
		s := c07RandSeq(rng, n, false)
		for f := -1; f <= n+2; f++ {
			for t := -1; t <= n+2; t++ {
				for c := 0; c < 2; c++ {
					if c == 1 && t < 0 {
						continue
					}
					emit(fmt.Sprintf("sub %s %d %d %d", hx(s), f, t, c))
					emit(fmt.Sprintf("submut %d %d %d %d %d", n, f, t, c, 1+rng.Intn(n)))
				}
			}
		}
	}
	emit("sub - 0 0 1")
	emit("sub - 0 1 0")
	// the histories that expose a shared object or buffer
	for _, h := range []string{
		"hist new:a:61636774:- rc:a:b rc:b:c set:c:0:110",
		"hist new:a:61636774:01020304 rc:a:b set:a:0:110 rc:b:c",
		"hist new:a:6163677461:- rc:a:b recycle:a rc:b:c",
		"hist new:a:6163677461:- rc:a:b rci:b",
		"hist new:a:6163677461:0102030405 copy:a:b set:b:1:110 recycle:b sub:a:c:1:4:0 set:c:0:110",
		"hist new:a:6163677461:- rc:a:b copy:b:c rc:c:d set:d:2:110",
		"hist new:a:6163677461:- mapset:a:merged_sample:s1:3 copy:a:b mapset:b:merged_sample:s1:100",
		"hist new:a:6163677461:- mapset:a:merged_sample:s1:3 sub:a:b:1:4:0 mapset:a:merged_sample:s2:7 rc:b:c mapset:c:merged_sample:s1:9",
		"hist new:a:6163677461:0102030405 mapset:a:m2:s3:1 rc:a:b mapset:b:m2:s3:2 recycle:a",
	} {
		emit(h)
	}
	n := 1500
	if tier == "thorough" {
		n = 12000
	}
	for i := 0; i < n; i++ {
		switch rng.Intn(6) {
		case 0, 1:
			l := rng.Intn(40)
			if rng.Intn(10) == 0 {
				l = 200 + rng.Intn(300)
			}
			s := c07RandSeq(rng, l, true)
			q := "-"
			if rng.Intn(2) == 0 {
				qb := make([]byte, l)
				for j := range qb {
					qb[j] = byte(rng.Intn(94))
				}
				q = hx(qb)
			}
			emit(fmt.Sprintf("rc %s %s", hx(s), q))
		case 2:
			l := 1 + rng.Intn(30)
			s := c07RandSeq(rng, l, false)
			f, t := rng.Intn(l+1), rng.Intn(l+2)
			emit(fmt.Sprintf("sub %s %d %d %d", hx(s), f, t, rng.Intn(2)))
		case 3:
			l := 1 + rng.Intn(60)
			k := fmt.Sprintf("(%c:%02d)->(%c:%02d)", "acgt-"[rng.Intn(5)], rng.Intn(41), "acgt-"[rng.Intn(5)], rng.Intn(41))
			emit(fmt.Sprintf("rcmut %d %s %d", l, hx([]byte(k)), 1+rng.Intn(l)))
		case 4:
			l := 1 + rng.Intn(30)
			f, t := rng.Intn(l+1), rng.Intn(l+2)
			emit(fmt.Sprintf("submut %d %d %d %d %d", l, f, t, rng.Intn(2), 1+rng.Intn(l)))
		case 5:
			// random history over up to 4 objects
			names := []string{"a"}
			l := 1 + rng.Intn(12)
			q := "-"
			if rng.Intn(2) == 0 {
				qb := make([]byte, l)
				for j := range qb {
					qb[j] = byte(rng.Intn(42))
				}
				q = hx(qb)
			}
			ops := []string{fmt.Sprintf("new:a:%s:%s", hx(c07RandSeq(rng, l, false)), q)}
			for k := 0; k < 3+rng.Intn(8); k++ {
				src := names[rng.Intn(len(names))]
				dst := string(rune('a' + len(names)))
				switch rng.Intn(8) {
				case 7:
					ops = append(ops, fmt.Sprintf("mapset:%s:merged_sample:%s:%d", src, []string{"s1", "s2"}[rng.Intn(2)], rng.Intn(50)))
				case 0:
					ops = append(ops, fmt.Sprintf("copy:%s:%s", src, dst))
					names = append(names, dst)
				case 1, 2:
					ops = append(ops, fmt.Sprintf("rc:%s:%s", src, dst))
					names = append(names, dst)
				case 3:
					ops = append(ops, "rci:"+src)
				case 4:
					f := rng.Intn(l)
					ops = append(ops, fmt.Sprintf("sub:%s:%s:%d:%d:%d", src, dst, f, f+1+rng.Intn(l), rng.Intn(2)))
					names = append(names, dst)
				case 5:
					ops = append(ops, fmt.Sprintf("set:%s:%d:110", src, rng.Intn(l)))
				case 6:
					if rng.Intn(3) == 0 {
						ops = append(ops, "recycle:"+src)
					} else {
						ops = append(ops, fmt.Sprintf("mapset:%s:%s:%s:%d", src, []string{"merged_sample", "m2"}[rng.Intn(2)], []string{"s1", "s2", "s3"}[rng.Intn(3)], rng.Intn(100)))
					}
				}
				if len(names) > 6 {
					break
				}
			}
			emit("hist " + strings.Join(ops, " "))
		}
	}
}

func c07Dump(objs map[string]*obiseq.BioSequence, names []string) map[string]string {
	d := map[string]string{}
	for _, n := range names {
		o := objs[n]
		q := "none"
		if o.HasQualities() {
			q = hx(o.Qualities())
		}
		d[n] = hx(o.Sequence()) + "/" + q + "/" + c07Ann(o)
	}
	return d
}

// c07Ann prints the map[string]int valued annotations, keys sorted.
func c07Ann(o *obiseq.BioSequence) string {
	if !o.HasAnnotation() {
		return ""
	}
	var keys []string
	for k, v := range o.Annotations() {
		if _, ok := v.(map[string]int); ok {
			keys = append(keys, k)
		}
	}
	sort.Strings(keys)
	var parts []string
	for _, k := range keys {
		m := o.Annotations()[k].(map[string]int)
		var ks []string
		for kk := range m {
			ks = append(ks, kk)
		}
		sort.Strings(ks)
		var es []string
		for _, kk := range ks {
			es = append(es, fmt.Sprintf("%s:%d", kk, m[kk]))
		}
		parts = append(parts, k+"{"+strings.Join(es, ",")+"}")
	}
	return strings.Join(parts, ";")
}

func c07InAlpha(s []byte) bool {
	for _, b := range s {
		if !strings.ContainsRune(c07Alpha, rune(b|0x20)) && b != '.' && b != '-' && b != '[' && b != ']' {
			return false
		}
	}
	return true
}

func naiveRC(s []byte) []byte {
	comp := map[byte]byte{'a': 't', 'c': 'g', 'g': 'c', 't': 'a', 'r': 'y', 'y': 'r', 'm': 'k', 'k': 'm', 's': 's', 'w': 'w',
		'b': 'v', 'v': 'b', 'd': 'h', 'h': 'd', 'n': 'n', '.': '.', '-': '-', '[': ']', ']': '['}
	out := make([]byte, len(s))
	for i, b := range s {
		out[len(s)-1-i] = comp[b]
	}
	return out
}

func (c07) Exec(c string) (string, []Fail) {
	f := strings.Fields(c)
	if len(f) == 0 {
		return "bad-op", nil
	}
	var fails []Fail
	fail := func(sig, format string, a ...any) {
		fails = append(fails, Fail{Sig: sig, Text: fmt.Sprintf(format, a...)})
	}
	stat("op:" + f[0])
	res := guardT(5*time.Second, func() string {
		switch {
		case f[0] == "comp" && len(f) == 2:
			b, err := strconv.Atoi(f[1])
			if err != nil || b < 0 || b > 255 {
				return "bad-op"
			}
			// reach nucComplement through a one-base sequence; upper-case input is lower-cased by SetSequence,
			// so only bytes that survive InPlaceToLower unchanged reach the function as given
			s := obiseq.NewBioSequence("x", []byte{byte(b)}, "")
			stored := s.Sequence()[0]
			r := s.ReverseComplement(true).Sequence()[0]
			if stored != byte(b) {
				caseTrivial = true
				caseOverride = fmt.Sprintf("comp %d", stored)
			}
			return strconv.Itoa(int(r))
		case f[0] == "rc" && len(f) == 3:
			s, ok1 := unhx(f[1])
			q, ok2 := unhx(f[2])
			if !ok1 || !ok2 {
				return "bad-op"
			}
			mk := func() *obiseq.BioSequence {
				x := obiseq.NewBioSequence("x", s, "")
				if f[2] != "-" {
					x.SetQualities(q)
				}
				return x
			}
			a := mk()
			r1 := a.ReverseComplement(false)
			r2 := mk().ReverseComplement(true)
			if string(r1.Sequence()) != string(r2.Sequence()) {
				fail("rc.inplace-vs-copy", "in place %q, copy %q", r2.Sequence(), r1.Sequence())
			}
			low := []byte(strings.ToLower(string(s)))
			if c07InAlpha(low) {
				if string(r1.Sequence()) != string(naiveRC(low)) {
					fail("rc.value", "rc(%q) = %q expected %q", low, r1.Sequence(), naiveRC(low))
				}
				// involution, computed on a fresh object so that no cached link can answer
				back := obiseq.NewBioSequence("y", r1.Sequence(), "")
				if f[2] != "-" {
					back.SetQualities(r1.Qualities())
				}
				bb := back.ReverseComplement(false)
				if string(bb.Sequence()) != string(low) || (f[2] != "-" && string(bb.Qualities()) != string(q)) {
					fail("rc.involution", "rc(rc(%q)) = %q", low, bb.Sequence())
				}
			}
			qs := "-"
			if f[2] != "-" {
				qs = hx(r1.Qualities())
			}
			return hx(r1.Sequence()) + " " + qs
		case f[0] == "sub" && len(f) == 5:
			s, ok := unhx(f[1])
			from, e1 := strconv.Atoi(f[2])
			to, e2 := strconv.Atoi(f[3])
			if !ok || e1 != nil || e2 != nil {
				return "bad-op"
			}
			circ := f[4] == "1"
			x := obiseq.NewBioSequence("x", s, "")
			sub, err := x.Subsequence(from, to, circ)
			if err != nil {
				return "err"
			}
			n := len(s)
			low := []byte(strings.ToLower(string(s)))
			if !circ {
				if string(sub.Sequence()) != string(low[from:to]) {
					fail("sub.value", "sub[%d:%d] = %q", from, to, sub.Sequence())
				}
				// rc(sub(s,a,b)) = sub(rc s, n-b, n-a)
				r := obiseq.NewBioSequence("r", naiveRC(low), "")
				rs, err2 := r.Subsequence(n-to, n-from, false)
				lhs := obiseq.NewBioSequence("l", sub.Sequence(), "").ReverseComplement(false)
				if err2 != nil || string(lhs.Sequence()) != string(rs.Sequence()) {
					fail("sub.rc-mirror", "rc(sub(s,%d,%d)) = %q but sub(rc s,%d,%d) = %v", from, to, lhs.Sequence(), n-to, n-from, rs)
				}
			} else if from >= 0 && from < n && to >= 0 && to <= n {
				end := to
				if !(from < to) {
					end = to + n
				}
				dbl := append(append([]byte{}, low...), low...)
				if string(sub.Sequence()) != string(dbl[from:end]) {
					fail("sub.circular-window", "circular [%d,%d) = %q expected %q", from, to, sub.Sequence(), dbl[from:end])
				}
			}
			return "ok " + hx(sub.Sequence())
		case f[0] == "rcmut" && len(f) == 4:
			l, e1 := strconv.Atoi(f[1])
			k, ok := unhx(f[2])
			p, e2 := strconv.Atoi(f[3])
			if e1 != nil || !ok || e2 != nil || l < 1 {
				return "bad-op"
			}
			x := obiseq.NewBioSequence("x", []byte(strings.Repeat("a", l)), "")
			x.SetAttribute("pairing_mismatches", map[string]int{string(k): p})
			r := x.ReverseComplement(true)
			m, _ := r.GetIntMap("pairing_mismatches")
			for kk, pp := range m {
				if pp != l-p+1 {
					fail("rcmut.position", "position %d of %d became %d", p, l, pp)
				}
				return hx([]byte(kk)) + " " + strconv.Itoa(pp)
			}
			return "lost"
		case f[0] == "submut" && len(f) == 6:
			l, e1 := strconv.Atoi(f[1])
			from, e2 := strconv.Atoi(f[2])
			to, e3 := strconv.Atoi(f[3])
			p, e4 := strconv.Atoi(f[5])
			if e1 != nil || e2 != nil || e3 != nil || e4 != nil || l < 0 {
				return "bad-op"
			}
			circ := f[4] == "1"
			// distinct bases so that a position identifies a base: the base at the annotated position must be the same before and after
			base := make([]byte, l)
			for i := range base {
				base[i] = "acgt"[i%4]
			}
			x := obiseq.NewBioSequence("x", base, "")
			x.SetAttribute("pairing_mismatches", map[string]int{"(a:30)->(c:20)": p})
			sub, err := x.Subsequence(from, to, circ)
			if err != nil {
				return "err"
			}
			m, _ := sub.GetIntMap("pairing_mismatches")
			// expected: position p (1-based) is kept iff it lies in the window, at its rank in the window
			want := -1
			if from >= 0 && from < l && to >= 0 && to <= l && p >= 1 && p <= l {
				if from < to {
					if p > from && p <= to {
						want = p - from
					}
				} else if circ {
					if p > from {
						want = p - from
					} else if p <= to {
						want = p + l - from
					}
				}
				got := -1
				for _, pp := range m {
					got = pp
				}
				if got != want {
					fail("submut.position", "window [%d,%d) circ=%v of %d: position %d became %d, expected %d (-1 = dropped)", from, to, circ, l, p, got, want)
				}
			}
			for _, pp := range m {
				return "keep " + strconv.Itoa(pp)
			}
			return "drop"
		case f[0] == "hist":
			objs := map[string]*obiseq.BioSequence{}
			var names []string
			for _, op := range f[1:] {
				a := strings.Split(op, ":")
				before := c07Dump(objs, names)
				target := ""
				switch {
				case a[0] == "new" && len(a) == 4:
					s, ok1 := unhx(a[2])
					if !ok1 {
						return "bad-op"
					}
					o := obiseq.NewBioSequence(a[1], s, "")
					if a[3] != "-" {
						q, ok := unhx(a[3])
						if !ok {
							return "bad-op"
						}
						o.SetQualities(q)
					}
					objs[a[1]] = o
					names = append(names, a[1])
					target = a[1]
				case a[0] == "copy" && len(a) == 3 && objs[a[1]] != nil:
					objs[a[2]] = objs[a[1]].Copy()
					names = append(names, a[2])
					target = a[2]
				case a[0] == "rc" && len(a) == 3 && objs[a[1]] != nil:
					objs[a[2]] = objs[a[1]].ReverseComplement(false)
					names = append(names, a[2])
					target = a[2]
				case a[0] == "rci" && len(a) == 2 && objs[a[1]] != nil:
					r := objs[a[1]].ReverseComplement(true)
					if r != objs[a[1]] {
						fail("hist.rc-inplace-identity", "ReverseComplement(true) returned another object than its receiver")
						objs[a[1]] = r
					}
					target = a[1]
				case a[0] == "sub" && len(a) == 6 && objs[a[1]] != nil:
					from, _ := strconv.Atoi(a[3])
					to, _ := strconv.Atoi(a[4])
					s, err := objs[a[1]].Subsequence(from, to, a[5] == "1")
					if err == nil {
						objs[a[2]] = s
						names = append(names, a[2])
						target = a[2]
					}
				case a[0] == "set" && len(a) == 4 && objs[a[1]] != nil:
					p, _ := strconv.Atoi(a[2])
					v, _ := strconv.Atoi(a[3])
					if p < objs[a[1]].Len() {
						objs[a[1]].Sequence()[p] = byte(v)
					}
					target = a[1]
				case a[0] == "recycle" && len(a) == 2 && objs[a[1]] != nil:
					objs[a[1]].Recycle()
					target = a[1]
				case a[0] == "mapset" && len(a) == 5 && objs[a[1]] != nil:
					v, _ := strconv.Atoi(a[4])
					o := objs[a[1]]
					if m, ok := o.Annotations()[a[2]].(map[string]int); ok && o.HasAnnotation() {
						m[a[3]] = v // in-place edit of the nested map, as StatsPlusOne / merge code does
					} else {
						o.SetAttribute(a[2], map[string]int{a[3]: v})
					}
					target = a[1]
				default:
					return "bad-op"
				}
				after := c07Dump(objs, names)
				for n, v := range before {
					if n != target && after[n] != v {
						fail("hist.alias", "operation %s changed object %s from %s to %s", op, n, v, after[n])
					}
				}
				// distinct names must be distinct objects
				seen := map[*obiseq.BioSequence]string{}
				for _, n := range names {
					if other, dup := seen[objs[n]]; dup && other != n {
						fail("hist.shared-object", "after %s, %s and %s are the same object", op, other, n)
					}
					seen[objs[n]] = n
				}
			}
			d := c07Dump(objs, names)
			sort.Strings(names)
			var sb []string
			prev := ""
			for _, n := range names {
				if n == prev {
					continue
				}
				prev = n
				sb = append(sb, n+"="+d[n])
			}
			return strings.Join(sb, " ")
		}
		return "bad-op"
	})
	return res, fails
}
