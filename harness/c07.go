//go:build c07

package main

import (
	"fmt"
	"math/rand"
	"sort"
	"strconv"
	"strings"
	"time"
	"unsafe"

	"git.metabarcoding.org/obitools/obitools4/obitools4/pkg/obiseq"
)

type c07 struct{}

func init() { props["C07"] = c07{} }

const c07Alpha = "acgtrymkswbdhvn.-[]"

func c07RandSeq(rng *rand.Rand, n int, upper bool) []byte {
	s := make([]byte, n)
	for i := range s {
		if rng.Intn(3) == 0 {
			s[i] = c07Alpha[rng.Intn(len(c07Alpha))]
		} else {
			s[i] = "acgt"[rng.Intn(4)]
		}
		if upper && s[i] >= 'a' && s[i] <= 'z' && rng.Intn(2) == 0 {
			s[i] -= 32
		}
	}
	return s
}

func (c07) Gen(rng *rand.Rand, tier string, emit func(string)) {
	for b := 0; b < 256; b++ {
		emit(fmt.Sprintf("comp %d", b))
	}
	// exhaustive short strings over the 19-symbol alphabet: length <= 2 (quick), <= 3 (thorough)
	maxl := 2
	if tier == "thorough" {
		maxl = 3
	}
	var rec func(cur []byte, l int)
	rec = func(cur []byte, l int) {
		if len(cur) == l {
			emit(fmt.Sprintf("rc %s -", hx(cur)))
			return
		}
		for i := 0; i < len(c07Alpha); i++ {
			rec(append(cur, c07Alpha[i]), l)
		}
	}
	for l := 0; l <= maxl; l++ {
		rec(nil, l)
	}
	// every window of a few sequences, linear and circular
	for _, n := range []int{1, 2, 5, 6} {
		s := c07RandSeq(rng, n, false)
		for f := -1; f <= n+2; f++ {
			for t := -1; t <= n+2; t++ {
				for c := 0; c < 2; c++ {
					if c == 1 && t < 0 {
						continue
					}
					emit(fmt.Sprintf("sub %s %d %d %d", hx(s), f, t, c))
					emit(fmt.Sprintf("submut %d %d %d %d %d", n, f, t, c, 1+rng.Intn(n)))
				}
			}
		}
	}
	emit("sub - 0 0 1")
	emit("sub - 0 1 0")
	// the histories that expose a shared object or buffer
	for _, h := range []string{
		"hist new:a:61636774:- rc:a:b rc:b:c set:c:0:110",
		"hist new:a:61636774:01020304 rc:a:b set:a:0:110 rc:b:c",
		"hist new:a:6163677461:- rc:a:b recycle:a rc:b:c",
		"hist new:a:6163677461:- rc:a:b rci:b",
		"hist new:a:6163677461:0102030405 copy:a:b set:b:1:110 recycle:b sub:a:c:1:4:0 set:c:0:110",
		"hist new:a:6163677461:- rc:a:b copy:b:c rc:c:d set:d:2:110",
		"hist new:a:6163677461:- mapset:a:merged_sample:s1:3 copy:a:b mapset:b:merged_sample:s1:100",
		"hist new:a:6163677461:- mapset:a:merged_sample:s1:3 sub:a:b:1:4:0 mapset:a:merged_sample:s2:7 rc:b:c mapset:c:merged_sample:s1:9",
		"hist new:a:6163677461:0102030405 mapset:a:m2:s3:1 rc:a:b mapset:b:m2:s3:2 recycle:a",
	} {
		emit(h)
	}
	// heap histories (compared with the heap model of the byte-slice pool) and mutator histories (oracle only)
	for _, h := range []string{
		// SetFeatures on a copy used to leave the address of the live field in the pool: the next allocation took the feature's array
		"heap new:a:61636774:- copy:a:b setfeat:b:4654202020736f7572636520312e2e38:400 new:c:7474747474747474:-",
		"heap new:a:61636774:01020304 setfeat:a:4646:400 setfeat:a:4747:400 new:c:6767676767676767:- setqual:a:05060708 setqual:a:090a0b0c new:d:63636363:-",
		"heap new:a:61636774:01020304 copy:a:b setfeat:b:4654:400 rc:b:c sub:a:d:3:2:1 set:a:0:110 setqual:b:05060708 scratch:10:7 recycle:b new:e:7474:-",
		"heap new:a:6163677461:0102030405 sub:a:b:0:5:1 sub:a:c:4:4:1 sub:a:d:0:0:1 sub:a:e:2:1:1 rci:e recycle:a rc:e:f",
		"heap new:a:61:09 rc:a:b sub:a:c:0:1:0 sub:a:d:0:0:1 sub:a:e:0:1:1 rci:a recycle:b scratch:1:255 copy:a:f",
		"heap new:a:-:- rc:a:b copy:a:c rci:a set:a:0:110 recycle:a scratch:0:1",
		"heap new:a:6163:- recycle:a rc:a:b",
		"heap new:a:6163:- copy:a:b copy:a:b",
		"heap new:a:-:- sub:a:b:0:0:1",
		"mut new:a:61636774:- rc:a:b join:a:b rc:a:c",
		"mut new:a:61636774:01020304 rc:a:b setqual:a:0a141e28 rc:a:c write:a:6767:0506 writebyte:a:116:9 clear:a writestring:a:6163:0101 setmm:a:2 copy:a:d set:d:0:110 rci:d",
	} {
		emit(h)
	}
	// whole objects: bases + qualities + pairing_mismatches through ReverseComplement / Subsequence (model: Model/SeqAnnot.lean),
	// Copy/rc/sub independence for every kind of annotation value (oracle only)
	for _, h := range []string{
		"rcw 61636774 01020304 28613a3330292d3e28633a313229:2",
		"rcw 61636774 - 28613a3330292d3e28633a313229:2,28743a3132292d3e28673a333029:3",
		"rcw 6163 - 0",
		"rcw 6163 0102 -",
		"rcw 61636774 - 28783a3330292d3e286e3a313229:1,286e3a3330292d3e286e3a313229:4", // x and n are both rewritten to n: one key left
		"rcw 61636774 - 6162:2", // key shorter than 13 bytes: panic
		"subw 6163677461 0102030405 28613a3330292d3e28633a313229:2,28613a3330292d3e28743a313229:5 1 4 0",
		"subw 6163677461 0102030405 28613a3330292d3e28633a313229:2,28613a3330292d3e28743a313229:5 3 2 1",
		"subw 6163677461 - 28613a3330292d3e28633a313229:1 2 4 0", // every position dropped: empty map, left alone by rc
		"joinrc 6163 - 6767",
		"joinrc 6163 0102 6767", // receiver with qualities: 4 bases, 2 qualities afterwards, ReverseComplement panics
		"joinrc 6163 0102 -",
	} {
		emit(h)
	}
	for k := 0; k < 8; k++ {
		emit(fmt.Sprintf("annkinds %d", k))
	}
	// annotation values with sharing (model: Model/SeqAnnTree.lean): nested containers edited in place after Copy / rc / sub
	for _, h := range []string{
		"annh new:a set:a:m:M(x=i1,y=i2) derive:a:b:copy edit:b:m:x:i100 edit:a:m:new:i5",
		"annh new:a set:a:m:M(l=S(i1,stwo,M(z=i26,y=i2)),m=M(deep=S(sd))) derive:a:b:rc edit:b:m/l/2:z:i0 edit:b:m/l:0:sedited edit:a:m/m:deep:i1 derive:b:c:csub edit:c:m:l:i3 recycle:b new:d set:d:m:M(q=i9)",
		"annh new:a set:a:s:S(S(i1,i2),S(i3)) set:a:t:S(su,sv) set:a:arr:A7.8.9 set:a:n:i3 derive:a:b:sub edit:b:s/0:1:i77 edit:b:t:0:sedited edit:a:-:n:i4 recycle:a new:c set:c:s:S(i5)",
		"annh new:a derive:a:b:copy edit:b:-:k:i1 set:a:merged_sample:M(s1=i4) derive:a:c:copy edit:c:merged_sample:s1:i1004 recycle:c derive:a:d:rc",
		"annh new:a set:a:m:M(a=sx) derive:a:b:copy recycle:a new:c set:c:m:M(a=sy) edit:b:m:a:sedited",
		"annh new:a new:a",
		"annh new:a derive:a:b:copy derive:a:b:rc",
		"annh new:a edit:a:nokey:x:i1",
		// mutator histories compared with the heap model: Clear then Write appends IN PLACE (len < cap), SetSequence, Subsequence after mutators
		"mut new:a:6163677461:- copy:a:b clear:a write:a:7474:- sub:a:c:1:2:0 rc:a:d write:b:6767:- setseq:a:41434754 rci:a sub:a:e:3:1:1",
		"mut new:a:61636774:01020304 setmm:a:2 sub:a:b:1:3:0 rc:b:c sub:a:d:3:2:1 rci:d clear:d writestring:d:6163:0506 setmm:d:1 rc:d:e",
		"mut new:a:6163:- join:a:a join:a:a rc:a:b recycle:a new:c:74747474:-",
	} {
		emit(h)
	}
	na := 150
	if tier == "thorough" {
		na = 1200
	}
	for i := 0; i < na; i++ {
		emit(c07GenAnn(rng, 5+rng.Intn(20)))
	}
	nw := 400
	if tier == "thorough" {
		nw = 3000
	}
	c07GenWhole(rng, emit, nw)
	nh := 250
	if tier == "thorough" {
		nh = 1500
	}
	for i := 0; i < nh; i++ {
		steps := 4 + rng.Intn(24)
		if tier == "thorough" && i%10 == 0 {
			steps = 100 + rng.Intn(60)
		}
		if i%2 == 0 {
			emit(c07GenHeap(rng, steps))
		} else {
			emit(c07GenMut(rng, steps))
		}
	}
	n := 1500
	if tier == "thorough" {
		n = 12000
	}
	for i := 0; i < n; i++ {
		switch rng.Intn(6) {
		case 0, 1:
			l := rng.Intn(40)
			if rng.Intn(10) == 0 {
				l = 200 + rng.Intn(300)
			}
			s := c07RandSeq(rng, l, true)
			q := "-"
			if rng.Intn(2) == 0 {
				qb := make([]byte, l)
				for j := range qb {
					qb[j] = byte(rng.Intn(94))
				}
				q = hx(qb)
			}
			emit(fmt.Sprintf("rc %s %s", hx(s), q))
		case 2:
			l := 1 + rng.Intn(30)
			s := c07RandSeq(rng, l, false)
			f, t := rng.Intn(l+1), rng.Intn(l+2)
			emit(fmt.Sprintf("sub %s %d %d %d", hx(s), f, t, rng.Intn(2)))
		case 3:
			l := 1 + rng.Intn(60)
			k := fmt.Sprintf("(%c:%02d)->(%c:%02d)", "acgt-"[rng.Intn(5)], rng.Intn(41), "acgt-"[rng.Intn(5)], rng.Intn(41))
			emit(fmt.Sprintf("rcmut %d %s %d", l, hx([]byte(k)), 1+rng.Intn(l)))
		case 4:
			l := 1 + rng.Intn(30)
			f, t := rng.Intn(l+1), rng.Intn(l+2)
			emit(fmt.Sprintf("submut %d %d %d %d %d", l, f, t, rng.Intn(2), 1+rng.Intn(l)))
		case 5:
			// random history over up to 4 objects
			names := []string{"a"}
			l := 1 + rng.Intn(12)
			q := "-"
			if rng.Intn(2) == 0 {
				qb := make([]byte, l)
				for j := range qb {
					qb[j] = byte(rng.Intn(42))
				}
				q = hx(qb)
			}
			ops := []string{fmt.Sprintf("new:a:%s:%s", hx(c07RandSeq(rng, l, false)), q)}
			for k := 0; k < 3+rng.Intn(8); k++ {
				src := names[rng.Intn(len(names))]
				dst := string(rune('a' + len(names)))
				switch rng.Intn(8) {
				case 7:
					ops = append(ops, fmt.Sprintf("mapset:%s:merged_sample:%s:%d", src, []string{"s1", "s2"}[rng.Intn(2)], rng.Intn(50)))
				case 0:
					ops = append(ops, fmt.Sprintf("copy:%s:%s", src, dst))
					names = append(names, dst)
				case 1, 2:
					ops = append(ops, fmt.Sprintf("rc:%s:%s", src, dst))
					names = append(names, dst)
				case 3:
					ops = append(ops, "rci:"+src)
				case 4:
					f := rng.Intn(l)
					ops = append(ops, fmt.Sprintf("sub:%s:%s:%d:%d:%d", src, dst, f, f+1+rng.Intn(l), rng.Intn(2)))
					names = append(names, dst)
				case 5:
					ops = append(ops, fmt.Sprintf("set:%s:%d:110", src, rng.Intn(l)))
				case 6:
					if rng.Intn(3) == 0 {
						ops = append(ops, "recycle:"+src)
					} else {
						ops = append(ops, fmt.Sprintf("mapset:%s:%s:%s:%d", src, []string{"merged_sample", "m2"}[rng.Intn(2)], []string{"s1", "s2", "s3"}[rng.Intn(3)], rng.Intn(100)))
					}
				}
				if len(names) > 6 {
					break
				}
			}
			emit("hist " + strings.Join(ops, " "))
		}
	}
	// concurrent use (c07_conc.go): called last, so that the cases above keep their PRNG draws
	c07GenConc(rng, tier, emit)
}

func c07Dump(objs map[string]*obiseq.BioSequence, names []string) map[string]string {
	d := map[string]string{}
	for _, n := range names {
		o := objs[n]
		q := "none"
		if o.HasQualities() {
			q = hx(o.Qualities())
		}
		d[n] = hx(o.Sequence()) + "/" + q + "/" + c07Ann(o)
	}
	return d
}

// c07Ann prints the map[string]int valued annotations, keys sorted.
func c07Ann(o *obiseq.BioSequence) string {
	if !o.HasAnnotation() {
		return ""
	}
	var keys []string
	for k, v := range o.Annotations() {
		if _, ok := v.(map[string]int); ok {
			keys = append(keys, k)
		}
	}
	sort.Strings(keys)
	var parts []string
	for _, k := range keys {
		m := o.Annotations()[k].(map[string]int)
		var ks []string
		for kk := range m {
			ks = append(ks, kk)
		}
		sort.Strings(ks)
		var es []string
		for _, kk := range ks {
			es = append(es, fmt.Sprintf("%s:%d", kk, m[kk]))
		}
		parts = append(parts, k+"{"+strings.Join(es, ",")+"}")
	}
	return strings.Join(parts, ";")
}

func c07InAlpha(s []byte) bool {
	for _, b := range s {
		if !strings.ContainsRune(c07Alpha, rune(b|0x20)) && b != '.' && b != '-' && b != '[' && b != ']' {
			return false
		}
	}
	return true
}

func naiveRC(s []byte) []byte {
	comp := map[byte]byte{'a': 't', 'c': 'g', 'g': 'c', 't': 'a', 'r': 'y', 'y': 'r', 'm': 'k', 'k': 'm', 's': 's', 'w': 'w',
		'b': 'v', 'v': 'b', 'd': 'h', 'h': 'd', 'n': 'n', '.': '.', '-': '-', '[': ']', ']': '['}
	out := make([]byte, len(s))
	for i, b := range s {
		out[len(s)-1-i] = comp[b]
	}
	return out
}

func (c07) Exec(c string) (string, []Fail) {
	f := strings.Fields(c)
	if len(f) == 0 {
		return "bad-op", nil
	}
	var fails []Fail
	fail := func(sig, format string, a ...any) {
		fails = append(fails, Fail{Sig: sig, Text: fmt.Sprintf(format, a...)})
	}
	stat("op:" + f[0])
	if f[0] == "conc" {
		return c07ExecConc(f)
	}
	res := guardT(5*time.Second, func() string {
		switch {
		case f[0] == "comp" && len(f) == 2:
			b, err := strconv.Atoi(f[1])
			if err != nil || b < 0 || b > 255 {
				return "bad-op"
			}
			// reach nucComplement through a one-base sequence; upper-case input is lower-cased by SetSequence,
			// so only bytes that survive InPlaceToLower unchanged reach the function as given
			s := obiseq.NewBioSequence("x", []byte{byte(b)}, "")
			stored := s.Sequence()[0]
			r := s.ReverseComplement(true).Sequence()[0]
			if stored != byte(b) {
				caseTrivial = true
				caseOverride = fmt.Sprintf("comp %d", stored)
			}
			return strconv.Itoa(int(r))
		case f[0] == "rc" && len(f) == 3:
			s, ok1 := unhx(f[1])
			q, ok2 := unhx(f[2])
			if !ok1 || !ok2 {
				return "bad-op"
			}
			mk := func() *obiseq.BioSequence {
				x := obiseq.NewBioSequence("x", s, "")
				if f[2] != "-" {
					x.SetQualities(q)
				}
				return x
			}
			a := mk()
			r1 := a.ReverseComplement(false)
			r2 := mk().ReverseComplement(true)
			if string(r1.Sequence()) != string(r2.Sequence()) {
				fail("rc.inplace-vs-copy", "in place %q, copy %q", r2.Sequence(), r1.Sequence())
			}
			low := []byte(strings.ToLower(string(s)))
			if c07InAlpha(low) {
				if string(r1.Sequence()) != string(naiveRC(low)) {
					fail("rc.value", "rc(%q) = %q expected %q", low, r1.Sequence(), naiveRC(low))
				}
				// involution, computed on a fresh object so that no cached link can answer
				back := obiseq.NewBioSequence("y", r1.Sequence(), "")
				if f[2] != "-" {
					back.SetQualities(r1.Qualities())
				}
				bb := back.ReverseComplement(false)
				if string(bb.Sequence()) != string(low) || (f[2] != "-" && string(bb.Qualities()) != string(q)) {
					fail("rc.involution", "rc(rc(%q)) = %q", low, bb.Sequence())
				}
			}
			qs := "-"
			if f[2] != "-" {
				qs = hx(r1.Qualities())
			}
			return hx(r1.Sequence()) + " " + qs
		case f[0] == "sub" && len(f) == 5:
			s, ok := unhx(f[1])
			from, e1 := strconv.Atoi(f[2])
			to, e2 := strconv.Atoi(f[3])
			if !ok || e1 != nil || e2 != nil {
				return "bad-op"
			}
			circ := f[4] == "1"
			x := obiseq.NewBioSequence("x", s, "")
			sub, err := x.Subsequence(from, to, circ)
			if err != nil {
				return "err"
			}
			n := len(s)
			low := []byte(strings.ToLower(string(s)))
			if !circ {
				if string(sub.Sequence()) != string(low[from:to]) {
					fail("sub.value", "sub[%d:%d] = %q", from, to, sub.Sequence())
				}
				// rc(sub(s,a,b)) = sub(rc s, n-b, n-a)
				r := obiseq.NewBioSequence("r", naiveRC(low), "")
				rs, err2 := r.Subsequence(n-to, n-from, false)
				lhs := obiseq.NewBioSequence("l", sub.Sequence(), "").ReverseComplement(false)
				if err2 != nil || string(lhs.Sequence()) != string(rs.Sequence()) {
					fail("sub.rc-mirror", "rc(sub(s,%d,%d)) = %q but sub(rc s,%d,%d) = %v", from, to, lhs.Sequence(), n-to, n-from, rs)
				}
			} else if from >= 0 && from < n && to >= 0 && to <= n {
				end := to
				if !(from < to) {
					end = to + n
				}
				dbl := append(append([]byte{}, low...), low...)
				if string(sub.Sequence()) != string(dbl[from:end]) {
					fail("sub.circular-window", "circular [%d,%d) = %q expected %q", from, to, sub.Sequence(), dbl[from:end])
				}
			}
			return "ok " + hx(sub.Sequence())
		case f[0] == "rcmut" && len(f) == 4:
			l, e1 := strconv.Atoi(f[1])
			k, ok := unhx(f[2])
			p, e2 := strconv.Atoi(f[3])
			if e1 != nil || !ok || e2 != nil || l < 1 {
				return "bad-op"
			}
			x := obiseq.NewBioSequence("x", []byte(strings.Repeat("a", l)), "")
			x.SetAttribute("pairing_mismatches", map[string]int{string(k): p})
			r := x.ReverseComplement(true)
			m, _ := r.GetIntMap("pairing_mismatches")
			for kk, pp := range m {
				if pp != l-p+1 {
					fail("rcmut.position", "position %d of %d became %d", p, l, pp)
				}
				return hx([]byte(kk)) + " " + strconv.Itoa(pp)
			}
			return "lost"
		case f[0] == "submut" && len(f) == 6:
			l, e1 := strconv.Atoi(f[1])
			from, e2 := strconv.Atoi(f[2])
			to, e3 := strconv.Atoi(f[3])
			p, e4 := strconv.Atoi(f[5])
			if e1 != nil || e2 != nil || e3 != nil || e4 != nil || l < 0 {
				return "bad-op"
			}
			circ := f[4] == "1"
			// distinct bases so that a position identifies a base: the base at the annotated position must be the same before and after
			base := make([]byte, l)
			for i := range base {
				base[i] = "acgt"[i%4]
			}
			x := obiseq.NewBioSequence("x", base, "")
			x.SetAttribute("pairing_mismatches", map[string]int{"(a:30)->(c:20)": p})
			sub, err := x.Subsequence(from, to, circ)
			if err != nil {
				return "err"
			}
			m, _ := sub.GetIntMap("pairing_mismatches")
			// expected: position p (1-based) is kept iff it lies in the window, at its rank in the window
			want := -1
			if from >= 0 && from < l && to >= 0 && to <= l && p >= 1 && p <= l {
				if from < to {
					if p > from && p <= to {
						want = p - from
					}
				} else if circ {
					if p > from {
						want = p - from
					} else if p <= to {
						want = p + l - from
					}
				}
				got := -1
				for _, pp := range m {
					got = pp
				}
				if got != want {
					fail("submut.position", "window [%d,%d) circ=%v of %d: position %d became %d, expected %d (-1 = dropped)", from, to, circ, l, p, got, want)
				}
			}
			for _, pp := range m {
				return "keep " + strconv.Itoa(pp)
			}
			return "drop"
		case f[0] == "rcw" && len(f) == 4:
			x, wf, ok := c07MkW(f[1], f[2], f[3])
			if !ok {
				return "bad-op"
			}
			nin := -1
			if m, ok := x.GetIntMap("pairing_mismatches"); ok {
				nin = len(m)
			}
			r := x.ReverseComplement(false)
			if m, ok := r.GetIntMap("pairing_mismatches"); ok && len(m) < nin {
				stat("rcw:collision")
				return "collision"
			}
			if wf {
				stat("rcw:wf")
				// whole-object involution on the real code: bases, qualities, keys and positions
				if back := r.ReverseComplement(false); c07ShowW(back) != c07ShowW(x) {
					fail("rcw.involution", "rc(rc(x)) = %s but x = %s", c07ShowW(back), c07ShowW(x))
				}
			} else {
				stat("rcw:ill-formed")
			}
			return c07ShowW(r)
		case f[0] == "subw" && len(f) == 7:
			x, wf, ok := c07MkW(f[1], f[2], f[3])
			from, e1 := strconv.Atoi(f[4])
			to, e2 := strconv.Atoi(f[5])
			if !ok || e1 != nil || e2 != nil {
				return "bad-op"
			}
			circ := f[6] == "1"
			sub, err := x.Subsequence(from, to, circ)
			if err != nil {
				return "err"
			}
			n := x.Len()
			if wf && from >= 0 && from < n && to > 0 && to <= n && (from < to || circ) {
				// rc(sub(x)) = sub'(rc(x)) on the whole object (the window wraps on both sides when from >= to)
				stat(fmt.Sprintf("subw:mirror-circ%v-wrap%v", circ, from >= to))
				lhs := sub.ReverseComplement(false)
				rx := x.ReverseComplement(false)
				rhs, err2 := rx.Subsequence(n-to, n-from, circ)
				if err2 != nil || c07ShowW(lhs) != c07ShowW(rhs) {
					got := "error"
					if err2 == nil {
						got = c07ShowW(rhs)
					}
					fail("subw.rc-mirror", "rc(sub(x,%d,%d)) = %s but sub(rc x,%d,%d) = %s", from, to, c07ShowW(lhs), n-to, n-from, got)
				}
				// the source is not changed by any of this
				if y, _, _ := c07MkW(f[1], f[2], f[3]); c07ShowW(y) != c07ShowW(x) {
					fail("subw.source-changed", "x = %s after Subsequence/ReverseComplement, was %s", c07ShowW(x), c07ShowW(y))
				}
			}
			return "ok " + c07ShowW(sub)
		case f[0] == "joinrc" && len(f) == 4:
			x, _, ok := c07MkW(f[1], f[2], "-")
			s2, ok2 := unhx(f[3])
			if !ok || !ok2 {
				return "bad-op"
			}
			y := obiseq.NewBioSequence("y", s2, "")
			j := x.Join(y, false)
			if j.HasQualities() && len(j.Qualities()) != j.Len() {
				stat("joinrc:qualities-short")
				fail("join.qualities-not-extended", "Join of a sequence with %d qualities and %d bases with %d more bases: %d bases, %d qualities (ReverseComplement panics on it)",
					len(x.Qualities()), x.Len(), len(s2), j.Len(), len(j.Qualities()))
			}
			if c07ShowW(x) != func() string { z, _, _ := c07MkW(f[1], f[2], "-"); return c07ShowW(z) }() {
				fail("join.source-changed", "Join(_, false) changed its receiver")
			}
			r := j.ReverseComplement(false)
			return c07ShowW(r)
		case f[0] == "annkinds" && len(f) == 2:
			k, err := strconv.Atoi(f[1])
			if err != nil {
				return "bad-op"
			}
			return c07AnnKinds(k, fail)
		case f[0] == "heap":
			return c07Heap(f[1:], fail)
		case f[0] == "mut":
			return c07Mut(f[1:], fail)
		case f[0] == "annh":
			return c07AnnHist(f[1:], fail)
		case f[0] == "hist":
			objs := map[string]*obiseq.BioSequence{}
			var names []string
			for _, op := range f[1:] {
				a := strings.Split(op, ":")
				before := c07Dump(objs, names)
				target := ""
				switch {
				case a[0] == "new" && len(a) == 4:
					s, ok1 := unhx(a[2])
					if !ok1 {
						return "bad-op"
					}
					o := obiseq.NewBioSequence(a[1], s, "")
					if a[3] != "-" {
						q, ok := unhx(a[3])
						if !ok {
							return "bad-op"
						}
						o.SetQualities(q)
					}
					objs[a[1]] = o
					names = append(names, a[1])
					target = a[1]
				case a[0] == "copy" && len(a) == 3 && objs[a[1]] != nil:
					objs[a[2]] = objs[a[1]].Copy()
					names = append(names, a[2])
					target = a[2]
				case a[0] == "rc" && len(a) == 3 && objs[a[1]] != nil:
					objs[a[2]] = objs[a[1]].ReverseComplement(false)
					names = append(names, a[2])
					target = a[2]
				case a[0] == "rci" && len(a) == 2 && objs[a[1]] != nil:
					r := objs[a[1]].ReverseComplement(true)
					if r != objs[a[1]] {
						fail("hist.rc-inplace-identity", "ReverseComplement(true) returned another object than its receiver")
						objs[a[1]] = r
					}
					target = a[1]
				case a[0] == "sub" && len(a) == 6 && objs[a[1]] != nil:
					from, _ := strconv.Atoi(a[3])
					to, _ := strconv.Atoi(a[4])
					s, err := objs[a[1]].Subsequence(from, to, a[5] == "1")
					if err == nil {
						objs[a[2]] = s
						names = append(names, a[2])
						target = a[2]
					}
				case a[0] == "set" && len(a) == 4 && objs[a[1]] != nil:
					p, _ := strconv.Atoi(a[2])
					v, _ := strconv.Atoi(a[3])
					if p < objs[a[1]].Len() {
						objs[a[1]].Sequence()[p] = byte(v)
					}
					target = a[1]
				case a[0] == "recycle" && len(a) == 2 && objs[a[1]] != nil:
					objs[a[1]].Recycle()
					target = a[1]
				case a[0] == "mapset" && len(a) == 5 && objs[a[1]] != nil:
					v, _ := strconv.Atoi(a[4])
					o := objs[a[1]]
					if m, ok := o.Annotations()[a[2]].(map[string]int); ok && o.HasAnnotation() {
						m[a[3]] = v // in-place edit of the nested map, as StatsPlusOne / merge code does
					} else {
						o.SetAttribute(a[2], map[string]int{a[3]: v})
					}
					target = a[1]
				default:
					return "bad-op"
				}
				after := c07Dump(objs, names)
				for n, v := range before {
					if n != target && after[n] != v {
						fail("hist.alias", "operation %s changed object %s from %s to %s", op, n, v, after[n])
					}
				}
				c07SharedBuffers(objs, fail, op)
				for _, n := range names {
					c07RcLaw(objs[n], n, op, fail)
				}
				// distinct names must be distinct objects
				seen := map[*obiseq.BioSequence]string{}
				for _, n := range names {
					if other, dup := seen[objs[n]]; dup && other != n {
						fail("hist.shared-object", "after %s, %s and %s are the same object", op, other, n)
					}
					seen[objs[n]] = n
				}
			}
			d := c07Dump(objs, names)
			sort.Strings(names)
			var sb []string
			prev := ""
			for _, n := range names {
				if n == prev {
					continue
				}
				prev = n
				sb = append(sb, n+"="+d[n])
			}
			return strings.Join(sb, " ")
		}
		return "bad-op"
	})
	return res, fails
}

// c07MkW builds the object of a whole-object case: bases, qualities (- = none), pairing_mismatches
// (- = absent, 0 = empty map, keyhex:pos,...).  wf: qualities as long as the bases, bases over the alphabet,
// every key at least 13 bytes long with its two symbols (bytes 1 and 9) in the alphabet.
func c07MkW(shex, qhex, mm string) (*obiseq.BioSequence, bool, bool) {
	s, ok1 := unhx(shex)
	q, ok2 := unhx(qhex)
	if !ok1 || !ok2 {
		return nil, false, false
	}
	x := obiseq.NewBioSequence("x", s, "")
	wf := c07InAlpha([]byte(strings.ToLower(string(s))))
	if qhex != "-" {
		x.SetQualities(q)
		wf = wf && len(q) == len(s)
	}
	if mm != "-" {
		m := map[string]int{}
		if mm != "0" {
			for _, e := range strings.Split(mm, ",") {
				kv := strings.Split(e, ":")
				if len(kv) != 2 {
					return nil, false, false
				}
				k, ok := unhx(kv[0])
				p, err := strconv.Atoi(kv[1])
				if !ok || err != nil {
					return nil, false, false
				}
				if _, dup := m[string(k)]; dup {
					return nil, false, false
				}
				m[string(k)] = p
				if len(k) < 13 || !c07InAlpha([]byte{k[1], k[9]}) || (k[1] >= 'A' && k[1] <= 'Z') || (k[9] >= 'A' && k[9] <= 'Z') || p < 1 || p > len(s) {
					wf = false
				}
			}
		}
		x.SetAttribute("pairing_mismatches", m)
	}
	return x, wf, true
}

func c07ShowW(o *obiseq.BioSequence) string {
	q := "-"
	if o.HasQualities() {
		q = hx(o.Qualities())
	}
	mm := "-"
	if o.HasAnnotation() {
		if m, ok := o.GetIntMap("pairing_mismatches"); ok {
			if len(m) == 0 {
				mm = "0"
			} else {
				// sorted by key (as hex), as the model prints them
				var ks []string
				for k := range m {
					ks = append(ks, hx([]byte(k)))
				}
				sort.Strings(ks)
				var es []string
				for _, kh := range ks {
					kb, _ := unhx(kh)
					es = append(es, kh+":"+strconv.Itoa(m[string(kb)]))
				}
				mm = strings.Join(es, ",")
			}
		}
	}
	return hx(o.Sequence()) + " " + q + " " + mm
}

// c07AnnKinds: Copy / Subsequence / ReverseComplement must not share ANY annotation value with their source, whatever
// its kind (oracle only): nested maps, slices, slices of slices, StatsOnValues, maps of interfaces.  Every mutable value
// of the derived object is edited in place, then the derived object is recycled; the source must print the same.
func c07AnnKinds(k int, fail c07failf) string {
	mk := func() *obiseq.BioSequence {
		x := obiseq.NewBioSequence("x", []byte("acgtacgtac"), "")
		x.SetQualities([]byte{1, 2, 3, 4, 5, 6, 7, 8, 9, 10})
		x.SetAttribute("count", 3)
		x.SetAttribute("name", "n")
		x.SetAttribute("m_int", map[string]int{"a": 1, "b": 2})
		x.SetAttribute("m_str", map[string]string{"a": "x"})
		x.SetAttribute("s_str", []string{"u", "v"})
		x.SetAttribute("s_int", []int{1, 2, 3})
		x.SetAttribute("s_byte", []byte("xyz"))
		x.SetAttribute("ss_int", [][]int{{1, 2}, {3}})
		x.SetAttribute("m_any", map[string]interface{}{"l": []interface{}{1, "two", map[string]int{"z": 26}}, "m": map[string]interface{}{"deep": []string{"d"}}})
		x.SetAttribute("stats", obiseq.StatsOnValues{"s1": 4})
		x.SetAttribute("merged_sample", map[string]int{"s1": 4, "s2": 1})
		x.SetAttribute("pairing_mismatches", map[string]int{"(a:30)->(c:12)": 2})
		x.SetAttribute("arr", [3]int{7, 8, 9})
		x.SetFeatures([]byte("FT   source"))
		return x
	}
	show := func(o *obiseq.BioSequence) string {
		var keys []string
		for key := range o.Annotations() {
			keys = append(keys, key)
		}
		sort.Strings(keys)
		var sb strings.Builder
		for _, key := range keys {
			fmt.Fprintf(&sb, "%s=%v;", key, o.Annotations()[key]) // fmt prints maps with sorted keys
		}
		return c07View(o) + "|" + sb.String()
	}
	var edit func(v interface{})
	edit = func(v interface{}) {
		switch t := v.(type) {
		case map[string]int:
			for kk := range t {
				t[kk] += 1000
			}
			t["new"] = 1
		case obiseq.StatsOnValues:
			for kk := range t {
				t[kk] += 1000
			}
		case map[string]string:
			for kk := range t {
				t[kk] = "edited"
			}
		case []string:
			for i := range t {
				t[i] = "edited"
			}
		case []int:
			for i := range t {
				t[i] = -1
			}
		case []byte:
			for i := range t {
				t[i] = '!'
			}
		case [][]int:
			for i := range t {
				edit(t[i])
			}
		case []interface{}:
			for i := range t {
				edit(t[i])
			}
			if len(t) > 0 {
				t[0] = "edited"
			}
		case map[string]interface{}:
			for _, vv := range t {
				edit(vv)
			}
			t["new"] = 1
		}
	}
	x := mk()
	ref := show(x)
	var d *obiseq.BioSequence
	what := ""
	switch k % 4 {
	case 0:
		d, what = x.Copy(), "Copy"
	case 1:
		d, what = x.ReverseComplement(false), "ReverseComplement(false)"
	case 2:
		d, _ = x.Subsequence(2, 7, false)
		what = "Subsequence(2,7,false)"
	case 3:
		d, _ = x.Subsequence(7, 3, true)
		what = "Subsequence(7,3,true)"
	}
	stat("annkinds:" + what)
	if show(x) != ref {
		fail("annkinds.source-changed", "%s changed its receiver: %s -> %s", what, ref, show(x))
	}
	if k%4 == 0 && show(d) != ref {
		fail("annkinds.copy-differs", "Copy shows %s, source %s", show(d), ref)
	}
	for _, v := range d.Annotations() {
		edit(v)
	}
	if d.Len() > 0 {
		d.Sequence()[0] = 'n'
		d.Qualities()[0] = 99
	}
	if show(x) != ref {
		fail("annkinds.shared-annotation", "editing the annotations of the result of %s changed the source: %s -> %s", what, ref, show(x))
	}
	if k >= 4 {
		// the other direction: editing the source does not change the derived object
		dref := show(d)
		for _, v := range x.Annotations() {
			edit(v)
		}
		x.Sequence()[1] = 'n'
		if show(d) != dref {
			fail("annkinds.shared-annotation", "editing the source changed the result of %s: %s -> %s", what, dref, show(d))
		}
		ref = show(x)
	}
	d.Recycle()
	y := obiseq.NewBioSequence("y", []byte("tttttttttt"), "")
	y.SetAttribute("m_int", map[string]int{"q": 9})
	if show(x) != ref {
		fail("annkinds.recycle-changes-source", "recycling the result of %s (and allocating again) changed the source: %s -> %s", what, ref, show(x))
	}
	return "ok"
}

func c07Key(rng *rand.Rand, kind int) []byte {
	k := []byte(fmt.Sprintf("(%c:%02d)->(%c:%02d)", "acgt-"[rng.Intn(5)], rng.Intn(41), "acgt-"[rng.Intn(5)], rng.Intn(41)))
	switch kind {
	case 1: // symbols outside the alphabet: rewritten, not restored by a second rewriting
		k[1] = "xuAeN?"[rng.Intn(6)]
	case 2:
		k[9] = "xuAeN?"[rng.Intn(6)]
	case 3: // longer than the pattern
		k = append(k, []byte("tail")[:1+rng.Intn(4)]...)
	case 4: // exactly 13 bytes of anything printable
		for i := range k[:13] {
			k[i] = byte(33 + rng.Intn(90))
		}
		k = k[:13]
	case 5: // too short: rev panics
		k = k[:rng.Intn(13)]
	}
	for i := range k {
		if k[i] == ':' || k[i] == ',' || k[i] == ' ' {
			if i != 2 && i != 10 {
				k[i] = ';'
			}
		}
	}
	return k
}

func c07GenMm(rng *rand.Rand, n int, illFormed bool) string {
	switch rng.Intn(8) {
	case 0:
		return "-"
	case 1:
		return "0"
	}
	seen := map[string]bool{}
	var es []string
	for i := 0; i < 1+rng.Intn(4); i++ {
		kind := 0
		if illFormed && rng.Intn(2) == 0 {
			kind = 1 + rng.Intn(5)
		} else if rng.Intn(4) == 0 {
			kind = 3
		}
		k := c07Key(rng, kind)
		if seen[string(k)] {
			continue
		}
		seen[string(k)] = true
		p := 1
		if n > 0 {
			p = 1 + rng.Intn(n)
		}
		if illFormed && rng.Intn(6) == 0 {
			p = rng.Intn(2*n+3) - 1
		}
		es = append(es, fmt.Sprintf("%s:%d", hx(k), p))
	}
	if len(es) == 0 {
		return "0"
	}
	return strings.Join(es, ",")
}

func c07GenWhole(rng *rand.Rand, emit func(string), n int) {
	for i := 0; i < n; i++ {
		l := 1 + rng.Intn(24)
		s := c07RandSeq(rng, l, false)
		q := "-"
		if rng.Intn(2) == 0 {
			q = c07RandQual(rng, l)
		}
		ill := rng.Intn(4) == 0
		mm := c07GenMm(rng, l, ill)
		switch rng.Intn(5) {
		case 0, 1:
			emit(fmt.Sprintf("rcw %s %s %s", hx(s), q, mm))
		case 2, 3:
			f, t := rng.Intn(l), 1+rng.Intn(l)
			c := rng.Intn(2)
			switch rng.Intn(6) {
			case 0:
				f, t = 0, l
			case 1:
				t = f + 1
			case 2:
				t = l
			}
			emit(fmt.Sprintf("subw %s %s %s %d %d %d", hx(s), q, mm, f, t, c))
		case 4:
			// Join on a receiver with qualities does not extend them (known finding C07-join-qualities): a few cases only
			jq := "-"
			if rng.Intn(4) == 0 {
				jq = q
			}
			emit(fmt.Sprintf("joinrc %s %s %s", hx(s), jq, hx(c07RandSeq(rng, rng.Intn(6), false))))
		}
	}
}

type c07failf func(sig, format string, a ...any)

func c07RevBytes(q []byte) []byte {
	out := make([]byte, len(q))
	for i, b := range q {
		out[len(q)-1-i] = b
	}
	return out
}

// c07RcLaw evaluates the law on the real code, on the CURRENT content of o: a reverse complement asked for now must be
// the naive reverse complement of what the object shows now (bases, qualities, pairing_mismatches), and asking must
// not change o.
func c07RcLaw(o *obiseq.BioSequence, name, after string, fail c07failf) {
	if o == nil {
		return
	}
	seq := append([]byte{}, o.Sequence()...)
	hasQ := o.HasQualities()
	var qual []byte
	if hasQ {
		qual = append([]byte{}, o.Qualities()...)
		if len(qual) != len(seq) {
			return // Join / Write without qualities: ReverseComplement is not defined (it panics), not asked
		}
	}
	var mm map[string]int
	if o.HasAnnotation() {
		if m, ok := o.GetIntMap("pairing_mismatches"); ok {
			mm = map[string]int{}
			for k, v := range m {
				mm[k] = v
			}
		}
	}
	r := o.ReverseComplement(false)
	stat("rclaw")
	if c07InAlpha(seq) && string(r.Sequence()) != string(naiveRC(seq)) {
		fail("hist.rc-current", "after %s: rc(%s) = %q but %s shows %q (expected %q)", after, name, r.Sequence(), name, seq, naiveRC(seq))
	}
	if hasQ != r.HasQualities() || (hasQ && string(r.Qualities()) != string(c07RevBytes(qual))) {
		fail("hist.rc-current-qual", "after %s: qualities of rc(%s) = %v but %s has %v", after, name, []byte(r.Qualities()), name, qual)
	}
	if len(mm) > 0 {
		got, _ := r.GetIntMap("pairing_mismatches")
		if len(got) != len(mm) {
			fail("hist.rc-current-ann", "after %s: rc(%s) has %d pairing_mismatches, %s has %d", after, name, len(got), name, len(mm))
		}
		for _, p := range mm {
			found := false
			for _, pp := range got {
				if pp == len(seq)-p+1 {
					found = true
				}
			}
			if !found {
				fail("hist.rc-current-ann", "after %s: position %d of %s not mirrored to %d in rc(%s): %v", after, p, name, len(seq)-p+1, name, got)
			}
		}
	}
	if string(o.Sequence()) != string(seq) || o.HasQualities() != hasQ || (hasQ && string(o.Qualities()) != string(qual)) {
		fail("hist.rc-changes-source", "after %s: ReverseComplement(false) changed its receiver %s", after, name)
	}
	r.Recycle()
}

// c07SharedBuffers: two live slices (of one or two sequences) must never have the same backing array.
func c07SharedBuffers(objs map[string]*obiseq.BioSequence, fail c07failf, after string) {
	seen := map[unsafe.Pointer]string{}
	var names []string
	for n := range objs {
		names = append(names, n)
	}
	sort.Strings(names)
	for _, n := range names {
		o := objs[n]
		if o == nil {
			continue
		}
		a, b, c := o.VerifRawSlices()
		for i, sl := range [][]byte{a, b, c} {
			if cap(sl) == 0 {
				continue
			}
			p := unsafe.Pointer(unsafe.SliceData(sl[:cap(sl)]))
			who := fmt.Sprintf("%s.%s", n, []string{"sequence", "qualities", "feature"}[i])
			if other, dup := seen[p]; dup {
				fail("hist.shared-buffer", "after %s: %s and %s have the same backing array", after, other, who)
			}
			seen[p] = who
		}
	}
}

func c07View(o *obiseq.BioSequence) string {
	q := []byte(nil)
	if o.HasQualities() {
		q = o.Qualities()
	}
	return hx(o.Sequence()) + "/" + hx(q) + "/" + hx([]byte(o.Features())) + "/" + c07Ann(o)
}

// c07Heap runs a heap history (same protocol and same well-behavedness rules as Model/SeqHeap.lean) on the real code.
func c07Heap(ops []string, fail c07failf) string {
	objs := map[string]*obiseq.BioSequence{}
	for _, op := range ops {
		a := strings.Split(op, ":")
		before := map[string]string{}
		for n, o := range objs {
			before[n] = c07View(o)
		}
		target := ""
		stat("heapop:" + a[0])
		switch {
		case a[0] == "new" && len(a) == 4:
			s, ok1 := unhx(a[2])
			q, ok2 := unhx(a[3])
			if !ok1 || !ok2 {
				return "bad-op"
			}
			if objs[a[1]] != nil || (a[3] != "-" && len(q) != len(s)) {
				return "bad-op"
			}
			o := obiseq.NewBioSequence(a[1], s, "")
			if a[3] != "-" {
				o.SetQualities(q)
			}
			objs[a[1]] = o
			target = a[1]
		case (a[0] == "copy" || a[0] == "rc") && len(a) == 3:
			if objs[a[1]] == nil || objs[a[2]] != nil {
				return "bad-op"
			}
			if a[0] == "copy" {
				objs[a[2]] = objs[a[1]].Copy()
			} else {
				objs[a[2]] = objs[a[1]].ReverseComplement(false)
			}
			target = a[2]
		case a[0] == "rci" && len(a) == 2:
			if objs[a[1]] == nil {
				return "bad-op"
			}
			if r := objs[a[1]].ReverseComplement(true); r != objs[a[1]] {
				fail("hist.rc-inplace-identity", "ReverseComplement(true) returned another object than its receiver")
			}
			target = a[1]
		case a[0] == "sub" && len(a) == 6:
			from, e1 := strconv.Atoi(a[3])
			to, e2 := strconv.Atoi(a[4])
			if e1 != nil || e2 != nil || objs[a[1]] == nil || objs[a[2]] != nil {
				return "bad-op"
			}
			s, err := objs[a[1]].Subsequence(from, to, a[5] == "1")
			if err == nil {
				objs[a[2]] = s
				target = a[2]
				stat("heapsub:ok")
			}
		case a[0] == "set" && len(a) == 4:
			p, e1 := strconv.Atoi(a[2])
			v, e2 := strconv.Atoi(a[3])
			if e1 != nil || e2 != nil || p < 0 || objs[a[1]] == nil {
				return "bad-op"
			}
			if p < objs[a[1]].Len() {
				objs[a[1]].Sequence()[p] = byte(v)
			}
			target = a[1]
		case a[0] == "recycle" && len(a) == 2:
			if objs[a[1]] == nil {
				return "bad-op"
			}
			objs[a[1]].Recycle()
			delete(objs, a[1])
			delete(before, a[1])
		case a[0] == "mapset" && len(a) == 5:
			v, e := strconv.Atoi(a[4])
			o := objs[a[1]]
			if e != nil || o == nil {
				return "bad-op"
			}
			if m, ok := o.Annotations()[a[2]].(map[string]int); ok && o.HasAnnotation() {
				m[a[3]] = v
			} else {
				o.SetAttribute(a[2], map[string]int{a[3]: v})
			}
			target = a[1]
		case a[0] == "setqual" && len(a) == 3:
			q, ok := unhx(a[2])
			o := objs[a[1]]
			if !ok || o == nil || len(q) == 0 || len(q) != o.Len() {
				return "bad-op"
			}
			o.SetQualities(q)
			target = a[1]
		case a[0] == "setfeat" && len(a) == 4:
			ft, ok := unhx(a[2])
			g, e := strconv.Atoi(a[3])
			o := objs[a[1]]
			if !ok || e != nil || g < 0 || o == nil {
				return "bad-op"
			}
			buf := make([]byte, len(ft), len(ft)+g)
			copy(buf, ft)
			o.SetFeatures(buf)
			target = a[1]
		case a[0] == "scratch" && len(a) == 3:
			n, e1 := strconv.Atoi(a[1])
			v, e2 := strconv.Atoi(a[2])
			if e1 != nil || e2 != nil || n < 0 {
				return "bad-op"
			}
			b := obiseq.GetSlice(n)
			b = b[:n]
			for i := range b {
				b[i] = byte(v)
			}
			obiseq.RecycleSlice(&b)
		default:
			return "bad-op"
		}
		for n, v := range before {
			if n != target && c07View(objs[n]) != v {
				fail("hist.alias", "operation %s changed object %s from %s to %s", op, n, v, c07View(objs[n]))
			}
		}
		c07SharedBuffers(objs, fail, op)
		for n, o := range objs {
			c07RcLaw(o, n, op, fail)
		}
	}
	var names []string
	for n := range objs {
		names = append(names, n)
	}
	sort.Strings(names)
	var sb []string
	for _, n := range names {
		sb = append(sb, n+"="+c07View(objs[n]))
	}
	return strings.Join(sb, " ")
}

// c07Mut: histories over EVERY mutator of BioSequence (oracle only; the model answers "ok"): after every step the
// reverse complement of every live object is asked again and compared with the naive one of its current content.
func c07Mut(ops []string, fail c07failf) string {
	objs := map[string]*obiseq.BioSequence{}
	for _, op := range ops {
		a := strings.Split(op, ":")
		stat("mutop:" + a[0])
		o := (*obiseq.BioSequence)(nil)
		if len(a) > 1 {
			o = objs[a[1]]
		}
		before := map[string]string{}
		for n, x := range objs {
			before[n] = c07View(x)
		}
		target := ""
		if len(a) > 1 {
			target = a[1]
		}
		switch {
		case a[0] == "new" && len(a) == 4:
			s, _ := unhx(a[2])
			q, _ := unhx(a[3])
			if a[3] != "-" && len(q) != len(s) {
				return "bad-op"
			}
			n := obiseq.NewBioSequence(a[1], s, "")
			if a[3] != "-" {
				n.SetQualities(q)
			}
			objs[a[1]] = n
		case o == nil:
			return "bad-op"
		case (a[0] == "copy" || a[0] == "rc") && len(a) == 3:
			if a[0] == "copy" {
				objs[a[2]] = o.Copy()
			} else {
				objs[a[2]] = o.ReverseComplement(false)
			}
			target = a[2]
		case a[0] == "rci":
			o.ReverseComplement(true)
		case a[0] == "write" && len(a) == 4:
			s, _ := unhx(a[2])
			q, _ := unhx(a[3])
			hadQ := o.HasQualities() || (o.Len() == 0 && len(q) == len(s) && len(q) > 0)
			o.Write(s)
			if hadQ {
				if len(q) != len(s) {
					q = make([]byte, len(s))
				}
				o.WriteQualities(q)
			}
		case a[0] == "writebyte" && len(a) == 4:
			b, _ := strconv.Atoi(a[2])
			q, _ := strconv.Atoi(a[3])
			hadQ := o.HasQualities()
			o.WriteByte(byte(b))
			if hadQ {
				o.WriteByteQualities(byte(q))
			}
		case a[0] == "writestring" && len(a) == 4:
			s, _ := unhx(a[2])
			q, _ := unhx(a[3])
			hadQ := o.HasQualities()
			o.WriteString(string(s))
			if hadQ {
				if len(q) != len(s) {
					q = make([]byte, len(s))
				}
				o.WriteQualities(q)
			}
		case a[0] == "clear":
			o.Clear()
			if o.HasQualities() {
				o.ClearQualities()
			}
		case a[0] == "join" && len(a) == 3:
			// Join does not extend the qualities: only asked of a receiver without qualities
			if objs[a[2]] == nil || o.HasQualities() {
				return "bad-op"
			}
			if r := o.Join(objs[a[2]], true); r != o {
				fail("hist.join-inplace-identity", "Join(_, true) returned another object")
			}
		case a[0] == "setqual" && len(a) == 3:
			q, _ := unhx(a[2])
			if len(q) != o.Len() || len(q) == 0 {
				return "bad-op"
			}
			o.SetQualities(q)
		case a[0] == "sub" && len(a) == 6:
			from, e1 := strconv.Atoi(a[3])
			to, e2 := strconv.Atoi(a[4])
			if e1 != nil || e2 != nil || objs[a[2]] != nil {
				return "bad-op"
			}
			if sb, err := o.Subsequence(from, to, a[5] == "1"); err == nil {
				objs[a[2]] = sb
				stat("mutsub:ok")
			}
			target = a[2]
		case a[0] == "setseq" && len(a) == 3:
			sq, ok := unhx(a[2])
			if !ok {
				return "bad-op"
			}
			o.SetSequence(sq)
		case a[0] == "setmm" && len(a) == 3:
			p, _ := strconv.Atoi(a[2])
			o.SetAttribute("pairing_mismatches", map[string]int{"(a:30)->(c:20)": p})
		case a[0] == "setid" && len(a) == 3:
			o.SetId(a[2])
		case a[0] == "set" && len(a) == 4:
			p, _ := strconv.Atoi(a[2])
			v, _ := strconv.Atoi(a[3])
			if p >= 0 && p < o.Len() {
				o.Sequence()[p] = byte(v)
			}
		case a[0] == "recycle":
			o.Recycle()
			delete(objs, a[1])
			delete(before, a[1])
		default:
			return "bad-op"
		}
		for n, v := range before {
			if n != target && objs[n] != nil && c07View(objs[n]) != v {
				fail("hist.alias", "operation %s changed object %s from %s to %s", op, n, v, c07View(objs[n]))
			}
		}
		c07SharedBuffers(objs, fail, op)
		for n, x := range objs {
			c07RcLaw(x, n, op, fail)
		}
	}
	// what every live object shows at the end: compared with the heap model of the mutators (Model/SeqHeapMut.lean)
	var names []string
	for n := range objs {
		names = append(names, n)
	}
	sort.Strings(names)
	var sb []string
	for _, n := range names {
		sb = append(sb, n+"="+c07View(objs[n]))
	}
	return strings.Join(sb, " ")
}

// ---- annotation values with sharing (Model/SeqAnnTree.lean) ----

// c07Lit parses M(k=lit,...), S(lit,...), i5, sab, A1.2.3 into the Go value an obitools command would store:
// maps of ints are map[string]int, of strings map[string]string, otherwise map[string]interface{}; slices alike.
func c07Lit(w string) (interface{}, bool) {
	if len(w) == 0 {
		return nil, false
	}
	split := func(body string) []string {
		var out []string
		depth, start := 0, 0
		for i := 0; i < len(body); i++ {
			switch body[i] {
			case '(':
				depth++
			case ')':
				depth--
			case ',':
				if depth == 0 {
					out = append(out, body[start:i])
					start = i + 1
				}
			}
		}
		return append(out, body[start:])
	}
	switch {
	case w[0] == 'i':
		v, err := strconv.Atoi(w[1:])
		return v, err == nil
	case w[0] == 's':
		return w[1:], true
	case w[0] == 'A':
		var arr [3]int
		parts := strings.Split(w[1:], ".")
		if len(parts) != 3 {
			return nil, false
		}
		for i, p := range parts {
			v, err := strconv.Atoi(p)
			if err != nil {
				return nil, false
			}
			arr[i] = v
		}
		return arr, true
	case strings.HasPrefix(w, "M(") && strings.HasSuffix(w, ")"):
		body := w[2 : len(w)-1]
		keys := []string{}
		vals := []interface{}{}
		if body != "" {
			for _, e := range split(body) {
				i := strings.IndexByte(e, '=')
				if i < 0 {
					return nil, false
				}
				v, ok := c07Lit(e[i+1:])
				if !ok {
					return nil, false
				}
				keys = append(keys, e[:i])
				vals = append(vals, v)
			}
		}
		allInt, allStr := len(vals) > 0, len(vals) > 0
		for _, v := range vals {
			if _, ok := v.(int); !ok {
				allInt = false
			}
			if _, ok := v.(string); !ok {
				allStr = false
			}
		}
		switch {
		case allInt && len(keys)%2 == 1:
			m := obiseq.StatsOnValues{}
			for i, k := range keys {
				m[k] = vals[i].(int)
			}
			return m, true
		case allInt:
			m := map[string]int{}
			for i, k := range keys {
				m[k] = vals[i].(int)
			}
			return m, true
		case allStr:
			m := map[string]string{}
			for i, k := range keys {
				m[k] = vals[i].(string)
			}
			return m, true
		}
		m := map[string]interface{}{}
		for i, k := range keys {
			m[k] = vals[i]
		}
		return m, true
	case strings.HasPrefix(w, "S(") && strings.HasSuffix(w, ")"):
		body := w[2 : len(w)-1]
		vals := []interface{}{}
		if body != "" {
			for _, e := range split(body) {
				v, ok := c07Lit(e)
				if !ok {
					return nil, false
				}
				vals = append(vals, v)
			}
		}
		allInt, allStr, allIS := len(vals) > 0, len(vals) > 0, len(vals) > 0
		for _, v := range vals {
			if _, ok := v.(int); !ok {
				allInt = false
			}
			if _, ok := v.(string); !ok {
				allStr = false
			}
			if _, ok := v.([]int); !ok {
				allIS = false
			}
		}
		switch {
		case allInt:
			sl := make([]int, len(vals), len(vals)+3) // spare capacity, as a slice that was appended to
			for i := range vals {
				sl[i] = vals[i].(int)
			}
			return sl, true
		case allStr:
			sl := make([]string, len(vals))
			for i := range vals {
				sl[i] = vals[i].(string)
			}
			return sl, true
		case allIS:
			sl := make([][]int, len(vals))
			for i := range vals {
				sl[i] = vals[i].([]int)
			}
			return sl, true
		}
		return vals, true
	}
	return nil, false
}

func c07ShowLit(v interface{}) string {
	showMap := func(keys []string, get func(string) interface{}) string {
		sort.Strings(keys)
		var es []string
		for _, k := range keys {
			es = append(es, k+"="+c07ShowLit(get(k)))
		}
		return "M(" + strings.Join(es, ",") + ")"
	}
	switch t := v.(type) {
	case int:
		return "i" + strconv.Itoa(t)
	case string:
		return "s" + t
	case [3]int:
		return fmt.Sprintf("A%d.%d.%d", t[0], t[1], t[2])
	case map[string]int:
		var ks []string
		for k := range t {
			ks = append(ks, k)
		}
		return showMap(ks, func(k string) interface{} { return t[k] })
	case obiseq.StatsOnValues:
		var ks []string
		for k := range t {
			ks = append(ks, k)
		}
		return showMap(ks, func(k string) interface{} { return t[k] })
	case map[string]string:
		var ks []string
		for k := range t {
			ks = append(ks, k)
		}
		return showMap(ks, func(k string) interface{} { return t[k] })
	case map[string]interface{}:
		var ks []string
		for k := range t {
			ks = append(ks, k)
		}
		return showMap(ks, func(k string) interface{} { return t[k] })
	case []int:
		var es []string
		for _, x := range t {
			es = append(es, c07ShowLit(x))
		}
		return "S(" + strings.Join(es, ",") + ")"
	case []string:
		var es []string
		for _, x := range t {
			es = append(es, c07ShowLit(x))
		}
		return "S(" + strings.Join(es, ",") + ")"
	case [][]int:
		var es []string
		for _, x := range t {
			es = append(es, c07ShowLit(x))
		}
		return "S(" + strings.Join(es, ",") + ")"
	case []interface{}:
		var es []string
		for _, x := range t {
			es = append(es, c07ShowLit(x))
		}
		return "S(" + strings.Join(es, ",") + ")"
	}
	return fmt.Sprintf("?%T", v)
}

// c07EditIn: the in-place edit node[k] = v of a map or slice value (no SetAttribute: the container is edited).
func c07EditIn(node interface{}, k string, v interface{}) bool {
	idx, ierr := strconv.Atoi(k)
	switch t := node.(type) {
	case obiseq.Annotation:
		t[k] = v
	case map[string]interface{}:
		t[k] = v
	case map[string]int:
		x, ok := v.(int)
		if !ok {
			return false
		}
		t[k] = x
	case obiseq.StatsOnValues:
		x, ok := v.(int)
		if !ok {
			return false
		}
		t[k] = x
	case map[string]string:
		x, ok := v.(string)
		if !ok {
			return false
		}
		t[k] = x
	case []int:
		x, ok := v.(int)
		if !ok || ierr != nil {
			return false
		}
		if idx >= 0 && idx < len(t) {
			t[idx] = x
		}
	case []string:
		x, ok := v.(string)
		if !ok || ierr != nil {
			return false
		}
		if idx >= 0 && idx < len(t) {
			t[idx] = x
		}
	case []interface{}:
		if ierr != nil {
			return false
		}
		if idx >= 0 && idx < len(t) {
			t[idx] = v
		}
	default:
		return false
	}
	return true
}

func c07Child(node interface{}, k string) (interface{}, bool) {
	idx, ierr := strconv.Atoi(k)
	inb := func(n int) bool { return ierr == nil && idx >= 0 && idx < n }
	switch t := node.(type) {
	case obiseq.Annotation:
		v, ok := t[k]
		return v, ok
	case map[string]interface{}:
		v, ok := t[k]
		return v, ok
	case []interface{}:
		if inb(len(t)) {
			return t[idx], true
		}
	case [][]int:
		if inb(len(t)) {
			return t[idx], true
		}
	}
	return nil, false
}

// c07AnnHist: histories over annotation VALUES (nested maps / slices / arrays / scalars): SetAttribute, Copy /
// ReverseComplement(false) / Subsequence / circular Subsequence, in-place edits of nested containers, Recycle.
// After every step every object other than the target must show what it showed (oracle annh.alias); the final
// state is compared with Model/SeqAnnTree.lean.
func c07AnnHist(ops []string, fail c07failf) string {
	objs := map[string]*obiseq.BioSequence{}
	show := func(o *obiseq.BioSequence) string {
		var ks []string
		if o.HasAnnotation() {
			for k := range o.Annotations() {
				ks = append(ks, k)
			}
		}
		sort.Strings(ks)
		var es []string
		for _, k := range ks {
			es = append(es, k+"="+c07ShowLit(o.Annotations()[k]))
		}
		return "{" + strings.Join(es, ";") + "}"
	}
	for _, op := range ops {
		a := strings.Split(op, ":")
		stat("annhop:" + a[0])
		before := map[string]string{}
		for n, o := range objs {
			before[n] = show(o)
		}
		target := ""
		if len(a) > 1 {
			target = a[1]
		}
		switch {
		case a[0] == "new" && len(a) == 2:
			if objs[a[1]] != nil {
				return "bad-op"
			}
			objs[a[1]] = obiseq.NewBioSequence(a[1], []byte("acgtacgtac"), "")
		case a[0] == "set" && len(a) == 4:
			v, ok := c07Lit(a[3])
			if !ok || objs[a[1]] == nil {
				return "bad-op"
			}
			objs[a[1]].SetAttribute(a[2], v)
		case a[0] == "derive" && len(a) == 4:
			o := objs[a[1]]
			if o == nil || objs[a[2]] != nil {
				return "bad-op"
			}
			var d *obiseq.BioSequence
			switch a[3] {
			case "copy":
				d = o.Copy()
			case "rc":
				d = o.ReverseComplement(false)
			case "sub": // whole window, so that derived objects can be derived from again
				d, _ = o.Subsequence(0, o.Len(), false)
			case "csub": // from = to: the stitched (wrapping) path of Subsequence, a full rotation
				d, _ = o.Subsequence(o.Len()-1, o.Len()-1, true)
			default:
				return "bad-op"
			}
			if d == nil {
				return "bad-op"
			}
			objs[a[2]] = d
			target = a[2]
		case a[0] == "edit" && len(a) == 5:
			o := objs[a[1]]
			v, ok := c07Lit(a[4])
			if o == nil || !ok {
				return "bad-op"
			}
			var node interface{} = o.Annotations()
			if a[2] != "-" {
				for _, k := range strings.Split(a[2], "/") {
					nx, ok := c07Child(node, k)
					if !ok {
						return "bad-op"
					}
					node = nx
				}
			}
			if !c07EditIn(node, a[3], v) {
				return "bad-op"
			}
		case a[0] == "recycle" && len(a) == 2:
			if objs[a[1]] == nil {
				return "bad-op"
			}
			objs[a[1]].Recycle()
			delete(objs, a[1])
			delete(before, a[1])
		default:
			return "bad-op"
		}
		for n, v := range before {
			if n != target && show(objs[n]) != v {
				fail("annh.alias", "operation %s changed the annotations of %s from %s to %s", op, n, v, show(objs[n]))
			}
		}
	}
	var names []string
	for n := range objs {
		names = append(names, n)
	}
	sort.Strings(names)
	var sb []string
	for _, n := range names {
		sb = append(sb, n+show(objs[n]))
	}
	return strings.Join(sb, " ")
}

func c07GenAnn(rng *rand.Rand, steps int) string {
	type ob struct {
		name  string
		paths map[string]string // path -> kind of the container at that path: mi ms mx si ss sx (map/slice of int/string/any), top = "-"
	}
	lits := []struct {
		lit   string
		paths map[string]string
	}{
		{"M(a=i1,b=i2)", map[string]string{"": "mi"}},
		{"M(s1=i4)", map[string]string{"": "mi"}},
		{"M(a=sx)", map[string]string{"": "ms"}},
		{"S(i1,i2,i3)", map[string]string{"": "si"}},
		{"S(su,sv)", map[string]string{"": "ss"}},
		{"S(S(i1,i2),S(i3))", map[string]string{"0": "si", "1": "si"}},
		{"M(l=S(i1,stwo,M(z=i26,y=i2)),m=M(deep=S(sd)))", map[string]string{"": "mx", "l": "sx", "l/2": "mi", "m": "mx"}},
		{"A7.8.9", nil}, {"i3", nil}, {"sname", nil},
	}
	var live []*ob
	next := 0
	var ops []string
	newObj := func() {
		next++
		n := fmt.Sprintf("o%d", next)
		ops = append(ops, "new:"+n)
		live = append(live, &ob{n, map[string]string{}})
	}
	newObj()
	for len(ops) < steps {
		if len(live) == 0 || (len(live) < 6 && rng.Intn(9) == 0) {
			newObj()
			continue
		}
		i := rng.Intn(len(live))
		x := live[i]
		switch rng.Intn(10) {
		case 0, 1, 2:
			key := []string{"k1", "k2", "merged_sample", "k3"}[rng.Intn(4)]
			l := lits[rng.Intn(len(lits))]
			ops = append(ops, fmt.Sprintf("set:%s:%s:%s", x.name, key, l.lit))
			for p := range x.paths {
				if p == key || strings.HasPrefix(p, key+"/") {
					delete(x.paths, p)
				}
			}
			for p, k := range l.paths {
				if p == "" {
					x.paths[key] = k
				} else {
					x.paths[key+"/"+p] = k
				}
			}
		case 3, 4:
			next++
			n := fmt.Sprintf("o%d", next)
			ops = append(ops, fmt.Sprintf("derive:%s:%s:%s", x.name, n, []string{"copy", "rc", "sub", "csub"}[rng.Intn(4)]))
			cp := map[string]string{}
			for p, k := range x.paths {
				cp[p] = k
			}
			live = append(live, &ob{n, cp})
		case 5, 6, 7, 8:
			if len(x.paths) == 0 {
				ops = append(ops, fmt.Sprintf("edit:%s:-:top%d:i%d", x.name, rng.Intn(2), rng.Intn(100)))
				continue
			}
			var ps []string
			for p := range x.paths {
				ps = append(ps, p)
			}
			sort.Strings(ps)
			p := ps[rng.Intn(len(ps))]
			k := x.paths[p]
			key := []string{"a", "z", "new"}[rng.Intn(3)]
			if k[0] == 's' {
				key = strconv.Itoa(rng.Intn(4))
			}
			val := fmt.Sprintf("i%d", 1000+rng.Intn(100))
			if k[1] == 's' {
				val = "sedited"
			}
			ops = append(ops, fmt.Sprintf("edit:%s:%s:%s:%s", x.name, p, key, val))
			// a scalar written over a nested container removes the paths below it
			sub := p + "/" + key
			for q := range x.paths {
				if q == sub || strings.HasPrefix(q, sub+"/") {
					delete(x.paths, q)
				}
			}
		case 9:
			ops = append(ops, "recycle:"+x.name)
			live = append(live[:i], live[i+1:]...)
		}
	}
	return "annh " + strings.Join(ops, " ")
}

func c07RandQual(rng *rand.Rand, n int) string {
	q := make([]byte, n)
	for i := range q {
		q[i] = byte(1 + rng.Intn(41))
	}
	return hx(q)
}

func c07GenHeap(rng *rand.Rand, steps int) string {
	type ob struct {
		name string
		l    int
	}
	var live []ob
	next := 0
	fresh := func() string { next++; return fmt.Sprintf("o%d", next) }
	var ops []string
	newObj := func() {
		l := []int{0, 1, 2, 5, 12, 30, 299, 300, 301, 1024, 1025}[rng.Intn(11)]
		if rng.Intn(2) == 0 {
			l = rng.Intn(16)
		}
		q := "-"
		if l > 0 && rng.Intn(2) == 0 {
			q = c07RandQual(rng, l)
		}
		n := fresh()
		ops = append(ops, fmt.Sprintf("new:%s:%s:%s", n, hx(c07RandSeq(rng, l, false)), q))
		live = append(live, ob{n, l})
	}
	newObj()
	for len(ops) < steps {
		if len(live) == 0 || (len(live) < 8 && rng.Intn(8) == 0) {
			newObj()
			continue
		}
		i := rng.Intn(len(live))
		x := live[i]
		switch rng.Intn(12) {
		case 0:
			n := fresh()
			ops = append(ops, fmt.Sprintf("copy:%s:%s", x.name, n))
			live = append(live, ob{n, x.l})
		case 1:
			n := fresh()
			ops = append(ops, fmt.Sprintf("rc:%s:%s", x.name, n))
			live = append(live, ob{n, x.l})
		case 2:
			ops = append(ops, "rci:"+x.name)
		case 3, 4:
			if x.l == 0 {
				continue
			}
			f, t := rng.Intn(x.l), rng.Intn(x.l+1)
			c := rng.Intn(2)
			switch rng.Intn(6) {
			case 0:
				f, t = 0, x.l
			case 1:
				t = f // from = to: error when linear, the whole circle when circular
			case 2:
				t = x.l
			}
			n := fresh()
			ops = append(ops, fmt.Sprintf("sub:%s:%s:%d:%d:%d", x.name, n, f, t, c))
			if c == 1 || f < t {
				nl := t - f
				if f >= t {
					nl = x.l - f + t
				}
				live = append(live, ob{n, nl})
			} else {
				next-- // no object created: the name stays free
			}
		case 5:
			ops = append(ops, fmt.Sprintf("set:%s:%d:%d", x.name, rng.Intn(x.l+1), c07Alpha[rng.Intn(len(c07Alpha))]))
		case 6:
			ops = append(ops, "recycle:"+x.name)
			live = append(live[:i], live[i+1:]...)
		case 7:
			ops = append(ops, fmt.Sprintf("mapset:%s:%s:%s:%d", x.name, []string{"merged_sample", "m2"}[rng.Intn(2)], []string{"s1", "s2", "s3"}[rng.Intn(3)], rng.Intn(100)))
		case 8:
			if x.l == 0 {
				continue
			}
			ops = append(ops, fmt.Sprintf("setqual:%s:%s", x.name, c07RandQual(rng, x.l)))
		case 9, 10:
			fl := rng.Intn(20)
			ft := make([]byte, fl)
			for j := range ft {
				ft[j] = byte(65 + rng.Intn(26))
			}
			ops = append(ops, fmt.Sprintf("setfeat:%s:%s:%d", x.name, hx(ft), []int{0, 10, 280, 300, 400, 1100}[rng.Intn(6)]))
		case 11:
			ops = append(ops, fmt.Sprintf("scratch:%d:%d", []int{0, 1, 8, 40, 300, 301, 1024, 1025}[rng.Intn(8)], 1+rng.Intn(255)))
		}
	}
	return "heap " + strings.Join(ops, " ")
}

func c07GenMut(rng *rand.Rand, steps int) string {
	type ob struct {
		name string
		l    int
		q    bool
	}
	var live []ob
	next := 0
	fresh := func() string { next++; return fmt.Sprintf("m%d", next) }
	var ops []string
	newObj := func() {
		l := rng.Intn(14)
		q := "-"
		if l > 0 && rng.Intn(2) == 0 {
			q = c07RandQual(rng, l)
		}
		n := fresh()
		ops = append(ops, fmt.Sprintf("new:%s:%s:%s", n, hx(c07RandSeq(rng, l, false)), q))
		live = append(live, ob{n, l, q != "-"})
	}
	newObj()
	for len(ops) < steps {
		if len(live) == 0 || (len(live) < 6 && rng.Intn(8) == 0) {
			newObj()
			continue
		}
		i := rng.Intn(len(live))
		x := &live[i]
		switch rng.Intn(14) {
		case 0:
			n := fresh()
			ops = append(ops, fmt.Sprintf("copy:%s:%s", x.name, n))
			live = append(live, ob{n, x.l, x.q})
		case 1:
			n := fresh()
			ops = append(ops, fmt.Sprintf("rc:%s:%s", x.name, n))
			live = append(live, ob{n, x.l, x.q})
		case 2:
			ops = append(ops, "rci:"+x.name)
		case 3, 4:
			k := 1 + rng.Intn(5)
			ops = append(ops, fmt.Sprintf("%s:%s:%s:%s", []string{"write", "writestring"}[rng.Intn(2)], x.name, hx(c07RandSeq(rng, k, false)), c07RandQual(rng, k)))
			if x.l == 0 {
				x.q = true
			}
			x.l += k
		case 5:
			ops = append(ops, fmt.Sprintf("writebyte:%s:%d:%d", x.name, "acgtn"[rng.Intn(5)], 1+rng.Intn(40)))
			x.l++
		case 6:
			ops = append(ops, "clear:"+x.name)
			x.l, x.q = 0, false
		case 7:
			y := live[rng.Intn(len(live))]
			if x.q {
				continue
			}
			ops = append(ops, fmt.Sprintf("join:%s:%s", x.name, y.name))
			x.l += y.l
		case 8:
			if x.l == 0 {
				continue
			}
			ops = append(ops, fmt.Sprintf("setqual:%s:%s", x.name, c07RandQual(rng, x.l)))
			x.q = true
		case 9:
			if x.l == 0 {
				continue
			}
			ops = append(ops, fmt.Sprintf("setmm:%s:%d", x.name, 1+rng.Intn(x.l)))
		case 10:
			ops = append(ops, fmt.Sprintf("setid:%s:id%d", x.name, rng.Intn(100)))
		case 11:
			ops = append(ops, fmt.Sprintf("set:%s:%d:%d", x.name, rng.Intn(x.l+1), "acgtn"[rng.Intn(5)]))
		case 12:
			if rng.Intn(3) != 0 {
				continue
			}
			ops = append(ops, "recycle:"+x.name)
			live = append(live[:i], live[i+1:]...)
		case 13:
			switch rng.Intn(3) {
			case 0:
				ops = append(ops, "rci:"+x.name)
			case 1:
				if x.l == 0 {
					continue
				}
				f, t := rng.Intn(x.l), rng.Intn(x.l+1)
				c := rng.Intn(2)
				n := fresh()
				ops = append(ops, fmt.Sprintf("sub:%s:%s:%d:%d:%d", x.name, n, f, t, c))
				if c == 1 || f < t {
					nl := t - f
					if f >= t {
						nl = x.l - f + t
					}
					live = append(live, ob{n, nl, x.q})
				} else {
					next--
				}
			case 2:
				if x.q {
					continue
				}
				k := rng.Intn(8)
				ops = append(ops, fmt.Sprintf("setseq:%s:%s", x.name, hx(c07RandSeq(rng, k, true))))
				x.l = k
			}
		}
	}
	return "mut " + strings.Join(ops, " ")
}
