//go:build c13

package main

// Property C13, deepening round 3: float frontier (`f`), every command option with the side outputs (`x`).
//
//	f <workers> <maxError> <p> <q> <count>:<hexseq> ...   like `g`; the result ends with ` fx=0|1` : does the real code
//	      (float64 arithmetic) differ from the integer / exact-rational reference on this sample? The model answers the same
//	      question by comparing its IEEE-754 run (Model/F64.lean) with its exact-rational run.
//	x <workers> <maxError> <p> <q> <head> <minEval> <attr> <item> ...   the REAL CLIOBIClean with --sample <attr>, --distance,
//	      --ratio, --head, --min-eval-rate, --save-ratio, --save-graph. item = hex/a=5,b=7 (merged_<attr> map) | hex/a~7 (no
//	      map: attribute <attr>=a, count 7) | hex/~7 (neither: sample "NA"). Result: the records (as `c`) | the lines of
//	      the ratio table sorted | the lines in FILE order | per GML file `name:idx.circle.head.size.count,.../src>tgt.dist,...`

import (
	"fmt"
	"math"
	"math/big"
	"math/rand"
	"os"
	"regexp"
	"sort"
	"strconv"
	"strings"

	"git.metabarcoding.org/obitools/obitools4/obitools4/pkg/obitools/obiclean"
)

// ---- exact integer arithmetic (no overflow) and the domain in which float64 is claimed / proved to agree ----

var c13Unsafe bool // set by c13Reference when one arithmetic call of the sample is outside the domain

var c13Two52 = new(big.Int).Lsh(big.NewInt(1), 52)

// round half away from zero of w*c/swf, exact
func c13RoundDiv(w, c, swf int) int {
	n := new(big.Int).Mul(big.NewInt(int64(w)), big.NewInt(int64(c)))
	if n.Cmp(c13Two52) >= 0 || swf >= 1<<53 {
		c13Unsafe = true
		stat("float:share-outside-domain(w*c>=2^52)")
	}
	return c13RoundDivQ(w, c, swf)
}

func c13RoundDivQ(w, c, swf int) int {
	n := new(big.Int).Mul(big.NewInt(int64(w)), big.NewInt(int64(c)))
	n.Lsh(n, 1)
	n.Add(n, big.NewInt(int64(swf)))
	n.Div(n, big.NewInt(2*int64(swf)))
	return int(n.Int64())
}

// w1 * q^d <=> p^d * wf : -1, 0, +1, exact
func c13RatioCmp(w1, wf, p, q, d int) int {
	qd := new(big.Int).Exp(big.NewInt(int64(q)), big.NewInt(int64(d)), nil)
	pd := new(big.Int).Exp(big.NewInt(int64(p)), big.NewInt(int64(d)), nil)
	l := new(big.Int).Mul(big.NewInt(int64(w1)), qd)
	r := new(big.Int).Mul(pd, big.NewInt(int64(wf)))
	dyadic := p == 1 && q&(q-1) == 0
	if l.Cmp(c13Two52) >= 0 || r.Cmp(c13Two52) >= 0 || (d > 1 && !dyadic && p != 0) {
		c13Unsafe = true
		if d > 1 {
			stat("float:ratio-outside-domain(d>1,non-dyadic)")
		} else {
			stat("float:ratio-outside-domain(>=2^52)")
		}
	}
	return l.Cmp(r)
}

// c13Differs : the real graph (one worker) is not the graph of the integer reference
func c13Differs(cs c13Case, ns []obiclean.VerifNode) bool {
	ref := c13Reference(cs.seqs, cs.counts, cs.p, cs.q, cs.maxErr)
	if len(ns) != len(cs.seqs) {
		return true
	}
	for i, n := range ns {
		var fs []int
		for _, e := range n.Edges {
			fs = append(fs, e.Father)
		}
		sort.Ints(fs)
		if n.Orig != ref.order[i] || fmt.Sprint(fs) != fmt.Sprint(ref.fathers[i]) || n.SonCount != ref.sons[i] ||
			n.Weight != ref.weight[i] || n.Status != ref.status[i] {
			return true
		}
	}
	return false
}

// numeric oracle failures are statistics when the sample is outside the domain
func c13DomainFilter(fails []Fail) []Fail {
	if !c13Unsafe {
		return fails
	}
	var out []Fail
	for _, f := range fails {
		switch f.Sig {
		case "graph.edge", "graph.soncount", "graph.weight", "graph.status", "annot.records", "annot.head", "annot.counts",
			"annot.status", "annot.weight", "annot.mutation", "csv.rows":
			stat("float:differs-from-rational(outside-domain)")
		default:
			out = append(out, f)
		}
	}
	return out
}

// ---- op x ----

func c13ParseX(f []string) (cs c13Case, ok bool) {
	// x w d p q head minEval attr items...
	if len(f) < 9 || (f[5] != "0" && f[5] != "1") {
		return cs, false
	}
	cs.op = "x"
	cs.onlyHead = f[5] == "1"
	nums := make([]int, 4)
	for i := 0; i < 4; i++ {
		v, err := strconv.Atoi(f[1+i])
		if err != nil || v < 0 {
			return cs, false
		}
		nums[i] = v
	}
	cs.workers, cs.maxErr, cs.p, cs.q = nums[0], nums[1], nums[2], nums[3]
	if cs.workers < 1 || cs.workers > 64 || cs.q < 1 || cs.maxErr > 8 {
		return cs, false
	}
	me, err := strconv.Atoi(f[6])
	if err != nil || me < 0 {
		return cs, false
	}
	cs.minEval, cs.attr = me, f[7]
	for _, c := range cs.attr {
		if c < 'a' || c > 'z' {
			return cs, false
		}
	}
	for _, w := range f[8:] {
		k := strings.IndexByte(w, '/')
		if k < 0 {
			return cs, false
		}
		s, ok := unhx(w[:k])
		if !ok || !c13Plain(s) {
			return cs, false
		}
		rest := w[k+1:]
		in := obiclean.VerifInput{Seq: s}
		m := map[string]int{}
		if t := strings.IndexByte(rest, '~'); t >= 0 {
			n, err := strconv.Atoi(rest[t+1:])
			if err != nil || n < 1 || n > 1<<30 || t > 1 {
				return cs, false
			}
			in.Count = n
			if t == 1 {
				if rest[0] < 'a' || rest[0] > 'z' {
					return cs, false
				}
				in.HasSample, in.Sample = true, rest[:1]
				m[rest[:1]] = n
			} else {
				m["NA"] = n
			}
		} else {
			for _, kv := range strings.Split(rest, ",") {
				if len(kv) < 3 || kv[1] != '=' || kv[0] < 'a' || kv[0] > 'z' {
					return cs, false
				}
				n, err := strconv.Atoi(kv[2:])
				if err != nil || n < 1 || n > 1<<30 {
					return cs, false
				}
				if _, dup := m[kv[:1]]; dup {
					return cs, false
				}
				m[kv[:1]] = n
			}
			in.Merged = m
		}
		cs.inputs = append(cs.inputs, in)
		cs.smaps = append(cs.smaps, m)
		cs.seqs = append(cs.seqs, s)
	}
	return cs, true
}

var c13GmlNode = regexp.MustCompile(`node \[ id (\d+)\s+graphics \[\s+type "(\w+)"\s+fill "(#[0-9A-F]+)"\s+h (\d+)\s+w (\d+)\s+\]\s+weight (\d+)`)
var c13GmlEdge = regexp.MustCompile(`edge \[ source (\d+)\s+target (\d+)\s+color "(#[0-9A-F]+)"\s+label "(\d+)"`)

func c13GmlSummary(name, text string) string {
	var nodes, edges []string
	for _, m := range c13GmlNode.FindAllStringSubmatch(text, -1) {
		circle, head := "0", "0"
		if m[2] == "circle" {
			circle = "1"
		}
		if m[3] == "#0000FF" {
			head = "1"
		}
		if m[4] != m[5] {
			head = "!hw"
		}
		nodes = append(nodes, fmt.Sprintf("%s.%s.%s.%s.%s", m[1], circle, head, m[4], m[6]))
	}
	for _, m := range c13GmlEdge.FindAllStringSubmatch(text, -1) {
		if (m[3] == "#FF0000") != (m[4] != "1" && m[4] != "0") {
			m[4] += "!colour"
		}
		edges = append(edges, fmt.Sprintf("%s>%s.%s", m[1], m[2], m[4]))
	}
	return name + ":" + strings.Join(nodes, ",") + "/" + strings.Join(edges, ",")
}

// runX : the records | csv sorted | csv in file order | gml, and the raw texts for the determinism comparison
func (cs c13Case) runX(workers int) string {
	dir, err := os.MkdirTemp("", "c13x")
	if err != nil {
		return "!tmpdir"
	}
	defer os.RemoveAll(dir)
	in := make([]obiclean.VerifInput, len(cs.inputs))
	for i, r := range cs.inputs {
		in[i] = r
		in[i].Seq = append([]byte{}, r.Seq...)
	}
	side := obiclean.VerifCLIOBICleanFull(in, cs.attr, workers, cs.maxErr, cs.ratio(), cs.onlyHead, cs.minEval, dir)
	recs := "-"
	if len(side.Records) > 0 {
		parts := make([]string, len(side.Records))
		for i, r := range side.Records {
			parts[i] = fmt.Sprintf("%d:%s", r.Orig, c13Annots([]obiclean.VerifAnnot{r.Annot}))
		}
		recs = strings.Join(parts, " ")
	}
	lines := strings.Split(strings.TrimRight(side.CSV, "\n"), "\n")
	if len(lines) == 0 || lines[0] != "Sample,Father_id,Father_status,From,To,Weight_from,Weight_to,Count_from,Count_to,Position,length,A,C,G,T" {
		return "!csv-header"
	}
	rows := lines[1:]
	sorted := append([]string{}, rows...)
	sort.Strings(sorted)
	csvS, csvF := "-", "-"
	if len(rows) > 0 {
		csvS, csvF = strings.Join(sorted, ";"), strings.Join(rows, ";")
	}
	var names []string
	for n := range side.GML {
		names = append(names, n)
	}
	sort.Strings(names)
	gml := make([]string, len(names))
	for i, n := range names {
		gml[i] = c13GmlSummary(strings.TrimSuffix(n, ".gml"), side.GML[n])
	}
	g := "-"
	if len(gml) > 0 {
		g = strings.Join(gml, ";")
	}
	return recs + " | " + csvS + " | " + csvF + " | " + g
}

// c13CsvOracle : the multiset of the lines of the ratio table, recomputed from the independent per-sample reference
// (every remaining distance-one edge whose father has weight >= minEval: sample, father id and status, the two
// weights, the two counts, length and base composition of the father); From/To/Position must reproduce the edit
func c13CsvOracle(cs c13Case, csvSorted string) (fails []Fail) {
	names := map[string]bool{}
	for _, m := range cs.smaps {
		for k := range m {
			names[k] = true
		}
	}
	var want []string
	for name := range names {
		var idx []int
		var seqs [][]byte
		var counts []int
		for i, m := range cs.smaps {
			if c, ok := m[name]; ok {
				idx = append(idx, i)
				seqs = append(seqs, cs.seqs[i])
				counts = append(counts, c)
			}
		}
		ref := c13Reference(seqs, counts, cs.p, cs.q, cs.maxErr)
		for pos := range ref.order {
			for k, f := range ref.fathers[pos] {
				if ref.dists[pos][k] != 1 || ref.weight[f] < cs.minEval {
					continue
				}
				fs := seqs[ref.order[f]]
				want = append(want, fmt.Sprintf("%s,s%d,%s,%d,%d,%d,%d,%d,%d,%d,%d,%d|%d", name, idx[ref.order[f]], ref.status[f],
					ref.weight[f], ref.weight[pos], counts[ref.order[f]], counts[ref.order[pos]], len(fs),
					strings.Count(string(fs), "a"), strings.Count(string(fs), "c"), strings.Count(string(fs), "g"), strings.Count(string(fs), "t"),
					idx[ref.order[pos]]))
			}
		}
	}
	var got []string
	if csvSorted != "-" {
		for _, l := range strings.Split(csvSorted, ";") {
			f := strings.Split(l, ",")
			if len(f) != 15 {
				return []Fail{{"csv.format", "unexpected line " + l}}
			}
			got = append(got, strings.Join(append(append([]string{}, f[:3]...), append(append([]string{}, f[5:9]...), f[10:]...)...), ","))
		}
	}
	// the reference lines carry the son after `|` (the file does not name the son): compare without it
	w2 := make([]string, len(want))
	for i, l := range want {
		w2[i] = l[:strings.IndexByte(l, '|')]
	}
	sort.Strings(w2)
	sort.Strings(got)
	if strings.Join(w2, ";") != strings.Join(got, ";") {
		fails = append(fails, Fail{"csv.rows", fmt.Sprintf("ratio table (without From/To/Position) is %v, expected %v", got, w2)})
	}
	return fails
}

// ---- generators ----

// c13BigWeights : two abundant fathers (counts near 2^30) at one substitution of each other and of a son whose count
// is large too: the shares w*c/swf have w*c up to 2^60 (float64(w)*float64(c) is rounded). `search` random triples
// are tried for one on which the float share differs from the exact one.
func c13BigWeights(rng *rand.Rand, search int) []c13Item {
	length := 10 + rng.Intn(10)
	a := make([]byte, length)
	for i := range a {
		a[i] = c13Alpha[rng.Intn(4)]
	}
	last := a[length-1]
	var others []byte
	for _, x := range c13Alpha {
		if x != last {
			others = append(others, x)
		}
	}
	b := append(append([]byte{}, a[:length-1]...), others[0])
	s := append(append([]byte{}, a[:length-1]...), others[1])
	pick := func() (int, int, int) {
		c1 := 1<<29 + rng.Intn(1<<29)
		c2 := 1<<29 + rng.Intn(1<<29)
		lo := c1
		if c2 < lo {
			lo = c2
		}
		w := lo - 1 - rng.Intn(lo/2)
		return w, c1, c2
	}
	w, c1, c2 := pick()
	// constructive search: w * c1 / (c1 + c2) at distance 1/(2 swf) of a half-integer: w = c1^-1 * (swf +- 1)/2 mod swf
	for k := 0; k < search; k++ {
		_, d1, d2 := pick()
		swf := d1 + d2
		if swf%2 == 0 {
			d2++
			swf++
		}
		inv := new(big.Int).ModInverse(big.NewInt(int64(d1)), big.NewInt(int64(swf)))
		if inv == nil {
			continue
		}
		half := (swf + 1 - 2*rng.Intn(2)) / 2
		w2 := int(new(big.Int).Mod(new(big.Int).Mul(inv, big.NewInt(int64(half))), big.NewInt(int64(swf))).Int64())
		lo := d1
		if d2 < lo {
			lo = d2
		}
		if w2 < 1<<24 || w2 >= lo {
			continue
		}
		differs := false
		for _, c := range []int{d1, d2} {
			if int(c13FloatShare(w2, c, []int{d1, d2})) != c13RoundDivQ(w2, c, swf) {
				differs = true
			}
		}
		if differs {
			w, c1, c2 = w2, d1, d2
			stat("gen:bigweights-float-differs-found")
			break
		}
	}
	items := []c13Item{{a, c1}, {b, c2}, {s, w}}
	// a few leaves of the son (one substitution at another position: two differences from a and b)
	for k := 0; k < rng.Intn(3); k++ {
		items = append(items, c13Item{c13Subst(rng, s, rng.Intn(length-1)), 1 + rng.Intn(1000)})
	}
	rng.Shuffle(len(items), func(i, j int) { items[i], items[j] = items[j], items[i] })
	return items
}

// the expression of reweightSequences, used only by the GENERATOR to look for frontier inputs
func c13FloatShare(w, c int, fathers []int) float64 {
	swf := 0.0
	for _, f := range fathers {
		swf += float64(f)
	}
	return math.Round(float64(w) * float64(c) / swf)
}

var c13FrontierRatios = [][2]int{{7, 10}, {99, 100}, {2, 7}, {1, 10}, {5, 100}, {3, 10}, {1, 3}, {2, 3}, {15, 100}, {6, 10}}

func c13GenFrontier(rng *rand.Rand, tier string, emit func(string)) {
	n := 6
	if tier == "thorough" {
		n = 12
	}
	for k := 0; k < n; k++ {
		w := 1 + rng.Intn(16)
		emit(c13Line("f", w, 1, [2]int{1, 1}, c13BigWeights(rng, 4000)))
		emit(c13Line("f", w, 1, c13FrontierRatios[rng.Intn(len(c13FrontierRatios))], c13BigWeights(rng, 0)))
	}
	for _, r := range c13FrontierRatios {
		for d := 1; d <= 3; d++ {
			for _, delta := range []int{-1, 0, 1} {
				if tier != "thorough" && d == 1 && delta != 0 {
					continue
				}
				if items, ok := c13Boundary(rng, r[0], r[1], d, delta); ok {
					emit(c13Line("f", 1+rng.Intn(8), d, r, items))
				}
			}
		}
	}
}

// c13GenX : data sets through every option of the command
func c13GenX(rng *rand.Rand, tier string, emit func(string)) {
	n := 10
	if tier == "thorough" {
		n = 16
	}
	attrs := []string{"sample", "pcr", "sample", "well"}
	evals := []int{0, 1, 2, 5, 20, 1000}
	for k := 0; k < n; k++ {
		d := 1
		if rng.Intn(3) == 0 {
			d = 2 + rng.Intn(2)
		}
		r := c13Ratios[rng.Intn(len(c13Ratios))]
		if d > 1 {
			r = c13Dyadic[rng.Intn(len(c13Dyadic))]
		}
		items := c13Sample(rng, 6+rng.Intn(20), false)
		line := c13Multi(rng, "c", 1+rng.Intn(16), d, r, rng.Intn(3) == 0, items, 2+rng.Intn(4))
		f := strings.Fields(line)
		out := append([]string{"x"}, f[1:6]...)
		out = append(out, strconv.Itoa(evals[rng.Intn(len(evals))]), attrs[rng.Intn(len(attrs))])
		for _, it := range f[6:] {
			sl := strings.IndexByte(it, '/')
			m := it[sl+1:]
			if !strings.Contains(m, ",") && rng.Intn(3) == 0 { // one sample only: as a plain record
				if rng.Intn(3) == 0 {
					it = it[:sl+1] + "~" + m[2:]
				} else {
					it = it[:sl+1] + m[:1] + "~" + m[2:]
				}
			}
			out = append(out, it)
		}
		emit(strings.Join(out, " "))
	}
}
