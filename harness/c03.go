//go:build c03

package main

import (
	"fmt"
	"math/rand"
	"sort"
	"strconv"
	"strings"
	"sync"
	"sync/atomic"
	"time"

	"git.metabarcoding.org/obitools/obitools4/obitools4/pkg/obiiter"
	"git.metabarcoding.org/obitools/obitools4/obitools4/pkg/obioptions"
	"git.metabarcoding.org/obitools/obitools4/obitools4/pkg/obiseq"
)

type c03 struct{}

func init() { props["C03"] = c03{} }

type c03Batch struct {
	order int
	ids   []int
}

func c03ParseStream(s string) ([]c03Batch, bool) {
	var bs []c03Batch
	for _, w := range strings.Fields(s) {
		p := strings.Split(w, ":")
		if len(p) != 2 {
			return nil, false
		}
		o, err := strconv.Atoi(p[0])
		if err != nil {
			return nil, false
		}
		b := c03Batch{order: o}
		if p[1] != "" {
			for _, x := range strings.Split(p[1], ",") {
				id, err := strconv.Atoi(x)
				if err != nil {
					return nil, false
				}
				b.ids = append(b.ids, id)
			}
		}
		bs = append(bs, b)
	}
	return bs, true
}

func c03ShowIds(ids []int) string {
	s := make([]string, len(ids))
	for i, x := range ids {
		s[i] = strconv.Itoa(x)
	}
	return strings.Join(s, ",")
}

func c03Show(bs []c03Batch) string {
	s := make([]string, len(bs))
	for i, b := range bs {
		s[i] = fmt.Sprintf("%d:%s", b.order, c03ShowIds(b.ids))
	}
	return strings.Join(s, " ")
}

func c03Seq(id int) *obiseq.BioSequence {
	return obiseq.NewBioSequence("r"+strconv.Itoa(id), []byte("acgtacgt"), "")
}

func c03Id(s *obiseq.BioSequence) int {
	id, _ := strconv.Atoi(s.Id()[1:])
	return id
}

// c03Iter pushes the batches of a stream in the given (arrival) order.
func c03Iter(bs []c03Batch) obiiter.IBioSequence {
	it := obiiter.MakeIBioSequence()
	it.Add(1)
	go func() {
		for _, b := range bs {
			sl := obiseq.MakeBioSequenceSlice()
			for _, id := range b.ids {
				sl = append(sl, c03Seq(id))
			}
			it.Push(obiiter.MakeBioSequenceBatch("src", b.order, sl))
		}
		it.Done()
	}()
	go it.WaitAndClose()
	return it
}

func c03Drain(it obiiter.IBioSequence) []c03Batch {
	var out []c03Batch
	mode := c03Mode // "" unless a `mslow` case is running
	if mode == "late" {
		time.Sleep(2 * time.Millisecond)
	}
	rank := 0
	for it.Next() {
		b := it.Get()
		cb := c03Batch{order: b.Order()}
		for _, s := range b.Slice() {
			cb.ids = append(cb.ids, c03Id(s))
		}
		out = append(out, cb)
		c03Pace(mode, rank)
		rank++
	}
	return out
}

func c03Pred(s *obiseq.BioSequence) bool { return c03Id(s)%3 == 0 }

func c03Work(sl obiseq.BioSequenceSlice) (obiseq.BioSequenceSlice, error) {
	out := obiseq.MakeBioSequenceSlice()
	for _, s := range sl {
		id := c03Id(s)
		switch {
		case id%5 == 0:
		case id%7 == 0:
			out = append(out, s, c03Seq(id+1000))
		default:
			out = append(out, s)
		}
	}
	return out, nil
}


// ---- worker-stage ops (record-to-slice adapters of obiseq/worker.go behind MakeIWorker,
// MakeIConditionalWorker, ChainWorkers) ----

// c03WSpec is the per-record worker described on the case line by "K,M,E": record id fails when
// E > 0 and id%E == E-1; else it yields n records id*100+j (j < n), n = K (mode c) or
// (id*7+K)%(K+1) (mode m).
type c03WSpec struct {
	k       int
	varying bool
	e       int
}

func c03ParseWSpec(s string) (c03WSpec, bool) {
	p := strings.Split(s, ",")
	if len(p) != 3 || (p[1] != "c" && p[1] != "m") {
		return c03WSpec{}, false
	}
	k, err1 := strconv.Atoi(p[0])
	e, err2 := strconv.Atoi(p[2])
	if err1 != nil || err2 != nil || k < 0 || e < 0 {
		return c03WSpec{}, false
	}
	return c03WSpec{k, p[1] == "m", e}, true
}

// fan-out of one record; -1 = the worker fails
func (w c03WSpec) fan(id int) int {
	if w.e > 0 && id%w.e == w.e-1 {
		return -1
	}
	if w.varying {
		return (id*7 + w.k) % (w.k + 1)
	}
	return w.k
}

func (w c03WSpec) worker() obiseq.SeqWorker {
	return func(s *obiseq.BioSequence) (obiseq.BioSequenceSlice, error) {
		id := c03Id(s)
		n := w.fan(id)
		if n < 0 {
			return nil, fmt.Errorf("record %d refused", id)
		}
		res := obiseq.MakeBioSequenceSlice()
		for j := 0; j < n; j++ {
			res = append(res, c03Seq(id*100+j))
		}
		return res, nil
	}
}

// naive reference of a chain of per-record workers on a list of ids, independent of the code under
// test: (ids kept in order, a record of the FIRST stage failed). A failure in a later stage of a chain
// only skips that intermediate record (SeqToSliceWorker(next, false) inside ChainWorkers).
func c03RefWorkers(specs []c03WSpec, ids []int) (out []int, failed bool) {
	cur := ids
	for st, w := range specs {
		var next []int
		for _, id := range cur {
			n := w.fan(id)
			if n < 0 {
				if st == 0 {
					failed = true
				}
				continue
			}
			for j := 0; j < n; j++ {
				next = append(next, id*100+j)
			}
		}
		cur = next
	}
	return cur, failed
}

func c03FlagArg(pre, s string) int {
	if !strings.HasPrefix(s, pre) {
		return -1
	}
	n, err := strconv.Atoi(s[len(pre):])
	if err != nil {
		return -1
	}
	return n
}

func c03SortByOrder(out []c03Batch) {
	sort.SliceStable(out, func(i, j int) bool { return out[i].order < out[j].order })
}


// ---- fragments: sequences of length 1+(id*7)%40; a fragment <id>_sub[a+1..b] is record id*10000+a*100+b ----

func c03FragLen(id int) int { return 1 + (id*7)%40 }

func c03FragSeq(id int) *obiseq.BioSequence {
	b := make([]byte, c03FragLen(id))
	for i := range b {
		b[i] = "acgt"[(i+id)%4]
	}
	return obiseq.NewBioSequence("r"+strconv.Itoa(id), b, "")
}

func c03FragId(s *obiseq.BioSequence) int {
	id := s.Id()
	k := strings.Index(id, "_sub[")
	if k < 0 {
		n, _ := strconv.Atoi(id[1:])
		return n
	}
	base, _ := strconv.Atoi(id[1:k])
	var a, b int
	fmt.Sscanf(id[k:], "_sub[%d..%d]", &a, &b)
	return base*10000 + (a-1)*100 + b
}

// naive reference of the cut (independent formulation: window starts 0, step, 2*step, …; a window whose
// remainder after it is shorter than step is extended to the end and is the last one)
func c03RefFrag(id, minsize, length, overlap int) []int {
	L := c03FragLen(id)
	if L <= minsize {
		return []int{id}
	}
	step := length - overlap
	var out []int
	for a := 0; a < L; a += step {
		b := a + length
		if b > L {
			b = L
		}
		if L-b < step {
			out = append(out, id*10000+a*100+L)
			break
		}
		out = append(out, id*10000+a*100+b)
	}
	return out
}

func c03IterWith(bs []c03Batch, mk func(int) *obiseq.BioSequence) obiiter.IBioSequence {
	it := obiiter.MakeIBioSequence()
	it.Add(1)
	go func() {
		for _, b := range bs {
			sl := obiseq.MakeBioSequenceSlice()
			for _, id := range b.ids {
				sl = append(sl, mk(id))
			}
			it.Push(obiiter.MakeBioSequenceBatch("src", b.order, sl))
		}
		it.Done()
	}()
	go it.WaitAndClose()
	return it
}

func c03DrainWith(it obiiter.IBioSequence, id func(*obiseq.BioSequence) int) []c03Batch {
	var out []c03Batch
	for it.Next() {
		b := it.Get()
		cb := c03Batch{order: b.Order()}
		for _, s := range b.Slice() {
			cb.ids = append(cb.ids, id(s))
		}
		out = append(out, cb)
	}
	return out
}

// one stage of a "pipe" case applied to the real iterator + the reference on the flat record list
func c03PipeStage(tok string, nw int, it obiiter.IBioSequence, flat []int) (obiiter.IBioSequence, []int, bool) {
	p := strings.Split(tok, ":")
	num := func(i int) int {
		if i >= len(p) {
			return -1
		}
		n, err := strconv.Atoi(p[i])
		if err != nil {
			return -1
		}
		return n
	}
	switch {
	case p[0] == "sort" && len(p) == 1:
		return it.SortBatches(), flat, true
	case p[0] == "filterempty" && len(p) == 1:
		return it.FilterEmpty(), flat, true
	case p[0] == "limitmem" && len(p) == 1:
		return it.LimitMemory(1.0), flat, true
	case p[0] == "tee" && len(p) == 1:
		a, b := it.CopyTee()
		go c03ConsumeBursty(b)
		return a, flat, true
	case p[0] == "complete" && len(p) == 1:
		return it.SortBatches().CompleteFileIterator(), flat, true
	case p[0] == "divt" && len(p) == 2 && num(1) > 0:
		var want []int
		for _, id := range flat {
			if id%3 == 0 {
				want = append(want, id)
			}
		}
		t, f := it.DivideOn(c03Pred, num(1))
		go c03ConsumeBursty(f)
		return t, want, true
	case p[0] == "worker" && len(p) == 1:
		var want []int
		for _, id := range flat {
			switch {
			case id%5 == 0:
			case id%7 == 0:
				want = append(want, id, id+1000)
			default:
				want = append(want, id)
			}
		}
		return it.MakeISliceWorker(c03Work, false, nw), want, true
	case p[0] == "rebatch" && len(p) == 2 && num(1) > 0:
		return it.Rebatch(num(1)), flat, true
	case p[0] == "filteron" && len(p) == 2 && num(1) > 0:
		var want []int
		for _, id := range flat {
			if id%3 == 0 {
				want = append(want, id)
			}
		}
		return it.FilterOn(c03Pred, num(1), nw), want, true
	case p[0] == "iworker" && len(p) == 3:
		sp, ok := c03ParseWSpec(p[1] + "," + p[2] + ",0")
		if !ok {
			return it, nil, false
		}
		want, _ := c03RefWorkers([]c03WSpec{sp}, flat)
		return it.MakeIWorker(sp.worker(), false, nw), want, true
	}
	return it, nil, false
}

// random partition of ids first..first+n-1 into nb batches (sizes >= 0), Contract numbering 0..nb-1
// c03ClassRuns renames the records (id -> 4*id + class) so that, in the order of the batch numbers, runs of l
// consecutive records fall in the same class of the `distribute` classifier (id % 4)
func c03ClassRuns(bs []c03Batch, l int) []c03Batch {
	idx := make([]int, len(bs))
	for i := range idx {
		idx[i] = i
	}
	sort.SliceStable(idx, func(a, b int) bool { return bs[idx[a]].order < bs[idx[b]].order })
	out := make([]c03Batch, len(bs))
	p := 0
	for _, i := range idx {
		ids := make([]int, len(bs[i].ids))
		for j, id := range bs[i].ids {
			ids[j] = 4*id + (p/l)%4
			p++
		}
		out[i] = c03Batch{bs[i].order, ids}
	}
	return out
}

func c03Partition(rng *rand.Rand, first, n, nb int) []c03Batch {
	bs := make([]c03Batch, nb)
	for i := range bs {
		bs[i].order = i
	}
	if nb == 0 {
		return bs
	}
	cuts := make([]int, nb-1)
	for i := range cuts {
		cuts[i] = rng.Intn(n + 1)
	}
	sort.Ints(cuts)
	prev := 0
	for i := 0; i < nb; i++ {
		end := n
		if i < nb-1 {
			end = cuts[i]
		}
		for x := prev; x < end; x++ {
			bs[i].ids = append(bs[i].ids, first+x)
		}
		prev = end
	}
	return bs
}

func c03Shuffle(rng *rand.Rand, bs []c03Batch) []c03Batch {
	out := append([]c03Batch{}, bs...)
	rng.Shuffle(len(out), func(i, j int) { out[i], out[j] = out[j], out[i] })
	return out
}

func (c03) Gen(rng *rand.Rand, tier string, emit func(string)) {
	c03GenR3First(tier, emit)
	// corpus
	for _, c := range []string{
		"sort | 1:3,4 0: 2:5", "sort | ", "sort | 2:1 1:2 0:3", "sort | 1:1 2:2",
		"rebatch 2 | 1:3,4 0:9 2:5", "rebatch 3 | 0: 1: 2:", "rebatch 1 | ",
		"filterempty | 2:1 0: 1:2", "concat |  | 0:1 1:2", "concat | 0:1 |  | 0:2", "concat | 1:2 0:1 | 0:3 |  | 1:5 0:4",
		"divide 2 | 0:1,2,3,4,5,6,9", "divide 2 | ", "filteron 2 w=3 | 1:4,5,6 0:1,2,3", "worker w=2 | 1:5,7 0:1,2",
		"distribute 2 | 0:1,2,3,4,5,6,7,8,9", "batchover 2 | 0:1,2,3,4,5", "batchover 3 | ", "batchover 1 | 0:", "pairto 2 | 0:1,2,3 | 1:6 0:4,5", "pool | 0:1 1:2 | 0:3", "pool |  | ",
	} {
		emit(c)
	}
	// the remaining combinators, empty streams and empty batches through each of them
	for _, c := range []string{
		"frag 5 10 3 4 w=2 | 1:3,4 0:1,2", "frag 0 4 1 3 w=3 | 2:5 0: 1:1,2,3,4", "frag 100 10 3 4 w=2 | 0:1,2 1:3", "frag 5 10 3 4 w=2 | ", "frag 5 10 9 2 w=1 | 0:5",
		"frag 3 7 0 5 w=4 | 0: 1: 2:", "merge 2 | 1:3,4 0:9 2:5", "merge 1 | 0:1,2,3", "merge 3 | ", "merge 2 | 1:3,4 0:", "merge 2 | 0:1 1:2 2:3 3:4",
		"load | 1:3,4 0:9", "load | ", "load | 0: 1:", "count | 1:3,4 0:9 2:", "count | ", "complete | 1:3,4 0:9", "complete | ", "complete | 0: 1:",
		"limitmem | 1:3,4 0:9 2:", "limitmem | ", "speed | 1:3,4 0: 2:5", "speed | ", "tee | 1:3 0:4,5 2:", "tee | ",
		"pairedwith 2 | 0:1,2,3 | 1:6 0:4,5", "pairedwith 3 | 0: | ", "pairedwith 1 |  | ",
		"pipe w=2 worker,rebatch:3,iworker:3:c,filteron:2 | 1:3,4,7 0:9,6 2:5", "pipe w=3 sort,filterempty,limitmem | 2: 0:1 1:", "pipe w=2 filteron:1,worker,rebatch:2,sort | ",
		"pipe w=4 iworker:0:c,filterempty,rebatch:2 | 0:1,2 1:3", "pipe w=2 iworker:5:m,iworker:2:c,rebatch:7 | 1: 0:1,2,3 2:4",
		// outside the order contract: a missing number, a number pushed twice (what the code does is an explicit outcome)
		"sort | 0:1 2:3 3:4", "sort | 1:2 2:3", "sort | 0:1 1:2 1:3 2:4", "sort | 1:2 1:3 0:1 2:4", "sort | 0:1 0:2 1:3", "rebatch 2 | 0:1,2,3 2:4,5", "rebatch 2 | 1:9 0:1,2,3 1:4,5",
		"filterempty | 0:1 2:3", "divide 2 | 0:1,2,3 2:6,9", "distribute 2 | 0:1,2,3 0:4,5", "complete | 0:1 2:3",
	} {
		emit(c)
	}
	// record-to-slice adapters: the growth of the output slice (one record of fan-out >= 3 in a batch of 1,
	// a short last batch with a large fan-out, fan-out 0, failing records with and without breakOnError)
	for _, c := range []string{
		"adapt w=1 boe=0 3,c,0 | 0:1", "adapt w=1 boe=0 0,c,0 | 0:", "adapt w=1 boe=0 5,c,0 | 0:", "adapt w=1 boe=0 0,c,0 | 0:1,2,3",
		"adapt w=1 boe=0 20,c,0 | 0:1", "adapt w=1 boe=0 9,m,0 | 0:1,2,3,4,5", "adapt w=1 boe=0 2,c,3 | 0:1,2,3,4,5,6", "adapt w=1 boe=1 2,c,3 | 0:1,2,3",
		"adapt w=1 boe=1 2,c,3 | 0:1,3,4", "adaptcond w=1 boe=0 4,c,0 | 0:1,2,3,4,5,6", "adaptcond w=1 boe=1 4,c,2 | 0:1,2,4,5", "adaptcond w=1 boe=1 4,c,2 | 0:1,2,3,4,5",
		"iworker w=2 boe=0 7,c,0 | 0:1 1:2 2:3 3:4 4:5 5:6", "iworker w=1 boe=0 9,c,0 | 0:1,2,3,4 1:5", "iworker w=3 boe=0 3,c,0 | 2:3 0:1 1:2",
		"iworker w=8 boe=0 20,m,0 | 1:3,4 0:1,2 2: 3:5", "iworker w=2 boe=0 2,c,3 | 0:1,2 1:3,4,5", "iworker w=2 boe=1 2,c,3 | 0:1,2 1:3,4,5", "iworker w=2 boe=1 2,c,3 | 0:1 1:3,4",
		"icond w=2 boe=0 5,c,0 | 0:1,2,3 1:6 2:7", "icond w=2 boe=1 5,c,3 | 0:1,2,3 1:6 2:7", "icond w=2 boe=1 5,c,4 | 0:1,2,3 1:6 2:7",
		"islice w=4 boe=0 11,c,0 | 0:1 1:2,3", "islice w=2 boe=1 3,c,2 | 0:1 1:2,3", "islice w=2 boe=0 3,c,2 | 0:1 1:2,3",
		"chain w=2 boe=0 1,c,0 3,c,0 | 0:1,2,3", "chain w=2 boe=0 2,c,0 7,c,0 | 1:2 0:1", "chain w=1 boe=0 3,m,0 4,m,5 2,c,0 | 0:1,2,3,4 1:5,6",
		"chain w=2 boe=1 2,c,0 3,c,2 | 0:1,2 1:3", "chain w=2 boe=1 2,c,2 3,c,0 | 0:1,2 1:3", "chain w=2 boe=0 0,c,0 3,c,0 | 0:1,2", "chain w=3 boe=0 4,c,0 | 0:1,2",
	} {
		emit(c)
	}
	{
		// every fan-out 0..20 x batch of 1..maxb records through the adapter alone, and through MakeIWorker /
		// ChainWorkers with 1..8 goroutines on a stream of batches of exactly that size
		maxb := 4
		if tier == "thorough" {
			maxb = 12
		}
		ids := func(first, n int) string {
			v := make([]int, n)
			for i := range v {
				v[i] = first + i
			}
			return c03ShowIds(v)
		}
		for fan := 0; fan <= 20; fan++ {
			for bs := 1; bs <= maxb; bs++ {
				emit(fmt.Sprintf("adapt w=1 boe=0 %d,c,0 | 0:%s", fan, ids(1, bs)))
				emit(fmt.Sprintf("adaptcond w=1 boe=0 %d,c,0 | 0:%s", fan, ids(1, 3*bs)))
				nb := 1 + (fan+bs)%4
				var parts []string
				for k := nb - 1; k >= 0; k-- {
					parts = append(parts, fmt.Sprintf("%d:%s", k, ids(1+k*bs, bs)))
				}
				w := 1 + (fan*maxb+bs)%8
				switch (fan + bs) % 3 {
				case 0:
					emit(fmt.Sprintf("iworker w=%d boe=0 %d,c,0 | %s", w, fan, strings.Join(parts, " ")))
				case 1:
					emit(fmt.Sprintf("chain w=%d boe=0 1,c,0 %d,c,0 | %s", w, fan, strings.Join(parts, " ")))
				case 2:
					emit(fmt.Sprintf("icond w=%d boe=0 %d,c,0 | %s", w, fan, strings.Join(parts, " ")))
				}
				if tier == "thorough" {
					emit(fmt.Sprintf("iworker w=%d boe=0 %d,m,0 | %s", 1+(w+3)%8, fan, strings.Join(parts, " ")))
					emit(fmt.Sprintf("chain w=%d boe=0 2,c,0 %d,m,0 | %s", 1+(w+5)%8, fan, strings.Join(parts, " ")))
					emit(fmt.Sprintf("islice w=%d boe=0 %d,c,0 | %s", 1+(w+1)%8, fan, strings.Join(parts, " ")))
				}
			}
		}
	}
	// stress: thousands of one-record batches in flight between 8..16 workers (a worker that looks at a
	// batch another worker has just taken shows up as a lost / duplicated batch)
	{
		var sb strings.Builder
		for k := 0; k < 3000; k++ {
			if k > 0 {
				sb.WriteByte(' ')
			}
			fmt.Fprintf(&sb, "%d:%d", k, k+1)
		}
		for rep := 0; rep < 3; rep++ {
			emit(fmt.Sprintf("worker w=%d | %s", 8+4*rep, sb.String()))
		}
		emit(fmt.Sprintf("filteron 7 w=16 | %s", sb.String()))
		// the same with 60000 implicit one-record batches (batch k holds record k+1): too long for a case line
		emit("wstress 16 60000 | ")
		emit("wstress 8 60000 | ")
	}
	if tier == "thorough" {
		// every arrival permutation of n <= 5 batches x two emptiness patterns for the sorting combinators
		for n := 1; n <= 5; n++ {
			perm := make([]int, n)
			for i := range perm {
				perm[i] = i
			}
			var rec func(i int)
			rec = func(i int) {
				if i == n {
					for pat := 0; pat < 2; pat++ {
						var parts []string
						for _, k := range perm {
							if pat == 1 && k%2 == 1 {
								parts = append(parts, fmt.Sprintf("%d:", k))
							} else {
								parts = append(parts, fmt.Sprintf("%d:%d,%d", k, 2*k+1, 2*k+2))
							}
						}
						st := strings.Join(parts, " ")
						emit("sort | " + st)
						emit("rebatch 3 | " + st)
						emit("filterempty | " + st)
						emit("divide 2 | " + st)
					}
					return
				}
				for j := i; j < n; j++ {
					perm[i], perm[j] = perm[j], perm[i]
					rec(i + 1)
					perm[i], perm[j] = perm[j], perm[i]
				}
			}
			rec(0)
		}
	}
	n := 1300
	if tier == "thorough" {
		n = 8000
	}
	for i := 0; i < n; i++ {
		nrec := rng.Intn(40)
		nb := rng.Intn(7)
		if nb == 0 {
			nrec = 0
		}
		st := c03Shuffle(rng, c03Partition(rng, 1, nrec, nb))
		size := 1 + rng.Intn(5)
		wspec := func(maxk int) string {
			mode := "c"
			if rng.Intn(2) == 0 {
				mode = "m"
			}
			e := 0
			if rng.Intn(4) == 0 {
				e = 2 + rng.Intn(5)
			}
			return fmt.Sprintf("%d,%s,%d", rng.Intn(maxk+1), mode, e)
		}
		// small batches (0..4 records) for the worker-stage ops
		wstream := func() string {
			nb := 1 + rng.Intn(6)
			var parts []string
			first := 1
			for k := 0; k < nb; k++ {
				m := rng.Intn(5)
				if rng.Intn(3) == 0 {
					m = 1
				}
				v := make([]int, m)
				for i := range v {
					v[i] = first + i
				}
				first += m
				parts = append(parts, fmt.Sprintf("%d:%s", k, c03ShowIds(v)))
			}
			rng.Shuffle(len(parts), func(i, j int) { parts[i], parts[j] = parts[j], parts[i] })
			return strings.Join(parts, " ")
		}
		// damage outside the order contract: drop one batch (gap) or renumber one batch as another (duplicate)
		damage := func(bs []c03Batch, dupOK bool) []c03Batch {
			if len(bs) < 2 || rng.Intn(8) != 0 {
				return bs
			}
			if dupOK && rng.Intn(2) == 0 {
				out := append([]c03Batch{}, bs...)
				i, j := rng.Intn(len(out)), rng.Intn(len(out))
				if i != j {
					out[i].order = out[j].order
				}
				return out
			}
			i := rng.Intn(len(bs))
			return append(append([]c03Batch{}, bs[:i]...), bs[i+1:]...)
		}
		pipeStages := func() string {
			ns := 3 + rng.Intn(2)
			var st []string
			for k := 0; k < ns; k++ {
				switch rng.Intn(7) {
				case 0:
					st = append(st, "sort")
				case 1:
					st = append(st, "filterempty")
				case 2:
					st = append(st, "limitmem")
				case 3:
					st = append(st, "worker")
				case 4:
					st = append(st, fmt.Sprintf("rebatch:%d", 1+rng.Intn(5)))
				case 5:
					st = append(st, fmt.Sprintf("filteron:%d", 1+rng.Intn(5)))
				case 6:
					st = append(st, fmt.Sprintf("iworker:%d:%s", rng.Intn(6), []string{"c", "m"}[rng.Intn(2)]))
				}
			}
			return strings.Join(st, ",")
		}
		switch rng.Intn(27) {
		case 18:
			length := 1 + rng.Intn(15)
			emit(fmt.Sprintf("frag %d %d %d %d w=%d | %s", rng.Intn(20), length, rng.Intn(length), size, 1+rng.Intn(4), c03Show(st)))
		case 19:
			var ne []c03Batch
			for _, b := range st {
				if len(b.ids) > 0 || rng.Intn(10) == 0 {
					ne = append(ne, b)
				}
			}
			emit(fmt.Sprintf("merge %d | %s", size, c03Show(ne)))
		case 20:
			emit([]string{"load", "count", "complete", "limitmem", "speed", "tee"}[rng.Intn(6)] + " | " + c03Show(st))
		case 21:
			nb2 := rng.Intn(7)
			if nrec > 0 && nb2 == 0 {
				nb2 = 1
			}
			if nb == 0 {
				nb2 = 0
			}
			st2 := c03Shuffle(rng, c03Partition(rng, 101, nrec, nb2))
			emit(fmt.Sprintf("pairedwith %d | %s | %s", size, c03Show(st), c03Show(st2)))
		case 22, 23, 24, 25, 26:
			emit(fmt.Sprintf("pipe w=%d %s | %s", 1+rng.Intn(8), pipeStages(), c03Show(st)))
		case 12:
			emit(fmt.Sprintf("iworker w=%d boe=%d %s | %s", 1+rng.Intn(8), rng.Intn(2), wspec(20), wstream()))
		case 13:
			emit(fmt.Sprintf("icond w=%d boe=%d %s | %s", 1+rng.Intn(8), rng.Intn(2), wspec(20), wstream()))
		case 14:
			emit(fmt.Sprintf("islice w=%d boe=%d %s | %s", 1+rng.Intn(8), rng.Intn(2), wspec(20), wstream()))
		case 15, 16:
			ns := 2 + rng.Intn(2)
			big := rng.Intn(ns)
			var sp []string
			for k := 0; k < ns; k++ {
				if k == big {
					sp = append(sp, wspec(20))
				} else {
					sp = append(sp, wspec(4))
				}
			}
			emit(fmt.Sprintf("chain w=%d boe=%d %s | %s", 1+rng.Intn(8), rng.Intn(2), strings.Join(sp, " "), wstream()))
		case 17:
			op := "adapt"
			if rng.Intn(2) == 0 {
				op = "adaptcond"
			}
			m := rng.Intn(9)
			v := make([]int, m)
			for i := range v {
				v[i] = 1 + i + rng.Intn(3)*i
			}
			emit(fmt.Sprintf("%s w=1 boe=%d %s | 0:%s", op, rng.Intn(2), wspec(20), c03ShowIds(v)))
		case 11:
			emit(fmt.Sprintf("batchover %d | %s", size, c03Show(c03Partition(rng, 1, nrec, 1))))
		case 0:
			if rng.Intn(5) == 0 && len(st) > 1 { // a gap: outside the contract, SortBatches drops the tail
				st = st[1:]
			}
			emit("sort | " + c03Show(st))
		case 1:
			emit(fmt.Sprintf("rebatch %d | %s", size, c03Show(damage(st, true))))
		case 2:
			emit("filterempty | " + c03Show(damage(st, true)))
		case 3:
			ns := 1 + rng.Intn(3)
			parts := []string{c03Show(st)}
			first := nrec + 1
			for k := 0; k < ns; k++ {
				m, b := rng.Intn(10), rng.Intn(4)
				if b == 0 {
					m = 0
				}
				parts = append(parts, c03Show(c03Shuffle(rng, c03Partition(rng, first, m, b))))
				first += m
			}
			emit("concat | " + strings.Join(parts, " | "))
		case 4:
			emit(fmt.Sprintf("divide %d | %s", size, c03Show(damage(st, true))))
		case 5:
			emit(fmt.Sprintf("filteron %d w=%d | %s", size, 1+rng.Intn(4), c03Show(damage(st, false))))
		case 6:
			emit(fmt.Sprintf("worker w=%d | %s", 1+rng.Intn(4), c03Show(st)))
		case 7:
			emit(fmt.Sprintf("distribute %d | %s", size, c03Show(damage(st, true))))
			// the same stream with runs of one class longer than an output batch (consecutive ids cycle through the
			// four classes and never give two records of a class in a row: seeded C03-m8); no draw from the PRNG
			emit(fmt.Sprintf("distribute %d | %s", size, c03Show(c03ClassRuns(st, size+1+nrec%3))))
		case 8:
			nb2 := rng.Intn(7)
			if nrec > 0 && nb2 == 0 {
				nb2 = 1
			}
			if nb == 0 {
				nb2 = 0
			}
			st2 := c03Shuffle(rng, c03Partition(rng, 101, nrec, nb2))
			emit(fmt.Sprintf("pairto %d | %s | %s", size, c03Show(st), c03Show(st2)))
		case 9:
			m, b := rng.Intn(10), rng.Intn(4)
			if b == 0 {
				m = 0
			}
			emit("pool | " + c03Show(st) + " | " + c03Show(c03Shuffle(rng, c03Partition(rng, nrec+1, m, b))))
		case 10:
			emit(fmt.Sprintf("rebatch %d | %s", size, c03Show(st)))
		}
	}
	c03GenMore(rng, tier, emit)
	c03GenR3(rng, tier, emit)
}

func c03Contract(bs []c03Batch) bool {
	seen := map[int]bool{}
	for _, b := range bs {
		if b.order < 0 || b.order >= len(bs) || seen[b.order] {
			return false
		}
		seen[b.order] = true
	}
	return true
}

func c03Flat(bs []c03Batch) []int {
	s := append([]c03Batch{}, bs...)
	sort.SliceStable(s, func(i, j int) bool { return s[i].order < s[j].order })
	var r []int
	for _, b := range s {
		r = append(r, b.ids...)
	}
	return r
}

func c03FanClass(k int) string {
	switch {
	case k == 0:
		return "0"
	case k == 1:
		return "1"
	case k == 2:
		return "2"
	case k <= 4:
		return "3-4"
	case k <= 9:
		return "5-9"
	}
	return "10+"
}

func c03FirstDiff(a, b []int) int {
	for i := 0; i < len(a) && i < len(b); i++ {
		if a[i] != b[i] {
			return i
		}
	}
	if len(a) < len(b) {
		return len(a)
	}
	return len(b)
}

func c03Head(a []int) []int {
	if len(a) > 12 {
		return a[:12]
	}
	return a
}

func eqInts(a, b []int) bool {
	if len(a) != len(b) {
		return false
	}
	for i := range a {
		if a[i] != b[i] {
			return false
		}
	}
	return true
}

func (c03) Exec(c string) (string, []Fail) {
	parts := strings.Split(c, " | ")
	if len(parts) < 2 {
		return "bad-op", nil
	}
	head := strings.Fields(parts[0])
	if len(head) == 0 {
		return "bad-op", nil
	}
	var streams [][]c03Batch
	for _, p := range parts[1:] {
		bs, ok := c03ParseStream(p)
		if !ok {
			return "bad-op", nil
		}
		streams = append(streams, bs)
	}
	op := head[0]
	stat("op:" + op)
	intArg := func(i int) int {
		if len(head) <= i {
			return -1
		}
		s := strings.TrimPrefix(head[i], "w=")
		n, err := strconv.Atoi(s)
		if err != nil {
			return -1
		}
		return n
	}
	var fails []Fail
	fail := func(sig, format string, a ...any) {
		fails = append(fails, Fail{Sig: op + "." + sig, Text: fmt.Sprintf(format, a...)})
	}
	inContract := true
	for _, s := range streams {
		if !c03Contract(s) {
			inContract = false
		}
	}
	if !inContract {
		stat("outside-contract")
	}
	if r, f, ok := c03ExecR3(c, head, parts, streams, inContract, fail); ok {
		return r, append(fails, f...)
	}
	// checks shared by the order-preserving single-output combinators
	checkOut := func(out []c03Batch, want []int, deliveredInOrder bool) {
		if !inContract {
			return
		}
		if !c03Contract(out) {
			fail("numbering", "output batches are not numbered 0..n-1 without gap or duplicate: %s", c03Show(out))
		}
		if deliveredInOrder {
			for i, b := range out {
				if b.order != i {
					fail("delivery-order", "batch delivered at rank %d has number %d", i, b.order)
					break
				}
			}
		}
		if got := c03Flat(out); !eqInts(got, want) {
			fail("records", "records delivered %v, expected %v", got, want)
		}
	}
	var expectFatal, notExecuted atomic.Bool
	wd := 5 * time.Second
	switch op {
	case "divideabs":
		wd = 1200 * time.Millisecond
	case "big":
		wd = 120 * time.Second
	}
	res := guardT(wd, func() string {
		switch {
		case (op == "divideabs" || op == "divideslow") && len(streams) == 1 && len(head) == 2 && intArg(1) > 0:
			ti, fi := c03Iter(streams[0]).DivideOn(c03Pred, intArg(1))
			var wt, wf []int
			for _, id := range c03Flat(streams[0]) {
				if id%3 == 0 {
					wt = append(wt, id)
				} else {
					wf = append(wf, id)
				}
			}
			if op == "divideabs" {
				// the second output is never consumed: the first one must still be served when the second
				// carries nothing; when it carries a batch the loop blocks (explicit outcome "hang")
				t := c03Drain(ti)
				checkOut(t, wt, true)
				return "T " + c03Show(t)
			}
			var t, f []c03Batch
			var wg sync.WaitGroup
			wg.Add(2)
			go func() { t = c03DrainMode(ti, "burst"); wg.Done() }()
			go func() { time.Sleep(20 * time.Millisecond); f = c03DrainMode(fi, "slow"); wg.Done() }()
			wg.Wait()
			checkOut(t, wt, true)
			checkOut(f, wf, true)
			return "T " + c03Show(t) + " F " + c03Show(f)
		case op == "adaptnil" && len(streams) == 1 && len(streams[0]) == 1 && len(head) == 4:
			boe := c03FlagArg("boe=", head[2])
			sp, ok := c03ParseWSpec(head[3])
			if boe < 0 || boe > 1 || !ok {
				return "bad-op"
			}
			variant := head[1]
			stat("adaptnil:" + variant)
			ids := streams[0][0].ids
			in := obiseq.MakeBioSequenceSlice()
			for _, id := range ids {
				in = append(in, c03Seq(id))
			}
			w := sp.worker()
			var nilw obiseq.SeqWorker
			var sw obiseq.SeqSliceWorker
			var want []int
			failed := false
			switch variant {
			case "w":
				sw, want = obiseq.SeqToSliceWorker(nil, boe == 1), ids
			case "c":
				sw = obiseq.SeqToSliceConditionalWorker(nil, w, boe == 1)
				want, failed = c03RefWorkers([]c03WSpec{sp}, ids)
			case "cw":
				sw = obiseq.SeqToSliceConditionalWorker(c03Pred, nil, boe == 1)
				for _, id := range ids {
					if id%3 == 0 {
						want = append(want, id)
					}
				}
			case "cwn":
				sw, want = obiseq.SeqToSliceConditionalWorker(nil, nil, boe == 1), ids
			case "chainl":
				sw = obiseq.SeqToSliceWorker(nilw.ChainWorkers(w), boe == 1)
				want, failed = c03RefWorkers([]c03WSpec{sp}, ids)
			case "chainr":
				sw = obiseq.SeqToSliceWorker(w.ChainWorkers(nil), boe == 1)
				want, failed = c03RefWorkers([]c03WSpec{sp}, ids)
			case "chainnn":
				// a chained worker applied to a nil record yields nothing and does not panic
				r, err := w.ChainWorkers(w)(nil)
				if err != nil || len(r) != 0 {
					fail("nil-record", "a chained worker applied to nil returned %d records, err=%v", len(r), err)
				}
				if nilw.ChainWorkers(nil) == nil {
					return "nil"
				}
				return "worker"
			default:
				return "bad-op"
			}
			res, err := sw(in)
			if err != nil {
				if !(failed && boe == 1) {
					fail("error", "the adapter returned an error although no record had to stop the batch: %v", err)
				}
				return "err"
			}
			if failed && boe == 1 {
				fail("error", "a record failed under breakOnError but the adapter returned no error")
			}
			var got []int
			for _, r := range res {
				if r == nil {
					fail("nil-record", "a nil record was returned")
					return "panic"
				}
				got = append(got, c03Id(r))
			}
			if !eqInts(got, want) {
				fail("records", "%d records returned, %d expected: got %v, expected %v", len(got), len(want), c03Head(got), c03Head(want))
			}
			return "ok " + c03ShowIds(got)
		case op == "pipec" && len(streams) == 1 && len(head) == 4:
			nw := c03FlagArg("w=", head[1])
			mode := strings.TrimPrefix(head[2], "c=")
			if nw <= 0 || (mode != "fast" && mode != "slow" && mode != "burst") {
				return "bad-op"
			}
			stages := strings.Split(head[3], ",")
			stat(fmt.Sprintf("pipec.stages:%d", len(stages)))
			stat("pipec.consumer:" + mode)
			stat(fmt.Sprintf("pipec.workers:%d", nw))
			it := c03Iter(streams[0])
			flat := c03Flat(streams[0])
			for _, tok := range stages {
				var ok bool
				it, flat, ok = c03PipeStage(tok, nw, it, flat)
				if !ok {
					go it.Consume()
					return "bad-op"
				}
				stat("pipec.stage:" + strings.Split(tok, ":")[0])
			}
			out := c03DrainMode(it, mode)
			c03SortByOrder(out)
			checkOut(out, flat, false)
			return c03Show(out)
		case op == "big" && len(streams) == 1 && len(streams[0]) == 0 && len(head) == 6:
			nw, nrec, bsz := c03FlagArg("w=", head[1]), c03FlagArg("n=", head[3]), c03FlagArg("bs=", head[4])
			mode := strings.TrimPrefix(head[2], "c=")
			stages := strings.Split(head[5], ",")
			last := strings.Split(stages[len(stages)-1], ":")
			if nw <= 0 || nrec < 0 || bsz <= 0 || last[0] != "rebatch" || (mode != "fast" && mode != "slow" && mode != "burst") {
				return "bad-op"
			}
			stat(fmt.Sprintf("big.records:%d", nrec))
			it := c03BigStream(nrec, bsz)
			flat := make([]int, nrec)
			for i := range flat {
				flat[i] = i + 1
			}
			for _, tok := range stages {
				var ok bool
				it, flat, ok = c03PipeStage(tok, nw, it, flat)
				if !ok {
					go it.Consume()
					return "bad-op"
				}
			}
			n, nb, lastLen, h, bad := 0, 0, 0, 7, 0
			for it.Next() {
				b := it.Get()
				if b.Order() != nb {
					bad++
				}
				for _, sq := range b.Slice() {
					id := c03Id(sq)
					if n >= len(flat) || flat[n] != id {
						bad++
					}
					h = (h*31 + id) % 1000000007
					n++
				}
				lastLen = b.Len()
				c03Pace(mode, nb)
				nb++
			}
			if bad > 0 || n != len(flat) {
				fail("records", "%d records delivered for %d expected, %d out of place or misnumbered batches", n, len(flat), bad)
			}
			return fmt.Sprintf("n=%d nb=%d last=%d h=%d", n, nb, lastLen, h)
		case op == "uniq" && len(streams) == 1 && len(head) == 1:
			return c03Uniq(streams[0], fail)
		case op == "trace" && len(streams) == 1 && (len(head) == 3 || len(head) == 4):
			nw := c03FlagArg("w=", head[1])
			mode := strings.TrimPrefix(head[2], "c=")
			if nw <= 0 || !inContract || (mode != "fast" && mode != "slow" && mode != "burst") {
				return "bad-op"
			}
			events, out := c03Trace(streams[0], nw, mode)
			caseOverride = strings.Join(head[:3], " ") + " ev=" + strings.Join(events, ",") + " | " + parts[1]
			checkOut(out, c03Flat(streams[0]), true)
			stat(fmt.Sprintf("trace.events:%d+", len(events)/10*10))
			return "valid " + c03Show(out)

		case op == "sort" && len(streams) == 1:
			out := c03Drain(c03Iter(streams[0]).SortBatches())
			checkOut(out, c03Flat(streams[0]), true)
			return c03Show(out)
		case op == "rebatch" && len(streams) == 1 && intArg(1) > 0:
			out := c03Drain(c03Iter(streams[0]).Rebatch(intArg(1)))
			checkOut(out, c03Flat(streams[0]), true)
			if inContract {
				for i, b := range out {
					if (i < len(out)-1 && len(b.ids) != intArg(1)) || len(b.ids) == 0 || len(b.ids) > intArg(1) {
						fail("sizes", "batch %d has %d records for size %d", i, len(b.ids), intArg(1))
						break
					}
				}
			}
			return c03Show(out)
		case op == "filterempty" && len(streams) == 1:
			out := c03Drain(c03Iter(streams[0]).FilterEmpty())
			checkOut(out, c03Flat(streams[0]), true)
			for _, b := range out {
				if len(b.ids) == 0 && inContract {
					fail("empty", "an empty batch was delivered")
				}
			}
			return c03Show(out)
		case op == "concat" && len(streams) >= 1:
			var others []obiiter.IBioSequence
			var want []int
			for i, s := range streams {
				want = append(want, c03Flat(s)...)
				if i > 0 {
					others = append(others, c03Iter(s))
				}
			}
			out := c03Drain(c03Iter(streams[0]).Concat(others...))
			checkOut(out, want, false)
			if inContract { // a downstream SortBatches must deliver everything
				sorted := c03Drain(c03Iter(out).SortBatches())
				if !eqInts(c03Flat(sorted), want) {
					fail("downstream-sort", "SortBatches after Concat delivers %v, expected %v", c03Flat(sorted), want)
				}
			}
			return c03Show(out)
		case op == "divide" && len(streams) == 1 && intArg(1) > 0:
			ti, fi := c03Iter(streams[0]).DivideOn(c03Pred, intArg(1))
			var t, f []c03Batch
			var wg sync.WaitGroup
			wg.Add(2)
			go func() { t = c03Drain(ti); wg.Done() }()
			go func() { f = c03Drain(fi); wg.Done() }()
			wg.Wait()
			var wt, wf []int
			for _, id := range c03Flat(streams[0]) {
				if id%3 == 0 {
					wt = append(wt, id)
				} else {
					wf = append(wf, id)
				}
			}
			checkOut(t, wt, true)
			checkOut(f, wf, true)
			return "T " + c03Show(t) + " F " + c03Show(f)
		case op == "filteron" && len(streams) == 1 && intArg(1) > 0 && intArg(2) > 0:
			out := c03Drain(c03Iter(streams[0]).FilterOn(c03Pred, intArg(1), intArg(2)))
			var want []int
			for _, id := range c03Flat(streams[0]) {
				if id%3 == 0 {
					want = append(want, id)
				}
			}
			checkOut(out, want, true)
			return c03Show(out)
		case op == "worker" && len(streams) == 1 && intArg(1) > 0:
			out := c03Drain(c03Iter(streams[0]).MakeISliceWorker(c03Work, false, intArg(1)))
			var want []int
			for _, id := range c03Flat(streams[0]) {
				switch {
				case id%5 == 0:
				case id%7 == 0:
					want = append(want, id, id+1000)
				default:
					want = append(want, id)
				}
			}
			checkOut(out, want, false)
			sort.SliceStable(out, func(i, j int) bool { return out[i].order < out[j].order })
			return c03Show(out)
		case (op == "iworker" || op == "icond" || op == "islice" || op == "chain") && len(streams) == 1 && len(head) >= 4:
			nw, boe := c03FlagArg("w=", head[1]), c03FlagArg("boe=", head[2])
			if nw <= 0 || boe < 0 || boe > 1 || (op != "chain" && len(head) != 4) {
				return "bad-op"
			}
			var specs []c03WSpec
			for _, h := range head[3:] {
				sp, ok := c03ParseWSpec(h)
				if !ok {
					return "bad-op"
				}
				specs = append(specs, sp)
				stat(fmt.Sprintf("%s.fan-class:%s", op, c03FanClass(sp.k)))
			}
			stat(fmt.Sprintf("%s.workers:%d", op, nw))
			sel := func(id int) bool { return true }
			if op == "icond" {
				sel = func(id int) bool { return id%3 == 0 }
			}
			// reference first (before any goroutine of the code under test exists)
			var selIds []int
			for _, id := range c03Flat(streams[0]) {
				if sel(id) {
					selIds = append(selIds, id)
				}
			}
			want, failed := c03RefWorkers(specs, selIds)
			if failed && boe == 1 {
				stat(op + ".expect-fatal")
				expectFatal.Store(true)
			}
			src := c03Iter(streams[0])
			var it obiiter.IBioSequence
			switch op {
			case "iworker":
				it = src.MakeIWorker(specs[0].worker(), boe == 1, nw)
			case "icond":
				it = src.MakeIConditionalWorker(c03Pred, specs[0].worker(), boe == 1, nw)
			case "islice":
				w := specs[0].worker()
				sw := func(sl obiseq.BioSequenceSlice) (obiseq.BioSequenceSlice, error) {
					out := obiseq.MakeBioSequenceSlice()
					for _, s := range sl {
						r, err := w(s)
						if err != nil {
							if boe == 1 {
								return obiseq.BioSequenceSlice{}, err
							}
							continue
						}
						out = append(out, r...)
					}
					return out, nil
				}
				it = src.MakeISliceWorker(sw, boe == 1, nw)
			case "chain":
				w := specs[0].worker()
				for _, sp := range specs[1:] {
					w = w.ChainWorkers(sp.worker())
				}
				it = src.MakeIWorker(w, boe == 1, nw)
			}
			out := c03Drain(it)
			c03SortByOrder(out)
			// oracle: every batch keeps its number; the records are those the naive reference yields
			if failed && boe == 1 {
				// the command must stop (log.Fatalf): observed as the outcome "fatal" by guardT
				return c03Show(out)
			}
			if inContract {
				var inOrders, outOrders []int
				for _, b := range streams[0] {
					inOrders = append(inOrders, b.order)
				}
				for _, b := range out {
					outOrders = append(outOrders, b.order)
				}
				sort.Ints(inOrders)
				if !eqInts(inOrders, outOrders) {
					fail("numbering", "batch numbers out %v, in %v", outOrders, inOrders)
				}
				if got := c03Flat(out); !eqInts(got, want) {
					fail("records", "%d records delivered, %d expected (first difference at rank %d): got %v, expected %v",
						len(got), len(want), c03FirstDiff(got, want), c03Head(got), c03Head(want))
				}
				// per batch too: a record must not move to another batch
				for _, b := range out {
					var bsel []int
					for _, ib := range streams[0] {
						if ib.order == b.order {
							for _, id := range ib.ids {
								if sel(id) {
									bsel = append(bsel, id)
								}
							}
						}
					}
					bw, _ := c03RefWorkers(specs, bsel)
					if !eqInts(b.ids, bw) {
						fail("batch-records", "batch %d holds %d records, %d expected", b.order, len(b.ids), len(bw))
						break
					}
				}
			}
			return c03Show(out)
		case (op == "adapt" || op == "adaptcond") && len(streams) == 1 && len(streams[0]) == 1 && len(head) == 4:
			boe := c03FlagArg("boe=", head[2])
			sp, ok := c03ParseWSpec(head[3])
			if c03FlagArg("w=", head[1]) < 0 || boe < 0 || boe > 1 || !ok {
				return "bad-op"
			}
			stat(fmt.Sprintf("%s.fan-class:%s", op, c03FanClass(sp.k)))
			in := obiseq.MakeBioSequenceSlice()
			var selIds []int
			for _, id := range streams[0][0].ids {
				in = append(in, c03Seq(id))
				if op == "adapt" || id%3 == 0 {
					selIds = append(selIds, id)
				}
			}
			var sw obiseq.SeqSliceWorker
			if op == "adapt" {
				sw = obiseq.SeqToSliceWorker(sp.worker(), boe == 1)
			} else {
				sw = obiseq.SeqToSliceConditionalWorker(c03Pred, sp.worker(), boe == 1)
			}
			res, err := sw(in)
			want, failed := c03RefWorkers([]c03WSpec{sp}, selIds)
			if err != nil {
				if !(failed && boe == 1) {
					fail("error", "the adapter returned an error although no record had to stop the batch: %v", err)
				}
				return "err"
			}
			if failed && boe == 1 {
				fail("error", "a record failed under breakOnError but the adapter returned no error")
			}
			var got []int
			for _, r := range res {
				if r == nil {
					fail("nil-record", "a nil record was returned")
					return "panic"
				}
				got = append(got, c03Id(r))
			}
			if !eqInts(got, want) {
				fail("records", "%d records returned, %d expected (first difference at rank %d): got %v, expected %v",
					len(got), len(want), c03FirstDiff(got, want), c03Head(got), c03Head(want))
			}
			return "ok " + c03ShowIds(got)
		case op == "frag" && len(streams) == 1 && len(head) == 6:
			m, l, o, sz, nw := intArg(1), intArg(2), intArg(3), intArg(4), intArg(5)
			if m < 0 || l <= 0 || o < 0 || l <= o || sz <= 0 || nw <= 0 {
				return "bad-op"
			}
			out := c03DrainWith(obiiter.IFragments(m, l, o, sz, nw)(c03IterWith(streams[0], c03FragSeq)), c03FragId)
			var want []int
			for _, id := range c03Flat(streams[0]) {
				want = append(want, c03RefFrag(id, m, l, o)...)
			}
			checkOut(out, want, true)
			return c03Show(out)
		case op == "merge" && len(streams) == 1 && intArg(1) > 0:
			for _, b := range streams[0] {
				if len(b.ids) == 0 {
					// BioSequenceSlice.Merge indexes sequences[0] in a goroutine of the library: the process would die.
					// Outcome recorded from reading the code, not executed.
					stat("merge.empty-group:panic(not executed)")
					notExecuted.Store(true)
					return "panic"
				}
			}
			it := c03Iter(streams[0]).IMergeSequenceBatch("NA", obiseq.StatsOnDescriptions{}, intArg(1))
			var out []c03Batch
			reads := 0
			for it.Next() {
				b := it.Get()
				cb := c03Batch{order: b.Order()}
				for _, s := range b.Slice() {
					cb.ids = append(cb.ids, c03Id(s))
					reads += s.Count()
				}
				out = append(out, cb)
			}
			var want []int
			total := 0
			for _, b := range streams[0] { // groups are taken in arrival order
				want = append(want, b.ids[0])
				total += len(b.ids)
			}
			if !c03Contract(out) {
				fail("numbering", "output batches are not numbered 0..n-1: %s", c03Show(out))
			}
			var got []int
			for i, b := range out {
				got = append(got, b.ids...)
				if b.order != i {
					fail("delivery-order", "batch delivered at rank %d has number %d", i, b.order)
				}
			}
			if !eqInts(got, want) {
				fail("records", "merged records %v, expected one per group in arrival order %v", got, want)
			}
			if reads != total {
				fail("reads", "merged records count for %d reads, %d records went in", reads, total)
			}
			return c03Show(out)
		case op == "load" && len(streams) == 1:
			_, sl := c03Iter(streams[0]).Load()
			var got, want []int
			for _, r := range sl {
				got = append(got, c03Id(r))
			}
			for _, b := range streams[0] {
				want = append(want, b.ids...)
			}
			if !eqInts(got, want) {
				fail("records", "loaded %v, expected (arrival order) %v", got, want)
			}
			return c03ShowIds(got)
		case op == "count" && len(streams) == 1:
			n, _, _ := c03Iter(streams[0]).Count(false)
			if n != len(c03Flat(streams[0])) {
				fail("records", "counted %d records, %d pushed", n, len(c03Flat(streams[0])))
			}
			return strconv.Itoa(n)
		case op == "complete" && len(streams) == 1:
			out := c03Drain(c03Iter(streams[0]).SortBatches().CompleteFileIterator())
			checkOut(out, c03Flat(streams[0]), true)
			if inContract && (len(out) > 1 || (len(out) == 1 && len(out[0].ids) == 0)) {
				fail("single-batch", "expected one non-empty batch or none: %s", c03Show(out))
			}
			return c03Show(out)
		case (op == "limitmem" || op == "speed") && len(streams) == 1:
			var it obiiter.IBioSequence
			if op == "limitmem" {
				it = c03Iter(streams[0]).LimitMemory(1.0)
			} else {
				it = c03Iter(streams[0]).Speed("verif")
			}
			out := c03Drain(it)
			if c03Show(out) != c03Show(streams[0]) {
				fail("identity", "a pass-through stage changed the stream: %s", c03Show(out))
			}
			return c03Show(out)
		case op == "tee" && len(streams) == 1:
			ai, bi := c03Iter(streams[0]).CopyTee()
			var a, b []c03Batch
			var wg sync.WaitGroup
			wg.Add(2)
			go func() { a = c03Drain(ai); wg.Done() }()
			go func() { b = c03Drain(bi); wg.Done() }()
			wg.Wait()
			if c03Show(a) != c03Show(streams[0]) || c03Show(b) != c03Show(streams[0]) {
				fail("identity", "CopyTee outputs differ from the input: %s / %s", c03Show(a), c03Show(b))
			}
			return "A " + c03Show(a) + " B " + c03Show(b)
		case op == "pairedwith" && len(streams) == 2 && intArg(1) > 0:
			obioptions.SetBatchSize(intArg(1))
			paired := c03Iter(streams[0]).PairTo(c03Iter(streams[1]))
			// forward batches are collected on the way (their mates are read through PairedWith on the batch),
			// then the same batches are pushed through the iterator-level PairedWith()
			var fwd []c03Batch
			relay := obiiter.MakeIBioSequence()
			relay.MarkAsPaired()
			relay.Add(1)
			go func() {
				for paired.Next() {
					b := paired.Get()
					cb := c03Batch{order: b.Order()}
					for _, s := range b.Slice() {
						cb.ids = append(cb.ids, c03Id(s))
					}
					fwd = append(fwd, cb)
					relay.Push(b)
				}
				relay.Done()
			}()
			go relay.WaitAndClose()
			rev := c03Drain(relay.PairedWith())
			if inContract {
				if len(fwd) != len(rev) {
					fail("mates", "%d forward batches, %d reverse batches", len(fwd), len(rev))
				} else {
					for i := range fwd {
						if fwd[i].order != rev[i].order || len(fwd[i].ids) != len(rev[i].ids) || fwd[i].order != i {
							fail("mates", "batch at rank %d: forward #%d with %d records, reverse #%d with %d records",
								i, fwd[i].order, len(fwd[i].ids), rev[i].order, len(rev[i].ids))
							break
						}
					}
				}
				if !eqInts(c03Flat(fwd), c03Flat(streams[0])) || !eqInts(c03Flat(rev), c03Flat(streams[1])) {
					fail("mates", "forward %v / reverse %v do not list the two inputs in order", c03Flat(fwd), c03Flat(rev))
				}
			}
			return c03Show(rev)
		case op == "pipe" && len(streams) == 1 && len(head) == 3:
			nw := c03FlagArg("w=", head[1])
			if nw <= 0 {
				return "bad-op"
			}
			stages := strings.Split(head[2], ",")
			stat(fmt.Sprintf("pipe.stages:%d", len(stages)))
			if len(stages) == 1 && strings.HasPrefix(stages[0], "frag:") {
				return "bad-op"
			}
			it := c03Iter(streams[0])
			flat := c03Flat(streams[0])
			for _, tok := range stages {
				var ok bool
				it, flat, ok = c03PipeStage(tok, nw, it, flat)
				if !ok {
					go it.Consume()
					return "bad-op"
				}
				stat("pipe.stage:" + strings.Split(tok, ":")[0])
			}
			out := c03Drain(it)
			c03SortByOrder(out)
			checkOut(out, flat, false)
			return c03Show(out)
		case op == "distribute" && len(streams) == 1 && intArg(1) > 0:
			cls := &obiseq.BioSequenceClassifier{Code: func(s *obiseq.BioSequence) int { return c03Id(s) % 4 }}
			dist := c03Iter(streams[0]).Distribute(cls, intArg(1))
			var mu sync.Mutex
			outs := map[int][]c03Batch{}
			var wg sync.WaitGroup
			for key := range dist.News() {
				if c03Mode != "" { // mslow: the client is slow to open the new class output
					time.Sleep(300 * time.Microsecond)
				}
				it, err := dist.Outputs(key)
				if err != nil {
					return "err"
				}
				wg.Add(1)
				go func(key int, it obiiter.IBioSequence) {
					o := c03Drain(it)
					mu.Lock()
					outs[key] = o
					mu.Unlock()
					wg.Done()
				}(key, it)
			}
			wg.Wait()
			var sb []string
			total := 0
			for k := 0; k < 4; k++ {
				o, ok := outs[k]
				if !ok {
					continue
				}
				var want []int
				for _, id := range c03Flat(streams[0]) {
					if id%4 == k {
						want = append(want, id)
					}
				}
				checkOut(o, want, true)
				total += len(c03Flat(o))
				sb = append(sb, fmt.Sprintf("K%d %s", k, c03Show(o)))
			}
			if inContract && total != len(c03Flat(streams[0])) {
				fail("records", "%d records routed for %d in input", total, len(c03Flat(streams[0])))
			}
			return strings.Join(sb, " ")
		case op == "pairto" && len(streams) == 2 && intArg(1) > 0:
			obioptions.SetBatchSize(intArg(1))
			out := c03Iter(streams[0]).PairTo(c03Iter(streams[1]))
			var sb []string
			var gotA, gotB []int
			rank := 0
			for out.Next() {
				b := out.Get()
				var ps []string
				for _, s := range b.Slice() {
					p := s.PairedWith()
					ps = append(ps, fmt.Sprintf("%d-%d", c03Id(s), c03Id(p)))
					gotA = append(gotA, c03Id(s))
					gotB = append(gotB, c03Id(p))
				}
				if b.Order() != rank {
					fail("numbering", "batch at rank %d has number %d", rank, b.Order())
				}
				c03Pace(c03Mode, rank)
				rank++
				sb = append(sb, fmt.Sprintf("%d:%s", b.Order(), strings.Join(ps, ",")))
			}
			if inContract && (!eqInts(gotA, c03Flat(streams[0])) || !eqInts(gotB, c03Flat(streams[1]))) {
				fail("mates", "i-th record of one side must be paired with the i-th of the other: %v / %v", gotA, gotB)
			}
			return strings.Join(sb, " ")
		case op == "batchover" && len(streams) == 1 && intArg(1) > 0:
			data := obiseq.MakeBioSequenceSlice()
			for _, id := range c03Flat(streams[0]) {
				data = append(data, c03Seq(id))
			}
			out := c03Drain(obiiter.IBatchOver("src", data, intArg(1)))
			checkOut(out, c03Flat(streams[0]), true)
			return c03Show(out)
		case op == "wstress" && intArg(1) > 0 && intArg(2) > 0:
			n := intArg(2)
			it := obiiter.MakeIBioSequence()
			it.Add(1)
			go func() {
				for k := 0; k < n; k++ {
					it.Push(obiiter.MakeBioSequenceBatch("src", k, obiseq.BioSequenceSlice{c03Seq(k + 1)}))
				}
				it.Done()
			}()
			go it.WaitAndClose()
			out := it.MakeISliceWorker(func(sl obiseq.BioSequenceSlice) (obiseq.BioSequenceSlice, error) { return sl, nil }, false, intArg(1))
			seen := make([]int, n)
			lost, dup, foreign, total := 0, 0, 0, 0
			for out.Next() {
				b := out.Get()
				total++
				if b.Order() < 0 || b.Order() >= n {
					foreign++
					continue
				}
				seen[b.Order()]++
				if b.Len() != 1 || c03Id(b.Slice()[0]) != b.Order()+1 {
					foreign++
				}
			}
			for _, c := range seen {
				if c == 0 {
					lost++
				} else if c > 1 {
					dup++
				}
			}
			if lost+dup+foreign > 0 || total != n {
				fail("batches", "%d batches out for %d in: %d lost, %d delivered more than once, %d not holding their own record", total, n, lost, dup, foreign)
				return fmt.Sprintf("broken lost=%d dup=%d foreign=%d", lost, dup, foreign)
			}
			return "ok"
		case op == "pool":
			var others []obiiter.IBioSequence
			var want []int
			for i, s := range streams {
				want = append(want, c03Flat(s)...)
				if i > 0 {
					others = append(others, c03Iter(s))
				}
			}
			out := c03Drain(c03Iter(streams[0]).Pool(others...))
			if inContract && len(streams) > 1 && !c03Contract(out) {
				fail("numbering", "output batches are not numbered 0..n-1: %s", c03Show(out))
			}
			var orders, recs []int
			for _, b := range out {
				orders = append(orders, b.order)
				recs = append(recs, b.ids...)
			}
			// each pooled stream is read by ONE goroutine, which numbers its batches one after the other: along the
			// arrival order of a stream the new numbers increase (non-empty batches are recognised by their first record)
			numOf := map[int]int{}
			for _, b := range out {
				if len(b.ids) > 0 {
					numOf[b.ids[0]] = b.order
				}
			}
			for si, s := range streams {
				if len(streams) == 1 { // Pool() of one stream is that stream itself: numbers kept
					break
				}
				last := -1
				for _, b := range s {
					if len(b.ids) == 0 {
						continue
					}
					o, ok := numOf[b.ids[0]]
					if ok && o <= last && inContract {
						fail("stream-order", "stream %d: its batch starting with record %d got number %d after number %d", si, b.ids[0], o, last)
						break
					}
					if ok {
						last = o
					}
				}
			}
			sort.Ints(orders)
			sort.Ints(recs)
			sort.Ints(want)
			if !eqInts(recs, want) {
				fail("records", "pooled records %v expected %v", recs, want)
			}
			return "orders=" + c03ShowIds(orders) + " recs=" + c03ShowIds(recs)
		}
		return "bad-op"
	})
	if !inContract && len(streams) == 1 {
		// explicit outcome of an input outside the order contract (missing / repeated batch number)
		kind := "gap"
		seen := map[int]bool{}
		for _, b := range streams[0] {
			if seen[b.order] {
				kind = "duplicate"
			}
			seen[b.order] = true
		}
		switch res {
		case "hang", "panic", "fatal":
			stat("outside-contract." + kind + ":" + res)
		default:
			in, out := len(c03Flat(streams[0])), 0
			for _, w := range strings.Fields(res) {
				if k := strings.Index(w, ":"); k >= 0 && len(w) > k+1 {
					out += strings.Count(w[k+1:], ",") + 1
				}
			}
			if op != "sort" && op != "rebatch" && op != "filterempty" && op != "complete" {
				stat("outside-contract." + kind + ":completed")
			} else if out < in {
				stat("outside-contract." + kind + ":records-silently-dropped")
			} else {
				stat("outside-contract." + kind + ":all-delivered")
			}
		}
	}
	if notExecuted.Load() {
		return res, nil
	}
	if op == "divideabs" && res == "hang" {
		// the loop is blocked on the output nobody consumes (divide_absent_consumer_blocks): whether this is the
		// case for this input is decided by the model (second stream non empty)
		stat("divideabs:hang(second output not consumed)")
		return res, nil
	}
	if expectFatal.Load() {
		// a record failed under breakOnError: the stage must stop the command (log.Fatalf)
		if res == "fatal" {
			return res, nil
		}
		return res, []Fail{{Sig: op + ".no-fatal", Text: "a record failed under breakOnError but the stage ended with: " + res}}
	}
	if res == "hang" || res == "panic" || res == "fatal" {
		fails = []Fail{{Sig: op + ".outcome", Text: "combinator did not complete normally: " + res}}
	}
	return res, fails
}
