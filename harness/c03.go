//go:build c03

package main

import (
	"fmt"
	"math/rand"
	"sort"
	"strconv"
	"strings"
	"sync"
	"time"

	"git.metabarcoding.org/obitools/obitools4/obitools4/pkg/obiiter"
	"git.metabarcoding.org/obitools/obitools4/obitools4/pkg/obioptions"
	"git.metabarcoding.org/obitools/obitools4/obitools4/pkg/obiseq"
)

type c03 struct{}

func init() { props["C03"] = c03{} }

type c03Batch struct {
	order int
	ids   []int
}

func c03ParseStream(s string) ([]c03Batch, bool) {
	var bs []c03Batch
	for _, w := range strings.Fields(s) {
		p := strings.Split(w, ":")
		if len(p) != 2 {
			return nil, false
		}
		o, err := strconv.Atoi(p[0])
		if err != nil {
			return nil, false
		}
		b := c03Batch{order: o}
		if p[1] != "" {
			for _, x := range strings.Split(p[1], ",") {
				id, err := strconv.Atoi(x)
				if err != nil {
					return nil, false
				}
				b.ids = append(b.ids, id)
			}
		}
		bs = append(bs, b)
	}
	return bs, true
}

func c03ShowIds(ids []int) string {
	s := make([]string, len(ids))
	for i, x := range ids {
		s[i] = strconv.Itoa(x)
	}
	return strings.Join(s, ",")
}

func c03Show(bs []c03Batch) string {
	s := make([]string, len(bs))
	for i, b := range bs {
		s[i] = fmt.Sprintf("%d:%s", b.order, c03ShowIds(b.ids))
	}
	return strings.Join(s, " ")
}

func c03Seq(id int) *obiseq.BioSequence {
	return obiseq.NewBioSequence("r"+strconv.Itoa(id), []byte("acgtacgt"), "")
}

func c03Id(s *obiseq.BioSequence) int {
	id, _ := strconv.Atoi(s.Id()[1:])
	return id
}

// c03Iter pushes the batches of a stream in the given (arrival) order.
func c03Iter(bs []c03Batch) obiiter.IBioSequence {
	it := obiiter.MakeIBioSequence()
	it.Add(1)
	go func() {
		for _, b := range bs {
			sl := obiseq.MakeBioSequenceSlice()
			for _, id := range b.ids {
				sl = append(sl, c03Seq(id))
			}
			it.Push(obiiter.MakeBioSequenceBatch("src", b.order, sl))
		}
		it.Done()
	}()
	go it.WaitAndClose()
	return it
}

func c03Drain(it obiiter.IBioSequence) []c03Batch {
	var out []c03Batch
	for it.Next() {
		b := it.Get()
		cb := c03Batch{order: b.Order()}
		for _, s := range b.Slice() {
			cb.ids = append(cb.ids, c03Id(s))
		}
		out = append(out, cb)
	}
	return out
}

func c03Pred(s *obiseq.BioSequence) bool { return c03Id(s)%3 == 0 }

func c03Work(sl obiseq.BioSequenceSlice) (obiseq.BioSequenceSlice, error) {
	out := obiseq.MakeBioSequenceSlice()
	for _, s := range sl {
		id := c03Id(s)
		switch {
		case id%5 == 0:
		case id%7 == 0:
			out = append(out, s, c03Seq(id+1000))
		default:
			out = append(out, s)
		}
	}
	return out, nil
}

// random partition of ids first..first+n-1 into nb batches (sizes >= 0), Contract numbering 0..nb-1
func c03Partition(rng *rand.Rand, first, n, nb int) []c03Batch {
	bs := make([]c03Batch, nb)
	for i := range bs {
		bs[i].order = i
	}
	if nb == 0 {
		return bs
	}
	cuts := make([]int, nb-1)
	for i := range cuts {
		cuts[i] = rng.Intn(n + 1)
	}
	sort.Ints(cuts)
	prev := 0
	for i := 0; i < nb; i++ {
		end := n
		if i < nb-1 {
			end = cuts[i]
		}
		for x := prev; x < end; x++ {
			bs[i].ids = append(bs[i].ids, first+x)
		}
		prev = end
	}
	return bs
}

func c03Shuffle(rng *rand.Rand, bs []c03Batch) []c03Batch {
	out := append([]c03Batch{}, bs...)
	rng.Shuffle(len(out), func(i, j int) { out[i], out[j] = out[j], out[i] })
	return out
}

func (c03) Gen(rng *rand.Rand, tier string, emit func(string)) {
	// corpus
	for _, c := range []string{
		"sort | 1:3,4 0: 2:5", "sort | ", "sort | 2:1 1:2 0:3", "sort | 1:1 2:2",
		"rebatch 2 | 1:3,4 0:9 2:5", "rebatch 3 | 0: 1: 2:", "rebatch 1 | ",
		"filterempty | 2:1 0: 1:2", "concat |  | 0:1 1:2", "concat | 0:1 |  | 0:2", "concat | 1:2 0:1 | 0:3 |  | 1:5 0:4",
		"divide 2 | 0:1,2,3,4,5,6,9", "divide 2 | ", "filteron 2 w=3 | 1:4,5,6 0:1,2,3", "worker w=2 | 1:5,7 0:1,2",
		"distribute 2 | 0:1,2,3,4,5,6,7,8,9", "batchover 2 | 0:1,2,3,4,5", "batchover 3 | ", "batchover 1 | 0:", "pairto 2 | 0:1,2,3 | 1:6 0:4,5", "pool | 0:1 1:2 | 0:3", "pool |  | ",
	} {
		emit(c)
	}
	// stress: thousands of one-record batches in flight between 8..16 workers (a worker that looks at a
	// batch another worker has just taken shows up as a lost / duplicated batch)
	{
		var sb strings.Builder
		for k := 0; k < 3000; k++ {
			if k > 0 {
				sb.WriteByte(' ')
			}
			fmt.Fprintf(&sb, "%d:%d", k, k+1)
		}
		for rep := 0; rep < 3; rep++ {
			emit(fmt.Sprintf("worker w=%d | %s", 8+4*rep, sb.String()))
		}
		emit(fmt.Sprintf("filteron 7 w=16 | %s", sb.String()))
		// the same with 60000 implicit one-record batches (batch k holds record k+1): too long for a case line
		emit("wstress 16 60000 | ")
		emit("wstress 8 60000 | ")
	}
	if tier == "thorough" {
		// every arrival permutation of n <= 5 batches x two emptiness patterns for the sorting combinators
		for n := 1; n <= 5; n++ {
			perm := make([]int, n)
			for i := range perm {
				perm[i] = i
			}
			var rec func(i int)
			rec = func(i int) {
				if i == n {
					for pat := 0; pat < 2; pat++ {
						var parts []string
						for _, k := range perm {
							if pat == 1 && k%2 == 1 {
								parts = append(parts, fmt.Sprintf("%d:", k))
							} else {
								parts = append(parts, fmt.Sprintf("%d:%d,%d", k, 2*k+1, 2*k+2))
							}
						}
						st := strings.Join(parts, " ")
						emit("sort | " + st)
						emit("rebatch 3 | " + st)
						emit("filterempty | " + st)
						emit("divide 2 | " + st)
					}
					return
				}
				for j := i; j < n; j++ {
					perm[i], perm[j] = perm[j], perm[i]
					rec(i + 1)
					perm[i], perm[j] = perm[j], perm[i]
				}
			}
			rec(0)
		}
	}
	n := 600
	if tier == "thorough" {
		n = 4000
	}
	for i := 0; i < n; i++ {
		nrec := rng.Intn(40)
		nb := rng.Intn(7)
		if nb == 0 {
			nrec = 0
		}
		st := c03Shuffle(rng, c03Partition(rng, 1, nrec, nb))
		size := 1 + rng.Intn(5)
		switch rng.Intn(12) {
		case 11:
			emit(fmt.Sprintf("batchover %d | %s", size, c03Show(c03Partition(rng, 1, nrec, 1))))
		case 0:
			if rng.Intn(5) == 0 && len(st) > 1 { // a gap: outside the contract, SortBatches drops the tail
				st = st[1:]
			}
			emit("sort | " + c03Show(st))
		case 1:
			emit(fmt.Sprintf("rebatch %d | %s", size, c03Show(st)))
		case 2:
			emit("filterempty | " + c03Show(st))
		case 3:
			ns := 1 + rng.Intn(3)
			parts := []string{c03Show(st)}
			first := nrec + 1
			for k := 0; k < ns; k++ {
				m, b := rng.Intn(10), rng.Intn(4)
				if b == 0 {
					m = 0
				}
				parts = append(parts, c03Show(c03Shuffle(rng, c03Partition(rng, first, m, b))))
				first += m
			}
			emit("concat | " + strings.Join(parts, " | "))
		case 4:
			emit(fmt.Sprintf("divide %d | %s", size, c03Show(st)))
		case 5:
			emit(fmt.Sprintf("filteron %d w=%d | %s", size, 1+rng.Intn(4), c03Show(st)))
		case 6:
			emit(fmt.Sprintf("worker w=%d | %s", 1+rng.Intn(4), c03Show(st)))
		case 7:
			emit(fmt.Sprintf("distribute %d | %s", size, c03Show(st)))
		case 8:
			nb2 := rng.Intn(7)
			if nrec > 0 && nb2 == 0 {
				nb2 = 1
			}
			if nb == 0 {
				nb2 = 0
			}
			st2 := c03Shuffle(rng, c03Partition(rng, 101, nrec, nb2))
			emit(fmt.Sprintf("pairto %d | %s | %s", size, c03Show(st), c03Show(st2)))
		case 9:
			m, b := rng.Intn(10), rng.Intn(4)
			if b == 0 {
				m = 0
			}
			emit("pool | " + c03Show(st) + " | " + c03Show(c03Shuffle(rng, c03Partition(rng, nrec+1, m, b))))
		case 10:
			emit(fmt.Sprintf("rebatch %d | %s", size, c03Show(st)))
		}
	}
}

func c03Contract(bs []c03Batch) bool {
	seen := map[int]bool{}
	for _, b := range bs {
		if b.order < 0 || b.order >= len(bs) || seen[b.order] {
			return false
		}
		seen[b.order] = true
	}
	return true
}

func c03Flat(bs []c03Batch) []int {
	s := append([]c03Batch{}, bs...)
	sort.SliceStable(s, func(i, j int) bool { return s[i].order < s[j].order })
	var r []int
	for _, b := range s {
		r = append(r, b.ids...)
	}
	return r
}

func eqInts(a, b []int) bool {
	if len(a) != len(b) {
		return false
	}
	for i := range a {
		if a[i] != b[i] {
			return false
		}
	}
	return true
}

func (c03) Exec(c string) (string, []Fail) {
	parts := strings.Split(c, " | ")
	if len(parts) < 2 {
		return "bad-op", nil
	}
	head := strings.Fields(parts[0])
	if len(head) == 0 {
		return "bad-op", nil
	}
	var streams [][]c03Batch
	for _, p := range parts[1:] {
		bs, ok := c03ParseStream(p)
		if !ok {
			return "bad-op", nil
		}
		streams = append(streams, bs)
	}
	op := head[0]
	stat("op:" + op)
	intArg := func(i int) int {
		if len(head) <= i {
			return -1
		}
		s := strings.TrimPrefix(head[i], "w=")
		n, err := strconv.Atoi(s)
		if err != nil {
			return -1
		}
		return n
	}
	var fails []Fail
	fail := func(sig, format string, a ...any) {
		fails = append(fails, Fail{Sig: op + "." + sig, Text: fmt.Sprintf(format, a...)})
	}
	inContract := true
	for _, s := range streams {
		if !c03Contract(s) {
			inContract = false
		}
	}
	if !inContract {
		stat("outside-contract")
	}
	// checks shared by the order-preserving single-output combinators
	checkOut := func(out []c03Batch, want []int, deliveredInOrder bool) {
		if !inContract {
			return
		}
		if !c03Contract(out) {
			fail("numbering", "output batches are not numbered 0..n-1 without gap or duplicate: %s", c03Show(out))
		}
		if deliveredInOrder {
			for i, b := range out {
				if b.order != i {
					fail("delivery-order", "batch delivered at rank %d has number %d", i, b.order)
					break
				}
			}
		}
		if got := c03Flat(out); !eqInts(got, want) {
			fail("records", "records delivered %v, expected %v", got, want)
		}
	}
	res := guardT(5*time.Second, func() string {
		switch {
		case op == "sort" && len(streams) == 1:
			out := c03Drain(c03Iter(streams[0]).SortBatches())
			checkOut(out, c03Flat(streams[0]), true)
			return c03Show(out)
		case op == "rebatch" && len(streams) == 1 && intArg(1) > 0:
			out := c03Drain(c03Iter(streams[0]).Rebatch(intArg(1)))
			checkOut(out, c03Flat(streams[0]), true)
			if inContract {
				for i, b := range out {
					if (i < len(out)-1 && len(b.ids) != intArg(1)) || len(b.ids) == 0 || len(b.ids) > intArg(1) {
						fail("sizes", "batch %d has %d records for size %d", i, len(b.ids), intArg(1))
						break
					}
				}
			}
			return c03Show(out)
		case op == "filterempty" && len(streams) == 1:
			out := c03Drain(c03Iter(streams[0]).FilterEmpty())
			checkOut(out, c03Flat(streams[0]), true)
			for _, b := range out {
				if len(b.ids) == 0 && inContract {
					fail("empty", "an empty batch was delivered")
				}
			}
			return c03Show(out)
		case op == "concat" && len(streams) >= 1:
			var others []obiiter.IBioSequence
			var want []int
			for i, s := range streams {
				want = append(want, c03Flat(s)...)
				if i > 0 {
					others = append(others, c03Iter(s))
				}
			}
			out := c03Drain(c03Iter(streams[0]).Concat(others...))
			checkOut(out, want, false)
			if inContract { // a downstream SortBatches must deliver everything
				sorted := c03Drain(c03Iter(out).SortBatches())
				if !eqInts(c03Flat(sorted), want) {
					fail("downstream-sort", "SortBatches after Concat delivers %v, expected %v", c03Flat(sorted), want)
				}
			}
			return c03Show(out)
		case op == "divide" && len(streams) == 1 && intArg(1) > 0:
			ti, fi := c03Iter(streams[0]).DivideOn(c03Pred, intArg(1))
			var t, f []c03Batch
			var wg sync.WaitGroup
			wg.Add(2)
			go func() { t = c03Drain(ti); wg.Done() }()
			go func() { f = c03Drain(fi); wg.Done() }()
			wg.Wait()
			var wt, wf []int
			for _, id := range c03Flat(streams[0]) {
				if id%3 == 0 {
					wt = append(wt, id)
				} else {
					wf = append(wf, id)
				}
			}
			checkOut(t, wt, true)
			checkOut(f, wf, true)
			return "T " + c03Show(t) + " F " + c03Show(f)
		case op == "filteron" && len(streams) == 1 && intArg(1) > 0 && intArg(2) > 0:
			out := c03Drain(c03Iter(streams[0]).FilterOn(c03Pred, intArg(1), intArg(2)))
			var want []int
			for _, id := range c03Flat(streams[0]) {
				if id%3 == 0 {
					want = append(want, id)
				}
			}
			checkOut(out, want, true)
			return c03Show(out)
		case op == "worker" && len(streams) == 1 && intArg(1) > 0:
			out := c03Drain(c03Iter(streams[0]).MakeISliceWorker(c03Work, false, intArg(1)))
			var want []int
			for _, id := range c03Flat(streams[0]) {
				switch {
				case id%5 == 0:
				case id%7 == 0:
					want = append(want, id, id+1000)
				default:
					want = append(want, id)
				}
			}
			checkOut(out, want, false)
			sort.SliceStable(out, func(i, j int) bool { return out[i].order < out[j].order })
			return c03Show(out)
		case op == "distribute" && len(streams) == 1 && intArg(1) > 0:
			cls := &obiseq.BioSequenceClassifier{Code: func(s *obiseq.BioSequence) int { return c03Id(s) % 4 }}
			dist := c03Iter(streams[0]).Distribute(cls, intArg(1))
			var mu sync.Mutex
			outs := map[int][]c03Batch{}
			var wg sync.WaitGroup
			for key := range dist.News() {
				it, err := dist.Outputs(key)
				if err != nil {
					return "err"
				}
				wg.Add(1)
				go func(key int, it obiiter.IBioSequence) {
					o := c03Drain(it)
					mu.Lock()
					outs[key] = o
					mu.Unlock()
					wg.Done()
				}(key, it)
			}
			wg.Wait()
			var sb []string
			total := 0
			for k := 0; k < 4; k++ {
				o, ok := outs[k]
				if !ok {
					continue
				}
				var want []int
				for _, id := range c03Flat(streams[0]) {
					if id%4 == k {
						want = append(want, id)
					}
				}
				checkOut(o, want, true)
				total += len(c03Flat(o))
				sb = append(sb, fmt.Sprintf("K%d %s", k, c03Show(o)))
			}
			if inContract && total != len(c03Flat(streams[0])) {
				fail("records", "%d records routed for %d in input", total, len(c03Flat(streams[0])))
			}
			return strings.Join(sb, " ")
		case op == "pairto" && len(streams) == 2 && intArg(1) > 0:
			obioptions.SetBatchSize(intArg(1))
			out := c03Iter(streams[0]).PairTo(c03Iter(streams[1]))
			var sb []string
			var gotA, gotB []int
			rank := 0
			for out.Next() {
				b := out.Get()
				var ps []string
				for _, s := range b.Slice() {
					p := s.PairedWith()
					ps = append(ps, fmt.Sprintf("%d-%d", c03Id(s), c03Id(p)))
					gotA = append(gotA, c03Id(s))
					gotB = append(gotB, c03Id(p))
				}
				if b.Order() != rank {
					fail("numbering", "batch at rank %d has number %d", rank, b.Order())
				}
				rank++
				sb = append(sb, fmt.Sprintf("%d:%s", b.Order(), strings.Join(ps, ",")))
			}
			if inContract && (!eqInts(gotA, c03Flat(streams[0])) || !eqInts(gotB, c03Flat(streams[1]))) {
				fail("mates", "i-th record of one side must be paired with the i-th of the other: %v / %v", gotA, gotB)
			}
			return strings.Join(sb, " ")
		case op == "batchover" && len(streams) == 1 && intArg(1) > 0:
			data := obiseq.MakeBioSequenceSlice()
			for _, id := range c03Flat(streams[0]) {
				data = append(data, c03Seq(id))
			}
			out := c03Drain(obiiter.IBatchOver("src", data, intArg(1)))
			checkOut(out, c03Flat(streams[0]), true)
			return c03Show(out)
		case op == "wstress" && intArg(1) > 0 && intArg(2) > 0:
			n := intArg(2)
			it := obiiter.MakeIBioSequence()
			it.Add(1)
			go func() {
				for k := 0; k < n; k++ {
					it.Push(obiiter.MakeBioSequenceBatch("src", k, obiseq.BioSequenceSlice{c03Seq(k + 1)}))
				}
				it.Done()
			}()
			go it.WaitAndClose()
			out := it.MakeISliceWorker(func(sl obiseq.BioSequenceSlice) (obiseq.BioSequenceSlice, error) { return sl, nil }, false, intArg(1))
			seen := make([]int, n)
			lost, dup, foreign, total := 0, 0, 0, 0
			for out.Next() {
				b := out.Get()
				total++
				if b.Order() < 0 || b.Order() >= n {
					foreign++
					continue
				}
				seen[b.Order()]++
				if b.Len() != 1 || c03Id(b.Slice()[0]) != b.Order()+1 {
					foreign++
				}
			}
			for _, c := range seen {
				if c == 0 {
					lost++
				} else if c > 1 {
					dup++
				}
			}
			if lost+dup+foreign > 0 || total != n {
				fail("batches", "%d batches out for %d in: %d lost, %d delivered more than once, %d not holding their own record", total, n, lost, dup, foreign)
				return fmt.Sprintf("broken lost=%d dup=%d foreign=%d", lost, dup, foreign)
			}
			return "ok"
		case op == "pool":
			var others []obiiter.IBioSequence
			var want []int
			for i, s := range streams {
				want = append(want, c03Flat(s)...)
				if i > 0 {
					others = append(others, c03Iter(s))
				}
			}
			out := c03Drain(c03Iter(streams[0]).Pool(others...))
			if inContract && len(streams) > 1 && !c03Contract(out) {
				fail("numbering", "output batches are not numbered 0..n-1: %s", c03Show(out))
			}
			var orders, recs []int
			for _, b := range out {
				orders = append(orders, b.order)
				recs = append(recs, b.ids...)
			}
			sort.Ints(orders)
			sort.Ints(recs)
			sort.Ints(want)
			if !eqInts(recs, want) {
				fail("records", "pooled records %v expected %v", recs, want)
			}
			return "orders=" + c03ShowIds(orders) + " recs=" + c03ShowIds(recs)
		}
		return "bad-op"
	})
	if res == "hang" || res == "panic" || res == "fatal" {
		fails = []Fail{{Sig: op + ".outcome", Text: "combinator did not complete normally: " + res}}
	}
	return res, fails
}
