//go:build c03

package main

// Third deepening round of C03:
//   - `mslow c=MODE <any other case>`: the same case with every consumer of the harness slow / bursty / late
//     (Distribute: the client that receives the news channel is slow too, so that class outputs are opened late;
//     Pool, Concat, PairTo, PairedWith, CopyTee, DivideOn: every drain is paced);
//   - `keepiter COMB N p=P | stream`: the caller keeps using ITS iterator value after calling the combinator
//     (regression of /repo 01cfd50: the goroutine of Rebatch / FilterEmpty / DivideOn / Distribute assigned the
//     captured receiver): the value is unchanged, its paired flag is unchanged, the result carries the flag, the
//     records are all delivered, and the caller's iterator ends (Next() = false) once the result is drained;
//   - `srccheck | `: structural tie on the sources of pkg/obiiter — no goroutine closure assigns the receiver, a
//     parameter or a named result of the method that starts it (the unsynchronised write of 01cfd50; the Lean
//     transition systems give each goroutine its own variables);
//   - `race <case>` (thorough tier, first seed): the case replayed through a `go build -race` build of this
//     harness; a report of the race detector whose racing access lies in pkg/obiiter (the debug counter of the
//     pipe registry excepted) is an oracle failure;
//   - `uniqdisk | stream`: the obiuniq chain with the chunks sorted on disk (the other way to IMergeSequenceBatch).

import (
	"bytes"
	"fmt"
	"go/ast"
	"go/parser"
	"go/token"
	"math/rand"
	"os"
	"os/exec"
	"path/filepath"
	"sort"
	"strconv"
	"strings"
	"sync"
	"time"

	"git.metabarcoding.org/obitools/obitools4/obitools4/pkg/obiiter"
	"git.metabarcoding.org/obitools/obitools4/obitools4/pkg/obiseq"
)

// c03Mode paces every drain of the harness while a `mslow` case runs ("" = as fast as possible).
var c03Mode string

func c03RepoDir() string {
	if r := os.Getenv("VERIF_REPO"); r != "" {
		return r
	}
	return "/repo"
}

// ---- srccheck ----

// c03CapturedWrites lists the assignments (`=`, `op=`, `++`, `--`) done inside a `go func() {…}()` closure to
// the receiver, a parameter or a named result of the enclosing function, in the non-test sources of dir.
func c03CapturedWrites(dir string) (found []string, nfiles, ngo int, err error) {
	fset := token.NewFileSet()
	files, err := filepath.Glob(filepath.Join(dir, "*.go"))
	if err != nil {
		return nil, 0, 0, err
	}
	sort.Strings(files)
	for _, path := range files {
		base := filepath.Base(path)
		if strings.HasSuffix(base, "_test.go") || strings.HasPrefix(base, "verif_hooks") {
			continue
		}
		f, perr := parser.ParseFile(fset, path, nil, 0)
		if perr != nil {
			return nil, 0, 0, perr
		}
		nfiles++
		for _, d := range f.Decls {
			fn, ok := d.(*ast.FuncDecl)
			if !ok || fn.Body == nil {
				continue
			}
			own := map[*ast.Object]bool{}
			addFields := func(fl *ast.FieldList) {
				if fl == nil {
					return
				}
				for _, fd := range fl.List {
					for _, n := range fd.Names {
						if n.Obj != nil {
							own[n.Obj] = true
						}
					}
				}
			}
			addFields(fn.Recv)
			addFields(fn.Type.Params)
			addFields(fn.Type.Results)
			ast.Inspect(fn.Body, func(n ast.Node) bool {
				g, ok := n.(*ast.GoStmt)
				if !ok {
					return true
				}
				lit, ok := g.Call.Fun.(*ast.FuncLit)
				if !ok {
					return true
				}
				ngo++
				report := func(e ast.Expr) {
					if id, ok := e.(*ast.Ident); ok && id.Obj != nil && own[id.Obj] {
						p := fset.Position(id.Pos())
						found = append(found, fmt.Sprintf("%s:%d %s.%s", base, p.Line, fn.Name.Name, id.Name))
					}
				}
				ast.Inspect(lit.Body, func(m ast.Node) bool {
					switch s := m.(type) {
					case *ast.AssignStmt:
						if s.Tok != token.DEFINE {
							for _, l := range s.Lhs {
								report(l)
							}
						}
					case *ast.IncDecStmt:
						report(s.X)
					}
					return true
				})
				return true
			})
		}
	}
	return found, nfiles, ngo, nil
}

// ---- race replay ----

var (
	c03RaceBin   string
	c03RaceTried bool
)

func c03FirstSeed() bool {
	for i, a := range os.Args {
		if a == "-seed" && i+1 < len(os.Args) {
			s, err := strconv.Atoi(os.Args[i+1])
			return err == nil && s%1000 == 0
		}
	}
	return false
}

func c03RaceBuild() string {
	if c03RaceTried {
		return c03RaceBin
	}
	c03RaceTried = true
	root := os.Getenv("VERIF_ROOT")
	if root == "" {
		root = "/verif"
	}
	bin := filepath.Join(binDir(), "harness_C03_race")
	args := []string{"build", "-race", "-tags", "verif,c03", "-o", bin}
	if repo := c03RepoDir(); repo != "/repo" {
		// a scratch tree is under check: the driver wrote go.alt.mod (module replaced by that tree)
		alt := filepath.Join(root, "harness", "go.alt.mod")
		if b, err := os.ReadFile(alt); err == nil && strings.Contains(string(b), "=> "+repo) {
			args = append(args, "-modfile", alt)
		} else {
			stat("race-build:no-alt-mod")
			return ""
		}
	}
	build := exec.Command("go", append(args, ".")...)
	build.Dir = filepath.Join(root, "harness")
	build.Env = append(os.Environ(), "GOWORK=off", "GOFLAGS=-mod=mod", "GOPROXY=off", "GOSUMDB=off", "GOTOOLCHAIN=local", "CGO_CFLAGS=-w -O2 -g")
	if _, err := build.CombinedOutput(); err != nil {
		stat("race-build:failed")
		return ""
	}
	stat("race-build:ok")
	c03RaceBin = bin
	return bin
}

func c03Race(inner string) (string, []Fail) {
	if os.Getenv("VERIF_C03_RACE") != "" { // we ARE the race-built binary
		return c03{}.Exec(inner)
	}
	bin := c03RaceBuild()
	if bin == "" {
		stat("race:unavailable")
		return c03{}.Exec(inner)
	}
	cmd := exec.Command(bin, "C03", "exec")
	cmd.Stdin = strings.NewReader(inner + "\n")
	cmd.Env = append(os.Environ(), "VERIF_C03_RACE=1", "GORACE=halt_on_error=0")
	var stdout, stderr bytes.Buffer
	cmd.Stderr = &stderr
	cmd.Stdout = &stdout
	_ = cmd.Run()
	res := "race-replay-failed"
	var fails []Fail
	for _, l := range strings.Split(stdout.String(), "\n") {
		f := strings.Split(l, "\t")
		if f[0] == "C" && len(f) >= 3 {
			res = f[2]
		}
		if f[0] == "F" && len(f) >= 4 {
			fails = append(fails, Fail{f[1], f[3]})
		}
	}
	stat("race-replay:done")
	// a report concerns this property when one of the two racing ACCESSES (innermost frame) lies in pkg/obiiter,
	// the debug counter of the pipe registry (RegisterAPipe / UnregisterPipe: never read by the pipeline) excepted
	ours, other := 0, 0
	var where []string
	for _, block := range strings.Split(stderr.String(), "==================") {
		if !strings.Contains(block, "WARNING: DATA RACE") {
			continue
		}
		inAccess, mine := false, false
		fn := ""
		for _, l := range strings.Split(block, "\n") {
			t := strings.TrimSpace(l)
			switch {
			case strings.HasPrefix(t, "Read at"), strings.HasPrefix(t, "Write at"), strings.HasPrefix(t, "Previous read at"),
				strings.HasPrefix(t, "Previous write at"), strings.HasPrefix(t, "Atomic"), strings.HasPrefix(t, "Previous atomic"):
				inAccess = true
			case strings.HasPrefix(t, "Goroutine "):
				inAccess = false
			case inAccess && strings.Contains(t, ".go:"):
				inAccess = false
				if strings.Contains(t, "/pkg/obiiter/") && !strings.Contains(t, "verif_hooks") &&
					!strings.Contains(fn, "RegisterAPipe") && !strings.Contains(fn, "UnregisterPipe") {
					mine = true
					loc := t[strings.LastIndex(t, "/pkg/")+1:]
					if k := strings.IndexByte(loc, ' '); k > 0 {
						loc = loc[:k]
					}
					dup := false
					for _, w := range where {
						dup = dup || w == loc
					}
					if !dup && len(where) < 4 {
						where = append(where, loc)
					}
				}
			case inAccess:
				fn = t
			}
		}
		if mine {
			ours++
		} else {
			other++
		}
	}
	if other > 0 {
		stat("race-replay:race-elsewhere")
	}
	if ours > 0 {
		fails = append(fails, Fail{"race.detector", fmt.Sprintf("the Go race detector reports %d data race(s) in pkg/obiiter (at %s)", ours, strings.Join(where, ", "))})
		stat("race-replay:DATA-RACE")
	}
	return res, fails
}

// ---- keepiter ----

func c03KeepIter(head []string, stream []c03Batch, inContract bool, fail func(sig, format string, a ...any)) string {
	if len(head) != 4 {
		return "bad-op"
	}
	comb := head[1]
	n, err := strconv.Atoi(head[2])
	p := c03FlagArg("p=", head[3])
	if err != nil || n <= 0 || p < 0 || p > 1 {
		return "bad-op"
	}
	stat("keepiter:" + comb)
	src := c03Iter(stream)
	if p == 1 {
		src.MarkAsPaired()
	}
	before := src
	flat := c03Flat(stream)
	b2i := func(b bool) int {
		if b {
			return 1
		}
		return 0
	}
	check := func(name string, out []c03Batch, want []int) {
		if !inContract {
			return
		}
		if !c03Contract(out) {
			fail("numbering", "%s: output batches are not numbered 0..n-1: %s", name, c03Show(out))
		}
		if got := c03Flat(out); !eqInts(got, want) {
			fail("records", "%s: records delivered %v, expected %v", name, got, want)
		}
	}
	flag := func(name string, it obiiter.IBioSequence) {
		if it.IsPaired() != (p == 1) {
			fail("paired-flag", "%s: the result says paired=%v for a source with paired=%v", name, it.IsPaired(), p == 1)
		}
	}
	res := ""
	switch comb {
	case "rebatch":
		out := src.Rebatch(n)
		flag("Rebatch", out)
		o := c03Drain(out)
		check("Rebatch", o, flat)
		res = c03Show(o)
	case "filterempty":
		out := src.FilterEmpty()
		flag("FilterEmpty", out)
		o := c03Drain(out)
		check("FilterEmpty", o, flat)
		res = c03Show(o)
	case "sort":
		out := src.SortBatches()
		flag("SortBatches", out)
		o := c03Drain(out)
		check("SortBatches", o, flat)
		res = c03Show(o)
	case "divide":
		ti, fi := src.DivideOn(c03Pred, n)
		flag("DivideOn.true", ti)
		flag("DivideOn.false", fi)
		var t, f []c03Batch
		var wg sync.WaitGroup
		wg.Add(2)
		go func() { t = c03Drain(ti); wg.Done() }()
		go func() { f = c03Drain(fi); wg.Done() }()
		wg.Wait()
		var wt, wf []int
		for _, id := range flat {
			if id%3 == 0 {
				wt = append(wt, id)
			} else {
				wf = append(wf, id)
			}
		}
		check("DivideOn.true", t, wt)
		check("DivideOn.false", f, wf)
		res = "T " + c03Show(t) + " F " + c03Show(f)
	case "distribute":
		cls := &obiseq.BioSequenceClassifier{Code: func(s *obiseq.BioSequence) int { return c03Id(s) % 4 }}
		dist := src.Distribute(cls, n)
		var mu sync.Mutex
		outs := map[int][]c03Batch{}
		var wg sync.WaitGroup
		for key := range dist.News() {
			it, err := dist.Outputs(key)
			if err != nil {
				return "err"
			}
			wg.Add(1)
			go func(key int, it obiiter.IBioSequence) {
				o := c03Drain(it)
				mu.Lock()
				outs[key] = o
				mu.Unlock()
				wg.Done()
			}(key, it)
		}
		wg.Wait()
		var sb []string
		for k := 0; k < 4; k++ {
			o, ok := outs[k]
			if !ok {
				continue
			}
			var want []int
			for _, id := range flat {
				if id%4 == k {
					want = append(want, id)
				}
			}
			check(fmt.Sprintf("Distribute[%d]", k), o, want)
			sb = append(sb, fmt.Sprintf("K%d %s", k, c03Show(o)))
		}
		res = strings.Join(sb, " ")
	default:
		return "bad-op"
	}
	// the caller's own iterator value
	if src != before {
		fail("caller-iterator", "the caller's iterator value was replaced by the combinator")
	}
	if src.IsPaired() != (p == 1) {
		fail("caller-iterator", "the caller's iterator says paired=%v after the call, it was %v", src.IsPaired(), p == 1)
	}
	if inContract {
		// everything was consumed by the combinator: the caller's iterator is at its end and says so
		if src.Next() {
			fail("caller-iterator", "the caller's iterator still yields a batch after the result was drained")
		}
		if !src.Finished() {
			fail("caller-iterator", "the caller's iterator is not finished after the result was drained")
		}
	}
	return fmt.Sprintf("paired=%d kept=%d %s", p, b2i(src == before), res)
}

// c03ExecR3 executes the ops of the third round; ok=false when the op is not one of them.
func c03ExecR3(c string, head []string, parts []string, streams [][]c03Batch, inContract bool, fail func(sig, format string, a ...any)) (string, []Fail, bool) {
	switch head[0] {
	case "race":
		if len(head) < 2 || head[1] == "race" {
			return "bad-op", nil, true
		}
		r, f := c03Race(strings.TrimPrefix(c, "race "))
		return r, f, true
	case "mslow":
		mode := ""
		if len(head) >= 3 {
			mode = strings.TrimPrefix(head[1], "c=")
		}
		if mode != "slow" && mode != "burst" && mode != "late" || head[2] == "mslow" || head[2] == "race" {
			return "bad-op", nil, true
		}
		stat("mslow.consumer:" + mode)
		stat("mslow.op:" + head[2])
		c03Mode = mode
		r, f := c03{}.Exec(strings.Join(head[2:], " ") + " | " + strings.Join(parts[1:], " | "))
		c03Mode = ""
		return r, f, true
	case "srccheck":
		if len(head) != 1 {
			return "bad-op", nil, true
		}
		found, nfiles, ngo, err := c03CapturedWrites(filepath.Join(c03RepoDir(), "pkg", "obiiter"))
		if err != nil || nfiles == 0 {
			stat("srccheck:unreadable")
			fail("unreadable", "cannot read the sources of pkg/obiiter under %s: %v", c03RepoDir(), err)
			return "unreadable", nil, true
		}
		stat(fmt.Sprintf("srccheck.files:%d", nfiles))
		stat(fmt.Sprintf("srccheck.go-closures:%d", ngo))
		if ngo < 20 {
			fail("vacuous", "only %d goroutine closures found in pkg/obiiter: the check no longer sees the code", ngo)
		}
		if len(found) > 0 {
			fail("captured-write", "a goroutine assigns a variable of the method that started it (receiver / parameter / result), unsynchronised with the caller: %s", strings.Join(found, "; "))
			return "captured-write", nil, true
		}
		return "ok", nil, true
	case "keepiter":
		if len(streams) != 1 {
			return "bad-op", nil, true
		}
		return guardT(5*time.Second, func() string { return c03KeepIter(head, streams[0], inContract, fail) }), nil, true
	case "uniqdisk":
		if len(streams) != 1 || len(head) != 1 {
			return "bad-op", nil, true
		}
		return guardT(20*time.Second, func() string { return c03Uniq(streams[0], fail, true) }), nil, true
	}
	return "", nil, false
}

// c03GenR3First: emitted before everything else (no random draw): the structural check of the sources and, in
// the thorough tier (first of the parallel seeds only), the replays under the race detector.
func c03GenR3First(tier string, emit func(string)) {
	thorough := tier == "thorough"
	emit("srccheck | ")
	if thorough && c03FirstSeed() {
		// under the race detector: the four combinators of 01cfd50 (paired source: the method reads the flag
		// while its goroutine starts), the other goroutine structures, a chain
		for _, c := range []string{
			"race keepiter rebatch 2 p=1 | 1:3,4 0:1,2 2:5", "race keepiter filterempty 1 p=1 | 0: 2:3 1:", "race keepiter divide 2 p=1 | 1:3,4,6 0:1,2",
			"race keepiter distribute 2 p=1 | 1:3,4,6,8 0:1,2", "race keepiter sort 1 p=1 | 2:5 1:3 0:1",
			"race pool | 0:1 1:2 2:3 | 1:5 0:4 | ", "race concat | 0:1 | 1:1 0:2 |  | 0:3", "race pairto 2 | 1:3 0:1,2 | 0:11 1:12,13", "race tee | 1:2 0:1 2:3",
			"race filteron 2 w=4 | 2:9,12 0:3,6 1:1,2", "race iworker w=4 boe=0 2,c,0 | 1:3,4 0:1,2 2:5",
			"race pipec w=4 c=fast sort,worker,divt:2,tee,iworker:2:c,rebatch:3 | 1:3,4,7 0:9,6 2:5,12",
			"race uniq | 2:5 0: 1:1,2,3,4 3:",
		} {
			emit(c)
		}
	}
}

func c03GenR3(rng *rand.Rand, tier string, emit func(string)) {
	thorough := tier == "thorough"
	for _, c := range []string{
		"keepiter rebatch 2 p=1 | 1:3,4 0:1,2 2:5", "keepiter rebatch 3 p=0 | ", "keepiter filterempty 1 p=1 | 0: 2:3 1:", "keepiter filterempty 1 p=0 | 0:1",
		"keepiter divide 2 p=1 | 1:3,4,6 0:1,2", "keepiter divide 1 p=0 | 0:3", "keepiter distribute 2 p=1 | 1:3,4,6,8 0:1,2", "keepiter distribute 1 p=0 | ",
		"keepiter sort 1 p=1 | 2:5 1:3 0:1",
		"mslow c=slow distribute 2 | 1:3,4,6,8 0:1,2,5,7", "mslow c=late distribute 1 | 0:1,2,3,4,5,6,7,8", "mslow c=burst distribute 3 | ",
		"mslow c=slow pool | 0:1 1:2 2:3 | 1:5 0:4 | ", "mslow c=burst pool |  | 0:1", "mslow c=late concat |  | 1:1 0:2 |  | 0:3",
		"mslow c=slow pairto 2 | 1:3 0:1,2 | 0:11 1:12,13", "mslow c=late pairedwith 2 | 0:1,2,3 | 1:13 0:11,12", "mslow c=burst tee | 1:2 0:1 2:3",
		"mslow c=late divide 1 | 0:1,2,3,4,5,6", "mslow c=slow frag 5 20 5 3 w=2 | 0:1,2,3", "mslow c=slow merge 2 | 0:1 1:2,3 2:4",
		"uniqdisk | 1:3,4 0:1,2", "uniqdisk | ", "uniqdisk | 0: 1: 2:", "uniqdisk | 2:5 0: 1:1,2,3,4 3:",
	} {
		emit(c)
	}
	rstream := func(first, maxrec int) []c03Batch {
		nrec := rng.Intn(maxrec + 1)
		nb := rng.Intn(7)
		if nb == 0 {
			nrec = 0
		}
		return c03Shuffle(rng, c03Partition(rng, first, nrec, nb))
	}
	modes := []string{"slow", "burst", "late"}
	nkeep := 30
	if thorough {
		nkeep = 150
	}
	for i := 0; i < nkeep; i++ {
		comb := []string{"rebatch", "filterempty", "divide", "distribute", "sort"}[rng.Intn(5)]
		emit(fmt.Sprintf("keepiter %s %d p=%d | %s", comb, 1+rng.Intn(5), rng.Intn(2), c03Show(rstream(1, 30))))
	}
	nslow := 60
	if thorough {
		nslow = 300
	}
	for i := 0; i < nslow; i++ {
		mode := modes[rng.Intn(3)]
		size := 1 + rng.Intn(5)
		st := rstream(1, 30)
		switch rng.Intn(7) {
		case 0, 1:
			emit(fmt.Sprintf("mslow c=%s distribute %d | %s", mode, size, c03Show(st)))
		case 2:
			line := fmt.Sprintf("mslow c=%s pool | %s", mode, c03Show(st))
			first := 101
			for k := rng.Intn(4); k > 0; k-- {
				line += " | " + c03Show(rstream(first, 12))
				first += 100
			}
			emit(line)
		case 3:
			line := fmt.Sprintf("mslow c=%s concat | %s", mode, c03Show(st))
			first := 101
			for k := rng.Intn(4); k > 0; k-- {
				line += " | " + c03Show(rstream(first, 12))
				first += 100
			}
			emit(line)
		case 4:
			nrec := len(c03Flat(st))
			nb2 := 1 + rng.Intn(5)
			if nrec == 0 {
				nb2 = rng.Intn(2)
			}
			op := []string{"pairto", "pairedwith"}[rng.Intn(2)]
			emit(fmt.Sprintf("mslow c=%s %s %d | %s | %s", mode, op, size, c03Show(st), c03Show(c03Shuffle(rng, c03Partition(rng, 101, nrec, nb2)))))
		case 5:
			emit(fmt.Sprintf("mslow c=%s divide %d | %s", mode, size, c03Show(st)))
		case 6:
			emit(fmt.Sprintf("mslow c=%s tee | %s", mode, c03Show(st)))
		}
	}
	nud := 6
	if thorough {
		nud = 30
	}
	for i := 0; i < nud; i++ {
		emit("uniqdisk | " + c03Show(rstream(1, 30)))
	}
}
