//go:build c09

package main

// C09 — long sequences around the sentinel length 30000 of the packed LCS cell (op lcslong).
//
//	lcslong <x> <n> <tailA> <y> <m> <tailB> <e> <egf>
//	        A = byte x repeated n times followed by tailA, B = byte y repeated m times followed by tailB
//	        (x, y: one byte in hex; tails in hex, - = empty): FastLCSEGFScoreByte(A, B, e, egf, nil)
//	                                                                                 -> "score length end"
//
// _notavail / _out carry the length 30000 and the path length lives in a 16-bit field. The first theorems of
// Props/C09.lean need |a| + |b| < 30000; the third pass proves the true frontier LenOK (both sequences <= 30000, or
// |a|+|b| <= 65534 with an explicit bound <= 14999: fastLCS_exact_long); fastLCS_length_bound_needed(_explicit) show
// that the kernel is wrong beyond it. These cases run the real
// kernel below, at and above the bound; the model (which has the real field widths) must reproduce every answer,
// right or wrong. The oracle is the naive full-matrix DP. The one deviation that is a KNOWN limit of the code (a
// sequence longer than 30000: score right, alignment length understated) has its own signature
// lcslong.sentinel-length (finding C09-len30000); every other deviation is reported as lcslong.inexact.* etc.

import (
	"fmt"
	"os"
	"path/filepath"
	"strconv"
	"strings"
	"sync"
)

var c09FindingOnce sync.Once
var c09FindingListed bool

// c09FindingKnown: is the finding C09-len30000 listed in /verif/known_findings.json (read only, never written)?
// While the proposed entry is not there, the known deviation is counted as a statistic instead of failing the check.
func c09FindingKnown() bool {
	c09FindingOnce.Do(func() {
		exe, err := os.Executable()
		if err != nil {
			return
		}
		data, err := os.ReadFile(filepath.Join(filepath.Dir(exe), "..", "known_findings.json"))
		if err != nil {
			return
		}
		c09FindingListed = strings.Contains(string(data), "\"C09-len30000\"")
	})
	return c09FindingListed
}

func c09LongSeq(x string, n string, tail string) ([]byte, bool) {
	xb, ok1 := unhx(x)
	cnt, err := strconv.Atoi(n)
	tb, ok2 := unhx(tail)
	if !ok1 || !ok2 || err != nil || len(xb) != 1 || cnt < 0 || cnt > 70000 {
		return nil, false
	}
	s := make([]byte, 0, cnt+len(tb))
	for i := 0; i < cnt; i++ {
		s = append(s, xb[0])
	}
	return append(s, tb...), true
}

func c09LongCorpus(thorough bool) []string {
	c := []string{
		// above the bound: one sequence longer than 30000 (finding C09-len30000)
		"lcslong 63 30005 61 00 0 61 -1 0", // c x30005 a / a : (1,30006) expected, the code says (1,30001)
		"lcslong 00 0 61 63 30005 61 -1 0", // same pair, the short one first
		"lcslong 61 30001 - 00 0 - -1 0",   // a x30001 / empty : instance of fastLCS_length_bound_needed
		"lcslong 63 40000 61 00 0 6161 -1 0",
		// at and just below the bound
		"lcslong 61 30000 - 00 0 - -1 0",
		"lcslong 63 29998 61 00 0 61 -1 0", // |a|+|b| = 30000
		"lcslong 63 29990 61 00 0 61 -1 0", // |a|+|b| < 30000 : covered by fastLCS_exact
		"lcslong 63 29999 61 00 0 61 5 0",  // length difference beyond the bound: early return
		"lcslong 63 29990 6161 00 0 6161 -1 1",
		// both sequences long, |a|+|b| > 30000 but each < 30000 (narrow bands: the kernel is fast)
		"lcslong 63 16000 6161 63 15999 6161 3 0",
		"lcslong 63 9000 61 67 9000 61 4 0", // no match before the last symbol: beyond the bound
		"lcslong 63 2000 6161 63 1998 6161 2 1",
		"lcslong 63 2000 6161 63 1998 6167 2 1",
	}
	// third pass: the TRUE frontier (Props/C09.lean, LenOK): both sequences <= 30000 with any bound, or
	// |a|+|b| <= 65534 with an explicit bound <= 14999; beyond it: a sequence longer than 30000 with no bound or a
	// bound >= its length (fastLCS_length_bound_needed / _explicit)
	c = append(c,
		"lcslong 63 29999 61 00 0 61 -1 0",      // |A| = 30000 exactly, no bound: exact (1,30000)
		"lcslong 63 29999 61 00 0 67 -1 0",      // no match: (0,30000)
		"lcslong 63 29999 61 00 0 61 30000 0",   // explicit bound as large as the sequence
		"lcslong 61 30001 - 00 0 - 30001 0",     // instance of fastLCS_length_bound_needed_explicit: (0,30000)
		"lcslong 61 30001 - 00 0 - 30000 0",     // length difference beyond the bound: early return
		"lcslong 63 30000 61 00 0 61 40000 0",   // |A| = 30001, explicit bound: length understated
		"lcslong 63 32000 61 63 32000 61 3 0",   // both longer than 30000, identical, narrow band: LenOK, exact
		"lcslong 63 32000 61 63 32000 67 3 0",   // one substitution at the end
		"lcslong 63 32000 61 63 32000 67 0 0",   // the same with the bound 0: beyond the bound
		"lcslong 63 32766 61 63 32766 61 0 0",   // |a|+|b| = 65534: the last length the 16-bit field argument covers
		"lcslong 63 30001 61 63 30001 61 2 1",   // endgapfree, both longer than 30000, identical
	)
	if thorough {
		c = append(c,
			"lcslong 63 20000 61 63 19998 61 2 1",
			"lcslong 63 14000 61 67 14000 61 4 0",
			"lcslong 63 20000 6161 63 19997 6161 4 0",
		)
	}
	return c
}

// c09PlainEqualUpTo: the first n bytes of a and b are equal and all in acgt
func c09PlainEqualUpTo(a, b []byte, n int) bool {
	for i := 0; i < n; i++ {
		if a[i] != b[i] || !strings.ContainsRune("acgt", rune(a[i])) {
			return false
		}
	}
	return true
}

// c09RunOf: s is a non-empty run of one symbol
func c09RunOf(s []byte) bool {
	if len(s) == 0 {
		return false
	}
	for _, c := range s {
		if c != s[0] {
			return false
		}
	}
	return true
}

func c09ExecLong(f []string, fail c09Failer) string {
	a, ok1 := c09LongSeq(f[1], f[2], f[3])
	b, ok2 := c09LongSeq(f[4], f[5], f[6])
	e, err := strconv.Atoi(f[7])
	if !ok1 || !ok2 || err != nil || e < -1 || (f[8] != "0" && f[8] != "1") {
		return "bad-op"
	}
	egf := f[8] == "1"
	la, lb := len(a), len(b)
	pair := fmt.Sprintf("A=%s^%s+%q (%d) B=%s^%s+%q (%d) e=%d egf=%v", f[1], f[2], a[la-min(la, len(f[3])/2):], la, f[4], f[5], b[lb-min(lb, len(f[6])/2):], lb, e, egf)
	switch {
	case max(la, lb) > 30000:
		stat("lcslong:a sequence longer than 30000")
	case la+lb >= 30000:
		stat("lcslong:|a|+|b| >= 30000, each <= 30000")
	default:
		stat("lcslong:|a|+|b| < 30000 (theorems apply)")
	}
	lenOK := la+lb <= 65534 && (max(la, lb) <= 30000 || (e != -1 && e <= 14999))
	if lenOK {
		stat("lcslong:LenOK (fastLCS_exact_long applies when endgapfree = false)")
	} else {
		stat("lcslong:beyond LenOK")
	}
	s, l, end, pan := c09Kernel(a, b, e, egf, nil)
	if pan != "" {
		fail("lcslong.panic", "%s: the kernel gives no answer: panic: %s", pair, pan)
		return "panic"
	}
	// the scratch buffer must not matter
	s2, l2, end2, pan2 := c09Kernel(a, b, e, egf, &c09Reused)
	if pan2 != "" {
		fail("lcslong.panic.buffer", "%s: panic with the reused buffer: %s", pair, pan2)
	} else if s2 != s || l2 != l || end2 != end {
		fail("lcslong.buffer-dependence", "%s: nil buffer gives (%d,%d,%d), reused buffer gives (%d,%d,%d)", pair, s, l, end, s2, l2, end2)
	}
	if !egf || la != lb {
		s3, l3, _, pan3 := c09Kernel(b, a, e, egf, nil)
		if pan3 != "" {
			fail("lcslong.panic.swapped", "%s: panic for (B,A): %s", pair, pan3)
		} else if s3 != s || l3 != l {
			fail("lcslong.asymmetric", "%s: (A,B) gives (%d,%d), (B,A) gives (%d,%d)", pair, s, l, s3, l3)
		}
	}
	var ws, wl int
	switch {
	case !c09AllIupac(a) || !c09AllIupac(b):
		stat("lcslong:no-oracle")
		return fmt.Sprintf("%d %d %d", s, l, end)
	case la*lb <= 450000000:
		ws, wl = c09Naive(a, b, egf)
	case la == lb && c09PlainEqualUpTo(a, b, la):
		// too large for the full matrix: identical plain sequences, optimum (n, n) in both modes
		stat("lcslong:analytic oracle (identical sequences)")
		ws, wl = la, la
	case la == lb && c09PlainEqualUpTo(a, b, la-1) && c09RunOf(a[:la-1]) && !c09CompatByte(a[la-1], b[la-1]) &&
		!c09CompatByte(a[la-1], a[0]) && !c09CompatByte(b[la-1], a[0]):
		// x^n p against x^n q with p, q, x pairwise incompatible: LCS n, shortest alignment n+1 (one mismatch column);
		// end-gap-free: the last symbol of the longer (first) sequence is a free overhang only if the other one
		// is then aligned against a gap: still n+1 columns
		stat("lcslong:analytic oracle (one substitution at the end)")
		ws, wl = la-1, la
	default:
		stat("lcslong:no-oracle")
		return fmt.Sprintf("%d %d %d", s, l, end)
	}
	cls := "ne"
	if egf {
		cls = "egf"
	}
	if e == -1 || wl-ws <= e {
		stat("lcslong:within-bound")
		if s != ws || l != wl {
			if max(la, lb) > 30000 && s == ws && l < wl {
				// the known limit: score right, length understated because a first-row/column cell beyond
				// position 30000 lost against the sentinel
				stat("lcslong:sentinel-length deviation (finding C09-len30000)")
				if c09FindingKnown() {
					fail("lcslong.sentinel-length", "%s: returned (%d,%d), LCS = %d with shortest alignment %d", pair, s, l, ws, wl)
				}
			} else {
				fail("lcslong.inexact."+cls, "%s: returned (%d,%d), LCS = %d with shortest alignment %d (differences %d within the bound)", pair, s, l, ws, wl, wl-ws)
			}
		}
	} else {
		stat("lcslong:beyond-bound")
		if !(s == -1 && l == -1) {
			if l-s <= e {
				fail("lcslong.spurious."+cls, "%s: returned (%d,%d), i.e. %d differences <= bound, but LCS = %d with shortest alignment %d", pair, s, l, l-s, ws, wl)
			}
			if s > ws || (s == ws && l < wl) {
				fail("lcslong.impossible."+cls, "%s: returned (%d,%d) better than the optimum (%d,%d)", pair, s, l, ws, wl)
			}
		}
	}
	return fmt.Sprintf("%d %d %d", s, l, end)
}
