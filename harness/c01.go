//go:build c01

package main

// Property C01: parsed records do not depend on chunk boundaries, transport or parser workers.
//
// ops (case lines):
//   split  <fa|fq|ff> <hex>                                  the record splitter on a buffer
//   chunks <fa|fq|ff> <bufsz> <hex>                          ReadSeqFileChunk with a bufsz-byte buffer
//   parse  <fa|fq1|fq0|gb0|gb1|em0|em1> <hex>                one chunk through the chunk parser
//   pipe   <fmt> <bufsz> <workers> <bytes|pipe|one|gz> <hex> chunk reader + N racing parser workers + re-sequencing
//   big    <fa|fq1|fq0|gb0|em0> <workers> <transport> <nrec> <seed>   the real Read* entry point (hard-coded
//                                                            1 MiB / 128 MiB buffer) on a generated multi-chunk file
//   kseq   <fa|fq> <hex>                                     C/kseq reader against the Go chunk parser
//   file   <fa|fq1|gb0|em0> <plain|gz> <hex>                 the universal entry point ReadSequencesFromFile on a real file
//                                                            (Ropen + OBIMimeTypeGuesser + dispatch + the real reader)
//   sniff  <plain|gz> <hex> [mime]                           Ropen (magic number, BOM) + OBIMimeTypeGuesser on a real file: the
//                                                            guessed MIME type is appended to the case line for the model
//   pair   <hexF> <hexR>                                     two FASTQ files through ReadSequencesFromFile + PairTo (paired reading)
//
// results: records `id:def:seq:qual[:taxid:sci:feat]#nann` (hex fields) separated by spaces, `none`, `fatal`, `panic`, `hang`.

import (
	"bytes"
	"compress/gzip"
	"fmt"
	"io"
	"math/rand"
	"os"
	"regexp"
	"sort"
	"strconv"
	"strings"
	"testing/iotest"
	"time"

	"git.metabarcoding.org/obitools/obitools4/obitools4/pkg/obiformats"
	"git.metabarcoding.org/obitools/obitools4/obitools4/pkg/obiiter"
	"git.metabarcoding.org/obitools/obitools4/obitools4/pkg/obiseq"
)

type c01 struct{}

func init() { props["C01"] = c01{} }

const c01Shift = 33

// ---------------------------------------------------------------------------------------------
// records

type c01Rec struct {
	id, def, seq string
	qual         string
	hasQual      bool
	flat         bool
	taxid        int
	sci, feat    string
	nann         int
}

func (r c01Rec) String() string {
	q := "-"
	if r.hasQual {
		q = hx([]byte(r.qual))
	}
	s := hx([]byte(r.id)) + ":" + hx([]byte(r.def)) + ":" + hx([]byte(r.seq)) + ":" + q
	if r.flat {
		s += ":" + strconv.Itoa(r.taxid) + ":" + hx([]byte(r.sci)) + ":" + hx([]byte(r.feat))
	}
	return s + "#" + strconv.Itoa(r.nann)
}

func c01Show(rs []c01Rec) string {
	if len(rs) == 0 {
		return "none"
	}
	p := make([]string, len(rs))
	for i, r := range rs {
		p[i] = r.String()
	}
	return strings.Join(p, " ")
}

func c01FromSeq(s *obiseq.BioSequence, flat bool) c01Rec {
	r := c01Rec{id: s.Id(), def: s.Definition(), seq: string(s.Sequence()), flat: flat}
	if s.HasQualities() {
		r.hasQual = true
		r.qual = string(s.Qualities())
	}
	r.nann = len(s.Annotations())
	if flat {
		a := s.Annotations()
		if t, ok := a["taxid"].(int); ok {
			r.taxid = t
		} else {
			r.taxid = -999
		}
		if n, ok := a["scientific_name"].(string); ok {
			r.sci = n
		} else {
			r.sci = "?"
		}
		r.feat = s.Features()
	}
	return r
}

func c01FromSlice(sl obiseq.BioSequenceSlice, flat bool) []c01Rec {
	out := make([]c01Rec, 0, len(sl))
	for _, s := range sl {
		out = append(out, c01FromSeq(s, flat))
	}
	return out
}

// ---------------------------------------------------------------------------------------------
// formats

type c01Fmt struct {
	name     string // fa fq1 fq0 gb0 gb1 em0 em1
	split    string // fa fq ff
	flat     bool
	withQual bool
	withFeat bool
}

func c01Format(name string) (c01Fmt, bool) {
	switch name {
	case "fa":
		return c01Fmt{name, "fa", false, false, false}, true
	case "fq1":
		return c01Fmt{name, "fq", false, true, false}, true
	case "fq0":
		return c01Fmt{name, "fq", false, false, false}, true
	case "gb0":
		return c01Fmt{name, "ff", true, false, false}, true
	case "gb1":
		return c01Fmt{name, "ff", true, false, true}, true
	case "em0":
		return c01Fmt{name, "ff", true, false, false}, true
	case "em1":
		return c01Fmt{name, "ff", true, false, true}, true
	}
	return c01Fmt{}, false
}

func c01Splitter(name string) obiformats.LastSeqRecord {
	switch name {
	case "fa":
		return obiformats.EndOfLastFastaEntry
	case "fq":
		return obiformats.EndOfLastFastqEntry
	case "ff":
		return obiformats.EndOfLastFlatFileEntry
	}
	return nil
}

func (f c01Fmt) parser() func(string, io.Reader) (obiseq.BioSequenceSlice, error) {
	switch f.name[:2] {
	case "fa":
		return obiformats.FastaChunkParser()
	case "fq":
		return obiformats.FastqChunkParser(c01Shift, f.withQual)
	case "gb":
		return obiformats.GenbankChunkParser(f.withFeat)
	default:
		return obiformats.EmblChunkParser(f.withFeat)
	}
}

func (f c01Fmt) worker(ch obiformats.ChannelSeqFileChunk, out obiiter.IBioSequence) {
	switch f.name[:2] {
	case "fa":
		obiformats.VerifParseFastaFile(ch, out)
	case "fq":
		obiformats.VerifParseFastqFile(ch, out, c01Shift, f.withQual)
	case "gb":
		obiformats.VerifParseGenbankFile(ch, out, f.withFeat)
	default:
		obiformats.VerifParseEmblFile(ch, out, f.withFeat)
	}
}

// ---------------------------------------------------------------------------------------------
// real code runners

// c01Chunks runs the real ReadSeqFileChunk with a bufsz-byte buffer; ok=false when chunk numbers are not 0,1,2,…
func c01Chunks(split string, bufsz int, rd io.Reader) (chunks [][]byte, numbered bool) {
	numbered = true
	ch := obiformats.ReadSeqFileChunk("src", rd, make([]byte, bufsz), c01Splitter(split))
	i := 0
	for c := range ch {
		if c.Order != i {
			numbered = false
		}
		i++
		chunks = append(chunks, c.Raw.Bytes())
	}
	return
}

func c01ShowChunks(cs [][]byte) string {
	if len(cs) == 0 {
		return "none"
	}
	p := make([]string, len(cs))
	for i, c := range cs {
		p[i] = hx(c)
	}
	return strings.Join(p, " ")
}

// c01Parse runs one chunk through the real chunk parser: (outcome, records); outcome "" = ok
func c01Parse(f c01Fmt, data []byte) (string, []c01Rec) {
	var recs []c01Rec
	res := guardT(5*time.Second, func() string {
		sl, err := f.parser()("src", bytes.NewBuffer(append([]byte{}, data...)))
		if err != nil {
			// every _Parse*File worker turns a parser error into log.Fatalf (EMBL: scanner.Err(), patch C01-embl-scanner-err)
			return "fatal"
		}
		recs = c01FromSlice(sl, f.flat)
		return ""
	})
	return res, recs
}

func c01Transport(kind string, data []byte) (io.Reader, bool) {
	switch kind {
	case "bytes":
		return bytes.NewReader(data), true
	case "one":
		return iotest.OneByteReader(bytes.NewReader(data)), true
	case "pipe":
		pr, pw := io.Pipe()
		go func() {
			x := uint32(len(data))*2654435761 + 12345
			p := 0
			for p < len(data) {
				x = x*1664525 + 1013904223
				n := 1 + int((x>>16)%7)
				if p+n > len(data) {
					n = len(data) - p
				}
				if _, err := pw.Write(data[p : p+n]); err != nil {
					return
				}
				p += n
			}
			pw.Close()
		}()
		return pr, true
	case "gz":
		var b bytes.Buffer
		w := gzip.NewWriter(&b)
		w.Write(data)
		w.Close()
		r, err := obiformats.Buf(bytes.NewReader(b.Bytes())) // the real opener: sniffs the magic number, wraps the gzip reader
		if err != nil {
			if err == obiformats.ErrNoContent && len(data) == 0 {
				return bytes.NewReader(nil), true
			}
			return nil, false
		}
		return r, true
	}
	return nil, false
}

// c01Pipe: the composition made by ReadFasta/ReadFastq/ReadGenbank/ReadEMBL (chunk reader, N private worker
// goroutines racing on the chunk channel, batches numbered by chunk) with a small buffer.  Returns the batches in
// DELIVERY order with their numbers.
type c01Batch struct {
	order int
	recs  []c01Rec
}

func c01Pipe(f c01Fmt, bufsz, workers int, rd io.Reader, sortBatches bool) []c01Batch {
	ch := obiformats.ReadSeqFileChunk("src", rd, make([]byte, bufsz), c01Splitter(f.split))
	out := obiiter.MakeIBioSequence()
	for i := 0; i < workers; i++ {
		out.Add(1)
		go f.worker(ch, out)
	}
	go out.WaitAndClose()
	it := out
	if sortBatches {
		it = out.SortBatches()
	}
	var bs []c01Batch
	for it.Next() {
		b := it.Get()
		bs = append(bs, c01Batch{b.Order(), c01FromSlice(b.Slice(), f.flat)})
	}
	return bs
}

// ---------------------------------------------------------------------------------------------
// independent naive references: (records implied by each record's own text, well-formed?)

func c01Lines(data []byte) ([]string, bool) {
	s := string(data)
	if s == "" {
		return nil, true
	}
	ls := strings.Split(s, "\n")
	if ls[len(ls)-1] == "" {
		ls = ls[:len(ls)-1]
	}
	for i := range ls {
		ls[i] = strings.TrimSuffix(ls[i], "\r")
		if strings.ContainsRune(ls[i], '\r') {
			return nil, false
		}
	}
	return ls, true
}

func c01IsSeqChar(c byte) bool {
	return (c >= 'a' && c <= 'z') || (c >= 'A' && c <= 'Z') || c == '-' || c == '.' || c == '[' || c == ']'
}

func c01Header(h string) (id, def string, ok bool) {
	if h == "" || h[0] == ' ' || h[0] == '\t' {
		return "", "", false
	}
	k := strings.IndexAny(h, " \t")
	if k < 0 {
		return h, "", true
	}
	return h[:k], strings.TrimLeft(h[k:], " \t"), true
}

func c01Nann(def string, flat bool) int {
	n := 0
	if def != "" {
		n++
	}
	if flat {
		n += 2
	}
	return n
}

func c01RefFasta(data []byte) ([]c01Rec, bool) {
	ls, ok := c01Lines(data)
	if !ok {
		return nil, false
	}
	var recs []c01Rec
	for i, l := range ls {
		switch {
		case l == "":
			if i == 0 {
				return nil, false
			}
		case l[0] == '>':
			if len(recs) > 0 && recs[len(recs)-1].seq == "" {
				return nil, false
			}
			id, def, ok := c01Header(l[1:])
			if !ok {
				return nil, false
			}
			recs = append(recs, c01Rec{id: id, def: def, nann: c01Nann(def, false)})
		default:
			if len(recs) == 0 {
				return nil, false
			}
			r := &recs[len(recs)-1]
			if r.seq == "" && !c01IsSeqChar(l[0]) {
				return nil, false
			}
			for j := 0; j < len(l); j++ {
				c := l[j]
				if c == ' ' || c == '\t' {
					continue
				}
				if !c01IsSeqChar(c) {
					return nil, false
				}
				r.seq += strings.ToLower(string(c))
			}
		}
	}
	if len(recs) > 0 && recs[len(recs)-1].seq == "" {
		return nil, false
	}
	return recs, true
}

func c01RefFastq(data []byte, withQual bool) ([]c01Rec, bool) {
	ls, ok := c01Lines(data)
	if !ok {
		return nil, false
	}
	var nb []string
	for i, l := range ls {
		if l == "" {
			if i == 0 {
				return nil, false
			}
			continue
		}
		nb = append(nb, l)
	}
	if len(nb)%4 != 0 {
		return nil, false
	}
	var recs []c01Rec
	for i := 0; i < len(nb); i += 4 {
		h, s, p, q := nb[i], nb[i+1], nb[i+2], nb[i+3]
		if h[0] != '@' || p[0] != '+' || len(q) != len(s) {
			return nil, false
		}
		id, def, ok := c01Header(h[1:])
		if !ok {
			return nil, false
		}
		for j := 0; j < len(s); j++ {
			if !c01IsSeqChar(s[j]) {
				return nil, false
			}
		}
		r := c01Rec{id: id, def: def, seq: strings.ToLower(s), nann: c01Nann(def, false)}
		if withQual {
			qb := []byte(q)
			for j := range qb {
				if qb[j] < 33 || qb[j] > 126 {
					return nil, false
				}
				qb[j] -= c01Shift
			}
			r.hasQual, r.qual = true, string(qb)
		}
		recs = append(recs, r)
	}
	return recs, true
}

func c01Taxon(l string, pfx string) (int, bool) {
	if !strings.HasPrefix(l, pfx) {
		return 0, false
	}
	v := l[len(pfx):]
	k := strings.IndexByte(v, '"')
	if k >= 0 {
		v = v[:k]
	}
	n, err := strconv.Atoi(v)
	if err != nil {
		return 0, true
	}
	return n, true
}

var c01GbKeys = []string{"LOCUS       ", "DEFINITION  ", "SOURCE      ", "FEATURES    ", "ORIGIN", "CONTIG"}

func c01HasGbKey(l string) bool {
	for _, k := range c01GbKeys {
		if strings.HasPrefix(l, k) {
			return true
		}
	}
	return l == "//"
}

func c01RefGenbank(data []byte, withFeat bool) ([]c01Rec, bool) {
	ls, ok := c01Lines(data)
	if !ok {
		return nil, false
	}
	var recs []c01Rec
	i := 0
	for i < len(ls) {
		for i < len(ls) && ls[i] == "" {
			i++
		}
		if i == len(ls) {
			break
		}
		if !strings.HasPrefix(ls[i], "LOCUS       ") {
			return nil, false
		}
		r := c01Rec{flat: true, taxid: 1}
		r.id = strings.SplitN(ls[i][12:], " ", 2)[0]
		i++
		// entry part
		for i < len(ls) && !strings.HasPrefix(ls[i], "FEATURES    ") {
			l := ls[i]
			if len(l) > 100 {
				return nil, false
			}
			switch {
			case strings.HasPrefix(l, "DEFINITION  "):
				if r.def != "" {
					return nil, false
				}
				r.def = strings.TrimSpace(l[12:])
				i++
				for i < len(ls) && strings.HasPrefix(ls[i], "            ") {
					if len(ls[i]) > 100 {
						return nil, false
					}
					r.def += " " + strings.TrimSpace(ls[i][12:])
					i++
				}
				continue
			case strings.HasPrefix(l, "SOURCE      "):
				r.sci = strings.TrimSpace(l[12:])
			case c01HasGbKey(l):
				return nil, false
			}
			i++
		}
		if i == len(ls) {
			return nil, false
		}
		var feat []string
		for i < len(ls) && !strings.HasPrefix(ls[i], "ORIGIN") {
			l := ls[i]
			if len(l) > 100 || (len(feat) > 0 && c01HasGbKey(l)) {
				return nil, false
			}
			if t, ok := c01Taxon(l, `                     /db_xref="taxon:`); ok && len(feat) > 0 {
				r.taxid = t
			}
			feat = append(feat, l)
			i++
		}
		if i == len(ls) {
			return nil, false
		}
		i++
		for i < len(ls) && ls[i] != "//" {
			l := ls[i]
			if len(l) < 11 || len(l) > 100 || c01HasGbKey(l) {
				return nil, false
			}
			if len(strings.Fields(l[10:])) > 6 || strings.HasSuffix(l, " ") || strings.Contains(l[10:], "  ") || l[10] == ' ' {
				return nil, false
			}
			r.seq += strings.ToLower(strings.ReplaceAll(l[10:], " ", ""))
			i++
		}
		if i == len(ls) {
			return nil, false
		}
		i++
		if withFeat {
			r.feat = strings.Join(feat, "\n")
		}
		r.nann = c01Nann(r.def, true)
		recs = append(recs, r)
	}
	return recs, true
}

func c01RefEmbl(data []byte, withFeat bool) ([]c01Rec, bool) {
	ls, ok := c01Lines(data)
	if !ok {
		return nil, false
	}
	var recs []c01Rec
	i := 0
	for i < len(ls) {
		for i < len(ls) && ls[i] == "" {
			i++
		}
		if i == len(ls) {
			break
		}
		if !strings.HasPrefix(ls[i], "ID   ") {
			return nil, false
		}
		r := c01Rec{flat: true, taxid: 1}
		r.id = strings.SplitN(ls[i][5:], ";", 2)[0]
		i++
		var feat []string
		var defs []string
		nfh := 0
		for i < len(ls) && ls[i] != "//" {
			l := ls[i]
			if len(l) > 80 {
				// an EMBL line has at most 80 bytes; the scanner of the real parser gives up at 65536
				return nil, false
			}
			switch {
			case strings.HasPrefix(l, "ID   "):
				return nil, false
			case strings.HasPrefix(l, "OS   "):
				r.sci = strings.TrimSpace(l[5:])
			case strings.HasPrefix(l, "DE   "):
				d := strings.TrimSpace(l[5:])
				if d == "" {
					return nil, false
				}
				defs = append(defs, d)
			case strings.HasPrefix(l, "FH   "):
				nfh++
				if nfh > 1 || len(feat) > 0 {
					return nil, false
				}
				feat = append(feat, l)
			case l == "FH":
				if nfh != 1 {
					return nil, false
				}
				feat = append(feat, l)
			case strings.HasPrefix(l, "FT   "):
				if nfh != 1 {
					return nil, false
				}
				feat = append(feat, l)
				if t, ok := c01Taxon(l, `FT                   /db_xref="taxon:`); ok {
					r.taxid = t
				}
			case strings.HasPrefix(l, "     "):
				fs := strings.Fields(l[5:])
				if len(fs) < 2 || len(fs) > 7 || l[5] == ' ' {
					return nil, false
				}
				if _, err := strconv.Atoi(fs[len(fs)-1]); err != nil {
					return nil, false
				}
				// the coordinate ends the line: blanks after it are not part of the format (the real parser
				// drops the LAST blank-separated field, so such a line is outside what it is specified for)
				if c := l[len(l)-1]; c < '0' || c > '9' {
					return nil, false
				}
				groups := strings.TrimRight(l[5:], "0123456789")
				if strings.Contains(strings.TrimRight(groups, " "), "  ") || !strings.HasSuffix(groups, " ") {
					return nil, false
				}
				r.seq += strings.ToLower(strings.Join(fs[:len(fs)-1], ""))
			}
			i++
		}
		if i == len(ls) {
			return nil, false
		}
		i++
		r.def = strings.Join(defs, " ")
		if withFeat {
			r.feat = strings.Join(feat, "\n")
		}
		r.nann = c01Nann(r.def, true)
		recs = append(recs, r)
	}
	return recs, true
}

// the second expression of the GenBank detector
var c01BannerRe = regexp.MustCompile("^[^ ]* +Genetic Sequence Data Bank *\n")

// number of bytes up to and including the `+` of the first FASTQ record (what the fastq detector has to see)
func c01FastqFirstRecordSpan(data []byte) int {
	k := bytes.Index(data, []byte("\n+"))
	if k < 0 {
		return len(data)
	}
	return k + 2
}

func c01Ref(f c01Fmt, data []byte) ([]c01Rec, bool) {
	switch f.name[:2] {
	case "fa":
		return c01RefFasta(data)
	case "fq":
		return c01RefFastq(data, f.withQual)
	case "gb":
		return c01RefGenbank(data, f.withFeat)
	default:
		return c01RefEmbl(data, f.withFeat)
	}
}

// which field differs first: used as oracle signature class
func c01Diff(got, want []c01Rec) string {
	if len(got) != len(want) {
		// same multiset in another order?
		return "count"
	}
	for i := range got {
		g, w := got[i], want[i]
		switch {
		case g.id != w.id:
			a := make([]string, len(got))
			b := make([]string, len(want))
			for k := range got {
				a[k], b[k] = got[k].String(), want[k].String()
			}
			sort.Strings(a)
			sort.Strings(b)
			if strings.Join(a, " ") == strings.Join(b, " ") {
				return "order"
			}
			return "id"
		case g.def != w.def:
			return "definition"
		case g.seq != w.seq:
			return "sequence"
		case g.hasQual != w.hasQual || g.qual != w.qual:
			return "qualities"
		case g.taxid != w.taxid:
			return "taxid"
		case g.sci != w.sci:
			return "scientific_name"
		case g.feat != w.feat:
			return "features"
		case g.nann != w.nann:
			return "annotations"
		}
	}
	return ""
}

// ---------------------------------------------------------------------------------------------
// generators of well-formed files

const c01SeqAlpha = "acgtacgtacgtACGTnNryswkmbdhv-.[]"
const c01IdAlpha = "abcXYZ019_|:>@+-.;/="
const c01QualHot = "@+@+!I5#~>"

func c01Pick(rng *rand.Rand, alpha string, n int) string {
	b := make([]byte, n)
	for i := range b {
		b[i] = alpha[rng.Intn(len(alpha))]
	}
	return string(b)
}

type c01Style struct {
	eol      func() string
	blank    bool // blank lines between records
	trailing int  // number of eols after the last record
}

// c01StyleOverride >= 0 forces the lay-out (thorough tier, family of small files): line ends LF / CR LF / mixed
// (override % 3), 0..2 line ends after the last record (override / 3 % 3; 0 = missing final newline)
var c01StyleOverride = -1

func c01MakeStyle(rng *rand.Rand) c01Style {
	k := rng.Intn(5)
	st := c01Style{blank: rng.Intn(5) == 0, trailing: rng.Intn(3)}
	if c01StyleOverride >= 0 {
		k = []int{0, 3, 4}[c01StyleOverride%3]
		st.blank = false
		st.trailing = c01StyleOverride / 3 % 3
		stat(fmt.Sprintf("small-style:eol%d:trailing%d", c01StyleOverride%3, st.trailing))
	}
	st.eol = func() string {
		switch k {
		case 0, 1, 2:
			return "\n"
		case 3:
			return "\r\n"
		default:
			if rng.Intn(2) == 0 {
				return "\r\n"
			}
			return "\n"
		}
	}
	return st
}


// white space as strings.TrimSpace / unicode.IsSpace see it, and look-alikes that are NOT white space (invalid or
// overlong UTF-8, zero-width space, BOM, lone continuation / lead bytes)
var c01SpaceRunes = []string{"\v", "\f", " ", "\t", "\u0085", "\u00a0", "\u1680", "\u2000", "\u2003", "\u200a", "\u2028", "\u2029", "\u202f", "\u205f", "\u3000"}
var c01NotSpace = []string{"\xa0", "\x85", "\xc2", "\xe2\x80", "\xc0\xa0", "\u200b", "\ufeff", "\xe2\x80\x8b", "\xe1\x9a", "\xe3\x80\x81", "\xe2\x81\xa0", "\xc2\xa1", "\xc2\x84", "\xff", "\u00e9", "\xe2\x80\x80\x80"}

// c01Exotic wraps v in 0..2 white-space runes / look-alikes on each side (about one value in three)
func c01Exotic(rng *rand.Rand, v string) string {
	if rng.Intn(3) != 0 {
		return v
	}
	stat("exotic-space-value")
	tok := func() string {
		s := ""
		for k := rng.Intn(3); k > 0; k-- {
			if rng.Intn(3) == 0 {
				s += c01NotSpace[rng.Intn(len(c01NotSpace))]
			} else {
				s += c01SpaceRunes[rng.Intn(len(c01SpaceRunes))]
			}
		}
		return s
	}
	mid := ""
	if rng.Intn(3) == 0 {
		mid = tok() + "z"
	}
	return tok() + v + mid + tok()
}

func c01GenHeader(rng *rand.Rand) string {
	h := c01Pick(rng, c01IdAlpha, 1+rng.Intn(7))
	if rng.Intn(3) > 0 {
		nw := 1 + rng.Intn(3)
		for w := 0; w < nw; w++ {
			h += []string{" ", " ", "  ", "\t"}[rng.Intn(4)] + c01Pick(rng, c01IdAlpha+"{}\"", 1+rng.Intn(6))
		}
		if rng.Intn(6) == 0 {
			h += " "
		}
	}
	if c01ExoticTitles && rng.Intn(6) == 0 {
		// VT, FF, NBSP, NEL, high bytes inside the title: plain bytes for the Go state machines
		stat("exotic-title")
		p := 1 + rng.Intn(len(h))
		h = h[:p] + []string{"\v", "\f", "\u00a0", "\u0085", "\xff", "\x00", "\x7f"}[rng.Intn(7)] + h[p:]
	}
	return h
}

// set while generating files that are not given to the kseq op (the C reader splits titles with isspace())
var c01ExoticTitles = false

func c01GenFasta(rng *rand.Rand, nrec int) []byte {
	st := c01MakeStyle(rng)
	var b strings.Builder
	for r := 0; r < nrec; r++ {
		b.WriteString(">" + c01GenHeader(rng))
		nl := 1 + rng.Intn(3)
		for l := 0; l < nl; l++ {
			b.WriteString(st.eol())
			line := c01Pick(rng, c01SeqAlpha, 1+rng.Intn(12))
			if rng.Intn(12) == 0 && len(line) > 2 {
				line = line[:1] + " " + line[1:]
			}
			b.WriteString(line)
		}
		if r < nrec-1 {
			b.WriteString(st.eol())
			if st.blank && rng.Intn(2) == 0 {
				b.WriteString(st.eol())
			}
		}
	}
	if nrec > 0 {
		for t := 0; t < st.trailing; t++ {
			b.WriteString(st.eol())
		}
	}
	return []byte(b.String())
}

func c01GenFastq(rng *rand.Rand, nrec int) []byte {
	st := c01MakeStyle(rng)
	var b strings.Builder
	for r := 0; r < nrec; r++ {
		h := c01GenHeader(rng)
		b.WriteString("@" + h + st.eol())
		n := 1 + rng.Intn(12)
		b.WriteString(c01Pick(rng, c01SeqAlpha, n) + st.eol())
		switch rng.Intn(4) {
		case 0:
			b.WriteString("+" + h)
		case 1:
			b.WriteString("+" + c01Pick(rng, "acgtACGT", 1+rng.Intn(5))) // a + line that looks like sequence
		default:
			b.WriteString("+")
		}
		b.WriteString(st.eol())
		q := make([]byte, n)
		for i := range q {
			if rng.Intn(3) == 0 {
				q[i] = c01QualHot[rng.Intn(len(c01QualHot))]
			} else {
				q[i] = byte(33 + rng.Intn(94))
			}
		}
		if rng.Intn(3) == 0 {
			q[0] = "@+"[rng.Intn(2)]
		}
		if rng.Intn(6) == 0 { // a quality line that looks like sequence
			copy(q, c01Pick(rng, "ACGTIIFF", n))
		}
		b.Write(q)
		if r < nrec-1 {
			b.WriteString(st.eol())
			if st.blank && rng.Intn(2) == 0 {
				b.WriteString(st.eol())
			}
		}
	}
	if nrec > 0 {
		for t := 0; t < st.trailing; t++ {
			b.WriteString(st.eol())
		}
	}
	return []byte(b.String())
}

var c01Species = []string{"Homo sapiens", "Zea mays", "Abies alba Mill.", "Bos taurus (cattle)"}

func c01GenGenbank(rng *rand.Rand, nrec int, compact bool) []byte {
	st := c01MakeStyle(rng)
	var b strings.Builder
	for r := 0; r < nrec; r++ {
		nseq := 1 + rng.Intn(90)
		if compact {
			nseq = 1 + rng.Intn(25)
		}
		id := c01Pick(rng, "ABCXYZ0189_.", 2+rng.Intn(6))
		b.WriteString(fmt.Sprintf("LOCUS       %s %d bp    DNA     linear   PLN 01-JAN-2000", id, nseq) + st.eol())
		if rng.Intn(5) > 0 {
			b.WriteString("DEFINITION  " + c01Exotic(rng, c01Pick(rng, "abc XYZ,>@+", 1+rng.Intn(20))) + st.eol())
			if rng.Intn(3) == 0 {
				b.WriteString("            " + c01Exotic(rng, c01Pick(rng, "abc XYZ.", 1+rng.Intn(12))) + st.eol())
			}
		}
		if !compact || rng.Intn(2) == 0 {
			b.WriteString("ACCESSION   " + id + st.eol())
		}
		sp := c01Species[rng.Intn(len(c01Species))]
		if rng.Intn(2) == 0 {
			b.WriteString("SOURCE      " + c01Exotic(rng, sp) + st.eol())
			if rng.Intn(2) == 0 {
				b.WriteString("  ORGANISM  " + sp + st.eol())
				b.WriteString("            Eukaryota; Metazoa." + st.eol())
			}
		}
		b.WriteString("FEATURES             Location/Qualifiers" + st.eol())
		b.WriteString(fmt.Sprintf("     source          1..%d", nseq) + st.eol())
		if rng.Intn(2) == 0 {
			b.WriteString(`                     /organism="` + sp + `"` + st.eol())
		}
		if rng.Intn(2) == 0 {
			b.WriteString(fmt.Sprintf(`                     /db_xref="taxon:%d"`, 2+rng.Intn(99999)) + st.eol())
		}
		if rng.Intn(4) == 0 {
			b.WriteString("     gene            1..2" + st.eol())
		}
		b.WriteString("ORIGIN" + st.eol())
		seq := c01Pick(rng, "acgtacgtnACGT", nseq)
		for p := 0; p < nseq; p += 60 {
			line := fmt.Sprintf("%9d", p+1)
			for g := p; g < p+60 && g < nseq; g += 10 {
				e := g + 10
				if e > nseq {
					e = nseq
				}
				line += " " + seq[g:e]
			}
			b.WriteString(line + st.eol())
		}
		b.WriteString("//")
		if r < nrec-1 || st.trailing > 0 {
			b.WriteString(st.eol())
		}
		if st.blank && rng.Intn(2) == 0 && (r < nrec-1 || st.trailing > 1) {
			b.WriteString(st.eol())
		}
	}
	return []byte(b.String())
}

func c01GenEmbl(rng *rand.Rand, nrec int, compact bool) []byte {
	st := c01MakeStyle(rng)
	var b strings.Builder
	for r := 0; r < nrec; r++ {
		nseq := 1 + rng.Intn(90)
		if compact {
			nseq = 1 + rng.Intn(25)
		}
		id := c01Pick(rng, "ABCXYZ0189_.", 2+rng.Intn(6))
		b.WriteString(fmt.Sprintf("ID   %s; SV 1; linear; mRNA; STD; PLN; %d BP.", id, nseq) + st.eol())
		b.WriteString("XX" + st.eol())
		if !compact || rng.Intn(2) == 0 {
			b.WriteString("AC   " + id + ";" + st.eol())
		}
		if rng.Intn(5) > 0 {
			b.WriteString("DE   " + c01Exotic(rng, c01Pick(rng, "abcXYZ,>@+", 1)+c01Pick(rng, "abc XYZ,>@+", rng.Intn(20))) + st.eol())
			if rng.Intn(3) == 0 {
				b.WriteString("DE   " + c01Exotic(rng, c01Pick(rng, "abcXYZ.", 1+rng.Intn(12))) + st.eol())
			}
		}
		sp := c01Species[rng.Intn(len(c01Species))]
		if rng.Intn(2) == 0 {
			b.WriteString("OS   " + c01Exotic(rng, sp) + st.eol())
			if rng.Intn(2) == 0 {
				b.WriteString("OC   Eukaryota; Metazoa." + st.eol())
			}
		}
		b.WriteString("FH   Key             Location/Qualifiers" + st.eol())
		b.WriteString("FH" + st.eol())
		b.WriteString(fmt.Sprintf("FT   source          1..%d", nseq) + st.eol())
		if rng.Intn(2) == 0 {
			b.WriteString(`FT                   /organism="` + sp + `"` + st.eol())
		}
		if rng.Intn(2) == 0 {
			b.WriteString(fmt.Sprintf(`FT                   /db_xref="taxon:%d"`, 2+rng.Intn(99999)) + st.eol())
		}
		b.WriteString(fmt.Sprintf("SQ   Sequence %d BP;", nseq) + st.eol())
		seq := c01Pick(rng, "acgtacgtnACGT", nseq)
		for p := 0; p < nseq; p += 60 {
			line := "    "
			e := p
			for g := p; g < p+60 && g < nseq; g += 10 {
				e = g + 10
				if e > nseq {
					e = nseq
				}
				line += " " + seq[g:e]
			}
			if compact {
				line += fmt.Sprintf(" %d", e)
			} else {
				line += fmt.Sprintf("%*d", 80-len(line), e)
			}
			b.WriteString(line + st.eol())
		}
		b.WriteString("//")
		if r < nrec-1 || st.trailing > 0 {
			b.WriteString(st.eol())
		}
		if st.blank && rng.Intn(2) == 0 && (r < nrec-1 || st.trailing > 1) {
			b.WriteString(st.eol())
		}
	}
	return []byte(b.String())
}

func c01GenFile(rng *rand.Rand, kind string, nrec int, compact bool) []byte {
	switch kind {
	case "fa":
		return c01GenFasta(rng, nrec)
	case "fq":
		return c01GenFastq(rng, nrec)
	case "gb":
		return c01GenGenbank(rng, nrec, compact)
	default:
		return c01GenEmbl(rng, nrec, compact)
	}
}

func c01Mutate(rng *rand.Rand, data []byte, alpha string) []byte {
	d := append([]byte{}, data...)
	n := 1 + rng.Intn(3)
	for k := 0; k < n && len(d) > 0; k++ {
		p := rng.Intn(len(d))
		switch rng.Intn(3) {
		case 0:
			d[p] = alpha[rng.Intn(len(alpha))]
		case 1:
			d = append(d[:p], d[p+1:]...)
		default:
			d = append(d[:p], append([]byte{alpha[rng.Intn(len(alpha))]}, d[p:]...)...)
		}
	}
	return d
}

// big files for the real Read* entry points, generated from (kind, nrec, seed): records are regular so that the
// expected list is known without keeping the text
func c01BigRec(kind string, i int, seed int64) (id, def, seq, qual string) {
	id = fmt.Sprintf("r%d_%d", seed, i)
	if i%3 != 0 {
		def = fmt.Sprintf("record %d of >@+ the big file", i)
	}
	n := 60 + (i*7+int(seed))%90
	b := make([]byte, n)
	q := make([]byte, n)
	for k := range b {
		b[k] = "acgt"[(i+k*k+k/3)%4]
		q[k] = byte(33 + (i+k*5)%60)
	}
	if i%5 == 0 {
		q[0] = '@'
	}
	if i%7 == 0 {
		q[0] = '+'
	}
	return id, def, string(b), string(q)
}

type c01BigReader struct {
	kind   string
	nrec   int
	seed   int64
	seqLen int // flat files: bases per record
	i      int
	buf    []byte
}

func (r *c01BigReader) Read(p []byte) (int, error) {
	for len(r.buf) == 0 {
		if r.i >= r.nrec {
			return 0, io.EOF
		}
		r.buf = c01BigText(r.kind, r.i, r.seed, r.seqLen)
		r.i++
	}
	n := copy(p, r.buf)
	r.buf = r.buf[n:]
	return n, nil
}

func c01BigFlatSeq(i, n int) []byte {
	b := make([]byte, n)
	for k := range b {
		b[k] = "acgt"[(i+k+k/7)%4]
	}
	return b
}

func c01BigText(kind string, i int, seed int64, seqLen int) []byte {
	id, def, seq, qual := c01BigRec(kind, i, seed)
	var b bytes.Buffer
	switch kind {
	case "fa":
		b.WriteString(">" + id)
		if def != "" {
			b.WriteString(" " + def)
		}
		b.WriteString("\n")
		for p := 0; p < len(seq); p += 60 {
			e := p + 60
			if e > len(seq) {
				e = len(seq)
			}
			b.WriteString(seq[p:e] + "\n")
		}
	case "fq":
		b.WriteString("@" + id)
		if def != "" {
			b.WriteString(" " + def)
		}
		b.WriteString("\n" + seq + "\n+\n" + qual + "\n")
	case "gb":
		s := c01BigFlatSeq(i, seqLen)
		fmt.Fprintf(&b, "LOCUS       %s %d bp    DNA     linear   PLN 01-JAN-2000\n", id, seqLen)
		fmt.Fprintf(&b, "DEFINITION  record %d.\nFEATURES             Location/Qualifiers\n     source          1..%d\n", i, seqLen)
		if i%2 == 0 {
			fmt.Fprintf(&b, "                     /db_xref=\"taxon:%d\"\n", 100+i)
		}
		b.WriteString("ORIGIN\n")
		for p := 0; p < seqLen; p += 60 {
			fmt.Fprintf(&b, "%9d", p+1)
			for g := p; g < p+60 && g < seqLen; g += 10 {
				e := g + 10
				if e > seqLen {
					e = seqLen
				}
				b.WriteByte(' ')
				b.Write(s[g:e])
			}
			b.WriteByte('\n')
		}
		b.WriteString("//\n")
	case "em":
		s := c01BigFlatSeq(i, seqLen)
		fmt.Fprintf(&b, "ID   %s; SV 1; linear; mRNA; STD; PLN; %d BP.\nXX\nDE   record %d.\n", id, seqLen, i)
		fmt.Fprintf(&b, "FH   Key             Location/Qualifiers\nFH\nFT   source          1..%d\n", seqLen)
		if i%2 == 0 {
			fmt.Fprintf(&b, "FT                   /db_xref=\"taxon:%d\"\n", 100+i)
		}
		b.WriteString("SQ   Sequence\n")
		for p := 0; p < seqLen; p += 60 {
			b.WriteString("    ")
			e := p
			for g := p; g < p+60 && g < seqLen; g += 10 {
				e = g + 10
				if e > seqLen {
					e = seqLen
				}
				b.WriteByte(' ')
				b.Write(s[g:e])
			}
			fmt.Fprintf(&b, " %9d\n", e)
		}
		b.WriteString("//\n")
	}
	return b.Bytes()
}

// ---------------------------------------------------------------------------------------------
// Gen

func c01Sizes(rng *rand.Rand, tier string, n int, every bool) []int {
	if every {
		var s []int
		for b := 2; b <= n+2; b++ {
			s = append(s, b)
		}
		return s
	}
	set := map[int]bool{}
	for _, b := range []int{2, 3, 4, 5, 7, 8, 16, n - 1, n, n + 1, n + 2} {
		if b >= 2 {
			set[b] = true
		}
	}
	for k := 0; k < 60 && len(set) < 40; k++ {
		hi := n + 2
		if k%2 == 0 && hi > 64 {
			hi = 64
		}
		if hi < 3 {
			hi = 3
		}
		set[2+rng.Intn(hi-1)] = true
	}
	var s []int
	for b := range set {
		s = append(s, b)
	}
	sort.Ints(s)
	return s
}

var c01Transports = []string{"bytes", "pipe", "one", "gz"}

func c01SplitOf(kind string) string {
	switch kind {
	case "fa", "fq":
		return kind
	}
	return "ff"
}

func c01Opts(rng *rand.Rand, kind string) string {
	switch kind {
	case "fa":
		return "fa"
	case "fq":
		return []string{"fq1", "fq1", "fq0"}[rng.Intn(3)]
	default:
		return kind + strconv.Itoa(rng.Intn(2))
	}
}

func (c01) Gen(rng *rand.Rand, tier string, emit func(string)) {
	h := func(s string) string { return hx([]byte(s)) }
	// glue pass (c01_glue.go): several input files through ReadSequencesBatchFromFiles / CLIReadBioSequences / the real
	// binaries.  Own PRNG stream derived from -seed (the older cases keep their values); the subprocess cases run in the background while
	// the in-process cases run one at a time, their lines are emitted last
	{
		glueSeed := int64(1)
		for i, a := range os.Args {
			if v := strings.TrimPrefix(strings.TrimPrefix(a, "-"), "-seed="); v != a && v != strings.TrimPrefix(a, "-") {
				glueSeed, _ = strconv.ParseInt(v, 10, 64)
			} else if (a == "-seed" || a == "--seed") && i+1 < len(os.Args) {
				glueSeed, _ = strconv.ParseInt(os.Args[i+1], 10, 64)
			}
		}
		glueIn, glueCmd := c01GlueGen(rand.New(rand.NewSource(glueSeed*7919+101)), tier)
		go func() {
			c01RepoCommand("obiconvert")
			c01RepoCommand("obigrep")
			c01CmdPrefetch(glueCmd)
		}()
		emit0 := emit
		defer func() {
			for _, l := range glueIn {
				emit0(l)
			}
			for _, l := range glueCmd {
				emit0(l)
			}
		}()
	}
	// corpus: hand-picked cases
	gb2 := "LOCUS       AB1 8 bp    DNA\nDEFINITION  first.\nSOURCE      Homo sapiens\nFEATURES             Location/Qualifiers\n     source          1..8\n                     /db_xref=\"taxon:9606\"\nORIGIN\n        1 acgtacgt\n//\n" +
		"LOCUS       CD2 4 bp    DNA\nDEFINITION  second.\nFEATURES             Location/Qualifiers\n     source          1..4\nORIGIN\n        1 ttga\n//\n"
	em2 := "ID   AB1; SV 1; linear; mRNA; STD; PLN; 8 BP.\nDE   first.\nOS   Homo sapiens\nFH   Key             Location/Qualifiers\nFH\nFT   source          1..8\nFT                   /db_xref=\"taxon:9606\"\nSQ   Sequence 8 BP;\n     acgtacgt         8\n//\n" +
		"DE   second, without ID line.\nFH   Key             Location/Qualifiers\nFH\nFT   source          1..4\nSQ   Sequence 4 BP;\n     ttga         4\n//\n"
	em2b := strings.Replace(em2, "DE   second, without ID line.", "ID   CD2; SV 1;\nDE   second.", 1)
	fq3 := "@a d1\nACGT\n+\n@III\n@b\nGG\n+b\n+I\n@c x\nT\n+\n@\n"
	for _, c := range []string{
		// D1: the second record has no taxon cross-reference / SOURCE line
		"parse gb0 " + h(gb2), "pipe gb0 64 2 bytes " + h(gb2), "pipe gb0 400 1 bytes " + h(gb2),
		"parse em0 " + h(em2b), "pipe em0 64 2 bytes " + h(em2b), "pipe em1 500 1 pipe " + h(em2b),
		// D2: qualities not requested
		"parse fq0 " + h(fq3), "pipe fq0 8 2 bytes " + h(fq3), "pipe fq0 100 1 bytes " + h(fq3), "pipe fq1 8 3 one " + h(fq3),
		// D3: multi-chunk GenBank / EMBL through the real readers (128 MiB buffer), 2 workers
		"big gb0 2 bytes 1065 1", "big em0 3 bytes 1065 1",
		"big fa 3 bytes 30000 1", "big fq1 4 pipe 20000 2", "big fq0 2 gz 20000 3", "big fa 2 gz 25000 4",
		// empty / tiny inputs
		"chunks fa 2 -", "chunks fq 5 -", "chunks ff 3 -", "pipe fa 4 2 bytes -", "pipe fa 4 1 gz -",
		"chunks fa 2 0a0a0a", "chunks fa 2 " + h(">a\nA"), "chunks fa 3 " + h("\n>a\nA\n>b\nC"), "chunks fa 2 " + h("x\n>a\nA\n>b\nC\n\n"),
		"split fa " + h("\n>"), "split fa " + h("a\n>"), "split fa " + h(">a\nAC\n>>b\nG"), "split fa " + h(">a\nAC\r>b"), "split fa -",
		"split fq " + h("@a\nAC\n+\nII\n@b\nGG\n+\n@+\n@c\nT"), "split fq " + h("x\n@a\nAC\n+\nII"), "split fq " + h("@a\nAC\n+\nII"), "split fq -",
		"split fq " + h("@a\nAC\n+a\n@I\n@b\nGG\n+\n+I\n"), "split fq " + h("@a\nAC\n+AC\n@I\n@b\nGG\n+GG\nAA\n@c\nTT\n+\n"),
		"split ff " + h("a\n//\n"), "split ff " + h("ab\n//\nxx"), "split ff " + h("ab\r\n//\r\nxx"), "split ff " + h("ab\n//\n\n"), "split ff " + h("\n//\n"), "split ff -",
		"parse fa " + h(">"), "parse fa -", "parse fa " + h("> a\nA"), "parse fa " + h(">a\n>b\nA"), "parse fa " + h(">a\nA>C"), "parse fa " + h(">a b  c \r\nAC GT\r\n\r\n>b\nN-.[]x"),
		"parse fa " + h(">a\n1"), "parse fa " + h(">a d"), "parse fa " + h("a>"), "parse fa " + h(">a\tb\nAc\n>b \nG"),
		"parse fq1 " + h("@a\nAC\n+\nI"), "parse fq1 " + h("@a\nAC\n+\nII\nx"), "parse fq1 " + h("@a\n1C\n+\nII"), "parse fq1 " + h("@a\nAC\nII"), "parse fq1 " + h("@a\nAC\n+\n"), "parse fq1 " + h("@a\nAC"), "parse fq1 " + h("@ a\nAC\n+\nII"), "parse fq1 -",
		"parse fq1 " + h("@a\nAC\n+\n\x1f\x10"), "parse fq0 " + h("@a\nAC\n+\nI"),
		"parse gb0 " + h("//\n"), "parse gb0 " + h("LOCUS       A 1 bp\nORIGIN\n"), "parse gb0 -", "parse gb0 " + h("LOCUS       A 1 bp\nFEATURES    x\nORIGIN\nshort\n//\n"),
		"parse gb1 " + h("LOCUS       A 1 bp\nDEFINITION   a  \n             b\nXX\nFEATURES    x\n                     /db_xref=\"taxon:12x\"\nCONTIG      join(x)\n//"),
		"parse gb0 " + h("LOCUS       A 1 bp\nFEATURES    x\n                     /db_xref=\"taxon:99999999999999999999\"\nORIGIN\n        1 ac gt a b c d e f g\n//"),
		"parse gb0 " + h("LOCUS       A 1 bp\nFEATURES    x\n                     /db_xref=\"taxon:-12\"\nORIGIN\n//\nLOCUS        1 bp\nFEATURES    x\n                     /db_xref=\"taxon:+7\nORIGIN\n//"),
		"parse em0 " + h("//"), "parse em0 -", "parse em1 " + h("ID   A;B\nFH   k\nFH\nFT   x\nFT                   /db_xref=\"taxon:\"\n     ac gt\n     acgt       4\n//\n//"),
		// known finding C01-kseq-isspace-title: VT / FF in a title (kseq splits with isspace())
		"kseq fa " + h(">a\vb c\nACGT\n"), "kseq fa " + h(">a\fb c\nACGT\n>x y\fz\nGG\n"), "kseq fq " + h("@a\vb c\nACGT\n+\nIIII\n"), "kseq fq " + h("@r1\f\nAC\n+\nII\n"),
		"kseq fa " + h(">a b\vc\nACGT\n"), // VT after the first blank: both readers agree
		"kseq fa " + h(">a d e\nACGT\nAC\n>b\nGG\n"), "kseq fa " + h(">c d\r\nACGT\r\n"), "kseq fa " + h(">c  d \t>e\r\nAC GT\r\n\r\n>x\nA\n"), "kseq fq " + h("@a d\nACGT\n+\n@+II\n@b\nGG\n+\n+I\n"),
	} {
		emit(c)
	}

	// ---- bufio limits: lines around 100 / 4096 bytes (GenBank ReadLine), around 65536 bytes (EMBL Scanner), long
	// title / sequence / quality lines through the 4096-byte bufio.Reader of the FASTA / FASTQ parsers
	rep := strings.Repeat
	emRec := func(id, extra string) string {
		return "ID   " + id + "; SV 1;\n" + extra + "DE   d " + id + "\nSQ   Sequence 4 BP;\n     acgt         4\n//\n"
	}
	emLens := []int{65535, 65536, 65537}
	if tier == "thorough" {
		// every thorough seed runs 65536 and four other lengths (the seeds together cover the list)
		all := []int{4096, 65533, 65534, 65535, 65537, 65538, 70001, 131072}
		rng.Shuffle(len(all), func(i, j int) { all[i], all[j] = all[j], all[i] })
		emLens = append([]int{65536}, all[:4]...)
	}
	for _, n := range emLens {
		long := "CC   " + rep("x", n-5) // a line of n bytes
		stat("long-line:em")
		for vi, f := range []string{
			emRec("A", "") + emRec("B", long+"\n") + emRec("C", ""),           // inside the second record
			emRec("A", "") + emRec("B", long[:n-1]+"\r\n") + emRec("C", ""),  // n-1 bytes + CR LF
			emRec("A", "") + long,                                              // unterminated last line
			long + "\n" + emRec("A", ""),                                      // first line
			emRec("A", "") + emRec("B", "") + "\n" + long + "\n" + emRec("C", ""), // between records
			// many records after the long line: with a 1000-byte buffer a cut falls among them, the later ones are then
			// delivered, the one-chunk parse delivers none of them (chunk dependence outside the well-formed files)
			emRec("A", "") + emRec("B", long+"\n") + func() string {
				t := ""
				for k := 0; k < 40; k++ {
					t += emRec("C"+strconv.Itoa(k), "")
				}
				return t
			}(),
		} {
			if tier != "thorough" && vi >= 3 && n != 65536 {
				continue
			}
			emit("parse em" + strconv.Itoa(vi%2) + " " + h(f))
			for _, b := range []int{5000 - 4000*(vi/5), 65536, len(f) + 2} {
				emit(fmt.Sprintf("pipe em%d %d %d bytes %s", (vi+1)%2, b, 1+vi%3, h(f)))
			}
			emit(fmt.Sprintf("chunks ff %d %s", 40000, h(f)))
		}
	}
	gbLens := []int{99, 100, 101, 4095, 4096, 4097}
	if tier == "thorough" {
		gbLens = []int{88, 99, 100, 101, 102, 4094, 4095, 4096, 4097, 4098, 8192, 9000, 70000}
	}
	for _, n := range gbLens {
		stat("long-line:gb")
		pad := func(pfx string) string { return pfx + rep("x", n-len(pfx)) }
		gbRec := func(id, c1, c2, c3 string) string {
			return "LOCUS       " + id + " 4 bp\n" + c1 + "DEFINITION  d " + id + ".\n" + c2 + "FEATURES             Location/Qualifiers\n" + c3 + "ORIGIN\n        1 acgt\n//\n"
		}
		for vi, f := range []string{
			gbRec("A", "", "", "") + gbRec("B", pad("COMMENT     ")+"\n", "", "") + gbRec("C", "", "", ""),
			gbRec("A", "", "", "") + gbRec("B", "", pad("            ")+"\n", "") + gbRec("C", "", "", ""),       // continuation of DEFINITION
			gbRec("A", "", "", "") + gbRec("B", "", "", pad("     misc_feature    ")+"\r\n") + gbRec("C", "", "", ""), // feature line + CR LF
			gbRec("A", "", "", "") + pad("COMMENT     "),                                                    // unterminated last line
			gbRec("A", "", "", "") + "LOCUS       B 4 bp\nFEATURES    x\nORIGIN\n" + pad("        1 ") + "\n//\n", // sequence line
			gbRec("A", "", "", "") + "LOCUS       B 4 bp\nFEATURES    x\nORIGIN\n" + pad("        1 ")[:n-1] + "\r\n//\r\n",
		} {
			emit("parse gb" + strconv.Itoa(vi%2) + " " + h(f))
			emit(fmt.Sprintf("pipe gb%d %d %d bytes %s", (vi+1)%2, 64, 1+vi%3, h(f)))
			emit(fmt.Sprintf("pipe gb%d %d %d pipe %s", vi%2, len(f)+2, 2, h(f)))
		}
	}
	// (the Lean model appends byte by byte: quadratic in the line length, hence nothing beyond 3 x 4096 here)
	fxLens := []int{4095, 4096, 4097}
	if tier == "thorough" {
		all := []int{20, 4094, 4095, 4097, 4098, 8191, 8192, 8193, 12289}
		rng.Shuffle(len(all), func(i, j int) { all[i], all[j] = all[j], all[i] })
		fxLens = append([]int{4096}, all[:3]...)
	}
	for _, n := range fxLens {
		stat("long-line:fa+fq")
		sq := rep("acgtn", n/5+1)[:n]
		ql := rep("@+I5>", n/5+1)[:n]
		fa := ">a " + rep("d", n) + "\n" + sq + "\n>b\nAC\n" + sq[:n/2] + "\n>" + rep("i", n) + "\r\nGG\r\n"
		fq := "@a " + rep("d", n) + "\n" + sq + "\n+\n" + ql + "\n@b\nAC\n+" + rep("p", n) + "\n@+\n@" + rep("i", n) + "\r\nGG\r\n+\r\n@@\r\n"
		emit("parse fa " + h(fa))
		emit("parse fq1 " + h(fq))
		for _, b := range []int{4096, len(fq) + 2} {
			emit(fmt.Sprintf("pipe fa %d 2 bytes %s", b, h(fa)))
			emit(fmt.Sprintf("pipe fq1 %d 3 pipe %s", b, h(fq)))
		}
		emit("kseq fa " + h(fa))
		emit("kseq fq " + h(fq))
	}
	// ---- strings.TrimSpace on every white-space rune and on look-alikes, at both ends of DEFINITION / SOURCE / DE / OS
	for i, tkn := range append(append([]string{}, c01SpaceRunes...), c01NotSpace...) {
		v := tkn + tkn + "a " + tkn + " b" + tkn
		gb := "LOCUS       A 4 bp\nDEFINITION  " + v + "\n            " + tkn + "\n            " + v + "\nSOURCE      " + v + tkn + "\nFEATURES             Location/Qualifiers\nORIGIN\n        1 acgt\n//\n"
		em := "ID   A; SV 1;\nDE   " + v + "\nDE   x" + tkn + "\nOS   " + tkn + v + "\nSQ   Sequence 4 BP;\n     acgt         4\n//\n"
		emit("parse gb" + strconv.Itoa(i%2) + " " + h(gb))
		emit("parse em" + strconv.Itoa(i%2) + " " + h(em))
		emit(fmt.Sprintf("pipe gb0 %d 2 bytes %s", 16+i, h(gb+gb)))
		emit(fmt.Sprintf("pipe em1 %d 2 one %s", 16+i, h(em+em)))
		// the same bytes inside FASTA / FASTQ titles: plain bytes (only blank and tab separate id and definition)
		emit("parse fa " + h(">i"+tkn+"d "+tkn+"e"+tkn+"\nAC\n>"+tkn+"\nG\n"))
		emit("parse fq1 " + h("@i"+tkn+"d\t"+tkn+"e"+tkn+"\nAC\n+\nII\n"))
	}
	// empty sequences, records without sequence line, title only
	for _, c := range []string{
		"parse fa " + h(">a\nAC\n>b\n"), "parse fa " + h(">a\n\n>b\nAC\n"), "parse fa " + h(">a\n"), "pipe fa 4 2 bytes " + h(">a\nAC\n>b\n\n>c\nG\n"),
		"parse fq1 " + h("@a\n\n+\n\n"), "parse fq1 " + h("@a\nAC\n+\nII\n@b\n\n+\n\n"), "pipe fq1 6 2 bytes " + h("@a\nAC\n+\nII\n@b\n\n+\n\n@c\nG\n+\nI\n"),
		"parse gb0 " + h("LOCUS       A 0 bp\nFEATURES    x\nORIGIN\n//\n"), "parse gb1 " + h("LOCUS       A 0 bp\nFEATURES    x\nCONTIG      join(B:1..4)\n//\nLOCUS       B 4 bp\nFEATURES    y\nORIGIN\n        1 acgt\n//\n"),
		"pipe gb1 20 3 bytes " + h("LOCUS       A 0 bp\nFEATURES    x\nCONTIG      join(B:1..4,\n            C:1..9)\n//\nLOCUS       B 4 bp\nFEATURES    y\nORIGIN\n        1 acgt\n//\n"),
		"parse em0 " + h("ID   A;\nSQ   Sequence 0 BP;\n//\n"), "parse em1 " + h("ID   A;\nFH   Key\nFH\nFT   source 1..4\nCO   join(B:1..4)\n//\n"),
	} {
		emit(c)
	}

	// ---- format sniffing (Ropen + OBIMimeTypeGuesser): first bytes that decide, BOM, tiny files, look-alikes
	fqLong := func(n int) string { return "@r1 long read\n" + rep("ACGT", n/4) + "\n+\n" + rep("I", n/4*4) + "\n" }
	// one read of exactly n nucleotides after the given title line, then a second short record
	fqEdge := func(title, eol string, n int) string {
		return title + eol + rep("ACGT", n/4+1)[:n] + eol + "+" + eol + rep("I5@+", n/4+1)[:n] + eol + "@r2" + eol + "AC" + eol + "+" + eol + "II" + eol
	}
	gbLongSeq := func(lines int) string {
		t := ""
		for i := 0; i < lines; i++ {
			t += fmt.Sprintf("%9d ", 1+60*i) + rep("acgtacgtac ", 6)[:65] + "\n"
		}
		return t
	}
	emLongSeq := func(lines int, eol string) string {
		t := ""
		for i := 0; i < lines; i++ {
			t += "     " + rep("acgtacgtac ", 6) + fmt.Sprintf("%9d", 60*(i+1)) + eol
		}
		return t
	}
	for _, c := range []string{
		"\xef\xbb\xbf>a d\nACGT\n", "\xef\xbb\xbf@a\nAC\n+\nII\n", "\xef\xbb\xbfID   A; SV 1;\n//\n", ">", ">a", "> a\nAC\n", ">\nAC\n", "@", "@a", "@a\nAC\n", "@a\nAC\n+",
		"@ a\nAC\n+\nII\n", "@a\n\nAC\n+\nII\n", "@a\nA C\n+\nII\n", "@a\r\nAC\r\n+\r\nII\r\n", "@a\rAC\r+\rII\r", "@a b\nAC\n\n+\nII\n",
		"@HD\tVN:1.6\tSO:coordinate\n@SQ\tSN:chr1\tLN:1000\n", "ID", "ID   ", "ID  A;\n//\n", "ID   A; SV 1;\nXX\n//\n", "LOCUS", "LOCUS       ", "LOCUS      A 4 bp\n",
		"LOCUS       A 4 bp\nFEATURES    x\nORIGIN\n        1 acgt\n//\n", "GBPLN1.SEQ          Genetic Sequence Data Bank\n                          October 15 2023\n\nLOCUS       A 4 bp\n",
		"GBPLN1.SEQ Genetic Sequence Data Bank  \n", "GBPLN1.SEQ Genetic Sequence Data Bank x\n", "a b Genetic Sequence Data Bank\n", " Genetic Sequence Data Bank\n", "GenBank\nx Genetic Sequence Data Bank\n",
		"#@ecopcr-v2\n# x\n", "#@ecopcr-v1\n", "a,b\n1,2\n3,4\n", "id,seq\n", "\n>a\nAC\n", " >a\nAC\n", "x", "\x1f", "\x1f\x8b", "BZ", "BZh", "\x28\xb5\x2f", "\xfd7zXZ",
		">a <svg x\nACGT\n", ">a <?xml x\nACGT\n", ">a <html>\nACGT\n", "@a {\"x\":1}\nAC\n+\nII\n",
		fqLong(2000), fqLong(3040), fqLong(3052), fqLong(3056), fqLong(3060), fqLong(3072), fqLong(3100), fqLong(5000),
		">" + rep("t", 4000) + "\nACGT\n",
		// the end of the 3072-byte window falls on every position around the line feed of the sequence line, of the
		// title line, and around the `+` (patch C01-fastq-sniff-window-edge): read lengths 3062..3070 after a 4-byte
		// title line, the same with CR LF, with CR CR LF, with a blank after the title
		fqEdge("@r1", "\n", 3062), fqEdge("@r1", "\n", 3063), fqEdge("@r1", "\n", 3064), fqEdge("@r1", "\n", 3065), fqEdge("@r1", "\n", 3066),
		fqEdge("@r1", "\n", 3067), fqEdge("@r1", "\n", 3068), fqEdge("@r1", "\n", 3069), fqEdge("@r1", "\n", 3070),
		fqEdge("@r1", "\r\n", 3062), fqEdge("@r1", "\r\n", 3063), fqEdge("@r1", "\r\n", 3064), fqEdge("@r1", "\r\n", 3065), fqEdge("@r1", "\r\n", 3066), fqEdge("@r1", "\r\n", 3067),
		fqEdge("@r1", "\r\r\n", 3062), fqEdge("@r1", "\r\r\n", 3063), fqEdge("@r1 x y", "\n", 3063), fqEdge("@r1 x y", "\n", 3064),
		// title line whose line feed is the last byte of the window / the first byte outside / far outside (the
		// last two are not recognised: the expression needs the line feed of the title line; hypothesis FqSniffOK)
		fqEdge("@"+rep("t", 3069), "\n", 8), fqEdge("@"+rep("t", 3070), "\n", 8), fqEdge("@"+rep("t", 3071), "\n", 8), fqEdge("@"+rep("t", 3068), "\r\n", 8), fqEdge("@"+rep("t", 3069), "\r\n", 8), fqEdge("@"+rep("t", 4000), "\n", 8),
		// first record longer than the window, the three other formats
		">" + rep("t", 3070) + "\nACGT\n", ">a\n" + rep("ACGT", 2000) + "\n>b\nAC\n", ">a\n" + rep(rep("ACGT", 15)+"\n", 100) + ">b\nAC\n",
		"LOCUS       A 8000 bp\nDEFINITION  long first entry.\nFEATURES             Location/Qualifiers\nORIGIN\n" + gbLongSeq(140) + "//\nLOCUS       B 4 bp\nFEATURES    x\nORIGIN\n        1 acgt\n//\n",
		"LOCUS       A 8000 bp\nCOMMENT     " + rep("c", 80) + "\n" + rep("            "+rep("c", 80)+"\n", 60) + "FEATURES             Location/Qualifiers\nORIGIN\n        1 acgt\n//\n",
		"ID   A; SV 1; linear; mRNA; STD; PLN; 8000 BP.\nDE   long first entry.\n" + rep("CC   "+rep("c", 70)+"\n", 60) + "SQ   Sequence 8 BP;\n     acgtacgt         8\n//\nID   B; SV 1;\nSQ   Sequence 4 BP;\n     acgt         4\n//\n",
		"ID   A; SV 1;\r\nSQ   Sequence 8000 BP;\r\n" + emLongSeq(140, "\r\n") + "//\r\n",
		// order of the questions (mimetype's Extend prepends: csv, embl, genbank, ecopcr2, fastq, fasta, then the
		// built-in detectors): an EMBL file whose ID value is the banner of a GenBank release file is EMBL; a FASTA /
		// FASTQ file with the banner as a definition inside the window is GenBank (hypothesis NoBanner); text that a
		// built-in detector would claim (html, xml, json, php) after a `>` / `@` title stays FASTA / FASTQ
		">a Genetic Sequence Data Bank\nACGT\n", ">a\nACGT\n>b  Genetic Sequence Data Bank  \nGG\n", "@a Genetic Sequence Data Bank\nACGT\n+\nIIII\n", "@a\nAC\n+\nII\n@b Genetic Sequence Data Bank\nGG\n+\nII\n",
		">a Genetic Sequence Data Bank x\nACGT\n", ">a\n" + rep("ACGT", 800) + "\n>b Genetic Sequence Data Bank\nGG\n",
		"LOCUS       A 4 bp Genetic Sequence Data Bank\nFEATURES    x\nORIGIN\n        1 acgt\n//\n", "#@ecopcr-v2 Genetic Sequence Data Bank\n", "ID   #@ecopcr-v2\n//\n",
		"><html><body>\nACGT\n", "@<?xml version=\"1.0\"?>\nAC\n+\nII\n", "><?php\nACGT\n", "@{\"a\":1}\nAC\n+\nII\n",
		// before patch C01-sniff-csv-asked-last the csv detector was asked first: FASTQ / FASTA files it claimed (quoted
		// field spanning the record; JSON annotations with commas and quoted keys as obiconvert writes them)
		"@r1 {\"count\":2,\"merged_sample\":{\"a\":1,\"b\":1}}\nACGT\n+\nIIII\n@r2 {\"count\":1,\"merged_sample\":{\"a\":1,\"b\":1}}\nGGCA\n+\nIIII\n",
		">r1 {\"count\":2,\"x\":\"y\"}\nACGT\n>r2 {\"count\":1,\"x\":\"z\"}\nGGCA\n",
		"@a,\"b\nACGT\n+\nI\",I\n@c,\"d\nACGT\n+\nI\",I\n", "@a,b\nACGT\n+\nIIII\n", ">a,b\nACGT\n>c,d\nGG\n", "ID   A,B\nXX   C,D\n",
		"ID   Genetic Sequence Data Bank\nSQ   Sequence 4 BP;\n     acgt         4\n//\n", "ID     Genetic Sequence Data Bank  \nSQ   Sequence 4 BP;\n     acgt         4\n//\n",
		"ID   Genetic Sequence Data Bank;\nSQ   Sequence 4 BP;\n     acgt         4\n//\n", "ID   Genetic Sequence Data Ban\nSQ   Sequence 4 BP;\n     acgt         4\n//\n", "ID   \nSQ   Sequence 4 BP;\n     acgt         4\n//\n",
	} {
		emit("sniff plain " + h(c))
		if len(c) > 2 && len(c) < 200 {
			emit("sniff gz " + h(c))
		}
	}

	type plan struct {
		kind     string
		files    int
		maxrec   int
		compact  bool
		everyCap int // thorough: every size when len <= everyCap
		small    bool // thorough: family of small files, lay-out forced (LF / CR LF / mixed x 0..2 final line ends)
	}
	plans := []plan{{"fa", 22, 6, false, 400, false}, {"fq", 22, 6, false, 400, false}, {"gb", 8, 4, false, 0, false}, {"em", 8, 4, false, 0, false}, {"gb", 4, 3, true, 700, false}, {"em", 4, 3, true, 700, false}}
	if tier == "thorough" {
		// the `small` plans: 9 files per format and seed (6 seeds: 54 per format), 1..3 records, the nine lay-outs
		// LF / CR LF / mixed x missing final newline / one / two final line ends, EVERY buffer size 2..len+2
		plans = []plan{{"fa", 24, 6, false, 400, false}, {"fq", 24, 6, false, 400, false}, {"gb", 6, 5, false, 0, false}, {"em", 6, 5, false, 0, false}, {"gb", 5, 3, true, 700, false}, {"em", 5, 3, true, 700, false},
			{"fa", 9, 3, true, 1000, true}, {"fq", 9, 3, true, 1000, true}, {"gb", 9, 2, true, 800, true}, {"em", 9, 2, true, 800, true}}
	}
	k := 0
	for _, pl := range plans {
		for fi := 0; fi < pl.files; fi++ {
			nrec := rng.Intn(pl.maxrec + 1)
			if fi%5 != 0 && nrec < 2 {
				nrec = 2 + rng.Intn(pl.maxrec-1)
			}
			c01ExoticTitles = fi%3 == 2
			if pl.small {
				nrec = 1 + (fi+rng.Intn(3))%pl.maxrec
				c01StyleOverride = fi
				c01ExoticTitles = false
			}
			data := c01GenFile(rng, pl.kind, nrec, pl.compact)
			c01StyleOverride = -1
			exotic := c01ExoticTitles
			c01ExoticTitles = false
			hexd := hx(data)
			sp := c01SplitOf(pl.kind)
			emit("parse " + c01Opts(rng, pl.kind) + " " + hexd)
			for j := 0; j < 4 && len(data) > 0; j++ {
				emit("split " + sp + " " + hx(data[:1+rng.Intn(len(data))]))
			}
			every := tier == "thorough" && len(data) <= pl.everyCap
			if every {
				stat("every-size-file:" + pl.kind)
				if pl.small {
					stat("every-size-small-file:" + pl.kind)
				}
			}
			for _, b := range c01Sizes(rng, tier, len(data), every) {
				emit(fmt.Sprintf("chunks %s %d %s", sp, b, hexd))
				emit(fmt.Sprintf("pipe %s %d %d %s %s", c01Opts(rng, pl.kind), b, 1+k%4, c01Transports[(k/4)%4], hexd))
				k++
			}
			if (pl.kind == "fa" || pl.kind == "fq") && !exotic {
				emit("kseq " + pl.kind + " " + hexd)
			}
			// the universal entry point on a real file (format sniffing, opener, real buffers); the flat-file readers
			// allocate 128 MiB per call: one file per plan (thorough: two)
			if len(data) > 0 && (pl.kind == "fa" || pl.kind == "fq" || fi < 1 || (fi < 2 && tier == "thorough")) {
				emit("file " + map[string]string{"fa": "fa", "fq": "fq1", "gb": "gb0", "em": "em0"}[pl.kind] + " " + []string{"plain", "gz"}[fi%2] + " " + hexd)
			}
			// format sniffing on every generated file, plain and gzip alternately
			if len(data) > 0 {
				emit("sniff " + []string{"plain", "gz"}[(fi+1)%2] + " " + hexd)
			}
			// paired reading: a mate file with the same number of records
			if pl.kind == "fq" && nrec > 0 && fi%3 == 0 {
				emit("pair " + hexd + " " + hx(c01GenFastq(rng, nrec)))
			}
		}
	}
	// malformed stream: mutated well-formed files and small-alphabet noise (model tie on every branch incl. fatal/panic)
	nm := 250
	if tier == "thorough" {
		nm = 1200
	}
	for i := 0; i < nm; i++ {
		kind := []string{"fa", "fq", "gb", "em"}[i%4]
		alpha := map[string]string{"fa": ">>\n\n\r aC1", "fq": "@@++\n\n\r aC1I", "gb": "/\n\n\r aL\"", "em": "/\n\n\r aI;"}[kind]
		var data []byte
		if rng.Intn(3) == 0 {
			data = []byte(c01Pick(rng, alpha, rng.Intn(30)))
		} else {
			data = c01Mutate(rng, c01GenFile(rng, kind, 1+rng.Intn(3), true), alpha)
		}
		hexd := hx(data)
		sp := c01SplitOf(kind)
		emit("split " + sp + " " + hexd)
		emit("parse " + c01Opts(rng, kind) + " " + hexd)
		for j := 0; j < 3; j++ {
			b := 2 + rng.Intn(len(data)+3)
			emit(fmt.Sprintf("chunks %s %d %s", sp, b, hexd))
			if j == 0 {
				emit(fmt.Sprintf("pipe %s %d %d bytes %s", c01Opts(rng, kind), b, 1+rng.Intn(3), hexd))
			}
		}
		if i%3 == 0 && len(data) > 0 {
			emit("sniff plain " + hexd)
		}
	}
	if tier == "thorough" {
		emit(fmt.Sprintf("big fa %d pipe %d %d", 1+rng.Intn(4), 25000+rng.Intn(20000), rng.Intn(1000)))
		emit(fmt.Sprintf("big fq1 %d one %d %d", 1+rng.Intn(4), 5000+rng.Intn(5000), rng.Intn(1000)))
		emit(fmt.Sprintf("big fq0 %d bytes %d %d", 2+rng.Intn(3), 20000+rng.Intn(20000), rng.Intn(1000)))
		emit(fmt.Sprintf("big gb0 %d bytes %d %d", 2+rng.Intn(3), 1062+rng.Intn(40), rng.Intn(1000)))
		emit(fmt.Sprintf("big em0 %d gz %d %d", 2+rng.Intn(3), 1062+rng.Intn(40), rng.Intn(1000)))
	}
}

// ---------------------------------------------------------------------------------------------
// Exec

func c01IsEol(c byte) bool { return c == '\n' || c == '\r' }

func (c01) Exec(c string) (string, []Fail) {
	w := strings.Fields(c)
	if len(w) < 2 {
		return "bad-op", nil
	}
	op := w[0]
	var fails []Fail
	fail := func(sig, format string, a ...any) {
		fails = append(fails, Fail{Sig: op + "." + sig, Text: fmt.Sprintf(format, a...)})
	}
	atoi := func(s string) int {
		n, err := strconv.Atoi(s)
		if err != nil {
			return -1
		}
		return n
	}
	switch op {
	case "split":
		if len(w) != 3 || c01Splitter(w[1]) == nil {
			return "bad-op", nil
		}
		data, ok := unhx(w[2])
		if !ok {
			return "bad-op", nil
		}
		stat("op:split:" + w[1])
		r := -99
		res := guardT(5*time.Second, func() string { r = c01Splitter(w[1])(data); return strconv.Itoa(r) })
		caseTrivial = len(data) == 0
		if res == strconv.Itoa(r) {
			// contract of every splitter: -1 or a cut position in [1, len]
			if !(r == -1 || (r >= 1 && r <= len(data))) {
				fail(w[1]+".range", "splitter returned %d for a %d-byte buffer", r, len(data))
			}
			if r >= 1 {
				switch w[1] {
				case "fa":
					if !(r < len(data) && data[r] == '>' && c01IsEol(data[r-1])) {
						fail("fa.not-record-start", "offset %d is not a '>' at a line start", r)
					}
				case "fq":
					if !(r < len(data) && data[r] == '@' && c01IsEol(data[r-1])) {
						fail("fq.not-line-start", "offset %d is not a '@' at a line start", r)
					}
				case "ff":
					if !(bytes.HasSuffix(data[:r], []byte("\n//\n")) || bytes.HasSuffix(data[:r], []byte("\n//\r\n"))) {
						fail("ff.not-record-end", "offset %d does not follow an end-of-record line", r)
					}
				}
			}
		}
		return res, fails

	case "chunks":
		if len(w) != 4 || c01Splitter(w[1]) == nil || atoi(w[2]) < 2 {
			return "bad-op", nil
		}
		data, ok := unhx(w[3])
		if !ok {
			return "bad-op", nil
		}
		stat("op:chunks:" + w[1])
		var chunks [][]byte
		numbered := true
		res := guardT(5*time.Second, func() string {
			chunks, numbered = c01Chunks(w[1], atoi(w[2]), bytes.NewReader(data))
			return c01ShowChunks(chunks)
		})
		caseTrivial = len(chunks) < 2
		if len(chunks) >= 2 {
			stat("multi-chunk")
		}
		if res == "hang" || res == "fatal" || res == "panic" {
			fail(w[1]+"."+res, "ReadSeqFileChunk: %s", res)
			return res, fails
		}
		if !numbered {
			fail(w[1]+".numbering", "chunks are not numbered 0,1,2,…")
		}
		// the chunk texts, in order, are the file minus end-of-line runs
		p := 0
		for i, ch := range chunks {
			if len(ch) == 0 {
				fail(w[1]+".empty-chunk", "chunk %d is empty", i)
			}
			for !bytes.HasPrefix(data[p:], ch) && p < len(data) && c01IsEol(data[p]) {
				p++
			}
			if !bytes.HasPrefix(data[p:], ch) {
				fail(w[1]+".reassemble", "chunk %d is not the next piece of the file at offset %d", i, p)
				break
			}
			p += len(ch)
		}
		if len(fails) == 0 {
			for ; p < len(data); p++ {
				if !c01IsEol(data[p]) {
					fail(w[1]+".reassemble", "bytes after offset %d are in no chunk", p)
					break
				}
			}
		}
		return res, fails

	case "parse":
		f, okf := c01Format(w[1])
		if len(w) != 3 || !okf {
			return "bad-op", nil
		}
		data, ok := unhx(w[2])
		if !ok {
			return "bad-op", nil
		}
		stat("op:parse:" + w[1])
		out, recs := c01Parse(f, data)
		want, wf := c01Ref(f, data)
		if wf && len(data) > 0 && data[len(data)-1] == '\r' {
			// a text ending with a lone CR is not something the reader hands to a chunk parser (ReadSeqFileChunk strips the
			// end-of-line bytes at the end of every chunk; the real commands read such a file correctly): the reference
			// grammar's verdict on it is not applied to the bare parser (alarm of the thorough sweep, seed 2: "//\r" at the
			// very end of a GenBank text makes the bare parser index a 3-byte line)
			stat("parse-ends-with-lone-cr")
			wf = false
		}
		if wf && len(want) > 0 {
			stat("parse-wellformed")
			if out != "" {
				fail(w[1]+".rejected", "well-formed input: parser outcome %s", out)
			} else if d := c01Diff(recs, want); d != "" {
				fail(w[1]+".content."+d, "records differ from what each record's own text implies (%s): got %s want %s", d, c01Show(recs), c01Show(want))
			}
		} else {
			caseTrivial = len(data) == 0
		}
		if out != "" {
			return out, fails
		}
		return c01Show(recs), fails

	case "pipe":
		f, okf := c01Format(w[1])
		if len(w) != 6 || !okf || atoi(w[2]) < 2 || atoi(w[3]) < 1 || atoi(w[3]) > 8 {
			return "bad-op", nil
		}
		data, ok := unhx(w[5])
		if !ok {
			return "bad-op", nil
		}
		if _, okt := c01Transport(w[4], nil); !okt {
			return "bad-op", nil
		}
		bufsz, workers := atoi(w[2]), atoi(w[3])
		stat("op:pipe:" + w[1])
		stat("transport:" + w[4])
		stat("workers:" + w[3])
		// sequential pass: chunk reader over the transport, each chunk through the chunk parser (also protects the
		// concurrent run below from a panic inside a worker goroutine, which nothing could recover)
		var chunks [][]byte
		res := guardT(5*time.Second, func() string {
			rd, _ := c01Transport(w[4], data)
			chunks, _ = c01Chunks(f.split, bufsz, rd)
			return ""
		})
		if res != "" {
			fail(w[1]+".chunker."+res, "ReadSeqFileChunk over transport %s: %s", w[4], res)
			return res, fails
		}
		plain, _ := c01Chunks(f.split, bufsz, bytes.NewReader(data))
		if c01ShowChunks(plain) != c01ShowChunks(chunks) {
			fail(w[1]+".transport", "chunks over transport %s differ from chunks over a bytes.Reader", w[4])
		}
		var seq []c01Rec
		outcome := ""
		for _, ch := range chunks {
			o, r := c01Parse(f, ch)
			if o == "panic" || (o != "" && outcome == "") {
				outcome = o
			}
			seq = append(seq, r...)
		}
		if len(chunks) >= 2 {
			stat("pipe-multi-chunk")
		} else {
			caseTrivial = true
		}
		want, wf := c01Ref(f, data)
		if wf {
			stat("pipe-wellformed")
		}
		if outcome == "panic" {
			if wf {
				fail(w[1]+".chunk-panic", "a chunk of a well-formed file makes the parser panic (buffer %d)", bufsz)
			}
			return "panic", fails
		}
		// concurrent run
		var bs []c01Batch
		res = guardT(5*time.Second, func() string {
			rd, _ := c01Transport(w[4], data)
			bs = c01Pipe(f, bufsz, workers, rd, true)
			return ""
		})
		if res != "" {
			if res != outcome {
				fail(w[1]+".workers."+res, "concurrent run: %s, sequential run: %q", res, outcome)
			}
			if wf && len(want) > 0 {
				fail(w[1]+".rejected", "well-formed input, buffer %d: %s", bufsz, res)
			}
			return res, fails
		}
		if outcome != "" {
			fail(w[1]+".workers.missed-"+outcome, "sequential run: %s, concurrent run delivered records", outcome)
			return outcome, fails
		}
		var got []c01Rec
		for i, b := range bs {
			if b.order != i {
				fail(w[1]+".order", "batch delivered at rank %d has number %d", i, b.order)
			}
			got = append(got, b.recs...)
		}
		if d := c01Diff(got, seq); d != "" {
			fail(w[1]+".workers."+d, "records delivered by %d workers differ from the chunks parsed one by one (%s)", workers, d)
		}
		// oracle: the one-chunk parse of the same file
		if len(data) > 0 {
			o1, one := c01Parse(f, data)
			if o1 == "" && (wf || len(one) > 0) {
				if d := c01Diff(got, one); d != "" {
					if wf {
						fail(w[1]+".chunk-dependence."+d, "buffer %d, %d workers: delivered %s ; one-chunk parse %s", bufsz, workers, c01Show(got), c01Show(one))
					} else {
						stat("chunk-dependence-on-malformed-input")
					}
				}
			}
		}
		if wf {
			if d := c01Diff(got, want); d != "" {
				fail(w[1]+".content."+d, "buffer %d: delivered records differ from what each record's own text implies (%s): got %s want %s", bufsz, d, c01Show(got), c01Show(want))
			}
		}
		return c01Show(got), fails

	case "big":
		f, okf := c01Format(w[1])
		if len(w) != 6 || !okf || atoi(w[2]) < 1 || atoi(w[4]) < 1 || atoi(w[5]) < 0 {
			return "bad-op", nil
		}
		if _, okt := c01Transport(w[3], nil); !okt {
			return "bad-op", nil
		}
		caseTrivial = true // oracle-only case: the model does not recompute it
		workers, nrec, seed := atoi(w[2]), atoi(w[4]), int64(atoi(w[5]))
		kind := w[1][:2]
		stat("op:big:" + kind)
		seqLen := 100000 - 100000%60 // flat files: about 128 KiB of text per record
		src := &c01BigReader{kind: kind, nrec: nrec, seed: seed, seqLen: seqLen}
		var rd io.Reader = src
		if w[3] != "bytes" {
			if kind == "gb" || kind == "em" {
				// keep memory bounded: only the gzip transport is applied to the stream
				if w[3] == "gz" {
					pr, pw := io.Pipe()
					go func() {
						zw := gzip.NewWriter(pw)
						io.Copy(zw, src)
						zw.Close()
						pw.Close()
					}()
					r, err := obiformats.Buf(pr)
					if err != nil {
						return "bad-op", nil
					}
					rd = r
				}
			} else {
				all, _ := io.ReadAll(src)
				rd, _ = c01Transport(w[3], all)
			}
		}
		opts := []obiformats.WithOption{obiformats.OptionsParallelWorkers(workers), obiformats.OptionFastSeqDoNotParseHeader(),
			obiformats.OptionsSource("src"), obiformats.OptionsReadQualities(f.withQual)}
		bads := map[string]string{}
		res := guardT(120*time.Second, func() string {
			var it obiiter.IBioSequence
			var err error
			switch kind {
			case "fa":
				it, err = obiformats.ReadFasta(rd, opts...)
			case "fq":
				it, err = obiformats.ReadFastq(rd, opts...)
			case "gb":
				it, err = obiformats.ReadGenbank(rd, opts...)
			default:
				it, err = obiformats.ReadEMBL(rd, opts...)
			}
			if err != nil {
				return "err"
			}
			i, nb := 0, 0
			note := func(cls, format string, a ...any) {
				if _, seen := bads[cls]; !seen {
					bads[cls] = fmt.Sprintf(format, a...)
				}
			}
			for it.Next() {
				b := it.Get()
				if b.Order() != nb {
					note("order", "batch delivered at rank %d has number %d", nb, b.Order())
				}
				nb++
				for _, s := range b.Slice() {
					r := c01FromSeq(s, f.flat)
					j := i
					if k, err := strconv.Atoi(strings.TrimPrefix(r.id, fmt.Sprintf("r%d_", seed))); err == nil {
						j = k // compare the content with what the record's own text implies, even when misplaced
					}
					id, def, seq, qual := c01BigRec(kind, j, seed)
					if j != i {
						note("order", "record at rank %d is %s", i, r.id)
					}
					switch {
					case r.id != id:
						note("content", "record at rank %d has id %s", i, r.id)
					case f.flat:
						wt := 1
						if j%2 == 0 {
							wt = 100 + j
						}
						if r.taxid != wt {
							note("taxid", "record %d has taxid %d, expected %d", j, r.taxid, wt)
						}
						if r.seq != string(c01BigFlatSeq(j, seqLen)) || r.def != fmt.Sprintf("record %d.", j) {
							note("content", "record %d differs", j)
						}
					case r.def != def || r.seq != seq:
						note("content", "record %d differs", j)
					case f.withQual != r.hasQual:
						note("qualities", "record %d qualities present=%v", j, r.hasQual)
					case f.withQual:
						q := []byte(qual)
						for k := range q {
							q[k] -= c01Shift
						}
						if r.qual != string(q) {
							note("qualities", "record %d differs", j)
						}
					}
					i++
				}
			}
			stat(fmt.Sprintf("big-batches:%s:%d", kind, nb))
			if i != nrec {
				note("count", "%d records delivered, %d in the file", i, nrec)
			}
			if len(bads) > 0 {
				return "bad"
			}
			return "ok " + strconv.Itoa(nrec)
		})
		if res == "bad" {
			keys := make([]string, 0, len(bads))
			for k := range bads {
				keys = append(keys, k)
			}
			sort.Strings(keys)
			for _, k := range keys {
				fail(w[1]+"."+k, "real reader, %d workers: %s", workers, bads[k])
			}
		} else if res != "ok "+strconv.Itoa(nrec) {
			fail(w[1]+".outcome", "real reader, %d workers: %s", workers, res)
		}
		return res, fails

	case "file":
		f, okf := c01Format(w[1])
		if len(w) != 4 || !okf || (w[2] != "plain" && w[2] != "gz") || (w[1] != "fa" && w[1] != "fq1" && w[1] != "gb0" && w[1] != "em0") {
			return "bad-op", nil
		}
		data, ok := unhx(w[3])
		if !ok {
			return "bad-op", nil
		}
		caseTrivial = true // oracle-only case: the model does not recompute it
		stat("op:file:" + w[1] + ":" + w[2])
		o1, one := c01Parse(f, data)
		want, wf := c01Ref(f, data)
		if o1 != "" || !wf || len(want) == 0 {
			stat("file-skipped")
			return "same", nil
		}
		ext := map[string]string{"fa": ".fasta", "fq1": ".fastq", "gb0": ".gb", "em0": ".embl"}[w[1]]
		raw := data
		if w[2] == "gz" {
			var b bytes.Buffer
			zw := gzip.NewWriter(&b)
			zw.Write(data)
			zw.Close()
			raw = b.Bytes()
			ext += ".gz"
		}
		tmp, err := os.CreateTemp("", "c01-*"+ext)
		if err != nil {
			return "same", nil
		}
		tmp.Write(raw)
		tmp.Close()
		defer os.Remove(tmp.Name())
		var got []c01Rec
		ordered := true
		res := guardT(60*time.Second, func() string {
			it, err := obiformats.ReadSequencesFromFile(tmp.Name(), obiformats.OptionsParallelWorkers(2),
				obiformats.OptionFastSeqDoNotParseHeader(), obiformats.OptionsReadQualities(true))
			if err != nil {
				return "err"
			}
			nb := 0
			for it.Next() {
				b := it.Get()
				if b.Order() != nb {
					ordered = false
				}
				nb++
				got = append(got, c01FromSlice(b.Slice(), f.flat)...)
			}
			return ""
		})
		if res != "" {
			fail(w[1]+".outcome", "ReadSequencesFromFile on a well-formed %s file (%s): %s", w[1], w[2], res)
			return "differ", fails
		}
		if !ordered {
			fail(w[1]+".order", "batches are not delivered in order 0,1,2,…")
		}
		if d := c01Diff(got, one); d != "" {
			fail(w[1]+".entry-point."+d, "ReadSequencesFromFile (%s) differs from the chunk parser on the same bytes (%s): got %s want %s", w[2], d, c01Show(got), c01Show(one))
			return "differ", fails
		}
		if d := c01Diff(got, want); d != "" {
			fail(w[1]+".content."+d, "ReadSequencesFromFile (%s): records differ from what each record's own text implies (%s)", w[2], d)
			return "differ", fails
		}
		stat("file-compared")
		return "same", fails

	case "sniff":
		if (len(w) != 3 && len(w) != 4) || (w[1] != "plain" && w[1] != "gz") {
			return "bad-op", nil
		}
		data, ok := unhx(w[2])
		if !ok {
			return "bad-op", nil
		}
		stat("op:sniff:" + w[1])
		raw := data
		if w[1] == "gz" {
			var b bytes.Buffer
			zw := gzip.NewWriter(&b)
			zw.Write(data)
			zw.Close()
			raw = b.Bytes()
		}
		tmp, err := os.CreateTemp("", "c01-sniff-*")
		if err != nil {
			return "bad-op", nil
		}
		tmp.Write(raw)
		tmp.Close()
		defer os.Remove(tmp.Name())
		mime := ""
		res := guardT(20*time.Second, func() string {
			rd, err := obiformats.Ropen(tmp.Name())
			if err == obiformats.ErrNoContent {
				mime = "empty"
				return ""
			}
			if err != nil {
				mime = "open-error"
				return ""
			}
			defer rd.Close()
			m, _, err := obiformats.OBIMimeTypeGuesser(rd)
			if err != nil || m == nil {
				mime = "guess-error"
				return ""
			}
			mime = m.String()
			if k := strings.IndexByte(mime, ';'); k >= 0 {
				mime = mime[:k] // "text/plain; charset=utf-8"
			}
			return ""
		})
		if res != "" {
			fail("outcome."+res, "Ropen + OBIMimeTypeGuesser: %s", res)
			return res, fails
		}
		caseOverride = "sniff " + w[1] + " " + w[2] + " " + mime
		stat("sniff-mime:" + mime)
		// oracle: a well-formed file of one of the four formats is dispatched to its own parser
		for _, fm := range []struct{ name, mime string }{{"fa", "text/fasta"}, {"fq1", "text/fastq"}, {"gb0", "text/genbank"}, {"em0", "text/embl"}} {
			f, _ := c01Format(fm.name)
			if want, wf := c01Ref(f, data); wf && len(want) > 0 {
				stat("sniff-wellformed:" + fm.name)
				if c01FastqFirstRecordSpan(data) > 3072 || (fm.name != "fq1" && len(data) > 3072) {
					stat("sniff-first-record-longer-than-window:" + fm.name)
				}
				if mime != fm.mime {
					cls := "dispatch"
					if fm.name == "fq1" && c01FastqFirstRecordSpan(data) > 3072 {
						// the detectors only see the first 3072 bytes (mimetype read limit)
						cls = "dispatch-long-first-record"
					}
					// outside the hypotheses of the dispatch theorems (Props/C01X.lean), counted, not alarms:
					// a FASTQ title line that does not end inside the window (FqSniffOK); an EMBL ID value that is the
					// banner of a GenBank release file (EmSniffOK)
					if k := bytes.IndexByte(data, '\n'); fm.name == "fq1" && (k < 0 || k >= 3072) {
						stat("sniff-fastq-title-line-longer-than-window")
						continue
					}
					// the release banner expression of the GenBank detector (asked before the FASTQ / FASTA ones, `[^ ]*` spans
					// lines) matches the window (NoBanner); the csv detector (asked first, not modelled) claims the file
					win := data
					if len(win) > 3072 {
						win = win[:3072]
					}
					if (fm.name == "fa" || fm.name == "fq1") && mime == "text/genbank" && c01BannerRe.Match(win) {
						stat("sniff-banner-in-fasta-or-fastq-title")
						continue
					}
					if mime == "text/csv" {
						// repaired by patch C01-sniff-csv-asked-last: own signature
						cls = "dispatch-csv"
					}
					fail(fm.name+"."+cls, "well-formed %s file (%s) guessed as %s", fm.name, w[1], mime)
				}
			}
		}
		switch mime {
		case "text/fasta", "text/fastq", "text/ecopcr2", "text/genbank", "text/embl":
			return "ok " + mime, fails
		case "text/csv":
			// the csv detector (encoding/csv over the window, not modelled) is asked after the five since patch
			// C01-sniff-csv-asked-last: none of them fired, the model must say `other`
			stat("sniff-csv")
			return "ok other", fails
		case "text/plain", "application/octet-stream", "empty":
			return "ok other", fails
		}
		// a built-in detector of the mimetype library (asked AFTER the OBITools detectors: none of them fired, the model
		// must say `other`) or an error of the opener
		stat("sniff-builtin")
		return "ok other", fails

	case "pair":
		if len(w) != 3 {
			return "bad-op", nil
		}
		dataF, ok1 := unhx(w[1])
		dataR, ok2 := unhx(w[2])
		if !ok1 || !ok2 {
			return "bad-op", nil
		}
		stat("op:pair")
		f, _ := c01Format("fq1")
		wantF, wfF := c01Ref(f, dataF)
		wantR, wfR := c01Ref(f, dataR)
		if !wfF || !wfR || len(wantF) != len(wantR) || len(wantF) == 0 {
			return "bad-op", nil
		}
		names := [2]string{}
		for i, d := range [][]byte{dataF, dataR} {
			tmp, err := os.CreateTemp("", "c01-pair-*.fastq")
			if err != nil {
				return "bad-op", nil
			}
			tmp.Write(d)
			tmp.Close()
			names[i] = tmp.Name()
			defer os.Remove(tmp.Name())
		}
		var gotF, gotR []c01Rec
		ordered, mated := true, true
		res := guardT(30*time.Second, func() string {
			opts := []obiformats.WithOption{obiformats.OptionsParallelWorkers(3), obiformats.OptionFastSeqDoNotParseHeader(), obiformats.OptionsReadQualities(true)}
			a, err := obiformats.ReadSequencesFromFile(names[0], opts...)
			if err != nil {
				return "err"
			}
			b, err := obiformats.ReadSequencesFromFile(names[1], opts...)
			if err != nil {
				return "err"
			}
			it := a.PairTo(b)
			nb := 0
			for it.Next() {
				bt := it.Get()
				if bt.Order() != nb {
					ordered = false
				}
				nb++
				for _, sq := range bt.Slice() {
					gotF = append(gotF, c01FromSeq(sq, false))
					m := sq.PairedWith()
					if m == nil || m.PairedWith() != sq {
						mated = false
						continue
					}
					gotR = append(gotR, c01FromSeq(m, false))
				}
			}
			return ""
		})
		if res != "" {
			fail("outcome."+res, "paired reading of two well-formed files: %s", res)
			return res, fails
		}
		if !ordered {
			fail("order", "paired batches are not delivered in order 0,1,2,…")
		}
		if !mated {
			fail("mate-missing", "a delivered read has no mate (or the mate does not point back)")
		}
		if d := c01Diff(gotF, wantF); d != "" {
			fail("forward."+d, "forward reads differ from the records of the forward file (%s)", d)
		}
		if d := c01Diff(gotR, wantR); d != "" {
			fail("reverse."+d, "mates differ from the records of the reverse file, in file order (%s)", d)
		}
		return "paired " + strconv.Itoa(len(gotF)), fails

	case "mread":
		return c01GlueMread(w, fail), fails
	case "cli":
		return c01GlueCli(w, fail), fails
	case "cmd":
		caseTrivial = true // oracle-only for the model: the number of records of the inputs
		return c01GlueCmd(w)

	case "kseq":
		if len(w) != 3 || (w[1] != "fa" && w[1] != "fq") {
			return "bad-op", nil
		}
		data, ok := unhx(w[2])
		if !ok {
			return "bad-op", nil
		}
		caseTrivial = true // two-parser agreement, oracle only
		stat("op:kseq:" + w[1])
		f, _ := c01Format(map[string]string{"fa": "fa", "fq": "fq1"}[w[1]])
		want, wf := c01Ref(f, data)
		if !wf || len(want) == 0 {
			stat("kseq-skipped")
			return "agree", nil
		}
		tmp, err := os.CreateTemp("", "c01-*."+w[1])
		if err != nil {
			return "agree", nil
		}
		tmp.Write(data)
		tmp.Close()
		defer os.Remove(tmp.Name())
		var got []c01Rec
		res := guardT(10*time.Second, func() string {
			it, err := obiformats.ReadFastSeqFromFile(tmp.Name(), obiformats.OptionFastSeqDoNotParseHeader(), obiformats.OptionsBatchSize(3))
			if err != nil {
				return "err"
			}
			type nb struct {
				o int
				r []c01Rec
			}
			var bs []nb
			for it.Next() {
				b := it.Get()
				bs = append(bs, nb{b.Order(), c01FromSlice(b.Slice(), false)})
			}
			sort.SliceStable(bs, func(i, j int) bool { return bs[i].o < bs[j].o })
			for _, b := range bs {
				got = append(got, b.r...)
			}
			return ""
		})
		if res != "" {
			fail(w[1]+"."+res, "kseq reader: %s", res)
			return "differ", fails
		}
		_, goRecs := c01Parse(f, data)
		if d := c01Diff(got, goRecs); d != "" {
			cls := "two-parsers."
			if bytes.ContainsAny(data, "\v\f") {
				// kseq splits the title with isspace() (VT and FF included), the Go state machines at blank / tab only:
				// own signature class, so that a finding recorded for it cannot hide any other disagreement
				cls = "two-parsers-vt-ff."
			}
			fail(w[1]+"."+cls+d, "kseq reader and Go chunk parser disagree (%s): kseq %s ; go %s", d, c01Show(got), c01Show(goRecs))
			if cls == "two-parsers-vt-ff." {
				// open known finding C01-kseq-isspace-title: reported through the F line only; the canonical result stays
				// what the property demands, so that the (kseq-free) model is not flagged as broken
				stat("kseq-vt-ff-disagreement")
				return "agree", fails
			}
			return "differ", fails
		}
		stat("kseq-compared")
		return "agree", fails
	}
	return "bad-op", nil
}
