import ObiVerif.Model.Fp
import ObiVerif.Driver.C20
