import ObiVerif.Lemmas.Uniq
import ObiVerif.Lemmas.UniqDemerge
import ObiVerif.Lemmas.UniqSort
import ObiVerif.Lemmas.UniqChunk
import ObiVerif.Lemmas.UniqSteps
/-!
# C06 — dereplication conserves counts and merges exactly the identical records (property theorems)

`uniq h o input` is the model of `obichunk.IUniqueSequence` (`Model/Uniq.lean`): `h` is the chunk function
(`crc32(sequence) % BatchCount` in the code — every theorem holds for **every** `h`, hence for every chunk
count), `o` the options (categories, requested `merged_` keys, NA value, `--no-singleton`), `input` the
records in the order they enter.  Workers, in-memory/on-disk mode and the arrival order of the classes do
not exist in the functional model; the order of the members inside a class (the only thing the unstable
`sort.Sort` of `ISequenceSubChunk` and the scheduling could change) is covered by `uniq_perm`, which
quantifies over every permutation of the input.

Hypotheses (`InputOK`): counts ≥ 1 (the property's quantifier), the annotations of a record form a map,
the requested `merged_` keys are distinct (they are the keys of a Go map).

* `key o r`            : (nucleotide string, values of the category attributes with NA for missing ones)
* `classOf o input κ`  : the input records with key `κ`
* `InputOK`, `mweight` : `Lemmas/Uniq.lean`
* `contrib na k r v`   : weight record `r` brings to value `v` of `merged_<k>` — the weight of `v` in its own
                         `merged_<k>` map if it carries one (`contrib_some`), else its count if its value of
                         attribute `k` (NA when absent) is `v` and 0 otherwise (`contrib_none`)
-/
namespace ObiVerif.Props.C06
open ObiVerif.Uniq

/-- every output record is the merge of the whole class of its key (and of nothing else) -/
theorem uniq_isOutput (h : Seq → Nat) (o : Opts) (input : List Rec) (ok : InputOK o input) :
    ∀ out ∈ uniq h o input, IsOutput o input out := by
  intro out hout
  obtain ⟨t, ht, _, hm⟩ := mem_uniq.mp hout
  obtain ⟨out', hm', hio, _, _⟩ := terminal_output h o input ok.stats_nodup ok.counts ok.wf t ht
  rw [hm] at hm'
  cases hm'
  exact hio

/-! ## uniq_count, uniq_merged (+ annotations) -/

/-- the count of an output record is the sum of the counts of the input records with its key -/
theorem uniq_count (h : Seq → Nat) (o : Opts) (input : List Rec) (ok : InputOK o input) :
    ∀ out ∈ uniq h o input, out.count = total (classOf o input (key o out)) :=
  fun out hout => (uniq_isOutput h o input ok out hout).count

/-- every requested `merged_<k>` map exists on the output record and gives, per value, the summed
weight of the records of the class -/
theorem uniq_merged (h : Seq → Nat) (o : Opts) (input : List Rec) (ok : InputOK o input) :
    ∀ out ∈ uniq h o input, ∀ k ∈ o.stats, ∃ m, out.merged.lookup k = some m ∧
      ∀ v, weight m v = contribSum o.na k (classOf o input (key o out)) v :=
  fun out hout => (uniq_isOutput h o input ok out hout).merged

/-- an annotation is kept iff every record of the class carries it with the same value; the
sequence (and id) are those of a member of the class -/
theorem uniq_annotations (h : Seq → Nat) (o : Opts) (input : List Rec) (ok : InputOK o input) :
    ∀ out ∈ uniq h o input,
      (∀ kv, kv ∈ out.attrs ↔ ∀ r ∈ classOf o input (key o out), r.attrs.lookup kv.1 = some kv.2) ∧
      ∃ x ∈ classOf o input (key o out), out.id = x.id ∧ out.seq = x.seq :=
  fun out hout => ⟨(uniq_isOutput h o input ok out hout).attrs, (uniq_isOutput h o input ok out hout).rep⟩

/-! ## uniq_keys -/

/-- without `--no-singleton`: exactly one output record per distinct key of the input -/
theorem uniq_keys (h : Seq → Nat) (o : Opts) (input : List Rec) (ok : InputOK o input)
    (hns : o.noSingleton = false) :
    ((uniq h o input).map (key o)).Nodup ∧
    ∀ κ, κ ∈ (uniq h o input).map (key o) ↔ κ ∈ input.map (key o) := by
  obtain ⟨_, hcover, hsep, _⟩ := terminals_classes h o input
  constructor
  · unfold List.Nodup uniq
    rw [List.pairwise_map, List.pairwise_filterMap]
    refine List.Pairwise.imp_of_mem ?_ (List.Pairwise.filter _ hsep)
    intro t t' ht ht' hh b hb b' hb' ek
    have ht := (List.mem_filter.mp ht).1
    have ht' := (List.mem_filter.mp ht').1
    obtain ⟨out, hm, hio, ecls, _⟩ := terminal_output h o input ok.stats_nodup ok.counts ok.wf t ht
    obtain ⟨out', hm', hio', ecls', _⟩ := terminal_output h o input ok.stats_nodup ok.counts ok.wf t' ht'
    rw [hb] at hm; cases hm
    rw [hb'] at hm'; cases hm'
    obtain ⟨x, hx, _⟩ := hio.rep
    obtain ⟨x', hx', _⟩ := hio'.rep
    have k1 : key o x = key o b := by simpa [classOf] using (List.mem_filter.mp hx).2
    have k2 : key o x' = key o b' := by simpa [classOf] using (List.mem_filter.mp hx').2
    rw [← ecls] at hx
    rw [← ecls'] at hx'
    exact hh x hx x' hx' (by rw [k1, k2, ek])
  · intro κ
    simp only [List.mem_map]
    constructor
    · rintro ⟨out, hout, rfl⟩
      obtain ⟨x, hx, _⟩ := (uniq_isOutput h o input ok out hout).rep
      have := List.mem_filter.mp hx
      exact ⟨x, this.1, by simpa [classOf] using this.2⟩
    · rintro ⟨x, hx, rfl⟩
      have ht := hcover x hx
      obtain ⟨out, hm, _, ecls, _⟩ := terminal_output h o input ok.stats_nodup ok.counts ok.wf _ ht
      refine ⟨out, mem_uniq.mpr ⟨_, ht, not_dropped_of_all hns _, hm⟩, ?_⟩
      have hxt : x ∈ input.filter (fun r => decide (key o r = key o x)) := by simp [hx]
      rw [ecls] at hxt
      exact (of_decide_eq_true (List.mem_filter.mp hxt).2).symm

/-! ## uniq_total -/

/-- the total count is conserved -/
theorem uniq_total (h : Seq → Nat) (o : Opts) (input : List Rec) (ok : InputOK o input)
    (hns : o.noSingleton = false) : total (uniq h o input) = total input := by
  obtain ⟨_, _, _, hperm⟩ := terminals_classes h o input
  have e : (terminals h o input).filter (fun b => !dropped o b) = terminals h o input :=
    List.filter_eq_self.mpr fun t _ => by simp [not_dropped_of_all hns t]
  unfold uniq
  rw [e]
  show (((terminals h o input).filterMap (mergeClass o.na o.stats)).map Rec.count).sum = total input
  rw [filterMap_map_eq (terminals h o input) (mergeClass o.na o.stats) Rec.count total]
  · rw [← total_flatten]; exact total_perm hperm
  · intro t ht
    obtain ⟨out, hm, _, _, hc⟩ := terminal_output h o input ok.stats_nodup ok.counts ok.wf t ht
    exact ⟨out, hm, hc⟩

/-- `--no-singleton` removes from the output exactly the records of count 1, i.e. (by `uniq_count`)
exactly the classes whose total count is 1 -/
theorem uniq_noSingleton (h : Seq → Nat) (o : Opts) (input : List Rec) (ok : InputOK o input) :
    uniq h { o with noSingleton := true } input =
      (uniq h { o with noSingleton := false } input).filter (fun out => decide (out.count ≠ 1)) := by
  have hT : ∀ b : Bool, terminals h { o with noSingleton := b } input = terminals h o input := fun _ => rfl
  have hne : ∀ t ∈ terminals h o input, t ≠ [] := (terminals_spec h o input).ne_nil
  have hsub : ∀ t ∈ terminals h o input, ∀ r ∈ t, 1 ≤ r.count :=
    fun t ht r hr => ok.counts r ((terminals_spec h o input).sub t ht r hr)
  unfold uniq
  rw [hT true, hT false]
  show ((terminals h o input).filter (fun b => !dropped { o with noSingleton := true } b)).filterMap
        (mergeClass o.na o.stats) =
      (((terminals h o input).filter (fun b => !dropped { o with noSingleton := false } b)).filterMap
        (mergeClass o.na o.stats)).filter (fun out => decide (out.count ≠ 1))
  have e1 : (terminals h o input).filter (fun b => !dropped { o with noSingleton := false } b) =
      terminals h o input :=
    List.filter_eq_self.mpr fun t _ => by simp [dropped]
  have e2 : (terminals h o input).filter (fun b => !dropped { o with noSingleton := true } b) =
      (terminals h o input).filter (fun t => decide (total t ≠ 1)) := by
    apply List.filter_congr
    intro t ht
    rw [dropped_iff _ t (hne t ht) (hsub t ht)]
    simp
  rw [e1, e2]
  symm
  apply filterMap_filter_comm
  intro t ht out hm
  obtain ⟨out', hm', _, _, hc⟩ := terminal_output h o input ok.stats_nodup ok.counts ok.wf t ht
  have : mergeClass o.na o.stats t = some out := hm
  rw [this] at hm'; cases hm'
  rw [hc]

/-- with `--no-singleton` the total count is conserved minus one per class of total count 1 -/
theorem uniq_total_noSingleton (h : Seq → Nat) (o : Opts) (input : List Rec) (ok : InputOK o input) :
    total (uniq h { o with noSingleton := true } input) +
      ((uniq h { o with noSingleton := false } input).filter (fun out => decide (out.count = 1))).length =
    total input := by
  rw [uniq_noSingleton h o input ok, total_filter_split]
  exact uniq_total h { o with noSingleton := false } input
    ⟨ok.stats_nodup, ok.counts, ok.wf⟩ rfl

/-! ## uniq_perm -/

/-- the observable of an output record: key (sequence and category values), count, the requested
`merged_` maps as weight functions, the set of kept annotations.  The id (the representative) is not part
of it. -/
def ObsEq (o : Opts) (a b : Rec) : Prop :=
  a.seq = b.seq ∧ key o a = key o b ∧ a.count = b.count ∧
  (∀ k ∈ o.stats, ∀ v, mweight a k v = mweight b k v) ∧
  (∀ kv, kv ∈ a.attrs ↔ kv ∈ b.attrs)

/-- the set of observable output records does not depend on the order of the input nor on the chunk
function (chunk count): every output of one run has an observably equal output in the other
(and conversely, the statement being symmetric in the two runs) -/
theorem uniq_perm (h h' : Seq → Nat) (o : Opts) (input input' : List Rec) (hp : input'.Perm input)
    (ok : InputOK o input) :
    ∀ out ∈ uniq h o input, ∃ out' ∈ uniq h' o input', ObsEq o out out' := by
  intro out hout
  have ok' := ok.perm hp
  obtain ⟨t, ht, hnd, hm⟩ := mem_uniq.mp hout
  obtain ⟨out0, hm0, hio, ecls, hc⟩ := terminal_output h o input ok.stats_nodup ok.counts ok.wf t ht
  rw [hm] at hm0; cases hm0
  obtain ⟨x, hx, _, hxs⟩ := hio.rep
  have hxin : x ∈ input := (List.mem_filter.mp hx).1
  have hxk : key o x = key o out := by simpa [classOf] using (List.mem_filter.mp hx).2
  have hxin' : x ∈ input' := hp.mem_iff.mpr hxin
  obtain ⟨_, hcover', _, _⟩ := terminals_classes h' o input'
  have ht' := hcover' x hxin'
  obtain ⟨out', hm', hio', ecls', hc'⟩ :=
    terminal_output h' o input' ok'.stats_nodup ok'.counts ok'.wf _ ht'
  have hxt' : x ∈ input'.filter (fun r => decide (key o r = key o x)) := by simp [hxin']
  have hk' : key o x = key o out' := by
    rw [ecls'] at hxt'
    simpa [classOf] using (List.mem_filter.mp hxt').2
  have hkk : key o out' = key o out := by rw [← hk', hxk]
  have hcp : (classOf o input' (key o out')).Perm (classOf o input (key o out)) := by
    rw [hkk]; exact classOf_perm o hp _
  have htot : total (input'.filter (fun r => decide (key o r = key o x))) = total t := by
    rw [ecls', ecls]; exact total_perm hcp
  -- the class is not dropped in the second run either
  have hnd' : dropped o (input'.filter (fun r => decide (key o r = key o x))) = false := by
    have hne := (terminals_spec h o input).ne_nil t ht
    have hsub : ∀ r ∈ t, 1 ≤ r.count :=
      fun r hr => ok.counts r ((terminals_spec h o input).sub t ht r hr)
    have hne' := (terminals_spec h' o input').ne_nil _ ht'
    have hsub' : ∀ r ∈ input'.filter (fun r => decide (key o r = key o x)), 1 ≤ r.count :=
      fun r hr => ok'.counts r ((terminals_spec h' o input').sub _ ht' r hr)
    rw [dropped_iff o _ hne' hsub', htot, ← dropped_iff o t hne hsub]
    exact hnd
  refine ⟨out', mem_uniq.mpr ⟨_, ht', hnd', hm'⟩, ?_, hkk.symm, ?_, ?_, ?_⟩
  · have := congrArg Prod.fst hkk
    simpa [key] using this.symm
  · rw [hio.count, hio'.count]; exact (total_perm hcp).symm
  · intro k hk v
    obtain ⟨m, hm1, hw1⟩ := hio.merged k hk
    obtain ⟨m', hm2, hw2⟩ := hio'.merged k hk
    simp only [mweight, hm1, hm2, Option.getD_some]
    rw [hw1 v, hw2 v]
    exact (contribSum_perm o.na k hcp v).symm
  · intro kv
    rw [hio.attrs kv, hio'.attrs kv]
    constructor
    · intro hh r hr; exact hh r (hcp.mem_iff.mp hr)
    · intro hh r hr; exact hh r (hcp.mem_iff.mpr hr)

/-! ## obidemerge -/

/-- obidemerge on a record that carries `merged_<k>`: one record per entry of the map, with that
value as attribute `k`, that weight as count, and no `merged_<k>` any more; everything else kept -/
theorem demerge_spec (k : String) (r : Rec) (m : Stats) (hm : r.merged.lookup k = some m) :
    (demerge1 k r).map (fun d => (d.seq, d.attrs.lookup k, d.cnt, d.merged.lookup k)) =
      m.map (fun e => (r.seq, some e.1, some (setCount e.2), none)) ∧
    ∀ d ∈ demerge1 k r, ∀ k', k' ≠ k →
      d.attrs.lookup k' = r.attrs.lookup k' ∧ d.merged.lookup k' = r.merged.lookup k' := by
  constructor
  · simp only [demerge1, hm, List.map_map]
    apply List.map_congr_left
    intro e _
    simp [lookup_setKey, lookup_filter_ne']
  · intro d hd k' hk'
    simp only [demerge1, hm, List.mem_map] at hd
    obtain ⟨e, _, rfl⟩ := hd
    have : ¬ k = k' := fun e => hk' e.symm
    simp [lookup_setKey, this, lookup_filter_ne', hk']

/-- the counts of the demerged records of an output record of `uniq` are exactly the summed weights
of the class (weights ≥ 1 are kept as they are by `SetCount`) -/
theorem demerge_counts (h : Seq → Nat) (o : Opts) (input : List Rec) (ok : InputOK o input) (k : String)
    (hk : k ∈ o.stats) : ∀ out ∈ uniq h o input, ∃ m, out.merged.lookup k = some m ∧
      (∀ v, weight m v = contribSum o.na k (classOf o input (key o out)) v) ∧
      (demerge1 k out).map (fun d => (d.attrs.lookup k, d.cnt)) =
        m.map (fun e => (some e.1, some (setCount e.2))) := by
  intro out hout
  obtain ⟨m, hm, hw⟩ := uniq_merged h o input ok out hout k hk
  refine ⟨m, hm, hw, ?_⟩
  have := (demerge_spec k out m hm).1
  have e := congrArg (List.map fun (x : Seq × Option String × Option Nat × Option Stats) => (x.2.1, x.2.2.1)) this
  simpa [List.map_map, Function.comp_def] using e

/-- `obiuniq -m k | obidemerge -d k | obiuniq -m k` gives back, for the key of every output record of
the first `obiuniq -m k`, a record with the same `merged_<k>` weights, whose count is the sum of these
weights (= the count of the first output when the input counts agree with the input `merged_<k>` maps).
`k` must not be one of the categories (obidemerge rewrites attribute `k`); the entries of the map are
assumed ≥ 1 and the map non-empty (true when the weights of the input maps are ≥ 1 and at least one
member of the class contributes; `SetCount` would turn a weight 0 into a count 1).  Both dereplications
may use different chunk functions. -/
theorem demerge_uniq (h h' : Seq → Nat) (o : Opts) (input : List Rec) (k : String) (ok : InputOK o input)
    (hs : o.stats = [k]) (hkc : k ∉ o.cats) (hns : o.noSingleton = false) :
    ∀ out ∈ uniq h o input, ∀ m, out.merged.lookup k = some m → m ≠ [] → (∀ e ∈ m, 1 ≤ e.2) →
      ∃ out2 ∈ uniq h' o (demerge k (uniq h o input)),
        key o out2 = key o out ∧ (∀ v, mweight out2 k v = mweight out k v) ∧
        out2.count = (m.map (·.2)).sum := by
  intro out hout m hm hne hpos
  have hkst : k ∈ o.stats := by rw [hs]; simp
  have hfacts : ∀ u ∈ uniq h o input, ∀ d ∈ demerge1 k u,
      key o d = key o u ∧ d.WF ∧ 1 ≤ d.count ∧ d.merged.lookup k = none := by
    intro u hu
    obtain ⟨mu, hmu, _⟩ := uniq_merged h o input ok u hu k hkst
    exact demerge1_facts o k hkc u mu hmu (uniq_isOutput h o input ok u hu).wf
  have okD : InputOK o (demerge k (uniq h o input)) := by
    refine ⟨ok.stats_nodup, ?_, ?_⟩
    · intro d hd
      obtain ⟨u, hu, hdu⟩ := List.mem_flatMap.mp hd
      exact (hfacts u hu d hdu).2.2.1
    · intro d hd
      obtain ⟨u, hu, hdu⟩ := List.mem_flatMap.mp hd
      exact (hfacts u hu d hdu).2.1
  -- the class of key(out) among the demerged records is exactly what obidemerge made of `out`
  have hclass : classOf o (demerge k (uniq h o input)) (key o out) = demerge1 k out := by
    unfold classOf demerge
    rw [List.filter_flatMap]
    rw [flatMap_congr' (uniq h o input) _
      (fun u => if key o u = key o out then demerge1 k u else [])]
    · exact flatMap_single (key o) (demerge1 k) _ (uniq_keys h o input ok hns).1 out hout
    · intro u hu
      by_cases hk : key o u = key o out
      · rw [if_pos hk, List.filter_eq_self]
        intro d hd; simp [(hfacts u hu d hd).1, hk]
      · rw [if_neg hk, List.filter_eq_nil_iff]
        intro d hd; simp [(hfacts u hu d hd).1, hk]
  -- a first demerged record
  obtain ⟨e0, he0⟩ := List.exists_mem_of_ne_nil m hne
  have hd0 : demergeRec k out e0 ∈ demerge1 k out := by
    rw [demerge1_eq k out m hm]; exact List.mem_map.mpr ⟨e0, he0, rfl⟩
  have hd0D : demergeRec k out e0 ∈ demerge k (uniq h o input) :=
    List.mem_flatMap.mpr ⟨out, hout, hd0⟩
  have hk0 : key o (demergeRec k out e0) = key o out := (hfacts out hout _ hd0).1
  obtain ⟨_, hcover, _, _⟩ := terminals_classes h' o (demerge k (uniq h o input))
  have ht := hcover _ hd0D
  rw [hk0] at ht
  change classOf o (demerge k (uniq h o input)) (key o out) ∈ _ at ht
  obtain ⟨out2, hm2, hio2, ecls2, hc2⟩ :=
    terminal_output h' o _ okD.stats_nodup okD.counts okD.wf _ ht
  have hkey2 : key o out2 = key o out := by
    have : demergeRec k out e0 ∈ classOf o (demerge k (uniq h o input)) (key o out) := by
      rw [hclass]; exact hd0
    rw [ecls2] at this
    have h1 := of_decide_eq_true (List.mem_filter.mp this).2
    rw [← h1, hk0]
  refine ⟨out2, mem_uniq.mpr ⟨_, ht, not_dropped_of_all hns _, hm2⟩, hkey2, ?_, ?_⟩
  · intro v
    obtain ⟨m2, hm2', hw2⟩ := hio2.merged k hkst
    simp only [mweight, hm2', hm, Option.getD_some]
    rw [hw2 v, hkey2, hclass]
    exact (contrib_demerge1 o.na k out m hm hpos v).1
  · rw [hc2, hclass]
    exact (contrib_demerge1 o.na k out m hm hpos "").2

/-! ## the loop-level model (`Model/UniqLoop.lean`): classifiers, `ISequenceSubChunk` loop by loop, one chain
per worker — refinement to the abstraction above

`uniqL srt o ws` : `srt` is what `sort.Sort` does (any function returning a permutation of its argument
ordered by code: `ValidSorter`), `ws` the hash chunks every worker receives, in the order it receives them
(`ChunksOK h input ws`: up to order, the partition of the input by hash code — any assignment of the chunks to
any number of workers, any order of the chunks, any order of the records inside a chunk). -/

/-- `SequenceClassifier` / `AnnotationClassifier` are exact inside a batch, whatever they classified before the
`Reset` (the codes of an `AnnotationClassifier` go on from the old `maxcode`): equal values ⇒ equal codes,
distinct values ⇒ distinct codes -/
theorem classifier_exact (kind : Kind) (f : Rec → Code) (st : ClsSt) (b : List Rec) :
    ∀ p ∈ (codeAll f (st.reset kind) b).2, ∀ q ∈ (codeAll f (st.reset kind) b).2,
      (p.1 = q.1 ↔ f p.2 = f q.2) :=
  codeAll_exact f (st.reset kind) (ClsSt.reset_inv kind st) b

/-- `HashClassifier` guarantees only: same sequence ⇒ same chunk.  That is all the pipeline needs: every
theorem of this file holds for every chunk function `h`. -/
theorem hash_same_chunk (size : Nat) (r r' : Rec) (e : r.seq = r'.seq) :
    hashC (hashCode size) r = hashC (hashCode size) r' := by simp [hashC, e]

/-- `ISequenceSubChunk` loop by loop (Reset, coding loop, any unstable sort, cut loop) against its abstraction
`subChunk`: the same classes up to the order of the members -/
theorem subChunkL_refines (kind : Kind) (f : Rec → Code) (srt : Sorter) (hs : ValidSorter srt) (st : ClsSt)
    (b : List Rec) (hb : b ≠ []) :
    (∀ t ∈ (subChunkL kind f srt st b).2, ∃ t' ∈ subChunk f b, t.Perm t') ∧
    (∀ t' ∈ subChunk f b, ∃ t ∈ (subChunkL kind f srt st b).2, t.Perm t') :=
  subChunkL_subChunk kind f srt hs st b hb

/-- every output record of the loop-level pipeline is the merge of the whole class of its key -/
theorem uniqL_isOutput (srt : Sorter) (hs : ValidSorter srt) (h : Seq → Nat) (o : Opts) (input : List Rec)
    (ws : List (List (List Rec))) (hws : ChunksOK h input ws) (ok : InputOK o input) :
    ∀ out ∈ uniqL srt o ws, IsOutput o input out := by
  intro out hout
  obtain ⟨t, ht, _, hm⟩ := mem_uniqL.mp hout
  obtain ⟨x, hx, hp⟩ := (terminalsL_classes srt hs h o input ws hws).1 t ht
  obtain ⟨out', hm', hio, _, _⟩ := class_output o input ok.stats_nodup ok.counts ok.wf t x hx hp
  rw [hm] at hm'; cases hm'; exact hio

/-- loop level, without `--no-singleton`: exactly one output record per distinct key of the input -/
theorem uniqL_keys (srt : Sorter) (hs : ValidSorter srt) (h : Seq → Nat) (o : Opts) (input : List Rec)
    (ws : List (List (List Rec))) (hws : ChunksOK h input ws) (ok : InputOK o input)
    (hns : o.noSingleton = false) :
    ((uniqL srt o ws).map (key o)).Nodup ∧
    ∀ κ, κ ∈ (uniqL srt o ws).map (key o) ↔ κ ∈ input.map (key o) := by
  obtain ⟨hcls, hsep, hperm⟩ := terminalsL_classes srt hs h o input ws hws
  have hout : ∀ t ∈ terminalsL srt o ws, ∀ b, mergeClass o.na o.stats t = some b →
      ∀ a ∈ t, key o a = key o b := by
    intro t ht b hb a ha
    obtain ⟨x, hx, hp⟩ := hcls t ht
    obtain ⟨out', hm', _, hk, _⟩ := class_output o input ok.stats_nodup ok.counts ok.wf t x hx hp
    rw [hb] at hm'; cases hm'
    have := List.mem_filter.mp (hp.mem_iff.mp ha)
    rw [hk]; simpa [classOf] using this.2
  constructor
  · unfold List.Nodup uniqL
    rw [List.pairwise_map, List.pairwise_filterMap]
    refine List.Pairwise.imp_of_mem ?_ (List.Pairwise.filter _ hsep)
    intro t t' ht ht' hh b hb b' hb' ek
    have ht := (List.mem_filter.mp ht).1
    have ht' := (List.mem_filter.mp ht').1
    obtain ⟨x, hx, _⟩ := hcls t ht
    obtain ⟨x', hx', _⟩ := hcls t' ht'
    exact hh x hx x' hx' (by rw [hout t ht b hb x hx, hout t' ht' b' hb' x' hx', ek])
  · intro κ
    simp only [List.mem_map]
    constructor
    · rintro ⟨out, hout', rfl⟩
      obtain ⟨x, hx, _⟩ := (uniqL_isOutput srt hs h o input ws hws ok out hout').rep
      have := List.mem_filter.mp hx
      exact ⟨x, this.1, by simpa [classOf] using this.2⟩
    · rintro ⟨x, hx, rfl⟩
      obtain ⟨t, ht, hxt⟩ := List.mem_flatten.mp (hperm.mem_iff.mpr hx)
      obtain ⟨y, hy, hp⟩ := hcls t ht
      obtain ⟨out, hm, _, _, _⟩ := class_output o input ok.stats_nodup ok.counts ok.wf t y hy hp
      exact ⟨out, mem_uniqL.mpr ⟨t, ht, not_dropped_of_all hns _, hm⟩, (hout t ht out hm x hxt).symm⟩

/-- loop level: the total count is conserved -/
theorem uniqL_total (srt : Sorter) (hs : ValidSorter srt) (h : Seq → Nat) (o : Opts) (input : List Rec)
    (ws : List (List (List Rec))) (hws : ChunksOK h input ws) (ok : InputOK o input)
    (hns : o.noSingleton = false) : total (uniqL srt o ws) = total input := by
  obtain ⟨hcls, _, hperm⟩ := terminalsL_classes srt hs h o input ws hws
  have e : (terminalsL srt o ws).filter (fun b => !dropped o b) = terminalsL srt o ws :=
    List.filter_eq_self.mpr fun t _ => by simp [not_dropped_of_all hns t]
  unfold uniqL
  rw [e]
  show (((terminalsL srt o ws).filterMap (mergeClass o.na o.stats)).map Rec.count).sum = total input
  rw [filterMap_map_eq (terminalsL srt o ws) (mergeClass o.na o.stats) Rec.count total]
  · rw [← total_flatten]; exact total_perm hperm
  · intro t ht
    obtain ⟨x, hx, hp⟩ := hcls t ht
    obtain ⟨out, hm, _, _, hc⟩ := class_output o input ok.stats_nodup ok.counts ok.wf t x hx hp
    exact ⟨out, hm, hc⟩

/-- two records that are both "the output for their key" and have the same key are observably equal -/
theorem obsEq_of_isOutput (o : Opts) (input : List Rec) (a b : Rec) (ha : IsOutput o input a)
    (hb : IsOutput o input b) (hk : key o a = key o b) : ObsEq o a b := by
  refine ⟨?_, hk, ?_, ?_, ?_⟩
  · have := congrArg Prod.fst hk
    simpa [key] using this
  · rw [ha.count, hb.count, hk]
  · intro k hks v
    obtain ⟨m, hm1, hw1⟩ := ha.merged k hks
    obtain ⟨m', hm2, hw2⟩ := hb.merged k hks
    simp only [mweight, hm1, hm2, Option.getD_some]
    rw [hw1 v, hw2 v, hk]
  · intro kv
    rw [ha.attrs kv, hb.attrs kv, hk]

/-- **refinement of the whole pipeline**: for every sort, every assignment of the chunks to the workers and
every arrival order, every output record of the loop-level pipeline has an observably equal output record in
the abstract model `uniq` (for any chunk function `h'`), with or without `--no-singleton`, and conversely —
so every theorem above on `uniq` is a theorem on the loop-level transcription -/
theorem uniqL_refines (srt : Sorter) (hs : ValidSorter srt) (h h' : Seq → Nat) (o : Opts) (input : List Rec)
    (ws : List (List (List Rec))) (hws : ChunksOK h input ws) (ok : InputOK o input) :
    (∀ out ∈ uniqL srt o ws, ∃ out' ∈ uniq h' o input, ObsEq o out out') ∧
    (∀ out' ∈ uniq h' o input, ∃ out ∈ uniqL srt o ws, ObsEq o out' out) := by
  obtain ⟨hcls, _, hperm⟩ := terminalsL_classes srt hs h o input ws hws
  obtain ⟨hcls', hcover', _, _⟩ := terminals_classes h' o input
  -- a loop-level terminal and an abstract terminal that share a record: same fate, observably equal merges
  have hpair : ∀ t ∈ terminalsL srt o ws, ∀ t' ∈ terminals h' o input, ∀ x, x ∈ t → x ∈ t' →
      dropped o t = dropped o t' ∧ ∃ a b, mergeClass o.na o.stats t = some a ∧
        mergeClass o.na o.stats t' = some b ∧ ObsEq o a b := by
    intro t ht t' ht' x hxt hxt'
    obtain ⟨y, hy, hp⟩ := hcls t ht
    obtain ⟨a, hma, hia, hka, hca⟩ := class_output o input ok.stats_nodup ok.counts ok.wf t y hy hp
    obtain ⟨b, hmb, hib, eb, hcb⟩ := terminal_output h' o input ok.stats_nodup ok.counts ok.wf t' ht'
    have hx1 : key o x = key o y := by
      have := List.mem_filter.mp (hp.mem_iff.mp hxt); simpa [classOf] using this.2
    have hx2 : key o x = key o b := by
      rw [eb] at hxt'
      have := List.mem_filter.mp hxt'; simpa [classOf] using this.2
    have hk : key o a = key o b := by rw [hka, ← hx1, hx2]
    have hpt : t.Perm t' := by rw [eb, ← hk, hka]; exact hp
    refine ⟨?_, a, b, hma, hmb, obsEq_of_isOutput o input a b hia hib hk⟩
    have hne : t ≠ [] := List.ne_nil_of_mem hxt
    have hne' : t' ≠ [] := List.ne_nil_of_mem hxt'
    have hsub : ∀ r ∈ t, 1 ≤ r.count := fun r hr =>
      ok.counts r (hperm.mem_iff.mp (List.mem_flatten.mpr ⟨t, ht, hr⟩))
    have hsub' : ∀ r ∈ t', 1 ≤ r.count := fun r hr => hsub r (hpt.mem_iff.mpr hr)
    rw [dropped_iff o t hne hsub, dropped_iff o t' hne' hsub', total_perm hpt]
  constructor
  · intro out hout
    obtain ⟨t, ht, hnd, hm⟩ := mem_uniqL.mp hout
    obtain ⟨y, hy, hp⟩ := hcls t ht
    have hyin : y ∈ input := hperm.mem_iff.mp (List.mem_flatten.mpr ⟨t, ht, hy⟩)
    have ht' := hcover' y hyin
    have hyt' : y ∈ input.filter (fun r => decide (key o r = key o y)) := by simp [hyin]
    obtain ⟨hd, a, b, hma, hmb, hobs⟩ := hpair t ht _ ht' y hy hyt'
    rw [hm] at hma; cases hma
    exact ⟨b, mem_uniq.mpr ⟨_, ht', by rw [← hd]; exact hnd, hmb⟩, hobs⟩
  · intro out' hout'
    obtain ⟨t', ht', hnd, hm⟩ := mem_uniq.mp hout'
    obtain ⟨y, hy, et⟩ := hcls' t' ht'
    have hyin : y ∈ input := by rw [et] at hy; exact (List.mem_filter.mp hy).1
    obtain ⟨t, ht, hyt⟩ := List.mem_flatten.mp (hperm.mem_iff.mpr hyin)
    obtain ⟨hd, a, b, hma, hmb, hobs⟩ := hpair t ht t' ht' y hyt hy
    rw [hm] at hmb; cases hmb
    obtain ⟨e1, e2, e3, e4, e5⟩ := hobs
    exact ⟨a, mem_uniqL.mpr ⟨t, ht, by rw [hd]; exact hnd, hma⟩,
      e1.symm, e2.symm, e3.symm, fun k hk v => (e4 k hk v).symm, fun kv => (e5 kv).symm⟩

/-- non-vacuity of the loop-level hypotheses: the two executable sorts are sorts, and the chunks `Distribute`
makes (`group (hashC h) input`), dealt to any number of workers, are `ChunksOK` -/
example : ValidSorter sortStable ∧ ValidSorter sortAnti ∧ ValidSorter sortMerge ∧ ValidSorter sortMergeAnti :=
  ⟨sortStable_valid, sortAnti_valid, sortMerge_valid, sortMergeAnti_valid⟩

/-- test: the loop-level pipeline on a concrete input with the anti-stable sort and two workers: the same three
classes as `uniq` gives on `exIn` below (in another order, with another member order inside the classes) -/
example : (uniqL sortAnti { cats := ["s"], stats := ["s", "t"], na := "NA", noSingleton := false }
      (dealTo 2 (group (hashC (fun s => s.length % 2))
        [ { id := "a", seq := [97, 99], cnt := none, attrs := [("s", "x"), ("t", "u")], merged := [] },
          { id := "b", seq := [97, 99], cnt := some 3, attrs := [("t", "u"), ("s", "x")],
            merged := [("t", [("u", 2), ("w", 1)])] },
          { id := "c", seq := [97, 99], cnt := some 2, attrs := [], merged := [] },
          { id := "d", seq := [103], cnt := some 1, attrs := [("s", "NA")], merged := [] } ]))).map
      (fun r => (r.count, r.merged.lookup "t")) =
    [(2, some [("NA", 2)]), (4, some [("u", 3), ("w", 1)]), (1, some [("NA", 1)])] := by decide

example (h : Seq → Nat) (input : List Rec) : ChunksOK h input [group (hashC h) input] :=
  chunksOK_of_perm h input _ (by simp)

/-! ## non-vacuity (tests on a concrete input, not proofs of the property) -/


def exO : Opts := { cats := ["s"], stats := ["s", "t"], na := "NA", noSingleton := false }
def exIn : List Rec :=
  [ { id := "a", seq := [97, 99], cnt := none, attrs := [("s", "x"), ("t", "u")], merged := [] },
    { id := "b", seq := [97, 99], cnt := some 3, attrs := [("t", "u"), ("s", "x")], merged := [("t", [("u", 2), ("w", 1)])] },
    { id := "c", seq := [97, 99], cnt := some 2, attrs := [], merged := [] },
    { id := "d", seq := [103], cnt := some 1, attrs := [("s", "NA")], merged := [] } ]

example : InputOK exO exIn := by
  refine ⟨by decide, ?_, ?_⟩
  · intro r hr; simp [exIn] at hr; rcases hr with rfl | rfl | rfl | rfl <;> decide
  · intro r hr; simp [exIn] at hr; rcases hr with rfl | rfl | rfl | rfl <;> simp [Rec.WF]

/-- test: three classes — (ac, x) with count 4 and merged_t = {u:3, w:1}; (ac, NA); (g, NA) -/
example : (uniq (fun s => s.length % 2) exO exIn).map (fun r => (r.id, r.count, r.attrs)) =
    [("a", 4, [("s", "x"), ("t", "u")]), ("c", 2, []), ("d", 1, [("s", "NA")])] := by decide

example : (uniq (fun s => s.length % 2) exO exIn).map (fun r => r.merged) =
    [ [("s", [("x", 4)]), ("t", [("u", 3), ("w", 1)])],
      [("s", [("NA", 2)]), ("t", [("NA", 2)])],
      [("s", [("NA", 1)]), ("t", [("NA", 1)])] ] := by decide

example : (uniq (fun _ => 0) { exO with noSingleton := true } exIn).map (·.id) = ["a", "c"] := by decide

example : (demerge "t" (uniq (fun _ => 0) exO exIn)).map (fun r => (r.id, r.count, r.attrs.lookup "t")) =
    [("a", 3, some "u"), ("a", 1, some "w"), ("c", 2, some "NA"), ("d", 1, some "NA")] := by decide

/-- test: the hypotheses of `demerge_uniq` are satisfiable (k = "t" is not a category, the map of the first
output is non-empty with entries ≥ 1) and its conclusion on this input -/
def exO2 : Opts := { exO with stats := ["t"] }

example : InputOK exO2 exIn ∧ exO2.stats = ["t"] ∧ "t" ∉ exO2.cats ∧ exO2.noSingleton = false := by
  refine ⟨⟨by decide, ?_, ?_⟩, rfl, by decide, rfl⟩
  · intro r hr; simp [exIn] at hr; rcases hr with rfl | rfl | rfl | rfl <;> decide
  · intro r hr; simp [exIn] at hr; rcases hr with rfl | rfl | rfl | rfl <;> simp [Rec.WF]

example : (uniq (fun _ => 0) exO2 exIn).map (fun r => r.merged.lookup "t") =
    [some [("u", 3), ("w", 1)], some [("NA", 2)], some [("NA", 1)]] := by decide

example : (uniq (fun s => s.length) exO2 (demerge "t" (uniq (fun _ => 0) exO2 exIn))).map
      (fun r => (r.count, r.merged.lookup "t")) =
    [(4, some [("u", 3), ("w", 1)]), (2, some [("NA", 2)]), (1, some [("NA", 1)])] := by decide


/-! ## third pass: the chunk stage loop by loop, the goroutines as a transition system, counts < 1

`Model/UniqChunk.lean`: `Distribute` (per-record loop, batches of `size`, final flush), `ISequenceChunk` (memory),
`ISequenceChunkOnDisk` (one file per code, lexical order of the names, `Load`, file layer as a parameter).
`Model/UniqSteps.lean`: the chunk channel shared by `n` workers, their pushes on `iUnique`, the merge stage. -/

/-- `Distribute`, every batch size, every partition of the input into batches: distinct codes, each output
delivers exactly the records of its code in input order, no empty batch, every code of the input announced -/
theorem distribute_exact (code : Rec → Nat) (size : Nat) (batches : List (List Rec)) :
    ((distribute code size batches).map (·.1)).Nodup ∧
    (∀ e ∈ distribute code size batches,
      e.2.flatten = batches.flatten.filter (fun r => decide (code r = e.1)) ∧ e.2.flatten ≠ [] ∧
      ∀ b ∈ e.2, b ≠ []) ∧
    (∀ r ∈ batches.flatten, code r ∈ (distribute code size batches).map (·.1)) :=
  distribute_spec code size batches

/-- **`ChunksOK` is a theorem (memory mode)**: the hypothesis of `uniqL_refines` holds for the chunks the
transcribed `ISequenceChunk` builds, pushed in any order, shared out between the workers in any way -/
theorem chunks_ok_mem (h : Seq → Nat) (size : Nat) (batches : List (List Rec)) (ws : List (List (List Rec)))
    (hp : ws.flatten.Perm ((chunkMem (fun r => h r.seq) size batches).map (·.2))) :
    ChunksOK h batches.flatten ws :=
  chunkMem_chunksOK h size batches ws hp

/-- **`ChunksOK` is a theorem (on-disk mode)**: if the temporary directory can be made and the file layer gives
back the records it was given (`RoundTrip`: property C02 for the FASTA / JSON-header layer), the chunk files
re-read in any member order (`LoadOK`) are `ChunksOK`; no record is lost in a file -/
theorem chunks_ok_disk {β : Type} (fl : FileLayer β) (okr : Rec → Prop) (hrt : RoundTrip fl okr)
    (ld : List Rec → List Rec) (hl : LoadOK ld) (h : Seq → Nat) (size : Nat) (batches : List (List Rec))
    (hok : ∀ r ∈ batches.flatten, okr r) :
    ∃ cs, chunkDisk fl ld true (fun r => h r.seq) size batches = .ok cs ∧
      ∀ ws : List (List (List Rec)), ws.flatten.Perm (cs.map (·.2)) → ChunksOK h batches.flatten ws :=
  chunkDisk_chunksOK fl okr hrt ld hl h size batches hok

/-- no usable temporary directory: the outcome is the error, never a (partial) result -/
theorem disk_mkdir_error {β : Type} (fl : FileLayer β) (ld : List Rec → List Rec) (code : Rec → Nat) (size : Nat)
    (batches : List (List Rec)) : chunkDisk fl ld false code size batches = .error "err" :=
  chunkDisk_mkdir_fails fl ld code size batches

/-- **the goroutines lose nothing and deliver nothing twice, for every interleaving**: a final state reachable
from the chunks `cs` with `n` workers has shared out `cs` (every chunk to exactly one worker) and has delivered a
permutation of `uniqL` on that sharing -/
theorem pipeline_delivers (srt : Sorter) (o : Opts) (cs : List (List Rec)) (n : Nat) (s : Pipe.State)
    (h : Pipe.Reach srt o (Pipe.init cs n) s) (hf : Pipe.final s = true) :
    (s.ws.map (·.got)).flatten.Perm cs ∧ (Pipe.result o s).Perm (uniqL srt o (s.ws.map (·.got))) :=
  Pipe.pipe_delivers srt o cs n s h hf

/-- no deadlock: with at least one worker every reachable non-final state has an enabled move -/
theorem pipeline_progress (srt : Sorter) (o : Opts) (cs : List (List Rec)) (n : Nat) (hn : 0 < n)
    (s : Pipe.State) (h : Pipe.Reach srt o (Pipe.init cs n) s) (hf : Pipe.final s = false) :
    ∃ s', Pipe.Step srt o s s' :=
  Pipe.pipe_progress srt o cs n hn s h hf

/-- **the whole of `IUniqueSequence`, no hypothesis about chunking or scheduling left**: for every sort, batch
size of `Distribute`, partition of the input into batches, push order of the chunks, number of workers and
interleaving of the goroutines, the delivered records correspond one to one, up to `ObsEq`, to the outputs of the
functional model `uniq` (any chunk function `h'`), and without `--no-singleton` the total count is conserved -/
theorem pipeline_refines (srt : Sorter) (hs : ValidSorter srt) (h h' : Seq → Nat) (o : Opts) (size : Nat)
    (batches : List (List Rec)) (cs : List (List Rec))
    (hcs : cs.Perm ((chunkMem (fun r => h r.seq) size batches).map (·.2))) (n : Nat) (s : Pipe.State)
    (hr : Pipe.Reach srt o (Pipe.init cs n) s) (hf : Pipe.final s = true) (ok : InputOK o batches.flatten) :
    (∀ out ∈ Pipe.result o s, ∃ out' ∈ uniq h' o batches.flatten, ObsEq o out out') ∧
    (∀ out' ∈ uniq h' o batches.flatten, ∃ out ∈ Pipe.result o s, ObsEq o out' out) ∧
    (o.noSingleton = false → total (Pipe.result o s) = total batches.flatten) := by
  obtain ⟨hws, hperm⟩ := Pipe.pipe_chunksOK srt o h size batches cs hcs n s hr hf
  obtain ⟨r1, r2⟩ := uniqL_refines srt hs h h' o batches.flatten _ hws ok
  refine ⟨fun out hout => r1 out (hperm.mem_iff.mp hout), ?_, ?_⟩
  · intro out' hout'
    obtain ⟨out, ho, he⟩ := r2 out' hout'
    exact ⟨out, hperm.mem_iff.mpr ho, he⟩
  · intro hns
    rw [total_perm hperm]
    exact uniqL_total srt hs h o batches.flatten _ hws ok hns

set_option maxRecDepth 8000 in
/-- non-vacuity: a schedule-driven run of the transition system from two chunks of `exIn` is an execution that
ends in a final state (test on one input) -/
example : Pipe.final (Pipe.runSched sortStable exO [2, 0, 1, 1, 2, 0] 12
    (Pipe.init [exIn.take 3, exIn.drop 3] 2)) = true := by decide

/-! ### counts < 1 are outside the quantifier — and must be: counterexamples (each `decide` on one input) -/

/-- a record with `count = 0` comes out with count 1 (`SetCount`: `if count < 1 { count = 1 }`): the total is
not conserved -/
theorem zero_count_not_conserved :
    total (uniq (fun _ => 0) { cats := [], stats := [], na := "NA", noSingleton := false }
      [{ id := "a", seq := [97], cnt := some 0, attrs := [], merged := [] }]) = 1 := by decide

/-- with `count = 0` members the merged count depends on the order of the members (the intermediate sums are
clamped): `[0, 0, 1]` gives 2, `[1, 0, 0]` gives 1 — so the hypothesis `1 ≤ r.count` of `InputOK` cannot be
dropped from `uniq_count` / `uniq_perm` -/
theorem zero_count_order_dependent :
    let z (i : String) : Rec := { id := i, seq := [97], cnt := some 0, attrs := [], merged := [] }
    let one : Rec := { id := "c", seq := [97], cnt := some 1, attrs := [], merged := [] }
    (mergeClass "NA" [] [z "a", z "b", one]).map Rec.count = some 2 ∧
    (mergeClass "NA" [] [one, z "a", z "b"]).map Rec.count = some 1 := by decide

end ObiVerif.Props.C06
