import ObiVerif.Props.C18Z
import ObiVerif.Model.WriteOpen
/-!
# C18 — opening the output: missing / non-writable directory, truncate and append mode (property theorems)

* `open_failure_fatal`: an output that cannot be opened (`-o` into a missing or read-only directory, a path through a
  regular file, a directory in place of the file) is fatal, whatever the writer and the result, and leaves the file
  system as it was;
* `file_raw_exact` / `file_json_exact`: an output that can be opened: fatal iff the result does not fit in the room
  left or `Close` fails; the file ends with (append: its old content followed by) the first `room` bytes of the result;
* `file_*_ok_complete`: outcome `ok` implies the file holds (append: the old content followed by) every byte;
* `append_keeps_old`: in append mode the old content is a prefix of the file after the run, failed or not;
  `truncate_loses_old`: without `--append` a failing run has already destroyed the old content (said, not hidden).
-/
namespace ObiVerif.Props.C18
open ObiVerif.Reseq ObiVerif.WriteErr

theorem open_failure_fatal (append : Bool) (s : Slot) (h : s.openable = false) (run : Nat → Bool → Outcome × Bytes) :
    withOpen append s run = (.fatal, s.old) := by
  unfold withOpen; simp [h]

theorem file_raw_exact (append : Bool) (s : Slot) (h : s.openable = true) (size : Nat) (v : Nat → Bytes) (n : Nat)
    (ks : List Nat) (hp : ks.Perm (List.range n)) :
    fileRaw append s size (ks.map fun k => (k, v k)) =
      (if s.room < (rawExpected v n).length || s.closeFails then .fatal else .ok,
       some ((if append then s.old.getD [] else []) ++ (rawExpected v n).take s.room)) := by
  unfold fileRaw withOpen
  simp only [h, Bool.not_true, Bool.false_eq_true, if_false]
  rw [rawO_exact size s.room s.closeFails true v n ks hp]
  simp

theorem file_json_exact (append : Bool) (s : Slot) (h : s.openable = true) (size : Nat) (v : Nat → Bytes) (n : Nat)
    (ks : List Nat) (hp : ks.Perm (List.range n)) :
    fileJson append s size (ks.map fun k => (k, v k)) =
      (if s.room < (jsonExpected v n).length || s.closeFails then .fatal else .ok,
       some ((if append then s.old.getD [] else []) ++ (jsonExpected v n).take s.room)) := by
  unfold fileJson withOpen
  simp only [h, Bool.not_true, Bool.false_eq_true, if_false]
  rw [jsonO_exact size s.room s.closeFails true v n ks hp]
  simp

/-- an `ok` outcome: the file could be opened and holds (after its old content, in append mode) every byte -/
theorem file_raw_ok_complete (append : Bool) (s : Slot) (size : Nat) (v : Nat → Bytes) (n : Nat)
    (ks : List Nat) (hp : ks.Perm (List.range n)) (content : Option Bytes)
    (h : fileRaw append s size (ks.map fun k => (k, v k)) = (.ok, content)) :
    s.openable = true ∧ content = some ((if append then s.old.getD [] else []) ++ rawExpected v n) ∧ s.closeFails = false := by
  cases ho : s.openable with
  | false =>
    have := open_failure_fatal append s ho (fun room cf => writeRawO size room cf true (ks.map fun k => (k, v k)))
    unfold fileRaw at h
    rw [this] at h
    cases h
  | true =>
    rw [file_raw_exact append s ho size v n ks hp] at h
    by_cases hc : (s.room < (rawExpected v n).length || s.closeFails) = true
    · rw [if_pos hc] at h; cases h
    · rw [if_neg hc] at h
      simp only [Bool.or_eq_true, decide_eq_true_eq, not_or, Nat.not_lt, Bool.not_eq_true] at hc
      refine ⟨rfl, ?_, hc.2⟩
      rw [← (Prod.mk.inj h).2, List.take_of_length_le hc.1]

theorem file_json_ok_complete (append : Bool) (s : Slot) (size : Nat) (v : Nat → Bytes) (n : Nat)
    (ks : List Nat) (hp : ks.Perm (List.range n)) (content : Option Bytes)
    (h : fileJson append s size (ks.map fun k => (k, v k)) = (.ok, content)) :
    s.openable = true ∧ content = some ((if append then s.old.getD [] else []) ++ jsonExpected v n) ∧ s.closeFails = false := by
  cases ho : s.openable with
  | false =>
    have := open_failure_fatal append s ho (fun room cf => writeJsonO size room cf true (ks.map fun k => (k, v k)))
    unfold fileJson at h
    rw [this] at h
    cases h
  | true =>
    rw [file_json_exact append s ho size v n ks hp] at h
    by_cases hc : (s.room < (jsonExpected v n).length || s.closeFails) = true
    · rw [if_pos hc] at h; cases h
    · rw [if_neg hc] at h
      simp only [Bool.or_eq_true, decide_eq_true_eq, not_or, Nat.not_lt, Bool.not_eq_true] at hc
      refine ⟨rfl, ?_, hc.2⟩
      rw [← (Prod.mk.inj h).2, List.take_of_length_le hc.1]

/-- `--append`: whatever happens, what was in the file is still there, in front -/
theorem append_keeps_old (s : Slot) (old : Bytes) (ho : s.old = some old) (run : Nat → Bool → Outcome × Bytes) :
    ∃ c, (withOpen true s run).2 = some c ∧ old <+: c := by
  unfold withOpen
  cases s.openable with
  | false => exact ⟨old, by simp [ho], List.prefix_refl _⟩
  | true => exact ⟨old ++ (run s.room s.closeFails).2, by simp [ho], List.prefix_append _ _⟩

/-- without `--append` a run whose output fails at the first byte has emptied the existing file all the same -/
theorem truncate_loses_old :
    fileRaw false ⟨true, some [1, 2, 3], 0, false⟩ 4 ([1, 0, 2].map fun k => (k, exV k)) = (.fatal, some []) := by
  rw [file_raw_exact false _ rfl 4 exV 3 [1, 0, 2] (by decide)]
  decide

/-! ## non-vacuity -/

/-- append onto `[1,2,3]`, room for 4 of the 6 bytes: fatal, old content then 4 bytes -/
example : fileRaw true ⟨true, some [1, 2, 3], 4, false⟩ 4 ([1, 0, 2].map fun k => (k, exV k))
    = (.fatal, some [1, 2, 3, 65, 66, 67, 67]) := by
  rw [file_raw_exact true _ rfl 4 exV 3 [1, 0, 2] (by decide)]
  decide

/-- append, everything fits: ok; the file did not exist: created -/
example : fileRaw true ⟨true, none, 6, false⟩ 4 ([1, 0, 2].map fun k => (k, exV k))
    = (.ok, some [65, 66, 67, 67, 66, 67]) := by
  rw [file_raw_exact true _ rfl 4 exV 3 [1, 0, 2] (by decide)]
  decide

/-- missing directory: fatal, no file -/
example : fileJson false ⟨false, none, 100, false⟩ 4 ([1, 0, 2].map fun k => (k, exV k)) = (.fatal, none) :=
  open_failure_fatal false _ rfl _

/-- the hypothesis of `file_raw_ok_complete` is satisfiable -/
example : ∃ c, fileRaw true ⟨true, some [9], 6, false⟩ 4 ([1, 0, 2].map fun k => (k, exV k)) = (.ok, c) ∧
    c = some ([9] ++ rawExpected exV 3) := by
  have h : fileRaw true ⟨true, some [9], 6, false⟩ 4 ([1, 0, 2].map fun k => (k, exV k)) = (.ok, some [9, 65, 66, 67, 67, 66, 67]) := by
    rw [file_raw_exact true _ rfl 4 exV 3 [1, 0, 2] (by decide)]
    decide
  exact ⟨_, h, (file_raw_ok_complete true _ 4 exV 3 [1, 0, 2] (by decide) _ h).2.1⟩

end ObiVerif.Props.C18
