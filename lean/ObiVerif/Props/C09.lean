import ObiVerif.Model.Lcs
import ObiVerif.Lemmas.Lcs
import ObiVerif.Lemmas.LcsBand
import ObiVerif.Model.LcsBuf
import ObiVerif.Lemmas.LcsD1Verbatim
import ObiVerif.Lemmas.LcsVerbatimTop
import ObiVerif.Lemmas.LcsVerbatimIndep
import ObiVerif.Model.LcsEgf
import ObiVerif.Lemmas.LcsEgfTop
import ObiVerif.Lemmas.LcsEgfSound
import ObiVerif.Lemmas.LcsSentinel
import ObiVerif.Lemmas.LcsEgfOpt
import ObiVerif.Lemmas.LcsLong
import ObiVerif.Lemmas.LcsBytes
/-!
# C09 — LCS and one-difference kernels are exact within their error bound (property theorems)

`Gen.alignIupac` is regenerated from pkg/obialign/fastlcsegf.go on every run, so the table theorems are
re-checked against what the source says now.
-/
namespace ObiVerif.Props.C09
open ObiVerif.Lcs

/-! ## The IUPAC table -/

/-- SPECIFICATION: the set of nucleotides an IUPAC symbol (lower case) stands for, as a bit set
a = 1, c = 2, g = 4, t = u = 8; every other byte denotes no nucleotide -/
def nucSet (x : UInt8) : Nat :=
  if x = 97 then 1 else if x = 99 then 2 else if x = 103 then 4 else if x = 116 ∨ x = 117 then 8
  else if x = 114 then 1 + 4      -- r = a|g
  else if x = 121 then 2 + 8      -- y = c|t
  else if x = 115 then 2 + 4      -- s = c|g
  else if x = 119 then 1 + 8      -- w = a|t
  else if x = 107 then 4 + 8      -- k = g|t
  else if x = 109 then 1 + 2      -- m = a|c
  else if x = 98 then 2 + 4 + 8   -- b = not a
  else if x = 100 then 1 + 4 + 8  -- d = not c
  else if x = 104 then 1 + 2 + 8  -- h = not g
  else if x = 118 then 1 + 2 + 4  -- v = not t
  else if x = 110 then 15         -- n
  else 0

/-- the IUPAC nucleotide symbols, lower and upper case -/
def iupacSyms : List UInt8 :=
  [97, 99, 103, 116, 117, 114, 121, 115, 119, 107, 109, 98, 100, 104, 118, 110,
   65, 67, 71, 84, 85, 82, 89, 83, 87, 75, 77, 66, 68, 72, 86, 78]

/-- **Table lemma** (decided over the WHOLE generated table): `_iupac` has 26 entries and `_iupac[x - 'a']` is
the bit set of the symbol `x`, for every lower-case letter (0 for the letters that are not IUPAC codes). -/
theorem iupac_table_is_bitset :
    Gen.alignIupac.length = 26 ∧ ∀ i < 26, iupac i = nucSet (UInt8.ofNat (97 + i)) := by decide

/-- consequence for `_samenuc`: two IUPAC symbols (either case) match iff their nucleotide sets intersect -/
theorem samenuc_iff_sets_intersect :
    ∀ x ∈ iupacSyms, ∀ y ∈ iupacSyms,
      samenuc x y = decide (nucSet (lowerAZ x) &&& nucSet (lowerAZ y) ≠ 0) := by decide

theorem samenuc_symm_iupac : ∀ x ∈ iupacSyms, ∀ y ∈ iupacSyms, samenuc x y = samenuc y x := by decide

/-! ## The packed cell of the LCS kernel (fastlcs.go) -/

/-- **`cell_order`** — for 16-bit scores and lengths (`< 65535`: the length field holds `65534 - length`):
comparing two in-band packed cells as `uint64` is the lexicographic comparison (score, then SHORTER length);
every out-of-band cell is below every in-band cell; the codec round-trips. -/
theorem cell_order (s l s' l' : Nat) (hs : s < 65536) (hs' : s' < 65536) (hl : l < 65535) (hl' : l' < 65535) :
    (encodeValues s l false ≤ encodeValues s' l' false ↔ (s < s' ∨ (s = s' ∧ l' ≤ l))) ∧
    (encodeValues s l true ≤ encodeValues s' l' true ↔ (s < s' ∨ (s = s' ∧ l' ≤ l))) ∧
    encodeValues s l true < encodeValues s' l' false ∧
    (∀ o, decodeValues (encodeValues s l o) = (s, l, o)) :=
  ⟨encode_le_iff s l s' l' false hs hs' (by omega) (by omega),
   encode_le_iff s l s' l' true hs hs' (by omega) (by omega),
   encode_out_lt_in s l s' l' hs hs' (by omega) (by omega),
   fun o => decode_encode s l o hs (by omega)⟩

/-- the cell operations act on the fields as their names say (no carry between the fields within the bounds) -/
theorem cell_ops (s l : Nat) (o : Bool) (hs : s + 1 < 65536) (hl : l + 1 < 65535) :
    incpath (encodeValues s l o) = encodeValues s (l + 1) o ∧
    incscore (encodeValues s l o) = encodeValues (s + 1) l o ∧
    setout (encodeValues s l o) = encodeValues s l true :=
  ⟨incpath_encode s l o (by omega) (by omega), incscore_encode s l o hs (by omega),
   setout_encode s l o (by omega) (by omega)⟩

/-- the bound is sharp: at length 65535 the inverted length field wraps around and a longer path compares as
better than a shorter one (test on one value, showing the hypothesis `l < 65535` cannot be dropped) -/
example : ¬ (encodeValues 0 65535 false ≤ encodeValues 0 0 false) := by decide

/-! ## The LCS kernel

Specification: `Ali samenuc a b s l` = there is an alignment of `a` and `b` with `l` columns, `s` of which pair
two IUPAC-compatible symbols (`samenuc`, i.e. by `samenuc_iff_sets_intersect` symbols whose nucleotide sets
intersect); the other columns are mismatches or gaps. The LCS length is the largest such `s`, the "shortest
alignment achieving it" the smallest `l` for that `s`; the number of differences of an alignment is `l - s`.

The theorems are stated on the structural layer `bandLCS` (the banded matrix of `FastLCSEGFScoreByte`,
endgapfree = false, by rows, with the packed `uint64` cells, the band limits, `_out`/`_notavail` and `_setout`
of the code); the verbatim two-row/anti-diagonal transcription `fastLCSEGFScoreByte` is PROVED equal to it for all
inputs and every scratch buffer (`fastLCS_verbatim_refines`, section "Refinement" below, where the theorems are
restated on the verbatim functions); both layers are still executed side by side on every correspondence case
(`layer-mismatch` otherwise). -/

/-- **`lcsDP_is_lcs`** — the textbook full-matrix recurrence `lcsDP` returns (LCS length, length of the shortest
alignment achieving it): its value is realised by an alignment and no alignment has a higher score, or the same
score with fewer columns. For every compatibility relation `m`, all sequences. -/
theorem lcsDP_is_lcs (m : UInt8 → UInt8 → Bool) (a b : Seq) :
    Ali m a b (lcsDP m a b).1 (lcsDP m a b).2 ∧
    ∀ s l, Ali m a b s l → (s < (lcsDP m a b).1 ∨ (s = (lcsDP m a b).1 ∧ (lcsDP m a b).2 ≤ l)) := by
  refine ⟨(lcsDP_opt m a b).1, fun s l h => ?_⟩
  have := (lcsDP_opt m a b).2 s l h
  rw [better_iff] at this
  simp only at this
  omega

/-- **`fastLCS_sound`** — never a spurious answer, for every bound (`-1` included) and all sequences with
`|a| + |b| < 30000` (the sentinel `_notavail` is the length 30000): an answer `(s, l)` of the kernel is the score
and the length of an actual alignment. In particular `s ≤ LCS`, and if `s = LCS` then `l ≥` the shortest
alignment length, so an answer can never claim fewer differences than the sequences have. -/
theorem fastLCS_sound (a b : Seq) (e : Int) (s l : Nat) (hlen : a.length + b.length + 1 ≤ 30000)
    (h : bandLCS a b e = some (s, l)) :
    Ali samenuc a b s l ∧
    (s < (lcsDP samenuc a b).1 ∨ (s = (lcsDP samenuc a b).1 ∧ (lcsDP samenuc a b).2 ≤ l)) :=
  ⟨bandLCS_sound a b e s l hlen h, (lcsDP_is_lcs samenuc a b).2 s l (bandLCS_sound a b e s l hlen h)⟩

/-- corollary: a returned pair whose own number of differences is within the bound proves that the sequences
have an alignment with that few differences (no spurious within-bound answer) -/
theorem fastLCS_within_bound_is_real (a b : Seq) (e : Int) (s l : Nat) (hlen : a.length + b.length + 1 ≤ 30000)
    (h : bandLCS a b e = some (s, l)) (hb : (l : Int) - s ≤ e) :
    ∃ s' l', Ali samenuc a b s' l' ∧ (l' : Int) - s' ≤ e :=
  ⟨s, l, bandLCS_sound a b e s l hlen h, hb⟩

/-! ### Exactness

`fastLCS_exact` / `fastLCS_beyond` below are the full statements of DESIGN §4 C09. The band-containment argument
is in `Lemmas/LcsBand.lean`: an alignment with `L` columns of `A` (columns, the longer sequence) and `B` has
`L - |A|` vertical and `L - |B|` horizontal gap columns, so all its prefixes end on diagonals `j - i` in
`[-(L - |A|), L - |B|]` (`Ali.toIn`); every cell of the banded matrix is, as a packed word, at least every
alignment of its two prefixes that stays strictly between the two border diagonals `-2·extra` and
`2·(delta+extra)` that `_setout` marks (`bandCell_lb`, carried through the rows together with the soundness
invariant); with at most `e` differences the optimum has at most `(e - delta)/2 < 2·extra` vertical and
`(e + delta)/2 < 2·(delta+extra)` horizontal gaps. `fastLCS_exact_partial` (the earlier statement, for bands that
cover the whole matrix) is kept. -/

/-- **`fastLCS_exact_partial`** — with no bound (`e = -1`), or with a bound whose band covers the whole matrix,
the kernel returns exactly (LCS length, length of the shortest alignment achieving it) = the textbook optimum
`lcsDP` (see `lcsDP_is_lcs`), for all sequences with `|a| + |b| < 30000`. The packed-cell arithmetic, the
sentinels, the three-way `uint64` selection and the boundary cells are all part of what is proved. -/
theorem fastLCS_exact_partial (a b : Seq) (e : Int) (hlen : a.length + b.length + 1 ≤ 30000)
    (h : e = -1 ∨ wideBand (max a.length b.length) (min a.length b.length) e) :
    bandLCS a b e = some (lcsDP samenuc a b) := by
  by_cases he : e = -1
  · subst he; exact bandLCS_exact_unbounded a b hlen
  · rcases h with h | h
    · exact absurd h he
    · exact bandLCS_exact_wide a b e hlen he h

/-- the unbounded kernel is symmetric in its arguments (consequence of exactness) -/
theorem fastLCS_symm_unbounded (a b : Seq) (hlen : a.length + b.length + 1 ≤ 30000) :
    bandLCS a b (-1) = bandLCS b a (-1) := by
  rw [fastLCS_exact_partial a b (-1) hlen (.inl rfl), fastLCS_exact_partial b a (-1) (by omega) (.inl rfl),
    lcsDP_samenuc_swap]

/-- **`fastLCS_exact_cover`** — the sharpest form proved: for every explicit bound `e` (any integer other than
the "no bound" value `-1`), the kernel returns exactly the optimum as soon as `max(|a|, |b|) ≤ LCS + e`
(then the optimal alignment has at most `e` gap columns on the longer sequence's side and cannot leave the band).
All sequences with `|a| + |b| < 30000`. -/
theorem fastLCS_exact_cover (a b : Seq) (e : Int) (hlen : a.length + b.length + 1 ≤ 30000) (he : e ≠ -1)
    (h : ((max a.length b.length : Nat) : Int) ≤ ((lcsDP samenuc a b).1 : Int) + e) :
    bandLCS a b e = some (lcsDP samenuc a b) :=
  bandLCS_exact_band a b e hlen he h

/-- **`fastLCS_exact`** (full statement) — with no bound (`e = -1`), or whenever the number of differences implied
by the optimum (length of the shortest alignment achieving the LCS minus the LCS length, see `lcsDP_is_lcs`)
does not exceed the requested bound `e`, the banded kernel returns exactly (LCS length, length of the shortest
alignment achieving it). All sequences with `|a| + |b| < 30000`, every `e` (a negative `e ≠ -1` makes the
hypothesis false). The packed-cell arithmetic, the sentinels `_out`/`_notavail`, the `_setout` marking of the two
border diagonals and the three-way `uint64` selection are all part of what is proved. -/
theorem fastLCS_exact (a b : Seq) (e : Int) (hlen : a.length + b.length + 1 ≤ 30000)
    (h : e = -1 ∨ ((lcsDP samenuc a b).2 : Int) - ((lcsDP samenuc a b).1 : Int) ≤ e) :
    bandLCS a b e = some (lcsDP samenuc a b) := by
  by_cases he : e = -1
  · subst he; exact bandLCS_exact_unbounded a b hlen
  · rcases h with h | h
    · exact absurd h he
    · exact bandLCS_exact_band a b e hlen he (diff_le_imp_cover a b e h)

/-- **`fastLCS_beyond`** (full statement) — when the optimum has more differences than the explicit bound `e`
(`e ≠ -1`; negative bounds included), the kernel answers "not found" (`none` = (-1, -1)) or a pair `(s, l)` that
is itself beyond the bound (`l - s > e`): never a spurious within-bound answer. (`(s, l)` is then the score and
length of an actual alignment by `fastLCS_sound`, possibly not the optimum — see the example below.) -/
theorem fastLCS_beyond (a b : Seq) (e : Int) (hlen : a.length + b.length + 1 ≤ 30000)
    (h : e ≠ -1 ∧ e < ((lcsDP samenuc a b).2 : Int) - ((lcsDP samenuc a b).1 : Int)) :
    bandLCS a b e = none ∨ ∃ s l, bandLCS a b e = some (s, l) ∧ e < (l : Int) - (s : Int) :=
  bandLCS_beyond a b e hlen h.1 h.2

/-- **`fastLCS_decides_bound`** — the two statements combined: for an explicit bound `e`, the kernel gives an
answer with at most `e` differences **iff** the sequences have an optimal alignment with at most `e` differences,
and such an answer is the optimum. -/
theorem fastLCS_decides_bound (a b : Seq) (e : Int) (hlen : a.length + b.length + 1 ≤ 30000) (he : e ≠ -1) :
    ((∃ s l, bandLCS a b e = some (s, l) ∧ (l : Int) - (s : Int) ≤ e) ↔
      ((lcsDP samenuc a b).2 : Int) - ((lcsDP samenuc a b).1 : Int) ≤ e) ∧
    (∀ s l, bandLCS a b e = some (s, l) → (l : Int) - (s : Int) ≤ e → (s, l) = lcsDP samenuc a b) := by
  refine ⟨⟨?_, ?_⟩, fun s l h hb => bandLCS_within_is_opt a b e s l hlen he h hb⟩
  · rintro ⟨s, l, h, hb⟩
    have := bandLCS_within_is_opt a b e s l hlen he h hb
    rw [← this]; exact hb
  · intro h
    exact ⟨_, _, fastLCS_exact a b e hlen (.inr h), h⟩

/-- non-vacuity of `fastLCS_exact` / `fastLCS_exact_cover` on a NARROW band (test on one value): "acgtac" against
"acgtc" with the bound 1 — the band does not cover the matrix (`wideBand` fails), the optimum (5, 6) has one
difference, and the kernel returns it -/
example : lcsDP samenuc [97, 99, 103, 116, 97, 99] [97, 99, 103, 116, 99] = (5, 6) ∧
    ¬ wideBand (max 6 5) (min 6 5) 1 ∧
    bandLCS [97, 99, 103, 116, 97, 99] [97, 99, 103, 116, 99] 1 = some (5, 6) := by
  have h1 : lcsDP samenuc [97, 99, 103, 116, 97, 99] [97, 99, 103, 116, 99] = (5, 6) := by decide +kernel
  refine ⟨h1, by unfold wideBand; decide, ?_⟩
  rw [fastLCS_exact _ _ 1 (by decide) (.inr (by rw [h1]; decide)), h1]

/-- non-vacuity of `fastLCS_beyond` (test on one value): "aacccc" against "ccaacc" with the bound 0 — the optimum
(4, 8) has 4 differences; the kernel answers (3, 7), an actual alignment that is not the optimum (the optimal path
leaves the band) and is itself beyond the bound (4 differences > 0) -/
example : lcsDP samenuc [97, 97, 99, 99, 99, 99] [99, 99, 97, 97, 99, 99] = (4, 8) ∧
    bandLCS [97, 97, 99, 99, 99, 99] [99, 99, 97, 97, 99, 99] 0 = some (3, 7) ∧
    ((0 : Int) ≠ -1 ∧ (0 : Int) < ((lcsDP samenuc [97, 97, 99, 99, 99, 99] [99, 99, 97, 97, 99, 99]).2 : Int) -
      ((lcsDP samenuc [97, 97, 99, 99, 99, 99] [99, 99, 97, 97, 99, 99]).1 : Int)) := by
  have h1 : lcsDP samenuc [97, 97, 99, 99, 99, 99] [99, 99, 97, 97, 99, 99] = (4, 8) := by decide +kernel
  exact ⟨h1, by decide, by decide, by rw [h1]; decide⟩

/-- non-vacuity of `wideBand`: lengths 4 and 3 with the bound 3 -/
example : wideBand (max 4 3) (min 4 3) 3 := by unfold wideBand; decide

/-- non-vacuity (tests on sample values): "acvt"/"acct" align fully now that v ∋ c; bound 0 on a pair needing
a gap is "not found" -/
example : bandLCS [97, 99, 118, 116] [97, 99, 99, 116] 0 = some (4, 4) := by decide
example : bandLCS [97, 99, 103, 116] [97, 103, 116] 0 = none ∧ bandLCS [97, 99, 103, 116] [97, 103, 116] 1 = some (3, 4) := by
  decide

/-! ## The one-difference test `D1Or0`

Stated on the structural layer `d1F` (prefix / suffix stripping); the verbatim index-loop transcription `d1or0`
is PROVED equal to `d1F` for all inputs (`d1or0_verbatim_refines` below; restated as `d1or0_verbatim_spec`,
`d1or0_verbatim_symm`) and still executed side by side with it on every correspondence case (`vm_C09` answers
`layer-mismatch` if they ever differ). `lev` is the textbook Levenshtein recurrence (byte equality, as in the code: no IUPAC here). -/

/-- **`d1or0_spec`** — for ALL pairs of sequences:
* the verdict is 0 exactly for identical sequences (edit distance 0), and then the outputs are `(-1, 0, 0)`;
* the verdict is 1 exactly for edit distance one;
* with verdict 1 the position and the two symbols reproduce the edit (`'-'` = 45 on the side of the gap);
* otherwise everything returned is `(-1, -1, 0, 0)`. -/
theorem d1or0_spec (a b : Seq) :
    ((d1F a b).verdict = 0 ↔ a = b) ∧
    ((d1F a b).verdict = 0 ↔ lev a b = 0) ∧
    ((d1F a b).verdict = 1 ↔ lev a b = 1) ∧
    ((d1F a b).verdict = 1 →
        ∃ n : Nat, (d1F a b).pos = (n : Int) ∧ OneEdit a b n (d1F a b).a1 (d1F a b).a2) ∧
    ((d1F a b).verdict = 0 → d1F a b = ⟨0, -1, 0, 0⟩) ∧
    (lev a b ≠ 0 → lev a b ≠ 1 → d1F a b = ⟨-1, -1, 0, 0⟩) := by
  have h1 : (d1F a b).verdict = 1 ↔ lev a b = 1 := by
    rw [lev_one_iff]
    constructor
    · intro h
      obtain ⟨n, _, he⟩ := d1F_one_sound a b h
      exact ⟨n, _, _, he⟩
    · rintro ⟨n, x, y, he⟩
      exact d1F_complete he
  refine ⟨d1F_zero_iff a b, ?_, h1, d1F_one_sound a b, d1F_zero_out a b, ?_⟩
  · rw [lev_zero_iff]; exact d1F_zero_iff a b
  · intro h0 hn1
    rcases d1F_verdict_cases a b with h | h | h
    · exact absurd ((lev_zero_iff a b).2 ((d1F_zero_iff a b).1 h)) h0
    · exact absurd (h1.1 h) hn1
    · exact h

/-- **`d1or0_symm`** — exchanging the arguments keeps the verdict and the position and exchanges the symbols -/
theorem d1or0_symm (a b : Seq) :
    d1F b a = ⟨(d1F a b).verdict, (d1F a b).pos, (d1F a b).a2, (d1F a b).a1⟩ := d1F_symm a b

/-- non-vacuity: the three verdicts occur ("aab"/"ab": a deletion inside a run is reported at the end of the run) -/
example : d1F [97, 97, 98] [97, 98] = ⟨1, 1, 97, 45⟩ ∧ d1F [97, 99] [97, 99] = ⟨0, -1, 0, 0⟩ ∧
    d1F [97, 98] [98, 97] = ⟨-1, -1, 0, 0⟩ ∧ d1F [97, 99, 103] [97, 116, 103] = ⟨1, 1, 99, 116⟩ := by decide

/-! ## Refinement: the theorems hold of the VERBATIM transcriptions

`d1or0` (the two index loops of `D1Or0` with their early exits, Go bounds checks explicit) and `fastLCSEGFScoreByte`
(endgapfree = false: the two anti-diagonal rows in one buffer, the `xs`/`xf` arithmetic, packed cells, sentinels,
`_setout`, every slice access bounds-checked) are proved EQUAL, for all inputs, to the structural layers `d1F` /
`bandLCS` the theorems above are stated on (`Lemmas/LcsD1Verbatim.lean`; `Lemmas/LcsMatrix.lean`,
`Lemmas/LcsVerbatim.lean`, `Lemmas/LcsVerbatimTop.lean`: invariant "the buffer row holds the in-matrix in-band cells
of anti-diagonals 2y and 2y+1 of the banded matrix", preserved by one outer iteration because every cell a loop
body READS was WRITTEN earlier in the same call). The headline theorems are restated on the verbatim functions. -/

/-- **`d1or0_verbatim_refines`** — the index loops of `D1Or0` never leave the slices (no panic), terminate within
their fuel, and return what prefix/suffix stripping returns. All byte sequences, no hypothesis. -/
theorem d1or0_verbatim_refines (a b : Seq) : d1or0 a b = .ok (d1F a b) := d1or0_refines a b

/-- **`d1or0_verbatim_spec`** — `d1or0_spec` on the verbatim transcription -/
theorem d1or0_verbatim_spec (a b : Seq) :
    ∃ d, d1or0 a b = .ok d ∧
      (d.verdict = 0 ↔ a = b) ∧ (d.verdict = 0 ↔ lev a b = 0) ∧ (d.verdict = 1 ↔ lev a b = 1) ∧
      (d.verdict = 1 → ∃ n : Nat, d.pos = (n : Int) ∧ OneEdit a b n d.a1 d.a2) ∧
      (d.verdict = 0 → d = ⟨0, -1, 0, 0⟩) ∧
      (lev a b ≠ 0 → lev a b ≠ 1 → d = ⟨-1, -1, 0, 0⟩) :=
  ⟨d1F a b, d1or0_refines a b, d1or0_spec a b⟩

/-- **`d1or0_verbatim_symm`** — `d1or0_symm` on the verbatim transcription -/
theorem d1or0_verbatim_symm (a b : Seq) :
    ∃ d, d1or0 a b = .ok d ∧ d1or0 b a = .ok ⟨d.verdict, d.pos, d.a2, d.a1⟩ :=
  ⟨d1F a b, d1or0_refines a b, by rw [d1or0_refines b a, d1or0_symm a b]⟩

/-- **`fastLCS_verbatim_refines`** — for ALL sequences (no length bound), every bound `e` and every scratch buffer
(`fill = none`: nil; `some w`: pre-allocated, every cell holding the stale word `w`), the verbatim kernel with
endgapfree = false does not panic and returns `resOf (bandLCS a b e)`: `(-1, -1, -1)` for `none`, `(s, l, 0)` for
`some (s, l)`. -/
theorem fastLCS_verbatim_refines (a b : Seq) (e : Int) (fill : Option UInt64) :
    fastLCSEGFScoreByte a b e false fill = .ok (resOf (bandLCS a b e)) :=
  ObiVerif.Lcs.fastLCS_verbatim_refines a b e fill

/-- `FastLCSScore` (the wrapper the callers use) -/
theorem fastLCSScore_verbatim_refines (a b : Seq) (e : Int) :
    fastLCSScore a b e = .ok ((resOf (bandLCS a b e)).1, (resOf (bandLCS a b e)).2.1) := by
  unfold fastLCSScore; rw [fastLCS_verbatim_refines]; rfl

/-- **`fastLCS_verbatim_never_panics`** — no slice access of the kernel (endgapfree = false) is ever out of range,
whatever the lengths, the bound and the buffer -/
theorem fastLCS_verbatim_never_panics (a b : Seq) (e : Int) (fill : Option UInt64) :
    ∃ r, fastLCSEGFScoreByte a b e false fill = .ok r := ⟨_, fastLCS_verbatim_refines a b e fill⟩

/-- **`fastLCS_verbatim_sound`** — `fastLCS_sound` on the verbatim kernel: its answer is "not found" or the score and
length of an actual alignment (never better than the optimum) -/
theorem fastLCS_verbatim_sound (a b : Seq) (e : Int) (fill : Option UInt64) (hlen : a.length + b.length + 1 ≤ 30000) :
    fastLCSEGFScoreByte a b e false fill = .ok (-1, -1, -1) ∨
    ∃ s l : Nat, fastLCSEGFScoreByte a b e false fill = .ok ((s : Int), (l : Int), 0) ∧ Ali samenuc a b s l ∧
      (s < (lcsDP samenuc a b).1 ∨ (s = (lcsDP samenuc a b).1 ∧ (lcsDP samenuc a b).2 ≤ l)) := by
  rw [fastLCS_verbatim_refines]
  cases h : bandLCS a b e with
  | none => left; rfl
  | some p => right; exact ⟨p.1, p.2, rfl, fastLCS_sound a b e p.1 p.2 hlen h⟩

/-- **`fastLCS_verbatim_exact`** — `fastLCS_exact` on the verbatim kernel: with no bound, or whenever the differences
of the optimum do not exceed the bound, it returns exactly (LCS length, length of the shortest alignment achieving
it, 0), with any scratch buffer -/
theorem fastLCS_verbatim_exact (a b : Seq) (e : Int) (fill : Option UInt64) (hlen : a.length + b.length + 1 ≤ 30000)
    (h : e = -1 ∨ ((lcsDP samenuc a b).2 : Int) - ((lcsDP samenuc a b).1 : Int) ≤ e) :
    fastLCSEGFScoreByte a b e false fill =
      .ok (((lcsDP samenuc a b).1 : Int), ((lcsDP samenuc a b).2 : Int), 0) := by
  rw [fastLCS_verbatim_refines, fastLCS_exact a b e hlen h]; rfl

/-- **`fastLCS_verbatim_beyond`** — `fastLCS_beyond` on the verbatim kernel: beyond the bound it answers
`(-1, -1, -1)` or a pair that is itself beyond the bound -/
theorem fastLCS_verbatim_beyond (a b : Seq) (e : Int) (fill : Option UInt64) (hlen : a.length + b.length + 1 ≤ 30000)
    (h : e ≠ -1 ∧ e < ((lcsDP samenuc a b).2 : Int) - ((lcsDP samenuc a b).1 : Int)) :
    fastLCSEGFScoreByte a b e false fill = .ok (-1, -1, -1) ∨
    ∃ s l : Nat, fastLCSEGFScoreByte a b e false fill = .ok ((s : Int), (l : Int), 0) ∧ e < (l : Int) - (s : Int) := by
  rw [fastLCS_verbatim_refines]
  rcases fastLCS_beyond a b e hlen h with h1 | ⟨s, l, h1, h2⟩
  · left; rw [h1]; rfl
  · right; exact ⟨s, l, by rw [h1]; rfl, h2⟩

/-- the verbatim `FastLCSScore` is exact within the bound -/
theorem fastLCSScore_verbatim_exact (a b : Seq) (e : Int) (hlen : a.length + b.length + 1 ≤ 30000)
    (h : e = -1 ∨ ((lcsDP samenuc a b).2 : Int) - ((lcsDP samenuc a b).1 : Int) ≤ e) :
    fastLCSScore a b e = .ok (((lcsDP samenuc a b).1 : Int), ((lcsDP samenuc a b).2 : Int)) := by
  rw [fastLCSScore_verbatim_refines, fastLCS_exact a b e hlen h]; rfl

/-! ### The scratch buffer

`fastLCSBuf` (Model/LcsBuf.lean) is one call of the same transcription on the CALLER's buffer, whatever it contains
and whatever its capacity (re-allocated iff `cap < 2*width`, as in the code); `lcsHistory` threads one buffer
through a list of calls. -/

/-- **`fastLCS_scratch_independent`** — endgapfree = false: the answer of a call does not depend on the scratch
buffer it is given (any capacity, any stale content; in particular nil / poisoned / left by earlier calls): every
cell the kernel reads was written in the same call. No hypothesis on the lengths. -/
theorem fastLCS_scratch_independent (a b : Seq) (e : Int) (buf0 : Array UInt64) :
    ∃ buf', fastLCSBuf a b e false buf0 = .ok (resOf (bandLCS a b e), buf') ∧
      ∀ fill, fastLCSEGFScoreByte a b e false fill = .ok (resOf (bandLCS a b e)) := by
  obtain ⟨buf', h⟩ := fastLCSBuf_refines a b e buf0
  exact ⟨buf', h, fun fill => fastLCS_verbatim_refines a b e fill⟩

/-- **`fastLCS_history_independent`** — a history of endgapfree = false calls on ONE scratch buffer (any order of
lengths and bounds: wide band then narrow band, long pair then short pair, …), started on any buffer: every answer
is the answer of the same call on a fresh buffer. -/
theorem fastLCS_history_independent (calls : List (Seq × Seq × Int × Bool)) (hegf : ∀ c ∈ calls, c.2.2.2 = false)
    (buf0 : Array UInt64) :
    lcsHistory calls buf0 = calls.map (fun c => fastLCSEGFScoreByte c.1 c.2.1 c.2.2.1 false none) :=
  lcsHistory_fresh calls hegf buf0

/-- **`fastLCS_anymode_scratch_independent`** — BOTH modes (endgapfree = false: `FastLCSScore`; endgapfree = true:
`FastLCSEGFScore`), all sequences, every bound, no length hypothesis: the verbatim kernel never panics (no slice
access out of range) and there is ONE answer `(score, length, end)` that it returns for every scratch buffer — nil,
pre-allocated and filled with any stale word, or the caller's buffer of any capacity and any content. (Relational
invariant over two runs: the two buffers agree on the cells written so far in the call, and every cell read is one
of those — `Lemmas/LcsVerbatimEgf.lean`, `LcsVerbatimRel.lean`, `LcsVerbatimIndep.lean`.) -/
theorem fastLCS_anymode_scratch_independent (a b : Seq) (e : Int) (egf : Bool) :
    ∃ r, (∀ fill, fastLCSEGFScoreByte a b e egf fill = .ok r) ∧
      (∀ buf0, ∃ buf', fastLCSBuf a b e egf buf0 = .ok (r, buf')) :=
  fastLCS_anymode_independent a b e egf

/-- **`fastLCS_anymode_history_independent`** — BOTH modes: a history of calls on ONE scratch buffer (any mix of
modes, lengths and bounds, in any order), started on any buffer: no call panics and every answer is the answer of
the same call on a fresh (nil) buffer. -/
theorem fastLCS_anymode_history_independent (calls : List (Seq × Seq × Int × Bool)) (buf0 : Array UInt64) :
    lcsHistory calls buf0 = calls.map (fun c => fastLCSEGFScoreByte c.1 c.2.1 c.2.2.1 c.2.2.2 none) :=
  lcsHistory_fresh_anymode calls buf0

/-- non-vacuity (tests on sample values): the verbatim kernel on a narrow band with a poisoned buffer; a history
narrow band -> wide band -> narrow band on one buffer -/
example : fastLCSEGFScoreByte [97, 99, 103, 116, 97, 99] [97, 99, 103, 116, 99] 1 false (some 0xffffffffffffffff) =
    .ok (5, 6, 0) := by
  rw [fastLCS_verbatim_refines]; exact congrArg _ (by decide)
example : (∀ c ∈ [(([97, 99, 103, 116], [97, 103], 2, false) : Seq × Seq × Int × Bool),
      ([97, 99, 103, 116], [97, 99, 99, 116], 2, false), ([97, 99], [97], 1, false)], c.2.2.2 = false) ∧
    (resOf (bandLCS [97, 99, 103, 116] [97, 103] 2), resOf (bandLCS [97, 99, 103, 116] [97, 99, 99, 116] 2),
      resOf (bandLCS [97, 99] [97] 1)) = ((2, 4, 0), (3, 4, 0), (1, 2, 0)) := by decide
example : d1or0 [97, 97, 98] [97, 98] = .ok ⟨1, 1, 97, 45⟩ := by
  rw [d1or0_verbatim_refines]; exact congrArg _ (by decide)

/-! ## endgapfree = true (`FastLCSEGFScore`): specification, structural layer, refinement, soundness

Specification (Model/LcsEgf.lean). After the swap `A` is the LONGER sequence (the first argument when the lengths are
equal), `B` the shorter. `EgfAli samenuc A B s l`: `A = pre ++ mid ++ suf` and the factor `mid` has an alignment with
the WHOLE of `B` with `l` columns, `s` of them matches — the gaps at both ends of the shorter sequence (the overhangs
`pre`, `suf` of the longer one) cost no column, the gaps at the ends of the longer one do (read off the code: row 0 is
`encodeValues(0,0,false)`, column 0 is `encodeValues(0,i,false)`, `Sleft` is not incremented in the last row,
`maxError += delta`; `FastLCSEGFScore` has no caller in the code base, so the code is the only source).
`EgfOpt … s l`: `(s, l)` is realised and no end-gap-free alignment has a higher score or the same score with fewer
columns. Structural layer `bandEGF`: the banded matrix by rows with `bandCellE`.

FULL STATEMENT (PROVED in the third pass: `fastLCSEGF_exact` in the section "endgapfree = true: exactness" at the end
of this file; it was only tied by the naive end-gap-free DP oracle of the harness before):
  `∀ a b e, |a| + |b| < 30000 → (e = -1 ∨ l* - s* ≤ e) → EgfOpt samenuc (egfLong a b) (egfShort a b) s* l* →
     bandEGF a b e = some (s*, l*)`
What IS proved, for all inputs: `fastLCSEGF_verbatim_refines` (the verbatim kernel = `bandEGF`: (score, length) for
every bound and every scratch buffer, never a panic, and `0 ≤ end ≤ max(|a|, |b|)`), `fastLCSEGF_sound` (an answer is
the score and length of an actual end-gap-free alignment: never spurious), `fastLCSEGF_exact_partial` (hence it is
dominated by the end-gap-free optimum; the missing half is "every in-band end-gap-free alignment of the prefixes is
below the cell", the analogue of `bandCell_lb` of Lemmas/LcsBand.lean for `bandCellE`). The meaning of the third result
`end` (column of the last row at which the free trailing run that holds the longest path starts) is NOT specified:
only its range is proved; its value is tied by correspondence. -/

/-- **`fastLCSEGF_verbatim_refines`** — for ALL sequences (no length bound), every bound `e` and every scratch buffer,
the verbatim kernel with endgapfree = true does not panic and returns `resOfE (bandEGF a b e) end`: `(-1, -1, -1)` for
`none`, `(s, l, end)` for `some (s, l)`, with `0 ≤ end ≤ max(|a|, |b|)`. -/
theorem fastLCSEGF_verbatim_refines (a b : Seq) (e : Int) (fill : Option UInt64) :
    ∃ en : Int, fastLCSEGFScoreByte a b e true fill = .ok (resOfE (bandEGF a b e) en) ∧ 0 ≤ en ∧
      en ≤ (max a.length b.length : Nat) :=
  fastLCS_egf_refines a b e fill

/-- the same on the caller's buffer, whatever its capacity and content -/
theorem fastLCSEGF_buffer_refines (a b : Seq) (e : Int) (buf0 : Array UInt64) :
    ∃ buf' en, fastLCSBuf a b e true buf0 = .ok (resOfE (bandEGF a b e) en, buf') ∧ 0 ≤ en ∧
      en ≤ (max a.length b.length : Nat) :=
  fastLCSBuf_egf_refines a b e buf0

/-- `FastLCSEGFScore` (the exported wrapper: endgapfree = true on the stored sequences) -/
theorem fastLCSEGFScore_verbatim_refines (a b : Seq) (e : Int) :
    ∃ en : Int, fastLCSEGFScore a b e = .ok (resOfE (bandEGF a b e) en) ∧ 0 ≤ en ∧
      en ≤ (max a.length b.length : Nat) :=
  fastLCS_egf_refines a b e none

/-- **`fastLCSEGF_sound`** — never a spurious answer, every bound, all sequences with `|a| + |b| < 30000`: an answer
`(s, l)` is the score and the number of columns of an alignment of a FACTOR of the longer sequence with the whole of
the shorter one. -/
theorem fastLCSEGF_sound (a b : Seq) (e : Int) (s l : Nat) (hlen : a.length + b.length + 1 ≤ 30000)
    (h : bandEGF a b e = some (s, l)) : EgfAli samenuc (egfLong a b) (egfShort a b) s l :=
  bandEGF_sound a b e s l hlen h

/-- **`fastLCSEGF_exact_partial`** — the half of exactness that is proved: an answer is realised by an end-gap-free
alignment and is dominated by the end-gap-free optimum (lower score, or the same score and at least as many columns).
Missing for the full statement above: that within the bound the answer also dominates every end-gap-free alignment. -/
theorem fastLCSEGF_exact_partial (a b : Seq) (e : Int) (s l s' l' : Nat) (hlen : a.length + b.length + 1 ≤ 30000)
    (h : bandEGF a b e = some (s, l)) (hopt : EgfOpt samenuc (egfLong a b) (egfShort a b) s' l') :
    EgfAli samenuc (egfLong a b) (egfShort a b) s l ∧ (s < s' ∨ (s = s' ∧ l' ≤ l)) :=
  ⟨bandEGF_sound a b e s l hlen h, hopt.2 s l (bandEGF_sound a b e s l hlen h)⟩

/-- **`fastLCSEGF_verbatim_sound`** — soundness on the verbatim kernel, any scratch buffer -/
theorem fastLCSEGF_verbatim_sound (a b : Seq) (e : Int) (fill : Option UInt64) (hlen : a.length + b.length + 1 ≤ 30000) :
    fastLCSEGFScoreByte a b e true fill = .ok (-1, -1, -1) ∨
    ∃ (s l : Nat) (en : Int), fastLCSEGFScoreByte a b e true fill = .ok ((s : Int), (l : Int), en) ∧
      0 ≤ en ∧ en ≤ (max a.length b.length : Nat) ∧ EgfAli samenuc (egfLong a b) (egfShort a b) s l := by
  obtain ⟨en, h, h0, h1⟩ := fastLCS_egf_refines a b e fill
  rw [h]
  cases hb : bandEGF a b e with
  | none => left; rfl
  | some p => right; exact ⟨p.1, p.2, en, rfl, h0, h1, bandEGF_sound a b e p.1 p.2 hlen hb⟩

/-- non-vacuity (tests on sample values): "ccacgtcc" / "acgt" with the bound 0 — end-gap-free the factor "acgt" aligns
with 4 columns (the plain kernel answers "not found" with the bound 0 and (4, 8) with the bound 4); the naive
end-gap-free recurrence `egfDP` gives the same; `EgfAli` is inhabited by the obvious factorisation -/
example : bandEGF [99, 99, 97, 99, 103, 116, 99, 99] [97, 99, 103, 116] 0 = some (4, 4) ∧
    bandLCS [99, 99, 97, 99, 103, 116, 99, 99] [97, 99, 103, 116] 0 = none ∧
    bandLCS [99, 99, 97, 99, 103, 116, 99, 99] [97, 99, 103, 116] 4 = some (4, 8) ∧
    egfDP samenuc [99, 99, 97, 99, 103, 116, 99, 99] [97, 99, 103, 116] = (4, 4) :=
  ⟨by decide +kernel, by decide +kernel, by decide +kernel, by decide +kernel⟩
example : EgfAli samenuc [99, 99, 97, 99, 103, 116, 99, 99] [97, 99, 103, 116] 4 4 :=
  ⟨[99, 99], [97, 99, 103, 116], [99, 99], rfl,
    Ali.pair (m := samenuc) 97 97 (Ali.pair (m := samenuc) 99 99 (Ali.pair (m := samenuc) 103 103
      (Ali.pair (m := samenuc) 116 116 Ali.nil)))⟩
/-- the shorter sequence given first, one mismatch (test on one value) -/
example : bandEGF [97, 99, 103, 116] [99, 99, 97, 99, 116, 116, 99, 99] 1 = some (3, 4) := by decide +kernel

/-! ## The sentinel length 30000 and the true length bound

The exactness / soundness theorems assume `|a| + |b| < 30000`; the refinement theorems do not, because BOTH layers work
on the real `uint64` words with the real 16-bit fields and wrap in the same way. Beyond the bound the kernel is really
wrong (not only unproved): -/

/-- **`lcs_sentinel_role`** — while lengths stay below 30000 the two sentinels lose against every real in-band cell
(`_out < _notavail <` any `encodeValues s l false`); from 30001 on a real cell of score 0 loses against `_notavail` -/
theorem lcs_sentinel_role :
    (∀ s l : Nat, s < 65536 → l < 30000 →
      notavailV < encodeValues s l false ∧ outV < notavailV ∧ outV < encodeValues s l false) ∧
    (∀ l : Nat, 30000 < l → l ≤ 65534 → encodeValues 0 l false < notavailV) :=
  ⟨fun s l hs hl => sentinel_loses s l hs hl, fun l h1 h2 => sentinel_wins_beyond l h1 h2⟩

/-- **`fastLCS_length_bound_needed`** — for EVERY sequence `A` with `30000 < |A| ≤ 65534`, the kernel (no bound, any
scratch buffer) answers `(0, 30000, 0)` for `A` against the empty sequence, while the optimum is `(0, |A|)`: the
hypothesis on the lengths of `fastLCS_exact` cannot be dropped (finding C09-len30000; on the real code:
`lcslong` cases of the harness). -/
theorem fastLCS_length_bound_needed (A : Seq) (fill : Option UInt64) (h1 : 30000 < A.length) (h2 : A.length ≤ 65534) :
    fastLCSEGFScoreByte A [] (-1) false fill = .ok (0, 30000, 0) ∧ lcsDP samenuc A [] = (0, A.length) := by
  obtain ⟨h3, h4⟩ := bandLCS_long_row0 A h1 h2
  rw [fastLCS_verbatim_refines, h3]
  exact ⟨rfl, h4⟩

/-! ## The callers' conventions (obiclean/graph.go, obitag.go) -/

/-- **`d1or0_caller_swap`** — `buildSamplePairs` of obiclean calls `D1Or0(son, father)` and records the edge as
`makeEdge(j, d, pos, a2, a1)` (symbols exchanged): with verdict 1, `(pos, a2, a1)` is the edit that turns the FATHER
into the SON. -/
theorem d1or0_caller_swap (son father : Seq) :
    ∃ d, d1or0 son father = .ok d ∧
      (d.verdict = 1 → ∃ n : Nat, d.pos = (n : Int) ∧ OneEdit father son n d.a2 d.a1) := by
  refine ⟨d1F son father, d1or0_refines son father, fun h => ?_⟩
  obtain ⟨n, hn, he⟩ := (d1or0_spec son father).2.2.2.1 h
  exact ⟨n, hn, he.swap⟩

/-- **`fastLCSScore_caller_decides`** — `extendSimilarityGraph` of obiclean and `FindClosests` of obitag call
`FastLCSScore(x, y, e)` with an explicit bound and accept the pair iff `lcs >= 0` and `alilength - lcs <= e`: for
`|a| + |b| < 30000` this happens iff the optimal alignment has at most `e` differences, and then `alilength - lcs` is
exactly the number of differences of the optimum. On the verbatim wrapper. -/
theorem fastLCSScore_caller_decides (a b : Seq) (e : Int) (hlen : a.length + b.length + 1 ≤ 30000) (he : e ≠ -1) :
    ((∃ s l : Nat, fastLCSScore a b e = .ok ((s : Int), (l : Int)) ∧ (l : Int) - (s : Int) ≤ e) ↔
      ((lcsDP samenuc a b).2 : Int) - ((lcsDP samenuc a b).1 : Int) ≤ e) ∧
    (∀ s l : Nat, fastLCSScore a b e = .ok ((s : Int), (l : Int)) → (l : Int) - (s : Int) ≤ e →
      (s, l) = lcsDP samenuc a b) := by
  have key : ∀ s l : Nat, fastLCSScore a b e = .ok ((s : Int), (l : Int)) ↔ bandLCS a b e = some (s, l) := by
    intro s l
    rw [fastLCSScore_verbatim_refines]
    cases hb : bandLCS a b e with
    | none =>
      simp only [resOf]
      constructor
      · intro h; injection h with h; injection h with h1 h2; omega
      · intro h; cases h
    | some p =>
      obtain ⟨s', l'⟩ := p
      simp only [resOf]
      constructor
      · intro h; injection h with h; injection h with h1 h2
        have e1 : s' = s := by omega
        have e2 : l' = l := by omega
        rw [e1, e2]
      · intro h; injection h with h; injection h with h1 h2; rw [h1, h2]
  obtain ⟨d1, d2⟩ := fastLCS_decides_bound a b e hlen he
  refine ⟨⟨?_, ?_⟩, fun s l h hb => d2 s l ((key s l).1 h) hb⟩
  · rintro ⟨s, l, h, hb⟩
    exact d1.1 ⟨s, l, (key s l).1 h, hb⟩
  · intro h
    obtain ⟨s, l, h1, hb⟩ := d1.2 h
    exact ⟨s, l, (key s l).2 h1, hb⟩

/-- `_lpath` (fastlcs.go) is the length field of `decodeValues`; `_isout` its flag -/
theorem lpath_isout_eq_decode (v : UInt64) : lpath v = (decodeValues v).2.1 ∧ isout v = (decodeValues v).2.2 := ⟨rfl, rfl⟩

/-! ## endgapfree = true: EXACTNESS (third pass — the optimality half)

`Lemmas/LcsEgfOpt.lean`: `EIn` = a path of the matrix from a cell of row 0 (free leading overhang) to a cell, horizontal
moves free in the last row, strictly inside the band; every cell of `bandEGF` is, as a packed word, at least every such
path (`cellME_lb`, carried over the cells together with the soundness invariant `GoodE`); an end-gap-free alignment
`(s, l)` with `min(|a|,|b|) ≤ s + e` — in particular one with `l - s ≤ e` — is such a path for the band the code
builds (`extra = e + 1` after `maxError += delta`). The number of differences of an end-gap-free alignment is `l - s`
with `l` NOT counting the free overhangs. -/

/-- the shorter sequence is at most as long as any end-gap-free alignment -/
theorem egf_short_le {a b : Seq} {s l : Nat} (h : EgfAli samenuc (egfLong a b) (egfShort a b) s l) :
    min a.length b.length ≤ l ∧ s ≤ l := by
  obtain ⟨_, _, _, _, ha⟩ := h
  have hb := ha.bounds samenuc
  rw [← (egf_long_short a b).2.2]
  exact ⟨hb.2.2.2.2.1, hb.2.2.2.2.2⟩

/-- **`fastLCSEGF_exact_cover`** — sharpest form: with no bound, or an explicit bound `e` with
`min(|a|, |b|) ≤ s + e` for the end-gap-free optimum `(s, l)`, the kernel returns that optimum. `|a| + |b| < 30000`. -/
theorem fastLCSEGF_exact_cover (a b : Seq) (e : Int) (s l : Nat) (hlen : a.length + b.length + 1 ≤ 30000)
    (hopt : EgfOpt samenuc (egfLong a b) (egfShort a b) s l)
    (h : e = -1 ∨ ((min a.length b.length : Nat) : Int) ≤ (s : Int) + e) : bandEGF a b e = some (s, l) :=
  bandEGF_exact a b e s l hlen hopt h

/-- **`fastLCSEGF_exact`** (FULL statement of exactness for endgapfree = true) — with no bound (`e = -1`), or whenever
the number of differences `l - s` of the end-gap-free optimum `(s, l)` (highest number of matches, then fewest columns,
over all alignments of a factor of the longer sequence with the whole of the shorter one) does not exceed the bound,
the kernel returns exactly `(s, l)`. All sequences with `|a| + |b| < 30000`, every `e`. -/
theorem fastLCSEGF_exact (a b : Seq) (e : Int) (s l : Nat) (hlen : a.length + b.length + 1 ≤ 30000)
    (hopt : EgfOpt samenuc (egfLong a b) (egfShort a b) s l) (h : e = -1 ∨ (l : Int) - (s : Int) ≤ e) :
    bandEGF a b e = some (s, l) := by
  have hb := egf_short_le hopt.1
  exact bandEGF_exact a b e s l hlen hopt (h.imp id (fun h => by omega))

/-- **`fastLCSEGF_unbounded`** — with no bound the kernel always answers, and its answer is the end-gap-free optimum
(which therefore exists for every pair of sequences) -/
theorem fastLCSEGF_unbounded (a b : Seq) (hlen : a.length + b.length + 1 ≤ 30000) :
    ∃ s l, bandEGF a b (-1) = some (s, l) ∧ EgfOpt samenuc (egfLong a b) (egfShort a b) s l :=
  bandEGF_unbounded a b hlen

/-- **`fastLCSEGF_beyond`** — when the end-gap-free optimum `(S, L)` has more differences than the explicit bound, the
kernel answers "not found" or a pair that is itself beyond the bound: never a spurious within-bound answer -/
theorem fastLCSEGF_beyond (a b : Seq) (e : Int) (S L : Nat) (hlen : a.length + b.length + 1 ≤ 30000)
    (hopt : EgfOpt samenuc (egfLong a b) (egfShort a b) S L) (h : e ≠ -1 ∧ e < (L : Int) - (S : Int)) :
    bandEGF a b e = none ∨ ∃ s l, bandEGF a b e = some (s, l) ∧ e < (l : Int) - (s : Int) :=
  bandEGF_beyond a b e S L hlen h.1 hopt h.2

/-- **`fastLCSEGF_decides_bound`** — for an explicit bound `e`: an answer with at most `e` differences IS the
end-gap-free optimum; and the kernel gives such an answer iff the optimum has at most `e` differences -/
theorem fastLCSEGF_decides_bound (a b : Seq) (e : Int) (hlen : a.length + b.length + 1 ≤ 30000) (he : e ≠ -1) :
    (∀ s l, bandEGF a b e = some (s, l) → (l : Int) - (s : Int) ≤ e →
      EgfOpt samenuc (egfLong a b) (egfShort a b) s l) ∧
    (∀ S L, EgfOpt samenuc (egfLong a b) (egfShort a b) S L →
      ((∃ s l, bandEGF a b e = some (s, l) ∧ (l : Int) - (s : Int) ≤ e) ↔ (L : Int) - (S : Int) ≤ e)) := by
  refine ⟨fun s l h hb => bandEGF_within_is_opt a b e s l hlen he h hb, fun S L hopt => ⟨?_, ?_⟩⟩
  · rintro ⟨s, l, h, hb⟩
    have := (bandEGF_within_is_opt a b e s l hlen he h hb).unique samenuc hopt
    omega
  · intro h
    exact ⟨S, L, fastLCSEGF_exact a b e S L hlen hopt (.inr h), h⟩

/-- **`fastLCSEGF_verbatim_exact`** — exactness on the VERBATIM kernel with endgapfree = true, any scratch buffer -/
theorem fastLCSEGF_verbatim_exact (a b : Seq) (e : Int) (fill : Option UInt64) (s l : Nat)
    (hlen : a.length + b.length + 1 ≤ 30000) (hopt : EgfOpt samenuc (egfLong a b) (egfShort a b) s l)
    (h : e = -1 ∨ (l : Int) - (s : Int) ≤ e) :
    ∃ en : Int, fastLCSEGFScoreByte a b e true fill = .ok ((s : Int), (l : Int), en) ∧ 0 ≤ en ∧
      en ≤ (max a.length b.length : Nat) := by
  obtain ⟨en, h1, h2, h3⟩ := fastLCS_egf_refines a b e fill
  rw [fastLCSEGF_exact a b e s l hlen hopt h] at h1
  exact ⟨en, h1, h2, h3⟩

/-- the exported wrapper `FastLCSEGFScore` is exact -/
theorem fastLCSEGFScore_verbatim_exact (a b : Seq) (e : Int) (s l : Nat)
    (hlen : a.length + b.length + 1 ≤ 30000) (hopt : EgfOpt samenuc (egfLong a b) (egfShort a b) s l)
    (h : e = -1 ∨ (l : Int) - (s : Int) ≤ e) :
    ∃ en : Int, fastLCSEGFScore a b e = .ok ((s : Int), (l : Int), en) ∧ 0 ≤ en ∧ en ≤ (max a.length b.length : Nat) :=
  fastLCSEGF_verbatim_exact a b e none s l hlen hopt h

/-- non-vacuity (tests on sample values): "ccacgtcc" / "acgt": the kernel answer (4, 4) with the bound 0 is, by
`fastLCSEGF_decides_bound`, the end-gap-free optimum; so the hypotheses of `fastLCSEGF_exact` are satisfiable on a
narrow band where the plain kernel answers "not found" -/
example : EgfOpt samenuc (egfLong [99, 99, 97, 99, 103, 116, 99, 99] [97, 99, 103, 116])
    (egfShort [99, 99, 97, 99, 103, 116, 99, 99] [97, 99, 103, 116]) 4 4 :=
  (fastLCSEGF_decides_bound _ _ 0 (by decide) (by decide)).1 4 4 (by decide +kernel) (by decide)

/-! ## The true length frontier (third pass)

`Lemmas/LcsLong.lean`. The hypothesis `|a| + |b| < 30000` of the theorems above came from the proof (the soundness
invariant let an out-of-band cell hold a length up to `30000 + i + j`), not from the code. With the invariant "every
cell strictly inside the band holds an in-band word realised by an alignment, every border cell the `_setout` of one;
`_out` is never stored nor incremented" the only limits left are those of the representation:
`LenOK |a| |b| e` := `|a| + |b| ≤ 65534` (16-bit inverted length field, sharp at 65535 by `cell_order`) and
(`|a| ≤ 30000 ∧ |b| ≤ 30000` — the first-row / first-column cells must win against `_notavail` = length 30000 — or the
bound is explicit and `e ≤ 14999`, so that the band `hi = 2(e+1)`, `-lo ≤ 2(e+1)` reaches neither column 30000 of the
first row nor row 30000 of the first column). Under `LenOK` soundness, exactness and "beyond" hold; beyond it the
kernel is wrong: `fastLCS_length_bound_needed` (no bound) and `fastLCS_length_bound_needed_explicit` (every bound
`e ≥ |A|`) for EVERY `A` with `30000 < |A| ≤ 65534` against the empty sequence (finding C09-len30000). NOT decided:
a sequence longer than 30000 with an explicit bound `15000 ≤ e < |A|`, and `|a| + |b| > 65534`. -/

/-- **`fastLCS_sound_long`** — `fastLCS_sound` under the true length condition -/
theorem fastLCS_sound_long (a b : Seq) (e : Int) (s l : Nat) (hok : LenOK a.length b.length e)
    (h : bandLCS a b e = some (s, l)) :
    Ali samenuc a b s l ∧
    (s < (lcsDP samenuc a b).1 ∨ (s = (lcsDP samenuc a b).1 ∧ (lcsDP samenuc a b).2 ≤ l)) :=
  ⟨bandLCS_sound_long a b e s l hok h, (lcsDP_is_lcs samenuc a b).2 s l (bandLCS_sound_long a b e s l hok h)⟩

/-- **`fastLCS_exact_long`** — `fastLCS_exact` (full statement) under the true length condition: both sequences up to
30000 bases (any bound), or `|a| + |b| ≤ 65534` with an explicit bound up to 14999 -/
theorem fastLCS_exact_long (a b : Seq) (e : Int) (hok : LenOK a.length b.length e)
    (h : e = -1 ∨ ((lcsDP samenuc a b).2 : Int) - ((lcsDP samenuc a b).1 : Int) ≤ e) :
    bandLCS a b e = some (lcsDP samenuc a b) :=
  bandLCS_exact_long a b e hok h

/-- **`fastLCS_beyond_long`** — `fastLCS_beyond` under the true length condition -/
theorem fastLCS_beyond_long (a b : Seq) (e : Int) (hok : LenOK a.length b.length e)
    (h : e ≠ -1 ∧ e < ((lcsDP samenuc a b).2 : Int) - ((lcsDP samenuc a b).1 : Int)) :
    bandLCS a b e = none ∨ ∃ s l, bandLCS a b e = some (s, l) ∧ e < (l : Int) - (s : Int) :=
  bandLCS_beyond_long a b e hok h.2

/-- **`fastLCS_verbatim_exact_long`** — on the verbatim kernel, any scratch buffer -/
theorem fastLCS_verbatim_exact_long (a b : Seq) (e : Int) (fill : Option UInt64) (hok : LenOK a.length b.length e)
    (h : e = -1 ∨ ((lcsDP samenuc a b).2 : Int) - ((lcsDP samenuc a b).1 : Int) ≤ e) :
    fastLCSEGFScoreByte a b e false fill =
      .ok (((lcsDP samenuc a b).1 : Int), ((lcsDP samenuc a b).2 : Int), 0) := by
  rw [fastLCS_verbatim_refines, fastLCS_exact_long a b e hok h]; rfl

/-- **`fastLCS_verbatim_sound_long`** — on the verbatim kernel: "not found" or the score and length of an actual
alignment -/
theorem fastLCS_verbatim_sound_long (a b : Seq) (e : Int) (fill : Option UInt64) (hok : LenOK a.length b.length e) :
    fastLCSEGFScoreByte a b e false fill = .ok (-1, -1, -1) ∨
    ∃ s l : Nat, fastLCSEGFScoreByte a b e false fill = .ok ((s : Int), (l : Int), 0) ∧ Ali samenuc a b s l := by
  rw [fastLCS_verbatim_refines]
  cases h : bandLCS a b e with
  | none => left; rfl
  | some p => right; exact ⟨p.1, p.2, rfl, bandLCS_sound_long a b e p.1 p.2 hok h⟩

/-- the former hypothesis is a special case of `LenOK`; the frontier cases themselves satisfy it (tests on values);
one base more does not -/
theorem lenOK_of_sum (a b : Seq) (e : Int) (h : a.length + b.length + 1 ≤ 30000) : LenOK a.length b.length e :=
  LenOK.of_sum h e
example : LenOK 30000 30000 (-1) ∧ LenOK 32767 32767 14999 ∧ ¬ LenOK 30001 0 (-1) ∧ ¬ LenOK 30001 30001 15000 ∧
    ¬ LenOK 32768 32767 0 := by decide

/-- **`fastLCS_length_bound_needed_explicit`** — the frontier is real for explicit bounds too: for every `A` with
`30000 < |A| ≤ 65534` and every bound `e ≥ |A|`, the kernel answers `(0, 30000, 0)` for `A` against the empty sequence
although the optimum `(0, |A|)` is within the bound -/
theorem fastLCS_length_bound_needed_explicit (A : Seq) (e : Int) (fill : Option UInt64) (h1 : 30000 < A.length)
    (h2 : A.length ≤ 65534) (he : (A.length : Int) ≤ e) :
    fastLCSEGFScoreByte A [] e false fill = .ok (0, 30000, 0) ∧ lcsDP samenuc A [] = (0, A.length) := by
  rw [fastLCS_verbatim_refines, bandLCS_long_row0_bound A e h1 h2 he]
  exact ⟨rfl, (bandLCS_long_row0 A h1 h2).2⟩

/-- the callers' acceptance test (`fastLCSScore_caller_decides`) under the true length condition -/
theorem fastLCSScore_caller_decides_long (a b : Seq) (e : Int) (hok : LenOK a.length b.length e) :
    ((∃ s l, bandLCS a b e = some (s, l) ∧ (l : Int) - (s : Int) ≤ e) ↔
      ((lcsDP samenuc a b).2 : Int) - ((lcsDP samenuc a b).1 : Int) ≤ e) ∧
    (∀ s l, bandLCS a b e = some (s, l) → (l : Int) - (s : Int) ≤ e → (s, l) = lcsDP samenuc a b) := by
  refine ⟨⟨?_, ?_⟩, fun s l h hb => bandLCS_within_is_opt_long a b e s l hok h hb⟩
  · rintro ⟨s, l, h, hb⟩
    have := bandLCS_within_is_opt_long a b e s l hok h hb
    rw [← this]; exact hb
  · intro h
    exact ⟨_, _, fastLCS_exact_long a b e hok (.inr h), h⟩

/-! ## Symmetry of the kernels, and `_samenuc` on all 256 byte values (third pass) -/

/-- `_samenuc` is symmetric on ALL bytes (not only IUPAC symbols) -/
theorem samenuc_symm_all_bytes (x y : UInt8) : samenuc x y = samenuc y x := samenuc_comm x y

/-- a byte that is not an ASCII letter ('-', '.', '*', digits, control and high bytes) matches exactly itself -/
theorem samenuc_non_letter (x y : UInt8) (hx : isLetter x = false) : samenuc x y = (x == y) :=
  samenuc_nonletter x y hx

/-- a letter that is not an IUPAC code (e f i j l o p q x z, either case — decided on the regenerated table) matches
nothing, NOT EVEN ITSELF: two identical sequences containing such a letter are not reported as identical by the LCS
kernel (while `D1Or0`, which compares bytes, answers 0) -/
theorem samenuc_non_iupac_letter :
    (∀ x : UInt8, nonIupacLetter x = true ↔
      x ∈ ([101, 102, 105, 106, 108, 111, 112, 113, 120, 122, 69, 70, 73, 74, 76, 79, 80, 81, 88, 90] : List UInt8)) ∧
    (∀ x y : UInt8, nonIupacLetter x = true → samenuc x y = false ∧ samenuc y x = false) :=
  ⟨nonIupacLetter_list, fun x y h => ⟨samenuc_nonIupacLetter x y h, by rw [samenuc_comm]; exact samenuc_nonIupacLetter x y h⟩⟩

example : samenuc 45 45 = true ∧ samenuc 46 45 = false ∧ samenuc 120 120 = false ∧ samenuc 88 120 = false ∧
    samenuc 78 97 = true ∧ bandLCS [120] [120] (-1) = some (0, 1) ∧ d1F [120] [120] = ⟨0, -1, 0, 0⟩ := by decide

/-- **`fastLCS_symm_unequal`** — sequences of different lengths, BOTH modes, every bound, every byte content, no length
bound: exchanging the arguments does not change the answer (the kernel puts the longer sequence first) -/
theorem fastLCS_symm_unequal (a b : Seq) (e : Int) (h : a.length ≠ b.length) :
    bandLCS a b e = bandLCS b a e ∧ bandEGF a b e = bandEGF b a e := by
  unfold bandLCS bandEGF
  by_cases c : a.length < b.length
  · have c' : ¬ b.length < a.length := by omega
    simp only [if_pos c, if_neg c']; exact ⟨trivial, trivial⟩
  · have c' : b.length < a.length := by omega
    simp only [if_neg c, if_pos c']; exact ⟨trivial, trivial⟩

/-- **`fastLCS_symm_within`** — any lengths within `LenOK`, endgapfree = false: with no bound, or when the optimum is
within the bound, exchanging the arguments does not change the answer (all byte values: `samenuc_symm_all_bytes`) -/
theorem fastLCS_symm_within (a b : Seq) (e : Int) (hok : LenOK a.length b.length e)
    (h : e = -1 ∨ ((lcsDP samenuc a b).2 : Int) - ((lcsDP samenuc a b).1 : Int) ≤ e) :
    bandLCS a b e = bandLCS b a e := by
  rw [fastLCS_exact_long a b e hok h, fastLCS_exact_long b a e hok.swap (by rw [lcsDP_samenuc_swap]; exact h),
    lcsDP_samenuc_swap]

/-! ## The other callers of the kernels (third pass)

`obirefidx`, `obitag`, `obitag2` call `D1Or0(sequence, reference)` and use the verdict only (symmetric by `d1or0_symm`);
`obiconsensus` calls `D1Or0(s1, s2)` and, on verdict 1, `FastLCSScore(s1, s2, distmax, nil)`; `obigeomtag`,
`obilandmark`, `obicleandb` call `FastLCSScore(x, y, -1, buffer)` (no bound: exact by `fastLCS_exact_long` for both
sequences up to 30000 bases) and compute `alilength - lcs` / `lcs / alilength`. All of them pass `BioSequence`s; the
wrappers take `Sequence()`, the stored lower-case bytes (`fastLCSScore`, `fastLCSEGFScore` are those wrappers). -/

/-- a pair `D1Or0` reports at distance ≤ 1 is accepted by the bounded LCS test with any bound `e ≥ 1`, and the
LCS kernel then reports at most one difference — for sequences over bytes that match themselves (`hself`: true of
the IUPAC symbols; false of the letters e f i j l o p q x z, see `samenuc_non_iupac_letter`) the two kernels agree
on identity: `D1Or0 = 0` implies `FastLCSScore = (|a|, |a|)` -/
theorem d1_zero_imp_lcs_full (a : Seq) (e : Int) (hok : LenOK a.length a.length e) (he : e = -1 ∨ 0 ≤ e)
    (hself : ∀ x ∈ a, samenuc x x = true) :
    (d1F a a).verdict = 0 ∧ bandLCS a a e = some (a.length, a.length) := by
  refine ⟨(d1or0_spec a a).1.2 rfl, ?_⟩
  have hdiag : ∀ l : Seq, (∀ x ∈ l, samenuc x x = true) → Ali samenuc l l l.length l.length := by
    intro l
    induction l with
    | nil => intro _; exact .nil
    | cons x xs ih =>
      intro h
      have := Ali.pair (m := samenuc) x x (ih (fun y hy => h y (List.mem_cons_of_mem _ hy)))
      rw [h x (List.mem_cons_self), if_pos rfl] at this
      exact this
  have ha := hdiag a hself
  have hopt := lcsDP_is_lcs samenuc a a
  have hb := hopt.1.bounds samenuc
  have h2 := hopt.2 _ _ ha
  have e1 : (lcsDP samenuc a a).1 = a.length := by omega
  have e2 : (lcsDP samenuc a a).2 = a.length := by omega
  have := fastLCS_exact_long a a e hok (by rcases he with h | h; exact .inl h; exact .inr (by omega))
  rw [this]
  exact congrArg some (Prod.ext e1 e2)

end ObiVerif.Props.C09
