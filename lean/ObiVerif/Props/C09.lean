import ObiVerif.Model.Lcs
import ObiVerif.Lemmas.Lcs
/-!
# C09 — LCS and one-difference kernels are exact within their error bound (property theorems)

`Gen.alignIupac` is regenerated from pkg/obialign/fastlcsegf.go on every run, so the table theorems are
re-checked against what the source says now.
-/
namespace ObiVerif.Props.C09
open ObiVerif.Lcs

/-! ## The IUPAC table -/

/-- SPECIFICATION: the set of nucleotides an IUPAC symbol (lower case) stands for, as a bit set
a = 1, c = 2, g = 4, t = u = 8; every other byte denotes no nucleotide -/
def nucSet (x : UInt8) : Nat :=
  if x = 97 then 1 else if x = 99 then 2 else if x = 103 then 4 else if x = 116 ∨ x = 117 then 8
  else if x = 114 then 1 + 4      -- r = a|g
  else if x = 121 then 2 + 8      -- y = c|t
  else if x = 115 then 2 + 4      -- s = c|g
  else if x = 119 then 1 + 8      -- w = a|t
  else if x = 107 then 4 + 8      -- k = g|t
  else if x = 109 then 1 + 2      -- m = a|c
  else if x = 98 then 2 + 4 + 8   -- b = not a
  else if x = 100 then 1 + 4 + 8  -- d = not c
  else if x = 104 then 1 + 2 + 8  -- h = not g
  else if x = 118 then 1 + 2 + 4  -- v = not t
  else if x = 110 then 15         -- n
  else 0

/-- the IUPAC nucleotide symbols, lower and upper case -/
def iupacSyms : List UInt8 :=
  [97, 99, 103, 116, 117, 114, 121, 115, 119, 107, 109, 98, 100, 104, 118, 110,
   65, 67, 71, 84, 85, 82, 89, 83, 87, 75, 77, 66, 68, 72, 86, 78]

/-- **Table lemma** (decided over the WHOLE generated table): `_iupac` has 26 entries and `_iupac[x - 'a']` is
the bit set of the symbol `x`, for every lower-case letter (0 for the letters that are not IUPAC codes). -/
theorem iupac_table_is_bitset :
    Gen.alignIupac.length = 26 ∧ ∀ i < 26, iupac i = nucSet (UInt8.ofNat (97 + i)) := by decide

/-- consequence for `_samenuc`: two IUPAC symbols (either case) match iff their nucleotide sets intersect -/
theorem samenuc_iff_sets_intersect :
    ∀ x ∈ iupacSyms, ∀ y ∈ iupacSyms,
      samenuc x y = decide (nucSet (lowerAZ x) &&& nucSet (lowerAZ y) ≠ 0) := by decide

theorem samenuc_symm_iupac : ∀ x ∈ iupacSyms, ∀ y ∈ iupacSyms, samenuc x y = samenuc y x := by decide

/-! ## The one-difference test `D1Or0`

Stated on the structural layer `d1F` (prefix / suffix stripping); the verbatim index-loop transcription `d1or0`
is executed side by side with `d1F` on every correspondence case (`vm_C09` answers `layer-mismatch` if they ever
differ). `lev` is the textbook Levenshtein recurrence (byte equality, as in the code: no IUPAC here). -/

/-- **`d1or0_spec`** — for ALL pairs of sequences:
* the verdict is 0 exactly for identical sequences (edit distance 0), and then the outputs are `(-1, 0, 0)`;
* the verdict is 1 exactly for edit distance one;
* with verdict 1 the position and the two symbols reproduce the edit (`'-'` = 45 on the side of the gap);
* otherwise everything returned is `(-1, -1, 0, 0)`. -/
theorem d1or0_spec (a b : Seq) :
    ((d1F a b).verdict = 0 ↔ a = b) ∧
    ((d1F a b).verdict = 0 ↔ lev a b = 0) ∧
    ((d1F a b).verdict = 1 ↔ lev a b = 1) ∧
    ((d1F a b).verdict = 1 →
        ∃ n : Nat, (d1F a b).pos = (n : Int) ∧ OneEdit a b n (d1F a b).a1 (d1F a b).a2) ∧
    ((d1F a b).verdict = 0 → d1F a b = ⟨0, -1, 0, 0⟩) ∧
    (lev a b ≠ 0 → lev a b ≠ 1 → d1F a b = ⟨-1, -1, 0, 0⟩) := by
  have h1 : (d1F a b).verdict = 1 ↔ lev a b = 1 := by
    rw [lev_one_iff]
    constructor
    · intro h
      obtain ⟨n, _, he⟩ := d1F_one_sound a b h
      exact ⟨n, _, _, he⟩
    · rintro ⟨n, x, y, he⟩
      exact d1F_complete he
  refine ⟨d1F_zero_iff a b, ?_, h1, d1F_one_sound a b, d1F_zero_out a b, ?_⟩
  · rw [lev_zero_iff]; exact d1F_zero_iff a b
  · intro h0 hn1
    rcases d1F_verdict_cases a b with h | h | h
    · exact absurd ((lev_zero_iff a b).2 ((d1F_zero_iff a b).1 h)) h0
    · exact absurd (h1.1 h) hn1
    · exact h

/-- **`d1or0_symm`** — exchanging the arguments keeps the verdict and the position and exchanges the symbols -/
theorem d1or0_symm (a b : Seq) :
    d1F b a = ⟨(d1F a b).verdict, (d1F a b).pos, (d1F a b).a2, (d1F a b).a1⟩ := d1F_symm a b

/-- non-vacuity: the three verdicts occur ("aab"/"ab": a deletion inside a run is reported at the end of the run) -/
example : d1F [97, 97, 98] [97, 98] = ⟨1, 1, 97, 45⟩ ∧ d1F [97, 99] [97, 99] = ⟨0, -1, 0, 0⟩ ∧
    d1F [97, 98] [98, 97] = ⟨-1, -1, 0, 0⟩ ∧ d1F [97, 99, 103] [97, 116, 103] = ⟨1, 1, 99, 116⟩ := by decide

end ObiVerif.Props.C09
