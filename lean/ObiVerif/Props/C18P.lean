import ObiVerif.Props.C18Z
import ObiVerif.Lemmas.WritePgzipClose
/-!
# C18 — compressed output over the TRANSCRIBED pgzip writer (property theorems)

`Props/C18Z.lean` proves the compressed case over an abstract pgzip writer (`GZ`: a monotone compressor, a listener
that stops after its first failure, a schedule `rep` of the moments at which the pushed error becomes visible).
`Model/WritePgzip.lean` transcribes `klauspost/pgzip` v1.2.6 `Writer.Write` / `compressCurrent` / the listener
goroutine / `Close` (`PZ`): the header written synchronously by the first `Write` (or by `Close`), blocks cut at
multiples of `blockSize` bytes of input and handed to the listener through `z.results`, the listener pushing its first
error and dropping every later block, `checkError()` at the entry of `Write`, after every block and at the end,
`Close` = `checkError`, header if needed, last block with `flush` (waits for the listener), `checkError`, trailer.
The concurrency is a parameter `s : Sched`: how many listener steps happen before each observation of `z.err`
(`s.run`, arbitrary) and which branch `select` takes when both are ready (`s.sel`, arbitrary).

Here, for EVERY codec of that shape (block size ≥ 1), every schedule, buffer size, fault offset, `Close` failing or
not, owned or not, arrival order:

* `pz_write_inv` / `pz_close_exact`: the invariant kept by `bufio.Writer.Write` over the transcribed `Write`, and the
  characterisation of compressed `Wfile.Close` over the transcribed `Close` (the counterparts of `gwrite_inv` /
  `closeZ_eq` of the abstract model);
* `pz_raw_exact` / `pz_json_exact`: `gz_raw_exact` / `gz_json_exact` restated over the transcription: the sink ends with
  the first `limit` bytes of the complete compressed stream, fatal iff the stream does not fit or the owned `Close`
  fails; corollaries `pz_*_ok_all_bytes`, `pz_*_fatal_iff`, `pz_*_prefix_safe`;
* `pz_codec_mono`: the stream of the transcription (`toCodec`) is a compressor in the sense of the abstract model;
* `pz_refines_gz_raw` / `pz_refines_gz_json`: the abstract model of `Props/C18Z.lean`, instantiated with that codec, returns
  the same outcome and the same bytes as the transcription, for every schedule of either: the abstraction is proved,
  not assumed;
* `pz_sched_free`: the outcome does not depend on the schedule.
-/
namespace ObiVerif.Props.C18
open ObiVerif.Reseq ObiVerif.WriteErr

/-- the stream produced by the transcribed writer only grows with its input -/
theorem pz_codec_mono (c : PCodec) : Mono c.toCodec := pmono c

/-- the invariant of `bufio.Writer` over the transcribed writer at the start -/
theorem pz_inv_init (c : PCodec) (size limit : Nat) (cf : Bool) :
    HInv PZ.acc (PDead c limit cf) (PLive c limit cf) (⟨size, [], false, pz0 limit cf⟩ : GW PZ) [] :=
  pinv_init c size limit cf

/-- `Write` counterpart of `pz_close_exact`: `bufio.Writer.Write(p)` over the transcribed `(*pgzip.Writer).Write` keeps
the invariant (the writer was shown `e ++ p`; if no error was returned everything is accepted or buffered and the
stream is on track; otherwise the sink holds exactly `limit` bytes of a stream that does not fit), for every
schedule of the listener -/
theorem pz_write_inv (c : PCodec) (hbs : 0 < c.bs) (s : Sched) (limit : Nat) (cf : Bool) {b : GW PZ} {e : Bytes}
    (h : HInv PZ.acc (PDead c limit cf) (PLive c limit cf) b e) (p : Bytes) :
    HInv PZ.acc (PDead c limit cf) (PLive c limit cf) (b.write (PZ.write c s) p) (e ++ p) :=
  hwrite_inv (pzLaw c hbs s limit cf) h p

/-- compressed `Wfile.Close` (`fw.Flush()`, `gf.Close()`, `out.Close()` if owned) over the transcribed writer -/
theorem pz_close_exact (c : PCodec) (hbs : 0 < c.bs) (s : Sched) {limit : Nat} {cf : Bool} (own : Bool)
    {b : GW PZ} {e : Bytes} (h : HInv PZ.acc (PDead c limit cf) (PLive c limit cf) b e) :
    closeP c s own b =
      (if limit < (c.toCodec.stream e).length || (own && cf) then .fatal else .ok, (c.toCodec.stream e).take limit) :=
  closeP_eq c hbs s own h

/-- FASTA / FASTQ / CSV, compressed, over the transcribed pgzip writer -/
theorem pz_raw_exact (c : PCodec) (hbs : 0 < c.bs) (s : Sched) (size limit : Nat) (cf own : Bool)
    (v : Nat → Bytes) (n : Nat) (ks : List Nat) (hp : ks.Perm (List.range n)) :
    writeRawP c s size limit cf own (ks.map fun k => (k, v k)) =
      (if limit < (c.toCodec.stream (rawExpected v n)).length || (own && cf) then .fatal else .ok,
       (c.toCodec.stream (rawExpected v n)).take limit) := by
  unfold writeRawP
  rw [(run_perm (emitRawG (PZ.write c s)) _ v n ks hp).1]
  have h := hfoldl_raw_inv (pzLaw c hbs s limit cf) ((List.range n).map v) _ _ (pinv_init c size limit cf)
  rw [closeP_eq c hbs s own h]
  rfl

/-- JSON, compressed, over the transcribed pgzip writer -/
theorem pz_json_exact (c : PCodec) (hbs : 0 < c.bs) (s : Sched) (size limit : Nat) (cf own : Bool)
    (v : Nat → Bytes) (n : Nat) (ks : List Nat) (hp : ks.Perm (List.range n)) :
    writeJsonP c s size limit cf own (ks.map fun k => (k, v k)) =
      (if limit < (c.toCodec.stream (jsonExpected v n)).length || (own && cf) then .fatal else .ok,
       (c.toCodec.stream (jsonExpected v n)).take limit) := by
  unfold writeJsonP
  simp only
  rw [(run_perm (emitJsonG (PZ.write c s)) _ v n ks hp).1]
  have L := pzLaw c hbs s limit cf
  have h0 := hwrite_inv L (pinv_init c size limit cf) openJson
  have hsim := (hfoldl_emitJson_sim L ((List.range n).map v)
    ⟨(⟨size, [], false, pz0 limit cf⟩ : GW PZ).write (PZ.write c s) openJson, false⟩
    ⟨ObiVerif.Writer.openJson, false⟩ rfl h0).2
  refine (closeP_eq c hbs s own (hwrite_inv L hsim closeJson)).trans ?_
  rw [(ObiVerif.Props.C04.foldl_emitJson _ _).1]
  simp only [Bool.false_eq_true, if_false]
  rfl

/-- the abstract pgzip model of `Props/C18Z.lean` is a proved abstraction of the transcription: same outcome, same
bytes in the sink, whatever the schedule `s` of the transcription and the schedule `rep` of the abstract model -/
theorem pz_refines_gz_raw (c : PCodec) (hbs : 0 < c.bs) (s : Sched) (rep : Nat → Bool) (size limit : Nat)
    (cf own : Bool) (v : Nat → Bytes) (n : Nat) (ks : List Nat) (hp : ks.Perm (List.range n)) :
    writeRawP c s size limit cf own (ks.map fun k => (k, v k)) =
      writeRawZ c.toCodec rep size limit cf own (ks.map fun k => (k, v k)) := by
  rw [pz_raw_exact c hbs s size limit cf own v n ks hp,
    gz_raw_exact c.toCodec (pmono c) rep size limit cf own v n ks hp]

theorem pz_refines_gz_json (c : PCodec) (hbs : 0 < c.bs) (s : Sched) (rep : Nat → Bool) (size limit : Nat)
    (cf own : Bool) (v : Nat → Bytes) (n : Nat) (ks : List Nat) (hp : ks.Perm (List.range n)) :
    writeJsonP c s size limit cf own (ks.map fun k => (k, v k)) =
      writeJsonZ c.toCodec rep size limit cf own (ks.map fun k => (k, v k)) := by
  rw [pz_json_exact c hbs s size limit cf own v n ks hp,
    gz_json_exact c.toCodec (pmono c) rep size limit cf own v n ks hp]

/-- the interleaving of the listener goroutine and the branch taken by `select` do not change the result -/
theorem pz_sched_free (c : PCodec) (hbs : 0 < c.bs) (s s' : Sched) (size limit : Nat) (cf own : Bool)
    (v : Nat → Bytes) (n : Nat) (ks : List Nat) (hp : ks.Perm (List.range n)) :
    writeRawP c s size limit cf own (ks.map fun k => (k, v k)) =
      writeRawP c s' size limit cf own (ks.map fun k => (k, v k)) ∧
    writeJsonP c s size limit cf own (ks.map fun k => (k, v k)) =
      writeJsonP c s' size limit cf own (ks.map fun k => (k, v k)) := by
  rw [pz_raw_exact c hbs s size limit cf own v n ks hp, pz_raw_exact c hbs s' size limit cf own v n ks hp,
    pz_json_exact c hbs s size limit cf own v n ks hp, pz_json_exact c hbs s' size limit cf own v n ks hp]
  exact ⟨rfl, rfl⟩

/-- an `ok` exit over the transcribed writer: the sink holds the complete compressed stream -/
theorem pz_raw_ok_all_bytes (c : PCodec) (hbs : 0 < c.bs) (s : Sched) (size limit : Nat) (cf own : Bool)
    (v : Nat → Bytes) (n : Nat) (ks : List Nat) (hp : ks.Perm (List.range n)) (got : Bytes)
    (h : writeRawP c s size limit cf own (ks.map fun k => (k, v k)) = (.ok, got)) :
    got = c.toCodec.stream (rawExpected v n) ∧ (own && cf) = false := by
  rw [pz_raw_exact c hbs s size limit cf own v n ks hp] at h
  exact exactZ_ok h

theorem pz_json_ok_all_bytes (c : PCodec) (hbs : 0 < c.bs) (s : Sched) (size limit : Nat) (cf own : Bool)
    (v : Nat → Bytes) (n : Nat) (ks : List Nat) (hp : ks.Perm (List.range n)) (got : Bytes)
    (h : writeJsonP c s size limit cf own (ks.map fun k => (k, v k)) = (.ok, got)) :
    got = c.toCodec.stream (jsonExpected v n) ∧ (own && cf) = false := by
  rw [pz_json_exact c hbs s size limit cf own v n ks hp] at h
  exact exactZ_ok h

theorem pz_raw_fatal_iff (c : PCodec) (hbs : 0 < c.bs) (s : Sched) (size limit : Nat) (cf own : Bool)
    (v : Nat → Bytes) (n : Nat) (ks : List Nat) (hp : ks.Perm (List.range n)) :
    (writeRawP c s size limit cf own (ks.map fun k => (k, v k))).1 = .fatal ↔
      (limit < (c.toCodec.stream (rawExpected v n)).length ∨ (own && cf) = true) := by
  rw [pz_raw_exact c hbs s size limit cf own v n ks hp]
  exact exact_fatal_iff

theorem pz_json_fatal_iff (c : PCodec) (hbs : 0 < c.bs) (s : Sched) (size limit : Nat) (cf own : Bool)
    (v : Nat → Bytes) (n : Nat) (ks : List Nat) (hp : ks.Perm (List.range n)) :
    (writeJsonP c s size limit cf own (ks.map fun k => (k, v k))).1 = .fatal ↔
      (limit < (c.toCodec.stream (jsonExpected v n)).length ∨ (own && cf) = true) := by
  rw [pz_json_exact c hbs s size limit cf own v n ks hp]
  exact exact_fatal_iff

theorem pz_raw_prefix_safe (c : PCodec) (hbs : 0 < c.bs) (s : Sched) (size limit : Nat) (cf own : Bool)
    (v : Nat → Bytes) (n : Nat) (ks : List Nat) (hp : ks.Perm (List.range n)) :
    (writeRawP c s size limit cf own (ks.map fun k => (k, v k))).2 <+: c.toCodec.stream (rawExpected v n) ∧
    (writeRawP c s size limit cf own (ks.map fun k => (k, v k))).2.length ≤ limit := by
  rw [pz_raw_exact c hbs s size limit cf own v n ks hp]
  exact ⟨List.take_prefix _ _, by simp only [List.length_take]; omega⟩

/-- the stream of the transcription: header, one compressed block per `bs` bytes of input (each a function of the
input before it and of its own bytes), the last block (possibly empty, deflate stream ended), the trailer -/
theorem pz_stream_shape (c : PCodec) (e : Bytes) :
    c.toCodec.stream e = c.hdr ++ (c.feed e).out ++ c.blk (c.feed e).done (c.feed e).cur true ++ c.trl e ∧
    (c.feed e).done ++ (c.feed e).cur = e :=
  ⟨by rw [stream_eq]; rfl, feed_dig c e⟩

/-- the executable model uses `lenPCodec zlen`: its stream has the measured length (for `zlen ≥ 18`) -/
theorem lenPCodec_stream_length (zlen : Nat) (hz : 18 ≤ zlen) (e : Bytes) (he : e.length < 1048576) :
    ((lenPCodec zlen).toCodec.stream e).length = zlen := by
  have hf : (lenPCodec zlen).feed e = ⟨[], e, []⟩ := by
    have := foldl_feed1_small (lenPCodec zlen) e ⟨[], [], []⟩ (by show 0 + e.length < 1048576; omega)
    simpa [PCodec.feed] using this
  rw [stream_eq]
  unfold PCodec.pre
  rw [hf]
  simp [lenPCodec]
  omega

/-! ## non-vacuity -/

/-- a toy pgzip: blocks of 2 input bytes; header `[31,139]`; a block is emitted as its first byte (the last block
also as `255`, the end of the deflate stream); trailer = input length -/
def exP : PCodec :=
  ⟨2, [31, 139], fun _ cur closed => cur.take 1 ++ (if closed then [255] else []), fun e => [e.length.toUInt8]⟩

/-- a schedule where the listener never runs before it is waited for (`Close`), and one where it runs eagerly -/
def lazyS : Sched := ⟨fun _ => 0, fun _ => false⟩
def eagerS : Sched := ⟨fun _ => 5, fun _ => true⟩

/-- stream of `ABC`, ``, `CBC`: header 2 + blocks `A`, `C`, `B` + last (empty) block `255` + trailer -/
example : exP.toCodec.stream (rawExpected exV 3) = [31, 139, 65, 67, 66, 255, 6] := by decide

/-- sample run (test): the sink takes 4 of 7 bytes; with the lazy schedule no `Write` ever sees the error, `Close` does -/
example : writeRawP exP lazyS 4 4 false true ([1, 0, 2].map fun k => (k, exV k)) = (.fatal, [31, 139, 65, 67]) := by
  rw [pz_raw_exact exP (by decide) lazyS 4 4 false true exV 3 [1, 0, 2] (by decide)]
  decide

/-- the same run evaluated directly on the transcription (chunks written in order), lazy and eager schedules (test):
with the lazy schedule the `bufio.Writer` never sees an error before `Close`; with the eager one `Write` returns it -/
example : (closeP exP lazyS true (([0, 1, 2].map exV).foldl (emitRawG (PZ.write exP lazyS)) ⟨4, [], false, pz0 4 false⟩),
           closeP exP eagerS true (([0, 1, 2].map exV).foldl (emitRawG (PZ.write exP eagerS)) ⟨4, [], false, pz0 4 false⟩)) =
    ((.fatal, [31, 139, 65, 67]), (.fatal, [31, 139, 65, 67])) := by decide

/-- limit 3: the block `C` fails in the listener; lazy: `bufio.Writer` has no error before `Close`, eager: it has (test) -/
example : ((([0, 1, 2].map exV).foldl (emitRawG (PZ.write exP lazyS)) ⟨4, [], false, pz0 3 false⟩).err,
           (([0, 1, 2].map exV).foldl (emitRawG (PZ.write exP eagerS)) ⟨4, [], false, pz0 3 false⟩).err,
           closeP exP lazyS true (([0, 1, 2].map exV).foldl (emitRawG (PZ.write exP lazyS)) ⟨4, [], false, pz0 3 false⟩),
           closeP exP eagerS true (([0, 1, 2].map exV).foldl (emitRawG (PZ.write exP eagerS)) ⟨4, [], false, pz0 3 false⟩)) =
    (false, true, (.fatal, [31, 139, 65]), (.fatal, [31, 139, 65])) := by
  decide

/-- fault in the trailer only (limit 6 of 7) -/
example : (writeRawP exP eagerS 4 6 false false ([1, 0, 2].map fun k => (k, exV k))).1 = .fatal :=
  (pz_raw_fatal_iff exP (by decide) _ 4 6 false false exV 3 [1, 0, 2] (by decide)).mpr (Or.inl (by decide))

/-- fault in the header (limit 1): `Write` itself returns the error -/
example : writeRawP exP eagerS 4 1 false false ([1, 0, 2].map fun k => (k, exV k)) = (.fatal, [31]) := by
  rw [pz_raw_exact exP (by decide) _ 4 1 false false exV 3 [1, 0, 2] (by decide)]
  decide

/-- everything fits: ok, complete stream; the hypothesis of `pz_raw_ok_all_bytes` is satisfiable -/
example : ∃ got, writeRawP exP lazyS 4 7 true false ([1, 0, 2].map fun k => (k, exV k)) = (.ok, got) ∧
    got = exP.toCodec.stream (rawExpected exV 3) := by
  have h : writeRawP exP lazyS 4 7 true false ([1, 0, 2].map fun k => (k, exV k)) = (.ok, [31, 139, 65, 67, 66, 255, 6]) := by
    rw [pz_raw_exact exP (by decide) _ 4 7 true false exV 3 [1, 0, 2] (by decide)]
    decide
  exact ⟨_, h, (pz_raw_ok_all_bytes exP (by decide) _ 4 7 true false exV 3 [1, 0, 2] (by decide) _ h).1⟩

/-- an empty result: `Close` writes header, empty last block, trailer -/
example : writeRawP exP lazyS 4 100 false true [] = (.ok, [31, 139, 255, 0]) := by decide

/-- JSON over the transcription, limit inside the blocks -/
example : (writeJsonP exP eagerS 4 5 false true ([1, 0, 2].map fun k => (k, exV k))).1 = .fatal :=
  (pz_json_fatal_iff exP (by decide) _ 4 5 false true exV 3 [1, 0, 2] (by decide)).mpr (Or.inl (by decide))

/-- the refinement on a concrete case: both sides evaluated (test) -/
example : writeRawP exP lazyS 4 4 false true ([1, 0, 2].map fun k => (k, exV k)) =
    writeRawZ exP.toCodec (fun i => i % 2 = 0) 4 4 false true ([1, 0, 2].map fun k => (k, exV k)) :=
  pz_refines_gz_raw exP (by decide) lazyS _ 4 4 false true exV 3 [1, 0, 2] (by decide)

end ObiVerif.Props.C18
