import ObiVerif.Props.C01
import ObiVerif.Lemmas.Sniff
import ObiVerif.Lemmas.Paired
import ObiVerif.Lemmas.KseqGo
/-!
# C01, second file: format dispatch, paired reading, the C/kseq reader of the stdin path

Property theorems about what surrounds the chunk readers of Props/C01.lean:

* **dispatch** (`Ropen` + `OBIMimeTypeGuesser`, Model/Sniff.lean): every well-formed FASTA / FASTQ / GenBank /
  EMBL file — plain or behind a UTF-8 byte-order mark; a compressed transport delivers the same payload — is
  handed to the reader of its own format, whatever the length of its first record (the detectors only see the
  first 3072 bytes);
* **paired reading** (`ReadSequencesFromFile` twice + `PairTo`): the i-th record of the forward file is delivered
  together with the i-th record of the reverse file, in file order, whatever the read-buffer sizes, the arrival
  orders at the two re-sequencers and at `PairTo`, and the batch size;
* **kseq** (`ReadFastSeqFromFile`, the C reader used for standard input; Model/Kseq.lean, tied to the C code by
  C17): on the well-formed FASTA / FASTQ grammars, for every buffer size, it returns exactly the records of the
  Go chunk parser — outside the documented divergences (VT / FF in the identifier: known finding
  C01-kseq-isspace-title; NUL in a title; lone CR line ends; quality bytes outside 33..127).
-/
namespace ObiVerif.Props.C01X
open ObiVerif.Chunk ObiVerif.Parse ObiVerif.Sniff ObiVerif.Reseq ObiVerif.Iter ObiVerif.Paired

/-- the UTF-8 byte-order mark `Buf` drops -/
def bom : Seq := [0xEF, 0xBB, 0xBF]

/-! ## 1. Dispatch

`mimetype` asks the detectors attached by `OBIMimeTypeGuesser` before its own, the one attached last first
(`Extend` prepends): `ID   ` prefix, `LOCUS       ` prefix or the release banner expression
`^[^ ]* +Genetic Sequence Data Bank *\n`, `#@ecopcr-v2`, the FASTQ expression, the FASTA expression, and only then
csv (patch `C01-sniff-csv-asked-last`; before it csv was asked first and claimed FASTQ files whose titles carry
commas and quotes) and the built-in detectors.  `sniffFile` = the first of the five that fires.
`NoBanner d`: the window of `d` does not match the banner expression (its `[^ ]*` may span lines: a FASTA / FASTQ
title `x Genetic Sequence Data Bank` inside the window sends the file to the GenBank reader, last example
below). -/

/-- **dispatch_fasta**: every file of the FASTA grammar (`faFileText`, i.e. `WellFormedFasta`: identifier not
empty and not starting with a blank) whose window does not show the GenBank release banner goes to the FASTA
reader; decided by the first two bytes, the length of the first record is irrelevant -/
theorem dispatch_fasta (r0 : FaSrc) (rest : List (Seq × FaSrc)) (tail : Seq) (h0 : r0.OK)
    (hb : NoBanner (faFileText r0 rest tail)) :
    sniffFile (faFileText r0 rest tail) = some .fasta ∧
    sniffFile (bom ++ faFileText r0 rest tail) = some .fasta := by
  obtain ⟨hg, t, ht⟩ := guess_faFileText r0 rest tail h0 hb
  refine ⟨?_, ?_⟩
  · rw [ht, sniffFile_plain 62 t (by decide), ← ht, hg]
  · simp only [bom, List.cons_append, List.nil_append]
    rw [sniffFile_bom, hg]

/-- **dispatch_fastq**: every file of the FASTQ grammar whose first record has `LF` / `CR LF` line ends after
its title and sequence lines and a title line that ends inside the 3072-byte detector window goes to the FASTQ
reader, **whatever the length of the first read** (the window may end inside the sequence line, just after its
line feed, or anywhere later).  A title line of 3070 bytes or more is NOT recognised (the expression needs the
line feed of the title line inside the window): hypothesis `FqSniffOK`, third clause. -/
theorem dispatch_fastq (r0 : FqSrc) (rest : List (Seq × FqSrc)) (tail : Seq) (h0 : r0.OK) (hs : FqSniffOK r0)
    (hb : NoBanner (fqFileText r0 rest tail)) :
    sniffFile (fqFileText r0 rest tail) = some .fastq ∧
    sniffFile (bom ++ fqFileText r0 rest tail) = some .fastq := by
  obtain ⟨hg, t, ht⟩ := guess_fqFileText r0 rest tail h0 hs hb
  refine ⟨?_, ?_⟩
  · rw [ht, sniffFile_plain 64 t (by decide), ← ht, hg]
  · simp only [bom, List.cons_append, List.nil_append]
    rw [sniffFile_bom, hg]

/-- **what the repair `C01-fastq-sniff-window-edge` changes** (the detector before it, `fastqDetectOld`, kept in
the model for this statement): a window `@` title-line `LF` sequence-line `LF` — the `+` being the first byte
outside — was refused, it is accepted now.  E.g. a 4-byte title line and a read of 3067 nucleotides. -/
theorem dispatch_fastq_window_edge_repaired (c : UInt8) (a s : Seq) (hc : c ≠ 32) (ha : ∀ x ∈ a, x ≠ 10)
    (hs : ∀ x ∈ s, x ≠ 32 ∧ x ≠ 10) :
    fastqDetectOld (64 :: c :: (a ++ 10 :: (s ++ [10]))) = false ∧
    fastqDetect (64 :: c :: (a ++ 10 :: (s ++ [10]))) = true :=
  fastqDetectOld_window_edge c a s hc ha hs

/-- **dispatch_genbank**: every rendered GenBank file (first line `LOCUS       …`) goes to the GenBank reader;
decided by the first 12 bytes -/
theorem dispatch_genbank (e : GbEntry) (es : List GbEntry) (crlf : Nat → Bool) (closed : Bool) :
    sniffFile (flatFileText crlf ((e :: es).flatMap GbEntry.lines) closed) = some .genbank ∧
    sniffFile (bom ++ flatFileText crlf ((e :: es).flatMap GbEntry.lines) closed) = some .genbank := by
  obtain ⟨hg, t, ht⟩ := guess_genbank_file e es crlf closed
  refine ⟨?_, ?_⟩
  · rw [ht, sniffFile_plain 76 t (by decide), ← ht, hg]
  · simp only [bom, List.cons_append, List.nil_append]
    rw [sniffFile_bom, hg]

/-- **dispatch_embl**: every rendered EMBL file (first line `ID   …`) goes to the EMBL reader; decided by the
first 5 bytes -/
theorem dispatch_embl (e : EmEntry) (es : List EmEntry) (crlf : Nat → Bool) (closed : Bool) :
    sniffFile (flatFileText crlf ((e :: es).flatMap EmEntry.lines) closed) = some .embl ∧
    sniffFile (bom ++ flatFileText crlf ((e :: es).flatMap EmEntry.lines) closed) = some .embl := by
  obtain ⟨hg, t, ht⟩ := guess_embl_file e es crlf closed
  refine ⟨?_, ?_⟩
  · rw [ht, sniffFile_plain 73 t (by decide), ← ht, hg]
  · simp only [bom, List.cons_append, List.nil_append]
    rw [sniffFile_bom, hg]

/-- non-vacuity: the samples of Props/C01.lean -/
example : FqSniffOK ObiVerif.Props.C01.exSrcQ := ⟨⟨0, rfl⟩, ⟨0, rfl⟩, by decide⟩

/-! (tests on samples) small files through the whole sniffer; the last one shows that `NoBanner` is needed:
`>a␊AC␊>b Genetic Sequence Data Bank␊GG␊` is a well-formed FASTA file and goes to the GenBank reader -/
set_option maxRecDepth 20000 in
example : sniffFile [62, 97, 10, 65, 67, 10] = some .fasta := by decide
set_option maxRecDepth 20000 in
example : sniffFile [64, 97, 10, 65, 67, 10, 43, 10, 73, 73, 10] = some .fastq := by decide
example : sniffFile [0x1f, 0x8b, 8, 0] = none := by decide
set_option maxRecDepth 20000 in
example : sniffFile ([73, 68, 32, 32, 32] ++ gsdbKey ++ [10, 47, 47, 10]) = some .embl := by decide
set_option maxRecDepth 20000 in
example : sniffFile ([62, 97, 10, 65, 67, 10, 62, 98, 32] ++ gsdbKey ++ [10, 71, 71, 10]) = some .genbank := by decide

/-! ## 2. Paired reading -/

/-- **paired_reading**.  Two well-formed FASTQ files with the same number of records, read with any buffer
sizes `bf`, `br ≥ 2`: the chunk readers terminate (chunks `csF`, `csR`); for every arrival order of the parsed
chunks at the two `SortBatches` the delivered batches `rssF`, `rssR` are error-free and carry the records of
their file in file order (`reader_content_fastq`); and `PairTo` on the two delivered streams — records named by
their rank in their stream, batches reaching `PairTo` in any orders `kF`, `kR`, any batch size — delivers batches
numbered `0, 1, 2, …` whose pairs are `(0,0), (1,1), …`: the i-th read of the forward file with the i-th read of
the reverse file, all of them, in file order. -/
theorem paired_reading (sh : UInt8) (wq : Bool)
    (f0 : FqSrc) (frest : List (Seq × FqSrc)) (ftail : Seq) (hf0 : f0.OK) (hfrest : ∀ p ∈ frest, EolRun p.1 ∧ p.2.OK)
    (hft : AllEol ftail)
    (r0 : FqSrc) (rrest : List (Seq × FqSrc)) (rtail : Seq) (hr0 : r0.OK) (hrrest : ∀ p ∈ rrest, EolRun p.1 ∧ p.2.OK)
    (hrt : AllEol rtail) (hsame : frest.length = rrest.length)
    (bf br : Nat) (hbf : 2 ≤ bf) (hbr : 2 ≤ br) (size : Nat) (hsize : 0 < size) :
    ∃ csF csR, chunks splitFastq bf (fqFileText f0 frest ftail) = some csF ∧
      chunks splitFastq br (fqFileText r0 rrest rtail) = some csR ∧
      ∀ ksF ksR : List Nat, ksF.Perm (List.range csF.length) → ksR.Perm (List.range csR.length) →
        ∃ rssF rssR : List (List Parse.Rec),
          reseq (ksF.map fun k => (k, parseFastq sh wq (csF.getD k []))) = rssF.map Except.ok ∧
          reseq (ksR.map fun k => (k, parseFastq sh wq (csR.getD k []))) = rssR.map Except.ok ∧
          rssF.flatten = f0.record sh wq :: frest.map (fun p => p.2.record sh wq) ∧
          rssR.flatten = r0.record sh wq :: rrest.map (fun p => p.2.record sh wq) ∧
          ∀ kF kR : List Nat, kF.Perm (List.range rssF.length) → kR.Perm (List.range rssR.length) →
            let out := pairTo size (kF.map fun k => (k, (ranks 0 rssF).getD k []))
              (kR.map fun k => (k, (ranks 0 rssR).getD k []))
            out.map (·.1) = List.range out.length ∧
            out.flatMap (·.2) = (List.range (frest.length + 1)).map fun i => (i, i) := by
  obtain ⟨csF, hcF, hallF⟩ := ObiVerif.Props.C01.reader_content_fastq sh wq f0 frest ftail hf0 hfrest hft bf hbf
  obtain ⟨csR, hcR, hallR⟩ := ObiVerif.Props.C01.reader_content_fastq sh wq r0 rrest rtail hr0 hrrest hrt br hbr
  refine ⟨csF, csR, hcF, hcR, fun ksF ksR hpF hpR => ?_⟩
  obtain ⟨rssF, hF1, hF2⟩ := hallF ksF hpF
  obtain ⟨rssR, hR1, hR2⟩ := hallR ksR hpR
  refine ⟨rssF, rssR, hF1, hR1, hF2, hR2, fun kF kR hkF hkR => ?_⟩
  have hnF : rssF.flatten.length = frest.length + 1 := by rw [hF2]; simp
  have hnR : rssR.flatten.length = frest.length + 1 := by rw [hR2, hsame]; simp
  have := paired_ranks size hsize rssF rssR (by rw [hnF, hnR]) kF hkF kR hkR
  rw [hnF] at this
  exact this

/-- non-vacuity of the pairing step: two streams of 3 records cut 2+1 and 1+2, batches arriving out of order,
batch size 2 -/
example : let out := pairTo 2 ([1, 0].map fun k => (k, (ranks 0 [[7, 8], [9]]).getD k [])) ([0, 1].map fun k => (k, (ranks 0 [[1], [2, 3]]).getD k []))
    out.map (·.1) = List.range out.length ∧ out.flatMap (·.2) = (List.range 3).map fun i => (i, i) :=
  paired_ranks 2 (by decide) [[7, 8], [9]] [[1], [2, 3]] (by decide) [1, 0] (by decide) [0, 1] (by decide)

/-! ## 3. The C/kseq reader (standard input, `ReadFastSeqFromFile`) agrees with the Go chunk parsers

`ObiVerif.Kseq.readAll bufsz fin early junk d` (Model/Kseq.lean, property C17 ties it to kseq.h / fastseq_read.c):
the records `_FastseqReader` receives from `next_fast_sek` on the stream `d` read through `gzread` calls of
`bufsz` bytes; `toRec sh`: the BioSequence it builds (`C.GoString` of the name, comment minus trailing CRs and
leading blanks, sequence lower-cased, qualities minus the shift).  `KOK`: no NUL in the title, no VT / FF in the
identifier, a LF in the line end of the title line (and of the `+` line), quality bytes in 33..127. -/

/-- **kseq_agrees_with_go** (FASTA): for every well-formed FASTA file satisfying `KOK`, every `gzread` buffer
size ≥ 1, whatever the uninitialised buffer byte and the moment zlib reports the end: the C reader ends
normally and its records, as `_FastseqReader` builds them, are exactly the records of `FastaChunkParser`
(= what each record's text implies, `parseFasta_content`) -/
theorem kseq_agrees_with_go_fasta (sh : UInt8) (bufsz : Nat) (hb : 1 ≤ bufsz) (early : Bool) (junk : UInt8)
    (r0 : FaSrc) (rest : List (Seq × FaSrc)) (tail : Seq) (h0 : r0.OK) (hrest : ∀ p ∈ rest, EolRun p.1 ∧ p.2.OK)
    (ht : AllEol tail) (k0 : r0.KOK) (krest : ∀ p ∈ rest, p.2.KOK) :
    ∃ recs, ObiVerif.Kseq.readAll bufsz .clean early junk (faFileText r0 rest tail) = (recs, .ok) ∧
      recs.map (ObiVerif.Kseq.toRec sh) = r0.record :: rest.map (fun p => p.2.record) ∧
      parseFasta (faFileText r0 rest tail) = .ok (recs.map (ObiVerif.Kseq.toRec sh)) :=
  ObiVerif.Kseq.kseq_agrees_with_go_fasta sh bufsz hb early junk r0 rest tail h0 hrest ht k0 krest

/-- **kseq_agrees_with_go** (FASTQ, qualities read) -/
theorem kseq_agrees_with_go_fastq (sh : UInt8) (bufsz : Nat) (hb : 1 ≤ bufsz) (early : Bool) (junk : UInt8)
    (r0 : FqSrc) (rest : List (Seq × FqSrc)) (tail : Seq) (h0 : r0.OK) (hrest : ∀ p ∈ rest, EolRun p.1 ∧ p.2.OK)
    (ht : AllEol tail) (k0 : r0.KOK) (krest : ∀ p ∈ rest, p.2.KOK) :
    ∃ recs, ObiVerif.Kseq.readAll bufsz .clean early junk (fqFileText r0 rest tail) = (recs, .ok) ∧
      recs.map (ObiVerif.Kseq.toRec sh) = r0.record sh true :: rest.map (fun p => p.2.record sh true) ∧
      parseFastq sh true (fqFileText r0 rest tail) = .ok (recs.map (ObiVerif.Kseq.toRec sh)) :=
  ObiVerif.Kseq.kseq_agrees_with_go_fastq sh bufsz hb early junk r0 rest tail h0 hrest ht k0 krest

/-- **the VT / FF hypothesis is needed** (known finding C01-kseq-isspace-title): on `>a␋b␊ac␊`, for every buffer
size, kseq gives identifier `a` and definition `b`, the Go parser identifier `a␋b` -/
theorem kseq_vt_counterexample (bufsz : Nat) (hb : 1 ≤ bufsz) (early : Bool) (junk : UInt8) :
    ObiVerif.Kseq.readAll bufsz .clean early junk [62, 97, 11, 98, 10, 97, 99, 10] = ([⟨[97], [98], [97, 99], []⟩], .ok) ∧
    parseFasta [62, 97, 11, 98, 10, 97, 99, 10] = .ok [{ id := [97, 11, 98], defn := [], seq := [97, 99] }] := by
  refine ⟨?_, by rfl⟩
  exact ObiVerif.Kseq.readAll_fasta bufsz hb early junk ObiVerif.Kseq.exVT [] [10] ObiVerif.Kseq.exVT_ok (by simp)
    (by unfold AllEol; decide) (by decide) (by simp)

/-- non-vacuity of the hypotheses (two-record CR LF files of Lemmas/KseqGo.lean) -/
example : (ObiVerif.Kseq.exR0.OK ∧ ObiVerif.Kseq.exR0.KOK) ∧ (ObiVerif.Kseq.exQ0.OK ∧ ObiVerif.Kseq.exQ0.KOK) :=
  ⟨ObiVerif.Kseq.exR0_ok, ObiVerif.Kseq.exQ0_ok⟩

end ObiVerif.Props.C01X
