import ObiVerif.Model.Tax
import ObiVerif.Lemmas.Tax
import ObiVerif.Lemmas.TaxExample
import ObiVerif.Model.TaxLoad
import ObiVerif.Lemmas.TaxIter
import ObiVerif.Lemmas.TaxStr
import ObiVerif.Lemmas.TaxLoad
import ObiVerif.Model.TaxSeq
import ObiVerif.Lemmas.TaxSeq
import ObiVerif.Lemmas.TaxRender
import ObiVerif.Lemmas.TaxWLca
import ObiVerif.Model.TaxIter
import ObiVerif.Lemmas.TaxIterProto
/-!
# C14 — taxonomy queries agree with the tree (property theorems)

Every theorem is about an arbitrary taxonomy `t` (any `nodes` map, any taxids, any ranks, any alias
table) that is well formed: `WF t root depth` — `root` is its own parent and the only such node, the
parent of a node is a node, `depth` strictly decreases along parent links (i.e. every node reaches
the root) — and about any fuel that is at least the length of every path (`FuelOK`); the model
executable of the correspondence check uses the number of nodes + 1, which is enough (`fuel_nodes_suffices`).  `Anc t a x` is "`a` is an ancestor-or-self of `x`".
-/
namespace ObiVerif.Props.C14
open ObiVerif.Tax

variable {t : Taxo} {root : Nat} {depth : Nat → Nat} {fuel : Nat}

/-! ## 0. the well-formedness hypothesis -/

/-- `WF` is what "rooted tree" means: a taxonomy with a single self-parent node `root`, closed under
parents, in which every node reaches `root` by following parent links (`up t k x` = `k` links up from
`x`) has a depth function that makes it `WF` -/
theorem wellFormed_of_reaches
    (hroot : ∃ n, t.node root = some n ∧ n.parent = root)
    (honly : ∀ x n, t.node x = some n → n.parent = x → x = root)
    (hpar : ∀ x n, t.node x = some n → ∃ m, t.node n.parent = some m)
    (hreach : ∀ x n, t.node x = some n → ∃ k, up t k x = root) :
    ∃ depth, WF t root depth := wf_of_reaches hroot honly hpar hreach

/-- closure under parents is what a successful `ReindexParent` establishes -/
theorem reindexOk_parent_node (hids : ∀ x n, t.node x = some n → x ∈ t.ids) (h : reindexOk t = true) :
    ∀ x n, t.node x = some n → ∃ m, t.node n.parent = some m := by
  intro x n hn
  unfold reindexOk at h
  have := List.all_eq_true.1 h x (hids x n hn)
  simp only [hn] at this
  exact Option.isSome_iff_exists.1 this

/-- the fuel of the model executable (number of nodes + 1) satisfies `FuelOK` whenever `ids` lists
every node; so does any fuel above the depth of every node -/
theorem fuel_nodes_suffices (wf : WF t root depth) (hids : ∀ x n, t.node x = some n → x ∈ t.ids) :
    FuelOK t (t.ids.length + 1) := fuelOK_of_ids wf hids

theorem fuel_depth_suffices (wf : WF t root depth) (h : ∀ x n, t.node x = some n → depth x < fuel) :
    FuelOK t fuel := fuelOK_of_depth wf h

/-! ## 1. `TaxNode.Path` -/

/-- the path of a node runs from the node itself to the root along parent links (never through a
self loop before the root), lists exactly the ancestors-or-self of the node, each once -/
theorem path_spec (wf : WF t root depth) (hf : FuelOK t fuel) {x : Nat} {n : Node}
    (hx : t.node x = some n) :
    ∃ p, path t fuel x = .ok p ∧ p.head? = some x ∧ p.getLast? = some root ∧ Linked t p ∧
      (∀ a, a ∈ p ↔ Anc t a x) ∧ p.Nodup := by
  obtain ⟨p, hp, ip⟩ := path_total wf hf hx
  refine ⟨p, hp, ?_, ip.getLast wf, ip.linked, ip.mem_iff_anc, ip.nodup wf⟩
  obtain ⟨q, rfl⟩ := ip.head; rfl

/-- `Taxonomy.Path(taxid)` is the path of the node the taxid resolves to, an error for an unknown taxid -/
theorem taxoPath_spec (id : Nat) :
    taxoPath t fuel id = match resolve t id with
      | none => .error .err
      | some x => path t fuel x := rfl

/-! ## 2. `TaxNode.LCA` -/

theorem lca_total (wf : WF t root depth) (hf : FuelOK t fuel) {x y : Nat} {nx ny : Node}
    (hx : t.node x = some nx) (hy : t.node y = some ny) : ∃ z, lca t fuel x y = .ok z := by
  obtain ⟨z, _, h, _⟩ := lca_ok wf hf hx hy; exact ⟨z, h⟩

theorem lca_is_common_ancestor (wf : WF t root depth) (hf : FuelOK t fuel) {x y z : Nat} {nx ny : Node}
    (hx : t.node x = some nx) (hy : t.node y = some ny) (h : lca t fuel x y = .ok z) :
    Anc t z x ∧ Anc t z y := by
  obtain ⟨z', _, h', _, hc, _⟩ := lca_ok wf hf hx hy
  rw [h] at h'; cases h'
  exact (hc z).1 (Anc.refl z)

/-- any common ancestor of `x` and `y` is an ancestor of their LCA -/
theorem lca_deepest (wf : WF t root depth) (hf : FuelOK t fuel) {x y z : Nat} {nx ny : Node}
    (hx : t.node x = some nx) (hy : t.node y = some ny) (h : lca t fuel x y = .ok z) :
    ∀ a, Anc t a x → Anc t a y → Anc t a z := by
  obtain ⟨z', _, h', _, hc, _⟩ := lca_ok wf hf hx hy
  rw [h] at h'; cases h'
  exact fun a h1 h2 => (hc a).2 ⟨h1, h2⟩

/-- the LCA is the only taxon whose ancestors are exactly the common ancestors -/
theorem lca_unique (wf : WF t root depth) (hf : FuelOK t fuel) {x y z : Nat} {nx ny : Node}
    (hx : t.node x = some nx) (hy : t.node y = some ny)
    (hz : ∀ a, Anc t a z ↔ (Anc t a x ∧ Anc t a y)) : lca t fuel x y = .ok z := by
  obtain ⟨z', _, h', _, hc, _⟩ := lca_ok wf hf hx hy
  have h1 : Anc t z z' := (hc z).2 ((hz z).1 (Anc.refl z))
  have h2 : Anc t z' z := (hz z').2 ((hc z').1 (Anc.refl z'))
  rw [h', Anc.antisymm wf h1 h2]

theorem lca_comm (wf : WF t root depth) (hf : FuelOK t fuel) {x y : Nat} {nx ny : Node}
    (hx : t.node x = some nx) (hy : t.node y = some ny) : lca t fuel x y = lca t fuel y x := by
  obtain ⟨z, _, h, _, hc, _⟩ := lca_ok wf hf hx hy
  rw [h]
  exact (lca_unique wf hf hy hx (fun a => by rw [hc a]; exact And.comm)).symm

theorem lca_idem (wf : WF t root depth) (hf : FuelOK t fuel) {x : Nat} {nx : Node}
    (hx : t.node x = some nx) : lca t fuel x x = .ok x :=
  lca_unique wf hf hx hx (fun a => by simp)

/-- `LCA(LCA(x,y),z) = LCA(x,LCA(y,z))` -/
theorem lca_assoc (wf : WF t root depth) (hf : FuelOK t fuel) {x y z : Nat} {nx ny nz : Node}
    (hx : t.node x = some nx) (hy : t.node y = some ny) (hz : t.node z = some nz) :
    ∃ u v w, lca t fuel x y = .ok u ∧ lca t fuel y z = .ok v ∧
      lca t fuel u z = .ok w ∧ lca t fuel x v = .ok w := by
  obtain ⟨u, nu, hu, hnu, cu, _⟩ := lca_ok wf hf hx hy
  obtain ⟨v, nv, hv, hnv, cv, _⟩ := lca_ok wf hf hy hz
  obtain ⟨w, _, hw, _, cw, _⟩ := lca_ok wf hf hnu hz
  refine ⟨u, v, w, hu, hv, hw, ?_⟩
  apply lca_unique wf hf hx hnv
  intro a
  rw [cw a, cu a, cv a]
  exact and_assoc

/-! ## 3. `IsSubCladeOf`, `TaxonAtRank`, `HasRankDefined` -/

/-- `x.IsSubCladeOf(c)` answers whether `c` is an ancestor-or-self of `x` -/
theorem isSubClade_iff_anc (wf : WF t root depth) (hf : FuelOK t fuel) {x : Nat} {n : Node}
    (hx : t.node x = some n) (c : Nat) :
    ∃ b, isSubCladeOf t c fuel x = .ok b ∧ (b = true ↔ Anc t c x) := by
  obtain ⟨p, hp, ip⟩ := path_total wf hf hx
  refine ⟨p.contains c, isSubCladeOf_eq_contains c _ _ _ hp, ?_⟩
  rw [← ip.mem_iff_anc]; simp

/-- `TaxonAtRank(r)` is the first taxon of the path carrying rank `r` (nil when there is none) -/
theorem taxonAtRank_first (wf : WF t root depth) (hf : FuelOK t fuel) {x : Nat} {n : Node}
    (hx : t.node x = some n) (r : String) :
    ∃ p, path t fuel x = .ok p ∧ taxonAtRank t r fuel x = .ok (p.find? (rankIs t r)) := by
  obtain ⟨p, hp, _⟩ := path_total wf hf hx
  exact ⟨p, hp, taxonAtRank_eq_find r _ _ _ hp⟩

/-- … in terms of the tree: the answer `y` is an ancestor-or-self of `x` of rank `r`, and no taxon of
rank `r` lies between `x` and `y` -/
theorem taxonAtRank_some (wf : WF t root depth) (hf : FuelOK t fuel) {x y : Nat} {n : Node}
    (hx : t.node x = some n) (r : String) (h : taxonAtRank t r fuel x = .ok (some y)) :
    Anc t y x ∧ rankIs t r y = true ∧ ∀ a, Anc t a x → Anc t y a → rankIs t r a = true → a = y := by
  obtain ⟨p, hp, ip⟩ := path_total wf hf hx
  rw [taxonAtRank_eq_find r _ _ _ hp] at h
  have hf' : p.find? (rankIs t r) = some y := (Except.ok.inj h)
  obtain ⟨hy, l1, l2, e, hno⟩ := List.find?_eq_some_iff_append.1 hf'
  refine ⟨ip.anc_of_mem (by rw [e]; simp), hy, ?_⟩
  intro a hax hya hra
  have ha : a ∈ p := IsPath.mem_of_anc hax ip
  rw [e] at ha
  rcases List.mem_append.1 ha with h1 | h1
  · have := hno a h1; simp [hra] at this
  · have py : IsPath t y (y :: l2) := ip.suffix l1 y l2 e
    exact Anc.antisymm wf (py.anc_of_mem h1) hya

theorem taxonAtRank_none (wf : WF t root depth) (hf : FuelOK t fuel) {x : Nat} {n : Node}
    (hx : t.node x = some n) (r : String) (h : taxonAtRank t r fuel x = .ok none) :
    ∀ a, Anc t a x → rankIs t r a = false := by
  obtain ⟨p, hp, ip⟩ := path_total wf hf hx
  rw [taxonAtRank_eq_find r _ _ _ hp] at h
  have hf' : p.find? (rankIs t r) = none := (Except.ok.inj h)
  intro a ha
  have := List.find?_eq_none.1 hf' a (IsPath.mem_of_anc ha ip)
  simpa using this

theorem hasRankDefined_iff (wf : WF t root depth) (hf : FuelOK t fuel) {x : Nat} {n : Node}
    (hx : t.node x = some n) (r : String) :
    ∃ b, hasRankDefined t r fuel x = .ok b ∧ (b = true ↔ ∃ a, Anc t a x ∧ rankIs t r a = true) := by
  obtain ⟨p, hp, ip⟩ := path_total wf hf hx
  refine ⟨_, hasRankDefined_eq_any r _ _ _ hp, ?_⟩
  simp only [List.any_eq_true]
  constructor
  · rintro ⟨a, h1, h2⟩; exact ⟨a, ip.anc_of_mem h1, h2⟩
  · rintro ⟨a, h1, h2⟩; exact ⟨a, IsPath.mem_of_anc h1 ip, h2⟩

/-! ## 4. aliases -/

/-- a live taxid resolves to itself, whatever the alias table says -/
theorem resolve_node {x : Nat} {n : Node} (h : t.node x = some n) : resolve t x = some x := by
  simp [resolve, h]

/-- `AddNewAlias(new, old)`: afterwards `old` resolves to what `new` resolved to (unless `old` is a
live taxid, or `new` is unknown: nothing recorded), every other taxid resolves as before, and the
tree is untouched -/
theorem alias_resolves (new old : Nat) :
    (addAlias t new old).node = t.node ∧
    (∀ k, k ≠ old → resolve (addAlias t new old) k = resolve t k) ∧
    (t.node old = none → ∀ x, resolve t new = some x → resolve (addAlias t new old) old = some x) ∧
    (resolve t new = none → resolve (addAlias t new old) old = resolve t old) := by
  refine ⟨addAlias_node t new old, ?_, ?_, ?_⟩
  · intro k hk
    unfold addAlias
    split
    · simp [resolve, hk]
    · rfl
  · intro ho x hx
    unfold addAlias; rw [hx]; simp [resolve, ho]
  · intro hn
    unfold addAlias; rw [hn]

/-- resolution always lands on a live node, also after any sequence of `AddNewAlias` -/
theorem resolve_lands_on_node (t0 : Taxo) (h0 : ∀ k, t0.alias k = none) (l : List (Nat × Nat)) {id x : Nat}
    (h : resolve (addAliases t0 l) id = some x) : ∃ m, t0.node x = some m := by
  have ok : AliasOK t0 := by intro o n hn; rw [h0] at hn; cases hn
  have := resolve_isNode (addAliases_aliasOK ok l) h
  rwa [addAliases_node] at this

/-! ## 5. sequence predicates and annotations -/

/-- `--restrict-to-taxon c1 … ck`: fatal when one of the clades is unknown; otherwise selects exactly
the sequences whose taxid resolves to a taxon below one of the clades -/
theorem restrictTo_spec (wf : WF t root depth) (hf : FuelOK t fuel) (ha : AliasOK t)
    (clades : List Nat) (tid : Nat) :
    ((∃ c ∈ clades, resolve t c = none) → restrictTo t fuel clades tid = .error .fatal) ∧
    ((∀ c ∈ clades, (resolve t c).isSome) →
      ∃ b, restrictTo t fuel clades tid = .ok b ∧
        (b = true ↔ ∃ x, resolve t tid = some x ∧ ∃ c ∈ clades, ∃ c', resolve t c = some c' ∧ Anc t c' x)) := by
  constructor
  · intro h; simp [restrictTo, resolveAll_fatal clades h]
  · intro h
    simp only [restrictTo, resolveAll_total clades h]
    cases hr : resolve t tid with
    | none => exact ⟨false, anyClade_unknown hr _, by simp⟩
    | some x =>
      obtain ⟨m, hm⟩ := resolve_isNode ha hr
      obtain ⟨p, hp, ip⟩ := path_total wf hf hm
      refine ⟨_, anyClade_eq hr hp _, ?_⟩
      simp only [List.any_eq_true, List.mem_filterMap, List.contains_iff_mem, ip.mem_iff_anc]
      constructor
      · rintro ⟨c', ⟨c, hc, hcc⟩, hanc⟩
        exact ⟨x, rfl, c, hc, c', hcc, hanc⟩
      · rintro ⟨x', hx', c, hc, c', hcc, hanc⟩
        cases hx'
        exact ⟨c', ⟨c, hc, hcc⟩, hanc⟩

/-- `--ignore-taxon` is the complement of `--restrict-to-taxon` (a sequence of unknown taxid is kept) -/
theorem ignoreTaxon_spec (clades : List Nat) (tid : Nat) :
    ignoreTaxon t fuel clades tid = match restrictTo t fuel clades tid with
      | .ok b => .ok (!b)
      | .error e => .error e := rfl

/-- `--require-rank r1 … rk`: fatal when a rank is carried by no node; otherwise selects exactly the
sequences whose taxid resolves to a taxon having an ancestor-or-self of each required rank -/
theorem requireRanks_spec (wf : WF t root depth) (hf : FuelOK t fuel) (ha : AliasOK t)
    (ranks : List String) (hne : ranks ≠ []) (tid : Nat) :
    ((∃ r ∈ ranks, r ∉ rankList t) → requireRanks t fuel ranks tid = .error .fatal) ∧
    ((∀ r ∈ ranks, r ∈ rankList t) →
      ∃ b, requireRanks t fuel ranks tid = .ok b ∧
        (b = true ↔ ∃ x, resolve t tid = some x ∧ ∀ r ∈ ranks, ∃ a, Anc t a x ∧ rankIs t r a = true)) := by
  constructor
  · rintro ⟨r, hr, hn⟩
    have : ¬ (ranks.all fun r => (rankList t).contains r) = true := by
      simp only [List.all_eq_true, List.contains_iff_mem]; exact fun h => hn (h r hr)
    unfold requireRanks; rw [if_neg this]
  · intro h
    have : (ranks.all fun r => (rankList t).contains r) = true := by
      simp only [List.all_eq_true, List.contains_iff_mem]; exact h
    simp only [requireRanks, this, if_true]
    cases hr : resolve t tid with
    | none =>
      refine ⟨false, ?_, by simp⟩
      rw [allRanks_unknown hr]; cases ranks with
      | nil => exact absurd rfl hne
      | cons => rfl
    | some x =>
      obtain ⟨m, hm⟩ := resolve_isNode ha hr
      obtain ⟨p, hp, ip⟩ := path_total wf hf hm
      refine ⟨_, allRanks_eq hr hp _, ?_⟩
      simp only [List.all_eq_true, List.any_eq_true]
      constructor
      · intro hall
        refine ⟨x, rfl, fun r hr => ?_⟩
        obtain ⟨a, h1, h2⟩ := hall r hr
        exact ⟨a, ip.anc_of_mem h1, h2⟩
      · rintro ⟨x', hx', hall⟩ r hr
        cases hx'
        obtain ⟨a, h1, h2⟩ := hall r hr
        exact ⟨a, IsPath.mem_of_anc h1 ip, h2⟩

/-- the composite obigrep filter `--require-rank … --restrict-to-taxon … --ignore-taxon …` is the
conjunction of the three predicates, an option that is not given being no constraint -/
theorem taxFilter_spec (ranks : List String) (restrict ignore : List Nat) (tid : Nat) {rr rt ig : Bool}
    (h1 : requireRanks t fuel ranks tid = .ok rr) (h2 : restrictTo t fuel restrict tid = .ok rt)
    (h3 : ignoreTaxon t fuel ignore tid = .ok ig) :
    taxFilter t fuel ranks restrict ignore tid =
      .ok (rr && (restrict.isEmpty || rt) && (ignore.isEmpty || ig)) := by
  unfold requireRanks at h1
  split at h1
  · rename_i hranks
    unfold restrictTo at h2
    split at h2
    · cases h2
    · rename_i cs hcs
      unfold ignoreTaxon restrictTo at h3
      split at h3
      · rename_i b hb
        split at hb
        · cases hb
        · rename_i is his
          cases h3
          have e1 : cs.isEmpty = restrict.isEmpty := by
            have := resolveAll_length _ _ hcs
            cases cs <;> cases restrict <;> simp_all
          have e2 : is.isEmpty = ignore.isEmpty := by
            have := resolveAll_length _ _ his
            cases is <;> cases ignore <;> simp_all
          unfold taxFilter
          simp only [hranks, hcs, his, h1, e1, e2, Bool.not_true, Bool.false_eq_true, if_false]
          cases rr <;> cases hre : restrict.isEmpty <;> cases rt <;> cases hie : ignore.isEmpty <;>
            simp_all
      · rename_i e he
        cases h3
  · cases h1

theorem taxFilter_fatal (ranks : List String) (restrict ignore : List Nat) (tid : Nat)
    (h : (∃ r ∈ ranks, r ∉ rankList t) ∨ (∃ c ∈ restrict, resolve t c = none) ∨ (∃ c ∈ ignore, resolve t c = none)) :
    taxFilter t fuel ranks restrict ignore tid = .error .fatal := by
  unfold taxFilter
  by_cases hr : (ranks.all fun r => (rankList t).contains r) = true
  · simp only [hr, Bool.not_true, Bool.false_eq_true, if_false]
    rcases h with ⟨r, h1, h2⟩ | h | h
    · simp only [List.all_eq_true, List.contains_iff_mem] at hr
      exact absurd (hr r h1) h2
    · rw [resolveAll_fatal restrict h]
    · cases hc : resolveAll t restrict with
      | error e =>
        by_cases hx : ∃ c ∈ restrict, resolve t c = none
        · rw [resolveAll_fatal restrict hx] at hc; cases hc; rfl
        · have : ∀ c ∈ restrict, (resolve t c).isSome := by
            intro c hc'
            cases h' : resolve t c with
            | none => exact absurd ⟨c, hc', h'⟩ hx
            | some _ => rfl
          rw [resolveAll_total restrict this] at hc; cases hc
      | ok cs => simp only [resolveAll_fatal ignore h]
  · have : (ranks.all fun r => (rankList t).contains r) = false := Bool.eq_false_iff.2 hr
    simp only [this, Bool.not_false, if_true]

/-- `IsSubCladeOfSlot(key)`: false unless both the attribute and the sequence taxid resolve -/
theorem inCladeSlot_spec (slot : Option Nat) (tid : Nat) :
    inCladeSlot t fuel slot tid = match slot with
      | none => .ok false
      | some c => match resolve t c, resolve t tid with
        | some c, some x => isSubCladeOf t c fuel x
        | _, _ => .ok false := rfl

/-- `SetTaxonAtRank` annotates nothing for an unknown taxid, else the answer of `TaxonAtRank` on the
resolved taxon (`-1` for nil), which `taxonAtRank_first/_some/_none` characterise -/
theorem setTaxonAtRank_spec (rank : String) (tid : Nat) :
    setTaxonAtRank t fuel rank tid = match resolve t tid with
      | none => .ok none
      | some x => match taxonAtRank t rank fuel x with
        | .ok r => .ok (some r)
        | .error e => .error e := rfl

/-! ## 6. `Taxonomy.LCA(sequence, 1.0)` — LCA of the taxids merged in a sequence, zero error tolerance -/

/-- on a non-empty `merged_taxid` map of known taxids with positive counts, the weighted LCA at
threshold 1.0 is the left fold of `TaxNode.LCA` over the taxa present (as `TaxonomicDistribution`
lists them), i.e. the deepest common ancestor of all of them; it does not depend on the weights -/
theorem weightedLca_threshold_one (wf : WF t root depth) (hf : FuelOK t fuel) (ha : AliasOK t)
    (kws : List (Nat × Nat)) (hne : kws ≠ [])
    (hr : ∀ kw ∈ kws, (resolve t kw.1).isSome) (hw : ∀ kw ∈ kws, 0 < kw.2) :
    ∃ x w rest z, taxDist t kws [] = .ok ((x, w) :: rest) ∧
      lcaFold t fuel x (rest.map (·.1)) = .ok z ∧
      weightedLca t fuel kws = .ok (some z) ∧
      (∀ a, Anc t a z ↔ ∀ kw ∈ kws, ∃ y, resolve t kw.1 = some y ∧ Anc t a y) := by
  obtain ⟨dist, h1, h2, h3⟩ := taxDist_ok kws [] hr
  have hpos : ∀ d ∈ dist, 0 < d.2 := h3 (by intro d hd; simp at hd) hw
  have hnode : ∀ d ∈ dist, ∃ n, t.node d.1 = some n := by
    intro d hd
    have : d.1 ∈ dist.map (·.1) := List.mem_map.2 ⟨d, hd, rfl⟩
    rcases (h2 d.1).1 this with h | ⟨kw, _, hk⟩
    · simp at h
    · exact resolve_isNode ha hk
  cases dist with
  | nil =>
    cases kws with
    | nil => exact absurd rfl hne
    | cons kw r =>
      obtain ⟨y, hy⟩ := Option.isSome_iff_exists.1 (hr kw (by simp))
      have := (h2 y).2 (Or.inr ⟨kw, by simp, hy⟩)
      simp at this
  | cons d rest =>
    obtain ⟨x, w⟩ := d
    obtain ⟨z, hz, hwl, hc⟩ := wlcaNodes_eq_fold wf hf x w rest hnode hpos
    refine ⟨x, w, rest, z, h1, hz, by simp [weightedLca, h1, hwl], ?_⟩
    intro a
    rw [hc a]
    constructor
    · intro h kw hkw
      obtain ⟨y, hy⟩ := Option.isSome_iff_exists.1 (hr kw hkw)
      have : y ∈ ((x, w) :: rest).map (·.1) := (h2 y).2 (Or.inr ⟨kw, hkw, hy⟩)
      obtain ⟨d, hd, rfl⟩ := List.mem_map.1 this
      exact ⟨d.1, hy, h d hd⟩
    · intro h d hd
      have : d.1 ∈ ((x, w) :: rest).map (·.1) := List.mem_map.2 ⟨d, hd, rfl⟩
      rcases (h2 d.1).1 this with h' | ⟨kw, hkw, hk⟩
      · simp at h'
      · obtain ⟨y, hy, hay⟩ := h kw hkw
        rw [hk] at hy; cases hy; exact hay

/-- an unknown taxid in the map is `log.Panicf` -/
theorem weightedLca_unknown (kws : List (Nat × Nat)) (h : ∃ kw ∈ kws, resolve t kw.1 = none) :
    weightedLca t fuel kws = .error .panic := by
  simp [weightedLca, taxDist_unknown kws [] h]

/-- an empty map gives the nil taxon -/
theorem weightedLca_empty : weightedLca t fuel [] = .ok none := by
  cases fuel <;> simp [weightedLca, taxDist, wlcaNodes, mkItems, wloop, mkLevels, argMax, firstAnswer]

/-! ### 6b. zero counts, merged taxids and several keys for one taxon in `merged_taxid` (second and third pass)

FULL STATEMENT: for every `merged_taxid` map of known taxids, `Taxonomy.LCA(sequence, 1.0)` is the deepest common
ancestor of the taxa having a positive (summed) count, whatever the iteration order of the Go map.  The code did not
satisfy it: `TaxonomicDistribution` did `taxons[t] = v`, so when two keys of the map designate the same taxon (a
merged taxid and its current taxid) the key met LAST decided the count and, one count being zero and the other not,
the answer depended on the map order (`weightedLca_order_counterexample`, on the kept transcription `taxDistAssign` /
`weightedLcaAssign` of that code).  Repaired in /repo by 5d9c1cf (`taxons[t] += v`); the model `taxDist` follows the
repaired code and the full statement is proved with no side condition on the map. -/

/-- `Taxonomy.LCA(sequence, 1.0)` on ANY `merged_taxid` map of known taxids (zero counts, merged taxids, several keys
for one taxon allowed): the answer is the deepest common ancestor of the taxa whose SUMMED count — over the keys that
designate them — is positive; a non-empty map whose counts are all zero gives the root (as the code does); the values
of the positive counts are irrelevant.  (Empty map: `weightedLca_empty`, the nil taxon.) -/
theorem weightedLca_counts (wf : WF t root depth) (hf : FuelOK t fuel) (ha : AliasOK t)
    (kws : List (Nat × Nat)) (hr : ∀ kw ∈ kws, (resolve t kw.1).isSome) :
    (kws ≠ [] → (∀ kw ∈ kws, kw.2 = 0) → weightedLca t fuel kws = .ok (some root)) ∧
    ((∃ kw ∈ kws, 0 < kw.2) → ∃ z, weightedLca t fuel kws = .ok (some z) ∧
      (∀ a, Anc t a z ↔ ∀ y, 0 < taxCount t y kws → Anc t a y) ∧
      (∀ a, Anc t a z ↔ ∀ kw ∈ kws, 0 < kw.2 → ∃ y, resolve t kw.1 = some y ∧ Anc t a y)) := by
  refine ⟨(weightedLca_sum wf hf ha kws hr).1, fun hpos => ?_⟩
  obtain ⟨z, hz, cz⟩ := (weightedLca_sum wf hf ha kws hr).2 hpos
  obtain ⟨z', hz', cz'⟩ := weightedLca_sum_keys wf hf ha kws hr hpos
  rw [hz] at hz'; cases hz'
  exact ⟨z, hz, cz, cz'⟩

/-- the summed count of a taxon is positive exactly when one of the keys designating it has a positive count -/
theorem taxCount_pos (y : Nat) (kws : List (Nat × Nat)) :
    0 < taxCount t y kws ↔ ∃ kw ∈ kws, resolve t kw.1 = some y ∧ 0 < kw.2 :=
  taxCount_pos_iff y kws

/-- the answer does not depend on the order in which Go's map iteration yields the keys: for every permutation of
the key list the same result (no hypothesis on the counts) -/
theorem weightedLca_order_free (wf : WF t root depth) (hf : FuelOK t fuel) (ha : AliasOK t)
    (kws kws' : List (Nat × Nat)) (hp : kws.Perm kws') (hr : ∀ kw ∈ kws, (resolve t kw.1).isSome) :
    weightedLca t fuel kws' = weightedLca t fuel kws :=
  weightedLca_perm_any wf hf ha kws kws' hp hr

/-- `TaxonomicDistribution`: one entry per taxon designated by a key, holding the SUM of the counts of the keys
that designate it (order independent: `taxCount_perm`) -/
theorem taxonomicDistribution_sums (kws : List (Nat × Nat)) (hr : ∀ kw ∈ kws, (resolve t kw.1).isSome) :
    ∃ dist, taxDist t kws [] = .ok dist ∧ (dist.map (·.1)).Nodup ∧
      (∀ y, y ∈ dist.map (·.1) ↔ ∃ kw ∈ kws, resolve t kw.1 = some y) ∧
      (∀ x w, (x, w) ∈ dist → w = taxCount t x kws) ∧
      (∀ kws', kws.Perm kws' → ∀ x, taxCount t x kws' = taxCount t x kws) :=  by
  obtain ⟨dist, h1, h2, h3, h4⟩ := taxDist_sum kws hr
  exact ⟨dist, h1, h2, h3, h4, fun _ hp x => (taxCount_perm x hp).symm⟩

/-- history — the UNREPAIRED `TaxonomicDistribution` (`taxDistAssign`, `taxons[t] = v`): one entry per taxon designated
by a key, holding the count of the LAST key (in iteration order) that designates it -/
theorem taxDistAssign_last_wins (kws : List (Nat × Nat)) (hr : ∀ kw ∈ kws, (resolve t kw.1).isSome) :
    ∃ dist, taxDistAssign t kws [] = .ok dist ∧ (dist.map (·.1)).Nodup ∧
      (∀ y, y ∈ dist.map (·.1) ↔ ∃ kw ∈ kws, resolve t kw.1 = some y) ∧
      (∀ x w, (x, w) ∈ dist → ∃ l1 kw l2, kws = l1 ++ kw :: l2 ∧ resolve t kw.1 = some x ∧ kw.2 = w ∧
        ∀ kw' ∈ l2, resolve t kw'.1 ≠ some x) := by
  obtain ⟨dist, h1, h2, h3, _⟩ := taxDistAssign_spec kws hr
  exact ⟨dist, h1, h2, h3, taxDistAssign_last kws dist h1⟩

/-- history — the counterexample to the full statement for the UNREPAIRED assignment semantics (9 is a merged taxid
of 3): the two orders of the same map gave the LCA of {3, 5} = 1 (what the tree implies) and 5; the repaired code
answers 1 for both orders -/
theorem weightedLca_order_counterexample :
    weightedLcaAssign exT 6 [(3, 0), (9, 2), (5, 1)] = .ok (some 1) ∧
    weightedLcaAssign exT 6 [(9, 2), (3, 0), (5, 1)] = .ok (some 5) ∧
    [(3, 0), (9, 2), (5, 1)].Perm [(9, 2), (3, 0), (5, 1)] ∧
    weightedLca exT 6 [(3, 0), (9, 2), (5, 1)] = .ok (some 1) ∧
    weightedLca exT 6 [(9, 2), (3, 0), (5, 1)] = .ok (some 1) := ⟨rfl, rfl, List.Perm.swap _ _ _, rfl, rfl⟩

example : ∃ z, weightedLca exT 6 [(3, 1), (9, 5), (4, 2), (10, 3), (5, 0)] = .ok (some z) ∧
    (∀ a, Anc exT a z ↔ ∀ y, 0 < taxCount exT y [(3, 1), (9, 5), (4, 2), (10, 3), (5, 0)] → Anc exT a y) ∧
    (∀ a, Anc exT a z ↔ ∀ kw ∈ [(3, 1), (9, 5), (4, 2), (10, 3), (5, 0)], 0 < kw.2 →
      ∃ y, resolve exT kw.1 = some y ∧ Anc exT a y) :=
  (weightedLca_counts exT_wf exT_fuel exT_aliasOK _ (by decide)).2 ⟨(3, 1), by decide⟩

/-- a zero count under the taxid and a positive one under its merged taxid, both orders -/
example : weightedLca exT 6 [(9, 2), (3, 0), (5, 1)] = weightedLca exT 6 [(3, 0), (9, 2), (5, 1)] :=
  weightedLca_order_free exT_wf exT_fuel exT_aliasOK _ _ (List.Perm.swap _ _ _) (by decide)

/-! ## 7. the hypotheses are satisfiable: a concrete taxonomy (non-vacuity; the `example`s that compute
are tests of the model on this one taxonomy, not proofs of the property)

```
1 (no rank) ── 2 (genus) ── 3 (species)
            │            └─ 4 (species)
            └─ 5 (family)            merged: 9 -> 3, 10 -> 9
```
-/

example : ∃ p, path exT 6 3 = .ok p ∧ p.head? = some 3 ∧ p.getLast? = some 1 ∧ Linked exT p ∧
    (∀ a, a ∈ p ↔ Anc exT a 3) ∧ p.Nodup :=
  path_spec exT_wf exT_fuel (x := 3) (by rw [exT_node]; rfl)

example : Anc exT 2 3 ∧ Anc exT 2 4 :=
  lca_is_common_ancestor exT_wf exT_fuel (x := 3) (y := 4) (z := 2)
    (by rw [exT_node]; rfl) (by rw [exT_node]; rfl) rfl

example : lca exT 6 3 5 = .ok 1 ∧ lca exT 6 3 2 = .ok 2 ∧ lca exT 6 4 4 = .ok 4 := ⟨rfl, rfl, rfl⟩
example : path exT 6 4 = .ok [4, 2, 1] ∧ taxoPath exT 6 10 = .ok [3, 2, 1] ∧ taxoPath exT 6 77 = .error .err := ⟨rfl, rfl, rfl⟩
example : isSubCladeOf exT 2 6 3 = .ok true ∧ isSubCladeOf exT 5 6 3 = .ok false := ⟨rfl, rfl⟩
example : taxonAtRank exT "genus" 6 3 = .ok (some 2) ∧ taxonAtRank exT "family" 6 3 = .ok none := ⟨rfl, rfl⟩
example : resolve exT 10 = some 3 ∧ resolve exT 3 = some 3 ∧ resolve exT 77 = none := by decide
example : restrictTo exT 6 [5, 2] 9 = .ok true ∧ ignoreTaxon exT 6 [2] 5 = .ok true ∧
    restrictTo exT 6 [77] 3 = .error .fatal ∧ requireRanks exT 6 ["genus", "species"] 10 = .ok true := ⟨rfl, rfl, rfl, rfl⟩
example : weightedLca exT 6 [(3, 2), (10, 2), (4, 1)] = .ok (some 2) ∧ weightedLca exT 6 [(3, 1), (5, 7)] = .ok (some 1) ∧
    weightedLca exT 6 [(9, 4)] = .ok (some 3) ∧ weightedLca exT 6 [(77, 1)] = .error .panic := ⟨rfl, rfl, rfl, rfl⟩

example : ∃ x w rest z, taxDist exT [(3, 2), (10, 2), (4, 1)] [] = .ok ((x, w) :: rest) ∧
    lcaFold exT 6 x (rest.map (·.1)) = .ok z ∧ weightedLca exT 6 [(3, 2), (10, 2), (4, 1)] = .ok (some z) ∧
    (∀ a, Anc exT a z ↔ ∀ kw ∈ [(3, 2), (10, 2), (4, 1)], ∃ y, resolve exT kw.1 = some y ∧ Anc exT a y) :=
  weightedLca_threshold_one exT_wf exT_fuel exT_aliasOK _ (by simp) (by decide) (by decide)

example : FuelOK exT (exT.ids.length + 1) :=
  fuel_nodes_suffices exT_wf (by
    intro x n h; rw [exT_node] at h
    have : exT.ids = [1, 2, 3, 4, 5] := rfl
    rw [this]; unfold exNode at h; split at h <;> simp_all)

example : ∃ u v w, lca exT 6 3 4 = .ok u ∧ lca exT 6 4 5 = .ok v ∧ lca exT 6 u 5 = .ok w ∧ lca exT 6 3 v = .ok w :=
  lca_assoc exT_wf exT_fuel (x := 3) (y := 4) (z := 5)
    (by rw [exT_node]; rfl) (by rw [exT_node]; rfl) (by rw [exT_node]; rfl)

example : Anc exT 2 3 ∧ rankIs exT "genus" 2 = true ∧
    ∀ a, Anc exT a 3 → Anc exT 2 a → rankIs exT "genus" a = true → a = 2 :=
  taxonAtRank_some exT_wf exT_fuel (x := 3) (by rw [exT_node]; rfl) "genus" rfl

example : ∃ b, restrictTo exT 6 [5, 2] 9 = .ok b ∧
    (b = true ↔ ∃ x, resolve exT 9 = some x ∧ ∃ c ∈ [5, 2], ∃ c', resolve exT c = some c' ∧ Anc exT c' x) :=
  (restrictTo_spec exT_wf exT_fuel exT_aliasOK [5, 2] 9).2 (by decide)

example : ∃ b, requireRanks exT 6 ["genus", "species"] 10 = .ok b ∧
    (b = true ↔ ∃ x, resolve exT 10 = some x ∧ ∀ r ∈ ["genus", "species"], ∃ a, Anc exT a x ∧ rankIs exT r a = true) :=
  (requireRanks_spec exT_wf exT_fuel exT_aliasOK ["genus", "species"] (by simp) 10).2 (by decide)

/-! ## 8. the taxon iterators drained into a slice (`ITaxonSet` of iterator.go, filter_on_*.go)

`src` is the iteration order of the source (the keys of the `nodes` map in Go's map order, or a slice);
the filters keep that order. -/

open ObiVerif.TaxLoad in
/-- `src.IFilterOnSubcladeOf(c)` yields exactly the taxa of the source lying in the clade of `c`, in
the order of the source, each as often as the source lists it (once for a `TaxonSet`) -/
theorem filterSubclade_spec (wf : WF t root depth) (hf : FuelOK t fuel) (c : Nat) (src : List Nat)
    (hsrc : ∀ x ∈ src, ∃ n, t.node x = some n) :
    ∃ l, filterSubclade t fuel c src = .ok l ∧ (∀ x, x ∈ l ↔ x ∈ src ∧ Anc t c x) ∧
      l.Sublist src ∧ (src.Nodup → l.Nodup) := by
  refine ⟨_, filterSubclade_ok wf hf c src hsrc, ?_, List.filter_sublist, fun h => h.filter _⟩
  intro x
  simp only [List.mem_filter, List.contains_iff_mem]
  constructor
  · rintro ⟨h1, h2⟩
    obtain ⟨n, hn⟩ := hsrc x h1
    exact ⟨h1, (mem_pathOf_iff wf hf hn c).1 h2⟩
  · rintro ⟨h1, h2⟩
    obtain ⟨n, hn⟩ := hsrc x h1
    exact ⟨h1, (mem_pathOf_iff wf hf hn c).2 h2⟩

open ObiVerif.TaxLoad in
/-- `src.IFilterOnTaxRank(r)` yields exactly the taxa of the source whose own rank is `r` -/
theorem filterRank_spec (r : String) (src : List Nat) :
    (∀ x, x ∈ filterRank t r src ↔ x ∈ src ∧ rankIs t r x = true) ∧
      (filterRank t r src).Sublist src ∧ (src.Nodup → (filterRank t r src).Nodup) := by
  refine ⟨?_, List.filter_sublist, fun h => h.filter _⟩
  intro x
  simp only [filterRank, List.mem_filter, rankIs]
  exact Iff.rfl

open ObiVerif.TaxLoad in
/-- `src.IFilterBelongingSubclades(clades)`: no clade = the source unchanged; otherwise exactly the taxa
of the source lying in the clade of one of `clades` (the one- and many-clade code paths agree) -/
theorem filterBelonging_spec (wf : WF t root depth) (hf : FuelOK t fuel) (clades src : List Nat)
    (hsrc : ∀ x ∈ src, ∃ n, t.node x = some n) :
    ∃ l, filterBelonging t fuel clades src = .ok l ∧
      (∀ x, x ∈ l ↔ x ∈ src ∧ (clades = [] ∨ ∃ c ∈ clades, Anc t c x)) ∧
      l.Sublist src ∧ (src.Nodup → l.Nodup) := by
  match clades with
  | [] => exact ⟨src, rfl, by simp, List.Sublist.refl _, id⟩
  | [c] =>
    obtain ⟨l, h1, h2, h3, h4⟩ := filterSubclade_spec wf hf c src hsrc
    exact ⟨l, h1, by intro x; rw [h2 x]; simp, h3, h4⟩
  | c :: c' :: cs =>
    refine ⟨_, filterBelongingMany_ok wf hf (c :: c' :: cs) src hsrc, ?_, List.filter_sublist, fun h => h.filter _⟩
    intro x
    simp only [List.mem_filter, List.any_eq_true, List.contains_iff_mem]
    constructor
    · rintro ⟨h1, a, ha, hac⟩
      obtain ⟨n, hn⟩ := hsrc x h1
      exact ⟨h1, Or.inr ⟨a, hac, (mem_pathOf_iff wf hf hn a).1 ha⟩⟩
    · rintro ⟨h1, h2⟩
      obtain ⟨n, hn⟩ := hsrc x h1
      rcases h2 with h2 | ⟨a, hac, ha⟩
      · cases h2
      · exact ⟨h1, a, (mem_pathOf_iff wf hf hn a).2 ha, hac⟩

open ObiVerif.TaxLoad in
/-- `taxonomic_path` (`TaxonSlice.String`) lists the items `taxid@name@rank` of the path from the root
down to the taxon: splitting it at `|` gives them back (when no name or rank holds a `|`) -/
theorem pathString_items (name rank : Nat → Bytes) (p : List Nat) (hp : p ≠ [])
    (h : ∀ x ∈ p, (124 : UInt8) ∉ pathItem name rank x) :
    splitOn 124 (pathString name rank p) = p.reverse.map (pathItem name rank) := by
  apply splitOn_joinBytes
  · simpa using hp
  · intro a ha
    obtain ⟨x, hx, rfl⟩ := List.mem_map.1 ha
    exact h x (List.mem_reverse.1 hx)

/-! ## 8b. the iterator protocol and the enumerations the commands use (third pass)

`Taxonomy.Iterator()` sends the values of the `nodes` map in Go's map order: any permutation `src` of the keys
`t.ids` (`hids`: the keys are exactly the nodes, `hnd`: each once — what a Go map is).  The theorems below say: the
drained iterator lists every node exactly once; `Taxonomy.IFilterOnSubcladeOf(c)` lists every node of the subtree of
`c` (the descendant set `{x node | Anc t c x}`) exactly once, `IFilterOnTaxRank` / `IFilterBelongingSubclades` /
obifind's `ITaxonRestrictions` pipeline likewise for their sets; two map orders give permutations of one another;
an iterator shared through `Split()` hands every taxon to exactly one of the consumers. -/

open ObiVerif.TaxIter in
/-- `TaxonSlice()` on `slice.Iterator()` / `set.Iterator()`: the loop `for it.Next() { … it.Get() }` receives exactly
what the producer sends, in order, each once (with the fuel `len + 1`: the loop ends by itself), and leaves the
iterator finished: `Finished()` is true, `Get()` is nil, every later `Next()` is false and changes nothing -/
theorem iterator_drains_source (src : List Nat) :
    taxonSlice (Chan.ofList src) = some (src, none, ⟨[], true⟩) ∧
    (∀ cur, next ⟨[], true⟩ cur = (false, cur, ⟨[], true⟩)) ∧
    (∀ f cur acc, drain (f + 1) ⟨[], true⟩ cur acc = some (acc.reverse, cur, ⟨[], true⟩)) :=
  ⟨taxonSlice_ofList src, fun cur => next_fin [] cur, fun f cur acc => drain_finished [] f cur acc⟩

open ObiVerif.TaxIter in
/-- `ITaxonSet.TaxonSet()` holds exactly the taxa received, one entry per taxid -/
theorem taxonSet_of_iterator (l : List Nat) :
    (∀ x, x ∈ dedup l ↔ x ∈ l) ∧ (dedup l).Nodup ∧ (l.Nodup → dedup l = l) :=
  ⟨fun x => mem_dedup x l, dedup_nodup l, dedup_of_nodup l⟩

open ObiVerif.TaxIter in
/-- `Taxonomy.Iterator()` drained: every node of the taxonomy exactly once, whatever the map order -/
theorem taxonomy_iterator_all_nodes (hids : ∀ x, x ∈ t.ids ↔ (t.node x).isSome) (hnd : t.ids.Nodup)
    (src : List Nat) (hp : src.Perm t.ids) :
    ∃ l cur c, taxonSlice (Chan.ofList src) = some (l, cur, c) ∧ c.fin = true ∧ c.rest = [] ∧ cur = none ∧
      l.Nodup ∧ (∀ x, x ∈ l ↔ (t.node x).isSome) ∧ l.Perm t.ids :=
  ⟨src, none, ⟨[], true⟩, taxonSlice_ofList src, rfl, rfl, rfl, hp.nodup_iff.2 hnd,
    fun x => by rw [hp.mem_iff]; exact hids x, hp⟩

open ObiVerif.TaxLoad in
/-- subtree enumeration — `Taxonomy.IFilterOnSubcladeOf(c)` drained lists exactly the descendant set of `c` (the nodes
`x` with `Anc t c x`), each node once, in the order of the source; two map orders give permutations of one another -/
theorem subtree_enumeration (wf : WF t root depth) (hf : FuelOK t fuel)
    (hids : ∀ x, x ∈ t.ids ↔ (t.node x).isSome) (hnd : t.ids.Nodup) (c : Nat)
    (src : List Nat) (hp : src.Perm t.ids) :
    ∃ l, filterSubclade t fuel c src = .ok l ∧ l.Nodup ∧ (∀ x, x ∈ l ↔ (t.node x).isSome ∧ Anc t c x) ∧
      l.Sublist src ∧
      ∀ src' l', src'.Perm t.ids → filterSubclade t fuel c src' = .ok l' → l'.Perm l := by
  have hnodes : ∀ (s : List Nat), s.Perm t.ids → ∀ x ∈ s, ∃ n, t.node x = some n := by
    intro s hs x hx
    exact Option.isSome_iff_exists.1 ((hids x).1 (hs.mem_iff.1 hx))
  have key : ∀ (s : List Nat), s.Perm t.ids → ∃ l, filterSubclade t fuel c s = .ok l ∧ l.Nodup ∧
      (∀ x, x ∈ l ↔ (t.node x).isSome ∧ Anc t c x) ∧ l.Sublist s := by
    intro s hs
    obtain ⟨l, h1, h2, h3, h4⟩ := filterSubclade_spec wf hf c s (hnodes s hs)
    refine ⟨l, h1, h4 (hs.nodup_iff.2 hnd), ?_, h3⟩
    intro x
    rw [h2 x, hs.mem_iff, hids x]
  obtain ⟨l, h1, h2, h3, h4⟩ := key src hp
  refine ⟨l, h1, h2, h3, h4, ?_⟩
  intro src' l' hp' hl'
  obtain ⟨l2, g1, g2, g3, _⟩ := key src' hp'
  rw [hl'] at g1; cases g1
  exact (List.perm_ext_iff_of_nodup g2 h2).2 (fun x => by rw [g3 x, h3 x])

open ObiVerif.TaxLoad in
/-- `Taxonomy.IFilterOnTaxRank(r)` drained lists exactly the nodes whose own rank is `r`, each once; order free -/
theorem rank_enumeration (hids : ∀ x, x ∈ t.ids ↔ (t.node x).isSome) (hnd : t.ids.Nodup) (r : String)
    (src : List Nat) (hp : src.Perm t.ids) :
    (filterRank t r src).Nodup ∧ (∀ x, x ∈ filterRank t r src ↔ rankIs t r x = true) ∧
      (filterRank t r src).Sublist src ∧
      ∀ src', src'.Perm t.ids → (filterRank t r src').Perm (filterRank t r src) := by
  have key : ∀ (s : List Nat), s.Perm t.ids → (filterRank t r s).Nodup ∧
      (∀ x, x ∈ filterRank t r s ↔ rankIs t r x = true) := by
    intro s hs
    obtain ⟨h1, _, h3⟩ := filterRank_spec (t := t) r s
    refine ⟨h3 (hs.nodup_iff.2 hnd), fun x => ?_⟩
    rw [h1 x, hs.mem_iff, hids x]
    constructor
    · exact fun h => h.2
    · intro h
      refine ⟨?_, h⟩
      unfold rankIs at h
      cases hn : t.node x with
      | none => rw [hn] at h; cases h
      | some n => rfl
  obtain ⟨h1, h2⟩ := key src hp
  refine ⟨h1, h2, (filterRank_spec (t := t) r src).2.1, ?_⟩
  intro src' hp'
  obtain ⟨g1, g2⟩ := key src' hp'
  exact (List.perm_ext_iff_of_nodup g1 h1).2 (fun x => by rw [g2 x, h2 x])

open ObiVerif.TaxLoad ObiVerif.TaxIter in
/-- obifind's `ITaxonRestrictions()(iterator)` = `IFilterRankRestriction` then `IFilterBelongingSubclades(clades)`,
drained: exactly the taxa of the source of rank `--rank` (any rank when the option is not given) lying in the clade of
one of the `--restrict-to-taxon` values (anywhere when none is given), in source order, each once when the source
lists it once -/
theorem findRestrict_spec (wf : WF t root depth) (hf : FuelOK t fuel) (rank : String) (clades src : List Nat)
    (hsrc : ∀ x ∈ src, ∃ n, t.node x = some n) :
    ∃ l, findRestrict t fuel rank clades src = .ok l ∧
      (∀ x, x ∈ l ↔ x ∈ src ∧ (rank = "" ∨ rankIs t rank x = true) ∧ (clades = [] ∨ ∃ c ∈ clades, Anc t c x)) ∧
      l.Sublist src ∧ (src.Nodup → l.Nodup) := by
  by_cases hr : rank = ""
  · obtain ⟨l, h1, h2, h3, h4⟩ := filterBelonging_spec wf hf clades src hsrc
    refine ⟨l, by simp [findRestrict, hr, h1], ?_, h3, h4⟩
    intro x; rw [h2 x]; simp [hr]
  · obtain ⟨f1, f2, f3⟩ := filterRank_spec (t := t) rank src
    have hsrc' : ∀ x ∈ filterRank t rank src, ∃ n, t.node x = some n := fun x hx => hsrc x ((f1 x).1 hx).1
    obtain ⟨l, h1, h2, h3, h4⟩ := filterBelonging_spec wf hf clades (filterRank t rank src) hsrc'
    refine ⟨l, by simp [findRestrict, hr, h1], ?_, h3.trans f2, fun hn => h4 (f3 hn)⟩
    intro x
    rw [h2 x, f1 x]
    simp only [hr, false_or]
    exact and_assoc

open ObiVerif.TaxLoad ObiVerif.TaxIter in
/-- … on `Taxonomy.Iterator()`: exactly the nodes of that rank in those clades — for one clade and no rank the subtree
of the clade — each node once, and two map orders give permutations of one another -/
theorem findRestrict_enumeration (wf : WF t root depth) (hf : FuelOK t fuel)
    (hids : ∀ x, x ∈ t.ids ↔ (t.node x).isSome) (hnd : t.ids.Nodup) (rank : String) (clades : List Nat)
    (src : List Nat) (hp : src.Perm t.ids) :
    ∃ l, findRestrict t fuel rank clades src = .ok l ∧ l.Nodup ∧
      (∀ x, x ∈ l ↔ (t.node x).isSome ∧ (rank = "" ∨ rankIs t rank x = true) ∧
        (clades = [] ∨ ∃ c ∈ clades, Anc t c x)) ∧
      ∀ src' l', src'.Perm t.ids → findRestrict t fuel rank clades src' = .ok l' → l'.Perm l := by
  have key : ∀ (s : List Nat), s.Perm t.ids → ∃ l, findRestrict t fuel rank clades s = .ok l ∧ l.Nodup ∧
      (∀ x, x ∈ l ↔ (t.node x).isSome ∧ (rank = "" ∨ rankIs t rank x = true) ∧
        (clades = [] ∨ ∃ c ∈ clades, Anc t c x)) := by
    intro s hs
    have hn : ∀ x ∈ s, ∃ n, t.node x = some n := fun x hx =>
      Option.isSome_iff_exists.1 ((hids x).1 (hs.mem_iff.1 hx))
    obtain ⟨l, h1, h2, _, h4⟩ := findRestrict_spec wf hf rank clades s hn
    exact ⟨l, h1, h4 (hs.nodup_iff.2 hnd), fun x => by rw [h2 x, hs.mem_iff, hids x]⟩
  obtain ⟨l, h1, h2, h3⟩ := key src hp
  refine ⟨l, h1, h2, h3, ?_⟩
  intro src' l' hp' hl'
  obtain ⟨l2, g1, g2, g3⟩ := key src' hp'
  rw [hl'] at g1; cases g1
  exact (List.perm_ext_iff_of_nodup g2 h2).2 (fun x => by rw [g3 x, h3 x])

open ObiVerif.TaxIter in
/-- `ITaxonSet.Split()` — two handles on one channel and one finished flag, any order of the `Next` calls of the two
consumers (`sched`): at any time the taxa received by the two are together exactly the part of the source already
sent, each taxon going to exactly one consumer, each consumer seeing its share in source order; once more calls were
made than the source has taxa the iterator is finished and the two shares are a partition of the whole source (no
duplicate across the consumers when the source has none) -/
theorem split_every_taxon_once (src : List Nat) (sched : List Bool) :
    (∃ done, src = done ++ (runSched (Two.start src) sched).c.rest ∧
      ((runSched (Two.start src) sched).gotA.reverse ++ (runSched (Two.start src) sched).gotB.reverse).Perm done ∧
      (runSched (Two.start src) sched).gotA.reverse.Sublist done ∧
      (runSched (Two.start src) sched).gotB.reverse.Sublist done) ∧
    (src.length < sched.length →
      (runSched (Two.start src) sched).c.fin = true ∧ (runSched (Two.start src) sched).c.rest = [] ∧
      ((runSched (Two.start src) sched).gotA.reverse ++ (runSched (Two.start src) sched).gotB.reverse).Perm src ∧
      (runSched (Two.start src) sched).gotA.reverse.Sublist src ∧
      (runSched (Two.start src) sched).gotB.reverse.Sublist src ∧
      (src.Nodup → ((runSched (Two.start src) sched).gotA.reverse ++ (runSched (Two.start src) sched).gotB.reverse).Nodup)) :=
  split_partition src sched

/-! non-vacuity / tests on the example taxonomy (ids 1..5, 9 and 10 merged into 3) -/

example : ∃ l, TaxLoad.filterSubclade exT 6 2 [5, 3, 1, 4, 2] = .ok l ∧ l.Nodup ∧
    (∀ x, x ∈ l ↔ (exT.node x).isSome ∧ Anc exT 2 x) ∧ l.Sublist [5, 3, 1, 4, 2] ∧
    ∀ src' l', src'.Perm exT.ids → TaxLoad.filterSubclade exT 6 2 src' = .ok l' → l'.Perm l :=
  subtree_enumeration exT_wf exT_fuel exT_ids_nodes (by decide) 2 [5, 3, 1, 4, 2] (by decide)

example : TaxLoad.filterSubclade exT 6 2 [5, 3, 1, 4, 2] = .ok [3, 4, 2] ∧
    TaxIter.findRestrict exT 6 "species" [2, 5] [5, 3, 1, 4, 2] = .ok [3, 4] ∧
    TaxIter.findRestrict exT 6 "" [] [5, 3, 1, 4, 2] = .ok [5, 3, 1, 4, 2] ∧
    TaxIter.taxonSlice (TaxIter.Chan.ofList [3, 4, 3]) = some ([3, 4, 3], none, ⟨[], true⟩) ∧
    TaxIter.dedup [3, 4, 3] = [4, 3] := ⟨rfl, rfl, rfl, rfl, rfl⟩

/-- a schedule a b b a a b on the source 5 3 1 4: a gets 5 4, b gets 3 1, then both see the end -/
example : (TaxIter.runSched (TaxIter.Two.start [5, 3, 1, 4]) [false, true, true, false, false, true]).gotA.reverse = [5, 4] ∧
    (TaxIter.runSched (TaxIter.Two.start [5, 3, 1, 4]) [false, true, true, false, false, true]).gotB.reverse = [3, 1] ∧
    (TaxIter.runSched (TaxIter.Two.start [5, 3, 1, 4]) [false, true, true, false, false, true]).c = ⟨[], true⟩ ∧
    (TaxIter.runSched (TaxIter.Two.start [5, 3, 1, 4]) [false, true, true, false, false, true]).curA = none ∧
    (TaxIter.runSched (TaxIter.Two.start [5, 3, 1, 4]) [false, true, true, false, false, true]).curB = some 1 :=
  ⟨rfl, rfl, rfl, rfl, rfl⟩

/-! ## 9. the textual forms of a taxid accepted by `Taxonomy.Taxon(string)` -/

open ObiVerif.TaxLoad in
/-- the decimal form: `Taxon(strconv.Itoa(n))` looks `n` up -/
theorem taxid_decimal_roundtrip (n : Nat) (h : n < 2 ^ 63) : parseTaxidString (showNat n) = .id n := by
  simp [parseTaxidString, atoi_showNat' n h]

open ObiVerif.TaxLoad in
/-- the `TX:` form inside any text: `pre ++ "TX:" ++ decimal n ++ suf` designates `n` as soon as `pre`
holds no earlier `TX:<digit>` and `suf` does not go on with a digit -/
theorem taxid_TX_roundtrip (pre suf : Bytes) (n : Nat) (h : n < 2 ^ 63) (hpre : findTX pre = none)
    (hsuf : ∀ c, suf.head? = some c → isDigit c = false) :
    parseTaxidString (pre ++ 84 :: 88 :: 58 :: (showNat n ++ suf)) = .id n := by
  obtain ⟨d, ds, e, hd, hds⟩ := showNat_shape n
  have herr : atoi (pre ++ 84 :: 88 :: 58 :: (showNat n ++ suf)) = .err :=
    atoi_err _ ⟨84, by simp, by decide, by decide, by decide⟩
  have hall : ∀ c ∈ d :: ds, isDigit c = true := by
    intro c hc
    rcases List.mem_cons.1 hc with h1 | h1
    · rw [h1]; exact hd
    · exact hds c h1
  have hfind : findTX (pre ++ 84 :: 88 :: 58 :: (showNat n ++ suf)) = some (showNat n) := by
    rw [e, List.cons_append, findTX_append pre d (ds ++ suf) hpre hd, ← List.cons_append,
      takeWhile_digits (d :: ds) suf hall hsuf]
  have hmin : min n (2 ^ 63 - 1) = n := by omega
  simp [parseTaxidString, herr, hfind, digitsVal_showNat, hmin]

open ObiVerif.TaxLoad in
/-- … and `Taxon` of both forms is `Taxon(n)` -/
theorem taxonOfString_forms (pre suf : Bytes) (n : Nat) (h : n < 2 ^ 63) (hpre : findTX pre = none)
    (hsuf : ∀ c, suf.head? = some c → isDigit c = false) :
    taxonOfString t (showNat n) = resolve t n ∧
    taxonOfString t (pre ++ 84 :: 88 :: 58 :: (showNat n ++ suf)) = resolve t n := by
  simp [taxonOfString, taxid_decimal_roundtrip n h, taxid_TX_roundtrip pre suf n h hpre hsuf]

open ObiVerif.TaxLoad in
/-- a text that is not a number and holds no `TX:<digit>` is a parse error -/
theorem taxonOfString_noparse (s : Bytes) (h1 : atoi s = .err) (h2 : findTX s = none) :
    parseTaxidString s = .noparse ∧ taxonOfString t s = none := by
  simp [taxonOfString, parseTaxidString, h1, h2]

/-! ## 10. the NCBI taxdump loader builds the declared tree

`decl` : the `(taxid, parent, rank)` triples of the lines of `nodes.dmp`, `mdecl` the `(old, new)` pairs
of `merged.dmp`, in file order. -/

open ObiVerif.TaxLoad in
/-- `LoadNCBITaxDump` on files whose csv records are, one for one, the declarations (first two fields
numbers, rank = third field trimmed), the csv reader having stopped for whatever reason but a quoted
field: the `nodes` map is built from `decl`, the aliases from `mdecl` -/
theorem loadDump_declared (nodesF namesF mergedF : Bytes) (decl : List (Nat × Nat × Bytes))
    (mdecl : List (Nat × Nat)) (names : List (Nat × Bytes))
    (hn : (csvRead nodesF).stop ≠ .quoted) (hnr : AllRec NodeRec (csvRead nodesF).recs decl)
    (hnames : loadNameLines (fun k => (lookupNode decl.reverse k).isSome) (rawLines namesF) [] = .ok names)
    (hm : (csvRead mergedF).stop ≠ .quoted) (hmr : AllRec MergedRec (csvRead mergedF).recs mdecl) :
    loadDump nodesF namesF mergedF = .ok ⟨decl.reverse, names, mdecl⟩ := by
  have h1 := loadNodeRecs_ok _ decl [] hnr
  have h2 := loadMergedRecs_ok _ mdecl hmr
  simp only [List.append_nil] at h1
  simp [loadDump, csvOk, hn, hm, h1, h2, hnames]

open ObiVerif.TaxLoad in
/-- every node is as the dump declares it: the last line given for a taxid fixes its parent and rank
(with distinct taxids: every line), a taxid without line is not a node, and `ids` lists every node -/
theorem loaded_nodes_declared (L : Loaded) (decl : List (Nat × Nat × Bytes)) (hL : L.nodes = decl.reverse) :
    (∀ a b id p rk, decl = a ++ (id, p, rk) :: b → (∀ d ∈ b, d.1 ≠ id) →
      L.taxo.node id = some ⟨p, toStr rk⟩) ∧
    ((decl.map (·.1)).Nodup → ∀ id p rk, (id, p, rk) ∈ decl → L.taxo.node id = some ⟨p, toStr rk⟩) ∧
    (∀ id, (∀ d ∈ decl, d.1 ≠ id) → L.taxo.node id = none) ∧
    (∀ x n, L.taxo.node x = some n → x ∈ L.taxo.ids) := by
  refine ⟨?_, ?_, ?_, L.ids_complete⟩
  · intro a b id p rk e hb
    rw [L.taxo_node]; simp only [Loaded.base, hL, e, lookupNode_last a b id p rk hb, Option.map]
  · intro hnd id p rk hmem
    rw [L.taxo_node]; simp only [Loaded.base, hL, lookupNode_nodup decl hnd id p rk hmem, Option.map]
  · intro id hno
    have : lookupNode decl.reverse id = none := by
      rw [lookupNode_none_iff]; intro d hd; exact hno d (List.mem_reverse.1 hd)
    rw [L.taxo_node]; simp only [Loaded.base, hL, this, Option.map]

open ObiVerif.TaxLoad in
/-- merged ids resolve as aliases: the loaded alias table is `AddNewAlias` applied in file order
(`alias_resolves` describes each step), it never touches the tree, and whatever a taxid resolves to is
a node of the dump -/
theorem loaded_aliases (L : Loaded) :
    L.taxo = addAliases L.base L.aliases ∧ L.taxo.node = L.base.node ∧ AliasOK L.taxo ∧
    (∀ id x, resolve L.taxo id = some x → ∃ m, L.base.node x = some m) :=
  ⟨rfl, L.taxo_node, L.taxo_aliasOK, fun _ _ h => resolve_lands_on_node L.base (fun _ => rfl) L.aliases h⟩

open ObiVerif.TaxLoad in
/-- a line of `nodes.dmp` with a missing field or a field that is not a number makes the loader panic,
whatever the lines before it -/
theorem loadNodes_panic (good : List (List Bytes)) (decl : List (Nat × Nat × Bytes)) (bad : List Bytes)
    (rest : List (List Bytes)) (hg : AllRec NodeRec good decl)
    (hb : bad.length < 3 ∨ ∃ f ∈ bad.take 2, num f = .error .panic)
    (hu : ∀ f ∈ bad.take 2, num f ≠ .error .unmodelled) :
    loadNodeRecs (good ++ bad :: rest) [] = .error .panic :=
  loadNodeRecs_panic good decl [] bad rest hg hb hu

/-! ### 10b. the byte level: a dump rendered in the NCBI layout loads as the declared tree (second pass)

`renderNodes` / `renderNames` / `renderMerged` (`Model/TaxRender.lean`) write the declarations with the fields
separated by `"\t|\t"` and the lines ended by `"\t|\n"`, as the NCBI files are.  `parse (render decl) = decl`
for all declarations whose fields hold no `|`, no line feed and no double quote (`NoSep`), taxids below `2^63`,
ranks / names / name classes without blank at either end (`strings.TrimSpace` would remove it), the same number of
columns on every line of `nodes.dmp`, lines of `names.dmp` that fit the 4096 byte buffer of `bufio.Reader`. -/

open ObiVerif.TaxLoad in
/-- the csv reader reaches the end of a rendered `nodes.dmp` / `merged.dmp` (no silent stop) and its records are
the declarations: the hypotheses of `loadDump_declared` hold for rendered files -/
theorem rendered_csv_records (rows : List NodeRow) (mrows : List (Nat × Nat)) (k : Nat)
    (hk : ∀ r ∈ rows, r.extra.length = k) (hid : ∀ r ∈ rows, r.id < 2 ^ 63 ∧ r.parent < 2 ^ 63)
    (hrank : ∀ r ∈ rows, NoSep r.rank ∧ trimSpace r.rank = r.rank) (hextra : ∀ r ∈ rows, ∀ f ∈ r.extra, NoSep f)
    (hm : ∀ r ∈ mrows, r.1 < 2 ^ 63 ∧ r.2 < 2 ^ 63) :
    ((csvRead (renderNodes rows)).stop = .eof ∧ AllRec NodeRec (csvRead (renderNodes rows)).recs (rows.map NodeRow.decl)) ∧
    ((csvRead (renderMerged mrows)).stop = .eof ∧ AllRec MergedRec (csvRead (renderMerged mrows)).recs mrows) :=
  ⟨csvRead_renderNodes rows k hk hid hrank hextra, csvRead_renderMerged mrows hm⟩

open ObiVerif.TaxLoad in
/-- `loadDump (render decl) = decl` : the `AddNewTaxa` calls are the declared nodes, the scientific names those of
the `scientific name` lines of known taxids, the `AddNewAlias` calls the declared merged ids, in file order -/
theorem loadDump_rendered (rows : List NodeRow) (nrows : List NameRow) (mrows : List (Nat × Nat)) (k : Nat)
    (hk : ∀ r ∈ rows, r.extra.length = k) (hid : ∀ r ∈ rows, r.id < 2 ^ 63 ∧ r.parent < 2 ^ 63)
    (hrank : ∀ r ∈ rows, NoSep r.rank ∧ trimSpace r.rank = r.rank) (hextra : ∀ r ∈ rows, ∀ f ∈ r.extra, NoSep f)
    (hnid : ∀ r ∈ nrows, r.id < 2 ^ 63)
    (hnf : ∀ r ∈ nrows, NoSep r.name ∧ trimSpace r.name = r.name ∧ NoSep r.uniq ∧ NoSep r.cls ∧ trimSpace r.cls = r.cls)
    (hnlen : ∀ r ∈ nrows, (ncbiLine [showNat r.id, r.name, r.uniq, r.cls]).length ≤ 4096)
    (hm : ∀ r ∈ mrows, r.1 < 2 ^ 63 ∧ r.2 < 2 ^ 63) :
    loadDump (renderNodes rows) (renderNames nrows) (renderMerged mrows) =
      .ok ⟨(rows.map NodeRow.decl).reverse,
        ((nrows.filter fun r => decide (r.cls = sciClass) &&
            (lookupNode (rows.map NodeRow.decl).reverse r.id).isSome).map fun r => (r.id, r.name)).reverse,
        mrows⟩ :=
  loadDump_render rows nrows mrows k hk hid hrank hextra hnid hnf hnlen hm

open ObiVerif.TaxLoad in
/-- … hence the taxonomy loaded from a rendered dump with distinct taxids is the declared tree: every declared
node with its parent and rank, no other node, the merged ids resolved as `AddNewAlias` in file order -/
theorem rendered_dump_is_declared_tree (rows : List NodeRow) (nrows : List NameRow) (mrows : List (Nat × Nat)) (k : Nat)
    (hk : ∀ r ∈ rows, r.extra.length = k) (hid : ∀ r ∈ rows, r.id < 2 ^ 63 ∧ r.parent < 2 ^ 63)
    (hrank : ∀ r ∈ rows, NoSep r.rank ∧ trimSpace r.rank = r.rank) (hextra : ∀ r ∈ rows, ∀ f ∈ r.extra, NoSep f)
    (hnid : ∀ r ∈ nrows, r.id < 2 ^ 63)
    (hnf : ∀ r ∈ nrows, NoSep r.name ∧ trimSpace r.name = r.name ∧ NoSep r.uniq ∧ NoSep r.cls ∧ trimSpace r.cls = r.cls)
    (hnlen : ∀ r ∈ nrows, (ncbiLine [showNat r.id, r.name, r.uniq, r.cls]).length ≤ 4096)
    (hm : ∀ r ∈ mrows, r.1 < 2 ^ 63 ∧ r.2 < 2 ^ 63) (hnd : (rows.map (·.id)).Nodup) :
    ∃ L, loadDump (renderNodes rows) (renderNames nrows) (renderMerged mrows) = .ok L ∧
      (∀ r ∈ rows, L.taxo.node r.id = some ⟨r.parent, toStr r.rank⟩) ∧
      (∀ id, (∀ r ∈ rows, r.id ≠ id) → L.taxo.node id = none) ∧
      L.taxo = addAliases L.base mrows ∧ AliasOK L.taxo := by
  refine ⟨_, loadDump_rendered rows nrows mrows k hk hid hrank hextra hnid hnf hnlen hm, ?_, ?_, rfl, Loaded.taxo_aliasOK _⟩
  · intro r hr
    have hnd' : ((rows.map NodeRow.decl).map (·.1)).Nodup := by
      simpa [List.map_map, NodeRow.decl, Function.comp_def] using hnd
    exact (loaded_nodes_declared _ (rows.map NodeRow.decl) rfl).2.1 hnd' r.id r.parent r.rank
      (List.mem_map.2 ⟨r, hr, rfl⟩)
  · intro id hno
    apply (loaded_nodes_declared _ (rows.map NodeRow.decl) rfl).2.2.1 id
    intro d hd
    obtain ⟨r, hr, rfl⟩ := List.mem_map.1 hd
    exact hno r hr

/-! ## 11. the sequence predicates, methods and workers resolve merged taxids exactly like the node level functions

`sequence_predicate.go`, `sequence_methods.go`, `sequence_workers.go`, `obigrep/options.go`: every closure starts
with `taxonomy.Taxon(sequence.Taxid())`.  For a sequence annotated with a merged taxid `tid` (or an alias of an
alias, …) whose current taxid is `x` (`resolve t tid = some x`) each predicate / annotation answers exactly what it
answers for a sequence annotated with `x`; sections 5 and 6 say what that answer is in terms of the tree.  (A seeded
regression that looks `tid` up in the `nodes` map only breaks the first clause of `seq_predicates_alias`.) -/

section
open ObiVerif.TaxLoad ObiVerif.TaxSeq

/-- `Taxon` is idempotent: the taxid a merged taxid resolves to resolves to itself -/
theorem taxon_idempotent (ha : AliasOK t) {tid x : Nat} (h : resolve t tid = some x) : resolve t x = some x :=
  resolve_idem ha h

/-- `IsAValidTaxon`: true exactly for the taxids that resolve; with auto-correction a merged taxid is rewritten
into the current one (`SetTaxid`: a taxid below 1 is stored as 1), after which the sequence is left alone -/
theorem isValidTaxon_alias (ha : AliasOK t) {tid x : Nat} (h : resolve t tid = some x) :
    isValidTaxon t tid = true ∧ isValidTaxon t x = true ∧
    isValidTaxonFix t false tid = (true, none) ∧
    isValidTaxonFix t true tid = (true, if x ≠ tid then some (setTaxid x) else none) ∧
    (1 ≤ x → isValidTaxonFix t true (setTaxid x) = (true, none)) := by
  have hx := resolve_idem ha h
  refine ⟨by simp [isValidTaxon, h], by simp [isValidTaxon, hx], by simp [isValidTaxonFix, h],
    by simp [isValidTaxonFix, h], ?_⟩
  intro h1
  have : setTaxid x = x := by unfold setTaxid; rw [if_neg]; omega
  simp [isValidTaxonFix, this, hx]

theorem isValidTaxon_unknown {tid : Nat} (h : resolve t tid = none) :
    isValidTaxon t tid = false ∧ ∀ b, isValidTaxonFix t b tid = (false, none) := by
  simp [isValidTaxon, isValidTaxonFix, h]

/-- `Taxonomy.IsSubCladeOf(clade)` is `--restrict-to-taxon clade`, `Taxonomy.HasRequiredRank(r)` is `--require-rank r` -/
theorem isSubCladeOfPred_eq_restrictTo (clade tid : Nat) :
    isSubCladeOfPred t fuel clade tid = restrictTo t fuel [clade] tid := by
  unfold isSubCladeOfPred restrictTo
  cases hc : resolve t clade with
  | none => simp [resolveAll, hc]
  | some c =>
    simp only [resolveAll, hc, anyClade]
    cases inClade t fuel c tid with
    | error e => rfl
    | ok b => cases b <;> rfl

theorem hasRequiredRankPred_eq_requireRanks (r : String) (tid : Nat) :
    hasRequiredRankPred t fuel r tid = requireRanks t fuel [r] tid := by
  unfold hasRequiredRankPred requireRanks
  by_cases h : (rankList t).contains r = true
  · simp only [h, if_true, List.all_cons, List.all_nil, Bool.and_true, allRanks]
    cases hasRank t fuel r tid with
    | error e => rfl
    | ok b => cases b <;> rfl
  · have h' : (rankList t).contains r = false := Bool.eq_false_iff.2 h
    simp only [h', List.all_cons, List.all_nil, Bool.and_true]
    rfl

/-- `Taxonomy.IsSubCladeOf(clade)(sequence)` in terms of the tree: fatal for an unknown clade, else true exactly
when the taxid of the sequence resolves (merged taxids included) to a taxon of the clade -/
theorem isSubCladeOfPred_spec (wf : WF t root depth) (hf : FuelOK t fuel) (ha : AliasOK t) (clade tid : Nat) :
    (resolve t clade = none → isSubCladeOfPred t fuel clade tid = .error .fatal) ∧
    (∀ c, resolve t clade = some c → ∃ b, isSubCladeOfPred t fuel clade tid = .ok b ∧
      (b = true ↔ ∃ x, resolve t tid = some x ∧ Anc t c x)) := by
  rw [isSubCladeOfPred_eq_restrictTo]
  obtain ⟨h1, h2⟩ := restrictTo_spec wf hf ha [clade] tid
  constructor
  · intro h; exact h1 ⟨clade, by simp, h⟩
  · intro c hc
    obtain ⟨b, hb, hiff⟩ := h2 (by intro c' hc'; simp at hc'; subst hc'; simp [hc])
    refine ⟨b, hb, ?_⟩
    rw [hiff]
    constructor
    · rintro ⟨x, hx, c1, hc1, c', hcc, hanc⟩
      simp at hc1; subst hc1
      rw [hc] at hcc; cases hcc
      exact ⟨x, hx, hanc⟩
    · rintro ⟨x, hx, hanc⟩
      exact ⟨x, hx, clade, by simp, c, hc, hanc⟩

/-- the predicates do not see whether the sequence carries a merged taxid or its current taxid -/
theorem seq_predicates_alias (ha : AliasOK t) {tid x : Nat} (h : resolve t tid = some x) :
    (∀ clade, isSubCladeOfPred t fuel clade tid = isSubCladeOfPred t fuel clade x) ∧
    (∀ clades, restrictTo t fuel clades tid = restrictTo t fuel clades x) ∧
    (∀ clades, ignoreTaxon t fuel clades tid = ignoreTaxon t fuel clades x) ∧
    (∀ r, hasRequiredRankPred t fuel r tid = hasRequiredRankPred t fuel r x) ∧
    (∀ ranks, requireRanks t fuel ranks tid = requireRanks t fuel ranks x) ∧
    (∀ ranks restrict ignore, taxFilter t fuel ranks restrict ignore tid = taxFilter t fuel ranks restrict ignore x) ∧
    (∀ slot, inCladeSlot t fuel slot tid = inCladeSlot t fuel slot x) ∧
    (∀ s, inCladeSlotStr t fuel s tid = inCladeSlotStr t fuel s x) := by
  have hx := resolve_idem ha h
  have hslot : ∀ slot, inCladeSlot t fuel slot tid = inCladeSlot t fuel slot x := by
    intro slot; cases slot with
    | none => rfl
    | some c => simp [inCladeSlot, h, hx]
  refine ⟨?_, ?_, ?_, ?_, ?_, ?_, hslot, fun s => hslot _⟩
  · intro clade; simp only [isSubCladeOfPred, inClade_alias ha h]
  · intro clades; simp only [restrictTo, anyClade_alias ha h]
  · intro clades; simp only [ignoreTaxon, restrictTo, anyClade_alias ha h]
  · intro r; simp only [hasRequiredRankPred, hasRank_alias ha h]
  · intro ranks; simp only [requireRanks, allRanks_alias ha h]
  · intro ranks restrict ignore
    simp only [taxFilter, allRanks_alias ha h, anyClade_alias ha h]

/-- … nor whether a clade is given by a merged taxid or by its current taxid -/
theorem seq_predicates_clade_alias (ha : AliasOK t) (tid : Nat) :
    (∀ clade c, resolve t clade = some c → isSubCladeOfPred t fuel clade tid = isSubCladeOfPred t fuel c tid) ∧
    (∀ clades rs, resolveAll t clades = .ok rs → restrictTo t fuel clades tid = restrictTo t fuel rs tid ∧
      ignoreTaxon t fuel clades tid = ignoreTaxon t fuel rs tid) ∧
    (∀ clade c, resolve t clade = some c → inCladeSlot t fuel (some clade) tid = inCladeSlot t fuel (some c) tid) := by
  refine ⟨?_, ?_, ?_⟩
  · intro clade c hc; simp [isSubCladeOfPred, hc, resolve_idem ha hc]
  · intro clades rs hrs
    have := resolveAll_resolved ha clades rs hrs
    simp [ignoreTaxon, restrictTo, hrs, this]
  · intro clade c hc; simp [inCladeSlot, hc, resolve_idem ha hc]

/-- the annotations (`SetTaxonAtRank`, `MakeSetTaxonAtRankWorker`, `SetSpecies/Genus/Family` and their workers,
`SetPath` / `MakeSetPathWorker`, `SetScientificName`, `SetTaxonomicRank`) written on a sequence carrying a merged
taxid are those written on a sequence carrying its current taxid -/
theorem seq_annotations_alias (ha : AliasOK t) {tid x : Nat} (h : resolve t tid = some x) (name rank : Nat → Bytes) :
    (∀ r, setTaxonAtRank t fuel r tid = setTaxonAtRank t fuel r x) ∧
    (∀ r, setTaxonAtRankAnn t fuel name r tid = setTaxonAtRankAnn t fuel name r x) ∧
    (∀ r, setTaxonAtRankWorker t fuel name r tid = setTaxonAtRankWorker t fuel name r x) ∧
    setSpecies t fuel name tid = setSpecies t fuel name x ∧
    setGenus t fuel name tid = setGenus t fuel name x ∧
    setFamily t fuel name tid = setFamily t fuel name x ∧
    setPath t fuel name rank tid = setPath t fuel name rank x ∧
    setScientificName t name tid = setScientificName t name x ∧
    setTaxonomicRank t rank tid = setTaxonomicRank t rank x := by
  have hx := resolve_idem ha h
  have h1 : ∀ r, setTaxonAtRank t fuel r tid = setTaxonAtRank t fuel r x := by
    intro r; simp [setTaxonAtRank, h, hx]
  have h2 : ∀ r, setTaxonAtRankAnn t fuel name r tid = setTaxonAtRankAnn t fuel name r x := by
    intro r; simp only [setTaxonAtRankAnn, h1]
  refine ⟨h1, h2, ?_, h2 _, h2 _, h2 _, ?_, ?_, ?_⟩
  · intro r; simp only [setTaxonAtRankWorker, h2]
  · simp [setPath, h, hx]
  · simp [setScientificName, h, hx]
  · simp [setTaxonomicRank, h, hx]

/-- what the annotations are, in terms of the node level functions of sections 1 and 3 -/
theorem seq_annotations_spec (name rank : Nat → Bytes) (tid : Nat) :
    (∀ r, setTaxonAtRankWorker t fuel name r tid =
      if (rankList t).contains r then setTaxonAtRankAnn t fuel name r tid else .error .fatal) ∧
    (∀ r, setTaxonAtRankAnn t fuel name r tid = match resolve t tid with
      | none => .ok none
      | some x => match taxonAtRank t r fuel x with
        | .ok none => .ok (some (none, [78, 65]))
        | .ok (some z) => .ok (some (some z, name z))
        | .error e => .error e) ∧
    setScientificName t name tid = (match resolve t tid with | none => .error .fatal | some x => .ok (name x)) ∧
    setTaxonomicRank t rank tid = (match resolve t tid with | none => .error .fatal | some x => .ok (rank x)) := by
  refine ⟨fun r => rfl, ?_, rfl, rfl⟩
  intro r
  unfold setTaxonAtRankAnn setTaxonAtRank
  cases resolve t tid with
  | none => rfl
  | some x =>
    simp only
    cases taxonAtRank t r fuel x with
    | error e => rfl
    | ok o => cases o <;> rfl

/-- the weighted LCA does not see whether a key of `merged_taxid` is a merged taxid or its current taxid -/
theorem weightedLca_alias (ha : AliasOK t) (kws : List (Nat × Nat)) :
    weightedLca t fuel (resolveKeys t kws) = weightedLca t fuel kws := by
  simp only [weightedLca, taxDist_resolveKeys ha]

-- non-vacuity / tests on the example taxonomy (9 -> 3, 10 -> 9 -> 3 are merged taxids, 77 is unknown)
example : isSubCladeOfPred exT 6 2 10 = .ok true ∧ isSubCladeOfPred exT 6 2 3 = .ok true ∧ isSubCladeOfPred exT 6 5 9 = .ok false ∧
    isSubCladeOfPred exT 6 9 10 = .ok true ∧ isSubCladeOfPred exT 6 2 77 = .ok false ∧ isSubCladeOfPred exT 6 77 3 = .error .fatal ∧
    isSubCladeOfPred exT 6 1 1 = .ok true := ⟨rfl, rfl, rfl, rfl, rfl, rfl, rfl⟩
example : isValidTaxonFix exT true 10 = (true, some 3) ∧ isValidTaxonFix exT false 10 = (true, none) ∧
    isValidTaxonFix exT true 3 = (true, none) ∧ isValidTaxonFix exT true 77 = (false, none) := by decide
example : setGenus exT 6 (fun x => [110] ++ showNat x) 10 = .ok (some (some 2, [110, 50])) ∧
    setFamily exT 6 (fun _ => []) 9 = .ok (some (none, [78, 65])) ∧ setSpecies exT 6 (fun _ => []) 77 = .ok none ∧
    setTaxonAtRankWorker exT 6 (fun _ => []) "order" 3 = .error .fatal ∧
    setScientificName exT (fun x => showNat x) 10 = .ok [51] ∧ setScientificName exT (fun x => showNat x) 77 = .error .fatal := by
  refine ⟨by decide, by decide, by decide, by decide, by decide, by decide⟩
example : (∀ clade, isSubCladeOfPred exT 6 clade 10 = isSubCladeOfPred exT 6 clade 3) :=
  (seq_predicates_alias (fuel := 6) exT_aliasOK (tid := 10) (x := 3) (by decide)).1
example : weightedLca exT 6 (resolveKeys exT [(10, 2), (4, 1)]) = weightedLca exT 6 [(10, 2), (4, 1)] :=
  weightedLca_alias exT_aliasOK _

end

/-! non-vacuity and tests of the new sections on concrete values -/

section
open ObiVerif.TaxLoad

example : ∃ l, filterSubclade exT 6 2 [1, 2, 3, 4, 5] = .ok l ∧ (∀ x, x ∈ l ↔ x ∈ [1, 2, 3, 4, 5] ∧ Anc exT 2 x) ∧
    l.Sublist [1, 2, 3, 4, 5] ∧ ([1, 2, 3, 4, 5].Nodup → l.Nodup) :=
  filterSubclade_spec exT_wf exT_fuel 2 [1, 2, 3, 4, 5] (by
    intro x hx; rw [exT_node]
    simp only [List.mem_cons, List.not_mem_nil, or_false] at hx
    rcases hx with h | h | h | h | h <;> subst h <;> exact ⟨_, rfl⟩)

example : filterSubclade exT 6 2 [1, 2, 3, 4, 5] = .ok [2, 3, 4] ∧ filterRank exT "species" [1, 2, 3, 4, 5] = [3, 4] ∧
    filterBelonging exT 6 [5, 3] [1, 2, 3, 4, 5] = .ok [3, 5] ∧ filterBelonging exT 6 [] [1, 2] = .ok [1, 2] := ⟨rfl, rfl, rfl, rfl⟩

-- "12", "TX:12", "Homo [TX:12]", "TX:x TX:12", "x", "+7", "-7", " 7"
example : parseTaxidString [49, 50] = .id 12 ∧ parseTaxidString [84, 88, 58, 49, 50] = .id 12 ∧
    parseTaxidString [72, 111, 109, 111, 32, 91, 84, 88, 58, 49, 50, 93] = .id 12 ∧
    parseTaxidString [84, 88, 58, 120, 32, 84, 88, 58, 49, 50] = .id 12 ∧ parseTaxidString [120] = .noparse ∧
    parseTaxidString [43, 55] = .id 7 ∧ parseTaxidString [45, 55] = .neg ∧ parseTaxidString [32, 55] = .noparse := by decide

example : parseTaxidString ([72, 32, 91] ++ 84 :: 88 :: 58 :: (showNat 9606 ++ [93])) = .id 9606 :=
  taxid_TX_roundtrip [72, 32, 91] [93] 9606 (by decide) (by decide) (by decide)

-- nodes.dmp = "1\t|\t1\t|\tno rank\t|\n2 | 1 | genus |\n# c\n\n3|2|species|" ; merged.dmp = "9|3|\n10|9|\n"
def exNodesF : Bytes := [49, 9, 124, 9, 49, 9, 124, 9, 110, 111, 32, 114, 97, 110, 107, 9, 124, 10,
  50, 32, 124, 32, 49, 32, 124, 32, 103, 101, 110, 117, 115, 32, 124, 10, 35, 32, 99, 10, 10,
  51, 124, 50, 124, 115, 112, 101, 99, 105, 101, 115, 124]
def exNamesF : Bytes := [51, 124, 72, 46, 115, 124, 124, 115, 99, 105, 101, 110, 116, 105, 102, 105, 99, 32, 110, 97, 109, 101, 124, 10]
def exMergedF : Bytes := [57, 124, 51, 124, 10, 49, 48, 124, 57, 124, 10]

example : loadDump exNodesF exNamesF exMergedF =
    .ok ⟨[(1, 1, [110, 111, 32, 114, 97, 110, 107]), (2, 1, [103, 101, 110, 117, 115]), (3, 2, [115, 112, 101, 99, 105, 101, 115])].reverse,
      [(3, [72, 46, 115])], [(9, 3), (10, 9)]⟩ :=
  loadDump_declared exNodesF exNamesF exMergedF _ _ _ (by decide)
    (by
      have : (csvRead exNodesF).recs = [[[49, 9], [49, 9], [110, 111, 32, 114, 97, 110, 107, 9], []],
        [[50, 32], [49, 32], [103, 101, 110, 117, 115, 32], []], [[51], [50], [115, 112, 101, 99, 105, 101, 115], []]] := by decide
      rw [this]
      refine .cons ⟨_, _, _, _, rfl, by decide, by decide, by decide⟩ (.cons ⟨_, _, _, _, rfl, by decide, by decide, by decide⟩
        (.cons ⟨_, _, _, _, rfl, by decide, by decide, by decide⟩ .nil)))
    (by decide) (by decide)
    (by
      have : (csvRead exMergedF).recs = [[[57], [51], []], [[49, 48], [57], []]] := by decide
      rw [this]
      exact .cons ⟨_, _, _, rfl, by decide, by decide⟩ (.cons ⟨_, _, _, rfl, by decide, by decide⟩ .nil))

-- a rendered dump: 1|1|no rank, 2|1|genus, 3|2|species (two more columns), a merged id, three names.dmp lines
example : ∃ L, loadDump (renderNodes exRows) (renderNames exNames) (renderMerged exMerged) = .ok L ∧
    (∀ r ∈ exRows, L.taxo.node r.id = some ⟨r.parent, toStr r.rank⟩) ∧
    (∀ id, (∀ r ∈ exRows, r.id ≠ id) → L.taxo.node id = none) ∧
    L.taxo = addAliases L.base exMerged ∧ AliasOK L.taxo :=
  rendered_dump_is_declared_tree exRows exNames exMerged 2 (by decide) (by decide) (by decide) (by decide) (by decide)
    (by decide) (by decide) (by decide) (by decide)

-- damaged files: a bare quote or a change of the number of fields ends the loading silently, a bad number panics
example : (csvRead [49, 124, 49, 124, 10, 50, 124, 34, 124, 10]).stop = .quoted ∧
    (csvRead [49, 124, 49, 124, 10, 50, 124, 49, 34, 124, 10, 51, 124, 49, 124, 10]).stop = .bareQuote ∧
    (csvRead [49, 124, 49, 124, 10, 50, 124, 49, 10, 51, 124, 49, 124, 10]).stop = .fieldCount ∧
    ((csvRead [49, 124, 49, 124, 10, 50, 124, 49, 10, 51, 124, 49, 124, 10]).recs.length = 1) := by decide

end

end ObiVerif.Props.C14
