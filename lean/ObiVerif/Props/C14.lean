import ObiVerif.Model.Tax
namespace ObiVerif.Props.C14
open ObiVerif.Tax

theorem resolve_node (t : Taxo) (x : Nat) (n : Node) (h : t.node x = some n) : resolve t x = some x := by
  simp [resolve, h]

end ObiVerif.Props.C14
