import ObiVerif.Props.C06I
import ObiVerif.Lemmas.UniqGlue
set_option Elab.async false
/-!
# C06 — the glue between the obiuniq command line and the dereplication kernel

`Model/UniqGlue.lean`: `CLIUnique` builds the `obichunk` options from the command-line variables (`cli_plumbing`),
`OptionStatOn` indexes the `-m` descriptors by their **Name** (`statOn_keyed_by_name`; `statOn_by_key_loses_weights`:
what goes wrong when they are indexed by attribute key), and the merge kernel works with descriptors
(`<key>` : slot `merged_<key>`, weight `Count()`; `<key>:<wattr>` : slot `merged_<key>:<wattr>`, value of attribute
`<key>`, weight = integer attribute `<wattr>`).  With plain descriptors the model is `uniq` of `Model/Uniq.lean`
(`glue_plain_is_uniq`), so every theorem of `Props/C06.lean` is a theorem on `uniqD` then; `uniqD_merged`,
`rederep_class`, `uniqD_rederep` are the statements for weighted / mixed descriptors.

Hypotheses: `DescsOK` (the descriptor map has distinct keys and every descriptor sits under its Name — what
`optionStatOn` produces), counts ≥ 1, `Rec.WF`, and `WOK d r` (a record has a `count` annotation when the weight of a
descriptor is read from it, `<key>:count`): see `count_weight_order_dependent` for why.
-/
namespace ObiVerif.Props.C06
open ObiVerif.Uniq

/-! ## the command line reaches the options -/

/-- `CLIUnique`: every option variable reaches the field of the `obichunk` options it is meant for -/
theorem cli_plumbing (c : Cli) :
    cliOptions c = { statsOn := optionStatOn [] c.merge, categories := c.cats, navalue := c.na,
                     cacheOnDisk := !c.inMemory,
                     batchCount := (if c.chunkCount ≤ 1 then 1 else c.chunkCount),
                     batchSize := c.batchSize, parallelWorkers := c.workers, noSingleton := c.noSingleton } := by
  obtain ⟨merge, cats, na, ns, im, cc, w, bs⟩ := c
  cases ns <;> cases im <;>
    simp [cliOptions, makeOptions, cliSetters, Setter.apply, Cli.numberOfChunks]

/-- `OptionStatOn`: the map has distinct keys, every descriptor sits under its own Name (the whole `-m` argument) and
is `MakeStatsOnDescription` of it, and the keys are exactly the `-m` arguments -/
theorem statOn_keyed_by_name (keys : List String) :
    DescsOK (optionStatOn [] keys) ∧ (∀ e ∈ optionStatOn [] keys, e.2 = makeDesc e.1) ∧
    (∀ k, k ∈ (optionStatOn [] keys).map (·.1) ↔ k ∈ keys) := optionStatOn_spec keys

/-- distinct `-m` arguments without colon give the plain descriptors, in command-line order -/
theorem statOn_plain (keys : List String) (h : ∀ k ∈ keys, ':' ∉ k.toList) (hnd : keys.Nodup) :
    optionStatOn [] keys = plainDescs keys := optionStatOn_plain keys h hnd

/-- with plain descriptors the model with descriptors is the model of `Model/Uniq.lean` -/
theorem glue_plain_is_uniq (h : Seq → Nat) (o : Opts) (input : List Rec) :
    uniqD h ⟨o.cats, plainDescs o.stats, o.na, o.noSingleton⟩ input = uniq h o input := uniqD_plain h o input

/-! ## counts and `merged_` maps with descriptors -/

/-- every output record of `uniqD` has the summed count of the class of its key and, for every descriptor, a
`merged_<Name>` map giving per value the summed contribution (`contribD`) of the records of the class -/
theorem uniqD_merged (h : Seq → Nat) (o : OptsD) (input : List Rec) (hok : DescsOK o.descs)
    (hc : ∀ r ∈ input, 1 ≤ r.count) (hwf : ∀ r ∈ input, r.WF)
    (hw : ∀ r ∈ input, ∀ e ∈ o.descs, WOK e.2 r) :
    ∀ out ∈ uniqD h o input,
      out.count = total (classOf o.base input (key o.base out)) ∧
      ∀ e ∈ o.descs, ∃ m, out.merged.lookup e.2.name = some m ∧
        ∀ v, weight m v = contribSumD o.na e.2 (classOf o.base input (key o.base out)) v := by
  intro out hout
  have hio := uniqD_isOutputD h o input ⟨hok, hc, hwf, hw⟩ out hout
  exact ⟨hio.count, hio.merged⟩

/-- the sums of `uniqD_merged` do not depend on the order of the input -/
theorem uniqD_merged_perm (o : Opts) (na : String) (d : Desc) (input input' : List Rec) (hp : input'.Perm input)
    (κ : Seq × List String) (v : String) :
    total (classOf o input' κ) = total (classOf o input κ) ∧
    contribSumD na d (classOf o input' κ) v = contribSumD na d (classOf o input κ) v :=
  ⟨total_perm (classOf_perm o hp κ), contribSumD_perm na d (classOf_perm o hp κ) v⟩

/-- **re-dereplication, class level, weighted and mixed descriptors**: two already merged records `o1`, `o2` (of the
classes `r1 :: rs1`, `r2 :: rs2`) and further records `zs`, merged in any order `x :: xs`, give the count and the
`merged_` weights of the merge of all the original records -/
theorem rederep_class (na : String) (descs : List (String × Desc)) (hok : DescsOK descs)
    (r1 : Rec) (rs1 : List Rec) (r2 : Rec) (rs2 zs : List Rec) (o1 o2 x : Rec) (xs : List Rec)
    (hc1 : 1 ≤ r1.count) (hc2 : 1 ≤ r2.count) (hcz : ∀ z ∈ zs, 1 ≤ z.count)
    (hw1 : ∀ e ∈ descs, WOK e.2 r1) (hw2 : ∀ e ∈ descs, WOK e.2 r2)
    (hwz : ∀ z ∈ zs, ∀ e ∈ descs, WOK e.2 z)
    (h1 : mergeClassD na descs (r1 :: rs1) = some o1) (h2 : mergeClassD na descs (r2 :: rs2) = some o2)
    (hp : (x :: xs).Perm (o1 :: o2 :: zs)) :
    ∃ out, mergeClassD na descs (x :: xs) = some out ∧
      out.count = total ((r1 :: rs1) ++ (r2 :: rs2) ++ zs) ∧
      ∀ e ∈ descs, ∃ m, out.merged.lookup e.2.name = some m ∧
        ∀ v, weight m v = contribSumD na e.2 ((r1 :: rs1) ++ (r2 :: rs2) ++ zs) v := by
  obtain ⟨o1', e1, _, _, c1, _, m1, _, n1⟩ := mergeClassD_spec' na descs hok r1 rs1 hc1 hw1
  obtain ⟨o2', e2, _, _, c2, _, m2, _, n2⟩ := mergeClassD_spec' na descs hok r2 rs2 hc2 hw2
  rw [h1] at e1; cases e1
  rw [h2] at e2; cases e2
  have t1 : 1 ≤ total (r1 :: rs1) := by simp [total]; omega
  have t2 : 1 ≤ total (r2 :: rs2) := by simp [total]; omega
  have hall : ∀ y ∈ o1 :: o2 :: zs, 1 ≤ y.count ∧ ∀ e ∈ descs, WOK e.2 y := by
    intro y hy
    rcases List.mem_cons.mp hy with rfl | hy
    · exact ⟨by omega, fun e _ => WOK_of_cnt e.2 n1⟩
    · rcases List.mem_cons.mp hy with rfl | hy
      · exact ⟨by omega, fun e _ => WOK_of_cnt e.2 n2⟩
      · exact ⟨hcz y hy, hwz y hy⟩
  have hx := hall x (hp.mem_iff.mp (by simp))
  obtain ⟨out, eo, _, _, co, _, mo, _⟩ := mergeClassD_spec na descs hok x xs hx.1 hx.2
  refine ⟨out, eo, ?_, ?_⟩
  · rw [co, total_perm hp, total_append, total_append, ← c1, ← c2]
    simp [total]; omega
  · intro e he
    obtain ⟨m, hm, hwt⟩ := mo e he
    refine ⟨m, hm, fun v => ?_⟩
    obtain ⟨ma, hma, hwa⟩ := m1 e he
    obtain ⟨mb, hmb, hwb⟩ := m2 e he
    rw [hwt v, contribSumD_perm na e.2 hp v, contribSumD_append, contribSumD_append, contribSumD_cons,
      contribSumD_cons, contribD_some hma, contribD_some hmb, hwa v, hwb v]
    omega

/-- **re-dereplication, list level**: two data sets dereplicated separately, put together and dereplicated again
give observably the same records (`ObsEqD`: sequence, key, count, every requested `merged_<Name>` weight, kept
annotations) as the dereplication of the two raw data sets together — for all chunk functions, plain, weighted and
mixed descriptors, without `--no-singleton` -/
theorem uniqD_rederep (h1 h2 h3 h4 : Seq → Nat) (o : OptsD) (xs ys : List Rec) (okx : InputOKD o xs)
    (oky : InputOKD o ys) (hns : o.noSingleton = false) :
    (∀ out ∈ uniqD h3 o (uniqD h1 o xs ++ uniqD h2 o ys), ∃ out' ∈ uniqD h4 o (xs ++ ys), ObsEqD o out out') ∧
    (∀ out' ∈ uniqD h4 o (xs ++ ys), ∃ out ∈ uniqD h3 o (uniqD h1 o xs ++ uniqD h2 o ys), ObsEqD o out' out) := by
  have ok : InputOKD o (xs ++ ys) := okx.append oky
  have ok2 : InputOKD o (uniqD h1 o xs ++ uniqD h2 o ys) :=
    (uniqD_inputOKD h1 o xs okx).append (uniqD_inputOKD h2 o ys oky)
  have hkeys : ∀ κ, κ ∈ (uniqD h1 o xs ++ uniqD h2 o ys).map (key o.base) ↔ κ ∈ (xs ++ ys).map (key o.base) := by
    intro κ
    simp only [List.map_append, List.mem_append]
    rw [(uniqD_keys h1 o xs okx hns).2 κ, (uniqD_keys h2 o ys oky hns).2 κ]
  obtain ⟨_, k3⟩ := uniqD_keys h3 o _ ok2 hns
  obtain ⟨_, k4⟩ := uniqD_keys h4 o _ ok hns
  constructor
  · intro out hout
    have hio := isOutputD_lift h1 h2 o xs ys okx oky hns out (uniqD_isOutputD h3 o _ ok2 out hout)
    have : key o.base out ∈ (uniqD h4 o (xs ++ ys)).map (key o.base) :=
      (k4 _).mpr ((hkeys _).mp ((k3 _).mp (List.mem_map.mpr ⟨out, hout, rfl⟩)))
    obtain ⟨out', hout', hk⟩ := List.mem_map.mp this
    exact ⟨out', hout', obsEqD_of_isOutputD o _ out out' hio (uniqD_isOutputD h4 o _ ok out' hout') hk.symm⟩
  · intro out' hout'
    have : key o.base out' ∈ (uniqD h3 o (uniqD h1 o xs ++ uniqD h2 o ys)).map (key o.base) :=
      (k3 _).mpr ((hkeys _).mpr ((k4 _).mp (List.mem_map.mpr ⟨out', hout', rfl⟩)))
    obtain ⟨out, hout, hk⟩ := List.mem_map.mp this
    have hio := isOutputD_lift h1 h2 o xs ys okx oky hns out (uniqD_isOutputD h3 o _ ok2 out hout)
    exact ⟨out, hout, obsEqD_of_isOutputD o _ out' out (uniqD_isOutputD h4 o _ ok out' hout') hio hk.symm⟩

/-! ## why the descriptors are indexed by Name, why `WOK` is a hypothesis (counterexamples on one input each) -/

/-- counterexample on one input: the descriptor `s:w` indexed by its attribute key `s` (`optionStatOnByKey`, not the
code) — `Merge` tests `HasStatsOn("s")` on a record that carries `merged_s:w`, does not find it, and counts that
record as one plain observation of its (absent) value with its (absent) weight: the weight 4 of `y` is lost.  Indexed
by Name (`optionStatOn`, the code) the two maps are added: `y` ↦ 4, `x` ↦ 2 + 3. -/
theorem statOn_by_key_loses_weights :
    optionStatOnByKey [] ["s:w"] = [("s", ⟨"s:w", "s", some "w"⟩)] ∧
    optionStatOn [] ["s:w"] = [("s:w", ⟨"s:w", "s", some "w"⟩)] ∧
    (mergeClassD "NA" (optionStatOnByKey [] ["s:w"]) [gR0, gTm]).map (fun o => mweight o "s:w" "y") = some 0 ∧
    (mergeClassD "NA" (optionStatOn [] ["s:w"]) [gR0, gTm]).map (fun o => mweight o "s:w" "y") = some 4 ∧
    (mergeClassD "NA" (optionStatOn [] ["s:w"]) [gR0, gTm]).map (fun o => mweight o "s:w" "x") =
      some 5 := by
  refine ⟨by decide, by decide, by decide, by decide, by decide⟩

/-- the same counterexample with the weight read from `count` (every number evaluated): indexed by key the already
merged record (count 7, `x` ↦ 3, `y` ↦ 4) is counted as 7 observations of `NA`; indexed by Name `x` ↦ 2 + 3, `y` ↦ 4 -/
theorem statOn_by_key_loses_weights_count :
    (mergeClassD "NA" (optionStatOnByKey [] ["s:count"]) [gR0c, gTmc]).map
      (fun o => (o.count, mweight o "s:count" "x", mweight o "s:count" "y", mweight o "s:count" "NA")) =
        some (9, 2, 0, 7) ∧
    (mergeClassD "NA" (optionStatOn [] ["s:count"]) [gR0c, gTmc]).map
      (fun o => (o.count, mweight o "s:count" "x", mweight o "s:count" "y", mweight o "s:count" "NA")) =
        some (9, 5, 4, 0) := by
  decide

/-- observation on one input (why `WOK` is a hypothesis): descriptor `s:count`, record `gA` without `count`
annotation (`Count()` = 1, `GetIntAttribute("count")` = 0).  Alone in its class it weighs 1 (`SetCount` comes first);
merged with `gB` (count 3) directly, in either order, it weighs 0 (weights 3 for a count of 4); dereplicated alone
first and then merged with `gB` it weighs 1 (weights 4) -/
theorem count_weight_order_dependent :
    ¬ WOK (makeDesc "s:count") gA ∧ gA.count = 1 ∧
    (mergeClassD "NA" (optionStatOn [] ["s:count"]) [gA]).map (fun o => mweight o "s:count" "x") = some 1 ∧
    (mergeClassD "NA" (optionStatOn [] ["s:count"]) [gA, gB]).map (fun o => (o.count, mweight o "s:count" "x")) =
      some (4, 3) ∧
    (mergeClassD "NA" (optionStatOn [] ["s:count"]) [gB, gA]).map (fun o => (o.count, mweight o "s:count" "x")) =
      some (4, 3) ∧
    ((mergeClassD "NA" (optionStatOn [] ["s:count"]) [gA]).bind fun oa =>
      (mergeClassD "NA" (optionStatOn [] ["s:count"]) [oa, gB]).map
        (fun o => (o.count, mweight o "s:count" "x"))) = some (4, 4) := by
  refine ⟨?_, by decide, by decide, by decide, by decide, by decide⟩
  intro h
  have := h (by decide)
  simp [gA] at this

/-! ## non-vacuity: a plain and a weighted descriptor on one attribute (`-m s -m s:w`) -/

example : InputOKD gO gIn := gOK

example : (uniqD (fun _ => 0) gO gIn).map (fun r => (r.id, r.count)) = [("a", 6), ("c", 1)] := by decide

example : ∀ out ∈ uniqD (fun _ => 0) gO gIn,
    out.count = total (classOf gO.base gIn (key gO.base out)) :=
  fun out h => (uniqD_merged _ gO gIn gOK.descs_ok gOK.counts gOK.wf gOK.wok out h).1

example : (mergeClassD "NA" gDescs [g0, g1]).isSome ∧ (mergeClassD "NA" gDescs [g3]).isSome := by decide

example (o1 o2 : Rec) (h1 : mergeClassD "NA" gDescs [g0, g1] = some o1)
    (h2 : mergeClassD "NA" gDescs [g3] = some o2) :
    ∃ out, mergeClassD "NA" gDescs [o2, o1] = some out ∧ out.count = 6 ∧
      ∀ e ∈ gDescs, ∃ m, out.merged.lookup e.2.name = some m ∧
        ∀ v, weight m v = contribSumD "NA" e.2 [g0, g1, g3] v := by
  obtain ⟨out, h, hc, hm⟩ := rederep_class "NA" gDescs (statOn_keyed_by_name _).1 g0 [g1] g3 [] [] o1 o2 o2 [o1]
    (by decide) (by decide) (by simp) (gWOK g0) (gWOK g3) (by simp) h1 h2 (List.Perm.swap _ _ _)
  exact ⟨out, h, hc.trans (by decide), hm⟩

example : ∀ out ∈ uniqD (fun _ => 0) gO (uniqD (fun _ => 1) gO [g0, g1] ++ uniqD (fun s => s.length) gO [g2, g3]),
    ∃ out' ∈ uniqD (fun _ => 2) gO gIn, ObsEqD gO out out' :=
  (uniqD_rederep _ _ _ _ gO [g0, g1] [g2, g3]
    ⟨gOK.descs_ok, by decide, by simp [Rec.WF, g0, g1], fun r _ => gWOK r⟩
    ⟨gOK.descs_ok, by decide, by simp [Rec.WF, g2, g3], fun r _ => gWOK r⟩ rfl).1

/-- the command line `-m s -m s:w -c t --no-singleton --chunk-count 0` (test on one input) -/
example : cliOptions { merge := ["s", "s:w"], cats := ["t"], noSingleton := true, chunkCount := 0 } =
    { statsOn := gDescs, categories := ["t"], navalue := "NA", cacheOnDisk := true, batchCount := 1,
      batchSize := 1, parallelWorkers := 1, noSingleton := true } := by
  decide

end ObiVerif.Props.C06
