import ObiVerif.Model.ReadErr
import ObiVerif.Lemmas.ReadErr
import ObiVerif.Model.Kseq
import ObiVerif.Lemmas.Kseq
/-!
# C17 — truncated or corrupt compressed input is reported, never silently accepted (property theorems)

All theorems hold for every stream (any bytes, any length, the error at any position), every buffer
size `bufsz ≥ 2` and every record splitter satisfying `SplitterOK`; `fasta_splitter_ok` shows that the
executable FASTA splitter of the model satisfies that contract.
-/
namespace ObiVerif.Props.C17
open ObiVerif.ReadErr

/-- contract of a record splitter: `-1` (no complete record in the buffer yet) or the offset at which
the last record starts, which is at least 1 and at most the length of the buffer -/
def SplitterOK (split : Bytes → Int) : Prop :=
  ∀ b : Bytes, split b = -1 ∨ (1 ≤ split b ∧ split b ≤ (b.length : Int))

/-- the example stream `">a\nac\n>b\ngg\n"` -/
def exData : Bytes := [62, 97, 10, 97, 99, 10, 62, 98, 10, 103, 103, 10]

/-! ## the format guesser -/

/-- the format guesser refuses every stream shorter than its peek that ends with an error other than
a clean end of file -/
theorem guessPeek_error_fatal (peek : Nat) (s : Stream) (hlen : s.data.length < peek) (he : s.final ≠ Err.eof) :
    guessPeek peek s = .fatal := by
  unfold guessPeek readFull
  have : ¬ (peek ≤ s.data.length - 0) := by omega
  simp only [this, if_false]
  all_goals (cases hf : s.final <;> simp_all)

example : guessPeek 1048576 ⟨exData, .ueof⟩ = .fatal :=
  guessPeek_error_fatal _ _ (by decide) (by decide)

/-- a non-empty stream that ends cleanly is accepted by the format guesser -/
theorem guessPeek_clean_ok (peek : Nat) (s : Stream) (he : s.final = Err.eof) (hne : s.data ≠ []) :
    guessPeek peek s = .ok := by
  unfold guessPeek readFull
  simp only [Nat.sub_zero, List.drop_zero]
  by_cases h : peek ≤ s.data.length
  · simp [h]
  · simp [h, he, hne]

example : guessPeek 1048576 ⟨exData, .eof⟩ = .ok :=
  guessPeek_clean_ok _ _ rfl (by decide)

/-- a stream at least as long as the peek is accepted by the format guesser whatever its final error:
that error is then met by the chunk reader (`readChunks_error_fatal`) -/
theorem guessPeek_long_ok (peek : Nat) (s : Stream) (hlen : peek ≤ s.data.length) :
    guessPeek peek s = .ok := by
  unfold guessPeek readFull
  simp [hlen]

example : guessPeek 8 ⟨exData, .ueof⟩ = .ok := guessPeek_long_ok _ _ (by decide)

/-! ## `readFull` -/

/-- `readFull` returns the next `k` bytes of the stream (fewer if the stream ends), with no error iff
`k` bytes were available and with the final error of the stream otherwise: the size of the pieces in
which the bytes arrive is irrelevant -/
theorem readFull_spec (s : Stream) (pos k : Nat) (hpos : pos ≤ s.data.length) :
    (readFull s pos k).1 = (s.data.drop pos).take k ∧
    ((readFull s pos k).2 = none ↔ pos + k ≤ s.data.length) ∧
    (s.data.length < pos + k → (readFull s pos k).2 = some s.final) := by
  refine ⟨readFull_fst s pos k, ?_, ?_⟩
  · rw [readFull_snd]
    by_cases h : k ≤ s.data.length - pos
    · simp only [h, if_true, true_iff]; omega
    · simp only [h, if_false]
      constructor
      · intro h'; cases h'
      · intro h'; omega
  · intro h
    rw [readFull_snd]
    have : ¬ k ≤ s.data.length - pos := by omega
    simp [this]

/-- the number of bytes returned by `readFull` -/
theorem readFull_length (s : Stream) (pos k : Nat) :
    (readFull s pos k).1.length = min k (s.data.length - pos) := by
  rw [readFull_fst, List.length_take, List.length_drop]

example : readFull ⟨exData, .ueof⟩ 3 4 = ([97, 99, 10, 62], none) := by decide
example : readFull ⟨exData, .ueof⟩ 9 4 = ([103, 103, 10], some .ueof) := by decide
example : (readFull ⟨exData, .ueof⟩ 9 4).2 = some .ueof :=
  (readFull_spec ⟨exData, .ueof⟩ 9 4 (by decide)).2.2 (by decide)

/-! ## the chunk reader -/

/-- any read error other than a clean end of file is fatal, wherever in the stream it occurs and
whatever the buffer size: neither the fuel of the inner loop nor the fuel of the outer loop of the
model is exhausted before the final error of the stream has been seen -/
theorem readChunks_error_fatal (split : Bytes → Int) (bufsz : Nat) (s : Stream) (hb : 2 ≤ bufsz)
    (hs : SplitterOK split) (he : s.final ≠ Err.eof) :
    (readChunks split bufsz s).2 = Outcome.fatal := by
  obtain ⟨pairs, buff, _, _, h⟩ := readChunks_spec split bufsz s hb hs
  rw [h]
  cases hf : s.final
  · exact absurd hf he
  · rfl
  · rfl

/-- a stream that ends cleanly is read without error -/
theorem readChunks_clean_ok (split : Bytes → Int) (bufsz : Nat) (s : Stream) (hb : 2 ≤ bufsz)
    (hs : SplitterOK split) (he : s.final = Err.eof) :
    (readChunks split bufsz s).2 = Outcome.ok := by
  obtain ⟨pairs, buff, _, _, h⟩ := readChunks_spec split bufsz s hb hs
  rw [h, he]
  rfl

/-- the outcome of the chunk reader is fatal exactly when the stream does not end cleanly -/
theorem readChunks_fatal_iff (split : Bytes → Int) (bufsz : Nat) (s : Stream) (hb : 2 ≤ bufsz)
    (hs : SplitterOK split) :
    (readChunks split bufsz s).2 = Outcome.fatal ↔ s.final ≠ Err.eof := by
  constructor
  · intro h he
    rw [readChunks_clean_ok split bufsz s hb hs he] at h
    cases h
  · exact readChunks_error_fatal split bufsz s hb hs

/-- on a clean stream nothing is lost but end-of-line bytes: the stream is the concatenation of the
delivered chunks, each followed by `\n` / `\r` bytes only (the chunks that are empty once their
end-of-lines are stripped are not delivered) -/
theorem readChunks_no_loss (split : Bytes → Int) (bufsz : Nat) (s : Stream) (hb : 2 ≤ bufsz)
    (hs : SplitterOK split) (he : s.final = Err.eof) :
    ∃ pairs : List (Bytes × Bytes),
      (∀ p ∈ pairs, ∀ c ∈ p.2, c = 10 ∨ c = 13) ∧
      (readChunks split bufsz s).1 = (pairs.map Prod.fst).filter (fun c => decide (0 < c.length)) ∧
      s.data = (pairs.map (fun p => p.1 ++ p.2)).flatten := by
  obtain ⟨pairs, buff, h1, h2, h⟩ := readChunks_spec split bufsz s hb hs
  rw [h, he]
  by_cases hbuf : buff.length > 0
  · refine ⟨pairs ++ [(buff, [])], ?_, ?_, ?_⟩
    · apply EolsOnly_append h1
      intro p hp c hc
      simp only [List.mem_singleton] at hp
      subst hp
      simp at hc
    · have : chunksOf (pairs ++ [(buff, [])]) = chunksOf pairs ++ [buff] := by
        rw [chunksOf_append]; simp [chunksOf]; omega
      simp only [finish, hbuf, if_true]
      exact this.symm
    · have : joinPairs (pairs ++ [(buff, [])]) = joinPairs pairs ++ buff := by
        rw [joinPairs_append]; simp [joinPairs]
      exact (this.trans h2).symm
  · refine ⟨pairs, h1, ?_, ?_⟩
    · simp only [finish, hbuf, if_false]
      rfl
    · have : buff = [] := List.eq_nil_of_length_eq_zero (by omega)
      rw [this, List.append_nil] at h2
      exact h2.symm

/-- on a clean stream the delivered bytes are a subsequence of the stream: nothing is invented,
duplicated or reordered -/
theorem readChunks_sublist (split : Bytes → Int) (bufsz : Nat) (s : Stream) (hb : 2 ≤ bufsz)
    (hs : SplitterOK split) (he : s.final = Err.eof) :
    (readChunks split bufsz s).1.flatten.Sublist s.data := by
  obtain ⟨pairs, _, h2, h3⟩ := readChunks_no_loss split bufsz s hb hs he
  rw [h2, h3]
  exact chunksOf_flatten_sublist pairs

/-- on a clean stream every byte other than `\n` / `\r` is delivered, in order -/
theorem readChunks_content (split : Bytes → Int) (bufsz : Nat) (s : Stream) (hb : 2 ≤ bufsz)
    (hs : SplitterOK split) (he : s.final = Err.eof) :
    (readChunks split bufsz s).1.flatten.filter (fun c => !(c == 10 || c == 13)) =
      s.data.filter (fun c => !(c == 10 || c == 13)) := by
  obtain ⟨pairs, h1, h2, h3⟩ := readChunks_no_loss split bufsz s hb hs he
  rw [h2, h3]
  exact (chunksOf_filter pairs h1).symm

/-- whatever the final error, the chunks delivered before it account for a prefix of the stream -/
theorem readChunks_prefix (split : Bytes → Int) (bufsz : Nat) (s : Stream) (hb : 2 ≤ bufsz)
    (hs : SplitterOK split) :
    ∃ (pairs : List (Bytes × Bytes)) (rest : Bytes),
      (∀ p ∈ pairs, ∀ c ∈ p.2, c = 10 ∨ c = 13) ∧
      (readChunks split bufsz s).1 = (pairs.map Prod.fst).filter (fun c => decide (0 < c.length)) ∧
      s.data = (pairs.map (fun p => p.1 ++ p.2)).flatten ++ rest := by
  by_cases he : s.final = Err.eof
  · obtain ⟨pairs, h1, h2, h3⟩ := readChunks_no_loss split bufsz s hb hs he
    exact ⟨pairs, [], h1, h2, by rw [List.append_nil]; exact h3⟩
  · obtain ⟨pairs, buff, h1, h2, h⟩ := readChunks_spec split bufsz s hb hs
    refine ⟨pairs, buff, h1, ?_, h2.symm⟩
    rw [h]
    cases hf : s.final
    · exact absurd hf he
    · rfl
    · rfl

/-! ## the FASTA splitter of the model satisfies the contract -/

/-- `endOfLastFastaEntry` returns `-1` or an offset in `1 .. length-1` -/
theorem fasta_splitter_range (b : Bytes) :
    endOfLastFastaEntry b = -1 ∨ (1 ≤ endOfLastFastaEntry b ∧ endOfLastFastaEntry b < (b.length : Int)) :=
  fastaScan_inv b.toArray b.length (b.length + 1) b.length 0 0 (Nat.le_refl _)
    (fun h => by cases h) (fun h => by cases h)

theorem fasta_splitter_ok : SplitterOK endOfLastFastaEntry := by
  intro b
  rcases fasta_splitter_range b with h | ⟨h1, h2⟩
  · exact Or.inl h
  · exact Or.inr ⟨h1, by omega⟩

example : endOfLastFastaEntry exData = 6 := by decide
example : endOfLastFastaEntry [62, 97, 10] = -1 := by decide
example : endOfLastFastaEntry [10, 62, 97, 10] = 1 := by decide

/-! ## the theorems on the example stream, with the FASTA splitter -/

example : readChunks endOfLastFastaEntry 8 ⟨exData, .ueof⟩ =
    ([[62, 97, 10, 97, 99], [62, 98, 10, 103, 103]], .fatal) := by decide

example : (readChunks endOfLastFastaEntry 8 ⟨exData, .ueof⟩).2 = .fatal :=
  readChunks_error_fatal _ 8 ⟨exData, .ueof⟩ (by decide) fasta_splitter_ok (by decide)

example : (readChunks endOfLastFastaEntry 2 ⟨exData, .other⟩).2 = .fatal :=
  readChunks_error_fatal _ 2 ⟨exData, .other⟩ (by decide) fasta_splitter_ok (by decide)

example : readChunks endOfLastFastaEntry 8 ⟨exData, .eof⟩ =
    ([[62, 97, 10, 97, 99], [62, 98, 10, 103, 103]], .ok) := by decide

example : (readChunks endOfLastFastaEntry 8 ⟨exData, .eof⟩).2 = .ok :=
  readChunks_clean_ok _ 8 ⟨exData, .eof⟩ (by decide) fasta_splitter_ok rfl

/-- the decomposition of `readChunks_no_loss` on the example stream -/
example :
    let pairs : List (Bytes × Bytes) := [([62, 97, 10, 97, 99], [10]), ([62, 98, 10, 103, 103], [10])]
    (∀ p ∈ pairs, ∀ c ∈ p.2, c = 10 ∨ c = 13) ∧
    (readChunks endOfLastFastaEntry 8 ⟨exData, .eof⟩).1 =
      (pairs.map Prod.fst).filter (fun c => decide (0 < c.length)) ∧
    exData = (pairs.map (fun p => p.1 ++ p.2)).flatten := by decide

example : (readChunks endOfLastFastaEntry 8 ⟨exData, .eof⟩).1.flatten.Sublist exData :=
  readChunks_sublist _ 8 ⟨exData, .eof⟩ (by decide) fasta_splitter_ok rfl

/-- a stream shorter than the buffer that is cut by an error: fatal, nothing delivered -/
example : readChunks endOfLastFastaEntry 100 ⟨exData, .ueof⟩ = ([], .fatal) := by decide

/-- blank lines between records are dropped, and only they; the rest of the buffer pushed after the
clean end of file keeps its end-of-line -/
example : readChunks endOfLastFastaEntry 8 ⟨[62, 97, 10, 97, 10, 10, 13, 10, 62, 98, 10, 103, 10], .eof⟩ =
    ([[62, 97, 10, 97], [62, 98, 10, 103, 10]], .ok) := by decide

/-! ## the hypotheses are needed

Without them the Go loops do not terminate; the model then runs out of fuel and answers `ok`. -/

/-- a splitter that answers 0 (excluded by `SplitterOK`) never shortens the buffer -/
example : readChunks (fun _ => 0) 8 ⟨exData, .ueof⟩ = ([[62, 97, 10, 97, 99, 10, 62, 98]], .ok) := by decide

/-- with `bufsz = 1` the inner loop reads `bufsz - 1 = 0` bytes per turn and never meets the error -/
example : readChunks endOfLastFastaEntry 1 ⟨exData, .ueof⟩ = ([[62]], .ok) := by decide

/-! ## `ReadSequencesFromFile`: opener + format guesser + chunk reader on the same stream -/

/-- no read error can be turned into an accepted input, empty or not: whatever the position of the error
(before the first byte, inside the peek of the format guesser, after it), the peek size and the buffer
size, a stream that does not end cleanly is never accepted by `ReadSequencesFromFile` -/
theorem readFile_error_rejected (split : Bytes → Int) (peek bufsz : Nat) (s : Stream) (hb : 2 ≤ bufsz)
    (hs : SplitterOK split) (he : s.final ≠ Err.eof) :
    (readFile split peek bufsz s).accepted = false := by
  unfold readFile
  by_cases h0 : s.data.length = 0
  · simp [h0, he, FileOutcome.accepted]
  · simp only [h0, if_false]
    by_cases hp : peek ≤ s.data.length
    · rw [guessPeek_long_ok peek s hp]
      simp only [hp, if_true, FileOutcome.accepted]
      rw [readChunks_error_fatal split bufsz s hb hs he]
      rfl
    · rw [guessPeek_error_fatal peek s (by omega) he]
      rfl

/-- a read error is never taken for an empty file -/
theorem readFile_error_not_empty (split : Bytes → Int) (peek bufsz : Nat) (s : Stream) (he : s.final ≠ Err.eof) :
    readFile split peek bufsz s ≠ .empty := by
  unfold readFile
  by_cases h0 : s.data.length = 0
  · simp [h0, he]
  · simp only [h0, if_false]
    cases guessPeek peek s <;> simp

/-- a non-empty stream that ends cleanly is accepted -/
theorem readFile_clean_accepted (split : Bytes → Int) (peek bufsz : Nat) (s : Stream) (hb : 2 ≤ bufsz)
    (hs : SplitterOK split) (he : s.final = Err.eof) (hne : s.data ≠ []) :
    (readFile split peek bufsz s).accepted = true := by
  unfold readFile
  have h0 : ¬ s.data.length = 0 := by
    intro h; exact hne (List.eq_nil_of_length_eq_zero h)
  simp only [h0, if_false]
  rw [guessPeek_clean_ok peek s he hne]
  simp only [FileOutcome.accepted]
  have : (if peek ≤ s.data.length then s else ⟨s.data, .eof⟩ : Stream) = s := by
    split
    · rfl
    · cases s; simp_all
  rw [this, readChunks_clean_ok split bufsz s hb hs he]
  rfl

example : (readFile endOfLastFastaEntry 8 8 ⟨exData, .ueof⟩).accepted = false :=
  readFile_error_rejected _ 8 8 _ (by decide) fasta_splitter_ok (by decide)
example : (readFile endOfLastFastaEntry 1048576 8 ⟨exData, .other⟩).accepted = false :=
  readFile_error_rejected _ _ 8 _ (by decide) fasta_splitter_ok (by decide)
example : readFile endOfLastFastaEntry 8 8 ⟨[], .ueof⟩ = .fail := by decide
example : readFile endOfLastFastaEntry 8 8 ⟨[], .eof⟩ = .empty := by decide
example : (readFile endOfLastFastaEntry 100 8 ⟨exData, .eof⟩).accepted = true :=
  readFile_clean_accepted _ _ 8 _ (by decide) fasta_splitter_ok rfl (by decide)

/-! ## the C reader of the standard input: kseq.h over zlib (`Model/Kseq.lean`)

For every byte string, every buffer size, every content of the uninitialised kseq buffer (`junk`) and
whether or not zlib has already met the damage when `gzerror` is asked before the end of the stream
(`early`). -/

open ObiVerif.Kseq in
/-- a stream that zlib reports as truncated or corrupted is never read to a normal end … -/
theorem kseq_stream_error_never_ok (bufsz : Nat) (fin : Fin) (early : Bool) (junk : UInt8) (d : Kseq.Bytes)
    (hf : fin ≠ .clean) : (readAll bufsz fin early junk d).2 ≠ .ok :=
  readLoop_never_ok fin early hf _ _

open ObiVerif.Kseq in
/-- … it ends in `log.Fatalf` (the model's loop does not get stuck: every record consumes input) -/
theorem kseq_stream_error_fatal (bufsz : Nat) (fin : Fin) (early : Bool) (junk : UInt8) (d : Kseq.Bytes)
    (hf : fin ≠ .clean) : ∃ code, (readAll bufsz fin early junk d).2 = .fatal code := by
  have h1 := kseq_stream_error_never_ok bufsz fin early junk d hf
  have h2 : (readAll bufsz fin early junk d).2 ≠ .stuck := readLoop_not_stuck fin early _ _
  cases h : (readAll bufsz fin early junk d).2 with
  | ok => exact absurd h h1
  | stuck => exact absurd h h2
  | fatal c => exact ⟨c, rfl⟩

open ObiVerif.Kseq in
/-- the same from any state of the reader (any number of records already read, any buffer content) -/
theorem kseq_stream_error_fatal_from (fin : Fin) (early : Bool) (st : St) (acc : List Rec)
    (hf : fin ≠ .clean) : ∃ code, (readLoop fin early st acc).2 = .fatal code := by
  cases h : (readLoop fin early st acc).2 with
  | ok => exact absurd h (readLoop_never_ok fin early hf st acc)
  | stuck => exact absurd h (readLoop_not_stuck fin early st acc)
  | fatal c => exact ⟨c, rfl⟩

open ObiVerif.Kseq in
/-- a stream that ends cleanly is never refused for a stream error: the run ends normally, or on a record
whose quality is shorter than its sequence (-2) or that has no sequence (-4) -/
theorem kseq_clean_outcomes (bufsz : Nat) (early : Bool) (junk : UInt8) (d : Kseq.Bytes) :
    (readAll bufsz .clean early junk d).2 = .ok ∨ (readAll bufsz .clean early junk d).2 = .fatal (-2) ∨
    (readAll bufsz .clean early junk d).2 = .fatal (-4) :=
  readLoop_clean_outcomes early _ _

open ObiVerif.Kseq in
/-- on a clean stream the moment at which zlib could have seen an error is irrelevant -/
theorem kseq_clean_early_irrelevant (bufsz : Nat) (e1 e2 : Bool) (junk : UInt8) (d : Kseq.Bytes) :
    readAll bufsz .clean e1 junk d = readAll bufsz .clean e2 junk d :=
  readLoop_clean_early e1 e2 _ _

open ObiVerif.Kseq in
/-- `kseq_read` answers -1 only after a short or failed `gzread`, i.e. when `gzerror` knows the final
status of the stream: this is why `next_fast_sek` may trust `gzerror` exactly in that case -/
theorem kseq_minus_one_at_end (st : St) (h : (kseqRead st).1 = -1) : (kseqRead st).2.2.ks.isEof = true :=
  kseqRead_eof st h

open ObiVerif.Kseq in
/-- `next_fast_sek` answers 0 (regular end) only on a clean stream -/
theorem kseq_next_zero_clean (fin : Fin) (early : Bool) (st : St) (h : (nextFastSek fin early st).1 = 0) :
    fin = .clean := nextFastSek_zero_clean fin early st h

open ObiVerif.Kseq in
example : ∃ code, (readAll 4096 .trunc false 0 [62, 97, 10, 97, 99, 10, 62, 98, 10, 103]).2 = .fatal code :=
  kseq_stream_error_fatal _ _ _ _ _ (by decide)
open ObiVerif.Kseq in
example : ∃ code, (readAll 4 .hard true 7 [62, 97, 10, 97, 99, 10, 62, 98, 10, 103]).2 = .fatal code :=
  kseq_stream_error_fatal _ _ _ _ _ (by decide)

end ObiVerif.Props.C17
