import ObiVerif.Model.ReadErr
/-!
# C17 — truncated or corrupt compressed input is reported, never silently accepted (property theorems)
-/
namespace ObiVerif.Props.C17
open ObiVerif.ReadErr

/-- the format guesser refuses every stream shorter than its peek that ends with an error other than
a clean end of file -/
theorem guessPeek_error_fatal (peek : Nat) (s : Stream) (hlen : s.data.length < peek) (he : s.final ≠ Err.eof) :
    guessPeek peek s = .fatal := by
  unfold guessPeek readFull
  have : ¬ (peek ≤ s.data.length - 0) := by omega
  simp only [this, if_false]
  all_goals (cases hf : s.final <;> simp_all)

end ObiVerif.Props.C17
