import ObiVerif.Model.ReadMulti
import ObiVerif.Lemmas.ReadMulti
import ObiVerif.Props.C17
/-!
# C17 — multi-member gzip files and concatenated bzip2 / xz / zstd streams (property theorems)

`Model/ReadMulti.lean`: the libraries decode the members in turn and report the error that stops them where it is
met — inside a member or **at a member boundary** (`LibErr.header`: the identification bytes of the next member
are damaged, or garbage follows the last member); `Buf` (xopen.go) hands that error on unchanged.  For every list
of members, every position of the failing member, every error other than a clean end, every peek size, every
buffer size ≥ 2 and every well-behaved splitter:
-/
namespace ObiVerif.Props.C17Multi
open ObiVerif.ReadErr ObiVerif.Props.C17

/-- the opener never turns an error of the decoder into a clean end of file, and a clean end stays one -/
theorem buf_error_preserved (e : LibErr) : bufErr e = Err.eof ↔ e = LibErr.eof := bufErr_eof_iff e

/-- **an error of any member is fatal**: complete members `pre`, then a member on which the decoder stops with
an error `e` other than a clean end (whatever it delivered of it), then anything: `ReadSequencesFromFile` does
not accept the file — the records of the members decoded so far are never a successful run -/
theorem multi_error_rejected (split : Bytes → Int) (peek bufsz : Nat) (hb : 2 ≤ bufsz) (hs : SplitterOK split)
    (pre : List Member) (m : Member) (post : List Member) (e : LibErr)
    (hpre : ∀ x ∈ pre, x.err = none) (hm : m.err = some e) (he : e ≠ .eof) :
    (readMulti split peek bufsz (pre ++ m :: post)).accepted = false := by
  unfold readMulti
  apply readFile_error_rejected split peek bufsz _ hb hs
  have h : (decodeMembers (pre ++ m :: post)).2 = e :=
    (decodeMembers_err _ e he).2 ⟨pre, m, post, rfl, hpre, hm⟩
  simp only [memberStream, h]
  intro hc
  exact he ((bufErr_eof_iff e).1 hc)

/-- **an error reported at a member boundary is not the end of the file**: the decoder finds no valid header
where member `pre.length + 1` should start (damaged identification bytes of a member other than the first,
garbage after the last member) and delivers nothing more: the file is refused, not read as the complete file
made of the members `pre` -/
theorem multi_boundary_error_rejected (split : Bytes → Int) (peek bufsz : Nat) (hb : 2 ≤ bufsz)
    (hs : SplitterOK split) (pre post : List Member) (hpre : ∀ x ∈ pre, x.err = none) :
    (readMulti split peek bufsz (pre ++ ⟨[], some .header⟩ :: post)).accepted = false :=
  multi_error_rejected split peek bufsz hb hs pre ⟨[], some .header⟩ post .header hpre rfl (by decide)

/-- … and it is not taken for an empty file either (the first member damaged) -/
theorem multi_error_not_empty (split : Bytes → Int) (peek bufsz : Nat)
    (pre : List Member) (m : Member) (post : List Member) (e : LibErr)
    (hpre : ∀ x ∈ pre, x.err = none) (hm : m.err = some e) (he : e ≠ .eof) :
    readMulti split peek bufsz (pre ++ m :: post) ≠ .empty := by
  unfold readMulti
  apply readFile_error_not_empty
  have h : (decodeMembers (pre ++ m :: post)).2 = e :=
    (decodeMembers_err _ e he).2 ⟨pre, m, post, rfl, hpre, hm⟩
  simp only [memberStream, h]
  intro hc
  exact he ((bufErr_eof_iff e).1 hc)

/-- **exit 0 only with all the members**: when the file is accepted and the library does not itself stop
silently on a member (`some .eof`, the known findings D22x / D22z), every member is complete, the stream read
is the concatenation of the data of ALL the members, it ends cleanly … -/
theorem multi_accepted_all_members (split : Bytes → Int) (peek bufsz : Nat) (hb : 2 ≤ bufsz)
    (hs : SplitterOK split) (ms : List Member) (hlib : ∀ m ∈ ms, m.err ≠ some .eof)
    (hacc : (readMulti split peek bufsz ms).accepted = true) :
    (∀ m ∈ ms, m.err = none) ∧ memberStream ms = ⟨(ms.map Member.data).flatten, .eof⟩ := by
  have hfin : (decodeMembers ms).2 = .eof := by
    by_cases h : (decodeMembers ms).2 = .eof
    · exact h
    · exfalso
      have hne : (memberStream ms).final ≠ Err.eof := by
        simp only [memberStream]
        intro hc
        exact h ((bufErr_eof_iff _).1 hc)
      have := readFile_error_rejected split peek bufsz (memberStream ms) hb hs hne
      unfold readMulti at hacc
      rw [this] at hacc
      cases hacc
  have hall : ∀ m ∈ ms, m.err = none := by
    rcases decodeMembers_eof ms hfin with h | ⟨m, hm, hme⟩
    · exact h
    · exact absurd hme (hlib m hm)
  refine ⟨hall, ?_⟩
  simp only [memberStream, decodeMembers_complete ms hall]
  rfl

/-- … and every byte of every member other than `\n` / `\r` reaches the format parsers, in order -/
theorem multi_accepted_content (split : Bytes → Int) (peek bufsz : Nat) (hb : 2 ≤ bufsz)
    (hs : SplitterOK split) (ms : List Member) (hlib : ∀ m ∈ ms, m.err ≠ some .eof)
    (r : List Bytes × Outcome) (hr : readMulti split peek bufsz ms = .read r) (hok : r.2 = .ok) :
    r.1.flatten.filter (fun c => !(c == 10 || c == 13)) =
      (ms.map Member.data).flatten.filter (fun c => !(c == 10 || c == 13)) := by
  have hacc : (readMulti split peek bufsz ms).accepted = true := by
    rw [hr]; simp [FileOutcome.accepted, hok]
  obtain ⟨_, hst⟩ := multi_accepted_all_members split peek bufsz hb hs ms hlib hacc
  unfold readMulti readFile at hr
  rw [hst] at hr
  simp only at hr
  split at hr
  · split at hr <;> cases hr
  · split at hr
    · cases hr
    · have hs' : (if peek ≤ ((ms.map Member.data).flatten).length then
          (⟨(ms.map Member.data).flatten, Err.eof⟩ : Stream) else ⟨(ms.map Member.data).flatten, .eof⟩) =
          ⟨(ms.map Member.data).flatten, .eof⟩ := by split <;> rfl
      rw [hs'] at hr
      injection hr with hr
      rw [← hr]
      exact readChunks_content split bufsz ⟨(ms.map Member.data).flatten, .eof⟩ hb hs rfl

/-- the executable model rebuilds the members from the sizes of the members and the verdict of the library on
the whole file; whatever the sizes, it then decides on the stream "`n` bytes, then `e`" -/
theorem membersOf_stream (fill : UInt8) (sizes : List Nat) (n : Nat) (e : LibErr) :
    memberStream (membersOf fill sizes n e) = ⟨List.replicate n fill, bufErr e⟩ := by
  simp only [memberStream, decodeMembers_membersOf]

/-! ## examples: three members `>a\nac\n`, `>b\ngg\n`, `>c\nt\n` -/

def m1 : Member := ⟨[62, 97, 10, 97, 99, 10], none⟩
def m2 : Member := ⟨[62, 98, 10, 103, 103, 10], none⟩
def m3 : Member := ⟨[62, 99, 10, 116, 10], none⟩

/-- the intact file: accepted, the three records -/
example : readMulti endOfLastFastaEntry 64 8 [m1, m2, m3] =
    .read ([[62, 97, 10, 97, 99], [62, 98, 10, 103, 103], [62, 99, 10, 116]], .ok) := by decide

/-- the identification bytes of the second member damaged (the decoder answers `gzip.ErrHeader` after the first
member): refused, by the peek of the format guesser (small file) … -/
example : readMulti endOfLastFastaEntry 64 8 [m1, ⟨[], some .header⟩, m3] = .fail := by decide
/-- … or by the chunk reader (file longer than the peek) -/
example : readMulti endOfLastFastaEntry 4 8 [m1, ⟨[], some .header⟩, m3] = .read ([], .fatal) := by decide
example : (readMulti endOfLastFastaEntry 4 8 ([m1] ++ ⟨[], some .header⟩ :: [m3])).accepted = false :=
  multi_boundary_error_rejected _ 4 8 (by decide) fasta_splitter_ok [m1] [m3] (by decide)
/-- garbage after the last member -/
example : (readMulti endOfLastFastaEntry 64 8 ([m1, m2, m3] ++ ⟨[], some .header⟩ :: [])).accepted = false :=
  multi_boundary_error_rejected _ 64 8 (by decide) fasta_splitter_ok [m1, m2, m3] [] (by decide)
/-- the third member cut: two complete members, then `io.ErrUnexpectedEOF` -/
example : (readMulti endOfLastFastaEntry 64 8 ([m1, m2] ++ ⟨[62, 99], some .ueof⟩ :: [])).accepted = false :=
  multi_error_rejected _ 64 8 (by decide) fasta_splitter_ok [m1, m2] ⟨[62, 99], some .ueof⟩ [] .ueof
    (by decide) rfl (by decide)
/-- the hypothesis `hlib` of `multi_accepted_all_members` is needed: a library that stops silently after the
first member (D22x, D22z) makes the toolkit accept one record of three -/
example : readMulti endOfLastFastaEntry 64 8 [m1, ⟨[], some .eof⟩, m3] = .read ([[62, 97, 10, 97, 99]], .ok) := by
  decide
example : (∀ m ∈ [m1, m2, m3], m.err = none) ∧
    memberStream [m1, m2, m3] = ⟨([m1, m2, m3].map Member.data).flatten, .eof⟩ :=
  multi_accepted_all_members endOfLastFastaEntry 64 8 (by decide) fasta_splitter_ok [m1, m2, m3] (by decide) (by decide)
example : membersOf 62 [6, 6, 5] 6 .header =
    [⟨List.replicate 6 62, none⟩, ⟨[], some .header⟩] := by decide

end ObiVerif.Props.C17Multi
