import ObiVerif.Lemmas.Header
import ObiVerif.Lemmas.Json
import ObiVerif.Lemmas.FastqMany
import ObiVerif.Lemmas.HeaderRefine
import ObiVerif.Lemmas.HeaderManyFq
import ObiVerif.Lemmas.JsonNum
import ObiVerif.Model.ObiHeader
/-!
# C02 — write then read round-trips records unchanged (FASTA/FASTQ + JSON header)

Property theorems on the model `ObiVerif.Model.Header` (tied to `/repo` by the correspondence check of
`harness/c02.go`).  First part: theorems for any JSON library satisfying the contract `JsonLib.OKat`; second part
(`…_json`): the contract is proved for the model of goccy/go-json (`Model/Json.lean`), which makes them unconditional.
-/
namespace ObiVerif.Props.C02
open ObiVerif.Header
open ObiVerif.JsonTok hiding Bytes

/-- **The scanner finds the object.** For every token list that forms one balanced object whose string bodies
    are properly escaped (unbounded nesting, any bytes — quotes, backslashes, braces — inside strings) and
    for every text following it on the title line, the scanner of `_parse_json_header_` returns exactly the
    span of the object. -/
theorem scan_finds_object (ts : List Tok) (hb : BalancedObj ts) (rest : Bytes) :
    scanJson (flat ts ++ rest) = some (0, (flat ts).length) :=
  scan_finds_object_aux ts hb rest

/-- non-vacuity, on the very title line that kills the unrepaired scanner: `{"k":"x\"}y"}` -/
example : BalancedObj [.opn, .str [107], .other 58, .str [120, 92, 34, 125, 121], .cls] := by
  refine ⟨_, rfl, ?_, by simp [ClosesAt]⟩
  intro t ht
  simp only [List.mem_cons, List.not_mem_nil, or_false] at ht
  rcases ht with rfl | rfl | rfl | rfl
  · exact EscOK.plain _ _ (by decide) (by decide) EscOK.nil
  · exact ⟨by decide, by decide, by decide⟩
  · apply EscOK.plain _ _ (by decide) (by decide)
    apply EscOK.esc
    apply EscOK.plain _ _ (by decide) (by decide)
    exact EscOK.plain _ _ (by decide) (by decide) EscOK.nil
  · trivial

/-- test (one input): the repaired scanner on `{"k":"x\"}y"} def` returns the 13 bytes of the object -/
example : scanJson ([123, 34, 107, 34, 58, 34, 120, 92, 34, 125, 121, 34, 125] ++ [32, 100, 101, 102]) = some (0, 13) := by
  decide

/-- counterexample (the defect that was repaired): without the escape rule, on `{"k":"x\"}y"}` the scanner
    hands the truncated span `{"k":"x\"}` to the JSON decoder (→ `log.Fatalf`) … -/
theorem unrepaired_scanner_cuts_object :
    scanJsonOld [123, 34, 107, 34, 58, 34, 120, 92, 34, 125, 121, 34, 125] = some (0, 10) := by decide

/-- … and on `{"a":"\"","b":1}` it never closes the object: the annotations are silently dropped -/
theorem unrepaired_scanner_loses_object :
    scanJsonOld [123, 34, 97, 34, 58, 34, 92, 34, 34, 44, 34, 98, 34, 58, 49, 125] = none := by decide

/-- **Folding.** Unfolding (what states 5/6 of the FASTA parser do to the sequence lines) the 60-column folding
    of `FormatFasta` gives the sequence back, for every length. -/
theorem fold_unfold (s : Bytes) (hA : ∀ c ∈ s, seqOK c = true) : unfold (fold60 s) = s := by
  unfold unfold
  rw [fold60_filter, unfold_id s hA]

/-- test (lengths around the folding width): 59, 60, 61, 120, 121 -/
example : ∀ n ∈ [1, 59, 60, 61, 120, 121], unfold (fold60 (List.replicate n 97)) = List.replicate n 97 := by
  decide

/-- **Qualities.** For every quality byte and every shift, reading with the shift it was written with returns the
    clamped value — the value itself on the stated range 0..93. -/
theorem qual_roundtrip (q sh : UInt8) : readQ sh (writeQ sh q) = min q 93 := by
  simp only [readQ, writeQ]
  rw [UInt8.add_sub_cancel, clamp_eq_min]

theorem qual_roundtrip_range (q sh : UInt8) (h : q ≤ 93) : readQ sh (writeQ sh q) = q := by
  rw [qual_roundtrip]; exact Std.LawfulOrderLeftLeaningMin.min_eq_left q 93 h

/-- reading with another shift than the one used for writing never gives the value back -/
theorem qual_shift_mismatch (q shIn shOut : UInt8) (h : shIn ≠ shOut) :
    readQ shIn (writeQ shOut q) ≠ min q 93 := by
  simp only [readQ, writeQ, clamp_eq_min]
  intro e
  apply h
  have := congrArg UInt8.toNat e
  simp [UInt8.toNat_add, UInt8.toNat_sub] at this
  apply UInt8.toNat_inj.mp
  have h1 := shIn.toNat_lt
  have h2 := shOut.toNat_lt
  have h3 := (min q 93).toNat_lt
  omega

/-- **Title line.** `id ++ " " ++ info` is split back into `id` and `info` whenever the identifier has no blank
    and `info` does not start with a blank (it is empty or starts with `{`). -/
theorem title_roundtrip (id info : Bytes) (hid : ∀ c ∈ id, isSep c = false)
    (hinfo : ∀ c, info.head? = some c → isSpace c = false) :
    splitTitle (writeTitle id info) = (id, info) :=
  splitTitle_writeTitle id info hid hinfo

example : splitTitle (writeTitle [115, 49] [123, 125]) = ([115, 49], [123, 125]) := by decide

/-! ## composed theorems: the real state machines on what the real writers print

`J.OKat (ann, defn)` is the contract of goccy/go-json on the annotations of the record (hypothesis, validated by
the harness on every generated map): the encoder prints one balanced, properly escaped object on one line, and
`Unmarshal (Marshal a) = a` by value.  `J.OK` = the contract for every value.
`WF r`: identifier non-empty without blank, sequence non-empty over the parser alphabet. -/

/-- **Header round trip.** Formatting annotations (and definition) with `FormatFastSeqJsonHeader` and parsing the
    result with `ParseFastSeqJsonHeader` (scanner + library) gives them back, with an empty remainder. -/
theorem header_roundtrip {α : Type} [DecidableEq α] (J : JsonLib α) (ann : α) (defn : Option Bytes)
    (hJ : J.OKat (ann, defn)) :
    parseFastSeqJsonHeader J.empty (J.lib (info J ann defn)) (info J ann defn) = some ⟨ann, defn⟩ :=
  header_roundtrip_aux J ann defn hJ

/-- **Re-parsing a formatted header never changes or loses annotations**, for any title line `t` the parser
    accepts: what was parsed from `t`, once formatted, is parsed as the same annotations and definition. -/
theorem reparse_lossless {α : Type} [DecidableEq α] (J : JsonLib α) (hJ : J.OK) (t : Bytes) (p : Parsed α)
    (_accepted : parseFastSeqJsonHeader J.empty (J.lib t) t = some p) :
    parseFastSeqJsonHeader J.empty (J.lib (info J p.ann p.defn)) (info J p.ann p.defn) = some p :=
  header_roundtrip_aux J p.ann p.defn (hJ _)

/-- **FASTA: write then read** — `FormatFastaBatch` → `FastaChunkParser` (the 7-state machine) →
    `ParseFastSeqJsonHeader` returns the record (FASTA carries no qualities), for every sequence length. -/
theorem write_read_fasta {α : Type} [DecidableEq α] (J : JsonLib α) (r : Record α)
    (hJ : J.OKat (r.ann, r.defn)) (h : WF r) :
    readFasta J (writeFasta J r) = some [{ r with qual := none }] :=
  write_read_fasta_aux J r hJ h

/-- **FASTQ: write then read** — `FormatFastqBatch` → `FastqChunkParser` (the 12-state machine, qualities kept) →
    `ParseFastSeqJsonHeader` returns the record with its qualities clamped to 93 (unchanged on 0..93;
    40 everywhere when the record had none), for the two quality offsets 33 and 64. -/
theorem write_read_fastq {α : Type} [DecidableEq α] (J : JsonLib α) (sh : UInt8)
    (hsh : sh = 33 ∨ sh = 64) (r : Record α) (hJ : J.OKat (r.ann, r.defn)) (h : WF r)
    (hq : (qualities r.seq r.qual).length = r.seq.length) :
    readFastq J sh (writeFastq J sh r)
      = some [{ r with qual := some ((qualities r.seq r.qual).map (fun q => min q 93)) }] :=
  write_read_fastq_aux J sh (shiftOK_33_64 sh hsh) r hJ h hq

/-- **FASTA: any non-empty set of records.** What `FormatFastaBatch` prints for a list of records is read back by
    `FastaChunkParser` + `ParseFastSeqJsonHeader` as exactly these records, in order; hence writing the re-read
    records gives the same bytes. (FASTQ: `write_read_fastq_many` below; record framing across chunks is
    property C01.) -/
theorem write_read_fasta_many {α : Type} [DecidableEq α] (J : JsonLib α) (r : Record α) (rs : List (Record α))
    (hJ : ∀ x ∈ r :: rs, J.OKat (x.ann, x.defn)) (h : ∀ x ∈ r :: rs, WF x) :
    readFasta J ((r :: rs).map (writeFasta J)).flatten = some ((r :: rs).map (fun x => { x with qual := none })) :=
  write_read_fasta_many_aux J r rs hJ h

theorem write_read_write_fixed_fasta_many {α : Type} [DecidableEq α] (J : JsonLib α) (r : Record α)
    (rs : List (Record α)) (hJ : ∀ x ∈ r :: rs, J.OKat (x.ann, x.defn)) (h : ∀ x ∈ r :: rs, WF x) :
    ∃ back, readFasta J ((r :: rs).map (writeFasta J)).flatten = some back
      ∧ (back.map (writeFasta J)).flatten = ((r :: rs).map (writeFasta J)).flatten :=
  ⟨_, write_read_fasta_many_aux J r rs hJ h, by rw [List.map_map]; rfl⟩

/-- **FASTQ: any set of records in one chunk** (offsets 33 and 64): what `FormatFastqBatch` prints for a list of
    records is read back by `FastqChunkParser` (the 12-state machine, `_storeSequenceQuality` on the last record at
    every quality line) + `ParseFastSeqJsonHeader` as exactly these records, in order, qualities clamped at 93. -/
theorem write_read_fastq_many {α : Type} [DecidableEq α] (J : JsonLib α) (sh : UInt8) (hsh : sh = 33 ∨ sh = 64)
    (rs : List (Record α)) (hJ : ∀ x ∈ rs, J.OKat (x.ann, x.defn)) (h : ∀ x ∈ rs, WF x)
    (hq : ∀ x ∈ rs, (qualities x.seq x.qual).length = x.seq.length) :
    readFastq J sh (rs.map (writeFastq J sh)).flatten
      = some (rs.map (fun x => { x with qual := some ((qualities x.seq x.qual).map (fun q => min q 93)) })) :=
  write_read_fastq_many_aux J sh (shiftOK_33_64 sh hsh) rs hJ h hq

theorem write_read_write_fixed_fastq_many {α : Type} [DecidableEq α] (J : JsonLib α) (sh : UInt8)
    (hsh : sh = 33 ∨ sh = 64) (rs : List (Record α)) (hJ : ∀ x ∈ rs, J.OKat (x.ann, x.defn)) (h : ∀ x ∈ rs, WF x)
    (hq : ∀ x ∈ rs, (qualities x.seq x.qual).length = x.seq.length) :
    ∃ back, readFastq J sh (rs.map (writeFastq J sh)).flatten = some back
      ∧ (back.map (writeFastq J sh)).flatten = (rs.map (writeFastq J sh)).flatten := by
  refine ⟨_, write_read_fastq_many_aux J sh (shiftOK_33_64 sh hsh) rs hJ h hq, ?_⟩
  rw [List.map_map]
  congr 1
  apply List.map_congr_left
  intro x hx
  exact write_fastq_clamped J sh x (h x hx).seq_ne (hq x hx)

/-- **Write-after-read is a fixed point** (FASTA): the re-read record is written as the same bytes. -/
theorem write_read_write_fixed_fasta {α : Type} [DecidableEq α] (J : JsonLib α) (r : Record α)
    (hJ : J.OKat (r.ann, r.defn)) (h : WF r) :
    ∃ r', readFasta J (writeFasta J r) = some [r'] ∧ writeFasta J r' = writeFasta J r :=
  ⟨_, write_read_fasta_aux J r hJ h, rfl⟩

/-- **Write-after-read is a fixed point** (FASTQ, both offsets). -/
theorem write_read_write_fixed_fastq {α : Type} [DecidableEq α] (J : JsonLib α) (sh : UInt8)
    (hsh : sh = 33 ∨ sh = 64) (r : Record α) (hJ : J.OKat (r.ann, r.defn)) (h : WF r)
    (hq : (qualities r.seq r.qual).length = r.seq.length) :
    ∃ r', readFastq J sh (writeFastq J sh r) = some [r'] ∧ writeFastq J sh r' = writeFastq J sh r :=
  ⟨_, write_read_fastq_aux J sh (shiftOK_33_64 sh hsh) r hJ h hq, write_fastq_clamped J sh r h.seq_ne hq⟩

/-! non-vacuity of the hypotheses: a toy codec satisfying the contract on a non-empty annotation value
    (printed as `{}`), and a well-formed record carrying it with a 61-base sequence -/

def toyLib : JsonLib Bool where
  empty := false
  marshal := fun _ => [123, 125]
  unmarshal := fun b => if b = [123, 125] then some (true, none) else none

def r0 : Record Bool := ⟨[115, 49], List.replicate 61 97, some (List.replicate 61 93), true, none⟩

/-- the hypotheses of `write_read_fastq` / `write_read_write_fixed_fastq` are satisfiable -/
example : ∃ r', readFastq toyLib 33 (writeFastq toyLib 33 r0) = some [r']
    ∧ writeFastq toyLib 33 r' = writeFastq toyLib 33 r0 := by
  have hJ : toyLib.OKat (r0.ann, r0.defn) :=
    { balanced := ⟨[.opn, .cls], rfl, _, rfl, by intro t ht; simp at ht; subst ht; trivial, by simp [ClosesAt]⟩
      oneLine := by decide
      roundtrip := by decide }
  have hW : WF r0 :=
    { id_ne := by decide, id_noBlank := by decide, seq_ne := by decide, seq_ok := by decide }
  exact write_read_write_fixed_fastq toyLib 33 (Or.inl rfl) r0 hJ hW (by decide)

/-! ## the JSON encoder / decoder modelled: the contract of go-json becomes a theorem

`ObiVerif.Json` (`Model/Json.lean`) is a model of what goccy/go-json prints and reads on the value universe of the
property: strings of any bytes (escapes of `"`, `\`, control characters, U+2028/9), numbers as decimal literals,
booleans, `null`, lists and maps nested without bound; a map is its members in the order the encoder prints them.
`goJson : JsonLib JMems` is the library as the title-line code uses it.  `AnnOK a`: every number literal inside `a`
obeys the JSON grammar and `a` has no member `definition` (it is kept apart in the record). -/

open ObiVerif.Json

/-- **decode ∘ encode = id**: every object (strings with quotes, backslashes, braces, control characters, any UTF-8;
    numbers; booleans; nested maps and lists of any depth) printed by the encoder is read back as itself. -/
theorem json_decode_encode (m : JMems) (hm : m.WF = true) : decodeObj (encodeObj m) = some m :=
  decodeObj_encodeObj m hm

/-- **the encoder always prints one balanced, properly escaped object** … -/
theorem json_encode_balanced (m : JMems) (hm : m.WF = true) : ∃ ts, encodeObj m = flat ts ∧ BalancedObj ts :=
  encodeObj_balanced m hm

/-- … **on one line** -/
theorem json_encode_oneLine (m : JMems) (hm : m.WF = true) : ∀ c ∈ encodeObj m, isEol c = false :=
  encodeObj_oneLine m hm

/-- hence **the scanner of `_parse_json_header_` finds every encoded object, whatever follows it** — no hypothesis
    on the text left -/
theorem scan_finds_encoded (m : JMems) (hm : m.WF = true) (rest : Bytes) :
    scanJson (encodeObj m ++ rest) = some (0, (encodeObj m).length) := by
  obtain ⟨ts, h1, h2⟩ := encodeObj_balanced m hm
  rw [h1]; exact scan_finds_object ts h2 rest

/-- the hostile witness of the repaired defect, as a value: `{"k":"x\"}y"}` is what the encoder prints for k ↦ `x"}y` -/
example : encodeObj (.cons [107] (.str [120, 34, 125, 121]) .nil)
    = [123, 34, 107, 34, 58, 34, 120, 92, 34, 125, 121, 34, 125] := by decide

/-- **go-json satisfies the contract** that the composed theorems above take as hypothesis -/
theorem goJson_contract (a : JMems) (d : Option Bytes) (h : AnnOK a) : goJson.OKat (a, d) := goJson_OKat a d h

/-- **Header round trip, unconditional** -/
theorem header_roundtrip_json (ann : JMems) (defn : Option Bytes) (hA : AnnOK ann) :
    parseFastSeqJsonHeader goJson.empty (goJson.lib (info goJson ann defn)) (info goJson ann defn) = some ⟨ann, defn⟩ :=
  header_roundtrip_aux goJson ann defn (goJson_OKat ann defn hA)

/-- **Re-parsing a formatted header never changes or loses annotations, unconditional**: for *any* title line `t`
    the parser accepts (any bytes: no hypothesis on `t`), what was parsed, once formatted, is parsed as the same
    annotations and definition. -/
theorem reparse_lossless_json (t : Bytes) (p : Parsed JMems)
    (accepted : parseFastSeqJsonHeader goJson.empty (goJson.lib t) t = some p) :
    parseFastSeqJsonHeader goJson.empty (goJson.lib (info goJson p.ann p.defn)) (info goJson p.ann p.defn) = some p :=
  header_roundtrip_aux goJson p.ann p.defn (goJson_OKat _ _ (parsed_AnnOK t p accepted))

/-- test (one input): the title line `{"a":"\u00e9\/","b":[1.50,null]} x` is accepted -/
example : (parseFastSeqJsonHeader goJson.empty (goJson.lib
      [123,34,97,34,58,34,92,117,48,48,101,57,92,47,34,44,34,98,34,58,91,49,46,53,48,44,110,117,108,108,93,125,32,120])
      [123,34,97,34,58,34,92,117,48,48,101,57,92,47,34,44,34,98,34,58,91,49,46,53,48,44,110,117,108,108,93,125,32,120]).isSome
    = true := by decide

/-- **FASTA: write then read, unconditional** — arbitrary annotation values -/
theorem write_read_fasta_json (r : Record JMems) (hA : AnnOK r.ann) (h : WF r) :
    readFasta goJson (writeFasta goJson r) = some [{ r with qual := none }] :=
  write_read_fasta_aux goJson r (goJson_OKat _ _ hA) h

/-- **FASTQ: write then read, unconditional** (offsets 33 and 64) -/
theorem write_read_fastq_json (sh : UInt8) (hsh : sh = 33 ∨ sh = 64) (r : Record JMems) (hA : AnnOK r.ann) (h : WF r)
    (hq : (qualities r.seq r.qual).length = r.seq.length) :
    readFastq goJson sh (writeFastq goJson sh r)
      = some [{ r with qual := some ((qualities r.seq r.qual).map (fun q => min q 93)) }] :=
  write_read_fastq_aux goJson sh (shiftOK_33_64 sh hsh) r (goJson_OKat _ _ hA) h hq

/-- **FASTA: any non-empty set of records, unconditional** -/
theorem write_read_fasta_many_json (r : Record JMems) (rs : List (Record JMems))
    (hA : ∀ x ∈ r :: rs, AnnOK x.ann) (h : ∀ x ∈ r :: rs, WF x) :
    readFasta goJson ((r :: rs).map (writeFasta goJson)).flatten
      = some ((r :: rs).map (fun x => { x with qual := none })) :=
  write_read_fasta_many_aux goJson r rs (fun x hx => goJson_OKat _ _ (hA x hx)) h

/-- **FASTQ: any set of records in one chunk, unconditional** -/
theorem write_read_fastq_many_json (sh : UInt8) (hsh : sh = 33 ∨ sh = 64) (rs : List (Record JMems))
    (hA : ∀ x ∈ rs, AnnOK x.ann) (h : ∀ x ∈ rs, WF x)
    (hq : ∀ x ∈ rs, (qualities x.seq x.qual).length = x.seq.length) :
    readFastq goJson sh (rs.map (writeFastq goJson sh)).flatten
      = some (rs.map (fun x => { x with qual := some ((qualities x.seq x.qual).map (fun q => min q 93)) })) :=
  write_read_fastq_many_aux goJson sh (shiftOK_33_64 sh hsh) rs (fun x hx => goJson_OKat _ _ (hA x hx)) h hq

/-- **write-after-read is a fixed point, unconditional** (FASTA / FASTQ) -/
theorem write_read_write_fixed_fasta_json (r : Record JMems) (hA : AnnOK r.ann) (h : WF r) :
    ∃ r', readFasta goJson (writeFasta goJson r) = some [r'] ∧ writeFasta goJson r' = writeFasta goJson r :=
  write_read_write_fixed_fasta goJson r (goJson_OKat _ _ hA) h

theorem write_read_write_fixed_fastq_json (sh : UInt8) (hsh : sh = 33 ∨ sh = 64) (r : Record JMems)
    (hA : AnnOK r.ann) (h : WF r) (hq : (qualities r.seq r.qual).length = r.seq.length) :
    ∃ r', readFastq goJson sh (writeFastq goJson sh r) = some [r'] ∧ writeFastq goJson sh r' = writeFastq goJson sh r :=
  write_read_write_fixed_fastq goJson sh hsh r (goJson_OKat _ _ hA) h hq

/-- **Header parser selection.** `ParseGuessedFastSeqHeader` on what the writers print is `ParseFastSeqJsonHeader`
    (`hobi`: the OBI-format parser, outside this property, leaves a record without definition alone), so the round
    trips hold for the guessed parser too. -/
theorem guessed_is_json {α : Type} [DecidableEq α] (J : JsonLib α) (obi : Bytes → Option (Parsed α))
    (hobi : obi [] = some ⟨J.empty, none⟩) (ann : α) (defn : Option Bytes) (hJ : J.OKat (ann, defn)) :
    parseGuessed obi J.empty (J.lib (info J ann defn)) (info J ann defn)
      = parseFastSeqJsonHeader J.empty (J.lib (info J ann defn)) (info J ann defn) :=
  parseGuessed_info J obi hobi ann defn hJ

theorem write_read_fasta_guessed_json (obi : Bytes → Option (Parsed JMems)) (hobi : obi [] = some ⟨.nil, none⟩)
    (r : Record JMems) (hA : AnnOK r.ann) (h : WF r) :
    readFastaG goJson obi (writeFasta goJson r) = some [{ r with qual := none }] :=
  write_read_fastaG_aux goJson obi hobi r (goJson_OKat _ _ hA) h

theorem write_read_fastq_guessed_json (obi : Bytes → Option (Parsed JMems)) (hobi : obi [] = some ⟨.nil, none⟩)
    (sh : UInt8) (hsh : sh = 33 ∨ sh = 64) (r : Record JMems) (hA : AnnOK r.ann) (h : WF r)
    (hq : (qualities r.seq r.qual).length = r.seq.length) :
    readFastqG goJson obi sh (writeFastq goJson sh r)
      = some [{ r with qual := some ((qualities r.seq r.qual).map (fun q => min q 93)) }] :=
  write_read_fastqG_aux goJson obi hobi sh (shiftOK_33_64 sh hsh) r (goJson_OKat _ _ hA) h hq

/-- non-vacuity: a record whose annotations hold a hostile string, a float literal, a nested map and a list, a
    definition, a 61-base sequence -/
def rJ : Record JMems :=
  ⟨[115, 49], List.replicate 61 97, some (List.replicate 61 93),
   .cons [107] (.str [120, 34, 125, 121, 10, 226, 128, 168]) (.cons [110] (.num [45, 49, 46, 53, 101, 43, 50, 49])
     (.cons [109] (.obj (.cons [123] (.arr (.cons (.num [49]) (.cons (.bool true) .nil))) .nil)) .nil)),
   some [100, 101, 102]⟩

example : AnnOK rJ.ann ∧ WF rJ := by
  refine ⟨⟨by decide, by decide⟩, ⟨by decide, by decide, by decide, by decide⟩⟩

/-! # Second deepening

## (1) the structural layer is the state machines (all inputs)

`fold_unfold` and `title_roundtrip` above speak about `splitTitle` / `unfold` (used by `readFastaS` / `readFastqS`).
The theorems below make that layer redundant in the trusted reading: whatever single record the byte machines
return, the structural reading returns the same record — for every text. -/

/-- **FASTA: machine ⊑ structure.** Whenever the 7-state machine returns exactly one record on a text whose part
    after the title line holds no `>`, the structural reading (`splitTitle` of the title line, `unfold` of the body) is
    that record.  (Without the hypothesis: `fasta_refinement_needs_no_gt`.) -/
theorem fasta_machine_refines_structural (text : Bytes) (r : Rec) (h : parseFasta text = .ok [r])
    (hbody : ∀ c ∈ (text.drop 1).dropWhile (fun c => !isEol c), c ≠ 62) :
    readFastaS text = some r :=
  parseFasta_refines_structural text r h hbody

/-- **FASTA: the exact answer of the machine** on `>` `d` `t` with no `>` after the title line, in structural terms
    (title split, body checked byte by byte, `unfold`) — both directions at once -/
theorem fasta_machine_exact (d : UInt8) (t : Bytes)
    (hbody : ∀ c ∈ (d :: t).dropWhile (fun c => !isEol c), c ≠ 62) :
    parseFasta (62 :: d :: t) =
      if isSep d = true then .error .fatal
      else faBodyRes (splitTitle ((d :: t).takeWhile (fun c => !isEol c))).1
            (splitTitle ((d :: t).takeWhile (fun c => !isEol c))).2
            ((d :: t).dropWhile (fun c => !isEol c)) :=
  parseFasta_single_eq d t hbody

/-- the hypothesis is needed: on `>a⏎acgt⏎>b` the machine returns the single record `a` (the second is incomplete)
    while `unfold` would swallow `>b` -/
theorem fasta_refinement_needs_no_gt :
    parseFasta [62, 97, 10, 97, 99, 103, 116, 10, 62, 98] = .ok [⟨[97], [], [97, 99, 103, 116], none⟩] ∧
    readFastaS [62, 97, 10, 97, 99, 103, 116, 10, 62, 98] = some ⟨[97], [], [97, 99, 103, 116, 62, 98], none⟩ :=
  parseFasta_refines_needs_hbody

/-- **FASTQ: machine ⊑ structure**, for every text and every offset: whenever the 12-state machine returns exactly
    one record that carries qualities, the structural reading is that record. -/
theorem fastq_machine_refines_structural (sh : UInt8) (text : Bytes) (r : Rec)
    (h : parseFastq sh true text = .ok [r]) (hq : r.qual.isSome = true) :
    readFastqS sh text = some r :=
  parseFastq_refines_structural sh text r h hq

/-- the hypothesis is needed: on `@a⏎ac⏎` the machine returns the record without qualities -/
theorem fastq_refinement_needs_qual :
    parseFastq 33 true [64, 97, 10, 97, 99, 10] = .ok [⟨[97], [], [97, 99], none⟩] ∧
    readFastqS 33 [64, 97, 10, 97, 99, 10] = some ⟨[97], [], [97, 99], some []⟩ :=
  parseFastq_refines_needs_hq

/-! ## (1, third pass) the structural layer is the state machines — every text, several records per text

`readFastaManyS` / `readFastqManyS` (Lemmas/HeaderMany.lean, Lemmas/HeaderManyFq.lean) read a whole chunk with
`splitTitle`, `unfold`, `takeWhile` / `dropWhile` only: title line up to the end of line, body up to the next `>`
(FASTA) or sequence line, `+` line, quality line (FASTQ), then the next record.  They are **equal** to the byte
machines on every text — records delivered, records dropped at the end of the text, `Fatalf` and panic included — so
only one layer remains in the trusted reading (the machines, which the harness compares with the real parsers), and
no buffer of the machine (`idB`, `defB`, `seqB`, `qualB`, `ident`, `defn`, `prev`) leaks from one record into the next. -/

/-- **FASTA: the 7-state machine is the structural reading, for every text** (any number of records) -/
theorem fasta_machine_is_structural (text : Bytes) : parseFasta text = readFastaManyS text :=
  parseFasta_eq_many text

/-- **FASTQ: the 12-state machine (qualities kept) is the structural reading, for every text and every offset** -/
theorem fastq_machine_is_structural (sh : UInt8) (text : Bytes) : parseFastq sh true text = readFastqManyS sh text :=
  parseFastq_eq_many sh text

/-- the whole readers in structural terms: chunk text → records → `ParseFastSeqJsonHeader` on each -/
theorem readFasta_structural {α : Type} (J : JsonLib α) (text : Bytes) :
    readFasta J text = (match readFastaManyS text with
                        | .ok rs => rs.mapM (readRec J)
                        | .error _ => none) := by
  unfold readFasta; rw [parseFasta_eq_many]; cases readFastaManyS text <;> rfl

theorem readFastq_structural {α : Type} (J : JsonLib α) (sh : UInt8) (text : Bytes) :
    readFastq J sh text = (match readFastqManyS sh text with
                           | .ok rs => rs.mapM (readRec J)
                           | .error _ => none) := by
  unfold readFastq; rw [parseFastq_eq_many]; cases readFastqManyS sh text <;> rfl

/-- transfer: what the writers print for any list of records is read back by the **structural** reading as the records
    with their title annotations (FASTA) -/
theorem write_read_fasta_many_structural_json (r : Record JMems) (rs : List (Record JMems))
    (hA : ∀ x ∈ r :: rs, AnnOK x.ann) (h : ∀ x ∈ r :: rs, WF x) :
    (match readFastaManyS ((r :: rs).map (writeFasta goJson)).flatten with
     | .ok l => l.mapM (readRec goJson)
     | .error _ => none) = some ((r :: rs).map (fun x => { x with qual := none })) := by
  rw [← readFasta_structural]; exact write_read_fasta_many_json r rs hA h

/-- … and FASTQ, every offset 14..172 -/
theorem write_read_fastq_many_structural_json (sh : UInt8) (h1 : 14 ≤ sh) (h2 : sh ≤ 172) (rs : List (Record JMems))
    (hA : ∀ x ∈ rs, AnnOK x.ann) (h : ∀ x ∈ rs, WF x)
    (hq : ∀ x ∈ rs, (qualities x.seq x.qual).length = x.seq.length) :
    (match readFastqManyS sh (rs.map (writeFastq goJson sh)).flatten with
     | .ok l => l.mapM (readRec goJson)
     | .error _ => none)
      = some (rs.map (fun x => { x with qual := some ((qualities x.seq x.qual).map (fun q => min q 93)) })) := by
  rw [← readFastq_structural]
  exact write_read_fastq_many_aux goJson sh (shiftOK_range sh h1 h2) rs (fun x hx => goJson_OKat _ _ (hA x hx)) h hq

/-- tests (two inputs each): `>a x⏎ac⏎>b⏎g⏎` gives two records, `>a⏎ac>b⏎g` (the `>` not at the beginning of a line)
    is fatal; `@a x⏎Ac⏎+⏎II⏎@b⏎g⏎+⏎J` gives two records, the last one completed at the end of the text -/
example : readFastaManyS [62, 97, 32, 120, 10, 97, 99, 10, 62, 98, 10, 103, 10]
      = .ok [⟨[97], [120], [97, 99], none⟩, ⟨[98], [], [103], none⟩]
    ∧ readFastaManyS [62, 97, 10, 97, 99, 62, 98, 10, 103] = .error .fatal := by
  constructor <;> rfl

example : readFastqManyS 33 [64, 97, 32, 120, 10, 65, 99, 10, 43, 10, 73, 73, 10, 64, 98, 10, 103, 10, 43, 10, 74]
      = .ok [⟨[97], [120], [97, 99], some [40, 40]⟩, ⟨[98], [], [103], some [41]⟩] := by
  rfl

/-! ## (4) every quality offset

On the command line the output offset is always 33 and the input offset 33 or 64 (`--solexa`); the setters accept any
byte.  The FASTQ round trips hold for **every offset from 14 to 172** and for no other. -/

/-- the offsets 14..172 never print an end of line for a quality value … -/
theorem shift_range_ok (sh : UInt8) (h1 : 14 ≤ sh) (h2 : sh ≤ 172) : ShiftOK sh := shiftOK_range sh h1 h2

/-- … every other offset prints one for some value of the stated range 0..93 (so the record cannot be read back) -/
theorem shift_outside_range_bad (sh : UInt8) (h : ¬ (14 ≤ sh ∧ sh ≤ 172)) :
    badQ sh ≤ 93 ∧ isEol (writeQ sh (badQ sh)) = true := shift_bad sh h

/-- **FASTQ: any set of records, any offset 14..172, unconditional** -/
theorem write_read_fastq_many_anyshift_json (sh : UInt8) (h1 : 14 ≤ sh) (h2 : sh ≤ 172) (rs : List (Record JMems))
    (hA : ∀ x ∈ rs, AnnOK x.ann) (h : ∀ x ∈ rs, WF x)
    (hq : ∀ x ∈ rs, (qualities x.seq x.qual).length = x.seq.length) :
    readFastq goJson sh (rs.map (writeFastq goJson sh)).flatten
      = some (rs.map (fun x => { x with qual := some ((qualities x.seq x.qual).map (fun q => min q 93)) })) :=
  write_read_fastq_many_aux goJson sh (shiftOK_range sh h1 h2) rs (fun x hx => goJson_OKat _ _ (hA x hx)) h hq

/-- **`--solexa`**: a file written with offset 64, read with offset 64 and written with the command-line offset 33 is
    then a fixed point of read(33) ∘ write(33) — the values read are the values written -/
theorem solexa_then_fixed (rs : List (Record JMems)) (hA : ∀ x ∈ rs, AnnOK x.ann) (h : ∀ x ∈ rs, WF x)
    (hq : ∀ x ∈ rs, (qualities x.seq x.qual).length = x.seq.length) :
    ∃ back, readFastq goJson 64 (rs.map (writeFastq goJson 64)).flatten = some back
      ∧ ∃ back', readFastq goJson 33 (back.map (writeFastq goJson 33)).flatten = some back'
      ∧ (back'.map (writeFastq goJson 33)).flatten = (back.map (writeFastq goJson 33)).flatten := by
  refine ⟨_, write_read_fastq_many_aux goJson 64 (shiftOK_33_64 64 (Or.inr rfl)) rs
    (fun x hx => goJson_OKat _ _ (hA x hx)) h hq, ?_⟩
  apply write_read_write_fixed_fastq_many goJson 33 (Or.inl rfl)
  · intro x hx; obtain ⟨y, hy, rfl⟩ := List.mem_map.mp hx; exact goJson_OKat _ _ (hA y hy)
  · intro x hx; obtain ⟨y, hy, rfl⟩ := List.mem_map.mp hx
    exact ⟨(h y hy).id_ne, (h y hy).id_noBlank, (h y hy).seq_ne, (h y hy).seq_ok⟩
  · intro x hx; obtain ⟨y, hy, rfl⟩ := List.mem_map.mp hx
    have hl := hq y hy
    have hne : (qualities y.seq y.qual).map (fun q => min q 93) ≠ [] := by
      intro e
      have : ((qualities y.seq y.qual).map (fun q => min q 93)).length = y.seq.length := by simpa using hl
      rw [e] at this
      exact (h y hy).seq_ne (List.length_eq_zero_iff.mp this.symm)
    show (qualities y.seq (some _)).length = y.seq.length
    rw [qualities_some _ _ hne]; simpa using hl

/-! ## (2) numbers: Go's `int` / `float64`

`Model/JsonNum.lean`: a value of an annotation map is a `GVal` (`int i` | `float d`, `d` = sign, shortest digits,
position of the point); the writer prints `intLit i` / `fmtFloat d` (go-json `AppendFloat64`: `'e'` format when
`abs < 1e-6 || abs >= 1e21`), the reader gives **`float64` to every number**, and the narrowing loop of
`_parse_json_header_` — transcribed as it is — assigns the `float64` back after the `int` (there is no `else`), so it
changes nothing.  Hence, by value AND kind:

* every `float64` (integral or not: `3.0` is printed `3` and read as the `float64` 3) keeps its kind and its value;
* every `int` keeps its value and becomes a `float64` — the property compares numbers *by value*, so this is allowed;
  what is proved is exact on the decimal value for every `i`; that the `float64` nearest to `i` is `i` itself needs
  `|i| ≤ 2^53` (IEEE-754, outside the model; the harness generates ints up to ±2^53 only);
* a record without `int`s is read back *identical* (kinds included). -/

open ObiVerif.JsonNum

/-- **`AppendInt` prints a grammatical JSON number, for every `i`** (was checked at run time only) -/
theorem intLit_grammatical (i : Int) : numLitOK (intLit i) = true := numLitOK_intLit i

/-- **`AppendFloat64` prints a grammatical JSON number** for every `float64` (in both formats) -/
theorem floatLit_grammatical (d : Dec) (h : d.norm = true) : numLitOK (fmtFloat d) = true := numLitOK_fmtFloat d h

/-- **float64 → text → decimal value is the identity** (sign of zero included), through the `'f'` layouts `0.000ddd`,
    `dd.ddd`, `ddd000` and the `'e'` layout `d.ddde±XX` -/
theorem float_value_roundtrip (d : Dec) (h : d.norm = true) : Dec.ofLit (fmtFloat d) = d := ofLit_fmtFloat d h

/-- **int → text → decimal value**: integral and equal to `i`, for every `i` -/
theorem int_value_roundtrip (i : Int) : (Dec.ofLit (intLit i)).isInt = true ∧ (Dec.ofLit (intLit i)).toInt = i :=
  ofLit_intLit i

/-- every `int` of the stated range `|i| ≤ 2^53` is a `float64` (53-bit significand × a power of two): the `float64`
    the reader stores for the literal `intLit i` has exactly the value `i` (the rounding of `strconv.ParseFloat` itself
    is outside the model; beyond 2^53 the first non-representable integer is 2^53 + 1) -/
theorem int_in_range_is_float64 (i : Int) (h : i.natAbs ≤ 2 ^ 53) :
    ∃ m e : Nat, m < 2 ^ 53 ∧ i.natAbs = m * 2 ^ e := by
  by_cases h' : i.natAbs < 2 ^ 53
  · exact ⟨i.natAbs, 0, h', by simp⟩
  · exact ⟨2 ^ 52, 1, by decide, by omega⟩

theorem int_beyond_range_not_float64 : ¬ ∃ m e : Nat, m < 2 ^ 53 ∧ 2 ^ 53 + 1 = m * 2 ^ e := by
  rintro ⟨m, e, hm, h⟩
  cases e with
  | zero => rw [Nat.pow_zero, Nat.mul_one] at h; omega
  | succ e =>
    rw [show (2 : Nat) ^ (e + 1) = 2 ^ e * 2 from Nat.pow_succ _ _, ← Nat.mul_assoc] at h
    generalize m * 2 ^ e = k at h
    omega

/-- the narrowing loop of `_parse_json_header_`, as it is written, is the identity -/
theorem narrowing_asis_identity (m : GMems) : narrowAsIs m = m := narrowAsIs_id m

/-- **annotations → title-line object → annotations, by value and kind**: every number comes back as a `float64` of
    the same decimal value, everything else unchanged (maps and lists nested without bound) -/
theorem reread_numbers (m : GMems) (h : m.WF = true) : reread m = some m.floatify := by
  unfold reread
  rw [decodeObj_encodeObj _ (toJ_WF_mems m h)]
  simp only [Option.map_some]
  rw [narrowAsIs_id, ofJ_toJ_mems m h]

/-- **no `int` inside ⇒ read back identical, kinds included** (floats integral or not, e.g. `3.0`) -/
theorem reread_identical_without_int (m : GMems) (h : m.WF = true) (hi : m.noInt = true) : reread m = some m := by
  rw [reread_numbers m h, floatify_noInt_mems m hi]

/-- what is read back never holds an `int` … -/
theorem reread_no_int (m m' : GMems) (h : m.WF = true) (hr : reread m = some m') : m'.noInt = true := by
  rw [reread_numbers m h] at hr; cases hr; exact floatify_noInt'_mems m

/-- … so **exactly the `int`s change kind**: the record is read back identical iff it holds no `int` -/
theorem reread_identical_iff (m : GMems) (h : m.WF = true) : reread m = some m ↔ m.noInt = true :=
  ⟨fun hr => reread_no_int m m h hr, reread_identical_without_int m h⟩

/-- test: `{"a":3.0,"b":3,"c":[1.5e300]}` — `3.0` stays the `float64` 3, the `int` 3 becomes the `float64` 3 -/
example : reread (.cons [97] (.float ⟨false, [51], 1⟩) (.cons [98] (.int 3) (.cons [99] (.arr (.cons (.float ⟨false, [49, 53], 301⟩) .nil)) .nil)))
    = some (.cons [97] (.float ⟨false, [51], 1⟩) (.cons [98] (.float ⟨false, [51], 1⟩) (.cons [99] (.arr (.cons (.float ⟨false, [49, 53], 301⟩) .nil)) .nil))) := by
  have h3 : Dec.ofLit (intLit 3) = ⟨false, [51], 1⟩ := by
    rw [intLit_eq, show (3 : Int).natAbs = 3 from rfl, natDigits_lt 3 (by decide)]; decide
  rw [reread_numbers _ (by decide)]
  simp only [GMems.floatify, GVal.floatify, GList.floatify, h3]

/-- with the `else` the loop lacks, the integral `float64` 3.0 would come back as the `int` 3 (kind changed the other
    way round) … -/
theorem narrowing_intended_changes_float :
    narrowIntended (.cons [97] (.float ⟨false, [51], 1⟩) .nil) = some (.cons [97] (.int 3) .nil) := by decide

/-- … and the integral `float64` 1e20 (like 2^63, 1e21, 1e300, which the harness keeps among the generated floats)
    would not fit an `int`: its value would be lost -/
theorem narrowing_intended_loses_big_float :
    narrowIntended (.cons [97] (.float ⟨false, [49], 21⟩) .nil) = none := by decide

/-! ## (3) header parser selection: the OBI-format branch

`Model/ObiHeader.lean` transcribes `__match__key__` and the entry of `ParseOBIFeatures`: without a `key=` pattern at
the start, the OBI parser only trims.  The hypothesis `hobi` of `guessed_is_json` is now a theorem. -/

open ObiVerif.ObiHeader

/-- the OBI-format parser on an empty definition does nothing, whatever the `key=value` machinery is -/
theorem obi_on_empty {α : Type} (empty : α) (rest : Bytes → Option (Parsed α)) :
    parseFastSeqOBIHeader empty rest [] = some ⟨empty, none⟩ := rfl

/-- a definition whose first byte is neither a letter nor a blank holds no key: the OBI parser only trims it -/
theorem obi_no_key (c : UInt8) (t : Bytes) (h1 : isAlpha c = false) (h2 : isBlank c = false) :
    matchKey (c :: t) = none := by
  simp [matchKey, matchKeyLoop, h1, h2]

/-- **`ParseGuessedFastSeqHeader` on everything the JSON writer prints is `ParseFastSeqJsonHeader`** — no hypothesis
    on the OBI-format parser left: either the title annotations start with `{` (JSON branch) or they are empty and the
    OBI branch finds no key -/
theorem guessed_is_json_obi {α : Type} [DecidableEq α] (J : JsonLib α) (rest : Bytes → Option (Parsed α))
    (ann : α) (defn : Option Bytes) (hJ : J.OKat (ann, defn)) :
    parseGuessed (parseFastSeqOBIHeader J.empty rest) J.empty (J.lib (info J ann defn)) (info J ann defn)
      = parseFastSeqJsonHeader J.empty (J.lib (info J ann defn)) (info J ann defn) :=
  parseGuessed_info J _ (obi_on_empty J.empty rest) ann defn hJ

theorem write_read_fasta_guessed_obi_json (rest : Bytes → Option (Parsed JMems)) (r : Record JMems)
    (hA : AnnOK r.ann) (h : WF r) :
    readFastaG goJson (parseFastSeqOBIHeader .nil rest) (writeFasta goJson r) = some [{ r with qual := none }] :=
  write_read_fastaG_aux goJson _ (obi_on_empty _ rest) r (goJson_OKat _ _ hA) h

theorem write_read_fastq_guessed_obi_json (rest : Bytes → Option (Parsed JMems)) (sh : UInt8)
    (hsh : sh = 33 ∨ sh = 64) (r : Record JMems) (hA : AnnOK r.ann) (h : WF r)
    (hq : (qualities r.seq r.qual).length = r.seq.length) :
    readFastqG goJson (parseFastSeqOBIHeader .nil rest) sh (writeFastq goJson sh r)
      = some [{ r with qual := some ((qualities r.seq r.qual).map (fun q => min q 93)) }] :=
  write_read_fastqG_aux goJson _ (obi_on_empty _ rest) sh (shiftOK_33_64 sh hsh) r (goJson_OKat _ _ hA) h hq

/-- tests of the key matcher: `count=3;` has the key `count` (span 0..6), ` k_1 =` too (1..6), `{"a":1}` / `3=a` / `a b=` none -/
example : matchKey [99, 111, 117, 110, 116, 61, 51, 59] = some (0, 6) ∧ matchKey [32, 107, 95, 49, 32, 61] = some (1, 6)
    ∧ matchKey [123, 34, 97, 34, 58, 49, 125] = none ∧ matchKey [51, 61, 97] = none ∧ matchKey [97, 32, 98, 61] = none := by
  decide

end ObiVerif.Props.C02
