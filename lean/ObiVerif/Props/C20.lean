import ObiVerif.Model.Fp
/-!
# C20 — fixed-precision integers agree with exact arithmetic (property theorems)

Every theorem is about `Model/Fp.lean`, the limb-by-limb transcription of `pkg/obifp`, and holds for
all well-formed operands (`WF` = every limb below 2^64).  "exact when it fits, signalled exactly when
it does not" is stated as one equation per operation.
-/
namespace ObiVerif.Props.C20
open ObiVerif.Fp

/-! ## 64 bits -/

theorem u64_add_exact (u v : U64) (hu : u.WF) (hv : v.WF) :
    U64.add u v = if u.toNat + v.toNat < W then .ok ⟨u.toNat + v.toNat⟩ else .error () := by
  unfold U64.WF at *
  unfold U64.add bitsAdd64 U64.toNat
  simp only [W] at *
  by_cases h : u.w0 + v.w0 < 18446744073709551616
  · have : ¬ (((u.w0 + v.w0 + 0) / 18446744073709551616 != 0) = true) := by simp; omega
    rw [if_neg this, if_pos h]; congr 2; omega
  · have : (((u.w0 + v.w0 + 0) / 18446744073709551616 != 0) = true) := by simp; omega
    rw [if_pos this, if_neg h]

theorem u64_sub_exact (u v : U64) :
    U64.sub u v = if v.toNat ≤ u.toNat then .ok ⟨u.toNat - v.toNat⟩ else .error () := by
  unfold U64.sub bitsSub64 U64.toNat
  by_cases h : v.w0 ≤ u.w0
  · simp [h]
  · simp [h]

theorem u64_mul_exact (u v : U64) :
    U64.mul u v = if u.toNat * v.toNat < W then .ok ⟨u.toNat * v.toNat⟩ else .error () := by
  unfold U64.mul U64.mul64 bitsMul64 U64.toNat
  generalize u.w0 * v.w0 = p
  simp only [W]
  by_cases h : p < 18446744073709551616
  · have : ¬ ((p / 18446744073709551616 != 0) = true) := by simp; omega
    rw [if_neg this, if_pos h]; congr 2; omega
  · have : ((p / 18446744073709551616 != 0) = true) := by simp; omega
    rw [if_pos this, if_neg h]

theorem u64_cmp_exact (u v : U64) :
    U64.cmp u v = if u.toNat < v.toNat then -1 else if u.toNat = v.toNat then 0 else 1 := by
  unfold U64.cmp U64.toNat
  repeat' split
  all_goals first | rfl | omega

/-! ## 128 bits -/

theorem u128_add_exact (u v : U128) (hu : u.WF) (hv : v.WF) :
    U128.add u v = if u.toNat + v.toNat < W * W then .ok (U128.ofNat (u.toNat + v.toNat)) else .error () := by
  obtain ⟨h1, h0⟩ := hu
  obtain ⟨k1, k0⟩ := hv
  unfold U128.add bitsAdd64 U128.toNat U128.ofNat
  simp only [W] at *
  by_cases h : u.w1 * 18446744073709551616 + u.w0 + (v.w1 * 18446744073709551616 + v.w0) < 18446744073709551616 * 18446744073709551616
  · have : ¬ (((u.w1 + v.w1 + (u.w0 + v.w0 + 0) / 18446744073709551616) / 18446744073709551616 != 0) = true) := by
      simp; omega
    rw [if_neg this, if_pos h]; congr 2 <;> omega
  · have : (((u.w1 + v.w1 + (u.w0 + v.w0 + 0) / 18446744073709551616) / 18446744073709551616 != 0) = true) := by
      simp; omega
    rw [if_pos this, if_neg h]

end ObiVerif.Props.C20
