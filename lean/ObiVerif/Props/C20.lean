import ObiVerif.Model.Fp
import ObiVerif.Lemmas.FpBasic
import ObiVerif.Lemmas.FpArith
import ObiVerif.Lemmas.FpShift
import ObiVerif.Lemmas.FpMul
import ObiVerif.Lemmas.FpDiv
import ObiVerif.Lemmas.FpBits
/-!
# C20 — fixed-precision integers agree with exact arithmetic (property theorems)

Every theorem is about `Model/Fp.lean`, the limb-by-limb transcription of `pkg/obifp`, and holds for
all well-formed operands (`WF` = every limb below 2^64).  "exact when it fits, signalled exactly when
it does not" is stated as one equation per operation.
-/
namespace ObiVerif.Props.C20
open ObiVerif.Fp

/-! ## 64 bits -/

theorem u64_add_exact (u v : U64) (hu : u.WF) (hv : v.WF) :
    U64.add u v = if u.toNat + v.toNat < W then .ok ⟨u.toNat + v.toNat⟩ else .error () := by
  unfold U64.WF at *
  unfold U64.add bitsAdd64 U64.toNat
  simp only [W] at *
  by_cases h : u.w0 + v.w0 < 18446744073709551616
  · have : ¬ (((u.w0 + v.w0 + 0) / 18446744073709551616 != 0) = true) := by simp; omega
    rw [if_neg this, if_pos h]; congr 2; omega
  · have : (((u.w0 + v.w0 + 0) / 18446744073709551616 != 0) = true) := by simp; omega
    rw [if_pos this, if_neg h]

theorem u64_sub_exact (u v : U64) :
    U64.sub u v = if v.toNat ≤ u.toNat then .ok ⟨u.toNat - v.toNat⟩ else .error () := by
  unfold U64.sub bitsSub64 U64.toNat
  by_cases h : v.w0 ≤ u.w0
  · simp [h]
  · simp [h]

theorem u64_mul_exact (u v : U64) :
    U64.mul u v = if u.toNat * v.toNat < W then .ok ⟨u.toNat * v.toNat⟩ else .error () := by
  unfold U64.mul U64.mul64 bitsMul64 U64.toNat
  generalize u.w0 * v.w0 = p
  simp only [W]
  by_cases h : p < 18446744073709551616
  · have : ¬ ((p / 18446744073709551616 != 0) = true) := by simp; omega
    rw [if_neg this, if_pos h]; congr 2; omega
  · have : ((p / 18446744073709551616 != 0) = true) := by simp; omega
    rw [if_pos this, if_neg h]

theorem u64_cmp_exact (u v : U64) :
    U64.cmp u v = if u.toNat < v.toNat then -1 else if u.toNat = v.toNat then 0 else 1 := by
  unfold U64.cmp U64.toNat
  repeat' split
  all_goals first | rfl | omega

/-! ## 128 bits -/

theorem u128_add_exact (u v : U128) (hu : u.WF) (hv : v.WF) :
    U128.add u v = if u.toNat + v.toNat < W * W then .ok (U128.ofNat (u.toNat + v.toNat)) else .error () := by
  obtain ⟨h1, h0⟩ := hu
  obtain ⟨k1, k0⟩ := hv
  unfold U128.add bitsAdd64 U128.toNat U128.ofNat
  simp only [W] at *
  by_cases h : u.w1 * 18446744073709551616 + u.w0 + (v.w1 * 18446744073709551616 + v.w0) < 18446744073709551616 * 18446744073709551616
  · have : ¬ (((u.w1 + v.w1 + (u.w0 + v.w0 + 0) / 18446744073709551616) / 18446744073709551616 != 0) = true) := by
      simp; omega
    rw [if_neg this, if_pos h]; congr 2 <;> omega
  · have : (((u.w1 + v.w1 + (u.w0 + v.w0 + 0) / 18446744073709551616) / 18446744073709551616 != 0) = true) := by
      simp; omega
    rw [if_pos this, if_neg h]

/-- `Add64`: no hypothesis on `v` is needed (a Go `uint64` argument is `< W` anyway) -/
theorem u128_add64_exact (u : U128) (v : Nat) (hu : u.WF) :
    U128.add64 u v = if u.toNat + v < W * W then .ok (U128.ofNat (u.toNat + v)) else .error () :=
  U128.add64_spec u v hu

theorem u128_sub_exact (u v : U128) (hu : u.WF) (hv : v.WF) :
    U128.sub u v = if v.toNat ≤ u.toNat then .ok (U128.ofNat (u.toNat - v.toNat)) else .error () :=
  U128.sub_spec u v hu hv

theorem u128_mul64_exact (u : U128) (v : Nat) (hu : u.WF) (hv : v < W) :
    U128.mul64 u v = if u.toNat * v < W * W then .ok (U128.ofNat (u.toNat * v)) else .error () :=
  U128.mul64_spec u v hu hv

theorem u128_cmp_exact (u v : U128) (hu : u.WF) (hv : v.WF) :
    U128.cmp u v = if u.toNat < v.toNat then -1 else if u.toNat = v.toNat then 0 else 1 :=
  U128.cmp_spec u v hu hv

/-- `Uint128.Mul` is exact (and signals overflow exactly) only when one of the two high limbs is zero:
the model (like the Go code, finding D27b) never looks at `u.w1 * v.w1`.  The full statement

  `U128.mul u v = if u.toNat * v.toNat < W * W then .ok (U128.ofNat (u.toNat * v.toNat)) else .error ()`

is FALSE without `hz`, see `u128_mul_hh_not_exact`. -/
theorem u128_mul_exact_partial (u v : U128) (hu : u.WF) (hv : v.WF) (hz : u.w1 = 0 ∨ v.w1 = 0) :
    U128.mul u v = if u.toNat * v.toNat < W * W then .ok (U128.ofNat (u.toNat * v.toNat)) else .error () := by
  obtain ⟨h1, h0⟩ := hu
  obtain ⟨k1, k0⟩ := hv
  unfold U128.mul bitsMul64 bitsAdd64 U128.toNat U128.ofNat
  have b00 := mul_limb_le h0 k0
  have b01 := mul_limb_le h0 k1
  have b10 := mul_limb_le h1 k0
  have e : (u.w1 * W + u.w0) * (v.w1 * W + v.w0) = (u.w1 * v.w0 + u.w0 * v.w1) * W + u.w0 * v.w0 := by
    rcases hz with hz | hz
    · simp [hz, Nat.mul_add, Nat.mul_assoc]
    · simp [hz, Nat.add_mul, Nat.mul_right_comm]
  rw [e]
  generalize u.w0 * v.w0 = p00 at *
  generalize u.w0 * v.w1 = p01 at *
  generalize u.w1 * v.w0 = p10 at *
  simp only [W] at *
  by_cases h : (p10 + p01) * 18446744073709551616 + p00 < 18446744073709551616 * 18446744073709551616
  · rw [if_pos h, if_neg (by simp; omega)]; congr 2 <;> omega
  · rw [if_neg h, if_pos (by simp; omega)]

/-- what `Uint128.Mul` computes for ALL well-formed operands (no hypothesis on the high limbs): the exact product
MINUS the term `u.w1 * v.w1 * 2^128`, with overflow detection applied to that reduced product.  Together with
`u128_mul_hh_never_fits` this describes finding D27b completely: when both high limbs are non-zero the exact product
never fits (the only correct outcome is the panic) and the code returns a value whenever the reduced product fits. -/
theorem u128_mul_char (u v : U128) (hu : u.WF) (hv : v.WF) :
    U128.mul u v =
      if (u.w1 * v.w0 + u.w0 * v.w1) * W + u.w0 * v.w0 < W * W
      then .ok (U128.ofNat ((u.w1 * v.w0 + u.w0 * v.w1) * W + u.w0 * v.w0)) else .error () := by
  obtain ⟨h1, h0⟩ := hu
  obtain ⟨k1, k0⟩ := hv
  unfold U128.mul bitsMul64 bitsAdd64 U128.ofNat
  have b00 := mul_limb_le h0 k0
  have b01 := mul_limb_le h0 k1
  have b10 := mul_limb_le h1 k0
  generalize u.w0 * v.w0 = p00 at *
  generalize u.w0 * v.w1 = p01 at *
  generalize u.w1 * v.w0 = p10 at *
  simp only [W] at *
  by_cases h : (p10 + p01) * 18446744073709551616 + p00 < 18446744073709551616 * 18446744073709551616
  · rw [if_pos h, if_neg (by simp; omega)]; congr 2 <;> omega
  · rw [if_neg h, if_pos (by simp; omega)]

/-- the exact product is the reduced product plus `u.w1 * v.w1 * 2^128`; hence it cannot fit in 128 bits when both
high limbs are non-zero -/
theorem u128_mul_hh_never_fits (u v : U128) :
    u.toNat * v.toNat = (u.w1 * v.w0 + u.w0 * v.w1) * W + u.w0 * v.w0 + u.w1 * v.w1 * (W * W) ∧
      (u.w1 ≠ 0 → v.w1 ≠ 0 → ¬ u.toNat * v.toNat < W * W) := by
  have e : u.toNat * v.toNat = (u.w1 * v.w0 + u.w0 * v.w1) * W + u.w0 * v.w0 + u.w1 * v.w1 * (W * W) := by
    unfold U128.toNat; generalize W = B; grind
  refine ⟨e, fun h1 h2 => ?_⟩
  rw [e]
  have : 1 ≤ u.w1 * v.w1 := Nat.mul_pos (Nat.pos_of_ne_zero h1) (Nat.pos_of_ne_zero h2)
  have := Nat.mul_le_mul_right (W * W) this
  omega

/-- the hypothesis of `u128_mul_exact_partial` is satisfiable on a non-trivial operand pair
(`2^64+2` times `4`), and the result is the exact product -/
example : U128.WF ⟨1, 2⟩ ∧ U128.WF ⟨0, 4⟩ ∧ ((⟨1, 2⟩ : U128).w1 = 0 ∨ (⟨0, 4⟩ : U128).w1 = 0) ∧
    U128.mul ⟨1, 2⟩ ⟨0, 4⟩ = .ok ⟨4, 8⟩ := by
  refine ⟨by decide, by decide, Or.inr rfl, rfl⟩

/-- counterexample to full exactness of `Uint128.Mul`: `(2^64+2) * (3*2^64+4)` does not fit in 128 bits
but the model (and the Go code, whose own test pins this value) returns `{10, 8}` instead of panicking -/
theorem u128_mul_hh_not_exact :
    U128.WF ⟨1, 2⟩ ∧ U128.WF ⟨3, 4⟩ ∧ U128.mul ⟨1, 2⟩ ⟨3, 4⟩ = .ok ⟨10, 8⟩ ∧
      ¬ ((U128.toNat ⟨1, 2⟩) * (U128.toNat ⟨3, 4⟩) < W * W) :=
  ⟨by decide, by decide, rfl, by decide⟩

/-! ## 256 bits -/

theorem u256_add_exact (u v : U256) (hu : u.WF) (hv : v.WF) :
    U256.add u v = if u.toNat + v.toNat < W ^ 4 then .ok (U256.ofNat (u.toNat + v.toNat)) else .error () :=
  U256.add_spec u v hu hv

theorem u256_sub_exact (u v : U256) (hu : u.WF) (hv : v.WF) :
    U256.sub u v = if v.toNat ≤ u.toNat then .ok (U256.ofNat (u.toNat - v.toNat)) else .error () :=
  U256.sub_spec u v hu hv

theorem u256_cmp_exact (u v : U256) (hu : u.WF) (hv : v.WF) :
    U256.cmp u v = if u.toNat < v.toNat then -1 else if u.toNat = v.toNat then 0 else 1 :=
  U256.cmp_spec u v hu hv

/-! ## Shifts (every shift amount `n : Nat`, including `n ≥` the width)

Proofs are in `Lemmas/FpShift.lean`: `Nat.lor` / `Nat.land` on disjoint bit ranges become `+`, `%`, `/`,
then a case split on `n` as in `LeftShift64`. -/

theorem u64_shl_exact (u : U64) (n : Nat) (hu : u.WF) :
    (U64.leftShift u n).toNat = (u.toNat * 2 ^ n) % W := (U64.leftShift_spec u n hu).2
theorem u64_shl_wf (u : U64) (n : Nat) (hu : u.WF) : (U64.leftShift u n).WF := (U64.leftShift_spec u n hu).1
theorem u64_shr_exact (u : U64) (n : Nat) (hu : u.WF) :
    (U64.rightShift u n).toNat = u.toNat / 2 ^ n := (U64.rightShift_spec u n hu).2
theorem u64_shr_wf (u : U64) (n : Nat) (hu : u.WF) : (U64.rightShift u n).WF := (U64.rightShift_spec u n hu).1

theorem u128_shl_exact (u : U128) (n : Nat) (hu : u.WF) :
    (U128.leftShift u n).toNat = (u.toNat * 2 ^ n) % (W * W) := (U128.leftShift_spec u n hu).2
theorem u128_shl_wf (u : U128) (n : Nat) (hu : u.WF) : (U128.leftShift u n).WF := (U128.leftShift_spec u n hu).1
theorem u128_shr_exact (u : U128) (n : Nat) (hu : u.WF) :
    (U128.rightShift u n).toNat = u.toNat / 2 ^ n := (U128.rightShift_spec u n hu).2
theorem u128_shr_wf (u : U128) (n : Nat) (hu : u.WF) : (U128.rightShift u n).WF := (U128.rightShift_spec u n hu).1

theorem u256_shl_exact (u : U256) (n : Nat) (hu : u.WF) :
    (U256.leftShift u n).toNat = (u.toNat * 2 ^ n) % W ^ 4 := (U256.leftShift_spec u n hu).2
theorem u256_shl_wf (u : U256) (n : Nat) (hu : u.WF) : (U256.leftShift u n).WF := (U256.leftShift_spec u n hu).1
theorem u256_shr_exact (u : U256) (n : Nat) (hu : u.WF) :
    (U256.rightShift u n).toNat = u.toNat / 2 ^ n := (U256.rightShift_spec u n hu).2
theorem u256_shr_wf (u : U256) (n : Nat) (hu : u.WF) : (U256.rightShift u n).WF := (U256.rightShift_spec u n hu).1

/-! ## `Uint128.QuoRem64` -/

/-- `bits.Div64` never panics on either path when `v ≠ 0`; quotient and remainder are exact.
(`v < W` holds for any Go `uint64` but is not needed.) -/
theorem u128_quoRem64_exact (u : U128) (v : Nat) (hu : u.WF) (hv : v ≠ 0) :
    U128.quoRem64 u v = .ok (U128.ofNat (u.toNat / v), u.toNat % v) := by
  obtain ⟨q, h, hq, hval⟩ := U128.quoRem64_spec u v hu hv
  rw [h, U128.eq_ofNat_toNat hq, hval]

/-- same statement in "quotient / remainder" form -/
theorem u128_quoRem64_exact' (u : U128) (v : Nat) (hu : u.WF) (hv : v ≠ 0) :
    ∃ q r, U128.quoRem64 u v = .ok (q, r) ∧ q.WF ∧ q.toNat = u.toNat / v ∧ r = u.toNat % v := by
  obtain ⟨q, h, hq, hval⟩ := U128.quoRem64_spec u v hu hv
  exact ⟨q, _, h, hq, hval, rfl⟩

/-- hypotheses satisfiable on a non-trivial value (both `bits.Div64` calls are used: `u.w1 ≥ v`) -/
example : U128.WF ⟨7, 5⟩ ∧ (3 : Nat) ≠ 0 ∧ U128.quoRem64 ⟨7, 5⟩ 3 = .ok (⟨2, 6148914691236517207⟩, 0) :=
  ⟨by decide, by decide, rfl⟩

/-! ## `Uint128.QuoRem` (both branches) -/

/-- for `v ≠ 0`: no `bits.Div64` panic, `Mul64` / `Sub` / `Add64` never overflow, and quotient and
remainder are exact.  The branch `v.w1 ≠ 0` is the normalised trial quotient
`tq = ⌊u / (⌊v / 2^s⌋ 2^s)⌋ ∈ {⌊u/v⌋, ⌊u/v⌋ + 1}` (`trial_quot` in `Lemmas/FpDiv.lean`). -/
theorem u128_quoRem_exact (u v : U128) (hu : u.WF) (hv : v.WF) (hv0 : v.toNat ≠ 0) :
    U128.quoRem u v = .ok (U128.ofNat (u.toNat / v.toNat), U128.ofNat (u.toNat % v.toNat)) :=
  U128.quoRem_spec u v hu hv hv0

/-- hypotheses satisfiable on a non-trivial pair taking the trial-quotient branch (`v.w1 ≠ 0`) with the
final correction step: `(2^128 - 1) / (2^64 + 1) = 2^64 - 1` remainder `0` (evaluated through the
theorem, since `Nat.log2` does not reduce by `rfl`) -/
example : U128.WF ⟨18446744073709551615, 18446744073709551615⟩ ∧ U128.WF ⟨1, 1⟩ ∧ U128.toNat ⟨1, 1⟩ ≠ 0 ∧
    U128.quoRem ⟨18446744073709551615, 18446744073709551615⟩ ⟨1, 1⟩ =
      .ok (⟨0, 18446744073709551615⟩, ⟨0, 0⟩) :=
  ⟨by decide, by decide, by decide,
    (u128_quoRem_exact _ _ (by decide) (by decide) (by decide)).trans rfl⟩

/-! ## `Uint256.Mul` -/

/-- schoolbook 4×4 product: exact when it fits in 256 bits, `.error ()` (Go panic) exactly otherwise.
Proof by the row invariant `U256.mulOuter_spec` in `Lemmas/FpMul.lean`. -/
theorem u256_mul_exact (u v : U256) (hu : u.WF) (hv : v.WF) :
    U256.mul u v = if u.toNat * v.toNat < W ^ 4 then .ok (U256.ofNat (u.toNat * v.toNat)) else .error () :=
  U256.mul_spec u v hu hv

/-! ## `Uint256.Div` -/

/-- for `v ≠ 0` the shift-and-subtract loops terminate within their fuel (`≠ none`), neither `Sub` nor
`Add` panics, and the result is the exact quotient.  Proof in `Lemmas/FpDiv.lean`
(`U256.divInner_spec`, `U256.divOuter_spec`). -/
theorem u256_div_exact (u v : U256) (hu : u.WF) (hv : v.WF) (hv0 : v.toNat ≠ 0) :
    U256.div u v = some (.ok (U256.ofNat (u.toNat / v.toNat))) := by
  obtain ⟨q, h, hq, hval⟩ := U256.div_spec u v hu hv hv0
  rw [h, U256.eq_ofNat_toNat hq, hval]

/-- same statement in "quotient" form -/
theorem u256_div_exact' (u v : U256) (hu : u.WF) (hv : v.WF) (hv0 : v.toNat ≠ 0) :
    ∃ q, U256.div u v = some (.ok q) ∧ q.WF ∧ q.toNat = u.toNat / v.toNat :=
  U256.div_spec u v hu hv hv0

/-- division by zero is the only panic -/
theorem u256_div_zero (u v : U256) (hv : v.WF) (hv0 : v.toNat = 0) : U256.div u v = some (.error ()) := by
  unfold U256.div
  rw [if_pos ((U256.isZero_iff v hv).mpr hv0)]

set_option maxRecDepth 100000 in
/-- hypotheses satisfiable on a non-trivial pair (both loops run): `(2^128 + 5) / (2^64 + 3)` -/
example : U256.WF ⟨0, 1, 0, 5⟩ ∧ U256.WF ⟨0, 0, 1, 3⟩ ∧ U256.toNat ⟨0, 0, 1, 3⟩ ≠ 0 ∧
    U256.div ⟨0, 1, 0, 5⟩ ⟨0, 0, 1, 3⟩ = some (.ok ⟨0, 0, 0, 18446744073709551613⟩) :=
  ⟨by decide, by decide, by decide, rfl⟩

/-! # Completeness: one exactness theorem for every remaining exported method of `pkg/obifp`

`grep '^func (u Uint' pkg/obifp/*.go` lists 28 methods on `Uint64`, 32 on `Uint128`, 24 on `Uint256`; together with
the sections above every one of them has a theorem below (index in `lib/cfg/C20.py`). -/

/-! ## `And` / `Or` / `Xor` / `Not`: the limb-wise operation is the bitwise operation on the value -/

theorem u64_and_exact (u v : U64) (hu : u.WF) (hv : v.WF) :
    (U64.and u v).WF ∧ (U64.and u v).toNat = Nat.land u.toNat v.toNat := ⟨land_lt_W hu hv, rfl⟩
theorem u64_or_exact (u v : U64) (hu : u.WF) (hv : v.WF) :
    (U64.or u v).WF ∧ (U64.or u v).toNat = Nat.lor u.toNat v.toNat := ⟨lor_lt_W hu hv, rfl⟩
theorem u64_xor_exact (u v : U64) (hu : u.WF) (hv : v.WF) :
    (U64.xor u v).WF ∧ (U64.xor u v).toNat = Nat.xor u.toNat v.toNat := ⟨xor_lt_W hu hv, rfl⟩
/-- `^x` is the complement to `2^64 - 1` -/
theorem u64_not_exact (u : U64) :
    (U64.not u).WF ∧ (U64.not u).toNat = W - 1 - u.toNat := ⟨not64_lt_W _, rfl⟩

theorem u128_and_exact (u v : U128) (hu : u.WF) (hv : v.WF) :
    (U128.and u v).WF ∧ (U128.and u v).toNat = Nat.land u.toNat v.toNat := U128.and_spec u v hu hv
theorem u128_or_exact (u v : U128) (hu : u.WF) (hv : v.WF) :
    (U128.or u v).WF ∧ (U128.or u v).toNat = Nat.lor u.toNat v.toNat := U128.or_spec u v hu hv
theorem u128_xor_exact (u v : U128) (hu : u.WF) (hv : v.WF) :
    (U128.xor u v).WF ∧ (U128.xor u v).toNat = Nat.xor u.toNat v.toNat := U128.xor_spec u v hu hv
theorem u128_not_exact (u : U128) (hu : u.WF) :
    (U128.not u).WF ∧ (U128.not u).toNat = W * W - 1 - u.toNat := U128.not_spec u hu

theorem u256_and_exact (u v : U256) (hu : u.WF) (hv : v.WF) :
    (U256.and u v).WF ∧ (U256.and u v).toNat = Nat.land u.toNat v.toNat := U256.and_spec u v hu hv
theorem u256_or_exact (u v : U256) (hu : u.WF) (hv : v.WF) :
    (U256.or u v).WF ∧ (U256.or u v).toNat = Nat.lor u.toNat v.toNat := U256.or_spec u v hu hv
theorem u256_xor_exact (u v : U256) (hu : u.WF) (hv : v.WF) :
    (U256.xor u v).WF ∧ (U256.xor u v).toNat = Nat.xor u.toNat v.toNat := U256.xor_spec u v hu hv
theorem u256_not_exact (u : U256) (hu : u.WF) :
    (U256.not u).WF ∧ (U256.not u).toNat = W ^ 4 - 1 - u.toNat := U256.not_spec u hu

/-- hypotheses satisfiable on a value with bits in every limb -/
example : U256.WF ⟨12, 10, 6, 5⟩ ∧ U256.WF ⟨10, 12, 3, 9⟩ ∧
    U256.and ⟨12, 10, 6, 5⟩ ⟨10, 12, 3, 9⟩ = ⟨8, 8, 2, 1⟩ ∧ U256.or ⟨12, 10, 6, 5⟩ ⟨10, 12, 3, 9⟩ = ⟨14, 14, 7, 13⟩ ∧
    U256.xor ⟨12, 10, 6, 5⟩ ⟨10, 12, 3, 9⟩ = ⟨6, 6, 5, 12⟩ ∧
    U128.not ⟨1, 0⟩ = ⟨18446744073709551614, 18446744073709551615⟩ := ⟨by decide, by decide, rfl, rfl, rfl, rfl⟩

/-! ## `Zero` / `MaxValue` / `IsZero` -/

theorem u64_zero_exact (u : U64) : (U64.zero u).WF ∧ (U64.zero u).toNat = 0 := ⟨W_pos, rfl⟩
theorem u128_zero_exact (u : U128) : (U128.zero u).WF ∧ (U128.zero u).toNat = 0 :=
  ⟨⟨W_pos, W_pos⟩, by unfold U128.zero U128.toNat; decide⟩
theorem u256_zero_exact (u : U256) : (U256.zero u).WF ∧ (U256.zero u).toNat = 0 :=
  ⟨⟨W_pos, W_pos, W_pos, W_pos⟩, by unfold U256.zero U256.toNat; decide⟩

/-- `MaxValue` is `2^64 - 1`, the largest well-formed value -/
theorem u64_maxValue_exact (u : U64) : (U64.maxValue u).WF ∧ (U64.maxValue u).toNat = W - 1 ∧
    ∀ v : U64, v.WF → v.toNat ≤ (U64.maxValue u).toNat := by
  refine ⟨max_lt_W, rfl, ?_⟩
  intro v hv; unfold U64.WF at hv; unfold U64.toNat U64.maxValue; simp only [W] at *; omega
theorem u128_maxValue_exact (u : U128) : (U128.maxValue u).WF ∧ (U128.maxValue u).toNat = W * W - 1 ∧
    ∀ v : U128, v.WF → v.toNat ≤ (U128.maxValue u).toNat := by
  refine ⟨⟨max_lt_W, max_lt_W⟩, by unfold U128.maxValue U128.toNat; decide, ?_⟩
  intro v hv; obtain ⟨h1, h0⟩ := hv; unfold U128.toNat U128.maxValue; simp only [W] at *; omega
theorem u256_maxValue_exact (u : U256) : (U256.maxValue u).WF ∧ (U256.maxValue u).toNat = W ^ 4 - 1 ∧
    ∀ v : U256, v.WF → v.toNat ≤ (U256.maxValue u).toNat := by
  refine ⟨⟨max_lt_W, max_lt_W, max_lt_W, max_lt_W⟩, by unfold U256.maxValue U256.toNat; decide, ?_⟩
  intro v hv; obtain ⟨h3, h2, h1, h0⟩ := hv; unfold U256.toNat U256.maxValue; simp only [W] at *; omega

theorem u64_isZero_exact (u : U64) : U64.isZero u = true ↔ u.toNat = 0 := by
  unfold U64.isZero U64.toNat; simp
theorem u128_isZero_exact (u : U128) : U128.isZero u = true ↔ u.toNat = 0 := by
  unfold U128.isZero U128.toNat
  simp only [Bool.and_eq_true, beq_iff_eq, W]
  omega
/-- (no well-formedness hypothesis is needed for `IsZero`) -/
theorem u256_isZero_exact (u : U256) : U256.isZero u = true ↔ u.toNat = 0 := by
  unfold U256.isZero U256.toNat
  simp only [Bool.and_eq_true, beq_iff_eq, W]
  omega

/-! ## Casts: widening preserves the value; narrowing keeps exactly the low limbs (`value mod 2^target`), hence
preserves every value that fits; the Go `log.Warnf` condition (some dropped limb `≠ 0`) is exactly "does not fit".
No cast panics. -/

theorem u64_toU64_exact (u : U64) : U64.toU64 u = u := rfl
theorem u64_toU128_exact (u : U64) (hu : u.WF) : (U64.toU128 u).WF ∧ (U64.toU128 u).toNat = u.toNat := by
  unfold U64.WF at hu
  exact ⟨⟨W_pos, hu⟩, by unfold U64.toU128 U128.toNat U64.toNat; simp only [W]; omega⟩
theorem u64_toU256_exact (u : U64) (hu : u.WF) : (U64.toU256 u).WF ∧ (U64.toU256 u).toNat = u.toNat := by
  unfold U64.WF at hu
  exact ⟨⟨W_pos, W_pos, W_pos, hu⟩, by unfold U64.toU256 U256.toNat U64.toNat; simp only [W]; omega⟩
theorem u64_asUint64_exact (u : U64) : U64.asUint64 u = u.toNat := rfl
theorem u64_set64_exact (u : U64) (v : Nat) (hv : v < W) : (U64.set64 u v).WF ∧ (U64.set64 u v).toNat = v :=
  ⟨hv, rfl⟩

theorem u128_toU64_exact (u : U128) (hu : u.WF) :
    (U128.toU64 u).WF ∧ (U128.toU64 u).toNat = u.toNat % W ∧
      (u.toNat < W → (U128.toU64 u).toNat = u.toNat) ∧ (u.toNat < W ↔ u.w1 = 0) := by
  obtain ⟨h1, h0⟩ := hu
  unfold U128.toU64 U64.WF U64.toNat U128.toNat
  simp only [W] at *
  omega
theorem u128_toU128_exact (u : U128) : U128.toU128 u = u := rfl
theorem u128_toU256_exact (u : U128) (hu : u.WF) : (U128.toU256 u).WF ∧ (U128.toU256 u).toNat = u.toNat := by
  obtain ⟨h1, h0⟩ := hu
  exact ⟨⟨W_pos, W_pos, h1, h0⟩, by unfold U128.toU256 U256.toNat U128.toNat; simp only [W]; omega⟩
/-- `AsUint64` is the value modulo `2^64` (the low limb), i.e. the value itself when it fits -/
theorem u128_asUint64_exact (u : U128) (hu : u.WF) :
    U128.asUint64 u = u.toNat % W ∧ (u.toNat < W → U128.asUint64 u = u.toNat) := by
  obtain ⟨h1, h0⟩ := hu
  unfold U128.asUint64 U128.toNat
  simp only [W] at *
  omega
theorem u128_set64_exact (u : U128) (v : Nat) (hv : v < W) : (U128.set64 u v).WF ∧ (U128.set64 u v).toNat = v :=
  ⟨⟨W_pos, hv⟩, by unfold U128.set64 U128.toNat; simp only [W]; omega⟩

theorem u256_toU64_exact (u : U256) (hu : u.WF) :
    (U256.toU64 u).WF ∧ (U256.toU64 u).toNat = u.toNat % W ∧
      (u.toNat < W → (U256.toU64 u).toNat = u.toNat) ∧ (u.toNat < W ↔ u.w3 = 0 ∧ u.w2 = 0 ∧ u.w1 = 0) := by
  obtain ⟨h3, h2, h1, h0⟩ := hu
  unfold U256.toU64 U64.WF U64.toNat U256.toNat
  simp only [W] at *
  omega
theorem u256_toU128_exact (u : U256) (hu : u.WF) :
    (U256.toU128 u).WF ∧ (U256.toU128 u).toNat = u.toNat % (W * W) ∧
      (u.toNat < W * W → (U256.toU128 u).toNat = u.toNat) ∧ (u.toNat < W * W ↔ u.w3 = 0 ∧ u.w2 = 0) := by
  obtain ⟨h3, h2, h1, h0⟩ := hu
  unfold U256.toU128 U128.WF U128.toNat U256.toNat
  simp only [W] at *
  omega
theorem u256_toU256_exact (u : U256) : U256.toU256 u = u := rfl
theorem u256_asUint64_exact (u : U256) (hu : u.WF) :
    U256.asUint64 u = u.toNat % W ∧ (u.toNat < W → U256.asUint64 u = u.toNat) := by
  obtain ⟨h3, h2, h1, h0⟩ := hu
  unfold U256.asUint64 U256.toNat
  simp only [W] at *
  omega
theorem u256_set64_exact (u : U256) (v : Nat) (hv : v < W) : (U256.set64 u v).WF ∧ (U256.set64 u v).toNat = v :=
  ⟨⟨W_pos, W_pos, W_pos, hv⟩, by unfold U256.set64 U256.toNat; simp only [W]; omega⟩

/-- narrowing then widening a value that fits is the identity; a value that does not fit is truncated -/
example : U256.WF ⟨0, 0, 7, 9⟩ ∧ (U256.toU128 ⟨0, 0, 7, 9⟩).toU256 = ⟨0, 0, 7, 9⟩ ∧
    U256.toU64 ⟨1, 2, 3, 4⟩ = ⟨4⟩ ∧ U256.toU128 ⟨1, 2, 3, 4⟩ = ⟨3, 4⟩ := ⟨by decide, rfl, rfl, rfl⟩

/-! ## `unint.go`: `ZeroUint` / `OneUint` / `From64` at the three widths -/

theorem zeroUint_exact : zeroUint64.toNat = 0 ∧ zeroUint128.toNat = 0 ∧ zeroUint256.toNat = 0 ∧
    zeroUint64.WF ∧ zeroUint128.WF ∧ zeroUint256.WF := ⟨rfl, by decide, by decide, by decide, by decide, by decide⟩
theorem oneUint_exact : oneUint64.toNat = 1 ∧ oneUint128.toNat = 1 ∧ oneUint256.toNat = 1 ∧
    oneUint64.WF ∧ oneUint128.WF ∧ oneUint256.WF := ⟨rfl, by decide, by decide, by decide, by decide, by decide⟩
theorem from64_exact (v : Nat) (hv : v < W) :
    (from64_64 v).toNat = v ∧ (from64_128 v).toNat = v ∧ (from64_256 v).toNat = v ∧
      (from64_64 v).WF ∧ (from64_128 v).WF ∧ (from64_256 v).WF :=
  ⟨(u64_set64_exact _ v hv).2, (u128_set64_exact _ v hv).2, (u256_set64_exact _ v hv).2,
   (u64_set64_exact _ v hv).1, (u128_set64_exact _ v hv).1, (u256_set64_exact _ v hv).1⟩

/-! ## `Equals` / `LessThan` / `LessThanOrEqual` / `GreaterThan` / `GreaterThanOrEqual` and `Cmp64` -/

theorem u64_equals_exact (u v : U64) : U64.equals u v = true ↔ u.toNat = v.toNat := by
  unfold U64.equals; rw [U64.cmp_eq_cmp3]; exact cmp3_eq _ _
theorem u64_lessThan_exact (u v : U64) : U64.lessThan u v = true ↔ u.toNat < v.toNat := by
  unfold U64.lessThan; rw [U64.cmp_eq_cmp3]; exact cmp3_lt _ _
theorem u64_greaterThan_exact (u v : U64) : U64.greaterThan u v = true ↔ v.toNat < u.toNat := by
  unfold U64.greaterThan; rw [U64.cmp_eq_cmp3]; exact cmp3_gt _ _
theorem u64_lessThanOrEqual_exact (u v : U64) : U64.lessThanOrEqual u v = true ↔ u.toNat ≤ v.toNat := by
  unfold U64.lessThanOrEqual U64.greaterThan; rw [U64.cmp_eq_cmp3]; exact cmp3_le _ _
theorem u64_greaterThanOrEqual_exact (u v : U64) : U64.greaterThanOrEqual u v = true ↔ v.toNat ≤ u.toNat := by
  unfold U64.greaterThanOrEqual U64.lessThan; rw [U64.cmp_eq_cmp3]; exact cmp3_ge _ _

theorem u128_equals_exact (u v : U128) (hu : u.WF) (hv : v.WF) : U128.equals u v = true ↔ u.toNat = v.toNat := by
  unfold U128.equals; rw [U128.cmp_eq_cmp3 u v hu hv]; exact cmp3_eq _ _
theorem u128_lessThan_exact (u v : U128) (hu : u.WF) (hv : v.WF) : U128.lessThan u v = true ↔ u.toNat < v.toNat := by
  unfold U128.lessThan; rw [U128.cmp_eq_cmp3 u v hu hv]; exact cmp3_lt _ _
theorem u128_greaterThan_exact (u v : U128) (hu : u.WF) (hv : v.WF) :
    U128.greaterThan u v = true ↔ v.toNat < u.toNat := by
  unfold U128.greaterThan; rw [U128.cmp_eq_cmp3 u v hu hv]; exact cmp3_gt _ _
theorem u128_lessThanOrEqual_exact (u v : U128) (hu : u.WF) (hv : v.WF) :
    U128.lessThanOrEqual u v = true ↔ u.toNat ≤ v.toNat := by
  unfold U128.lessThanOrEqual U128.greaterThan; rw [U128.cmp_eq_cmp3 u v hu hv]; exact cmp3_le _ _
theorem u128_greaterThanOrEqual_exact (u v : U128) (hu : u.WF) (hv : v.WF) :
    U128.greaterThanOrEqual u v = true ↔ v.toNat ≤ u.toNat := by
  unfold U128.greaterThanOrEqual U128.lessThan; rw [U128.cmp_eq_cmp3 u v hu hv]; exact cmp3_ge _ _
/-- `Cmp64` compares the 128-bit value with a 64-bit word -/
theorem u128_cmp64_exact (u : U128) (v : Nat) (hu : u.WF) (hv : v < W) :
    U128.cmp64 u v = if u.toNat < v then -1 else if u.toNat = v then 0 else 1 := by
  obtain ⟨h1, h0⟩ := hu
  unfold U128.cmp64 U128.toNat
  simp only [W] at *
  repeat' split
  all_goals first | rfl | omega

theorem u256_equals_exact (u v : U256) (hu : u.WF) (hv : v.WF) : U256.equals u v = true ↔ u.toNat = v.toNat := by
  unfold U256.equals; rw [U256.cmp_eq_cmp3 u v hu hv]; exact cmp3_eq _ _
theorem u256_lessThan_exact (u v : U256) (hu : u.WF) (hv : v.WF) : U256.lessThan u v = true ↔ u.toNat < v.toNat :=
  U256.lessThan_iff u v hu hv
theorem u256_greaterThan_exact (u v : U256) (hu : u.WF) (hv : v.WF) :
    U256.greaterThan u v = true ↔ v.toNat < u.toNat := U256.greaterThan_iff u v hu hv
theorem u256_lessThanOrEqual_exact (u v : U256) (hu : u.WF) (hv : v.WF) :
    U256.lessThanOrEqual u v = true ↔ u.toNat ≤ v.toNat := U256.lessThanOrEqual_iff u v hu hv
theorem u256_greaterThanOrEqual_exact (u v : U256) (hu : u.WF) (hv : v.WF) :
    U256.greaterThanOrEqual u v = true ↔ v.toNat ≤ u.toNat := U256.greaterThanOrEqual_iff u v hu hv

/-! ## carry forms of `Uint64`: `Add64` / `Sub64` / `Mul64` / `LeftShift64` / `RightShift64`

`bits.Add64` / `bits.Sub64` document the carry input as "must be 0 or 1; otherwise the behavior is undefined":
that is the hypothesis `c ≤ 1`. -/

/-- `value + carry * 2^64 = u + v + carryIn` -/
theorem u64_add64_exact (u v : U64) (c : Nat) :
    (U64.add64 u v c).1 + (U64.add64 u v c).2 * W = u.toNat + v.toNat + c ∧ (U64.add64 u v c).1 < W ∧
      (u.WF → v.WF → c ≤ 1 → (U64.add64 u v c).2 ≤ 1) := by
  unfold U64.add64 bitsAdd64 U64.toNat U64.WF
  simp only [W]
  omega
/-- `u + borrow * 2^64 = value + v + borrowIn` -/
theorem u64_sub64_exact (u v : U64) (c : Nat) (hu : u.WF) (hv : v.WF) (hc : c ≤ 1) :
    u.toNat + (U64.sub64 u v c).2 * W = (U64.sub64 u v c).1 + v.toNat + c ∧ (U64.sub64 u v c).1 < W ∧
      (U64.sub64 u v c).2 ≤ 1 := by
  have := bitsSub64_spec hu hv hc
  exact ⟨this.2.2, this.1, this.2.1⟩
/-- `value + carry * 2^64 = u * v`: the double-width product -/
theorem u64_mul64_exact (u v : U64) (hu : u.WF) (hv : v.WF) :
    (U64.mul64 u v).1 + (U64.mul64 u v).2 * W = u.toNat * v.toNat ∧ (U64.mul64 u v).1 < W ∧
      (U64.mul64 u v).2 < W := by
  have b := mul_limb_le hu hv
  unfold U64.mul64 bitsMul64 U64.toNat
  generalize u.w0 * v.w0 = p at *
  simp only [W] at *
  omega

/-- `LeftShift64(n, carryIn)` for every `n` and every carry-in word:
* `n < 64`: `value + carry * 2^64 = w * 2^n + carryIn mod 2^n` (the low `n` bits of `carryIn` enter, the high `n`
  bits of `w` leave) with `carry < 2^n`;
* `64 ≤ n < 128`: `value = carryIn`, `carry = w * 2^(n-64) mod 2^64`;
* `n ≥ 128`: `(0, 0)` (Go also logs a warning). -/
theorem u64_leftShift64_exact (w n c : Nat) (hw : w < W) :
    (n < 64 → (leftShift64 w n c).1 + (leftShift64 w n c).2 * W = w * 2 ^ n + c % 2 ^ n ∧
        (leftShift64 w n c).1 < W ∧ (leftShift64 w n c).2 < 2 ^ n) ∧
    (64 ≤ n → n < 128 → leftShift64 w n c = (c, w * 2 ^ (n - 64) % W)) ∧
    (128 ≤ n → leftShift64 w n c = (0, 0)) :=
  ⟨fun hn => leftShift64_small_any hn hw, fun h1 h2 => leftShift64_mid hw h1 h2, fun h => leftShift64_big h⟩

/-- `RightShift64(n, carryIn)`:
* `n < 64`: `value = w / 2^n + (the high n bits of carryIn, in place)`, `carry = (w mod 2^n) * 2^(64-n)`;
* `64 ≤ n < 128`: `value = carryIn`, `carry = w / 2^(n-64)`;
* `n ≥ 128`: `(0, 0)`. -/
theorem u64_rightShift64_exact (w n c : Nat) (hw : w < W) (hc : c < W) :
    (n < 64 → (rightShift64 w n c).1 = w / 2 ^ n + c / 2 ^ (64 - n) * 2 ^ (64 - n) ∧
        (rightShift64 w n c).2 = w % 2 ^ n * 2 ^ (64 - n)) ∧
    (64 ≤ n → n < 128 → rightShift64 w n c = (c, w / 2 ^ (n - 64))) ∧
    (128 ≤ n → rightShift64 w n c = (0, 0)) :=
  ⟨fun hn => rightShift64_small_any hn hw hc, fun h1 h2 => rightShift64_mid h1 h2, fun h => rightShift64_big h⟩

/-- one-equation reading for `n < 128`: `carry:value` is the 128-bit register holding `w * 2^n + (carryIn mod 2^n)`
(this is what the harness oracle checks against math/big) -/
theorem u64_leftShift64_register (w n c : Nat) (hn : n < 128) (hw : w < W) (hc : c < W) :
    (leftShift64 w n c).1 + (leftShift64 w n c).2 * W = (w * 2 ^ n + c % 2 ^ n) % (W * W) :=
  leftShift64_unified hn hw hc
/-- one-equation reading for `n < 128`: `value:carry` is the 128-bit register `w:0` shifted right by `n`, plus the
high `min n 64` bits of `carryIn` in place in the high word (`64 - n` is truncated subtraction) -/
theorem u64_rightShift64_register (w n c : Nat) (hn : n < 128) (hw : w < W) (hc : c < W) :
    (rightShift64 w n c).1 * W + (rightShift64 w n c).2 =
      w * W / 2 ^ n + c / 2 ^ (64 - n) * 2 ^ (64 - n) * W :=
  rightShift64_unified hn hw hc

example : leftShift64 9223372036854775809 1 3 = (3, 1) ∧ rightShift64 3 1 9223372036854775809 =
    (9223372036854775809, 9223372036854775808) := ⟨rfl, rfl⟩

/-! ## `Uint128.Div` / `Mod` / `Div64` / `Mod64` (wrappers of `QuoRem` / `QuoRem64`) and the panic condition -/

theorem u128_div_exact (u v : U128) (hu : u.WF) (hv : v.WF) (hv0 : v.toNat ≠ 0) :
    U128.div u v = .ok (U128.ofNat (u.toNat / v.toNat)) := by
  unfold U128.div; rw [U128.quoRem_spec u v hu hv hv0]; rfl
theorem u128_mod_exact (u v : U128) (hu : u.WF) (hv : v.WF) (hv0 : v.toNat ≠ 0) :
    U128.mod u v = .ok (U128.ofNat (u.toNat % v.toNat)) := by
  unfold U128.mod; rw [U128.quoRem_spec u v hu hv hv0]; rfl
theorem u128_div64_exact (u : U128) (v : Nat) (hu : u.WF) (hv : v ≠ 0) :
    U128.div64 u v = .ok (U128.ofNat (u.toNat / v)) := by
  unfold U128.div64; rw [u128_quoRem64_exact u v hu hv]; rfl
theorem u128_mod64_exact (u : U128) (v : Nat) (hu : u.WF) (hv : v ≠ 0) :
    U128.mod64 u v = .ok (u.toNat % v) := by
  unfold U128.mod64; rw [u128_quoRem64_exact u v hu hv]; rfl

/-- Euclidean characterisation: `Div` and `Mod` return the unique `q`, `r` with `u = q * v + r ∧ r < v` -/
theorem u128_div_mod_char (u v : U128) (hu : u.WF) (hv : v.WF) (hv0 : v.toNat ≠ 0) :
    ∃ q r, U128.div u v = .ok q ∧ U128.mod u v = .ok r ∧ q.WF ∧ r.WF ∧
      u.toNat = q.toNat * v.toNat + r.toNat ∧ r.toNat < v.toNat := by
  refine ⟨_, _, u128_div_exact u v hu hv hv0, u128_mod_exact u v hu hv hv0, U128.ofNat_WF _, U128.ofNat_WF _, ?_, ?_⟩
  · have hq : u.toNat / v.toNat < W * W := Nat.lt_of_le_of_lt (Nat.div_le_self _ _) (U128.toNat_lt hu)
    have hr : u.toNat % v.toNat < W * W := Nat.lt_of_le_of_lt (Nat.mod_le _ _) (U128.toNat_lt hu)
    rw [U128.toNat_ofNat hq, U128.toNat_ofNat hr, Nat.mul_comm]
    exact (Nat.div_add_mod _ _).symm
  · have hr : u.toNat % v.toNat < W * W := Nat.lt_of_le_of_lt (Nat.mod_le _ _) (U128.toNat_lt hu)
    rw [U128.toNat_ofNat hr]
    exact Nat.mod_lt _ (Nat.pos_of_ne_zero hv0)
theorem u128_div64_mod64_char (u : U128) (v : Nat) (hu : u.WF) (hv : v ≠ 0) :
    ∃ q r, U128.div64 u v = .ok q ∧ U128.mod64 u v = .ok r ∧ q.WF ∧
      u.toNat = q.toNat * v + r ∧ r < v := by
  refine ⟨_, _, u128_div64_exact u v hu hv, u128_mod64_exact u v hu hv, U128.ofNat_WF _, ?_,
    Nat.mod_lt _ (Nat.pos_of_ne_zero hv)⟩
  have hq : u.toNat / v < W * W := Nat.lt_of_le_of_lt (Nat.div_le_self _ _) (U128.toNat_lt hu)
  rw [U128.toNat_ofNat hq, Nat.mul_comm]
  exact (Nat.div_add_mod _ _).symm

/-- a zero divisor is a panic (`bits.Div64` divide error) in all six division entry points; together with the
`_exact` theorems: panic ⇔ `v = 0` -/
theorem u128_quoRem64_zero (u : U128) :
    U128.quoRem64 u 0 = .error () ∧ U128.div64 u 0 = .error () ∧ U128.mod64 u 0 = .error () := by
  have h : U128.quoRem64 u 0 = .error () := by
    unfold U128.quoRem64; rw [if_neg (Nat.not_lt_zero _)]; rfl
  refine ⟨h, ?_, ?_⟩
  · unfold U128.div64; rw [h]; rfl
  · unfold U128.mod64; rw [h]; rfl
theorem u128_quoRem_zero (u v : U128) (hv : v.WF) (hv0 : v.toNat = 0) :
    U128.quoRem u v = .error () ∧ U128.div u v = .error () ∧ U128.mod u v = .error () := by
  obtain ⟨k1, k0⟩ := hv
  have e1 : v.w1 = 0 := by unfold U128.toNat at hv0; simp only [W] at *; omega
  have e0 : v.w0 = 0 := by unfold U128.toNat at hv0; simp only [W] at *; omega
  have h : U128.quoRem u v = .error () := by
    unfold U128.quoRem; rw [if_pos e1, e0, (u128_quoRem64_zero u).1]; rfl
  refine ⟨h, ?_, ?_⟩
  · unfold U128.div; rw [h]; rfl
  · unfold U128.mod; rw [h]; rfl

example : U128.WF ⟨7, 5⟩ ∧ U128.div64 ⟨7, 5⟩ 3 = .ok ⟨2, 6148914691236517207⟩ ∧ U128.mod64 ⟨7, 5⟩ 3 = .ok 0 :=
  ⟨by decide, rfl, rfl⟩

/-! ## The well-formedness hypotheses are satisfiable on non-trivial values (and the model computes) -/

example : U128.WF ⟨5, 7⟩ ∧ (3 : Nat) < W ∧ U128.mul64 ⟨5, 7⟩ 3 = .ok ⟨15, 21⟩ := ⟨by decide, by decide, rfl⟩
example : U128.WF ⟨5, 7⟩ ∧ U128.WF ⟨5, 9⟩ ∧ U128.sub ⟨5, 7⟩ ⟨5, 9⟩ = .error () ∧
    U128.sub ⟨5, 9⟩ ⟨5, 7⟩ = .ok ⟨0, 2⟩ ∧ U128.cmp ⟨5, 7⟩ ⟨5, 9⟩ = -1 :=
  ⟨by decide, by decide, rfl, rfl, rfl⟩
example : U256.WF ⟨0, 0, 1, 2⟩ ∧ U256.WF ⟨0, 0, 3, 4⟩ ∧
    U256.mul ⟨0, 0, 1, 2⟩ ⟨0, 0, 3, 4⟩ = .ok ⟨0, 3, 10, 8⟩ ∧
    U256.mul ⟨1, 0, 0, 0⟩ ⟨0, 0, 1, 0⟩ = .error () := ⟨by decide, by decide, rfl, rfl⟩
example : U256.WF ⟨1, 2, 3, 4⟩ ∧ U256.leftShift ⟨1, 2, 3, 4⟩ 65 = ⟨4, 6, 8, 0⟩ ∧
    U256.rightShift ⟨1, 2, 3, 4⟩ 65 = ⟨0, 0, 9223372036854775809, 1⟩ := ⟨by decide, rfl, rfl⟩
example : U128.WF ⟨1, 2⟩ ∧ U128.leftShift ⟨1, 2⟩ 3 = ⟨8, 16⟩ ∧ U128.leftShift ⟨1, 2⟩ 64 = ⟨2, 0⟩ ∧
    U128.rightShift ⟨1, 2⟩ 1 = ⟨0, 9223372036854775809⟩ ∧ U128.rightShift ⟨1, 2⟩ 200 = ⟨0, 0⟩ :=
  ⟨by decide, rfl, rfl, rfl, rfl⟩

/-! ## `log.Warnf` as an outcome component (`…Warns` = number of warnings a call logs)

The narrowing casts log exactly one warning when the value does not fit the target width and none when it fits
("A Warning will be logged if an overflow occurs"); `LeftShift64`/`RightShift64` warn exactly for `n ≥ 128`, hence
`Uint64.LeftShift/RightShift` once and `Uint128.LeftShift/RightShift` twice for `n ≥ 128`, and `Uint256.LeftShift/
RightShift` never.  The counts are compared with the warnings captured from logrus on every case line, and regenerated
from the Go source (`Props/C20Gen.lean`, except for the loop methods of Uint256). -/

theorem u128_toU64_warns_exact (u : U128) (hu : u.WF) :
    (U128.toU64Warns u = 0 ↔ u.toNat < W) ∧ (U128.toU64Warns u = 1 ↔ W ≤ u.toNat) := by
  obtain ⟨h1, h0⟩ := hu
  unfold U128.toU64Warns U128.toNat
  simp only [W] at h1 h0 ⊢
  by_cases h : u.w1 = 0
  · have hb : (u.w1 != 0) = false := by simp [h]
    rw [hb, if_neg Bool.false_ne_true]; omega
  · have hb : (u.w1 != 0) = true := by simp [h]
    rw [hb, if_pos rfl]; omega

theorem u256_toU64_warns_exact (u : U256) (hu : u.WF) :
    (U256.toU64Warns u = 0 ↔ u.toNat < W) ∧ (U256.toU64Warns u = 1 ↔ W ≤ u.toNat) := by
  obtain ⟨h3, h2, h1, h0⟩ := hu
  unfold U256.toU64Warns U256.toNat
  simp only [W] at h3 h2 h1 h0 ⊢
  by_cases h : u.w3 = 0 ∧ u.w2 = 0 ∧ u.w1 = 0
  · have hb : (u.w3 != 0 || u.w2 != 0 || u.w1 != 0) = false := by simp [h.1, h.2.1, h.2.2]
    rw [hb, if_neg Bool.false_ne_true]; omega
  · have hb : (u.w3 != 0 || u.w2 != 0 || u.w1 != 0) = true := by
      simp only [Bool.or_eq_true, bne_iff_ne, ne_eq]; omega
    rw [hb, if_pos rfl]; omega

theorem u256_toU128_warns_exact (u : U256) (hu : u.WF) :
    (U256.toU128Warns u = 0 ↔ u.toNat < W * W) ∧ (U256.toU128Warns u = 1 ↔ W * W ≤ u.toNat) := by
  obtain ⟨h3, h2, h1, h0⟩ := hu
  unfold U256.toU128Warns U256.toNat
  simp only [W] at h3 h2 h1 h0 ⊢
  by_cases h : u.w3 = 0 ∧ u.w2 = 0
  · have hb : (u.w3 != 0 || u.w2 != 0) = false := by simp [h.1, h.2]
    rw [hb, if_neg Bool.false_ne_true]; omega
  · have hb : (u.w3 != 0 || u.w2 != 0) = true := by
      simp only [Bool.or_eq_true, bne_iff_ne, ne_eq]; omega
    rw [hb, if_pos rfl]; omega

/-- the cast is silent AND value-preserving exactly when the value fits; otherwise it warns once and keeps the low
limb(s) -/
theorem narrowing_cast_outcome (u : U128) (hu : u.WF) :
    (u.toNat < W → (U128.toU64 u).toNat = u.toNat ∧ U128.toU64Warns u = 0) ∧
    (W ≤ u.toNat → (U128.toU64 u).toNat = u.toNat % W ∧ U128.toU64Warns u = 1) :=
  ⟨fun h => ⟨(u128_toU64_exact u hu).2.2.1 h, (u128_toU64_warns_exact u hu).1.mpr h⟩,
   fun h => ⟨(u128_toU64_exact u hu).2.1, (u128_toU64_warns_exact u hu).2.mpr h⟩⟩

theorem shift64_warns_exact (n : Nat) :
    (leftShift64Warns n = 0 ↔ n < 128) ∧ (leftShift64Warns n = 1 ↔ 128 ≤ n) ∧
    (rightShift64Warns n = 0 ↔ n < 128) ∧ (rightShift64Warns n = 1 ↔ 128 ≤ n) := by
  unfold leftShift64Warns rightShift64Warns
  by_cases h : n < 128
  · rw [if_pos h]; omega
  · rw [if_neg h]; omega

theorem u64_shift_warns_exact (u : U64) (n : Nat) :
    U64.leftShiftWarns u n = (if n < 128 then 0 else 1) ∧ U64.rightShiftWarns u n = (if n < 128 then 0 else 1) :=
  ⟨rfl, rfl⟩

theorem u128_shift_warns_exact (u : U128) (n : Nat) :
    U128.leftShiftWarns u n = (if n < 128 then 0 else 2) ∧ U128.rightShiftWarns u n = (if n < 128 then 0 else 2) := by
  unfold U128.leftShiftWarns U128.rightShiftWarns leftShift64Warns rightShift64Warns
  by_cases h : n < 128
  · simp only [if_pos h]; exact ⟨trivial, trivial⟩
  · simp only [if_neg h]; exact ⟨trivial, trivial⟩

/-- `Uint256.LeftShift/RightShift` never warn: for `n < 256` the whole-limb loop leaves `n mod 64 < 128` -/
theorem u256_shift_warns_exact (u : U256) (n : Nat) (hu : u.WF) :
    U256.leftShiftWarns u n = 0 ∧ U256.rightShiftWarns u n = 0 := by
  unfold U256.leftShiftWarns U256.rightShiftWarns
  by_cases h : n ≥ 256
  · simp only [h, if_true, and_self]
  · have hn : n < 256 := by omega
    have e1 := (U256.limbsLeft_spec u n hu hn).1
    have e2 := (U256.limbsRight_spec u n hu hn).1
    have l : leftShift64Warns (n % 64) = 0 := (shift64_warns_exact _).1.mpr (by omega)
    have r : rightShift64Warns (n % 64) = 0 := (shift64_warns_exact _).2.2.1.mpr (by omega)
    simp only [h, if_false, e1, e2, l, r, and_self]

example : U128.WF ⟨1, 5⟩ ∧ U128.toU64Warns ⟨1, 5⟩ = 1 ∧ U128.toU64Warns ⟨0, 5⟩ = 0 ∧
    U128.leftShiftWarns ⟨1, 5⟩ 128 = 2 ∧ U256.toU128Warns ⟨0, 1, 2, 3⟩ = 1 := ⟨by decide, rfl, rfl, rfl, rfl⟩

end ObiVerif.Props.C20
