import ObiVerif.Model.Fp
import ObiVerif.Lemmas.FpBasic
import ObiVerif.Lemmas.FpArith
import ObiVerif.Lemmas.FpShift
import ObiVerif.Lemmas.FpMul
import ObiVerif.Lemmas.FpDiv
/-!
# C20 — fixed-precision integers agree with exact arithmetic (property theorems)

Every theorem is about `Model/Fp.lean`, the limb-by-limb transcription of `pkg/obifp`, and holds for
all well-formed operands (`WF` = every limb below 2^64).  "exact when it fits, signalled exactly when
it does not" is stated as one equation per operation.
-/
namespace ObiVerif.Props.C20
open ObiVerif.Fp

/-! ## 64 bits -/

theorem u64_add_exact (u v : U64) (hu : u.WF) (hv : v.WF) :
    U64.add u v = if u.toNat + v.toNat < W then .ok ⟨u.toNat + v.toNat⟩ else .error () := by
  unfold U64.WF at *
  unfold U64.add bitsAdd64 U64.toNat
  simp only [W] at *
  by_cases h : u.w0 + v.w0 < 18446744073709551616
  · have : ¬ (((u.w0 + v.w0 + 0) / 18446744073709551616 != 0) = true) := by simp; omega
    rw [if_neg this, if_pos h]; congr 2; omega
  · have : (((u.w0 + v.w0 + 0) / 18446744073709551616 != 0) = true) := by simp; omega
    rw [if_pos this, if_neg h]

theorem u64_sub_exact (u v : U64) :
    U64.sub u v = if v.toNat ≤ u.toNat then .ok ⟨u.toNat - v.toNat⟩ else .error () := by
  unfold U64.sub bitsSub64 U64.toNat
  by_cases h : v.w0 ≤ u.w0
  · simp [h]
  · simp [h]

theorem u64_mul_exact (u v : U64) :
    U64.mul u v = if u.toNat * v.toNat < W then .ok ⟨u.toNat * v.toNat⟩ else .error () := by
  unfold U64.mul U64.mul64 bitsMul64 U64.toNat
  generalize u.w0 * v.w0 = p
  simp only [W]
  by_cases h : p < 18446744073709551616
  · have : ¬ ((p / 18446744073709551616 != 0) = true) := by simp; omega
    rw [if_neg this, if_pos h]; congr 2; omega
  · have : ((p / 18446744073709551616 != 0) = true) := by simp; omega
    rw [if_pos this, if_neg h]

theorem u64_cmp_exact (u v : U64) :
    U64.cmp u v = if u.toNat < v.toNat then -1 else if u.toNat = v.toNat then 0 else 1 := by
  unfold U64.cmp U64.toNat
  repeat' split
  all_goals first | rfl | omega

/-! ## 128 bits -/

theorem u128_add_exact (u v : U128) (hu : u.WF) (hv : v.WF) :
    U128.add u v = if u.toNat + v.toNat < W * W then .ok (U128.ofNat (u.toNat + v.toNat)) else .error () := by
  obtain ⟨h1, h0⟩ := hu
  obtain ⟨k1, k0⟩ := hv
  unfold U128.add bitsAdd64 U128.toNat U128.ofNat
  simp only [W] at *
  by_cases h : u.w1 * 18446744073709551616 + u.w0 + (v.w1 * 18446744073709551616 + v.w0) < 18446744073709551616 * 18446744073709551616
  · have : ¬ (((u.w1 + v.w1 + (u.w0 + v.w0 + 0) / 18446744073709551616) / 18446744073709551616 != 0) = true) := by
      simp; omega
    rw [if_neg this, if_pos h]; congr 2 <;> omega
  · have : (((u.w1 + v.w1 + (u.w0 + v.w0 + 0) / 18446744073709551616) / 18446744073709551616 != 0) = true) := by
      simp; omega
    rw [if_pos this, if_neg h]

/-- `Add64`: no hypothesis on `v` is needed (a Go `uint64` argument is `< W` anyway) -/
theorem u128_add64_exact (u : U128) (v : Nat) (hu : u.WF) :
    U128.add64 u v = if u.toNat + v < W * W then .ok (U128.ofNat (u.toNat + v)) else .error () :=
  U128.add64_spec u v hu

theorem u128_sub_exact (u v : U128) (hu : u.WF) (hv : v.WF) :
    U128.sub u v = if v.toNat ≤ u.toNat then .ok (U128.ofNat (u.toNat - v.toNat)) else .error () :=
  U128.sub_spec u v hu hv

theorem u128_mul64_exact (u : U128) (v : Nat) (hu : u.WF) (hv : v < W) :
    U128.mul64 u v = if u.toNat * v < W * W then .ok (U128.ofNat (u.toNat * v)) else .error () :=
  U128.mul64_spec u v hu hv

theorem u128_cmp_exact (u v : U128) (hu : u.WF) (hv : v.WF) :
    U128.cmp u v = if u.toNat < v.toNat then -1 else if u.toNat = v.toNat then 0 else 1 :=
  U128.cmp_spec u v hu hv

/-- `Uint128.Mul` is exact (and signals overflow exactly) only when one of the two high limbs is zero:
the model (like the Go code, finding D27b) never looks at `u.w1 * v.w1`.  The full statement

  `U128.mul u v = if u.toNat * v.toNat < W * W then .ok (U128.ofNat (u.toNat * v.toNat)) else .error ()`

is FALSE without `hz`, see `u128_mul_hh_not_exact`. -/
theorem u128_mul_exact_partial (u v : U128) (hu : u.WF) (hv : v.WF) (hz : u.w1 = 0 ∨ v.w1 = 0) :
    U128.mul u v = if u.toNat * v.toNat < W * W then .ok (U128.ofNat (u.toNat * v.toNat)) else .error () := by
  obtain ⟨h1, h0⟩ := hu
  obtain ⟨k1, k0⟩ := hv
  unfold U128.mul bitsMul64 bitsAdd64 U128.toNat U128.ofNat
  have b00 := mul_limb_le h0 k0
  have b01 := mul_limb_le h0 k1
  have b10 := mul_limb_le h1 k0
  have e : (u.w1 * W + u.w0) * (v.w1 * W + v.w0) = (u.w1 * v.w0 + u.w0 * v.w1) * W + u.w0 * v.w0 := by
    rcases hz with hz | hz
    · simp [hz, Nat.mul_add, Nat.mul_assoc]
    · simp [hz, Nat.add_mul, Nat.mul_right_comm]
  rw [e]
  generalize u.w0 * v.w0 = p00 at *
  generalize u.w0 * v.w1 = p01 at *
  generalize u.w1 * v.w0 = p10 at *
  simp only [W] at *
  by_cases h : (p10 + p01) * 18446744073709551616 + p00 < 18446744073709551616 * 18446744073709551616
  · rw [if_pos h, if_neg (by simp; omega)]; congr 2 <;> omega
  · rw [if_neg h, if_pos (by simp; omega)]

/-- the hypothesis of `u128_mul_exact_partial` is satisfiable on a non-trivial operand pair
(`2^64+2` times `4`), and the result is the exact product -/
example : U128.WF ⟨1, 2⟩ ∧ U128.WF ⟨0, 4⟩ ∧ ((⟨1, 2⟩ : U128).w1 = 0 ∨ (⟨0, 4⟩ : U128).w1 = 0) ∧
    U128.mul ⟨1, 2⟩ ⟨0, 4⟩ = .ok ⟨4, 8⟩ := by
  refine ⟨by decide, by decide, Or.inr rfl, rfl⟩

/-- counterexample to full exactness of `Uint128.Mul`: `(2^64+2) * (3*2^64+4)` does not fit in 128 bits
but the model (and the Go code, whose own test pins this value) returns `{10, 8}` instead of panicking -/
theorem u128_mul_hh_not_exact :
    U128.WF ⟨1, 2⟩ ∧ U128.WF ⟨3, 4⟩ ∧ U128.mul ⟨1, 2⟩ ⟨3, 4⟩ = .ok ⟨10, 8⟩ ∧
      ¬ ((U128.toNat ⟨1, 2⟩) * (U128.toNat ⟨3, 4⟩) < W * W) :=
  ⟨by decide, by decide, rfl, by decide⟩

/-! ## 256 bits -/

theorem u256_add_exact (u v : U256) (hu : u.WF) (hv : v.WF) :
    U256.add u v = if u.toNat + v.toNat < W ^ 4 then .ok (U256.ofNat (u.toNat + v.toNat)) else .error () :=
  U256.add_spec u v hu hv

theorem u256_sub_exact (u v : U256) (hu : u.WF) (hv : v.WF) :
    U256.sub u v = if v.toNat ≤ u.toNat then .ok (U256.ofNat (u.toNat - v.toNat)) else .error () :=
  U256.sub_spec u v hu hv

theorem u256_cmp_exact (u v : U256) (hu : u.WF) (hv : v.WF) :
    U256.cmp u v = if u.toNat < v.toNat then -1 else if u.toNat = v.toNat then 0 else 1 :=
  U256.cmp_spec u v hu hv

/-! ## Shifts (every shift amount `n : Nat`, including `n ≥` the width)

Proofs are in `Lemmas/FpShift.lean`: `Nat.lor` / `Nat.land` on disjoint bit ranges become `+`, `%`, `/`,
then a case split on `n` as in `LeftShift64`. -/

theorem u64_shl_exact (u : U64) (n : Nat) (hu : u.WF) :
    (U64.leftShift u n).toNat = (u.toNat * 2 ^ n) % W := (U64.leftShift_spec u n hu).2
theorem u64_shl_wf (u : U64) (n : Nat) (hu : u.WF) : (U64.leftShift u n).WF := (U64.leftShift_spec u n hu).1
theorem u64_shr_exact (u : U64) (n : Nat) (hu : u.WF) :
    (U64.rightShift u n).toNat = u.toNat / 2 ^ n := (U64.rightShift_spec u n hu).2
theorem u64_shr_wf (u : U64) (n : Nat) (hu : u.WF) : (U64.rightShift u n).WF := (U64.rightShift_spec u n hu).1

theorem u128_shl_exact (u : U128) (n : Nat) (hu : u.WF) :
    (U128.leftShift u n).toNat = (u.toNat * 2 ^ n) % (W * W) := (U128.leftShift_spec u n hu).2
theorem u128_shl_wf (u : U128) (n : Nat) (hu : u.WF) : (U128.leftShift u n).WF := (U128.leftShift_spec u n hu).1
theorem u128_shr_exact (u : U128) (n : Nat) (hu : u.WF) :
    (U128.rightShift u n).toNat = u.toNat / 2 ^ n := (U128.rightShift_spec u n hu).2
theorem u128_shr_wf (u : U128) (n : Nat) (hu : u.WF) : (U128.rightShift u n).WF := (U128.rightShift_spec u n hu).1

theorem u256_shl_exact (u : U256) (n : Nat) (hu : u.WF) :
    (U256.leftShift u n).toNat = (u.toNat * 2 ^ n) % W ^ 4 := (U256.leftShift_spec u n hu).2
theorem u256_shl_wf (u : U256) (n : Nat) (hu : u.WF) : (U256.leftShift u n).WF := (U256.leftShift_spec u n hu).1
theorem u256_shr_exact (u : U256) (n : Nat) (hu : u.WF) :
    (U256.rightShift u n).toNat = u.toNat / 2 ^ n := (U256.rightShift_spec u n hu).2
theorem u256_shr_wf (u : U256) (n : Nat) (hu : u.WF) : (U256.rightShift u n).WF := (U256.rightShift_spec u n hu).1

/-! ## `Uint128.QuoRem64` -/

/-- `bits.Div64` never panics on either path when `v ≠ 0`; quotient and remainder are exact.
(`v < W` holds for any Go `uint64` but is not needed.) -/
theorem u128_quoRem64_exact (u : U128) (v : Nat) (hu : u.WF) (hv : v ≠ 0) :
    U128.quoRem64 u v = .ok (U128.ofNat (u.toNat / v), u.toNat % v) := by
  obtain ⟨q, h, hq, hval⟩ := U128.quoRem64_spec u v hu hv
  rw [h, U128.eq_ofNat_toNat hq, hval]

/-- same statement in "quotient / remainder" form -/
theorem u128_quoRem64_exact' (u : U128) (v : Nat) (hu : u.WF) (hv : v ≠ 0) :
    ∃ q r, U128.quoRem64 u v = .ok (q, r) ∧ q.WF ∧ q.toNat = u.toNat / v ∧ r = u.toNat % v := by
  obtain ⟨q, h, hq, hval⟩ := U128.quoRem64_spec u v hu hv
  exact ⟨q, _, h, hq, hval, rfl⟩

/-- hypotheses satisfiable on a non-trivial value (both `bits.Div64` calls are used: `u.w1 ≥ v`) -/
example : U128.WF ⟨7, 5⟩ ∧ (3 : Nat) ≠ 0 ∧ U128.quoRem64 ⟨7, 5⟩ 3 = .ok (⟨2, 6148914691236517207⟩, 0) :=
  ⟨by decide, by decide, rfl⟩

/-! ## `Uint128.QuoRem` (both branches) -/

/-- for `v ≠ 0`: no `bits.Div64` panic, `Mul64` / `Sub` / `Add64` never overflow, and quotient and
remainder are exact.  The branch `v.w1 ≠ 0` is the normalised trial quotient
`tq = ⌊u / (⌊v / 2^s⌋ 2^s)⌋ ∈ {⌊u/v⌋, ⌊u/v⌋ + 1}` (`trial_quot` in `Lemmas/FpDiv.lean`). -/
theorem u128_quoRem_exact (u v : U128) (hu : u.WF) (hv : v.WF) (hv0 : v.toNat ≠ 0) :
    U128.quoRem u v = .ok (U128.ofNat (u.toNat / v.toNat), U128.ofNat (u.toNat % v.toNat)) :=
  U128.quoRem_spec u v hu hv hv0

/-- hypotheses satisfiable on a non-trivial pair taking the trial-quotient branch (`v.w1 ≠ 0`) with the
final correction step: `(2^128 - 1) / (2^64 + 1) = 2^64 - 1` remainder `0` (evaluated through the
theorem, since `Nat.log2` does not reduce by `rfl`) -/
example : U128.WF ⟨18446744073709551615, 18446744073709551615⟩ ∧ U128.WF ⟨1, 1⟩ ∧ U128.toNat ⟨1, 1⟩ ≠ 0 ∧
    U128.quoRem ⟨18446744073709551615, 18446744073709551615⟩ ⟨1, 1⟩ =
      .ok (⟨0, 18446744073709551615⟩, ⟨0, 0⟩) :=
  ⟨by decide, by decide, by decide,
    (u128_quoRem_exact _ _ (by decide) (by decide) (by decide)).trans rfl⟩

/-! ## `Uint256.Mul` -/

/-- schoolbook 4×4 product: exact when it fits in 256 bits, `.error ()` (Go panic) exactly otherwise.
Proof by the row invariant `U256.mulOuter_spec` in `Lemmas/FpMul.lean`. -/
theorem u256_mul_exact (u v : U256) (hu : u.WF) (hv : v.WF) :
    U256.mul u v = if u.toNat * v.toNat < W ^ 4 then .ok (U256.ofNat (u.toNat * v.toNat)) else .error () :=
  U256.mul_spec u v hu hv

/-! ## `Uint256.Div` -/

/-- for `v ≠ 0` the shift-and-subtract loops terminate within their fuel (`≠ none`), neither `Sub` nor
`Add` panics, and the result is the exact quotient.  Proof in `Lemmas/FpDiv.lean`
(`U256.divInner_spec`, `U256.divOuter_spec`). -/
theorem u256_div_exact (u v : U256) (hu : u.WF) (hv : v.WF) (hv0 : v.toNat ≠ 0) :
    U256.div u v = some (.ok (U256.ofNat (u.toNat / v.toNat))) := by
  obtain ⟨q, h, hq, hval⟩ := U256.div_spec u v hu hv hv0
  rw [h, U256.eq_ofNat_toNat hq, hval]

/-- same statement in "quotient" form -/
theorem u256_div_exact' (u v : U256) (hu : u.WF) (hv : v.WF) (hv0 : v.toNat ≠ 0) :
    ∃ q, U256.div u v = some (.ok q) ∧ q.WF ∧ q.toNat = u.toNat / v.toNat :=
  U256.div_spec u v hu hv hv0

/-- division by zero is the only panic -/
theorem u256_div_zero (u v : U256) (hv : v.WF) (hv0 : v.toNat = 0) : U256.div u v = some (.error ()) := by
  unfold U256.div
  rw [if_pos ((U256.isZero_iff v hv).mpr hv0)]

set_option maxRecDepth 100000 in
/-- hypotheses satisfiable on a non-trivial pair (both loops run): `(2^128 + 5) / (2^64 + 3)` -/
example : U256.WF ⟨0, 1, 0, 5⟩ ∧ U256.WF ⟨0, 0, 1, 3⟩ ∧ U256.toNat ⟨0, 0, 1, 3⟩ ≠ 0 ∧
    U256.div ⟨0, 1, 0, 5⟩ ⟨0, 0, 1, 3⟩ = some (.ok ⟨0, 0, 0, 18446744073709551613⟩) :=
  ⟨by decide, by decide, by decide, rfl⟩

/-! ## The well-formedness hypotheses are satisfiable on non-trivial values (and the model computes) -/

example : U128.WF ⟨5, 7⟩ ∧ (3 : Nat) < W ∧ U128.mul64 ⟨5, 7⟩ 3 = .ok ⟨15, 21⟩ := ⟨by decide, by decide, rfl⟩
example : U128.WF ⟨5, 7⟩ ∧ U128.WF ⟨5, 9⟩ ∧ U128.sub ⟨5, 7⟩ ⟨5, 9⟩ = .error () ∧
    U128.sub ⟨5, 9⟩ ⟨5, 7⟩ = .ok ⟨0, 2⟩ ∧ U128.cmp ⟨5, 7⟩ ⟨5, 9⟩ = -1 :=
  ⟨by decide, by decide, rfl, rfl, rfl⟩
example : U256.WF ⟨0, 0, 1, 2⟩ ∧ U256.WF ⟨0, 0, 3, 4⟩ ∧
    U256.mul ⟨0, 0, 1, 2⟩ ⟨0, 0, 3, 4⟩ = .ok ⟨0, 3, 10, 8⟩ ∧
    U256.mul ⟨1, 0, 0, 0⟩ ⟨0, 0, 1, 0⟩ = .error () := ⟨by decide, by decide, rfl, rfl⟩
example : U256.WF ⟨1, 2, 3, 4⟩ ∧ U256.leftShift ⟨1, 2, 3, 4⟩ 65 = ⟨4, 6, 8, 0⟩ ∧
    U256.rightShift ⟨1, 2, 3, 4⟩ 65 = ⟨0, 0, 9223372036854775809, 1⟩ := ⟨by decide, rfl, rfl⟩
example : U128.WF ⟨1, 2⟩ ∧ U128.leftShift ⟨1, 2⟩ 3 = ⟨8, 16⟩ ∧ U128.leftShift ⟨1, 2⟩ 64 = ⟨2, 0⟩ ∧
    U128.rightShift ⟨1, 2⟩ 1 = ⟨0, 9223372036854775809⟩ ∧ U128.rightShift ⟨1, 2⟩ 200 = ⟨0, 0⟩ :=
  ⟨by decide, rfl, rfl, rfl, rfl⟩

end ObiVerif.Props.C20
