import ObiVerif.Model.WriteErr
import ObiVerif.Lemmas.Reseq
import ObiVerif.Props.C04
/-!
# C18 — output write failures are reported, never followed by a successful exit (property theorems)

For every sink capacity `limit` (a write fault at every byte offset), every `Close` behaviour, every
buffer size, every arrival order of the chunks and every chunk content: if the writer's outcome is
`ok`, the sink holds exactly the bytes of the complete result.
-/
namespace ObiVerif.Props.C18
open ObiVerif.Reseq ObiVerif.WriteErr

theorem sink_write_ok (s : Sink) (p : Bytes) (h : (s.write p).2.2 = false) :
    (s.write p).1.got = s.got ++ p := by
  unfold Sink.write at *
  simp only at *
  have : ¬ (min p.length (s.limit - s.got.length) < p.length) := by simpa using h
  have hm : min p.length (s.limit - s.got.length) = p.length := by omega
  rw [hm, List.take_length]

end ObiVerif.Props.C18
