import ObiVerif.Model.WriteErr
import ObiVerif.Lemmas.Reseq
import ObiVerif.Lemmas.WriteErr
import ObiVerif.Props.C04
/-!
# C18 — output write failures are reported, never followed by a successful exit (property theorems)

For every sink capacity `limit` (a write fault at every byte offset), every `Close` behaviour, every
buffer size (0 included: no theorem below needs `size > 0`), every arrival order of the chunks and every
chunk content (empty chunks included):

* the sink ends with exactly the first `limit` bytes of the complete result (`raw_exact`, `json_exact`);
* the outcome is `ok` **iff** the complete result fits and `Close` succeeds; so an `ok` exit implies the
  sink holds every byte (`*_ok_all_bytes`), there is no false alarm (`*_fits_ok`), and the outcome is
  `fatal` iff `limit < length ∨ closeFails` (`*_fatal_iff`);
* whatever the outcome, what the sink holds is a prefix of the complete result (`*_prefix_safe`).
-/
namespace ObiVerif.Props.C18
open ObiVerif.Reseq ObiVerif.WriteErr

theorem sink_write_ok (s : Sink) (p : Bytes) (h : (s.write p).2.2 = false) :
    (s.write p).1.got = s.got ++ p := by
  unfold Sink.write at *
  simp only at *
  have : ¬ (min p.length (s.limit - s.got.length) < p.length) := by simpa using h
  have hm : min p.length (s.limit - s.got.length) = p.length := by omega
  rw [hm, List.take_length]

/-- the complete FASTA / FASTQ / CSV result: chunk 0, chunk 1, …, chunk n-1 -/
def rawExpected (v : Nat → Bytes) (n : Nat) : Bytes := ((List.range n).map v).flatten

/-- the complete JSON result: `[\n`, the non-empty chunks in order joined by `,\n`, `\n]\n` -/
def jsonExpected (v : Nat → Bytes) (n : Nat) : Bytes :=
  openJson ++ ObiVerif.Props.C04.joinNE sepJson ((List.range n).map v) ++ closeJson

/-- the failing-sink model agrees with the plain writer model of C04 on what the complete result is -/
theorem rawExpected_eq_C04 (v : Nat → Bytes) (n : Nat) (ks : List Nat) (hp : ks.Perm (List.range n)) :
    rawExpected v n = ObiVerif.Writer.writeRaw (ks.map fun k => (k, v k)) :=
  (ObiVerif.Props.C04.raw_writer_perm v n ks hp).symm

theorem jsonExpected_eq_C04 (v : Nat → Bytes) (n : Nat) (ks : List Nat) (hp : ks.Perm (List.range n)) :
    jsonExpected v n = ObiVerif.Writer.writeJson (ks.map fun k => (k, v k)) :=
  (ObiVerif.Props.C04.json_writer_perm v n ks hp).symm

/-! ## complete characterisation -/

/-- FASTA / FASTQ / CSV over a sink failing after `limit` bytes: the sink ends with the first `limit`
bytes of the complete result; the exit is fatal iff the result does not fit or `Close` fails. -/
theorem raw_exact (size limit : Nat) (cf : Bool) (v : Nat → Bytes) (n : Nat) (ks : List Nat)
    (hp : ks.Perm (List.range n)) :
    writeRaw size limit cf (ks.map fun k => (k, v k)) =
      (if limit < (rawExpected v n).length || cf then .fatal else .ok, (rawExpected v n).take limit) := by
  unfold writeRaw
  rw [(run_perm emitRaw _ v n ks hp).1]
  have h := foldl_emitRaw_inv ((List.range n).map v) _ _ (BWInv.init size limit cf)
  rw [closeW_eq h]
  rfl

/-- JSON over a sink failing after `limit` bytes -/
theorem json_exact (size limit : Nat) (cf : Bool) (v : Nat → Bytes) (n : Nat) (ks : List Nat)
    (hp : ks.Perm (List.range n)) :
    writeJson size limit cf (ks.map fun k => (k, v k)) =
      (if limit < (jsonExpected v n).length || cf then .fatal else .ok, (jsonExpected v n).take limit) := by
  unfold writeJson
  simp only
  rw [(run_perm emitJson _ v n ks hp).1]
  have h0 : BWInv limit cf ((⟨size, [], false, ⟨limit, [], cf⟩⟩ : BW).write openJson)
      ObiVerif.Writer.openJson := write_inv (BWInv.init size limit cf) openJson
  have hsim := (foldl_emitJson_sim ((List.range n).map v)
    ⟨(⟨size, [], false, ⟨limit, [], cf⟩⟩ : BW).write openJson, false⟩
    ⟨ObiVerif.Writer.openJson, false⟩ rfl h0).2
  refine (closeW_eq (write_inv hsim closeJson)).trans ?_
  rw [(ObiVerif.Props.C04.foldl_emitJson _ _).1]
  simp only [Bool.false_eq_true, if_false]
  rfl

/-! ## 1. an `ok` exit implies the sink holds every byte, and `Close` did not fail -/

theorem exact_ok {limit : Nat} {cf : Bool} {exp got : Bytes}
    (h : ((if limit < exp.length || cf then Outcome.fatal else Outcome.ok), exp.take limit) = (Outcome.ok, got)) :
    got = exp ∧ cf = false := by
  by_cases hc : (limit < exp.length || cf) = true
  · rw [if_pos hc] at h; cases h
  · rw [if_neg hc] at h
    simp only [Bool.or_eq_true, decide_eq_true_eq, not_or, Nat.not_lt, Bool.not_eq_true] at hc
    have h2 : exp.take limit = got := (Prod.mk.inj h).2
    rw [List.take_of_length_le hc.1] at h2
    exact ⟨h2.symm, hc.2⟩

theorem raw_ok_all_bytes (size limit : Nat) (cf : Bool) (v : Nat → Bytes) (n : Nat) (ks : List Nat)
    (hp : ks.Perm (List.range n)) (got : Bytes)
    (h : writeRaw size limit cf (ks.map fun k => (k, v k)) = (.ok, got)) :
    got = ((List.range n).map v).flatten ∧ cf = false := by
  rw [raw_exact size limit cf v n ks hp] at h
  exact exact_ok h

theorem json_ok_all_bytes (size limit : Nat) (cf : Bool) (v : Nat → Bytes) (n : Nat) (ks : List Nat)
    (hp : ks.Perm (List.range n)) (got : Bytes)
    (h : writeJson size limit cf (ks.map fun k => (k, v k)) = (.ok, got)) :
    got = openJson ++ ObiVerif.Props.C04.joinNE sepJson ((List.range n).map v) ++ closeJson ∧ cf = false := by
  rw [json_exact size limit cf v n ks hp] at h
  exact exact_ok h

/-! ## 3. no false alarm: when everything fits and `Close` succeeds, the exit is `ok` with every byte -/

theorem exact_fits {limit : Nat} {exp : Bytes} (hl : exp.length ≤ limit) :
    ((if limit < exp.length || false then Outcome.fatal else Outcome.ok), exp.take limit) = (Outcome.ok, exp) := by
  have : ¬ (limit < exp.length) := by omega
  simp [this, List.take_of_length_le hl]

theorem raw_fits_ok (size limit : Nat) (cf : Bool) (v : Nat → Bytes) (n : Nat) (ks : List Nat)
    (hp : ks.Perm (List.range n)) (hl : (((List.range n).map v).flatten).length ≤ limit) (hcf : cf = false) :
    writeRaw size limit cf (ks.map fun k => (k, v k)) = (.ok, ((List.range n).map v).flatten) := by
  subst hcf
  rw [raw_exact size limit false v n ks hp]
  exact exact_fits hl

theorem json_fits_ok (size limit : Nat) (cf : Bool) (v : Nat → Bytes) (n : Nat) (ks : List Nat)
    (hp : ks.Perm (List.range n))
    (hl : (openJson ++ ObiVerif.Props.C04.joinNE sepJson ((List.range n).map v) ++ closeJson).length ≤ limit)
    (hcf : cf = false) :
    writeJson size limit cf (ks.map fun k => (k, v k)) =
      (.ok, openJson ++ ObiVerif.Props.C04.joinNE sepJson ((List.range n).map v) ++ closeJson) := by
  subst hcf
  rw [json_exact size limit false v n ks hp]
  exact exact_fits hl

/-! ## 4. the exit is fatal exactly when the result does not fit or `Close` fails -/

theorem exact_fatal_iff {limit : Nat} {cf : Bool} {exp : Bytes} :
    (if limit < exp.length || cf then Outcome.fatal else Outcome.ok) = Outcome.fatal ↔
      (limit < exp.length ∨ cf = true) := by
  by_cases hc : (limit < exp.length || cf) = true
  · rw [if_pos hc]
    simpa using hc
  · rw [if_neg hc]
    simp only [Bool.or_eq_true, decide_eq_true_eq] at hc
    constructor
    · intro h; cases h
    · intro h; exact absurd h hc

theorem raw_fatal_iff (size limit : Nat) (cf : Bool) (v : Nat → Bytes) (n : Nat) (ks : List Nat)
    (hp : ks.Perm (List.range n)) :
    (writeRaw size limit cf (ks.map fun k => (k, v k))).1 = .fatal ↔
      (limit < (((List.range n).map v).flatten).length ∨ cf = true) := by
  rw [raw_exact size limit cf v n ks hp]
  exact exact_fatal_iff

theorem json_fatal_iff (size limit : Nat) (cf : Bool) (v : Nat → Bytes) (n : Nat) (ks : List Nat)
    (hp : ks.Perm (List.range n)) :
    (writeJson size limit cf (ks.map fun k => (k, v k))).1 = .fatal ↔
      (limit < (openJson ++ ObiVerif.Props.C04.joinNE sepJson ((List.range n).map v) ++ closeJson).length
        ∨ cf = true) := by
  rw [json_exact size limit cf v n ks hp]
  exact exact_fatal_iff

/-- the outcome is always one of the two: `ok` iff the result fits and `Close` succeeds -/
theorem raw_ok_iff (size limit : Nat) (cf : Bool) (v : Nat → Bytes) (n : Nat) (ks : List Nat)
    (hp : ks.Perm (List.range n)) :
    (writeRaw size limit cf (ks.map fun k => (k, v k))).1 = .ok ↔
      ((((List.range n).map v).flatten).length ≤ limit ∧ cf = false) := by
  constructor
  · intro h
    have h' : ¬ (limit < (((List.range n).map v).flatten).length ∨ cf = true) := by
      rw [← raw_fatal_iff size limit cf v n ks hp, h]; intro hh; cases hh
    cases cf <;> simp at h' ⊢ <;> omega
  · rintro ⟨hl, hcf⟩
    rw [raw_fits_ok size limit cf v n ks hp hl hcf]

theorem json_ok_iff (size limit : Nat) (cf : Bool) (v : Nat → Bytes) (n : Nat) (ks : List Nat)
    (hp : ks.Perm (List.range n)) :
    (writeJson size limit cf (ks.map fun k => (k, v k))).1 = .ok ↔
      ((openJson ++ ObiVerif.Props.C04.joinNE sepJson ((List.range n).map v) ++ closeJson).length ≤ limit
        ∧ cf = false) := by
  constructor
  · intro h
    have h' := mt (json_fatal_iff size limit cf v n ks hp).mpr (by rw [h]; intro hh; cases hh)
    cases cf <;> simp at h' ⊢ <;> omega
  · rintro ⟨hl, hcf⟩
    rw [json_fits_ok size limit cf v n ks hp hl hcf]

/-! ## 5. prefix safety: whatever the outcome, the sink holds a prefix of the complete result -/

theorem raw_prefix_safe (size limit : Nat) (cf : Bool) (v : Nat → Bytes) (n : Nat) (ks : List Nat)
    (hp : ks.Perm (List.range n)) :
    (writeRaw size limit cf (ks.map fun k => (k, v k))).2 <+: ((List.range n).map v).flatten ∧
    (writeRaw size limit cf (ks.map fun k => (k, v k))).2.length ≤ limit := by
  rw [raw_exact size limit cf v n ks hp]
  exact ⟨List.take_prefix _ _, by simp only [List.length_take]; omega⟩

theorem json_prefix_safe (size limit : Nat) (cf : Bool) (v : Nat → Bytes) (n : Nat) (ks : List Nat)
    (hp : ks.Perm (List.range n)) :
    (writeJson size limit cf (ks.map fun k => (k, v k))).2 <+:
      openJson ++ ObiVerif.Props.C04.joinNE sepJson ((List.range n).map v) ++ closeJson ∧
    (writeJson size limit cf (ks.map fun k => (k, v k))).2.length ≤ limit := by
  rw [json_exact size limit cf v n ks hp]
  exact ⟨List.take_prefix _ _, by simp only [List.length_take]; omega⟩

/-- a fatal exit caused by a write error (not by `Close`) leaves the sink full: exactly `limit` bytes -/
theorem raw_short_write_full (size limit : Nat) (cf : Bool) (v : Nat → Bytes) (n : Nat) (ks : List Nat)
    (hp : ks.Perm (List.range n)) (hl : limit < (((List.range n).map v).flatten).length) :
    (writeRaw size limit cf (ks.map fun k => (k, v k))).2.length = limit := by
  rw [raw_exact size limit cf v n ks hp]
  simp only [List.length_take]
  unfold rawExpected; omega

theorem json_short_write_full (size limit : Nat) (cf : Bool) (v : Nat → Bytes) (n : Nat) (ks : List Nat)
    (hp : ks.Perm (List.range n))
    (hl : limit < (openJson ++ ObiVerif.Props.C04.joinNE sepJson ((List.range n).map v) ++ closeJson).length) :
    (writeJson size limit cf (ks.map fun k => (k, v k))).2.length = limit := by
  rw [json_exact size limit cf v n ks hp]
  simp only [List.length_take]
  unfold jsonExpected; omega

/-! ## non-vacuity: arrival order 1,0,2, an empty chunk in the middle, buffer of 4 bytes -/

/-- chunk texts of the examples: `ABC`, empty, `CBC` -/
def exV (k : Nat) : Bytes := if k = 1 then [] else [65 + k.toUInt8, 66, 67]

/-- raw, limit 4 of 6 bytes: fatal, the sink holds the first 4 bytes -/
example : writeRaw 4 4 false ([1, 0, 2].map fun k => (k, exV k)) = (.fatal, [65, 66, 67, 67]) := by
  rw [raw_exact 4 4 false exV 3 [1, 0, 2] (by decide)]
  decide

/-- JSON, limit 7 of 13 bytes (the fault falls inside the separator): fatal, first 7 bytes -/
example : writeJson 4 7 false ([1, 0, 2].map fun k => (k, exV k))
    = (.fatal, [91, 10, 65, 66, 67, 44, 10]) := by
  rw [json_exact 4 7 false exV 3 [1, 0, 2] (by decide)]
  decide

/-- `raw_fits_ok` / `raw_ok_all_bytes`: limit 6 = exactly the size of the result -/
example : writeRaw 4 6 false ([1, 0, 2].map fun k => (k, exV k)) = (.ok, [65, 66, 67, 67, 66, 67]) := by
  rw [raw_fits_ok 4 6 false exV 3 [1, 0, 2] (by decide) (by decide) rfl]
  decide

example : ∃ got, writeRaw 4 6 false ([1, 0, 2].map fun k => (k, exV k)) = (.ok, got) ∧
    got = [65, 66, 67, 67, 66, 67] ∧ false = false := by
  have h := raw_fits_ok 4 6 false exV 3 [1, 0, 2] (by decide) (by decide) rfl
  refine ⟨_, h, ?_⟩
  have := raw_ok_all_bytes 4 6 false exV 3 [1, 0, 2] (by decide) _ h
  exact ⟨by decide, this.2⟩

/-- `json_fits_ok` / `json_ok_all_bytes`: limit 13 = exactly the size of the document -/
example : writeJson 4 13 false ([1, 0, 2].map fun k => (k, exV k))
    = (.ok, [91, 10, 65, 66, 67, 44, 10, 67, 66, 67, 10, 93, 10]) := by
  rw [json_fits_ok 4 13 false exV 3 [1, 0, 2] (by decide) (by decide) rfl]
  decide

example : ∃ got, writeJson 4 13 false ([1, 0, 2].map fun k => (k, exV k)) = (.ok, got) ∧
    got = [91, 10, 65, 66, 67, 44, 10, 67, 66, 67, 10, 93, 10] ∧ false = false := by
  have h := json_fits_ok 4 13 false exV 3 [1, 0, 2] (by decide) (by decide) rfl
  refine ⟨_, h, ?_⟩
  have := json_ok_all_bytes 4 13 false exV 3 [1, 0, 2] (by decide) _ h
  exact ⟨by decide, this.2⟩

/-- `raw_fatal_iff`: one byte short is fatal; a failing `Close` alone is fatal -/
example : (writeRaw 4 5 false ([1, 0, 2].map fun k => (k, exV k))).1 = .fatal :=
  (raw_fatal_iff 4 5 false exV 3 [1, 0, 2] (by decide)).mpr (Or.inl (by decide))

example : (writeRaw 4 100 true ([1, 0, 2].map fun k => (k, exV k))).1 = .fatal :=
  (raw_fatal_iff 4 100 true exV 3 [1, 0, 2] (by decide)).mpr (Or.inr rfl)

example : (writeJson 4 12 false ([1, 0, 2].map fun k => (k, exV k))).1 = .fatal :=
  (json_fatal_iff 4 12 false exV 3 [1, 0, 2] (by decide)).mpr (Or.inl (by decide))

example : (writeJson 4 100 true ([1, 0, 2].map fun k => (k, exV k))).1 = .fatal :=
  (json_fatal_iff 4 100 true exV 3 [1, 0, 2] (by decide)).mpr (Or.inr rfl)

/-- `raw_ok_iff` / `json_ok_iff` -/
example : (writeRaw 4 6 false ([1, 0, 2].map fun k => (k, exV k))).1 = .ok :=
  (raw_ok_iff 4 6 false exV 3 [1, 0, 2] (by decide)).mpr ⟨by decide, rfl⟩

example : (writeJson 4 13 false ([1, 0, 2].map fun k => (k, exV k))).1 = .ok :=
  (json_ok_iff 4 13 false exV 3 [1, 0, 2] (by decide)).mpr ⟨by decide, rfl⟩

/-- prefix safety on the same inputs, limit in the middle -/
example : (writeRaw 4 3 true ([1, 0, 2].map fun k => (k, exV k))).2 <+: [65, 66, 67, 67, 66, 67] ∧
    (writeRaw 4 3 true ([1, 0, 2].map fun k => (k, exV k))).2.length ≤ 3 := by
  have h := raw_prefix_safe 4 3 true exV 3 [1, 0, 2] (by decide)
  have e : ((List.range 3).map exV).flatten = [65, 66, 67, 67, 66, 67] := by decide
  rwa [e] at h

example : (writeJson 4 9 false ([1, 0, 2].map fun k => (k, exV k))).2 <+:
      [91, 10, 65, 66, 67, 44, 10, 67, 66, 67, 10, 93, 10] ∧
    (writeJson 4 9 false ([1, 0, 2].map fun k => (k, exV k))).2.length ≤ 9 := by
  have h := json_prefix_safe 4 9 false exV 3 [1, 0, 2] (by decide)
  have e : openJson ++ ObiVerif.Props.C04.joinNE sepJson ((List.range 3).map exV) ++ closeJson
      = [91, 10, 65, 66, 67, 44, 10, 67, 66, 67, 10, 93, 10] := by decide
  rwa [e] at h

example : (writeRaw 4 3 false ([1, 0, 2].map fun k => (k, exV k))).2.length = 3 :=
  raw_short_write_full 4 3 false exV 3 [1, 0, 2] (by decide) (by decide)

example : (writeJson 4 9 false ([1, 0, 2].map fun k => (k, exV k))).2.length = 9 :=
  json_short_write_full 4 9 false exV 3 [1, 0, 2] (by decide) (by decide)

end ObiVerif.Props.C18
