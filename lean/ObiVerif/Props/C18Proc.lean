import ObiVerif.Props.C18Z
import ObiVerif.Lemmas.WriteProc
/-!
# C18 — the exit status, for every interleaving of the writers' reports and `main`'s wait (property theorems)

`fails : List Bool` are the verdicts of the writers of the command (one per output stream: one for `-o file`,
two for paired outputs, one per file of `obidistribute`); `sched` is any interleaving.

* `exit_nonzero_of_failure`: if some output fails, no interleaving ends the process with status 0;
* `exit_not_one_of_no_failure`: if none fails, no interleaving ends it with status 1 (no false alarm);
* `exit_sound`: the exit status, once there is one, is `1` iff some output fails;
* `no_deadlock`: as long as the process has not exited some thread can move (with `exit_sound`: under a fair
  scheduler the process exits, with the right status); `canon_exit`: sample fair schedule;
* `early_release_races`: in the order of the seeded regression C18-m2 (pipe released before the report) an
  interleaving with exit status 0 exists although the output failed — the quantifier over `sched` is not vacuous;
* `exit0_all_complete`: composed with the `Wfile` theorems: exit status 0 implies that every output of the
  command holds every byte of its result, whatever the number of outputs, the fault offsets, the arrival orders.
-/
namespace ObiVerif.Props.C18
open ObiVerif.WriteErr ObiVerif.WriteProc

theorem exit_nonzero_of_failure (fails : List Bool) (sched : List Tid) (h : true ∈ fails) :
    exitOf fails sched ≠ some 0 := by
  have h0 : FailInv (init fails) :=
    ⟨init_aliveFail fails h, (init_notDone fails).symm, rfl, by simp [init]⟩
  exact (foldl_inv step_failInv sched _ h0).exit

theorem exit_not_one_of_no_failure (early : Bool) (fails : List Bool) (sched : List Tid)
    (h : ∀ f ∈ fails, f = false) : (runSched early fails sched).exit ≠ some 1 := by
  have h0 : GoodInv (init fails) := ⟨init_allGood fails h, by simp [init]⟩
  exact (foldl_inv (step_goodInv early) sched _ h0).exit

theorem exit_is_0_or_1 (early : Bool) (fails : List Bool) (sched : List Tid) :
    (runSched early fails sched).exit = none ∨ (runSched early fails sched).exit = some 0 ∨
      (runSched early fails sched).exit = some 1 := by
  refine foldl_inv (I := fun p => p.exit = none ∨ p.exit = some 0 ∨ p.exit = some 1) ?_ sched _ (Or.inl rfl)
  intro p t h
  unfold WriteProc.step
  split
  · exact h
  · cases t with
    | main =>
      simp only
      cases p.main with
      | waiting => simp only; split <;> exact h
      | returned => exact Or.inr (Or.inl rfl)
    | writer i =>
      simp only
      split
      · exact h
      · exact h
      · exact Or.inr (Or.inr rfl)

/-- for every interleaving: the exit status is 1 iff some output failed -/
theorem exit_sound (fails : List Bool) (sched : List Tid) (c : Nat) (h : exitOf fails sched = some c) :
    c = if fails.any id then 1 else 0 := by
  by_cases hf : true ∈ fails
  · have h1 := exit_nonzero_of_failure fails sched hf
    have hany : fails.any id = true := List.any_eq_true.mpr ⟨true, hf, rfl⟩
    rw [hany, if_pos rfl]
    rcases exit_is_0_or_1 false fails sched with h2 | h2 | h2
    · unfold exitOf at h; rw [h2] at h; cases h
    · exact absurd h2 h1
    · unfold exitOf at h; rw [h2] at h; exact (Option.some.inj h).symm
  · have hall : ∀ f ∈ fails, f = false := by
      intro f hm
      cases f with
      | false => rfl
      | true => exact absurd hm hf
    have h1 := exit_not_one_of_no_failure false fails sched hall
    have hany : fails.any id = false := by
      rw [List.any_eq_false]
      intro x hx
      simp [hall x hx]
    rw [hany]
    rcases exit_is_0_or_1 false fails sched with h2 | h2 | h2
    · unfold exitOf at h; rw [h2] at h; cases h
    · unfold exitOf at h; rw [h2] at h; exact (Option.some.inj h).symm
    · exact absurd h2 h1

/-- no deadlock: as long as the process has not exited, some thread can move — a writer that has not released its
pipe reports or releases, and once all have released `main` returns.  With `exit_sound`: under any scheduler that
keeps scheduling threads that can move, the process exits, and with the right status. -/
theorem no_deadlock (fails : List Bool) (sched : List Tid) (h : exitOf fails sched = none) :
    ∃ t, WriteProc.step false (runSched false fails sched) t ≠ runSched false fails sched := by
  have hreg : (runSched false fails sched).reg = notDone (runSched false fails sched).ws :=
    foldl_inv (I := fun p => p.reg = notDone p.ws) step_regInv sched _ (init_notDone fails).symm
  unfold exitOf at h
  generalize runSched false fails sched = p at h hreg
  have hx : ¬ (p.exit.isSome = true) := by simp [h]
  cases hm : p.main with
  | returned =>
    refine ⟨.main, ?_⟩
    unfold WriteProc.step
    rw [if_neg hx]
    simp only [hm]
    intro hc
    have := congrArg Proc.exit hc
    simp [h] at this
  | waiting =>
    by_cases hr : p.reg = 0
    · refine ⟨.main, ?_⟩
      unfold WriteProc.step
      rw [if_neg hx]
      simp only [hm, hr, if_true]
      intro hc
      have := congrArg Proc.main hc
      simp [hm] at this
    · have hpos : 1 ≤ notDone p.ws := by omega
      obtain ⟨i, hi⟩ := notDone_can_move false p.ws hpos
      refine ⟨.writer i, ?_⟩
      unfold WriteProc.step
      rw [if_neg hx]
      simp only
      rcases hi with hi | hi
      · intro hc
        apply hi
        have := congrArg Proc.ws hc
        revert this
        cases (wstep false p.ws i).2 <;> simp
      · rw [hi]
        intro hc
        have := congrArg Proc.exit hc
        simp [h] at this

/-- the order of C18-m2 (pipe released before the report): the writer releases, `main` returns: status 0
although the output failed.  In the code's order the same interleaving leaves `main` blocked. -/
theorem early_release_races :
    (runSched true [true] [.writer 0, .main, .main]).exit = some 0 ∧
    (runSched false [true] [.writer 0, .main, .main]).exit = none ∧
    (runSched false [true] [.writer 0, .main, .main, .writer 0]).exit = some 1 := by decide

/-- sample fair schedule: three outputs, the second fails; two outputs, none fails -/
theorem canon_exit :
    exitOf [false, true, false] (canon 3) = some 1 ∧ exitOf [false, false] (canon 2) = some 0 ∧
    exitOf [true] (canon 1) = some 1 ∧ exitOf [] (canon 0) = some 0 := by decide

/-- exit status 0 implies every writer ended `ok` -/
theorem exit0_all_ok (results : List (Outcome × Bytes)) (sched : List Tid)
    (h : exitOf (results.map fun r => r.1 == .fatal) sched = some 0) : ∀ r ∈ results, r.1 = .ok := by
  intro r hr
  cases hc : r.1 with
  | ok => rfl
  | fatal =>
    exfalso
    refine exit_nonzero_of_failure _ sched ?_ h
    exact List.mem_map.mpr ⟨r, hr, by simp [hc]⟩

theorem exact_ok' {limit : Nat} {b : Bool} {exp : Bytes}
    (h : (if limit < exp.length || b then Outcome.fatal else Outcome.ok) = .ok) :
    ((if limit < exp.length || b then Outcome.fatal else Outcome.ok), exp.take limit) = (Outcome.ok, exp) := by
  by_cases hc : (limit < exp.length || b) = true
  · rw [if_pos hc] at h; cases h
  · rw [if_neg hc]
    simp only [Bool.or_eq_true, decide_eq_true_eq, not_or, Nat.not_lt] at hc
    rw [List.take_of_length_le hc.1]

/-- one output stream of a command: FASTA/FASTQ/CSV or JSON, owned or not, its fault offset, its arrival order -/
structure OutFile where
  json : Bool
  size : Nat
  limit : Nat
  cf : Bool
  own : Bool
  v : Nat → Bytes
  n : Nat
  ks : List Nat

def OutFile.result (f : OutFile) : Outcome × Bytes :=
  if f.json then writeJsonO f.size f.limit f.cf f.own (f.ks.map fun k => (k, f.v k))
  else writeRawO f.size f.limit f.cf f.own (f.ks.map fun k => (k, f.v k))

def OutFile.expected (f : OutFile) : Bytes := if f.json then jsonExpected f.v f.n else rawExpected f.v f.n

/-- **the property, process level**: whatever the number of outputs (paired files, the files of
`obidistribute`), the fault offset and `Close` behaviour of each, the arrival orders and the interleaving of the
goroutines: exit status 0 implies that every output holds every byte of its result. -/
theorem exit0_all_complete (files : List OutFile) (hp : ∀ f ∈ files, f.ks.Perm (List.range f.n))
    (sched : List Tid)
    (h : exitOf (files.map fun f => f.result.1 == .fatal) sched = some 0) :
    ∀ f ∈ files, f.result = (.ok, f.expected) := by
  intro f hf
  have h' : exitOf ((files.map OutFile.result).map fun r => r.1 == .fatal) sched = some 0 := by
    rw [List.map_map]; exact h
  have hok := exit0_all_ok (files.map OutFile.result) sched h' f.result (List.mem_map_of_mem hf)
  unfold OutFile.result OutFile.expected at *
  cases hj : f.json with
  | true =>
    simp only [hj, if_true] at hok ⊢
    rw [jsonO_exact f.size f.limit f.cf f.own f.v f.n f.ks (hp f hf)] at hok ⊢
    exact exact_ok' hok
  | false =>
    simp only [hj, Bool.false_eq_true, if_false] at hok ⊢
    rw [rawO_exact f.size f.limit f.cf f.own f.v f.n f.ks (hp f hf)] at hok ⊢
    exact exact_ok' hok

/-- conversely the failure of any one output makes every interleaving end with a non-zero status -/
theorem one_bad_file_exit_nonzero (files : List OutFile) (hp : ∀ f ∈ files, f.ks.Perm (List.range f.n))
    (f : OutFile) (hf : f ∈ files) (hbad : f.limit < f.expected.length ∨ (f.own && f.cf) = true)
    (sched : List Tid) : exitOf (files.map fun f => f.result.1 == .fatal) sched ≠ some 0 := by
  refine exit_nonzero_of_failure _ sched (List.mem_map.mpr ⟨f, hf, ?_⟩)
  unfold OutFile.result OutFile.expected at *
  cases hj : f.json with
  | true =>
    simp only [hj, if_true] at hbad ⊢
    rw [jsonO_exact f.size f.limit f.cf f.own f.v f.n f.ks (hp f hf)]
    rcases hbad with h | h <;> simp [h]
  | false =>
    simp only [hj, Bool.false_eq_true, if_false] at hbad ⊢
    rw [rawO_exact f.size f.limit f.cf f.own f.v f.n f.ks (hp f hf)]
    rcases hbad with h | h <;> simp [h]

/-- non-vacuity: a paired FASTQ output whose second file is one byte short, for the schedule `canon` -/
example : exitOf ([(⟨false, 4, 6, false, true, exV, 3, [1, 0, 2]⟩ : OutFile),
    ⟨false, 4, 5, false, true, exV, 3, [2, 1, 0]⟩].map fun f => f.result.1 == .fatal) (canon 2) ≠ some 0 :=
  one_bad_file_exit_nonzero _ (by intro f hf; simp at hf; rcases hf with rfl | rfl <;> decide)
    ⟨false, 4, 5, false, true, exV, 3, [2, 1, 0]⟩ (by simp) (Or.inl (by decide)) _

end ObiVerif.Props.C18
