import ObiVerif.Props.C11
import ObiVerif.Model.PcrGlue
import ObiVerif.Lemmas.PcrGlue
set_option Elab.async false
/-!
# C11, glue: `obipcr` from the command line to the amplicons

The kernel theorems of `Props/C11.lean` are about `_Pcr` with given options on a given template.  This file is about what the
USER of the command gets (`Model/PcrGlue.lean`): the words of the command line fill the option variables (`parse`), the
getters and `CLIPCR` turn them into the option list of the worker (`cliSetters`, `makeOptions`), EVERY template of the input
goes to the worker (`cliCommand`: no pre-filter), whole or cut with parameters derived from `-L`, `-D` and the lengths of the
primer STRINGS (an upper bound of the pattern lengths: `patStr_length_ge`).

* `parse_required`, `parse_fields_independent`, `parse_defaults` — the parser: `--forward`, `--reverse`, `-L` are mandatory; an
  option changes its own variable only; an option that is not written leaves the built-in default (`-l 0`, `-D -1` = no flank,
  `-e 0`, linear, not fragmented).
* `cli_setters_spec` — the worker gets exactly: both primer strings with the budget `-e`, `-l` when positive (else no lower
  bound), `-L`, `-D` when `≥ 0` (else no flank), `--only-complete-flanking`, `--circular`: the record `cliOpts` every `cli_*`
  theorem of `Props/C11.lean` is about.
* `cli_every_template_searched` — one answer per template, in order, each the answer of `cliRun` on that template alone:
  nothing dropped, whatever the length of the template.
* `cli_pcr_complete` — **primers of the WHOLE grammar, every template of every length from 0 up, every batch**: the command
  does not end in `log.Fatalf`, and the records reported for template `k` are exactly the records `_Pcr` defines on that
  template (`pcrL`, described pair by pair by `cli_linear_spec`), with and without `--fragmented`;
  `cli_pcr_complete_pairs`: every pair of sites within the bounds is reported, on either strand.
* `cli_circular_whole` — with `--circular` every template is searched whole, as a circle, with the same options.
-/
namespace ObiVerif.Props.C11Glue
open ObiVerif ObiVerif.Apat ObiVerif.Pcr ObiVerif.Props.C11

/-! ## the parser -/

/-- `--forward`, `--reverse` and `-L` are mandatory: the command line is refused without one of them (the built-in `-L -1`
would reject every pair, `cli_negative_max`) -/
theorem parse_required (args : List Arg) :
    parse args = none ↔ ¬ (args.any Arg.isForward = true ∧ args.any Arg.isReverse = true ∧ args.any Arg.isMaxLength = true) := by
  unfold parse
  by_cases h : (args.any Arg.isForward && args.any Arg.isReverse && args.any Arg.isMaxLength) = true
  · rw [if_pos h]; simp only [Bool.and_eq_true] at h; simp [h.1.1, h.1.2, h.2]
  · rw [if_neg h]; simp only [Bool.and_eq_true] at h; simp only [true_iff]; intro g; exact h ⟨⟨g.1, g.2.1⟩, g.2.2⟩

/-- **an option changes its own variable only**: each of the nine variables after the parser is the fold of ITS option over
the command line (the last value written, or the initial value) -/
theorem parse_fields_independent (args : List Arg) (v : Vars) :
    (args.foldl Vars.set v).forward = args.foldl (fun acc a => match a with | .forward s => s | _ => acc) v.forward ∧
    (args.foldl Vars.set v).reverse = args.foldl (fun acc a => match a with | .reverse s => s | _ => acc) v.reverse ∧
    (args.foldl Vars.set v).mismatch = args.foldl (fun acc a => match a with | .mismatch n => n | _ => acc) v.mismatch ∧
    (args.foldl Vars.set v).minLength = args.foldl (fun acc a => match a with | .minLength n => n | _ => acc) v.minLength ∧
    (args.foldl Vars.set v).maxLength = args.foldl (fun acc a => match a with | .maxLength n => n | _ => acc) v.maxLength ∧
    (args.foldl Vars.set v).delta = args.foldl (fun acc a => match a with | .delta n => n | _ => acc) v.delta ∧
    (args.foldl Vars.set v).onlyFull = args.foldl (fun acc a => match a with | .onlyFull => true | _ => acc) v.onlyFull ∧
    (args.foldl Vars.set v).circular = args.foldl (fun acc a => match a with | .circular => true | _ => acc) v.circular ∧
    (args.foldl Vars.set v).fragmented = args.foldl (fun acc a => match a with | .fragmented => true | _ => acc) v.fragmented := by
  induction args generalizing v with
  | nil => simp
  | cons a rest ih =>
    simp only [List.foldl_cons]
    have := ih (v.set a)
    cases a <;> exact this

/-- **the built-in defaults**: an option that is not written keeps the initial value of its variable — no lower bound
(`-l 0`), no flank (`-D -1`), no mismatch, linear, not fragmented, flanks may be clipped -/
theorem parse_defaults (args : List Arg) (v : Vars) (h : parse args = some v) :
    ((∀ n, Arg.minLength n ∉ args) → v.minLength = 0) ∧ ((∀ n, Arg.delta n ∉ args) → v.delta = -1) ∧
    ((∀ n, Arg.mismatch n ∉ args) → v.mismatch = 0) ∧ (Arg.onlyFull ∉ args → v.onlyFull = false) ∧
    (Arg.circular ∉ args → v.circular = false) ∧ (Arg.fragmented ∉ args → v.fragmented = false) := by
  unfold parse at h
  split at h
  · cases h
    obtain ⟨_, _, h3, h4, _, h6, h7, h8, h9⟩ := parse_fields_independent args Vars.default
    refine ⟨fun g => ?_, fun g => ?_, fun g => ?_, fun g => ?_, fun g => ?_, fun g => ?_⟩
    · rw [h4]; apply foldl_keep; intro a ha y; cases a <;> first | rfl | exact absurd ha (g _)
    · rw [h6]; apply foldl_keep; intro a ha y; cases a <;> first | rfl | exact absurd ha (g _)
    · rw [h3]; apply foldl_keep; intro a ha y; cases a <;> first | rfl | exact absurd ha (g _)
    · rw [h7]; apply foldl_keep; intro a ha y; cases a <;> first | rfl | exact absurd ha g
    · rw [h8]; apply foldl_keep; intro a ha y; cases a <;> first | rfl | exact absurd ha g
    · rw [h9]; apply foldl_keep; intro a ha y; cases a <;> first | rfl | exact absurd ha g
  · cases h

/-- non-vacuity / test: `obipcr --forward ACG# --reverse GG -L 40 -l 20 -c`, and the same without `-L` (refused) -/
example :
    parse [.forward [65, 67, 71, 35], .reverse [71, 71], .maxLength 40, .minLength 20, .circular] =
      some ⟨true, [65, 67, 71, 35], [71, 71], 0, 20, 40, false, -1, false⟩ ∧
    parse [.forward [65, 67, 71, 35], .reverse [71, 71], .minLength 20, .circular] = none := by decide

/-! ## getters, option list, `MakeOptions` -/

/-- **what the worker is built with**, for every value of the nine variables: both primer strings with the budget `-e`, and the
five scalar options `cliOpts` (`-l` only when positive, `-D` only when `≥ 0`: the defaults 0 / −1 of `MakeOptions` otherwise) -/
theorem cli_setters_spec (v : Vars) :
    (makeOptions (cliSetters v)).forward = some v.forward ∧ (makeOptions (cliSetters v)).reverse = some v.reverse ∧
    (makeOptions (cliSetters v)).forwardError = v.mismatch ∧ (makeOptions (cliSetters v)).reverseError = v.mismatch ∧
    (makeOptions (cliSetters v)).opts = cliOpts v.minLength v.maxLength v.delta v.onlyFull v.circular := by
  obtain ⟨circ, fw, rv, e, mn, mx, frag, delta, full⟩ := v
  unfold cliSetters makeOptions Vars.withExtension cliOpts ApatOptions.opts
  by_cases h1 : mn > 0 <;> by_cases h2 : delta ≥ 0 <;> cases circ <;>
    simp [h1, h2, Setter.apply, ApatOptions.default]

/-- `cliRunV` (options from the setters) is the `cliRun` of `Model/PcrAnnot.lean` (options `cliOpts`) every `cli_*` theorem of
`Props/C11.lean` is about -/
theorem cliRunV_eq (P : Primers) (v : Vars) (t : Bytes) :
    cliRunV P v t = cliRun P v.forward.length v.reverse.length v.minLength v.maxLength v.delta v.onlyFull v.circular v.fragmented t := by
  unfold cliRunV cliRun
  rw [(cli_setters_spec v).2.2.2.2]
  rfl

/-- the command runs iff the two primer strings compile with the budget `-e`; its answer is then one entry per template -/
theorem cliCommand_eq (v : Vars) (ts : List Bytes) :
    cliCommand v ts = (mkPrimers v.forward v.reverse v.mismatch.toNat v.mismatch.toNat).map fun P =>
      ts.map fun t => cliRun P v.forward.length v.reverse.length v.minLength v.maxLength v.delta v.onlyFull v.circular v.fragmented t := by
  unfold cliCommand
  obtain ⟨h1, h2, h3, h4, _⟩ := cli_setters_spec v
  simp only [h1, h2, h3, h4]
  cases mkPrimers v.forward v.reverse v.mismatch.toNat v.mismatch.toNat with
  | none => rfl
  | some P =>
    simp only [Option.map_some]
    congr 1
    apply List.map_congr_left
    intro t _
    exact cliRunV_eq P v t

/-- **every template is searched**: the answer of the command has one entry per template of the input, in order, and entry `k`
is what the command answers on template `k` alone — no template is dropped, filtered or merged, whatever its length -/
theorem cli_every_template_searched (v : Vars) (ts : List Bytes) (per) (h : cliCommand v ts = some per) :
    per.length = ts.length ∧ ∀ k (hk : k < ts.length), cliCommand v [ts[k]] = some [per[k]?.getD none] ∧ per[k]? ≠ none := by
  simp only [cliCommand_eq] at h ⊢
  cases hp : mkPrimers v.forward v.reverse v.mismatch.toNat v.mismatch.toNat with
  | none => rw [hp] at h; cases h
  | some P =>
    simp only [hp, Option.map_some, Option.some.injEq] at h ⊢
    subst h
    refine ⟨by simp, fun k hk => ?_⟩
    simp [hk]

/-! ## the records of a template -/

/-- **`cli_pcr_complete`: the user of `obipcr` gets, for EVERY template, exactly the amplicons the primers define** — primers
written in the whole grammar (`['!'] (Letter | '[' Letter+ ']') ['#']`, IUPAC letters, 1..63 positions), every budget `-e`,
every `-l`, `-L`, `-D`, `--only-complete-flanking`, with or without `--fragmented` (then `-L > 0` and an overlap below `100·L`,
else `IFragments` does not advance), linear search; **every batch `ts` of templates of every length from 0 up** (empty, shorter
than a primer string, shorter than a pattern, exactly the product): the command does not end in `log.Fatalf`, gives one answer
per template, and the records of template `k` are exactly the records of `_Pcr` on that template with the options of the
command line (`pcrL … (cliOpts …)`: the pairs of `cli_linear_spec`).  Nothing is filtered before the search and no parameter
of the search depends on the length of a primer STRING (only the overlap of the pieces does, as an upper bound). -/
theorem cli_pcr_complete (tf tr : List Tok) (hf : ∀ t ∈ tf, t.WF) (hr : ∀ t ∈ tr, t.WF)
    (hfn : tf ≠ []) (hrn : tr ≠ []) (hfl : tf.length ≤ 63) (hrl : tr.length ≤ 63) (e : Nat) (v : Vars)
    (hvf : v.forward = patStr tf) (hvr : v.reverse = patStr tr) (hve : v.mismatch = e) (hlin : v.circular = false)
    (hfrag : v.fragmented = true → 0 < v.maxLength ∧
      (cliFragParams v.maxLength (patStr tf).length (patStr tr).length v.delta).2.2 < v.maxLength * 100)
    (ts : List Bytes) :
    ∃ P per, mkPrimers (patStr tf) (patStr tr) e e = some P ∧ cliCommand v ts = some per ∧ per.length = ts.length ∧
      ∀ k (hk : k < ts.length), ∀ x,
        x ∈ recordsOf (per[k]?.getD none) ↔ x ∈ pcrL P (cliOpts v.minLength v.maxLength v.delta v.onlyFull false) ts[k] := by
  obtain ⟨P, hP, hok, _⟩ := mkPrimers_grammar tf tr hf hr hfn hrn hfl hrl e e
  have hcmd := cliCommand_eq v ts
  rw [hvf, hvr, hve, Int.toNat_natCast, hP, Option.map_some, hlin] at hcmd
  refine ⟨P, _, hP, hcmd, by simp, fun k hk x => ?_⟩
  simp only [List.getElem?_map, List.getElem?_eq_getElem hk, Option.map_some, Option.getD_some]
  generalize ts[k] = t
  by_cases hfr : v.fragmented = true
  · obtain ⟨hmx, hstep⟩ := hfrag hfr
    rw [hfr]
    by_cases hlong : v.maxLength * 1000 < t.length
    · obtain ⟨P', ps, hP', hps, hiff⟩ := cli_fragmented_marked tf tr hf hr hfn hrn hfl hrl e v.minLength v.maxLength v.delta
        v.onlyFull hmx t hlong hstep
      rw [hP] at hP'; cases hP'
      rw [cliRun_pieces P hok _ _ _ _ _ _ t ps hps, hiff x]
      simp only [recordsOf, List.mem_flatMap, List.mem_map]
      constructor
      · rintro ⟨c, ⟨p, hp, rfl⟩, y, hy, rfl⟩
        exact ⟨p, hp, y, hy, rfl⟩
      · rintro ⟨p, hp, y, hy, rfl⟩
        exact ⟨_, ⟨p, hp, rfl⟩, y, hy, rfl⟩
    · have hp : cliPieces v.maxLength (patStr tf).length (patStr tr).length v.delta false true t.length = some none := by
        unfold cliPieces fragments cliFragParams
        simp only [Bool.not_false, Bool.and_self, if_true]
        rw [if_pos (by omega)]
      rw [cliRun_whole P hok _ _ _ _ _ _ _ t hp]
      simp [recordsOf, shiftAmp_zero]
  · have hfr' : v.fragmented = false := by cases h : v.fragmented <;> simp_all
    rw [hfr']
    have hp : cliPieces v.maxLength (patStr tf).length (patStr tr).length v.delta false false t.length = some none := by
      unfold cliPieces; simp
    rw [cliRun_whole P hok _ _ _ _ _ _ _ t hp]
    simp [recordsOf, shiftAmp_zero]

/-- **… read pair by pair** (the converse half of the property, for the user of the command): on every template of the batch,
every site of the forward primer followed downstream by a site of the complemented reverse primer — at least one symbol apart,
`-l ≤` distance unless `-l ≤ 0`, distance `≤ -L` unless `-L = 0`, window as `-D` / `--only-complete-flanking` ask — is reported
as a `forward` record, and every such pair of the reverse primer and the complemented forward primer as a `reverse` record. -/
theorem cli_pcr_complete_pairs (tf tr : List Tok) (hf : ∀ t ∈ tf, t.WF) (hr : ∀ t ∈ tr, t.WF)
    (hfn : tf ≠ []) (hrn : tr ≠ []) (hfl : tf.length ≤ 63) (hrl : tr.length ≤ 63) (e : Nat) (v : Vars)
    (hvf : v.forward = patStr tf) (hvr : v.reverse = patStr tr) (hve : v.mismatch = e) (hlin : v.circular = false)
    (hfrag : v.fragmented = true → 0 < v.maxLength ∧
      (cliFragParams v.maxLength (patStr tf).length (patStr tr).length v.delta).2.2 < v.maxLength * 100)
    (ts : List Bytes) :
    ∃ P per, mkPrimers (patStr tf) (patStr tr) e e = some P ∧ cliCommand v ts = some per ∧
      ∀ k (hk : k < ts.length),
        (∀ i ki j kj a b, MatchAt P.forward (enc ts[k]) i ki → MatchAt P.crev (enc ts[k]) j kj →
          (1 ≤ (j : Int) - ((i : Int) + P.forward.patlen) ∧ (v.minLength ≤ 0 ∨ v.minLength ≤ (j : Int) - ((i : Int) + P.forward.patlen)) ∧
            (v.maxLength = 0 ∨ (j : Int) - ((i : Int) + P.forward.patlen) ≤ v.maxLength)) →
          cliWindow v.delta v.onlyFull ts[k].length i P.forward.patlen j P.crev.patlen = some (a, b) →
          mkAmp true ts[k] i ki j kj P.forward.patlen P.crev.patlen a b ∈ recordsOf (per[k]?.getD none)) ∧
        (∀ i ki j kj a b, MatchAt P.reverse (enc ts[k]) i ki → MatchAt P.cfwd (enc ts[k]) j kj →
          (1 ≤ (j : Int) - ((i : Int) + P.reverse.patlen) ∧ (v.minLength ≤ 0 ∨ v.minLength ≤ (j : Int) - ((i : Int) + P.reverse.patlen)) ∧
            (v.maxLength = 0 ∨ (j : Int) - ((i : Int) + P.reverse.patlen) ≤ v.maxLength)) →
          cliWindow v.delta v.onlyFull ts[k].length i P.reverse.patlen j P.cfwd.patlen = some (a, b) →
          mkAmp false ts[k] i ki j kj P.reverse.patlen P.cfwd.patlen a b ∈ recordsOf (per[k]?.getD none)) := by
  obtain ⟨P, per, hP, hcmd, _, hrec⟩ := cli_pcr_complete tf tr hf hr hfn hrn hfl hrl e v hvf hvr hve hlin hfrag ts
  obtain ⟨P', hP', hok, _⟩ := mkPrimers_grammar tf tr hf hr hfn hrn hfl hrl e e
  rw [hP] at hP'; cases hP'
  refine ⟨P, per, hP, hcmd, fun k hk => ⟨?_, ?_⟩⟩
  · intro i ki j kj a b h1 h2 h3 h4
    rw [hrec k hk, cli_linear_spec P hok]
    exact Or.inl ⟨i, ki, j, kj, a, b, h1, h2, h3, h4, rfl⟩
  · intro i ki j kj a b h1 h2 h3 h4
    rw [hrec k hk, cli_linear_spec P hok]
    exact Or.inr ⟨i, ki, j, kj, a, b, h1, h2, h3, h4, rfl⟩

/-- **`--circular`** (with or without `--fragmented`): every template of the batch is searched whole, as a circle, with the
options of the command line — `pcr_sound_circular` / `pcr_complete_circular` / `pcr_rotation_all` then say what is reported -/
theorem cli_circular_whole (v : Vars) (hc : v.circular = true) (ts : List Bytes) (P : Primers)
    (hP : mkPrimers v.forward v.reverse v.mismatch.toNat v.mismatch.toNat = some P) :
    cliCommand v ts = some (ts.map fun t =>
      some ((pcr P (cliOpts v.minLength v.maxLength v.delta v.onlyFull true) t).map fun l => [((0, t.length), l)])) := by
  rw [cliCommand_eq, hP, Option.map_some, hc]
  congr 1
  apply List.map_congr_left
  intro t _
  exact cli_whole P _ _ _ _ _ _ true _ (Or.inr rfl) t

/-- a primer string that does not compile ends the command before any template is read (`log.Fatalf` in the getter) -/
theorem cli_bad_primer (v : Vars) (ts : List Bytes)
    (h : mkPrimers v.forward v.reverse v.mismatch.toNat v.mismatch.toNat = none) : cliCommand v ts = none := by
  rw [cliCommand_eq, h]; rfl

/-- non-vacuity / test (evaluation of the model) — the seeded pre-filter `Len ≥ len(forward string) + len(reverse string) +
max(-l, 1)`: `obipcr --forward AC#G# --reverse G#G#A -L 5` on a batch of three templates: `acgttcc` IS the product (7 symbols, the
two strings have 10 characters), the empty template, and the product with one symbol on each side.  All three are searched;
the first and the third give one forward record. -/
example :
    ((cliCommand ⟨false, [65, 67, 35, 71, 35], [71, 35, 71, 35, 65], 0, 0, 5, false, -1, false⟩
        [[97, 99, 103, 116, 116, 99, 99], [], [116, 97, 99, 103, 116, 116, 99, 99, 97]]).getD []).map
      (fun r => (recordsOf r).map fun x => (x.isForward, x.idFrom, x.idTo)) =
    [[(true, 4, 4)], [], [(true, 5, 5)]] ∧
    parse [.forward [65, 67, 35, 71, 35], .reverse [71, 35, 71, 35, 65], .maxLength 5] =
      some ⟨false, [65, 67, 35, 71, 35], [71, 35, 71, 35, 65], 0, 0, 5, false, -1, false⟩ := by decide

end ObiVerif.Props.C11Glue
