import ObiVerif.Props.C04
import ObiVerif.Lemmas.WriterWfileRec
import ObiVerif.Lemmas.CsvAuto
/-!
# C04 — the byte path below the writer goroutine: `Wfile` = `bufio.Writer` (→ pgzip) → file (property theorems)

`Props/C04.lean` states the property on the bytes handed to `writer.Write` by the re-sequencing goroutine.  Between
that call and the file stand `obiutils.Wfile`'s `bufio.Writer` (4096 bytes: a chunk is copied into the buffer, or fills
and flushes it, or — when the buffer is empty and the chunk is at least as large — goes straight to the file) and, for
compressed output, `pgzip.Writer` (1 MiB blocks compressed by goroutines of their own, written by a listener
goroutine).  The transcriptions are those of property C18 (`Model/WriteErr.lean`, `WriteDev.lean`, `WritePgzip.lean`,
imported unchanged; C18 studies them over a *failing* file).  Here: over a file that accepts everything the bytes that
reach the file are exactly the bytes of the plain writer model — for EVERY arrival history (not only permutations),
every chunk-size sequence (chunks smaller than the buffer followed by chunks larger than it and back), every buffer
size (0 included), every schedule of pgzip's goroutines — so every theorem of `Props/C04.lean` holds of the file content.
-/
set_option Elab.async false
namespace ObiVerif.Props.C04
open ObiVerif.Reseq ObiVerif.WriteErr ObiVerif.WriterWfile ObiVerif.WriterFmt ObiVerif.WriterOutcome

/-! ## refinement: the `Wfile`-level writers are the plain writers -/

/-- **plain `Wfile`, FASTA / FASTQ / CSV**: for every arrival history `arr` (any chunk sizes, duplicates, gaps), every
buffer size, the file (a `Dev` that accepts every write) ends with exactly the bytes of the plain writer model; the
outcome is `ok` unless the owned `Close` fails. -/
theorem wfile_plain_refines (size : Nat) (cf own : Bool) (arr : List (Nat × Bytes)) :
    writeRawDev size goodBeh cf own arr = (if own && cf then .fatal else .ok, Writer.writeRaw arr) :=
  rawDev_good size cf own arr

/-- **plain `Wfile`, JSON** (`[\n`, separators, chunks, `\n]\n` are separate `Write` calls) -/
theorem wfile_plain_refines_json (size : Nat) (cf own : Bool) (arr : List (Nat × Bytes)) :
    writeJsonDev size goodBeh cf own arr = (if own && cf then .fatal else .ok, Writer.writeJson arr) :=
  jsonDev_good size cf own arr

/-- **compressed `Wfile`** (`bufio.Writer` over the transcribed pgzip writer over a file of capacity `limit`): for every
arrival history, buffer size and schedule `s` of pgzip's listener goroutine / `select`, the file holds the first `limit`
bytes of the compressed stream of the plain writer's output — all of it when it fits. -/
theorem wfile_gzip_refines (z : PCodec) (hbs : 0 < z.bs) (s : Sched) (size limit : Nat) (cf own : Bool)
    (arr : List (Nat × Bytes)) :
    writeRawP z s size limit cf own arr =
      (if limit < (z.toCodec.stream (Writer.writeRaw arr)).length || (own && cf) then .fatal else .ok,
       (z.toCodec.stream (Writer.writeRaw arr)).take limit) ∧
    writeJsonP z s size limit cf own arr =
      (if limit < (z.toCodec.stream (Writer.writeJson arr)).length || (own && cf) then .fatal else .ok,
       (z.toCodec.stream (Writer.writeJson arr)).take limit) :=
  ⟨rawP_all z hbs s size limit cf own arr, jsonP_all z hbs s size limit cf own arr⟩

theorem fits_ok {limit : Nat} {x : Bytes} (hl : x.length ≤ limit) :
    ((if limit < x.length || false then Outcome.fatal else Outcome.ok), x.take limit) = (Outcome.ok, x) := by
  have : ¬ (limit < x.length) := by omega
  simp [this, List.take_of_length_le hl]

/-! ## every batch once, in order — at the file -/

/-- **bytes at the file, plain**: whatever the arrival order of chunks `0..n-1`, whatever their sizes and the buffer
size, the file holds chunk 0, chunk 1, …, chunk n-1 — each once, nothing else. -/
theorem wfile_plain_in_order (size : Nat) (own : Bool) (v : Nat → Bytes) (n : Nat) (ks : List Nat)
    (hp : ks.Perm (List.range n)) :
    writeRawDev size goodBeh false own (ks.map fun k => (k, v k)) = (.ok, ((List.range n).map v).flatten) := by
  rw [wfile_plain_refines, raw_writer_perm v n ks hp]; simp

theorem wfile_plain_in_order_json (size : Nat) (own : Bool) (v : Nat → Bytes) (n : Nat) (ks : List Nat)
    (hp : ks.Perm (List.range n)) :
    writeJsonDev size goodBeh false own (ks.map fun k => (k, v k))
      = (.ok, Writer.openJson ++ joinNE Writer.sepJson ((List.range n).map v) ++ Writer.closeJson) := by
  rw [wfile_plain_refines_json, json_writer_perm v n ks hp]; simp

/-- **bytes at the file, compressed**: the file holds the complete compressed stream of chunk 0, …, chunk n-1 in order,
whatever the arrival order, the chunk sizes, the buffer size and the schedule of pgzip's goroutines.  `gunzip` is any
decompressor that inverts the codec (the contract of gzip: trusted, exercised by the harness which reads every
compressed output back with `compress/gzip`). -/
theorem wfile_gzip_in_order (z : PCodec) (hbs : 0 < z.bs) (s : Sched) (size limit : Nat) (own : Bool)
    (v : Nat → Bytes) (n : Nat) (ks : List Nat) (hp : ks.Perm (List.range n))
    (hl : (z.toCodec.stream ((List.range n).map v).flatten).length ≤ limit)
    (gunzip : Bytes → Option Bytes) (hg : ∀ e, gunzip (z.toCodec.stream e) = some e) :
    ∃ f, writeRawP z s size limit false own (ks.map fun k => (k, v k)) = (.ok, f) ∧
      gunzip f = some ((List.range n).map v).flatten := by
  refine ⟨z.toCodec.stream ((List.range n).map v).flatten, ?_, hg _⟩
  rw [(wfile_gzip_refines z hbs s size limit false own _).1, raw_writer_perm v n ks hp]
  simpa using fits_ok hl

theorem wfile_gzip_in_order_json (z : PCodec) (hbs : 0 < z.bs) (s : Sched) (size limit : Nat) (own : Bool)
    (v : Nat → Bytes) (n : Nat) (ks : List Nat) (hp : ks.Perm (List.range n))
    (hl : (z.toCodec.stream (Writer.openJson ++ joinNE Writer.sepJson ((List.range n).map v) ++ Writer.closeJson)).length ≤ limit)
    (gunzip : Bytes → Option Bytes) (hg : ∀ e, gunzip (z.toCodec.stream e) = some e) :
    ∃ f, writeJsonP z s size limit false own (ks.map fun k => (k, v k)) = (.ok, f) ∧
      gunzip f = some (Writer.openJson ++ joinNE Writer.sepJson ((List.range n).map v) ++ Writer.closeJson) := by
  refine ⟨z.toCodec.stream _, ?_, hg _⟩
  rw [(wfile_gzip_refines z hbs s size limit false own _).2, json_writer_perm v n ks hp]
  simpa using fits_ok hl

/-! ## the whole writers (formatters included) down to the file -/

/-- **whole writer, plain file**: formatters → re-sequencing goroutine → `bufio.Writer` → file gives the file content
`writeFile c arr` of `Props/C04.lean` (so `fasta_file_reads_back`, `csv_file_reads_back`, `json_file_decodes`, … are
statements about the file), for every arrival history and buffer size; a formatter that dies (`none`) dies here too. -/
theorem file_through_wfile (c : Cfg) (size : Nat) (own : Bool) (arr : List (Nat × List Rec)) :
    fileDev c size goodBeh false own arr = (writeFile c arr).map (fun t => (Outcome.ok, t)) := by
  unfold fileDev writeFile fmtChunks
  cases arr.mapM (fun a => (fmtBatch c a.1 a.2).map (fun t => (a.1, t))) with
  | none => rfl
  | some chunks =>
    cases hk : c.kind <;> simp [wfile_plain_refines, wfile_plain_refines_json]

/-- **whole writer, compressed file** -/
theorem file_through_gzip (c : Cfg) (z : PCodec) (hbs : 0 < z.bs) (s : Sched) (size limit : Nat) (own : Bool)
    (arr : List (Nat × List Rec)) (out : B) (h : writeFile c arr = some out)
    (hl : (z.toCodec.stream out).length ≤ limit) :
    fileGz c z s size limit false own arr = some (.ok, z.toCodec.stream out) := by
  unfold fileGz fmtChunks
  unfold writeFile at h
  cases hm : arr.mapM (fun a => (fmtBatch c a.1 a.2).map (fun t => (a.1, t))) with
  | none => rw [hm] at h; cases h
  | some chunks =>
    rw [hm] at h
    have h' := Option.some.inj h
    cases hk : c.kind <;> simp only [hk, Option.map_some] at h' ⊢ <;>
      first
        | (rw [(wfile_gzip_refines z hbs s size limit false own chunks).2, h']; simpa using fits_ok hl)
        | (rw [(wfile_gzip_refines z hbs s size limit false own chunks).1, h']; simpa using fits_ok hl)

/-- **the `Write` calls received by the file** (what the in-memory sink of the harness records and compares call by call
with the model): concatenated, they are the file content of `writeFile` — `bufio.Writer` may cut and group the chunks as
it likes, it neither loses, duplicates nor reorders a byte. -/
theorem file_calls_concat (c : Cfg) (size : Nat) (arr : List (Nat × List Rec)) :
    (fileCalls c size arr).map List.flatten = writeFile c arr := by
  unfold fileCalls writeFile fmtChunks
  cases arr.mapM (fun a => (fmtBatch c a.1 a.2).map (fun t => (a.1, t))) with
  | none => rfl
  | some chunks =>
    cases hk : c.kind <;> simp [callsRaw_flatten, callsJson_flatten]

/-- non-vacuity + test: buffer of 4 bytes, chunk 1 (6 bytes ≥ buffer) arrives before chunk 0 (3 bytes < buffer), then
chunk 2 (5 bytes): the file holds 0, 1, 2 — the sequence small / large on which a writer that bypasses a non-empty
buffer (seeded change C04-m3) puts the large chunk first. -/
example : writeRawDev 4 goodBeh false true
      ([1, 0, 2].map fun k => (k, if k = 0 then [1, 2, 3] else if k = 1 then [4, 5, 6, 7, 8, 9] else [10, 11, 12, 13, 14]))
    = (.ok, [1, 2, 3, 4, 5, 6, 7, 8, 9, 10, 11, 12, 13, 14]) := by
  rw [wfile_plain_in_order 4 true _ 3 [1, 0, 2] (by decide)]
  decide

/-! ## paired output at the level of the command: `--skip-empty` cannot put the two files out of step

`paired_skip_empty_out_of_step` (`Props/C04.lean`) shows that the WRITERS, given `skipEmpty` and a paired stream, leave a
record with an empty sequence out of its own file only.  Every batch is still written exactly once and in order to both
files (`paired_files_order_free`): the statement of C04, which is about batches, is not violated.  And no command can
reach that combination: `CLIWriteBioSequences` — the only caller of `WritePairedReadsTo` — forwards `--skip-empty` to
unpaired outputs only (`cliSkipEmpty`).  At the command, a paired FASTA/FASTQ output has exactly two outcomes. -/

theorem keep_all_noEmpty (recs : Nat → List Rec) (n : Nat)
    (h : (List.range n).all (fun k => noEmpty (recs k)) = true) :
    keep ((List.range n).map recs).flatten = ((List.range n).map recs).flatten := by
  rw [keep_flatten, List.map_map]
  congr 1
  apply List.map_congr_left
  intro k hk
  exact keep_of_noEmpty _ (List.all_eq_true.mp h k hk)

/-- **`obiconvert --paired-with … --skip-empty`: in step or fatal.**  With the option set of the command (`skipEmpty` as
`cliSkipEmpty true flag`, whatever `flag`), for every `n`, both arrival orders and ARBITRARY records: the run is fatal
iff some record or some mate has an empty sequence; otherwise NO record is skipped in either file — file 1 is one text
per record, file 2 one text per mate, both in batch order, so record `i` of file 2 is the mate of record `i` of file 1. -/
theorem cli_paired_in_step_or_fatal (c : Cfg) (hk : c.kind = Kind.fasta ∨ c.kind = Kind.fastq) (flag : Bool)
    (hse : c.skipEmpty = cliSkipEmpty true flag) (pairs : Nat → PBatch) (n : Nat) (ks1 ks2 : List Nat)
    (hp1 : ks1.Perm (List.range n)) (hp2 : ks2.Perm (List.range n)) :
    (writePaired c (ks1.map fun k => (k, pairs k)) (ks2.map fun k => (k, pairs k)) = none ↔
      ∃ k, k < n ∧ ∃ p ∈ pairs k, p.1.seq = [] ∨ p.2.seq = []) ∧
    (∀ f1 f2, writePaired c (ks1.map fun k => (k, pairs k)) (ks2.map fun k => (k, pairs k)) = some (f1, f2) →
      f1 = (((((List.range n).map pairs).flatten).map Prod.fst).map (recText c)).flatten ∧
      f2 = (((((List.range n).map pairs).flatten).map Prod.snd).map (recText c)).flatten) := by
  have hse' : c.skipEmpty = false := by rw [hse]; rfl
  have F1 := seq_file_fatal_iff c hk hse' (fun k => (pairs k).map Prod.fst) n ks1 hp1
  have F2 := seq_file_fatal_iff c hk hse' (fun k => (pairs k).map Prod.snd) n ks2 hp2
  have O1 := seq_file_outcomes c hk (fun k => (pairs k).map Prod.fst) n ks1 hp1
  have O2 := seq_file_outcomes c hk (fun k => (pairs k).map Prod.snd) n ks2 hp2
  rw [writePaired_eq]
  constructor
  · constructor
    · intro h
      cases h1 : writeFile c (ks1.map fun k => (k, (pairs k).map Prod.fst)) with
      | none =>
        obtain ⟨k, hkn, r, hr, hre⟩ := F1.mp h1
        obtain ⟨p, hp, rfl⟩ := List.mem_map.mp hr
        exact ⟨k, hkn, p, hp, Or.inl hre⟩
      | some a =>
        cases h2 : writeFile c (ks2.map fun k => (k, (pairs k).map Prod.snd)) with
        | none =>
          obtain ⟨k, hkn, r, hr, hre⟩ := F2.mp h2
          obtain ⟨p, hp, rfl⟩ := List.mem_map.mp hr
          exact ⟨k, hkn, p, hp, Or.inr hre⟩
        | some b => rw [h1, h2] at h; cases h
    · rintro ⟨k, hkn, p, hp, hre | hre⟩
      · rw [F1.mpr ⟨k, hkn, p.1, List.mem_map.mpr ⟨p, hp, rfl⟩, hre⟩]; rfl
      · rw [F2.mpr ⟨k, hkn, p.2, List.mem_map.mpr ⟨p, hp, rfl⟩, hre⟩]
        cases writeFile c (ks1.map fun k => (k, (pairs k).map Prod.fst)) <;> rfl
  · intro f1 f2 h
    rw [hse'] at O1 O2
    simp only [Bool.false_or] at O1 O2
    by_cases a1 : (List.range n).all (fun k => noEmpty ((pairs k).map Prod.fst)) = true
    · by_cases a2 : (List.range n).all (fun k => noEmpty ((pairs k).map Prod.snd)) = true
      · rw [if_pos a1, keep_all_noEmpty _ n a1] at O1
        rw [if_pos a2, keep_all_noEmpty _ n a2] at O2
        rw [O1, O2] at h
        have h' := Option.some.inj h
        rw [flatten_map_proj, flatten_map_proj] at h'
        exact ⟨(Prod.mk.inj h').1.symm, (Prod.mk.inj h').2.symm⟩
      · rw [if_neg a2] at O2
        rw [O2] at h
        cases hw : writeFile c (ks1.map fun k => (k, (pairs k).map Prod.fst)) with
        | none => rw [hw] at h; cases h
        | some a => rw [hw] at h; cases h
    · rw [if_neg a1] at O1
      rw [O1] at h; cases h

/-- non-vacuity: the stream of `paired_skip_empty_out_of_step` at the command (`--skip-empty` given) is fatal -/
example :
    let pairs : Nat → PBatch := fun _ =>
      [(⟨[65], [], none, [], []⟩, ⟨[65], [99], none, [], []⟩), (⟨[66], [97], none, [], []⟩, ⟨[66], [103], none, [], []⟩)]
    writePaired { kind := Kind.fasta, skipEmpty := cliSkipEmpty true true } ([0].map fun k => (k, pairs k))
      ([0].map fun k => (k, pairs k)) = none := by
  intro pairs
  exact ((cli_paired_in_step_or_fatal { kind := Kind.fasta, skipEmpty := cliSkipEmpty true true } (Or.inl rfl) true rfl
    pairs 1 [0] [0] (by decide) (by decide)).1).mpr ⟨0, by decide, _, List.mem_cons_self, Or.inl rfl⟩

/-! ## `obicsv --auto`: the detected columns -/

/-- **detected columns = sorted union of keys**: a key is a detected column iff some record of the first batch
delivered carries it with a value that is not a map; the columns are strictly increasing in Go's string order (sorted
by `sort.Strings`, no column twice). -/
theorem csv_auto_columns (first : List Rec) :
    (∀ k, k ∈ autoKeys first ↔ ∃ r ∈ first, ∃ v, (k, v) ∈ r.ann ∧ isMap v = false) ∧
    (autoKeys first).Pairwise (fun a b => ltB a b = true) :=
  ⟨mem_autoKeys first, autoKeys_sorted first⟩

/-- **CSV file with detected columns.** The input iterator delivers batch `k0` first; the chunks reach the writer
goroutine in any order `ks`.  The file is the header — fixed columns, explicit keys, then the detected keys — exactly
once, first, then one row per record of ALL batches in batch order (an attribute absent from a record, or one that
first appears in a later batch, gives the NA value / no column), and `encoding/csv`'s reader reads every field back. -/
theorem csv_auto_file_reads_back (sh : UInt8) (o : CsvOpt) (recs : Nat → List Rec) (rows : Nat → List (List B))
    (k0 : Nat) (rest : List Nat)
    (hrows : ∀ k, (recs k).mapM (csvRecord sh { o with keys := o.keys ++ autoKeys (recs k0) }) = some (rows k))
    (hhdr : CsvRT.RowOK (csvHeader { o with keys := o.keys ++ autoKeys (recs k0) }))
    (hvis : ∀ k, ∀ row ∈ rows k, row ≠ [[]])
    (n : Nat) (hn : 0 < n) (ks : List Nat) (hp : ks.Perm (List.range n)) :
    ∃ out, writeCsvAuto { kind := Kind.csv, shift := sh, csv := o } ((k0 :: rest).map fun k => (k, recs k))
        (ks.map fun k => (k, recs k)) = some out ∧
      out = csvRow (csvHeader { o with keys := o.keys ++ autoKeys (recs k0) })
        ++ ((((List.range n).map rows).flatten).map csvRow).flatten ∧
      CsvRead.parse out = some ((csvHeader { o with keys := o.keys ++ autoKeys (recs k0) }
        :: ((List.range n).map rows).flatten).map (fun r => r.map CsvRT.collapse)) :=
  csv_file_reads_back sh { o with keys := o.keys ++ autoKeys (recs k0) } recs rows hrows hhdr hvis n hn ks hp

/-- **the detected columns depend on which batch is delivered first** (a schedule-dependent header when the input
is read by several workers; attributes that only occur in later batches get no column).  Concrete stream of two
batches with attributes `a` / `b`: delivered in order the key columns are `a`, delivered 1 first they are `b`. -/
theorem csv_auto_depends_on_first_batch :
    let r0 : Rec := ⟨[120], [97], none, [], [([97], .int 1)]⟩
    let r1 : Rec := ⟨[121], [99], none, [], [([98], .int 2)]⟩
    (autoCfg { kind := Kind.csv } [r0]).csv.keys = [[97]] ∧ (autoCfg { kind := Kind.csv } [r1]).csv.keys = [[98]] := by
  intro r0 r1
  constructor <;> decide

end ObiVerif.Props.C04
