import ObiVerif.Props.C04
import ObiVerif.Lemmas.WriterWfileRec
/-!
# C04 — the byte path below the writer goroutine: `Wfile` = `bufio.Writer` (→ pgzip) → file (property theorems)

`Props/C04.lean` states the property on the bytes handed to `writer.Write` by the re-sequencing goroutine.  Between
that call and the file stand `obiutils.Wfile`'s `bufio.Writer` (4096 bytes: a chunk is copied into the buffer, or fills
and flushes it, or — when the buffer is empty and the chunk is at least as large — goes straight to the file) and, for
compressed output, `pgzip.Writer` (1 MiB blocks compressed by goroutines of their own, written by a listener
goroutine).  The transcriptions are those of property C18 (`Model/WriteErr.lean`, `WriteDev.lean`, `WritePgzip.lean`,
imported unchanged; C18 studies them over a *failing* file).  Here: over a file that accepts everything the bytes that
reach the file are exactly the bytes of the plain writer model — for EVERY arrival history (not only permutations),
every chunk-size sequence (chunks smaller than the buffer followed by chunks larger than it and back), every buffer
size (0 included), every schedule of pgzip's goroutines — so every theorem of `Props/C04.lean` holds of the file content.
-/
set_option Elab.async false
namespace ObiVerif.Props.C04
open ObiVerif.Reseq ObiVerif.WriteErr ObiVerif.WriterWfile ObiVerif.WriterFmt

/-! ## refinement: the `Wfile`-level writers are the plain writers -/

/-- **plain `Wfile`, FASTA / FASTQ / CSV**: for every arrival history `arr` (any chunk sizes, duplicates, gaps), every
buffer size, the file (a `Dev` that accepts every write) ends with exactly the bytes of the plain writer model; the
outcome is `ok` unless the owned `Close` fails. -/
theorem wfile_plain_refines (size : Nat) (cf own : Bool) (arr : List (Nat × Bytes)) :
    writeRawDev size goodBeh cf own arr = (if own && cf then .fatal else .ok, Writer.writeRaw arr) :=
  rawDev_good size cf own arr

/-- **plain `Wfile`, JSON** (`[\n`, separators, chunks, `\n]\n` are separate `Write` calls) -/
theorem wfile_plain_refines_json (size : Nat) (cf own : Bool) (arr : List (Nat × Bytes)) :
    writeJsonDev size goodBeh cf own arr = (if own && cf then .fatal else .ok, Writer.writeJson arr) :=
  jsonDev_good size cf own arr

/-- **compressed `Wfile`** (`bufio.Writer` over the transcribed pgzip writer over a file of capacity `limit`): for every
arrival history, buffer size and schedule `s` of pgzip's listener goroutine / `select`, the file holds the first `limit`
bytes of the compressed stream of the plain writer's output — all of it when it fits. -/
theorem wfile_gzip_refines (z : PCodec) (hbs : 0 < z.bs) (s : Sched) (size limit : Nat) (cf own : Bool)
    (arr : List (Nat × Bytes)) :
    writeRawP z s size limit cf own arr =
      (if limit < (z.toCodec.stream (Writer.writeRaw arr)).length || (own && cf) then .fatal else .ok,
       (z.toCodec.stream (Writer.writeRaw arr)).take limit) ∧
    writeJsonP z s size limit cf own arr =
      (if limit < (z.toCodec.stream (Writer.writeJson arr)).length || (own && cf) then .fatal else .ok,
       (z.toCodec.stream (Writer.writeJson arr)).take limit) :=
  ⟨rawP_all z hbs s size limit cf own arr, jsonP_all z hbs s size limit cf own arr⟩

theorem fits_ok {limit : Nat} {x : Bytes} (hl : x.length ≤ limit) :
    ((if limit < x.length || false then Outcome.fatal else Outcome.ok), x.take limit) = (Outcome.ok, x) := by
  have : ¬ (limit < x.length) := by omega
  simp [this, List.take_of_length_le hl]

/-! ## every batch once, in order — at the file -/

/-- **bytes at the file, plain**: whatever the arrival order of chunks `0..n-1`, whatever their sizes and the buffer
size, the file holds chunk 0, chunk 1, …, chunk n-1 — each once, nothing else. -/
theorem wfile_plain_in_order (size : Nat) (own : Bool) (v : Nat → Bytes) (n : Nat) (ks : List Nat)
    (hp : ks.Perm (List.range n)) :
    writeRawDev size goodBeh false own (ks.map fun k => (k, v k)) = (.ok, ((List.range n).map v).flatten) := by
  rw [wfile_plain_refines, raw_writer_perm v n ks hp]; simp

theorem wfile_plain_in_order_json (size : Nat) (own : Bool) (v : Nat → Bytes) (n : Nat) (ks : List Nat)
    (hp : ks.Perm (List.range n)) :
    writeJsonDev size goodBeh false own (ks.map fun k => (k, v k))
      = (.ok, Writer.openJson ++ joinNE Writer.sepJson ((List.range n).map v) ++ Writer.closeJson) := by
  rw [wfile_plain_refines_json, json_writer_perm v n ks hp]; simp

/-- **bytes at the file, compressed**: the file holds the complete compressed stream of chunk 0, …, chunk n-1 in order,
whatever the arrival order, the chunk sizes, the buffer size and the schedule of pgzip's goroutines.  `gunzip` is any
decompressor that inverts the codec (the contract of gzip: trusted, exercised by the harness which reads every
compressed output back with `compress/gzip`). -/
theorem wfile_gzip_in_order (z : PCodec) (hbs : 0 < z.bs) (s : Sched) (size limit : Nat) (own : Bool)
    (v : Nat → Bytes) (n : Nat) (ks : List Nat) (hp : ks.Perm (List.range n))
    (hl : (z.toCodec.stream ((List.range n).map v).flatten).length ≤ limit)
    (gunzip : Bytes → Option Bytes) (hg : ∀ e, gunzip (z.toCodec.stream e) = some e) :
    ∃ f, writeRawP z s size limit false own (ks.map fun k => (k, v k)) = (.ok, f) ∧
      gunzip f = some ((List.range n).map v).flatten := by
  refine ⟨z.toCodec.stream ((List.range n).map v).flatten, ?_, hg _⟩
  rw [(wfile_gzip_refines z hbs s size limit false own _).1, raw_writer_perm v n ks hp]
  simpa using fits_ok hl

theorem wfile_gzip_in_order_json (z : PCodec) (hbs : 0 < z.bs) (s : Sched) (size limit : Nat) (own : Bool)
    (v : Nat → Bytes) (n : Nat) (ks : List Nat) (hp : ks.Perm (List.range n))
    (hl : (z.toCodec.stream (Writer.openJson ++ joinNE Writer.sepJson ((List.range n).map v) ++ Writer.closeJson)).length ≤ limit)
    (gunzip : Bytes → Option Bytes) (hg : ∀ e, gunzip (z.toCodec.stream e) = some e) :
    ∃ f, writeJsonP z s size limit false own (ks.map fun k => (k, v k)) = (.ok, f) ∧
      gunzip f = some (Writer.openJson ++ joinNE Writer.sepJson ((List.range n).map v) ++ Writer.closeJson) := by
  refine ⟨z.toCodec.stream _, ?_, hg _⟩
  rw [(wfile_gzip_refines z hbs s size limit false own _).2, json_writer_perm v n ks hp]
  simpa using fits_ok hl

/-! ## the whole writers (formatters included) down to the file -/

/-- **whole writer, plain file**: formatters → re-sequencing goroutine → `bufio.Writer` → file gives the file content
`writeFile c arr` of `Props/C04.lean` (so `fasta_file_reads_back`, `csv_file_reads_back`, `json_file_decodes`, … are
statements about the file), for every arrival history and buffer size; a formatter that dies (`none`) dies here too. -/
theorem file_through_wfile (c : Cfg) (size : Nat) (own : Bool) (arr : List (Nat × List Rec)) :
    fileDev c size goodBeh false own arr = (writeFile c arr).map (fun t => (Outcome.ok, t)) := by
  unfold fileDev writeFile fmtChunks
  cases arr.mapM (fun a => (fmtBatch c a.1 a.2).map (fun t => (a.1, t))) with
  | none => rfl
  | some chunks =>
    cases hk : c.kind <;> simp [wfile_plain_refines, wfile_plain_refines_json]

/-- **whole writer, compressed file** -/
theorem file_through_gzip (c : Cfg) (z : PCodec) (hbs : 0 < z.bs) (s : Sched) (size limit : Nat) (own : Bool)
    (arr : List (Nat × List Rec)) (out : B) (h : writeFile c arr = some out)
    (hl : (z.toCodec.stream out).length ≤ limit) :
    fileGz c z s size limit false own arr = some (.ok, z.toCodec.stream out) := by
  unfold fileGz fmtChunks
  unfold writeFile at h
  cases hm : arr.mapM (fun a => (fmtBatch c a.1 a.2).map (fun t => (a.1, t))) with
  | none => rw [hm] at h; cases h
  | some chunks =>
    rw [hm] at h
    have h' := Option.some.inj h
    cases hk : c.kind <;> simp only [hk, Option.map_some] at h' ⊢ <;>
      first
        | (rw [(wfile_gzip_refines z hbs s size limit false own chunks).2, h']; simpa using fits_ok hl)
        | (rw [(wfile_gzip_refines z hbs s size limit false own chunks).1, h']; simpa using fits_ok hl)

/-- **the `Write` calls received by the file** (what the in-memory sink of the harness records and compares call by call
with the model): concatenated, they are the file content of `writeFile` — `bufio.Writer` may cut and group the chunks as
it likes, it neither loses, duplicates nor reorders a byte. -/
theorem file_calls_concat (c : Cfg) (size : Nat) (arr : List (Nat × List Rec)) :
    (fileCalls c size arr).map List.flatten = writeFile c arr := by
  unfold fileCalls writeFile fmtChunks
  cases arr.mapM (fun a => (fmtBatch c a.1 a.2).map (fun t => (a.1, t))) with
  | none => rfl
  | some chunks =>
    cases hk : c.kind <;> simp [callsRaw_flatten, callsJson_flatten]

/-- non-vacuity + test: buffer of 4 bytes, chunk 1 (6 bytes ≥ buffer) arrives before chunk 0 (3 bytes < buffer), then
chunk 2 (5 bytes): the file holds 0, 1, 2 — the sequence small / large on which a writer that bypasses a non-empty
buffer (seeded change C04-m3) puts the large chunk first. -/
example : writeRawDev 4 goodBeh false true
      ([1, 0, 2].map fun k => (k, if k = 0 then [1, 2, 3] else if k = 1 then [4, 5, 6, 7, 8, 9] else [10, 11, 12, 13, 14]))
    = (.ok, [1, 2, 3, 4, 5, 6, 7, 8, 9, 10, 11, 12, 13, 14]) := by
  rw [wfile_plain_in_order 4 true _ 3 [1, 0, 2] (by decide)]
  decide

end ObiVerif.Props.C04
