import ObiVerif.Props.C15X
import ObiVerif.Lemmas.TagSetup
set_option Elab.async false
/-!
# C15 — fourth round: the set-up code around the searches (property theorems on `Model/TagSetup.lean`)

`obitag.CLIAssignTaxonomy` and `obirefidx.IndexReferenceDB` drop the records of the reference file whose taxid is
not in the taxonomy by compacting `references` IN PLACE while filling the parallel arrays `refcounts` and `taxa`.
The theorems of `Props/C15V.lean` … `Props/C15X.lean` are about the searches on arrays that are ASSUMED aligned; the
theorems below are about what the set-up hands to those searches.  `K := recs.filter (known t)` = the records with
a known taxid, in file order.
-/
namespace ObiVerif.Props.C15S
open ObiVerif.Tag ObiVerif.Tax ObiVerif.QGram ObiVerif.Kmer ObiVerif.Lcs ObiVerif.Props.C15V ObiVerif.Props.C15W

/-- **the alignment invariant of the parallel arrays** — after the set-up loop of `obitag.CLIAssignTaxonomy`
(`tag1Setup`) and after the one of `obirefidx.IndexReferenceDB` (`refidxSetup`), whatever subset of the records is
dropped and wherever the dropped records are in the file: `references` = the records with a known taxid in file
order, and for every position `i` of it `refcounts[i] = Count4Mer(references[i])` and `taxa[i]` = the taxon of
`references[i]` -/
theorem setup_alignment_invariant (t : Taxo) (recs : List RefRec) :
    ((tag1Setup t recs).refs = recs.filter (known t) ∧
      ∀ i (h : i < (recs.filter (known t)).length),
        countFn (tag1Setup t recs).counts i = Kmer.count4mer (refFn (tag1Setup t recs).refs i) ∧
        (taxaIds (tag1Setup t recs).taxa)[i]? = Tax.resolve t ((recs.filter (known t))[i]'h).tid) ∧
    ((refidxSetup t recs).refs = recs.filter (known t) ∧
      ∀ i (h : i < (recs.filter (known t)).length),
        countFn (refidxSetup t recs).counts i = Kmer.count4mer (refFn (refidxSetup t recs).refs i) ∧
        (taxaIds (refidxSetup t recs).taxa)[i]? = Tax.resolve t ((recs.filter (known t))[i]'h).tid) :=
  ⟨⟨tag1Setup_refs t recs, fun i h =>
      ⟨congrFun (tag1Setup_aligned t recs) i, tag1Setup_taxaIds_getElem? t recs i h⟩⟩,
   ⟨refidxSetup_refs t recs, fun i h =>
      ⟨congrFun (refidxSetup_aligned t recs) i, refidxSetup_taxaIds_getElem? t recs i h⟩⟩⟩

/-- **a nil `*TaxNode` is left in the map `taxa` of `obitag.CLIAssignTaxonomy` exactly when the LAST record of the
reference file has an unknown taxid** (`taxa[j], err = taxo.Taxon(..)` is overwritten by the next kept record, or by
nothing); the map of `obirefidx.IndexReferenceDB` never holds one -/
theorem nil_taxon_iff_last_dropped (t : Taxo) (recs : List RefRec) :
    hasNil (tag1Setup t recs).taxa = ((recs.getLast?).map (fun r => !known t r)).getD false ∧
    hasNil (refidxSetup t recs).taxa = false :=
  ⟨tag1Setup_hasNil t recs, refidxSetup_hasNil t recs⟩

/-- **the worker of `obitag.CLIAssignTaxonomy` is the search on exactly the references with a known taxid, in file
order** (last record of the file known): set-up loop, separate array of 4-mer tables, map `taxa`, lazy indexing on
the same arrays = `identifyTextV` (everything verbatim, `Model/TagTV.lean`) on the kept list -/
theorem cli_assign_is_search_on_kept (t : Taxo) (fuel : Nat) (nm rk : Nat → Text) (recs : List RefRec) (q : Bytes)
    (o : List Nat) (ows : Nat → List Nat)
    (hlast : ((recs.getLast?).map (fun r => !known t r)).getD false = false) :
    cliAssign1 t fuel nm rk recs q o ows =
      identifyTextV t fuel .tag1 nm rk q (refFn (recs.filter (known t)))
        ((recs.filter (known t)).filterMap (fun r => Tax.resolve t r.tid)) o ows :=
  cliAssign1_eq t fuel nm rk recs q o ows hlast

/-- **the consequence clause of C15 through `CLIAssignTaxonomy`**: the reference file may hold records with an
unknown taxid anywhere but at its end; sequences of the kept records over `acgt`, within the 16-bit range of the
LCS kernel; `o` = the candidate order of the query among the KEPT references (every kept position once, sorted by
decreasing number of shared 4-mers).  If the worker answers `z`, then `z` is an ancestor-or-self of the taxon of
EVERY kept reference at minimal LCS distance of the query: nothing is lost or shifted by the in-place compaction -/
theorem cli_assign_lossless {t : Taxo} {depth : Nat → Nat} {fuel : Nat}
    (wf : WF t 1 depth) (hf : FuelOK t fuel) (nm rk : Nat → Text) (recs : List RefRec)
    (hlast : ((recs.getLast?).map (fun r => !known t r)).getD false = false)
    (htax : ∀ r ∈ recs, ∀ x, Tax.resolve t r.tid = some x → ∃ n, t.node x = some n)
    (q : Bytes) (o : List Nat) (ows : Nat → List Nat)
    (hperm : ∀ j, j ∈ o ↔ j < (recs.filter (known t)).length)
    (hq : IsACGT q)
    (hr : ∀ r ∈ recs.filter (known t), IsACGT r.seq ∧ q.length + r.seq.length + 1 ≤ 30000)
    (hrr : ∀ b, IsACGT (refFn (recs.filter (known t)) b) ∧ ∀ j ∈ ows b, IsACGT (refFn (recs.filter (known t)) j) ∧
      (refFn (recs.filter (known t)) b).length + (refFn (recs.filter (known t)) j).length + 1 ≤ 30000)
    (hs : SortedByCw (fun i => candOf q (refFn (recs.filter (known t)) i)) o) (z bm n : Nat)
    (h : cliAssign1 t fuel nm rk recs q o ows = .ok z bm n) :
    ∀ i (hi : i < (recs.filter (known t)).length),
      (∀ j, j < (recs.filter (known t)).length →
        (candOf q ((recs.filter (known t))[i]'hi).seq).dist ≤ (candOf q (refFn (recs.filter (known t)) j)).dist) →
      ∃ x, Tax.resolve t ((recs.filter (known t))[i]'hi).tid = some x ∧ Anc t z x := by
  rw [cliAssign1_eq t fuel nm rk recs q o ows hlast] at h
  have hlen := keptIds_length t recs
  have href : ∀ j (hj : j < (recs.filter (known t)).length),
      refFn (recs.filter (known t)) j = ((recs.filter (known t))[j]'hj).seq := by
    intro j hj
    unfold refFn
    rw [List.getElem?_eq_getElem hj]
    rfl
  have main := assigned_is_ancestor_of_every_best_text_verbatim wf hf nm rk
    ((recs.filter (known t)).filterMap (fun r => Tax.resolve t r.tid))
    (by
      intro x hx
      obtain ⟨r, hr1, hr2⟩ := List.mem_filterMap.mp hx
      exact htax r (List.mem_filter.mp hr1).1 x hr2)
    .tag1 q (refFn (recs.filter (known t))) o ows
    (by intro j; rw [hlen]; exact hperm j) hq
    (by
      intro j hj
      rw [hlen] at hj
      rw [href j hj]
      exact hr _ (List.getElem_mem hj))
    hrr hs z bm n h
  intro i hi hmin
  have hA := main i ((hperm i).2 hi) (by
    intro j hj
    rw [href i hi]
    exact hmin j ((hperm j).1 hj))
  have hget := keptIds_getElem? t recs i hi
  obtain ⟨x, hx⟩ := known_resolve (known_of_mem_filter _ (List.getElem_mem hi))
  refine ⟨x, hx, ?_⟩
  rw [hx] at hget
  rw [List.getD_eq_getElem?_getD, hget] at hA
  exact hA

/-- **a trailing record with an unknown taxid makes every assignment above the identity threshold panic**: when the
last record of the reference file is dropped, the nil node it leaves in `taxa` makes `IndexSequence` end in
`log.Panicf("Try to get LCA of nil taxon")` for the first best reference of every query whose best identity is
at least 0.5 -/
theorem cli_assign_trailing_unknown_panics (t : Taxo) (fuel : Nat) (nm rk : Nat → Text) (recs : List RefRec) (q : Bytes)
    (o : List Nat) (ows : Nat → List Nat)
    (hlast : ((recs.getLast?).map (fun r => !known t r)).getD false = true)
    (e : Nat) (bid : Nat × Nat) (bm : Nat) (idxs : List Nat)
    (hfc : findClosestsV .tag1 q (refFn (recs.filter (known t))) o = .ok (.ok e bid bm idxs))
    (hid : bid.2 ≠ 0 ∧ 2 * bid.1 ≥ bid.2) :
    cliAssign1 t fuel nm rk recs q o ows = .bad .panic := by
  rw [cliAssign1_trailing t fuel nm rk recs q o ows hlast, hfc]
  exact identifyText_index_panics t fuel e bid bm idxs (findClosestsV_ok_ne_nil hfc) hid

/-- **the index `obirefidx.IndexReferenceDB` writes on a kept reference is `IndexSequence` on exactly the references
with a known taxid, in file order** (here `refcounts` is computed AFTER the truncation and no nil node is stored:
dropped records at any position, the last one included, are harmless) -/
theorem refidx_index_is_search_on_kept (t : Taxo) (fuel : Nat) (recs : List RefRec) (b : Nat) (ow : List Nat) :
    refidxIndex t fuel recs b ow =
      indexSequenceV t fuel ((recs.filter (known t)).filterMap (fun r => Tax.resolve t r.tid)) b
        (refFn (recs.filter (known t))) ow :=
  refidxIndex_eq t fuel recs b ow

/-! ## evaluated on tiny data (tests)

Taxonomy `4,5 → 2 → 1`, `3 → 1`; taxid `9` is unknown.  Records `a` (taxon 4), `c` (taxon 3), `u`, `w` (unknown): `suT`, `suA`, … of
`Lemmas/TagSetup.lean`. -/

/-- (test) the dropped record FIRST: `[u, a, c]` -/
example : (tag1Setup suT [suU, suA, suC]).refs = [suA, suC] ∧
    (tag1Setup suT [suU, suA, suC]).counts = [some (Kmer.count4mer suA.seq), some (Kmer.count4mer suC.seq)] ∧
    (tag1Setup suT [suU, suA, suC]).taxa = [some (some 4), some (some 3), none] ∧
    hasNil (tag1Setup suT [suU, suA, suC]).taxa = false := by
  decide +kernel

/-- (test) the dropped record in the MIDDLE: `[a, u, c]` -/
example : (tag1Setup suT [suA, suU, suC]).refs = [suA, suC] ∧
    (tag1Setup suT [suA, suU, suC]).taxa = [some (some 4), some (some 3), none] ∧
    hasNil (tag1Setup suT [suA, suU, suC]).taxa = false := by
  decide +kernel

/-- (test) TWO CONSECUTIVE dropped records: `[u, w, a]` -/
example : (tag1Setup suT [suU, suW, suA]).refs = [suA] ∧
    (tag1Setup suT [suU, suW, suA]).taxa = [some (some 4), none, none] ∧
    hasNil (tag1Setup suT [suU, suW, suA]).taxa = false := by
  decide +kernel

/-- (test) the dropped record LAST: `[a, c, u]` — a nil node stays under key 2 of the map -/
example : (tag1Setup suT [suA, suC, suU]).refs = [suA, suC] ∧
    (tag1Setup suT [suA, suC, suU]).taxa = [some (some 4), some (some 3), some none] ∧
    hasNil (tag1Setup suT [suA, suC, suU]).taxa = true := by
  decide +kernel

/-- (test) `refidxSetup` with the dropped record LAST / FIRST: no nil node -/
example : (refidxSetup suT [suA, suC, suU]).refs = [suA, suC] ∧
    (refidxSetup suT [suA, suC, suU]).taxa = [some (some 4), some (some 3), none] ∧
    (refidxSetup suT [suU, suA, suC]).refs = [suA, suC] ∧
    (refidxSetup suT [suU, suA, suC]).taxa = [some (some 4), some (some 3), none] := by
  decide +kernel

/-- (test) the worker of `CLIAssignTaxonomy` on `[u, a, c]`, query `acgtaa` (distance 1 of both kept records):
the root, best match = kept position 0, two best references -/
example : cliAssign1 suT 6 (fun _ => ['s', 'p', '@']) (fun _ => []) [suU, suA, suC]
    [97,99,103,116,97,97] [0, 1] (fun _ => [0, 1]) = .ok 1 0 2 := by
  decide +kernel

/-- (test) the hypothesis of `cli_assign_trailing_unknown_panics` holds on `[a, c, u]` and on `[a, u]` -/
example : ((([suA, suC, suU] : List RefRec).getLast?).map (fun r => !known suT r)).getD false = true ∧
    ((([suA, suU] : List RefRec).getLast?).map (fun r => !known suT r)).getD false = true := by
  decide +kernel

/-- (test) a 2-record data base whose last record has an unknown taxid: `log.Panicf` -/
example : cliAssign1 suT 6 (fun _ => ['s', 'p', '@']) (fun _ => []) [suA, suU]
    [97,99,103,116,97,97] [0] (fun _ => [0]) = .bad .panic := by
  decide +kernel

end ObiVerif.Props.C15S
