import ObiVerif.Model.KseqIdx
import ObiVerif.Lemmas.KseqIdx
import ObiVerif.Lemmas.Kseq
import ObiVerif.Lemmas.KseqGo
set_option Elab.async false
/-!
# C17 — the C reader of the standard input, transcribed at the level of the C fields (property theorems)

`Model/KseqIdx.lean` transcribes kseq.h line by line over the real state of a `kstream_t`: the
`__bufsize`-byte buffer (arbitrary initial content, stale bytes after a short `gzread`), the `int`s `begin` and
`end` (−1 after a failed `gzread`), `is_eof`.  `kseqIdx_refines` states that this transcription computes exactly
what the list model `Model/Kseq.lean` computes; the C17 theorems about the C reader and the agreement with the
FASTA / FASTQ grammar are then stated **of the transcription**.

Every theorem holds for every buffer size `bufsz ≥ 1`, every initial content `buf` of the buffer
(`buf.size = bufsz`), every timing of `gzerror` (`early`) and every byte string `d`.
-/
namespace ObiVerif.Props.C17Kseq
open ObiVerif.Kseq ObiVerif.KseqIdx
open ObiVerif.Chunk (Seq AllEol)
open ObiVerif.Parse (FaSrc FqSrc EolRun faFileText fqFileText)

/-! ## (a) refinement, and the stream-error theorems of C17 on the transcription -/

/-- **refinement**: the index-level transcription of kseq.h (`ks_getc`, `ks_getuntil` with its index scan and
`memcpy`, `kseq_read`, `next_fast_sek`, the loop of `_FastseqReader`) returns the records and the outcome of the
list model, `junk` being the initial `buf[0]` -/
theorem kseqIdx_refines (bufsz : Nat) (hb : 1 ≤ bufsz) (fin : Fin) (early : Bool) (buf : Array UInt8)
    (hsz : buf.size = bufsz) (d : Bytes) :
    readAllI bufsz fin early buf d = readAll bufsz fin early (buf.getD 0 0) d :=
  readAllI_eq bufsz hb fin early buf hsz d

/-- a stream that zlib reports as truncated or corrupted is never read to a normal end by the transcription … -/
theorem kseqIdx_stream_error_never_ok (bufsz : Nat) (hb : 1 ≤ bufsz) (fin : Fin) (early : Bool)
    (buf : Array UInt8) (hsz : buf.size = bufsz) (d : Bytes) (hf : fin ≠ .clean) :
    (readAllI bufsz fin early buf d).2 ≠ .ok := by
  rw [readAllI_eq bufsz hb fin early buf hsz d]
  exact readLoop_never_ok fin early hf _ _

/-- … it ends in `log.Fatalf` -/
theorem kseqIdx_stream_error_fatal (bufsz : Nat) (hb : 1 ≤ bufsz) (fin : Fin) (early : Bool)
    (buf : Array UInt8) (hsz : buf.size = bufsz) (d : Bytes) (hf : fin ≠ .clean) :
    ∃ code, (readAllI bufsz fin early buf d).2 = .fatal code := by
  rw [readAllI_eq bufsz hb fin early buf hsz d]
  cases h : (readAll bufsz fin early (buf.getD 0 0) d).2 with
  | ok => exact absurd h (readLoop_never_ok fin early hf _ _)
  | stuck => exact absurd h (readLoop_not_stuck fin early _ _)
  | fatal c => exact ⟨c, rfl⟩

/-- a stream that ends cleanly is never refused for a stream error: the run of the transcription ends normally,
or on a record whose quality is shorter than its sequence (−2) or that has no sequence (−4) -/
theorem kseqIdx_clean_outcomes (bufsz : Nat) (hb : 1 ≤ bufsz) (early : Bool) (buf : Array UInt8)
    (hsz : buf.size = bufsz) (d : Bytes) :
    (readAllI bufsz .clean early buf d).2 = .ok ∨ (readAllI bufsz .clean early buf d).2 = .fatal (-2) ∨
    (readAllI bufsz .clean early buf d).2 = .fatal (-4) := by
  rw [readAllI_eq bufsz hb .clean early buf hsz d]
  exact readLoop_clean_outcomes early _ _

/-- the loop of the transcription is never stuck (every record read consumes input) -/
theorem kseqIdx_not_stuck (bufsz : Nat) (hb : 1 ≤ bufsz) (fin : Fin) (early : Bool) (buf : Array UInt8)
    (hsz : buf.size = bufsz) (d : Bytes) : (readAllI bufsz fin early buf d).2 ≠ .stuck := by
  rw [readAllI_eq bufsz hb fin early buf hsz d]
  exact readLoop_not_stuck fin early _ _

/-! tests on sample inputs (buffer of 4 bytes, initial content `>>>>`: a header character as stale `buf[0]`) -/

/-- `>a\nac\n>b\ng` -/
def exD : Bytes := [62, 97, 10, 97, 99, 10, 62, 98, 10, 103]

example : readAllI 4 .hard true #[62, 62, 62, 62] exD = readAll 4 .hard true 62 exD :=
  kseqIdx_refines 4 (by decide) _ _ _ rfl _
example : ∃ code, (readAllI 4 .trunc false #[62, 62, 62, 62] exD).2 = .fatal code :=
  kseqIdx_stream_error_fatal 4 (by decide) _ _ _ rfl _ (by decide)
example : ∃ code, (readAllI 4 .hard true #[62, 62, 62, 62] exD).2 = .fatal code :=
  kseqIdx_stream_error_fatal 4 (by decide) _ _ _ rfl _ (by decide)
example : (readAllI 4 .clean false #[62, 62, 62, 62] exD).2 = .ok ∨
    (readAllI 4 .clean false #[62, 62, 62, 62] exD).2 = .fatal (-2) ∨
    (readAllI 4 .clean false #[62, 62, 62, 62] exD).2 = .fatal (-4) :=
  kseqIdx_clean_outcomes 4 (by decide) _ _ rfl _

/-! tests: the two C-level details the list model abstracts.  A short `gzread` overwrites a prefix only (the
stale bytes stay in the buffer, beyond `end`); after a failed `gzread` (`end = -1`) `ks_getc` returns the stale
`buf[0]` once more, with `begin = 1`, and answers −1 afterwards -/
example : (fill 4 ⟨#[62, 97, 10, 99], 4, 4, false, [.short [103]]⟩).buf = #[103, 97, 10, 99] ∧
    (fill 4 ⟨#[62, 97, 10, 99], 4, 4, false, [.short [103]]⟩).end_ = 1 ∧
    (fill 4 ⟨#[62, 97, 10, 99], 4, 4, false, [.short [103]]⟩).isEof = true := by decide
example : (getcI 4 ⟨#[62, 97, 10, 99], 4, 4, false, [.fail]⟩).1 = some 62 ∧
    (getcI 4 ⟨#[62, 97, 10, 99], 4, 4, false, [.fail]⟩).2.begin = 1 ∧
    (getcI 4 ⟨#[62, 97, 10, 99], 4, 4, false, [.fail]⟩).2.end_ = -1 ∧
    (getcI 4 (getcI 4 ⟨#[62, 97, 10, 99], 4, 4, false, [.fail]⟩).2).1 = none := by decide

/-! ## (b) the records of a normal end are the records of the text

`Parse.FaSrc` / `Parse.FqSrc` are the records of the independent FASTA / FASTQ grammar, `faFileText` /
`fqFileText` render a file (any number of records, any lay-out of the end-of-line runs, any folding); `OK` is
the well-formedness of the grammar, `KOK` the documented side conditions of kseq (`Lemmas/KseqGo.lean`). -/

/-- **FASTA**: on every well-formed file the transcription ends normally and its records are exactly the
records of the grammar — as kseq records (`kRecFa`) and, through `_FastseqReader`'s conversion `toRec`, as the
records `r.record` of the text -/
theorem kseqIdx_records_fasta (sh : UInt8) (bufsz : Nat) (hb : 1 ≤ bufsz) (early : Bool) (buf : Array UInt8)
    (hsz : buf.size = bufsz)
    (r0 : FaSrc) (rest : List (Seq × FaSrc)) (tail : Seq) (h0 : r0.OK) (hrest : ∀ p ∈ rest, EolRun p.1 ∧ p.2.OK)
    (ht : AllEol tail) (k0 : r0.KOK) (krest : ∀ p ∈ rest, p.2.KOK) :
    readAllI bufsz .clean early buf (faFileText r0 rest tail) =
      (kRecFa r0 :: rest.map (fun p => kRecFa p.2), .ok) ∧
    (readAllI bufsz .clean early buf (faFileText r0 rest tail)).1.map (toRec sh) =
      r0.record :: rest.map (fun p => p.2.record) := by
  have h1 := readAll_fasta bufsz hb early (buf.getD 0 0) r0 rest tail h0 hrest ht k0.2 (fun p hp => (krest p hp).2)
  obtain ⟨recs, h2, h3, _⟩ :=
    kseq_agrees_with_go_fasta sh bufsz hb early (buf.getD 0 0) r0 rest tail h0 hrest ht k0 krest
  rw [readAllI_eq bufsz hb .clean early buf hsz]
  refine ⟨h1, ?_⟩
  rw [h2]
  exact h3

/-- **FASTQ**: the same, qualities included, for every quality shift -/
theorem kseqIdx_records_fastq (sh : UInt8) (bufsz : Nat) (hb : 1 ≤ bufsz) (early : Bool) (buf : Array UInt8)
    (hsz : buf.size = bufsz)
    (r0 : FqSrc) (rest : List (Seq × FqSrc)) (tail : Seq) (h0 : r0.OK) (hrest : ∀ p ∈ rest, EolRun p.1 ∧ p.2.OK)
    (ht : AllEol tail) (k0 : r0.KOK) (krest : ∀ p ∈ rest, p.2.KOK) :
    readAllI bufsz .clean early buf (fqFileText r0 rest tail) =
      (kRecFq r0 :: rest.map (fun p => kRecFq p.2), .ok) ∧
    (readAllI bufsz .clean early buf (fqFileText r0 rest tail)).1.map (toRec sh) =
      r0.record sh true :: rest.map (fun p => p.2.record sh true) := by
  have h1 := readAll_fastq bufsz hb early (buf.getD 0 0) r0 rest tail h0 hrest ht k0.2 (fun p hp => (krest p hp).2)
  obtain ⟨recs, h2, h3, _⟩ :=
    kseq_agrees_with_go_fastq sh bufsz hb early (buf.getD 0 0) r0 rest tail h0 hrest ht k0 krest
  rw [readAllI_eq bufsz hb .clean early buf hsz]
  refine ⟨h1, ?_⟩
  rw [h2]
  exact h3

/-- non-vacuity: the two-record CR LF file `>s1 d\r\nAC\r\ngt\r\n\r\n>s2\r\ntt\r\n` (`exR0`, `exR1` of
`Lemmas/KseqGo.lean`) satisfies the hypotheses; buffer of 3 bytes with stale content -/
example :
    readAllI 3 .clean false #[64, 43, 62] (faFileText exR0 [([13, 10], exR1)] [13, 10]) =
      ([⟨[115, 49], [100, 13], [65, 67, 103, 116], []⟩, ⟨[115, 50], [], [116, 116], []⟩], .ok) := by
  have hrest : ∀ p ∈ [(([13, 10] : Seq), exR1)], EolRun p.1 ∧ p.2.OK := by
    intro p hp
    simp only [List.mem_singleton] at hp
    subst hp
    exact ⟨⟨by decide, by unfold AllEol; decide⟩, exR1_ok.1⟩
  have hk : ∀ p ∈ [(([13, 10] : Seq), exR1)], p.2.KOK := by
    intro p hp
    simp only [List.mem_singleton] at hp
    subst hp
    exact exR1_ok.2
  have h := (kseqIdx_records_fasta 0 3 (by decide) false #[64, 43, 62] rfl exR0 [([13, 10], exR1)] [13, 10]
    exR0_ok.1 hrest (by unfold AllEol; decide) exR0_ok.2 hk).1
  rw [h]
  rfl

/-- non-vacuity (FASTQ): `exQ0`, `exQ1` of `Lemmas/KseqGo.lean` -/
example :
    (readAllI 3 .clean false #[64, 43, 62] (fqFileText exQ0 [([13, 10], exQ1)] [10])).2 = .ok := by
  have hrest : ∀ p ∈ [(([13, 10] : Seq), exQ1)], EolRun p.1 ∧ p.2.OK := by
    intro p hp
    simp only [List.mem_singleton] at hp
    subst hp
    exact ⟨⟨by decide, by unfold AllEol; decide⟩, exQ1_ok.1⟩
  have hk : ∀ p ∈ [(([13, 10] : Seq), exQ1)], p.2.KOK := by
    intro p hp
    simp only [List.mem_singleton] at hp
    subst hp
    exact exQ1_ok.2
  have h := (kseqIdx_records_fastq 33 3 (by decide) false #[64, 43, 62] rfl exQ0 [([13, 10], exQ1)] [10]
    exQ0_ok.1 hrest (by unfold AllEol; decide) exQ0_ok.2 hk).1
  rw [h]

end ObiVerif.Props.C17Kseq
