import ObiVerif.Model.Clean
import ObiVerif.Model.Race
import ObiVerif.Lemmas.Race
import ObiVerif.Lemmas.Clean
import ObiVerif.Lemmas.CleanFuel
import ObiVerif.Lemmas.CleanDist
import ObiVerif.Lemmas.CleanAnnot
import ObiVerif.Props.C09
/-!
# Property C13 — the obiclean graph is exact and identical for any worker count

Model: `Model/Clean.lean` (sequential reference of `buildSamplePairs`, `reweightSequences`,
`extendSimilarityGraph`, `FilterGraphOnRatio`, `ObicleanStatus`, `Mutation`), `Model/Race.lean` (the worker pool:
threads of micro-steps on shared counters under an arbitrary interleaving). The one-difference kernel is `d1F`
of `Model/Lcs.lean` with its specification `d1or0_spec` (property C09).
-/
namespace ObiVerif.Props.C13
open ObiVerif.Clean ObiVerif.Race
open ObiVerif.Lcs (Seq d1F lev OneEdit lcsDP samenuc bandLCS)

/-! ## The race, as theorems on the interleaving model -/

/-- **`atomic_any_schedule`** — any number of threads, each doing any list of ATOMIC increments of any counters:
for EVERY interleaving `picks` that lets every thread finish, each counter ends at exactly the number of
increments that were requested for it. -/
theorem atomic_any_schedule (threads : List (List Nat)) (picks : List Nat)
    (hdone : ((Machine.init (threads.map (fun th => th.flatMap (incSteps true)))).run picks).done = true) (c : Nat) :
    ((Machine.init (threads.map (fun th => th.flatMap (incSteps true)))).run picks).mem c = threads.flatten.count c := by
  have h := pool_atomic_mem (fun i => [i]) threads picks
  have e : poolThreads true (fun i => [i]) threads = threads.map (fun th => th.flatMap (incSteps true)) := by
    simp [poolThreads, workerSteps]
  rw [e] at h
  rw [h hdone c]
  congr 1
  induction threads.flatten with
  | nil => rfl
  | cons x xs ih => simp only [List.flatMap_cons, ih, List.singleton_append]

/-- **`split_loses_update`** — two threads, each doing ONE non-atomic `x++` (load; store) on the same counter:
there is an interleaving (both load, then both store) after which both threads have finished and the counter
is 1, not 2. This is what the unsynchronised `father.SonCount++` of graph.go allows. -/
theorem split_loses_update :
    ∃ picks : List Nat,
      ((Machine.init [incSteps false 0, incSteps false 0]).run picks).done = true ∧
      ((Machine.init [incSteps false 0, incSteps false 0]).run picks).mem 0 = 1 :=
  ⟨[0, 1, 0, 1], by decide⟩

/-- the same two increments, not interleaved (or atomic), count 2: the loss is a matter of schedule only -/
theorem split_sequential_counts :
    ((Machine.init [incSteps false 0, incSteps false 0]).run [0, 0, 1, 1]).mem 0 = 2 ∧
    ((Machine.init [incSteps true 0, incSteps true 0]).run [1, 0]).mem 0 = 2 := by decide

/-! ## Exactness of the distance-one graph -/

/-- **`edge_iff`** — in a sample sorted by count (`hs`; `sortByCount_sorted` below), row `i` has an edge to `j`
exactly when `j` is strictly more abundant and the two sequences are at edit distance exactly one (`lev`, the
textbook Levenshtein distance; by `lev_one_iff` of C09: one substitution, one insertion or one deletion).
The edge is then unique and carries distance 1. Relative to `d1or0_spec` (C09), used here as a theorem. -/
theorem edge_iff (ns : Array Node) (hs : ns.toList.Pairwise (fun a b => a.count ≤ b.count))
    (i j : Nat) (hi : i < ns.size) (hj : j < ns.size) :
    (∃ e ∈ rowEdges1 realKernels ns i, e.father = j) ↔ (ns[j].count > ns[i].count ∧ lev ns[i].seq ns[j].seq = 1) := by
  have hspec := (ObiVerif.Props.C09.d1or0_spec ns[i].seq ns[j].seq).2.2.1
  constructor
  · rintro ⟨e, he, hf⟩
    obtain ⟨j', _, hj', hej⟩ := (mem_rowEdges1 _ _ _ _).1 he
    rw [edgeTo1_eq _ _ _ _ hi hj'] at hej
    split at hej
    · rename_i hc
      have : e.father = j' := by cases hej; rfl
      have hjj : j' = j := by omega
      subst hjj
      refine ⟨hc.1, hspec.1 ?_⟩
      have hv := hc.2
      rcases ObiVerif.Lcs.d1F_verdict_cases ns[i].seq ns[j'].seq with h | h | h
      · simp only [realKernels] at hv; omega
      · exact h
      · simp only [realKernels] at hv; rw [h] at hv; simp at hv
    · cases hej
  · rintro ⟨hc, hl⟩
    have hv : (d1F ns[i].seq ns[j].seq).verdict = 1 := hspec.2 hl
    have hij : i < j := by
      rcases Nat.lt_trichotomy i j with h | h | h
      · exact h
      · subst h; omega
      · have := (List.pairwise_iff_getElem.1 hs) j i (by simpa using hj) (by simpa using hi) h
        simp only [Array.getElem_toList] at this
        omega
    refine ⟨⟨j, (realKernels.d1 ns[i].seq ns[j].seq).verdict, (realKernels.d1 ns[i].seq ns[j].seq).pos,
      (realKernels.d1 ns[i].seq ns[j].seq).a2, (realKernels.d1 ns[i].seq ns[j].seq).a1⟩,
      (mem_rowEdges1 _ _ _ _).2 ⟨j, hij, hj, ?_⟩, rfl⟩
    rw [edgeTo1_eq _ _ _ _ hi hj, if_pos ⟨hc, by simp only [realKernels]; omega⟩]

/-- the order `obiclean` works in: the sample itself (a permutation), sorted by increasing count -/
theorem sort_spec (sample : List Node) :
    (sortByCount sample).Perm sample ∧ (sortByCount sample).Pairwise (fun a b => a.count ≤ b.count) :=
  ⟨sortByCount_perm sample, sortByCount_sorted sample⟩

/-- `edge_iff` on the rows `cleanSample` builds -/
theorem edge_iff_sample (sample : List Node) (i j : Nat) (hi : i < (sortByCount sample).toArray.size)
    (hj : j < (sortByCount sample).toArray.size) :
    (∃ e ∈ (edges1 realKernels (sortByCount sample).toArray).getD i [], e.father = j) ↔
      ((sortByCount sample).toArray[j].count > (sortByCount sample).toArray[i].count ∧
        lev (sortByCount sample).toArray[i].seq (sortByCount sample).toArray[j].seq = 1) := by
  have : (edges1 realKernels (sortByCount sample).toArray).getD i [] = rowEdges1 realKernels (sortByCount sample).toArray i := by
    have hi' : i < (sortByCount sample).length := by simpa using hi
    simp [edges1, List.getD, List.getElem?_range hi']
  rw [this]
  exact edge_iff _ (by simpa using sortByCount_sorted sample) i j hi hj

/-- **`mutation_reproduces_edit`** — every edge of the distance-one graph carries distance 1, a position `n ≥ 0`
and two symbols such that the FATHER is obtained from the SON by exactly that edit at (0-based) position `n`
(`OneEdit`: substitution of `e.to` by `e.frm`, or `'-'` = 45 on the side that has nothing); `obiclean_mutation`
prints it as `(frm)->(to)@n+1` (`mutationOf`). -/
theorem mutation_reproduces_edit (ns : Array Node) (i : Nat) (hi : i < ns.size) (e : Edge)
    (he : e ∈ rowEdges1 realKernels ns i) :
    ∃ (hj : e.father < ns.size) (n : Nat), e.pos = (n : Int) ∧ e.dist = 1 ∧ i < e.father ∧
      OneEdit ns[i].seq ns[e.father].seq n e.to e.frm := by
  obtain ⟨j, hij, hj, hej⟩ := (mem_rowEdges1 _ _ _ _).1 he
  rw [edgeTo1_eq _ _ _ _ hi hj] at hej
  split at hej
  · rename_i hc
    have hv : (d1F ns[i].seq ns[j].seq).verdict = 1 := by
      have hv := hc.2
      rcases ObiVerif.Lcs.d1F_verdict_cases ns[i].seq ns[j].seq with h | h | h
      · simp only [realKernels] at hv; omega
      · exact h
      · simp only [realKernels] at hv; rw [h] at hv; simp at hv
    obtain ⟨n, hn, hedit⟩ := (ObiVerif.Props.C09.d1or0_spec ns[i].seq ns[j].seq).2.2.2.1 hv
    cases hej
    exact ⟨hj, n, hn, hv, hij, hedit⟩
  · cases hej

/-- **`status_spec`** — `ObicleanStatus`: internal iff the sequence still has a father; otherwise head iff its
son counter is positive, singleton iff not. (That the counter IS the number of remaining sons is
`sons_exact` below for the unfiltered graph and the correspondence check for the filtered one.) -/
theorem status_spec (edges : List Edge) (sons : Int) :
    (status edges sons = .internal ↔ edges ≠ []) ∧
    (status edges sons = .head ↔ edges = [] ∧ sons > 0) ∧
    (status edges sons = .singleton ↔ edges = [] ∧ sons ≤ 0) := by
  unfold status
  cases edges with
  | nil =>
    by_cases h : sons > 0
    · simp [h]
    · simp [h]; omega
  | cons e es => simp

/-- the son counter of the distance-one graph is the number of more-abundant... of LESS abundant sequences linked
to the node: `sonCount` at `j` = number of rows having an edge to `j` (each row has at most one, `edge_iff`) -/
theorem sons_exact (K : Kernels) (ns : Array Node) (j : Nat) (hj : j < ns.size) :
    (sonCount ns.size (edges1 K ns)).getD j 0 =
      ((List.range ns.size).flatMap (fun i => (rowEdges1 K ns i).map (·.father))).count j := by
  have : (sonCount ns.size (edges1 K ns)).getD j 0 = sonsOf (edges1 K ns) j := by
    simp [sonCount, List.getD, List.getElem?_range hj]
  rw [this, edges1, sonsOf_map]

/-- **`status_spec_sample`** — on what `cleanSample` returns (any kernels, distance, ratio): the son counter written
for a node IS the number of remaining (after the ratio filter) edges that point to it, hence
internal ⇔ the sequence still has a father; head ⇔ no father and at least one remaining son;
singleton ⇔ no father and no son. -/
theorem status_spec_sample (K : Kernels) (cfg : Config) (sample : List Node) (outs : List Out)
    (h : cleanSample K cfg sample = .ok outs) (k : Nat) (o : Out) (hk : outs[k]? = some o) :
    o.sons = (sonsOf (outs.map (·.edges)) k : Int) ∧
    (status o.edges o.sons = .internal ↔ o.edges ≠ []) ∧
    (status o.edges o.sons = .head ↔ o.edges = [] ∧ ∃ o' ∈ outs, ∃ e ∈ o'.edges, e.father = k) ∧
    (status o.edges o.sons = .singleton ↔ o.edges = [] ∧ ∀ o' ∈ outs, ∀ e ∈ o'.edges, e.father ≠ k) := by
  have hs := (finish_spec cfg (sortByCount sample).toArray _ _ (by simp [edges1]) (by simp [edges2]) outs h).2 k o hk
  have hpos := sonsOf_pos (outs.map (·.edges)) k
  have hex : (∃ row ∈ outs.map (·.edges), ∃ e ∈ row, e.father = k) ↔ ∃ o' ∈ outs, ∃ e ∈ o'.edges, e.father = k := by
    constructor
    · rintro ⟨row, hr, e, he, hf⟩
      obtain ⟨o', ho', rfl⟩ := List.mem_map.1 hr
      exact ⟨o', ho', e, he, hf⟩
    · rintro ⟨o', ho', e, he, hf⟩
      exact ⟨_, List.mem_map.2 ⟨o', ho', rfl⟩, e, he, hf⟩
  rw [hex] at hpos
  obtain ⟨s1, s2, s3⟩ := status_spec o.edges o.sons
  refine ⟨hs, s1, ?_, ?_⟩
  · rw [s2, hs, ← hpos]
    constructor
    · rintro ⟨a, b⟩; exact ⟨a, by omega⟩
    · rintro ⟨a, b⟩; exact ⟨a, by omega⟩
  · rw [s3, hs]
    constructor
    · rintro ⟨a, b⟩
      refine ⟨a, fun o' ho' e he hf => ?_⟩
      have := hpos.2 ⟨o', ho', e, he, hf⟩
      omega
    · rintro ⟨a, b⟩
      refine ⟨a, ?_⟩
      by_cases hp : sonsOf (outs.map (·.edges)) k > 0
      · obtain ⟨o', ho', e, he, hf⟩ := hpos.1 hp
        exact absurd hf (b o' ho' e he)
      · omega

/-- **`output_edges_distance_one`** — with the default `--distance 1` (or 0), the edges `obiclean` ends with for the
`i`-th sequence of the count-sorted sample are the edges `rowEdges1` of `edge_iff` / `mutation_reproduces_edit`:
all of them without ratio filter (`--ratio 1`, the default: `p ≥ q`), a sub-list of them (those passing the
ratio test) otherwise. -/
theorem output_edges_distance_one (K : Kernels) (cfg : Config) (sample : List Node) (outs : List Out)
    (h : cleanSample K cfg sample = .ok outs) (hd : cfg.maxError ≤ 1) (i : Nat) (o : Out) (hi : outs[i]? = some o) :
    ∃ hlt : i < (sortByCount sample).toArray.size, o.node = (sortByCount sample).toArray[i] ∧
      (∀ e ∈ o.edges, e ∈ rowEdges1 K (sortByCount sample).toArray i) ∧
      (¬ cfg.p < cfg.q → o.edges = rowEdges1 K (sortByCount sample).toArray i) := by
  obtain ⟨hlt, hn, w, he⟩ := finish_edges cfg (sortByCount sample).toArray _ _ _ _ (by simp [edges1]) (by simp [edges2]) outs h i o hi
  have hi' : i < (sortByCount sample).length := by simpa using hlt
  have e1 : (edges1 K (sortByCount sample).toArray).getD i [] = rowEdges1 K (sortByCount sample).toArray i := by
    simp [edges1, List.getD, List.getElem?_range hi']
  have e2 : (edges2 K cfg.maxError (sortByCount sample).toArray (edges1 K (sortByCount sample).toArray)).getD i [] = [] := by
    have : ¬ cfg.maxError > 1 := by omega
    simp [edges2, List.getD, List.getElem?_range hi', this]
  rw [e1, e2, List.append_nil] at he
  refine ⟨hlt, ?_, ?_, ?_⟩
  · rw [hn]; simp [Array.getD, hi']
  · intro e hm
    rw [he] at hm
    split at hm
    · exact (List.mem_filter.1 hm).1
    · exact hm
  · intro hpq
    rw [he, if_neg hpq]

/-! ## Schedule independence -/

/-- the rows `extendSimilarityGraph` sends to its workers: none unless `--distance > 1`, else the rows that have
no edge after the first phase -/
def rows2 (K : Kernels) (cfg : Config) (sample : List Node) : List Nat :=
  let ns := (sortByCount sample).toArray
  (List.range ns.size).filter (fun i => decide (cfg.maxError > 1) && ((edges1 K ns).getD i []).isEmpty)

/-- **`graph_schedule_independent`** — with ATOMIC increments of `SonCount` (the repaired code: increment under a
mutex), for every kernel pair, every distance / ratio setting, every sample:
for EVERY worker count (`s.assign.length`), EVERY distribution of the rows over the workers and order in which a
worker takes them (`s.assign`, only required to hand out each dispatched row exactly once), and EVERY
interleaving of the workers' increments (`s.picks`, only required to let every worker finish), in both parallel
phases, everything `obiclean` computes — edges, son counts, weights, hence statuses and mutations — is the
sequential reference `cleanSample`. -/
theorem graph_schedule_independent (K : Kernels) (cfg : Config) (sample : List Node) (s1 s2 : Sched)
    (h1 : s1.assign.flatten.Perm (List.range (sortByCount sample).toArray.size))
    (h2 : s2.assign.flatten.Perm (rows2 K cfg sample))
    (hd1 : (parMachine (rowEdges1 K (sortByCount sample).toArray) true s1.assign s1.picks).done = true)
    (hd2 : (parMachine (fun i => if cfg.maxError > 1 then
              rowEdges2 K cfg.maxError (sortByCount sample).toArray ((edges1 K (sortByCount sample).toArray).getD i []) i
            else []) true s2.assign s2.picks).done = true) :
    cleanSamplePar K cfg sample true s1 s2 = cleanSample K cfg sample := by
  have e1 := parPhase_eq (sortByCount sample).toArray.size (rowEdges1 K (sortByCount sample).toArray) (fun _ => true)
    s1.assign s1.picks (by rw [List.filter_eq_self.2 (fun _ _ => rfl)]; exact h1) (by simp) hd1
  have e2 := parPhase_eq (sortByCount sample).toArray.size
    (fun i => if cfg.maxError > 1 then
      rowEdges2 K cfg.maxError (sortByCount sample).toArray ((edges1 K (sortByCount sample).toArray).getD i []) i else [])
    (fun i => decide (cfg.maxError > 1) && ((edges1 K (sortByCount sample).toArray).getD i []).isEmpty)
    s2.assign s2.picks h2
    (by
      intro i hi
      by_cases hm : cfg.maxError > 1
      · simp only [hm, decide_true, Bool.true_and] at hi
        simp only [hm, if_true, rowEdges2, hi]
        rfl
      · simp only [hm, if_false])
    hd2
  unfold cleanSamplePar cleanSample
  simp only
  rw [e1]
  simp only
  have e1' : (List.range (sortByCount sample).toArray.size).map (rowEdges1 K (sortByCount sample).toArray)
      = edges1 K (sortByCount sample).toArray := rfl
  rw [e1', e2]
  rfl

/-- corollary: any two complete schedules (e.g. 1 worker and 32 workers, or two runs) give the same result -/
theorem graph_any_two_schedules_agree (K : Kernels) (cfg : Config) (sample : List Node) (s1 s2 t1 t2 : Sched)
    (h1 : s1.assign.flatten.Perm (List.range (sortByCount sample).toArray.size))
    (h2 : s2.assign.flatten.Perm (rows2 K cfg sample))
    (hd1 : (parMachine (rowEdges1 K (sortByCount sample).toArray) true s1.assign s1.picks).done = true)
    (hd2 : (parMachine (fun i => if cfg.maxError > 1 then
              rowEdges2 K cfg.maxError (sortByCount sample).toArray ((edges1 K (sortByCount sample).toArray).getD i []) i
            else []) true s2.assign s2.picks).done = true)
    (k1 : t1.assign.flatten.Perm (List.range (sortByCount sample).toArray.size))
    (k2 : t2.assign.flatten.Perm (rows2 K cfg sample))
    (kd1 : (parMachine (rowEdges1 K (sortByCount sample).toArray) true t1.assign t1.picks).done = true)
    (kd2 : (parMachine (fun i => if cfg.maxError > 1 then
              rowEdges2 K cfg.maxError (sortByCount sample).toArray ((edges1 K (sortByCount sample).toArray).getD i []) i
            else []) true t2.assign t2.picks).done = true) :
    cleanSamplePar K cfg sample true s1 s2 = cleanSamplePar K cfg sample true t1 t2 := by
  rw [graph_schedule_independent K cfg sample s1 s2 h1 h2 hd1 hd2,
    graph_schedule_independent K cfg sample t1 t2 k1 k2 kd1 kd2]

/-! ## `reweightSequences` terminates; the sort is stable -/

/-- **`reweight_terminates`** — for every kernel pair, every distance / ratio setting and every sample (any counts,
any sequences, any number of ties) the sequential reference never yields the `hang` outcome: the fuel `n + 2` of
the fixed-point loop of `reweightSequences` is never exhausted, `cleanSample` always returns `.ok`. -/
theorem reweight_terminates (K : Kernels) (cfg : Config) (sample : List Node) :
    cleanSample K cfg sample ≠ .hang ∧ ∃ outs, cleanSample K cfg sample = .ok outs := by
  have h := cleanSample_ne_hang K cfg sample
  refine ⟨h, ?_⟩
  cases hc : cleanSample K cfg sample with
  | ok outs => exact ⟨outs, rfl⟩
  | hang => exact absurd hc h

/-- **`reweight_two_turns`** — why: on ANY graph whose edges all point to a later row (`Forward`: what
`for j := i + 1` of `buildSamplePairs` guarantees — `edges1_forward`) and whose `SonCount` is the number of
incoming edges, the loop stops after at most two turns, whatever fuel `≥ 2` it is given, and its result is the
state after the leaf pass and ONE turn (the second turn finds nothing to fire). -/
theorem reweight_two_turns (n : Nat) (counts : Array Nat) (edges : Array (List Edge)) (sons : Array Nat)
    (F : Forward n edges sons) (hn : counts.size = n) :
    reweight counts edges sons = some (innerPass counts edges sons
      (leafPass counts edges sons { weight := counts, added := Array.replicate counts.size 0 })).1.weight :=
  F.reweight_eq counts hn

/-- the graph `cleanSample` hands to `reweight` satisfies the hypothesis of `reweight_two_turns` -/
theorem reweight_graph_forward (K : Kernels) (sample : List Node) :
    Forward (sortByCount sample).toArray.size (edges1 K (sortByCount sample).toArray).toArray
      (sonCount (sortByCount sample).toArray.size (edges1 K (sortByCount sample).toArray)).toArray :=
  edges1_forward K _

/-- the `hang` outcome of the model is not dead code: with a backward edge and a lost increment (`SonCount 0 = 1`
where two edges point to row 0) rows 0 and 1 fire each other for ever and the fuel runs out (test on one value) -/
theorem reweight_hang_reachable :
    reweight #[1, 1, 1] #[[⟨1, 1, 0, 97, 99⟩], [⟨0, 1, 0, 97, 99⟩], [⟨0, 1, 0, 97, 99⟩]] #[1, 1, 0] = none := by decide

/-- **`sort_stable`** — `sortSamples` is stable: for every count `c`, the sequences of count `c` appear in the sorted
sample in exactly their input order (together with `sort_spec`: the sorted sample is THE stable sort of the input). -/
theorem sort_stable (sample : List Node) (c : Nat) :
    (sortByCount sample).filter (fun y => y.count == c) = sample.filter (fun y => y.count == c) :=
  sortByCount_stable sample c

/-- non-vacuity of `sort_stable` (ties 5, 5, 5 and 2, 2 keep their input order) and of `reweight_two_turns` on a chain
0 → 1 → 2 with a second leaf 3 → 2 -/
example :
    (sortByCount [⟨0, 5, [1]⟩, ⟨1, 2, [2]⟩, ⟨2, 5, [3]⟩, ⟨3, 2, [4]⟩, ⟨4, 5, [5]⟩, ⟨5, 1, [6]⟩]).map (·.orig) = [5, 1, 3, 0, 2, 4] ∧
    reweight #[1, 2, 4, 1] #[[⟨1, 1, 0, 97, 99⟩], [⟨2, 1, 0, 97, 99⟩], [], [⟨2, 1, 0, 97, 99⟩]] #[0, 1, 2, 0]
      = some #[1, 3, 8, 1] := by decide

/-! ## Non-vacuity, and the race on the graph itself (tests on one concrete sample)

The sample: "acgt" ×9 and its two one-substitution variants "acga" ×1, "acgc" ×1; two workers, worker 0 takes row 0
and worker 1 takes rows 1 and 2. -/

def exSample : List Node := [⟨0, 9, [97, 99, 103, 116]⟩, ⟨1, 1, [97, 99, 103, 97]⟩, ⟨2, 1, [97, 99, 103, 99]⟩]
def exCfg : Config := { maxError := 1, p := 1, q := 1 }

/-- the hypotheses of `graph_schedule_independent` are satisfiable (2 workers, interleaved), and its conclusion
is not trivial: two sons are counted, the hub is a head of weight 11 -/
example :
    let s1 : Sched := { assign := [[0], [2, 1]], picks := [1, 0, 1, 1] }
    let s2 : Sched := { assign := [[], []], picks := [] }
    s1.assign.flatten.Perm (List.range (sortByCount exSample).toArray.size) ∧
    s2.assign.flatten.Perm (rows2 realKernels exCfg exSample) ∧
    (parMachine (rowEdges1 realKernels (sortByCount exSample).toArray) true s1.assign s1.picks).done = true ∧
    cleanSamplePar realKernels exCfg exSample true s1 s2 = cleanSample realKernels exCfg exSample ∧
    cleanSample realKernels exCfg exSample = .ok [
      ⟨⟨1, 1, [97, 99, 103, 97]⟩, 1, 0, [⟨2, 1, 3, 116, 97⟩]⟩,
      ⟨⟨2, 1, [97, 99, 103, 99]⟩, 1, 0, [⟨2, 1, 3, 116, 99⟩]⟩,
      ⟨⟨0, 9, [97, 99, 103, 116]⟩, 11, 2, []⟩] := by decide

/-- **`graph_split_schedule_dependent`** — the unrepaired code on the graph itself: with NON-atomic increments the
same sample, the same distribution of rows over two workers, and the interleaving "both load, both store" give
a complete run whose result differs from the sequential reference (the hub ends with `SonCount = 1` instead of
2 and, because `reweightSequences` then fires it after its first son only, a different weight flow). -/
theorem graph_split_schedule_dependent :
    ∃ (s1 s2 : Sched),
      s1.assign.flatten.Perm (List.range (sortByCount exSample).toArray.size) ∧
      s2.assign.flatten.Perm (rows2 realKernels exCfg exSample) ∧
      (parMachine (rowEdges1 realKernels (sortByCount exSample).toArray) false s1.assign s1.picks).done = true ∧
      cleanSamplePar realKernels exCfg exSample false s1 s2 ≠ cleanSample realKernels exCfg exSample :=
  ⟨{ assign := [[0], [1, 2]], picks := [0, 1, 0, 1] }, { assign := [[], []], picks := [] }, by decide⟩

/-- non-vacuity of `edge_iff` / `mutation_reproduces_edit`: "acga" ×1 → "acgt" ×9 is an edge, printed `(t)->(a)@4` -/
example : rowEdges1 realKernels (sortByCount exSample).toArray 0 = [⟨2, 1, 3, 116, 97⟩] ∧
    mutationOf ⟨2, 1, 3, 116, 97⟩ = "(t)->(a)@4" := by decide

/-- non-vacuity of `atomic_any_schedule`: three threads, five increments of two counters, an interleaving -/
example : ((Machine.init ([[0, 1], [0], [1, 0]].map (fun th => th.flatMap (incSteps true)))).run [2, 0, 1, 2, 0]).done = true ∧
    ((Machine.init ([[0, 1], [0], [1, 0]].map (fun th => th.flatMap (incSteps true)))).run [2, 0, 1, 2, 0]).mem 0 = 3 := by decide

/-! ## Deepening round 2: `--distance > 1`, the ratio test, the data set and its annotations, `--head` -/

/-- the number of differences of the optimal LCS alignment of two sequences -/
def lcsDist (a b : Seq) : Int := ((lcsDP samenuc a b).2 : Int) - ((lcsDP samenuc a b).1 : Int)

/-- `D1Or0 < 0` (the condition under which `extendSimilarityGraph` calls the LCS kernel) is "edit distance at least 2" -/
theorem d1F_neg_iff (a b : Seq) : (d1F a b).verdict < 0 ↔ 2 ≤ lev a b := by
  obtain ⟨_, h0, h1, _, _, hn⟩ := ObiVerif.Props.C09.d1or0_spec a b
  constructor
  · intro h
    have : lev a b ≠ 0 := fun e => by have := h0.2 e; omega
    have : lev a b ≠ 1 := fun e => by have := h1.2 e; omega
    omega
  · intro h
    rw [hn (by omega) (by omega)]
    decide

/-- **`edge2_iff`** — exactness of the `--distance d` (`d > 1`) phase, `extendSimilarityGraph`: a row `i` that got no
distance-one father is linked to row `j` exactly when `j` comes later in the (stable) count order — the code does
NOT compare the counts here, so `count j ≥ count i` and, among ties, input order decides —, the two sequences are at
edit distance at least 2 and their optimal LCS alignment (`lcsDP`: longest common subsequence with IUPAC matching,
shortest alignment achieving it; `lcsDP_is_lcs` of C09) has at most `d` differences. The edge is then unique and
carries exactly that number of differences, position `-1` and `'-'`, `'-'`. Uses `fastLCS_decides_bound` (C09) as a
theorem; `|a| + |b| < 30000` is the domain of the kernel's sentinel. -/
theorem edge2_iff (ns : Array Node) (d : Nat) (hd : d > 1) (i j : Nat) (hi : i < ns.size) (hj : j < ns.size)
    (hlen : ns[i].seq.length + ns[j].seq.length + 1 ≤ 30000) :
    ((∃ e ∈ rowEdges2 realKernels d ns [] i, e.father = j) ↔
      (i < j ∧ 2 ≤ lev ns[i].seq ns[j].seq ∧ lcsDist ns[i].seq ns[j].seq ≤ d)) ∧
    (∀ e ∈ rowEdges2 realKernels d ns [] i, e.father = j → e = ⟨j, lcsDist ns[i].seq ns[j].seq, -1, 45, 45⟩) := by
  have hne : (d : Int) ≠ -1 := by omega
  obtain ⟨hdec, hopt⟩ := ObiVerif.Props.C09.fastLCS_decides_bound ns[i].seq ns[j].seq d hlen hne
  have key : ∀ e, edgeTo2 realKernels d ns i j = some e →
      2 ≤ lev ns[i].seq ns[j].seq ∧ lcsDist ns[i].seq ns[j].seq ≤ d ∧ e = ⟨j, lcsDist ns[i].seq ns[j].seq, -1, 45, 45⟩ := by
    intro e he
    rw [edgeTo2_eq _ _ _ _ _ hi hj] at he
    split at he
    · rename_i hv
      split at he
      · rename_i s l hk
        split at he
        · rename_i hb
          have hk' : bandLCS ns[i].seq ns[j].seq d = some (s, l) := hk
          have ho := hopt s l hk' hb.1
          have hdist : lcsDist ns[i].seq ns[j].seq = (l : Int) - (s : Int) := by
            unfold lcsDist; rw [← ho]
          refine ⟨(d1F_neg_iff _ _).1 hv, by rw [hdist]; exact hb.1, ?_⟩
          cases he
          rw [hdist]
        · cases he
      · cases he
    · cases he
  refine ⟨⟨?_, ?_⟩, ?_⟩
  · rintro ⟨e, he, hf⟩
    obtain ⟨j', hij, hj', hej⟩ := (mem_rowEdges2 _ _ _ _ _).1 he
    have : j' = j := by rw [← edgeTo2_father _ _ _ _ _ _ hej, hf]
    subst this
    obtain ⟨a, b, _⟩ := key e hej
    exact ⟨hij, a, b⟩
  · rintro ⟨hij, hl, hb⟩
    obtain ⟨s, l, hk, hsl⟩ := hdec.2 hb
    refine ⟨⟨j, (l : Int) - (s : Int), -1, 45, 45⟩, (mem_rowEdges2 _ _ _ _ _).2 ⟨j, hij, hj, ?_⟩, rfl⟩
    have hv : (realKernels.d1 ns[i].seq ns[j].seq).verdict < 0 := (d1F_neg_iff _ _).2 hl
    rw [edgeTo2_eq _ _ _ _ _ hi hj, if_pos hv]
    have hk' : realKernels.lcs ns[i].seq ns[j].seq d = some (s, l) := hk
    rw [hk']
    simp only
    rw [if_pos ⟨hsl, by omega⟩]
  · intro e he hf
    obtain ⟨j', _, _, hej⟩ := (mem_rowEdges2 _ _ _ _ _).1 he
    have : j' = j := by rw [← edgeTo2_father _ _ _ _ _ _ hej, hf]
    subst this
    exact (key e hej).2.2

theorem rat_div_pow_mul (p q : Rat) (hq : q ≠ 0) (n : Nat) : (p / q) ^ n * q ^ n = p ^ n := by
  induction n with
  | zero => simp
  | succ k ih =>
    rw [Rat.pow_succ, Rat.pow_succ, Rat.pow_succ, ← ih]
    have : p / q * q = p := Rat.div_mul_cancel hq
    grind

/-- **`ratio_test_rational`** — the integer test of the model IS the comparison of rationals of `FilterGraphOnRatio`,
`w1 / wf ≤ (p / q) ^ dist`, for every positive father weight and denominator (no rounding: `Rat` is exact) -/
theorem ratio_test_rational (p q w1 wf : Nat) (dist : Int) (hq : 0 < q) (hwf : 0 < wf) :
    ratioKeeps p q w1 wf dist = true ↔ (w1 : Rat) / (wf : Rat) ≤ ((p : Rat) / (q : Rat)) ^ dist.toNat := by
  unfold ratioKeeps
  generalize dist.toNat = n
  rw [decide_eq_true_iff]
  have hqr : (0 : Rat) < (q : Rat) := Rat.natCast_pos.2 hq
  have hwr : (0 : Rat) < (wf : Rat) := Rat.natCast_pos.2 hwf
  have hqn : (0 : Rat) < (q : Rat) ^ n := Rat.pow_pos hqr
  have hm : (0 : Rat) < (wf : Rat) * (q : Rat) ^ n := Rat.mul_pos hwr hqn
  have hl : (w1 : Rat) / (wf : Rat) * ((wf : Rat) * (q : Rat) ^ n) = ((w1 * q ^ n : Nat) : Rat) := by
    have : (w1 : Rat) / (wf : Rat) * (wf : Rat) = (w1 : Rat) := Rat.div_mul_cancel (Rat.ne_of_gt hwr)
    rw [Rat.natCast_mul, Rat.natCast_pow, ← this]
    grind
  have hr : ((p : Rat) / (q : Rat)) ^ n * ((wf : Rat) * (q : Rat) ^ n) = ((p ^ n * wf : Nat) : Rat) := by
    rw [Rat.natCast_mul, Rat.natCast_pow, ← rat_div_pow_mul (p : Rat) (q : Rat) (Rat.ne_of_gt hqr) n]
    grind
  rw [← Rat.natCast_le_natCast, ← hl, ← hr]
  constructor
  · intro h; exact Rat.le_of_mul_le_mul_right h hm
  · intro h; exact Rat.mul_le_mul_of_nonneg_right h (Rat.le_of_lt hm)

theorem rowEdges1_father_lt (K : Kernels) (ns : Array Node) (i : Nat) (e : Edge) (he : e ∈ rowEdges1 K ns i) :
    i < e.father ∧ e.father < ns.size := by
  obtain ⟨j, hij, hj, hej⟩ := (mem_rowEdges1 _ _ _ _).1 he
  rw [edgeTo1_father _ _ _ _ _ hej]; exact ⟨hij, hj⟩

theorem rowEdges2_father_lt (K : Kernels) (step : Int) (ns : Array Node) (i : Nat) (e : Edge)
    (he : e ∈ rowEdges2 K step ns [] i) : i < e.father ∧ e.father < ns.size := by
  obtain ⟨j, hij, hj, hej⟩ := (mem_rowEdges2 _ _ _ _ _).1 he
  rw [edgeTo2_father _ _ _ _ _ _ hej]; exact ⟨hij, hj⟩

/-- **`output_edges_exact`** — every distance and every ratio: the edges `obiclean` ENDS with for the `i`-th sequence of
the count-sorted sample are exactly the distance-one edges of the row (`edge_iff`), or — when `--distance > 1` and
the row has none — the edges of `edge2_iff`, among which the ratio filter (`--ratio p/q < 1`) keeps exactly those
with `weight(son) · q^dist ≤ p^dist · weight(father)`, i.e. `weight(son) / weight(father) ≤ (p/q)^dist`
(`ratio_test_rational`), the weights being the `obiclean_weight` written for the two nodes. -/
theorem output_edges_exact (K : Kernels) (cfg : Config) (sample : List Node) (outs : List Out)
    (h : cleanSample K cfg sample = .ok outs) (i : Nat) (o : Out) (hi : outs[i]? = some o) :
    ∃ hlt : i < (sortByCount sample).toArray.size, o.node = (sortByCount sample).toArray[i] ∧
      ∀ e : Edge, e ∈ o.edges ↔
        ((e ∈ rowEdges1 K (sortByCount sample).toArray i ∨
          (cfg.maxError > 1 ∧ rowEdges1 K (sortByCount sample).toArray i = [] ∧
            e ∈ rowEdges2 K cfg.maxError (sortByCount sample).toArray [] i)) ∧
         (cfg.p < cfg.q → ∃ f : Out, outs[e.father]? = some f ∧
            o.weight * cfg.q ^ e.dist.toNat ≤ cfg.p ^ e.dist.toNat * f.weight)) := by
  obtain ⟨hlen, weight, hw, hall⟩ := finish_edges_weight cfg (sortByCount sample).toArray _ _ _ _
    (by simp [edges1]) (by simp [edges2]) outs h
  obtain ⟨hlt, hn, he⟩ := hall i o hi
  have hi' : i < (sortByCount sample).length := by simpa using hlt
  have e1 : (edges1 K (sortByCount sample).toArray).getD i [] = rowEdges1 K (sortByCount sample).toArray i := by
    simp [edges1, List.getD, List.getElem?_range hi']
  have e2 : (edges2 K cfg.maxError (sortByCount sample).toArray (edges1 K (sortByCount sample).toArray)).getD i [] =
      if cfg.maxError > 1 then rowEdges2 K cfg.maxError (sortByCount sample).toArray
        (rowEdges1 K (sortByCount sample).toArray i) i else [] := by
    have e1' : (edges1 K (sortByCount sample).toArray)[i]?.getD [] = rowEdges1 K (sortByCount sample).toArray i := by
      rw [← List.getD_eq_getElem?_getD]; exact e1
    simp only [edges2, List.getD_eq_getElem?_getD, List.getElem?_map, List.getElem?_range hlt, Option.map_some,
      Option.getD_some, e1']
  rw [e1, e2] at he
  refine ⟨hlt, by rw [hn]; simp [Array.getD, hi'], fun e => ?_⟩
  -- membership in the unfiltered row
  have hbase : e ∈ rowEdges1 K (sortByCount sample).toArray i ++
        (if cfg.maxError > 1 then rowEdges2 K cfg.maxError (sortByCount sample).toArray
          (rowEdges1 K (sortByCount sample).toArray i) i else []) ↔
      (e ∈ rowEdges1 K (sortByCount sample).toArray i ∨
          (cfg.maxError > 1 ∧ rowEdges1 K (sortByCount sample).toArray i = [] ∧
            e ∈ rowEdges2 K cfg.maxError (sortByCount sample).toArray [] i)) := by
    rw [List.mem_append]
    constructor
    · rintro (h1 | h2)
      · exact .inl h1
      · by_cases hm : cfg.maxError > 1
        · rw [if_pos hm] at h2
          by_cases hr : rowEdges1 K (sortByCount sample).toArray i = []
          · rw [hr] at h2; exact .inr ⟨hm, hr, h2⟩
          · rw [rowEdges2_of_ne _ _ _ _ _ hr] at h2; cases h2
        · rw [if_neg hm] at h2; cases h2
    · rintro (h1 | ⟨hm, hr, h2⟩)
      · exact .inl h1
      · refine .inr ?_
        rw [if_pos hm, hr]; exact h2
  have hfl : e ∈ rowEdges1 K (sortByCount sample).toArray i ++
        (if cfg.maxError > 1 then rowEdges2 K cfg.maxError (sortByCount sample).toArray
          (rowEdges1 K (sortByCount sample).toArray i) i else []) → e.father < outs.length := by
    intro hm
    rw [hlen]
    rcases hbase.1 hm with h1 | ⟨_, _, h2⟩
    · exact (rowEdges1_father_lt _ _ _ _ h1).2
    · exact (rowEdges2_father_lt _ _ _ _ _ h2).2
  rw [he]
  split
  · rename_i hpq
    simp only [filterRow, List.mem_filter, ratioKeeps, decide_eq_true_eq]
    rw [hbase]
    constructor
    · rintro ⟨hb, hr⟩
      refine ⟨hb, fun _ => ?_⟩
      have hf := hfl (hbase.2 hb)
      refine ⟨outs[e.father], List.getElem?_eq_getElem hf, ?_⟩
      rw [hw _ _ (List.getElem?_eq_getElem hf), hw i o hi]
      exact hr
    · rintro ⟨hb, hr⟩
      obtain ⟨f, hf, hle⟩ := hr hpq
      refine ⟨hb, ?_⟩
      rw [← hw _ _ hf, ← hw i o hi]
      exact hle
  · rename_i hpq
    rw [hbase]
    exact ⟨fun hb => ⟨hb, fun hc => absurd hc hpq⟩, fun hb => hb.1⟩

/-- non-vacuity of `edge2_iff` / `output_edges_exact` (test on one value): "acgta" ×4 and "aggwa" ×1 (two substitutions),
`--distance 2 --ratio 1/2`: 1/4 = (1/2)² exactly, kept -/
example : cleanSample realKernels { maxError := 2, p := 1, q := 2 }
      [⟨0, 4, [97, 99, 103, 116, 97]⟩, ⟨1, 1, [97, 103, 103, 99, 97]⟩] =
    .ok [⟨⟨1, 1, [97, 103, 103, 99, 97]⟩, 1, 0, [⟨1, 2, -1, 45, 45⟩]⟩, ⟨⟨0, 4, [97, 99, 103, 116, 97]⟩, 4, 1, []⟩] ∧
    cleanSample realKernels { maxError := 2, p := 1, q := 2 }
      [⟨0, 3, [97, 99, 103, 116, 97]⟩, ⟨1, 1, [97, 103, 103, 99, 97]⟩] =
    .ok [⟨⟨1, 1, [97, 103, 103, 99, 97]⟩, 1, 0, []⟩, ⟨⟨0, 3, [97, 99, 103, 116, 97]⟩, 3, 0, []⟩] := by decide +kernel

/-! ### the data set -/

/-- **`dataset_schedule_independent`** — the annotated OUTPUT: with atomic increments, for every data set (any number of
samples sharing records), every kernel pair, distance and ratio, and for EVERY choice, sample by sample, of worker
count, distribution of the rows and interleaving in both parallel phases (`sch name`, under the hypotheses of
`graph_schedule_independent` for that sample), ALL the annotations of ALL the records — `obiclean_status`,
`obiclean_weight`, `obiclean_mutation`, `obiclean_head`, the head / internal / singleton / sample counts — are those
of the sequential reference `cleanDataset`; hence (`cliOutput`) so is what `obiclean` writes with or without `--head`. -/
theorem dataset_schedule_independent (K : Kernels) (cfg : Config) (db : List Rec) (sch : Nat → Sched × Sched)
    (h1 : ∀ name ∈ sampleNames db,
      (sch name).1.assign.flatten.Perm (List.range (sortByCount (sampleOf db name)).toArray.size))
    (h2 : ∀ name ∈ sampleNames db, (sch name).2.assign.flatten.Perm (rows2 K cfg (sampleOf db name)))
    (hd1 : ∀ name ∈ sampleNames db,
      (parMachine (rowEdges1 K (sortByCount (sampleOf db name)).toArray) true (sch name).1.assign (sch name).1.picks).done = true)
    (hd2 : ∀ name ∈ sampleNames db,
      (parMachine (fun i => if cfg.maxError > 1 then
          rowEdges2 K cfg.maxError (sortByCount (sampleOf db name)).toArray
            ((edges1 K (sortByCount (sampleOf db name)).toArray).getD i []) i
        else []) true (sch name).2.assign (sch name).2.picks).done = true) (onlyHead : Bool) :
    cleanDatasetPar K cfg db true sch = cleanDataset K cfg db ∧
    (cleanDatasetPar K cfg db true sch).map (cliOutput onlyHead) = (cleanDataset K cfg db).map (cliOutput onlyHead) := by
  have : cleanDatasetPar K cfg db true sch = cleanDataset K cfg db := by
    unfold cleanDatasetPar cleanDataset
    rw [runSamples_congr _ (fun _ s => cleanSample K cfg s) db (fun name hn =>
      graph_schedule_independent K cfg (sampleOf db name) (sch name).1 (sch name).2
        (h1 name hn) (h2 name hn) (hd1 name hn) (hd2 name hn))]
  exact ⟨this, by rw [this]⟩

/-- the data-set reference never hangs (from `reweight_terminates`, sample by sample) -/
theorem dataset_terminates (K : Kernels) (cfg : Config) (db : List Rec) : ∃ as, cleanDataset K cfg db = some as := by
  obtain ⟨r, hr⟩ := runSamples_some (fun _ s => cleanSample K cfg s) db
    (fun name => (reweight_terminates K cfg (sampleOf db name)).2)
  exact ⟨annotateAll db r, by unfold cleanDataset; rw [hr]; rfl⟩

/-- **`annot_counts_spec`** — `annotateOBIClean` on any per-sample results: `obiclean_status` has one entry per sample
the record is a node of; `obiclean_headcount` / `_internalcount` / `_singletoncount` count the entries `h` / `i` / `s`;
`obiclean_samplecount` is their sum = the number of entries; `obiclean_weight` has the same keys in the same order;
`obiclean_head` holds exactly when some sample gives the status `h` or `s`. -/
theorem annot_counts_spec (res : List (Nat × List Out)) (i : Nat) :
    let a := annotateRec res i
    a.headCount = (a.status.map (·.2)).count .head ∧
    a.internalCount = (a.status.map (·.2)).count .internal ∧
    a.singletonCount = (a.status.map (·.2)).count .singleton ∧
    a.sampleCount = a.status.length ∧
    a.weight.map (·.1) = a.status.map (·.1) ∧
    (a.head = true ↔ ∃ s ∈ a.status, s.2 = .head ∨ s.2 = .singleton) := by
  simp only [annotateRec, List.map_map]
  have hc := status_count_total ((mineOf res i).map (fun m => status m.2.2.edges m.2.2.sons))
  refine ⟨rfl, rfl, rfl, ?_, ?_, ?_⟩
  · rw [List.length_map] at hc ⊢; exact hc
  · rfl
  · rw [decide_eq_true_iff]
    constructor
    · intro hpos
      have : 0 < ((mineOf res i).map (fun m => status m.2.2.edges m.2.2.sons)).count .head ∨
             0 < ((mineOf res i).map (fun m => status m.2.2.edges m.2.2.sons)).count .singleton := by omega
      rcases this with h | h
      · obtain ⟨m, hm, hs⟩ := List.mem_map.1 (List.count_pos_iff.1 h)
        exact ⟨_, List.mem_map.2 ⟨m, hm, rfl⟩, .inl hs⟩
      · obtain ⟨m, hm, hs⟩ := List.mem_map.1 (List.count_pos_iff.1 h)
        exact ⟨_, List.mem_map.2 ⟨m, hm, rfl⟩, .inr hs⟩
    · rintro ⟨s, hs, hst⟩
      obtain ⟨m, hm, rfl⟩ := List.mem_map.1 hs
      rcases hst with h | h
      · have : 0 < ((mineOf res i).map (fun m => status m.2.2.edges m.2.2.sons)).count .head :=
          List.count_pos_iff.2 (List.mem_map.2 ⟨m, hm, h⟩)
        omega
      · have : 0 < ((mineOf res i).map (fun m => status m.2.2.edges m.2.2.sons)).count .singleton :=
          List.count_pos_iff.2 (List.mem_map.2 ⟨m, hm, h⟩)
        omega

/-- **`cli_head_spec`** — the final selection of the command: without `--head` every record is written, with `--head`
exactly the records whose `obiclean_head` is true (`annot_counts_spec`: head or singleton in at least one sample);
in both cases in input order, each once, with the annotations computed above. -/
theorem cli_head_spec (onlyHead : Bool) (as : List Annot) :
    (∀ i a, (i, a) ∈ cliOutput onlyHead as ↔ as[i]? = some a ∧ (onlyHead = true → a.head = true)) ∧
    ((cliOutput onlyHead as).map (·.1)).Pairwise (· < ·) :=
  ⟨mem_cliOutput onlyHead as, cliOutput_sorted onlyHead as⟩

/-- what `obiclean_mutation[id of the father]` holds for a (son, father) pair of sequences -/
def mutFor (K : Kernels) (son father : Seq) : String :=
  if (K.d1 son father).verdict > 0 then
    mutationOf ⟨0, 1, (K.d1 son father).pos, (K.d1 son father).a2, (K.d1 son father).a1⟩
  else "(-)->(-)@0"

/-- **`mutation_value_function_of_pair`** — every entry `father ↦ value` of the `obiclean_mutation` map of record `i`, whatever
the sample and the edge it comes from, has `value = mutFor (sequence of i) (sequence of the father)`: the mutation of
the one-difference kernel on the two sequences, or `(-)->(-)@0` for a `--distance > 1` edge. Consequently two samples
(or two edges) can only write the SAME value under the same key: the annotation does not depend on the order in which
Go iterates over its map of samples. Any kernels, distance, ratio, data set. -/
theorem mutation_value_function_of_pair (K : Kernels) (cfg : Config) (db : List Rec) (res : List (Nat × List Out))
    (h : runSamples (fun _ s => cleanSample K cfg s) db = some res) (i : Nat) (k : Nat) (v : String)
    (hm : (k, v) ∈ (annotateRec res i).mutation) :
    ∃ ri rk, db[i]? = some ri ∧ db[k]? = some rk ∧ v = mutFor K ri.seq rk.seq := by
  simp only [annotateRec, List.mem_flatMap] at hm
  obtain ⟨⟨name, outs, o⟩, hmine, hkv⟩ := hm
  simp only [mineOf, List.mem_filterMap] at hmine
  obtain ⟨⟨name', outs'⟩, hres, hfind⟩ := hmine
  cases hf : outs'.find? (fun o => o.node.orig == i) with
  | none => simp [hf] at hfind
  | some o' =>
    simp only [hf, Option.map_some, Option.some.injEq, Prod.mk.injEq] at hfind
    obtain ⟨rfl, rfl, rfl⟩ := hfind
    have horig : o'.node.orig = i := by simpa using List.find?_some hf
    have hmem : o' ∈ outs' := List.mem_of_find?_eq_some hf
    obtain ⟨idx, hidx⟩ := List.getElem?_of_mem hmem
    have hcs := runSamples_mem _ db res h name' outs' hres
    obtain ⟨hlt, hnode, hedges⟩ := output_edges_exact K cfg (sampleOf db name') outs' hcs idx o' hidx
    simp only [mutations, List.mem_map] at hkv
    obtain ⟨e, he, hke⟩ := hkv
    simp only [Prod.mk.injEq] at hke
    obtain ⟨hk, hv⟩ := hke
    have hperm := sortByCount_perm (sampleOf db name')
    have hin : ∀ (j : Nat) (hj : j < (sortByCount (sampleOf db name')).toArray.size),
        (sortByCount (sampleOf db name')).toArray[j] ∈ sampleOf db name' := by
      intro j hj
      apply hperm.mem_iff.1
      have : (sortByCount (sampleOf db name')).toArray[j] = (sortByCount (sampleOf db name'))[j]'(by simpa using hj) := by simp
      rw [this]; exact List.getElem_mem _
    obtain ⟨ri, hri, hsonseq⟩ := sampleOf_mem db name' _ (hin idx hlt)
    rw [← hnode, horig] at hri
    have hb := ((hedges e).1 he).1
    have hfl : e.father < (sortByCount (sampleOf db name')).toArray.size := by
      rcases hb with h1 | ⟨_, _, h2⟩
      · exact (rowEdges1_father_lt _ _ _ _ h1).2
      · exact (rowEdges2_father_lt _ _ _ _ _ h2).2
    have hlen := (finish_edges_weight cfg (sortByCount (sampleOf db name')).toArray _ _ _ _
      (by simp [edges1]) (by simp [edges2]) outs' hcs).1
    have hfo : outs'[e.father]? = some (outs'[e.father]'(by omega)) := List.getElem?_eq_getElem (by omega)
    obtain ⟨_, hfnode, _⟩ := output_edges_exact K cfg (sampleOf db name') outs' hcs e.father _ hfo
    obtain ⟨rk, hrk, hfaseq⟩ := sampleOf_mem db name' _ (hin e.father hfl)
    have hgetD : (outs'.getD e.father o') = outs'[e.father]'(by omega) := by
      rw [List.getD_eq_getElem?_getD, hfo]; rfl
    rw [hgetD, hfnode] at hk
    rw [hk] at hrk
    refine ⟨ri, rk, hri, hrk, ?_⟩
    rw [← hv, ← hsonseq, ← hfaseq]
    rcases hb with h1 | ⟨_, _, h2⟩
    · obtain ⟨j, hij, hj, hej⟩ := (mem_rowEdges1 _ _ _ _).1 h1
      have hfj := edgeTo1_father _ _ _ _ _ hej
      subst hfj
      rw [edgeTo1_eq _ _ _ _ hlt hj] at hej
      split at hej
      · rename_i hc
        unfold mutFor
        rw [if_pos hc.2]
        injection hej with hej
        exact (congrArg mutationOf hej).symm
      · cases hej
    · obtain ⟨j, hij, hj, hej⟩ := (mem_rowEdges2 _ _ _ _ _).1 h2
      have hfj := edgeTo2_father _ _ _ _ _ _ hej
      subst hfj
      rw [edgeTo2_eq _ _ _ _ _ hlt hj] at hej
      split at hej
      · rename_i hc
        unfold mutFor
        rw [if_neg (by omega)]
        split at hej
        · split at hej
          · injection hej with hej
            exact (congrArg mutationOf hej).symm.trans (by simp only [mutationOf]; decide)
          · cases hej
        · cases hej
      · cases hej

/-- non-vacuity of `mutation_value_function_of_pair` (test on one value) -/
example : mutFor realKernels [97, 99, 103, 97] [97, 99, 103, 116] = "(t)->(a)@4" ∧
    mutFor realKernels [97, 99, 99, 99] [97, 103, 103, 116] = "(-)->(-)@0" := by decide

/-- non-vacuity (test on one data set): three records over two samples; record 2 is internal in its only sample and is
dropped by `--head`; the hypotheses of `dataset_schedule_independent` are about `sampleNames = [97, 98]` -/
example :
    let db : List Rec := [⟨[97, 99, 103, 116], [(97, 5), (98, 1)]⟩, ⟨[97, 99, 103, 97], [(97, 1), (98, 5)]⟩,
      ⟨[97, 99, 99, 97], [(98, 2)]⟩]
    sampleNames db = [97, 98] ∧
    ((cleanDataset realKernels exCfg db).map (cliOutput true)).map (fun l => l.map (·.1)) = some [0, 1] ∧
    ((cleanDataset realKernels exCfg db).map (cliOutput false)).map (fun l => l.map (fun r => (r.1, r.2.head, r.2.sampleCount)))
      = some [(0, true, 2), (1, true, 2), (2, false, 1)] := by decide

end ObiVerif.Props.C13
