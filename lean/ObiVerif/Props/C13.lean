import ObiVerif.Model.Clean
import ObiVerif.Model.Race
import ObiVerif.Lemmas.Race
import ObiVerif.Lemmas.Clean
import ObiVerif.Lemmas.CleanFuel
import ObiVerif.Props.C09
/-!
# Property C13 — the obiclean graph is exact and identical for any worker count

Model: `Model/Clean.lean` (sequential reference of `buildSamplePairs`, `reweightSequences`,
`extendSimilarityGraph`, `FilterGraphOnRatio`, `ObicleanStatus`, `Mutation`), `Model/Race.lean` (the worker pool:
threads of micro-steps on shared counters under an arbitrary interleaving). The one-difference kernel is `d1F`
of `Model/Lcs.lean` with its specification `d1or0_spec` (property C09).
-/
namespace ObiVerif.Props.C13
open ObiVerif.Clean ObiVerif.Race
open ObiVerif.Lcs (Seq d1F lev OneEdit)

/-! ## The race, as theorems on the interleaving model -/

/-- **`atomic_any_schedule`** — any number of threads, each doing any list of ATOMIC increments of any counters:
for EVERY interleaving `picks` that lets every thread finish, each counter ends at exactly the number of
increments that were requested for it. -/
theorem atomic_any_schedule (threads : List (List Nat)) (picks : List Nat)
    (hdone : ((Machine.init (threads.map (fun th => th.flatMap (incSteps true)))).run picks).done = true) (c : Nat) :
    ((Machine.init (threads.map (fun th => th.flatMap (incSteps true)))).run picks).mem c = threads.flatten.count c := by
  have h := pool_atomic_mem (fun i => [i]) threads picks
  have e : poolThreads true (fun i => [i]) threads = threads.map (fun th => th.flatMap (incSteps true)) := by
    simp [poolThreads, workerSteps]
  rw [e] at h
  rw [h hdone c]
  congr 1
  induction threads.flatten with
  | nil => rfl
  | cons x xs ih => simp only [List.flatMap_cons, ih, List.singleton_append]

/-- **`split_loses_update`** — two threads, each doing ONE non-atomic `x++` (load; store) on the same counter:
there is an interleaving (both load, then both store) after which both threads have finished and the counter
is 1, not 2. This is what the unsynchronised `father.SonCount++` of graph.go allows. -/
theorem split_loses_update :
    ∃ picks : List Nat,
      ((Machine.init [incSteps false 0, incSteps false 0]).run picks).done = true ∧
      ((Machine.init [incSteps false 0, incSteps false 0]).run picks).mem 0 = 1 :=
  ⟨[0, 1, 0, 1], by decide⟩

/-- the same two increments, not interleaved (or atomic), count 2: the loss is a matter of schedule only -/
theorem split_sequential_counts :
    ((Machine.init [incSteps false 0, incSteps false 0]).run [0, 0, 1, 1]).mem 0 = 2 ∧
    ((Machine.init [incSteps true 0, incSteps true 0]).run [1, 0]).mem 0 = 2 := by decide

/-! ## Exactness of the distance-one graph -/

/-- **`edge_iff`** — in a sample sorted by count (`hs`; `sortByCount_sorted` below), row `i` has an edge to `j`
exactly when `j` is strictly more abundant and the two sequences are at edit distance exactly one (`lev`, the
textbook Levenshtein distance; by `lev_one_iff` of C09: one substitution, one insertion or one deletion).
The edge is then unique and carries distance 1. Relative to `d1or0_spec` (C09), used here as a theorem. -/
theorem edge_iff (ns : Array Node) (hs : ns.toList.Pairwise (fun a b => a.count ≤ b.count))
    (i j : Nat) (hi : i < ns.size) (hj : j < ns.size) :
    (∃ e ∈ rowEdges1 realKernels ns i, e.father = j) ↔ (ns[j].count > ns[i].count ∧ lev ns[i].seq ns[j].seq = 1) := by
  have hspec := (ObiVerif.Props.C09.d1or0_spec ns[i].seq ns[j].seq).2.2.1
  constructor
  · rintro ⟨e, he, hf⟩
    obtain ⟨j', _, hj', hej⟩ := (mem_rowEdges1 _ _ _ _).1 he
    rw [edgeTo1_eq _ _ _ _ hi hj'] at hej
    split at hej
    · rename_i hc
      have : e.father = j' := by cases hej; rfl
      have hjj : j' = j := by omega
      subst hjj
      refine ⟨hc.1, hspec.1 ?_⟩
      have hv := hc.2
      rcases ObiVerif.Lcs.d1F_verdict_cases ns[i].seq ns[j'].seq with h | h | h
      · simp only [realKernels] at hv; omega
      · exact h
      · simp only [realKernels] at hv; rw [h] at hv; simp at hv
    · cases hej
  · rintro ⟨hc, hl⟩
    have hv : (d1F ns[i].seq ns[j].seq).verdict = 1 := hspec.2 hl
    have hij : i < j := by
      rcases Nat.lt_trichotomy i j with h | h | h
      · exact h
      · subst h; omega
      · have := (List.pairwise_iff_getElem.1 hs) j i (by simpa using hj) (by simpa using hi) h
        simp only [Array.getElem_toList] at this
        omega
    refine ⟨⟨j, (realKernels.d1 ns[i].seq ns[j].seq).verdict, (realKernels.d1 ns[i].seq ns[j].seq).pos,
      (realKernels.d1 ns[i].seq ns[j].seq).a2, (realKernels.d1 ns[i].seq ns[j].seq).a1⟩,
      (mem_rowEdges1 _ _ _ _).2 ⟨j, hij, hj, ?_⟩, rfl⟩
    rw [edgeTo1_eq _ _ _ _ hi hj, if_pos ⟨hc, by simp only [realKernels]; omega⟩]

/-- the order `obiclean` works in: the sample itself (a permutation), sorted by increasing count -/
theorem sort_spec (sample : List Node) :
    (sortByCount sample).Perm sample ∧ (sortByCount sample).Pairwise (fun a b => a.count ≤ b.count) :=
  ⟨sortByCount_perm sample, sortByCount_sorted sample⟩

/-- `edge_iff` on the rows `cleanSample` builds -/
theorem edge_iff_sample (sample : List Node) (i j : Nat) (hi : i < (sortByCount sample).toArray.size)
    (hj : j < (sortByCount sample).toArray.size) :
    (∃ e ∈ (edges1 realKernels (sortByCount sample).toArray).getD i [], e.father = j) ↔
      ((sortByCount sample).toArray[j].count > (sortByCount sample).toArray[i].count ∧
        lev (sortByCount sample).toArray[i].seq (sortByCount sample).toArray[j].seq = 1) := by
  have : (edges1 realKernels (sortByCount sample).toArray).getD i [] = rowEdges1 realKernels (sortByCount sample).toArray i := by
    have hi' : i < (sortByCount sample).length := by simpa using hi
    simp [edges1, List.getD, List.getElem?_range hi']
  rw [this]
  exact edge_iff _ (by simpa using sortByCount_sorted sample) i j hi hj

/-- **`mutation_reproduces_edit`** — every edge of the distance-one graph carries distance 1, a position `n ≥ 0`
and two symbols such that the FATHER is obtained from the SON by exactly that edit at (0-based) position `n`
(`OneEdit`: substitution of `e.to` by `e.frm`, or `'-'` = 45 on the side that has nothing); `obiclean_mutation`
prints it as `(frm)->(to)@n+1` (`mutationOf`). -/
theorem mutation_reproduces_edit (ns : Array Node) (i : Nat) (hi : i < ns.size) (e : Edge)
    (he : e ∈ rowEdges1 realKernels ns i) :
    ∃ (hj : e.father < ns.size) (n : Nat), e.pos = (n : Int) ∧ e.dist = 1 ∧ i < e.father ∧
      OneEdit ns[i].seq ns[e.father].seq n e.to e.frm := by
  obtain ⟨j, hij, hj, hej⟩ := (mem_rowEdges1 _ _ _ _).1 he
  rw [edgeTo1_eq _ _ _ _ hi hj] at hej
  split at hej
  · rename_i hc
    have hv : (d1F ns[i].seq ns[j].seq).verdict = 1 := by
      have hv := hc.2
      rcases ObiVerif.Lcs.d1F_verdict_cases ns[i].seq ns[j].seq with h | h | h
      · simp only [realKernels] at hv; omega
      · exact h
      · simp only [realKernels] at hv; rw [h] at hv; simp at hv
    obtain ⟨n, hn, hedit⟩ := (ObiVerif.Props.C09.d1or0_spec ns[i].seq ns[j].seq).2.2.2.1 hv
    cases hej
    exact ⟨hj, n, hn, hv, hij, hedit⟩
  · cases hej

/-- **`status_spec`** — `ObicleanStatus`: internal iff the sequence still has a father; otherwise head iff its
son counter is positive, singleton iff not. (That the counter IS the number of remaining sons is
`sons_exact` below for the unfiltered graph and the correspondence check for the filtered one.) -/
theorem status_spec (edges : List Edge) (sons : Int) :
    (status edges sons = .internal ↔ edges ≠ []) ∧
    (status edges sons = .head ↔ edges = [] ∧ sons > 0) ∧
    (status edges sons = .singleton ↔ edges = [] ∧ sons ≤ 0) := by
  unfold status
  cases edges with
  | nil =>
    by_cases h : sons > 0
    · simp [h]
    · simp [h]; omega
  | cons e es => simp

/-- the son counter of the distance-one graph is the number of more-abundant... of LESS abundant sequences linked
to the node: `sonCount` at `j` = number of rows having an edge to `j` (each row has at most one, `edge_iff`) -/
theorem sons_exact (K : Kernels) (ns : Array Node) (j : Nat) (hj : j < ns.size) :
    (sonCount ns.size (edges1 K ns)).getD j 0 =
      ((List.range ns.size).flatMap (fun i => (rowEdges1 K ns i).map (·.father))).count j := by
  have : (sonCount ns.size (edges1 K ns)).getD j 0 = sonsOf (edges1 K ns) j := by
    simp [sonCount, List.getD, List.getElem?_range hj]
  rw [this, edges1, sonsOf_map]

/-- **`status_spec_sample`** — on what `cleanSample` returns (any kernels, distance, ratio): the son counter written
for a node IS the number of remaining (after the ratio filter) edges that point to it, hence
internal ⇔ the sequence still has a father; head ⇔ no father and at least one remaining son;
singleton ⇔ no father and no son. -/
theorem status_spec_sample (K : Kernels) (cfg : Config) (sample : List Node) (outs : List Out)
    (h : cleanSample K cfg sample = .ok outs) (k : Nat) (o : Out) (hk : outs[k]? = some o) :
    o.sons = (sonsOf (outs.map (·.edges)) k : Int) ∧
    (status o.edges o.sons = .internal ↔ o.edges ≠ []) ∧
    (status o.edges o.sons = .head ↔ o.edges = [] ∧ ∃ o' ∈ outs, ∃ e ∈ o'.edges, e.father = k) ∧
    (status o.edges o.sons = .singleton ↔ o.edges = [] ∧ ∀ o' ∈ outs, ∀ e ∈ o'.edges, e.father ≠ k) := by
  have hs := (finish_spec cfg (sortByCount sample).toArray _ _ (by simp [edges1]) (by simp [edges2]) outs h).2 k o hk
  have hpos := sonsOf_pos (outs.map (·.edges)) k
  have hex : (∃ row ∈ outs.map (·.edges), ∃ e ∈ row, e.father = k) ↔ ∃ o' ∈ outs, ∃ e ∈ o'.edges, e.father = k := by
    constructor
    · rintro ⟨row, hr, e, he, hf⟩
      obtain ⟨o', ho', rfl⟩ := List.mem_map.1 hr
      exact ⟨o', ho', e, he, hf⟩
    · rintro ⟨o', ho', e, he, hf⟩
      exact ⟨_, List.mem_map.2 ⟨o', ho', rfl⟩, e, he, hf⟩
  rw [hex] at hpos
  obtain ⟨s1, s2, s3⟩ := status_spec o.edges o.sons
  refine ⟨hs, s1, ?_, ?_⟩
  · rw [s2, hs, ← hpos]
    constructor
    · rintro ⟨a, b⟩; exact ⟨a, by omega⟩
    · rintro ⟨a, b⟩; exact ⟨a, by omega⟩
  · rw [s3, hs]
    constructor
    · rintro ⟨a, b⟩
      refine ⟨a, fun o' ho' e he hf => ?_⟩
      have := hpos.2 ⟨o', ho', e, he, hf⟩
      omega
    · rintro ⟨a, b⟩
      refine ⟨a, ?_⟩
      by_cases hp : sonsOf (outs.map (·.edges)) k > 0
      · obtain ⟨o', ho', e, he, hf⟩ := hpos.1 hp
        exact absurd hf (b o' ho' e he)
      · omega

/-- **`output_edges_distance_one`** — with the default `--distance 1` (or 0), the edges `obiclean` ends with for the
`i`-th sequence of the count-sorted sample are the edges `rowEdges1` of `edge_iff` / `mutation_reproduces_edit`:
all of them without ratio filter (`--ratio 1`, the default: `p ≥ q`), a sub-list of them (those passing the
ratio test) otherwise. -/
theorem output_edges_distance_one (K : Kernels) (cfg : Config) (sample : List Node) (outs : List Out)
    (h : cleanSample K cfg sample = .ok outs) (hd : cfg.maxError ≤ 1) (i : Nat) (o : Out) (hi : outs[i]? = some o) :
    ∃ hlt : i < (sortByCount sample).toArray.size, o.node = (sortByCount sample).toArray[i] ∧
      (∀ e ∈ o.edges, e ∈ rowEdges1 K (sortByCount sample).toArray i) ∧
      (¬ cfg.p < cfg.q → o.edges = rowEdges1 K (sortByCount sample).toArray i) := by
  obtain ⟨hlt, hn, w, he⟩ := finish_edges cfg (sortByCount sample).toArray _ _ _ _ (by simp [edges1]) (by simp [edges2]) outs h i o hi
  have hi' : i < (sortByCount sample).length := by simpa using hlt
  have e1 : (edges1 K (sortByCount sample).toArray).getD i [] = rowEdges1 K (sortByCount sample).toArray i := by
    simp [edges1, List.getD, List.getElem?_range hi']
  have e2 : (edges2 K cfg.maxError (sortByCount sample).toArray (edges1 K (sortByCount sample).toArray)).getD i [] = [] := by
    have : ¬ cfg.maxError > 1 := by omega
    simp [edges2, List.getD, List.getElem?_range hi', this]
  rw [e1, e2, List.append_nil] at he
  refine ⟨hlt, ?_, ?_, ?_⟩
  · rw [hn]; simp [Array.getD, hi']
  · intro e hm
    rw [he] at hm
    split at hm
    · exact (List.mem_filter.1 hm).1
    · exact hm
  · intro hpq
    rw [he, if_neg hpq]

/-! ## Schedule independence -/

/-- the rows `extendSimilarityGraph` sends to its workers: none unless `--distance > 1`, else the rows that have
no edge after the first phase -/
def rows2 (K : Kernels) (cfg : Config) (sample : List Node) : List Nat :=
  let ns := (sortByCount sample).toArray
  (List.range ns.size).filter (fun i => decide (cfg.maxError > 1) && ((edges1 K ns).getD i []).isEmpty)

/-- **`graph_schedule_independent`** — with ATOMIC increments of `SonCount` (the repaired code: increment under a
mutex), for every kernel pair, every distance / ratio setting, every sample:
for EVERY worker count (`s.assign.length`), EVERY distribution of the rows over the workers and order in which a
worker takes them (`s.assign`, only required to hand out each dispatched row exactly once), and EVERY
interleaving of the workers' increments (`s.picks`, only required to let every worker finish), in both parallel
phases, everything `obiclean` computes — edges, son counts, weights, hence statuses and mutations — is the
sequential reference `cleanSample`. -/
theorem graph_schedule_independent (K : Kernels) (cfg : Config) (sample : List Node) (s1 s2 : Sched)
    (h1 : s1.assign.flatten.Perm (List.range (sortByCount sample).toArray.size))
    (h2 : s2.assign.flatten.Perm (rows2 K cfg sample))
    (hd1 : (parMachine (rowEdges1 K (sortByCount sample).toArray) true s1.assign s1.picks).done = true)
    (hd2 : (parMachine (fun i => if cfg.maxError > 1 then
              rowEdges2 K cfg.maxError (sortByCount sample).toArray ((edges1 K (sortByCount sample).toArray).getD i []) i
            else []) true s2.assign s2.picks).done = true) :
    cleanSamplePar K cfg sample true s1 s2 = cleanSample K cfg sample := by
  have e1 := parPhase_eq (sortByCount sample).toArray.size (rowEdges1 K (sortByCount sample).toArray) (fun _ => true)
    s1.assign s1.picks (by rw [List.filter_eq_self.2 (fun _ _ => rfl)]; exact h1) (by simp) hd1
  have e2 := parPhase_eq (sortByCount sample).toArray.size
    (fun i => if cfg.maxError > 1 then
      rowEdges2 K cfg.maxError (sortByCount sample).toArray ((edges1 K (sortByCount sample).toArray).getD i []) i else [])
    (fun i => decide (cfg.maxError > 1) && ((edges1 K (sortByCount sample).toArray).getD i []).isEmpty)
    s2.assign s2.picks h2
    (by
      intro i hi
      by_cases hm : cfg.maxError > 1
      · simp only [hm, decide_true, Bool.true_and] at hi
        simp only [hm, if_true, rowEdges2, hi]
        rfl
      · simp only [hm, if_false])
    hd2
  unfold cleanSamplePar cleanSample
  simp only
  rw [e1]
  simp only
  have e1' : (List.range (sortByCount sample).toArray.size).map (rowEdges1 K (sortByCount sample).toArray)
      = edges1 K (sortByCount sample).toArray := rfl
  rw [e1', e2]
  rfl

/-- corollary: any two complete schedules (e.g. 1 worker and 32 workers, or two runs) give the same result -/
theorem graph_any_two_schedules_agree (K : Kernels) (cfg : Config) (sample : List Node) (s1 s2 t1 t2 : Sched)
    (h1 : s1.assign.flatten.Perm (List.range (sortByCount sample).toArray.size))
    (h2 : s2.assign.flatten.Perm (rows2 K cfg sample))
    (hd1 : (parMachine (rowEdges1 K (sortByCount sample).toArray) true s1.assign s1.picks).done = true)
    (hd2 : (parMachine (fun i => if cfg.maxError > 1 then
              rowEdges2 K cfg.maxError (sortByCount sample).toArray ((edges1 K (sortByCount sample).toArray).getD i []) i
            else []) true s2.assign s2.picks).done = true)
    (k1 : t1.assign.flatten.Perm (List.range (sortByCount sample).toArray.size))
    (k2 : t2.assign.flatten.Perm (rows2 K cfg sample))
    (kd1 : (parMachine (rowEdges1 K (sortByCount sample).toArray) true t1.assign t1.picks).done = true)
    (kd2 : (parMachine (fun i => if cfg.maxError > 1 then
              rowEdges2 K cfg.maxError (sortByCount sample).toArray ((edges1 K (sortByCount sample).toArray).getD i []) i
            else []) true t2.assign t2.picks).done = true) :
    cleanSamplePar K cfg sample true s1 s2 = cleanSamplePar K cfg sample true t1 t2 := by
  rw [graph_schedule_independent K cfg sample s1 s2 h1 h2 hd1 hd2,
    graph_schedule_independent K cfg sample t1 t2 k1 k2 kd1 kd2]

/-! ## `reweightSequences` terminates; the sort is stable -/

/-- **`reweight_terminates`** — for every kernel pair, every distance / ratio setting and every sample (any counts,
any sequences, any number of ties) the sequential reference never yields the `hang` outcome: the fuel `n + 2` of
the fixed-point loop of `reweightSequences` is never exhausted, `cleanSample` always returns `.ok`. -/
theorem reweight_terminates (K : Kernels) (cfg : Config) (sample : List Node) :
    cleanSample K cfg sample ≠ .hang ∧ ∃ outs, cleanSample K cfg sample = .ok outs := by
  have h := cleanSample_ne_hang K cfg sample
  refine ⟨h, ?_⟩
  cases hc : cleanSample K cfg sample with
  | ok outs => exact ⟨outs, rfl⟩
  | hang => exact absurd hc h

/-- **`reweight_two_turns`** — why: on ANY graph whose edges all point to a later row (`Forward`: what
`for j := i + 1` of `buildSamplePairs` guarantees — `edges1_forward`) and whose `SonCount` is the number of
incoming edges, the loop stops after at most two turns, whatever fuel `≥ 2` it is given, and its result is the
state after the leaf pass and ONE turn (the second turn finds nothing to fire). -/
theorem reweight_two_turns (n : Nat) (counts : Array Nat) (edges : Array (List Edge)) (sons : Array Nat)
    (F : Forward n edges sons) (hn : counts.size = n) :
    reweight counts edges sons = some (innerPass counts edges sons
      (leafPass counts edges sons { weight := counts, added := Array.replicate counts.size 0 })).1.weight :=
  F.reweight_eq counts hn

/-- the graph `cleanSample` hands to `reweight` satisfies the hypothesis of `reweight_two_turns` -/
theorem reweight_graph_forward (K : Kernels) (sample : List Node) :
    Forward (sortByCount sample).toArray.size (edges1 K (sortByCount sample).toArray).toArray
      (sonCount (sortByCount sample).toArray.size (edges1 K (sortByCount sample).toArray)).toArray :=
  edges1_forward K _

/-- the `hang` outcome of the model is not dead code: with a backward edge and a lost increment (`SonCount 0 = 1`
where two edges point to row 0) rows 0 and 1 fire each other for ever and the fuel runs out (test on one value) -/
theorem reweight_hang_reachable :
    reweight #[1, 1, 1] #[[⟨1, 1, 0, 97, 99⟩], [⟨0, 1, 0, 97, 99⟩], [⟨0, 1, 0, 97, 99⟩]] #[1, 1, 0] = none := by decide

/-- **`sort_stable`** — `sortSamples` is stable: for every count `c`, the sequences of count `c` appear in the sorted
sample in exactly their input order (together with `sort_spec`: the sorted sample is THE stable sort of the input). -/
theorem sort_stable (sample : List Node) (c : Nat) :
    (sortByCount sample).filter (fun y => y.count == c) = sample.filter (fun y => y.count == c) :=
  sortByCount_stable sample c

/-- non-vacuity of `sort_stable` (ties 5, 5, 5 and 2, 2 keep their input order) and of `reweight_two_turns` on a chain
0 → 1 → 2 with a second leaf 3 → 2 -/
example :
    (sortByCount [⟨0, 5, [1]⟩, ⟨1, 2, [2]⟩, ⟨2, 5, [3]⟩, ⟨3, 2, [4]⟩, ⟨4, 5, [5]⟩, ⟨5, 1, [6]⟩]).map (·.orig) = [5, 1, 3, 0, 2, 4] ∧
    reweight #[1, 2, 4, 1] #[[⟨1, 1, 0, 97, 99⟩], [⟨2, 1, 0, 97, 99⟩], [], [⟨2, 1, 0, 97, 99⟩]] #[0, 1, 2, 0]
      = some #[1, 3, 8, 1] := by decide

/-! ## Non-vacuity, and the race on the graph itself (tests on one concrete sample)

The sample: "acgt" ×9 and its two one-substitution variants "acga" ×1, "acgc" ×1; two workers, worker 0 takes row 0
and worker 1 takes rows 1 and 2. -/

def exSample : List Node := [⟨0, 9, [97, 99, 103, 116]⟩, ⟨1, 1, [97, 99, 103, 97]⟩, ⟨2, 1, [97, 99, 103, 99]⟩]
def exCfg : Config := { maxError := 1, p := 1, q := 1 }

/-- the hypotheses of `graph_schedule_independent` are satisfiable (2 workers, interleaved), and its conclusion
is not trivial: two sons are counted, the hub is a head of weight 11 -/
example :
    let s1 : Sched := { assign := [[0], [2, 1]], picks := [1, 0, 1, 1] }
    let s2 : Sched := { assign := [[], []], picks := [] }
    s1.assign.flatten.Perm (List.range (sortByCount exSample).toArray.size) ∧
    s2.assign.flatten.Perm (rows2 realKernels exCfg exSample) ∧
    (parMachine (rowEdges1 realKernels (sortByCount exSample).toArray) true s1.assign s1.picks).done = true ∧
    cleanSamplePar realKernels exCfg exSample true s1 s2 = cleanSample realKernels exCfg exSample ∧
    cleanSample realKernels exCfg exSample = .ok [
      ⟨⟨1, 1, [97, 99, 103, 97]⟩, 1, 0, [⟨2, 1, 3, 116, 97⟩]⟩,
      ⟨⟨2, 1, [97, 99, 103, 99]⟩, 1, 0, [⟨2, 1, 3, 116, 99⟩]⟩,
      ⟨⟨0, 9, [97, 99, 103, 116]⟩, 11, 2, []⟩] := by decide

/-- **`graph_split_schedule_dependent`** — the unrepaired code on the graph itself: with NON-atomic increments the
same sample, the same distribution of rows over two workers, and the interleaving "both load, both store" give
a complete run whose result differs from the sequential reference (the hub ends with `SonCount = 1` instead of
2 and, because `reweightSequences` then fires it after its first son only, a different weight flow). -/
theorem graph_split_schedule_dependent :
    ∃ (s1 s2 : Sched),
      s1.assign.flatten.Perm (List.range (sortByCount exSample).toArray.size) ∧
      s2.assign.flatten.Perm (rows2 realKernels exCfg exSample) ∧
      (parMachine (rowEdges1 realKernels (sortByCount exSample).toArray) false s1.assign s1.picks).done = true ∧
      cleanSamplePar realKernels exCfg exSample false s1 s2 ≠ cleanSample realKernels exCfg exSample :=
  ⟨{ assign := [[0], [1, 2]], picks := [0, 1, 0, 1] }, { assign := [[], []], picks := [] }, by decide⟩

/-- non-vacuity of `edge_iff` / `mutation_reproduces_edit`: "acga" ×1 → "acgt" ×9 is an edge, printed `(t)->(a)@4` -/
example : rowEdges1 realKernels (sortByCount exSample).toArray 0 = [⟨2, 1, 3, 116, 97⟩] ∧
    mutationOf ⟨2, 1, 3, 116, 97⟩ = "(t)->(a)@4" := by decide

/-- non-vacuity of `atomic_any_schedule`: three threads, five increments of two counters, an interleaving -/
example : ((Machine.init ([[0, 1], [0], [1, 0]].map (fun th => th.flatMap (incSteps true)))).run [2, 0, 1, 2, 0]).done = true ∧
    ((Machine.init ([[0, 1], [0], [1, 0]].map (fun th => th.flatMap (incSteps true)))).run [2, 0, 1, 2, 0]).mem 0 = 3 := by decide

end ObiVerif.Props.C13
