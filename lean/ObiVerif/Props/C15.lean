import ObiVerif.Lemmas.TagLookup
import ObiVerif.Lemmas.TagRecord
import ObiVerif.Lemmas.TaxExample
import ObiVerif.Lemmas.QGram
/-!
# C15 — assignment search is lossless: k-mer prefilters never change the answer (property theorems)

All theorems are about the loops of `Model/Tag.lean` (the code **as repaired** by the three C15 patches) for
arbitrary candidate data (any number of references, any lengths, shared 4-mer counts, distances), any candidate
order that is sorted by non-increasing shared count, any well-formed taxonomy.  In §1–§3 the q-gram lemma
(q = 4) is an explicit hypothesis on the abstract candidate data (`QGramBound`); §4 PROVES it for candidates made
of actual sequences over `a c g t` of at most 65538 letters (`Lemmas/QGram.lean`: `qgram4`, `qgramBound_acgt`) and
restates the pruning theorems without the hypothesis (`…_acgt`).  The exactness of the bounded LCS kernels is
built into the reading of the kernels in the model (see its header) and is validated by the harness.
-/
namespace ObiVerif.Props.C15
open ObiVerif.Tag ObiVerif.Tax

/-! ## 1. `FindClosests` returns the brute-force answer -/

/-- **lossless search** (obitag and obitag2, any data base, any query): if the candidates are scanned by
non-increasing number of shared 4-mers and satisfy the q-gram bound, `FindClosests` returns the least LCS
distance over ALL the references and exactly the references at that distance — all ties, each once, in scan
order — i.e. the answer of the comparison of the query with every reference -/
theorem findClosests_lossless (v : Variant) (lq : Nat) (c : Nat → Cand) (o : List Nat)
    (hs : SortedByCw c o) (hq : QGramBound lq c o) (hne : o ≠ []) :
    ∃ m idxs bestId bestmatch, findClosests v lq c o = .ok m bestId bestmatch idxs ∧
      bruteClosests c o = some (m, idxs) := by
  obtain ⟨m, bestId, bestmatch, h, h1, h2⟩ := findClosests_spec v lq c o hs hq hne
  refine ⟨m, _, bestId, bestmatch, h, ?_⟩
  have := (bruteMin_spec c o m).2 ⟨h1, h2⟩
  simp [bruteClosests, this]

/-- what the brute-force answer is: `m` is the least distance, `idxs` lists the references at distance `m` -/
theorem bruteClosests_spec (c : Nat → Cand) (o : List Nat) (m : Nat) (idxs : List Nat)
    (h : bruteClosests c o = some (m, idxs)) :
    (∀ i ∈ o, m ≤ (c i).dist) ∧ (∃ i ∈ o, (c i).dist = m) ∧ ∀ i, i ∈ idxs ↔ (i ∈ o ∧ (c i).dist = m) := by
  unfold bruteClosests at h
  cases hb : bruteMin c o with
  | none => rw [hb] at h; simp at h
  | some m' =>
    rw [hb] at h
    simp only [Option.map_some, Option.some.injEq, Prod.mk.injEq] at h
    obtain ⟨e1, e2⟩ := h
    subst e1
    obtain ⟨a, b⟩ := (bruteMin_spec c o m').1 hb
    refine ⟨a, b, ?_⟩
    intro i
    rw [← e2]
    simp [List.mem_filter]

/-- the empty data base is not a search: `references[o[0]]` panics -/
theorem findClosests_empty (v : Variant) (lq : Nat) (c : Nat → Cand) : findClosests v lq c [] = .panic := rfl

/-- the three-candidate instance of the counterexample below -/
def exC : Nat → Cand
  | 0 => ⟨33, 27, 30, 33⟩   -- the query + 3 bases: distance 3, 27 shared 4-mers
  | 1 => ⟨30, 15, 27, 30⟩   -- 3 spread substitutions: distance 3, 15 shared 4-mers
  | _ => ⟨30, 0, 0, 30⟩

/-- non-vacuity: the hypotheses of `findClosests_lossless` hold on a non-trivial instance (a tie, the first
best reference longer than the query) -/
example : SortedByCw exC [0, 1, 2] ∧ QGramBound 30 exC [0, 1, 2] ∧
    findClosests .tag1 30 exC [0, 1, 2] = .ok 3 (30, 33) 0 [0, 1] := by
  refine ⟨by simp [SortedByCw, exC], ?_, by decide⟩
  intro i hi d hd
  simp only [List.mem_cons, List.not_mem_nil, or_false] at hi
  rcases hi with rfl | rfl | rfl <;> simp [exC, Cand.dist] at hd ⊢ <;> omega

/-- **the unrepaired rule loses a tie** (D14, `wordmin` computed from the length of the best reference so far):
on `exC` (abstract data of the corpus case of the harness) the tied reference 1 is pruned, although the
candidates are sorted and satisfy the q-gram bound -/
theorem findClosests_unrepaired_loses_tie :
    findClosestsWith wmOld .tag1 30 exC [0, 1] = .ok 3 (30, 33) 0 [0] ∧
    bruteClosests exC [0, 1] = some (3, [0, 1]) := by decide

/-! ## 2. the index of a reference -/

/-- **the index is the LCA table** (`IndexSequence`, used by obirefidx, obireffamidx and lazily by obitag):
for a well-formed taxonomy containing the taxa of the references, candidates sorted by non-increasing shared
4-mers and satisfying the q-gram bound, the indexed sequence being one of the references (distance 0 to
itself), the index is built and every recorded distance `d` is mapped to the taxon whose ancestors are exactly
the common ancestors of the taxa of ALL the references within distance `d` — their LCA -/
theorem index_is_lca {t : Taxo} {root : Nat} {depth : Nat → Nat} {fuel : Nat}
    (wf : WF t root depth) (hf : FuelOK t fuel)
    (taxids : List Nat) (htax : ∀ x ∈ taxids, ∃ n, t.node x = some n)
    (seqidx lseq : Nat) (hidx : seqidx < taxids.length) (c : Nat → Cand) (ow : List Nat)
    (hperm : ∀ j, j ∈ ow ↔ j < taxids.length)
    (hs : SortedByCw c ow) (hq : QGramBound lseq c ow) (hself : (c seqidx).dist = 0) :
    ∃ idx, indexSequence t fuel taxids seqidx lseq c ow = .ok idx ∧
      ∀ e ∈ idx, ∀ x, Anc t x e.2 ↔
        ∀ j, j < taxids.length → (c j).dist ≤ e.1 → Anc t x (taxids.getD j 0) :=
  indexSequence_lca wf hf taxids htax seqidx lseq hidx c ow hperm hs hq hself

/-- **what `Identify` reads in the index is the LCA** (stronger than `index_is_lca`: no distance is missing):
for every observed distance `D` below the length of the indexed sequence, the entry found by the downward scan
of `Identify` / `BestConsensus` (the entry of the largest recorded distance `≤ D`) is the LCA of the taxa of ALL
the references within `D` of the indexed sequence -/
theorem index_lookup_is_lca {t : Taxo} {root : Nat} {depth : Nat → Nat} {fuel : Nat}
    (wf : WF t root depth) (hf : FuelOK t fuel)
    (taxids : List Nat) (htax : ∀ x ∈ taxids, ∃ n, t.node x = some n)
    (seqidx lseq : Nat) (hidx : seqidx < taxids.length) (c : Nat → Cand) (ow : List Nat)
    (hperm : ∀ j, j ∈ ow ↔ j < taxids.length)
    (hs : SortedByCw c ow) (hq : QGramBound lseq c ow) (hself : (c seqidx).dist = 0) :
    ∃ idx, indexSequence t fuel taxids seqidx lseq c ow = .ok idx ∧
      ∀ D a, D < lseq → lookDown idx D = some a →
        selectEntry idx D = .ok a ∧
        ∀ x, Anc t x a ↔ ∀ j, j < taxids.length → (c j).dist ≤ D → Anc t x (taxids.getD j 0) := by
  obtain ⟨idx, h1, h2⟩ := indexSequence_lookup_lca wf hf taxids htax seqidx lseq hidx c ow hperm hs hq hself
  refine ⟨idx, h1, ?_⟩
  intro D a hD hl
  exact ⟨by simp [selectEntry, hl], h2 D a hD hl⟩

/-- abstract data of the corpus case `ix 0 …` of the harness (lineage 1 > 2 > 4 > 5 of the indexed reference 0) -/
def exI : Nat → Cand
  | 0 => ⟨30, 27, 30, 30⟩   -- the indexed sequence itself
  | 1 => ⟨30, 7, 25, 30⟩    -- distance 5, LCA = root
  | 2 => ⟨61, 19, 22, 61⟩   -- long reference sharing a prefix: distance 39, LCA = 2
  | 3 => ⟨30, 15, 27, 30⟩   -- distance 3, LCA = 2
  | 4 => ⟨30, 11, 26, 30⟩   -- distance 4, LCA = 4
  | _ => ⟨0, 0, 0, 0⟩

def exAnc : Nat → Nat
  | 0 => 5 | 1 => 1 | 2 => 2 | 3 => 2 | 4 => 4 | _ => 0

/-- **the unrepaired `break` skips a closer reference** (D15, threshold depending on the candidate's length):
the long candidate 2 stops the scan of level 2 before candidate 3 (distance 3) is looked at; the entry 4 ↦ 4 is
recorded although reference 3, whose LCA with the indexed sequence is the strict ancestor 2, is within 4.  The
repaired loop records 3 ↦ 2. -/
theorem indexSequence_unrepaired_skips :
    indexWith thrOld 30 exI exAnc [0, 2, 3, 4, 1] [1, 2, 4, 5] = [(5, 1), (4, 4), (0, 5)] ∧
    indexCore 30 exI exAnc [0, 2, 3, 4, 1] [1, 2, 4, 5] = [(5, 1), (3, 2), (0, 5)] ∧
    (exI 3).dist ≤ 4 ∧ exAnc 3 = 2 ∧ SortedByCw exI [0, 2, 3, 4, 1] := by
  refine ⟨by decide, by decide, by decide, rfl, by simp [SortedByCw, exI]⟩

/-- non-vacuity of `index_is_lca` on the taxonomy `exT` (1 > 2 > {3, 4}, 1 > 5): references of taxa 3, 4, 5;
the index of reference 0 is `{0 ↦ 3, 1 ↦ 2, 4 ↦ 1}` -/
def exJ : Nat → Cand
  | 0 => ⟨10, 7, 10, 10⟩
  | 1 => ⟨10, 3, 9, 10⟩
  | 2 => ⟨10, 0, 6, 10⟩
  | _ => ⟨0, 0, 0, 0⟩

example : (∀ x ∈ [3, 4, 5], ∃ n, exT.node x = some n) ∧ (∀ j, j ∈ [0, 1, 2] ↔ j < [3, 4, 5].length) ∧
    SortedByCw exJ [0, 1, 2] ∧ QGramBound 10 exJ [0, 1, 2] ∧ (exJ 0).dist = 0 ∧
    indexSequence exT 6 [3, 4, 5] 0 10 exJ [0, 1, 2] = .ok [(4, 1), (1, 2), (0, 3)] := by
  refine ⟨?_, ?_, by simp [SortedByCw, exJ], ?_, rfl, by rfl⟩
  · intro x hx
    rw [exT_node]
    simp only [List.mem_cons, List.not_mem_nil, or_false] at hx
    rcases hx with rfl | rfl | rfl <;> exact ⟨_, rfl⟩
  · intro j
    simp only [List.mem_cons, List.not_mem_nil, or_false, List.length_cons, List.length_nil]
    omega
  · intro i hi d hd
    simp only [List.mem_cons, List.not_mem_nil, or_false] at hi
    rcases hi with rfl | rfl | rfl <;> simp [exJ, Cand.dist] at hd ⊢ <;> omega

/-- (test on the index of the example above) distance 3 selects the entry of distance 1 -/
example : lookDown [(4, 1), (1, 2), (0, 3)] 3 = some 2 ∧ 3 < 10 := by decide

/-! ## 3. the assigned taxon -/

/-- **the assigned taxon is an ancestor-or-self of the taxon of every best reference** (`Identify` of obitag,
`FindClosests` + `BestConsensus` of obitag2; root of the taxonomy = taxid 1): whatever the answer
`(maxe, bestId, bestmatch, idxs)` of the search and whatever the candidate data the indices are built from, if
a taxon `z` is assigned then `z` is an ancestor-or-self of the taxon of every reference of `idxs` -/
theorem assigned_is_ancestor {t : Taxo} {depth : Nat → Nat} {fuel : Nat}
    (wf : WF t 1 depth) (hf : FuelOK t fuel)
    (taxids : List Nat) (htax : ∀ x ∈ taxids, ∃ n, t.node x = some n)
    (lens : Nat → Nat) (cs : Nat → Nat → Cand) (ows : Nat → List Nat)
    (maxe : Nat) (bestId : Nat × Nat) (bestmatch : Nat) (idxs : List Nat)
    (hb : ∀ b ∈ idxs, b < taxids.length) (z bm n : Nat)
    (h : identify t fuel (.ok maxe bestId bestmatch idxs)
          (fun b => indexSequence t fuel taxids b (lens b) (cs b) (ows b)) = .ok z bm n) :
    ∀ b ∈ idxs, Anc t z (taxids.getD b 0) := by
  intro b hbi
  have hnode : ∃ nb, t.node (taxids.getD b 0) = some nb := by
    apply htax
    rw [List.getD_eq_getElem?_getD, List.getElem?_eq_getElem (hb b hbi)]
    simp
  unfold identify at h
  simp only at h
  split at h
  · -- consensus of the selected index entries
    cases hsel : selectAll (fun b => indexSequence t fuel taxids b (lens b) (cs b) (ows b)) maxe idxs with
    | error e => rw [hsel] at h; cases h
    | ok ms =>
      rw [hsel] at h
      simp only at h
      obtain ⟨s1, s2⟩ := selectAll_spec hsel
      cases hcons : consensus t fuel none ms with
      | error e => rw [hcons] at h; cases h
      | ok r =>
        rw [hcons] at h
        cases r with
        | none => cases h
        | some z' =>
          simp only at h
          cases h
          have hnodes : ∀ m ∈ ms, ∃ nm, t.node m = some nm := by
            intro m hm
            obtain ⟨b', _, idx, hidx, e, he, rfl⟩ := s2 m hm
            exact (indexSequence_anc hidx e he).2
          obtain ⟨_, c2⟩ := consensus_anc wf hf ms none z hnodes (by intro x hx; cases hx) hcons
          obtain ⟨m, hm, idx, hidx, e, he, rfl⟩ := s1 b hbi
          exact (c2 _ hm).trans (indexSequence_anc hidx e he).1
  · -- identity below 0.5: the root
    cases h1 : t.node 1 with
    | none => rw [h1] at h; cases h
    | some n1 =>
      rw [h1] at h
      cases h
      obtain ⟨nb, hnb⟩ := hnode
      exact anc_root wf hf hnb

/-- **consequence for the search as a whole**: under the hypotheses of `findClosests_lossless`, the taxon
assigned to the query is an ancestor-or-self of the taxon of EVERY reference at minimal LCS distance from the
query (brute force over the whole data base) -/
theorem assigned_is_ancestor_of_every_best {t : Taxo} {depth : Nat → Nat} {fuel : Nat}
    (wf : WF t 1 depth) (hf : FuelOK t fuel)
    (taxids : List Nat) (htax : ∀ x ∈ taxids, ∃ n, t.node x = some n)
    (v : Variant) (lq : Nat) (c : Nat → Cand) (o : List Nat)
    (hperm : ∀ j, j ∈ o ↔ j < taxids.length)
    (hs : SortedByCw c o) (hq : QGramBound lq c o)
    (lens : Nat → Nat) (cs : Nat → Nat → Cand) (ows : Nat → List Nat) (z bm n : Nat)
    (h : identify t fuel (findClosests v lq c o)
          (fun b => indexSequence t fuel taxids b (lens b) (cs b) (ows b)) = .ok z bm n) :
    ∀ i ∈ o, (∀ j ∈ o, (c i).dist ≤ (c j).dist) → Anc t z (taxids.getD i 0) := by
  intro i hi hmin
  have hne : o ≠ [] := by intro e; rw [e] at hi; simp at hi
  obtain ⟨m, bestId, bestmatch, hfc, h1, j, hj, ej⟩ := findClosests_spec v lq c o hs hq hne
  rw [hfc] at h
  have hdi : (c i).dist = m := by
    have := h1 i hi
    have := hmin j hj
    omega
  apply assigned_is_ancestor wf hf taxids htax lens cs ows m bestId bestmatch _ _ z bm n h i
  · simp [List.mem_filter, hi, hdi]
  · intro b hb
    exact (hperm b).1 (List.mem_filter.1 hb).1

/-- non-vacuity of `assigned_is_ancestor`: on `exT`, references of taxa 3, 4, 5, a query whose best references
are 0 and 1 at distance 1: the indices `{0↦3, 1↦2, 4↦1}` and `{0↦4, 1↦2, 4↦1}` give the consensus taxon 2 -/
def exQ : Nat → Cand
  | 0 => ⟨10, 3, 9, 10⟩
  | 1 => ⟨10, 3, 9, 10⟩
  | 2 => ⟨10, 0, 6, 10⟩
  | _ => ⟨0, 0, 0, 0⟩

def exRows : Nat → Nat → Cand
  | 0 => exJ
  | 1 => fun j => match j with
    | 0 => ⟨10, 3, 9, 10⟩ | 1 => ⟨10, 7, 10, 10⟩ | 2 => ⟨10, 0, 6, 10⟩ | _ => ⟨0, 0, 0, 0⟩
  | _ => fun _ => ⟨0, 0, 0, 0⟩

example : identify exT 6 (findClosests .tag1 10 exQ [0, 1, 2])
    (fun b => indexSequence exT 6 [3, 4, 5] b 10 (exRows b) (if b = 1 then [1, 0, 2] else [0, 1, 2])) = .ok 2 0 2 := by
  decide

/-! ## 4. the q-gram lemma is a theorem: the pruning theorems without the hypothesis `QGramBound`

`Lemmas/QGram.lean` proves the q-gram lemma (q = 4) on the model's own definitions.  Here the candidate data
are no longer abstract: `candOf q r` is what the loops see of the reference `r` when the scanned sequence is
`q` (`Common4Mer` of the two `Count4Mer` tables, `FastLCSScore(q, r, -1)` = `lcsDP samenuc`, C09).  The only
hypotheses left on the sequences: letters `a c g t` (with IUPAC codes the bound is false: `Encode4mer` counts
them as `a`, `_samenuc` matches them) and at most 65538 letters (`Table4mer` has 16-bit cells: beyond, the bound
is false, `qgram4_false_beyond_uint16`). -/

open ObiVerif.QGram ObiVerif.Kmer ObiVerif.Lcs

/-- **q-gram lemma (q = 4)** on `Common4Mer` and the LCS distance `alilength - lcs` of the code: two words over
`a c g t` (at most 65538 letters) within `d` differences share at least `max(|q|,|r|) - 3 - 4·d` 4-mers -/
theorem qgram4_acgt (q r : Bytes) (hq : IsACGT q) (hr : IsACGT r) (hlq : q.length ≤ 65538) (hlr : r.length ≤ 65538)
    (d : Nat) (hd : (candOf q r).dist ≤ d) : max q.length r.length - 3 - 4 * d ≤ common4 q r :=
  qgram4_lcsDP hq hr hlq hlr d hd

/-- the same for ANY alignment of the two words (`l` columns, `s` matches), not only the optimal one -/
theorem qgram4_acgt_ali (q r : Bytes) (hq : IsACGT q) (hr : IsACGT r) (hlq : q.length ≤ 65538) (hlr : r.length ≤ 65538)
    (s l : Nat) (h : Ali samenuc q r s l) : max q.length r.length - 3 - 4 * (l - s) ≤ common4 q r :=
  qgram4_common4 h hq hr hlq hlr _ (Nat.le_refl _)

set_option maxRecDepth 4000 in
/-- (test) the bound is tight: `acgtacgta` / `acgttcgta`, one substitution in the middle (9 columns, 8 matches):
`9 - 3 - 4·1 = 2` shared 4-mers (`acgt`, `cgta`); the matrix of the driver finds `(8, 9)`, slack 0 -/
example : Ali samenuc [97,99,103,116,97,99,103,116,97] [97,99,103,116,116,99,103,116,97] 8 9 ∧
    common4 [97,99,103,116,97,99,103,116,97] [97,99,103,116,116,99,103,116,97] = 2 ∧
    lcsPair [97,99,103,116,97,99,103,116,97] [97,99,103,116,116,99,103,116,97] = (8, 9) ∧
    slack [97,99,103,116,97,99,103,116,97] [97,99,103,116,116,99,103,116,97] = 0 := by
  have hc : common4 [97,99,103,116,97,99,103,116,97] [97,99,103,116,116,99,103,116,97] = 2 := by
    rw [common4_eq_inter _ _ (by decide) (by decide)]; decide
  have hp : lcsPair [97,99,103,116,97,99,103,116,97] [97,99,103,116,116,99,103,116,97] = (8, 9) := by decide
  refine ⟨?_, hc, hp, ?_⟩
  · exact .pair 97 97 (.pair 99 99 (.pair 103 103 (.pair 116 116 (.pair 97 116
      (.pair 99 99 (.pair 103 103 (.pair 116 116 (.pair 97 97 .nil))))))))
  · unfold slack
    rw [hc, hp]
    decide

/-- **lossless search without the q-gram hypothesis** (obitag and obitag2): for a query `q` and references
`refs i` over `a c g t` of at most 65538 letters, scanned by non-increasing number of shared 4-mers,
`FindClosests` returns the brute-force answer (least LCS distance over ALL the references, all the references at
that distance, each once, in scan order) -/
theorem findClosests_lossless_acgt (v : Variant) (q : Bytes) (refs : Nat → Bytes) (o : List Nat)
    (hq : IsACGT q) (hlq : q.length ≤ 65538)
    (hr : ∀ i ∈ o, IsACGT (refs i) ∧ (refs i).length ≤ 65538)
    (hs : SortedByCw (fun i => candOf q (refs i)) o) (hne : o ≠ []) :
    ∃ m idxs bestId bestmatch,
      findClosests v q.length (fun i => candOf q (refs i)) o = .ok m bestId bestmatch idxs ∧
      bruteClosests (fun i => candOf q (refs i)) o = some (m, idxs) :=
  findClosests_lossless v q.length _ o hs (qgramBound_acgt q refs o hq hlq hr) hne

/-- references of the non-vacuity example: `acgtacgtac`, the same with one substitution, an unrelated word -/
def exRefs : Nat → Bytes
  | 0 => [97,99,103,116,97,99,103,116,97,99]
  | 1 => [97,99,103,116,97,99,103,116,116,99]
  | _ => [116,116,116,116,116,116,116,116,116,116]

set_option maxRecDepth 4000 in
/-- non-vacuity of `findClosests_lossless_acgt`: the hypotheses hold for the query `exRefs 0` against the three
references (shared 4-mers 7, 5, 0) -/
example : IsACGT (exRefs 0) ∧ (exRefs 0).length ≤ 65538 ∧
    (∀ i ∈ [0, 1, 2], IsACGT (exRefs i) ∧ (exRefs i).length ≤ 65538) ∧
    SortedByCw (fun i => candOf (exRefs 0) (exRefs i)) [0, 1, 2] ∧ [0, 1, 2] ≠ [] ∧
    (candOf (exRefs 0) (exRefs 0)).cw = 7 ∧ (candOf (exRefs 0) (exRefs 1)).cw = 5 ∧
    (candOf (exRefs 0) (exRefs 2)).cw = 0 := by
  have h0 : common4 (exRefs 0) (exRefs 0) = 7 := by
    rw [common4_eq_inter _ _ (by decide) (by decide)]; decide
  have h1 : common4 (exRefs 0) (exRefs 1) = 5 := by
    rw [common4_eq_inter _ _ (by decide) (by decide)]; decide
  have h2 : common4 (exRefs 0) (exRefs 2) = 0 := by
    rw [common4_eq_inter _ _ (by decide) (by decide)]; decide
  refine ⟨by decide, by decide, by decide, ?_, by decide, h0, h1, h2⟩
  simp [SortedByCw, candOf, h0, h1, h2]

/-- **the index is the LCA table, without the q-gram hypothesis**: references over `a c g t` of at most 65538
letters; the indexed sequence is the reference `seqidx` (at distance 0 of itself: no hypothesis either) -/
theorem index_is_lca_acgt {t : Taxo} {root : Nat} {depth : Nat → Nat} {fuel : Nat}
    (wf : WF t root depth) (hf : FuelOK t fuel)
    (taxids : List Nat) (htax : ∀ x ∈ taxids, ∃ n, t.node x = some n)
    (refs : Nat → Bytes) (seqidx : Nat) (hidx : seqidx < taxids.length) (ow : List Nat)
    (hperm : ∀ j, j ∈ ow ↔ j < taxids.length)
    (hr : ∀ j, j < taxids.length → IsACGT (refs j) ∧ (refs j).length ≤ 65538)
    (hs : SortedByCw (fun j => candOf (refs seqidx) (refs j)) ow) :
    ∃ idx, indexSequence t fuel taxids seqidx (refs seqidx).length (fun j => candOf (refs seqidx) (refs j)) ow = .ok idx ∧
      ∀ e ∈ idx, ∀ x, Anc t x e.2 ↔
        ∀ j, j < taxids.length → (candOf (refs seqidx) (refs j)).dist ≤ e.1 → Anc t x (taxids.getD j 0) := by
  have hself := candOf_self_dist (refs seqidx) (hr seqidx hidx).1
  exact index_is_lca wf hf taxids htax seqidx _ hidx _ ow hperm hs
    (qgramBound_acgt _ refs ow (hr seqidx hidx).1 (hr seqidx hidx).2 (fun j hj => hr j ((hperm j).1 hj))) hself

/-- **what `Identify` reads in the index is the LCA, without the q-gram hypothesis** -/
theorem index_lookup_is_lca_acgt {t : Taxo} {root : Nat} {depth : Nat → Nat} {fuel : Nat}
    (wf : WF t root depth) (hf : FuelOK t fuel)
    (taxids : List Nat) (htax : ∀ x ∈ taxids, ∃ n, t.node x = some n)
    (refs : Nat → Bytes) (seqidx : Nat) (hidx : seqidx < taxids.length) (ow : List Nat)
    (hperm : ∀ j, j ∈ ow ↔ j < taxids.length)
    (hr : ∀ j, j < taxids.length → IsACGT (refs j) ∧ (refs j).length ≤ 65538)
    (hs : SortedByCw (fun j => candOf (refs seqidx) (refs j)) ow) :
    ∃ idx, indexSequence t fuel taxids seqidx (refs seqidx).length (fun j => candOf (refs seqidx) (refs j)) ow = .ok idx ∧
      ∀ D a, D < (refs seqidx).length → lookDown idx D = some a →
        selectEntry idx D = .ok a ∧
        ∀ x, Anc t x a ↔ ∀ j, j < taxids.length → (candOf (refs seqidx) (refs j)).dist ≤ D → Anc t x (taxids.getD j 0) := by
  have hself := candOf_self_dist (refs seqidx) (hr seqidx hidx).1
  exact index_lookup_is_lca wf hf taxids htax seqidx _ hidx _ ow hperm hs
    (qgramBound_acgt _ refs ow (hr seqidx hidx).1 (hr seqidx hidx).2 (fun j hj => hr j ((hperm j).1 hj))) hself

/-- **the assigned taxon is an ancestor-or-self of the taxon of EVERY reference at minimal LCS distance from the
query, without the q-gram hypothesis** (query and references over `a c g t`, at most 65538 letters) -/
theorem assigned_is_ancestor_of_every_best_acgt {t : Taxo} {depth : Nat → Nat} {fuel : Nat}
    (wf : WF t 1 depth) (hf : FuelOK t fuel)
    (taxids : List Nat) (htax : ∀ x ∈ taxids, ∃ n, t.node x = some n)
    (v : Variant) (q : Bytes) (refs : Nat → Bytes) (o : List Nat)
    (hperm : ∀ j, j ∈ o ↔ j < taxids.length)
    (hq : IsACGT q) (hlq : q.length ≤ 65538)
    (hr : ∀ j, j < taxids.length → IsACGT (refs j) ∧ (refs j).length ≤ 65538)
    (hs : SortedByCw (fun i => candOf q (refs i)) o)
    (lens : Nat → Nat) (cs : Nat → Nat → Cand) (ows : Nat → List Nat) (z bm n : Nat)
    (h : identify t fuel (findClosests v q.length (fun i => candOf q (refs i)) o)
          (fun b => indexSequence t fuel taxids b (lens b) (cs b) (ows b)) = .ok z bm n) :
    ∀ i ∈ o, (∀ j ∈ o, (candOf q (refs i)).dist ≤ (candOf q (refs j)).dist) → Anc t z (taxids.getD i 0) :=
  assigned_is_ancestor_of_every_best wf hf taxids htax v q.length _ o hperm hs
    (qgramBound_acgt q refs o hq hlq (fun j hj => hr j ((hperm j).1 hj))) lens cs ows z bm n h

/-! ## 5. the selection loop of `Identify` / `BestConsensus` ("horrible hack"), verbatim, fallback branches included

`Model/TagSel.lean` transcribes the loop statement by statement on the TEXT of the entries (`selLoop`: variables
`d`, `ok`, `identification`; an outer iteration that changes none of them is the outcome `spin`). -/

/-- **closed form of the verbatim loop, for ANY index and ANY text in the entries** (blank taxid parts included):
with 3 or more units of fuel (one per outer iteration) the loop computes `selSpec` — the entry at `D`; else the
largest key below `D`; else the smallest key in `0 … 1000`; else the largest key `≤ 1001` (second iteration); a
found entry whose taxid part is empty leaves by `d < 0` (key 0: `Atoi("")`, panic) or spins.  In particular the
outcome never depends on the fuel: the Go loop either ends within 3 iterations or repeats one iteration for ever -/
theorem selection_loop_closed_form (idx : List (Nat × Text)) (D f : Nat) :
    selLoop idx (f + 3) (selInit idx D) = selSpec idx D ∧ selSpec idx D ≠ .fuel :=
  ⟨selLoop_eq_spec idx D f, selSpec_ne_fuel idx D⟩

/-- **the text of an entry reads back**: `strings.Split(…, "@")[0]` and `strconv.Atoi` applied to
`fmt.Sprintf("%d@%s@%s", taxid, name, rank)` give the taxid, whatever the name and the rank (even containing `@`) -/
theorem entry_text_roundtrip (a : Nat) (nm rk : Text) :
    part0 (fmtEntry a nm rk) = Nat.toDigits 10 a ∧ parseTaxid (part0 (fmtEntry a nm rk)) = .taxid a :=
  ⟨part0_fmtEntry a nm rk, parse_fmtEntry a nm rk⟩

/-- **refinement, text layer → numeric layer**: on an index whose entries are `taxid@name@rank` of taxa of the
taxonomy, the verbatim loop + `Atoi` + `taxo.Taxon` is `selectEntry` for every observed distance -/
theorem selection_wellformed (t : Taxo) (nm rk : Nat → Text) (idx : List (Nat × Nat))
    (hnodes : ∀ e ∈ idx, ∃ n, t.node e.2 = some n) (D : Nat) :
    selectText t (textIndex nm rk idx) D = selectEntry idx D :=
  selectText_wellformed t nm rk idx hnodes D

/-- **exactly when the Go loop spins** (well-formed index): iff no recorded distance is `≤ max(D, 1001)`; otherwise
an entry is selected -/
theorem selection_spins_iff (idx : List (Nat × Nat)) (D : Nat) :
    (selectEntry idx D = .error .hang ↔ ∀ e ∈ idx, max D 1001 < e.1) ∧
    ((∃ m, selectEntry idx D = .ok m) ∨ selectEntry idx D = .error .hang) :=
  ⟨selectEntry_hang_iff idx D, selectEntry_cases idx D⟩

/-- decidable equality of outcomes (for the tests below) -/
instance decEqRes {ε α : Type} [DecidableEq ε] [DecidableEq α] : DecidableEq (Except ε α)
  | .ok a, .ok b => if h : a = b then isTrue (by rw [h]) else isFalse (by intro e; cases e; exact h rfl)
  | .error a, .error b => if h : a = b then isTrue (by rw [h]) else isFalse (by intro e; cases e; exact h rfl)
  | .ok _, .error _ => isFalse (by intro e; cases e)
  | .error _, .ok _ => isFalse (by intro e; cases e)

set_option maxRecDepth 20000 in
/-- (tests) the key 1001 is reached by the second iteration; 1002 is not; a blank entry at the observed distance spins;
a blank entry at key 0 below the observed distance leaves the loop (`Atoi("")`: panic) -/
example : selectEntry [(1001, 7)] 3 = .ok 7 ∧ selectEntry [(1002, 7)] 3 = .error .hang ∧
    selectEntry [(5, 7)] 3 = .ok 7 ∧ selectEntry [(2000, 7)] 2500 = .ok 7 := by decide

example : selSpec [(3, []), (0, fmtEntry 5 [] [])] 3 = .spin ∧ selSpec [(0, ['@', 'x'])] 2 = .exit ∧
    selSpec [(1, ['@'])] 2 = .spin := by decide

/-- **the index built by `IndexSequence` holds the distance 0, and an index holding it is never read through the
fallback branches**: under the hypotheses of `index_is_lca`, for a non-empty indexed sequence, for EVERY observed
distance `D` the downward scan succeeds, the numeric closed form and the verbatim loop on the text of the index
(any names and ranks) agree on it, and the Go loop ends in its first iteration (unreachability of the upward scan
and of the spin) -/
theorem selection_never_falls_back {t : Taxo} {root : Nat} {depth : Nat → Nat} {fuel : Nat}
    (wf : WF t root depth) (hf : FuelOK t fuel)
    (taxids : List Nat) (htax : ∀ x ∈ taxids, ∃ n, t.node x = some n)
    (seqidx lseq : Nat) (hidx : seqidx < taxids.length) (c : Nat → Cand) (ow : List Nat)
    (hperm : ∀ j, j ∈ ow ↔ j < taxids.length)
    (hs : SortedByCw c ow) (hq : QGramBound lseq c ow) (hself : (c seqidx).dist = 0) (hl : 0 < lseq)
    (nm rk : Nat → Text) :
    ∃ idx, indexSequence t fuel taxids seqidx lseq c ow = .ok idx ∧ (∃ a, idxGet idx 0 = some a) ∧
      ∀ D, ∃ m, lookDown idx D = some m ∧ selectEntry idx D = .ok m ∧
        selectText t (textIndex nm rk idx) D = .ok m := by
  obtain ⟨idx, a, h1, h2⟩ := indexSequence_has_zero wf hf taxids htax seqidx lseq hidx c ow hperm hs hq hself hl
  refine ⟨idx, h1, ⟨a, h2⟩, ?_⟩
  intro D
  obtain ⟨m, m1, m2⟩ := selectEntry_of_zero idx a h2 D
  refine ⟨m, m1, m2, ?_⟩
  rw [selectText_wellformed t nm rk idx (fun e he => (indexSequence_anc h1 e he).2) D, m2]

/-- **refinement of `Identify`**: `Identify` run with the verbatim loop on the TEXT of the indices written by
`IndexSequence` (any scientific names and ranks) is the `identify` of §3 — the theorems of §3 are theorems about the
transcription that parses `taxid@name@rank`.  No hypothesis: whatever the taxonomy and the candidate data -/
theorem identify_text_refines (t : Taxo) (fuel : Nat) (fc : FCOut) (nm rk : Nat → Text) (taxids : List Nat)
    (lens : Nat → Nat) (cs : Nat → Nat → Cand) (ows : Nat → List Nat) :
    identifyText t fuel fc (fun b => (indexSequence t fuel taxids b (lens b) (cs b) (ows b)).map (textIndex nm rk)) =
      identify t fuel fc (fun b => indexSequence t fuel taxids b (lens b) (cs b) (ows b)) :=
  identifyText_eq t fuel fc nm rk _ (fun _ _ hb e he => (indexSequence_anc hb e he).2)

/-- non-vacuity / test: the example of §3 on the text of the indices (names containing `@`) -/
example : identifyText exT 6 (findClosests .tag1 10 exQ [0, 1, 2])
    (fun b => (indexSequence exT 6 [3, 4, 5] b 10 (exRows b) (if b = 1 then [1, 0, 2] else [0, 1, 2])).map
      (textIndex (fun _ => ['a', '@', 'b']) (fun _ => []))) = .ok 2 0 2 := by
  rw [identify_text_refines]; decide

/-! ## 6. shape of the recorded index -/

/-- **the recorded distances decrease strictly along the lineage**: in insertion order (root side first) the keys
are strictly decreasing — no entry of the Go map is overwritten and `find?` on the list is the map lookup —, all
below the length of the indexed sequence, and the recorded taxa are a sub-list of the lineage read from the root:
a deeper taxon is recorded for a strictly smaller distance.  (Minimality of each recorded distance among the
references of its level and above is `EntryOK` / `index_is_lca`.) -/
theorem index_keys_decrease_along_lineage {t : Taxo} {fuel : Nat} {taxids : List Nat} {b lseq : Nat} {c : Nat → Cand}
    {ow : List Nat} {idx : List (Nat × Nat)} (h : indexSequence t fuel taxids b lseq c ow = .ok idx) :
    idx.Pairwise (fun e e' => e'.1 < e.1) ∧ (∀ e ∈ idx, e.1 < lseq) ∧
    ∃ p, Tax.path t fuel (taxids.getD b 0) = .ok p ∧ (idx.map (·.2)).Sublist p.reverse :=
  indexSequence_shape h

example : ([(4, 1), (1, 2), (0, 3)] : List (Nat × Nat)).Pairwise (fun e e' => e'.1 < e.1) := by decide

/-! ## 7. obitag2 : the exact-match table (`CLIAssignTaxonomy`, `Identify`)

`exactEntry` models the entry of `ExactTaxid` for the bytes of the query, `identify2` the two stages of
`obitag2.Identify`; both are compared with the real `obitag2.CLIAssignTaxonomy` (query pushed through the returned
iterator) by the `id3` cases of the harness.  No losslessness is claimed for the two-stage search as a whole: by
design it looks at the cluster heads, then at one family only. -/

/-- **the exact-match table is the LCA table**: a query whose bytes are those of at least one reference is assigned
the taxon whose ancestors are exactly the common ancestors of the taxa of ALL the references holding these bytes —
in particular an ancestor-or-self of the taxon of every best-matching (distance 0) reference; `bestmatch` is the
first of them -/
theorem exact_table_is_lca {t : Taxo} {root : Nat} {depth : Nat → Nat} {fuel : Nat}
    (wf : WF t root depth) (hf : FuelOK t fuel) (same : Nat → Bool) (taxids counts : List Nat)
    (htax : ∀ x ∈ taxids, ∃ n, t.node x = some n) (i0 : Nat) (hi0 : i0 < taxids.length) (hs0 : same i0 = true) :
    ∃ z i w, exactEntry t fuel same taxids counts = some (.ok (z, i, w)) ∧
      i < taxids.length ∧ same i = true ∧ (∀ j, j < i → same j = false) ∧
      ∀ a, Anc t a z ↔ ∀ j, j < taxids.length → same j = true → Anc t a (taxids.getD j 0) :=
  exactEntry_lca wf hf same taxids counts htax i0 hi0 hs0

/-- … and `Identify` returns it without searching: whatever the clusters and families -/
theorem identify2_exact {ι : Type} (sel : ι → Nat → Res Nat) (t : Taxo) (fuel : Nat) (z i w : Nat) (fcC : FCOut)
    (indexC : Nat → Res ι) (fam : Nat → Option (FCOut × (Nat → Res ι))) :
    identify2 sel t fuel (some (.ok (z, i, w))) fcC indexC fam = .ok z i w .exact := rfl

/-- non-vacuity of `exact_table_is_lca` on `exT` (1 > 2 > {3, 4}, 1 > 5): references 0 and 2 hold the bytes of the
query, taxa 3 and 4: the entry is taxon 2, first reference 0, weight 1 + 5 -/
example : exactEntry exT 6 (fun j => j = 0 || j = 2) [3, 5, 4] [1, 2, 5] = some (.ok (2, 0, 6)) := by decide

/-! ## 8. `Common4Mer` -/

/-- **`Common4Mer` is the sum over the 256 codes of the minimum of the two counters**, for any two tables -/
theorem common4mer_sum_min (c1 c2 : Array Nat) :
    common4mer c1 c2 = sumMin (fun i => c1.getD i 0) (fun i => c2.getD i 0) 256 :=
  foldl_range_eq _ _ 256

/-- **on sequences it is the size of the multiset intersection of their 4-mers** (codes of `Encode4mer`), as long
as no 16-bit counter wraps (at most 65538 letters); it is symmetric, and it is the quantity bounded below by the
q-gram lemma (`qgram4_acgt`) -/
theorem common4_is_multiset_intersection (a b : Bytes) (ha : a.length ≤ 65538) (hb : b.length ≤ 65538) :
    common4 a b = inter (Kmer.fourmers a) (Kmer.fourmers b) ∧ common4 a b = common4 b a := by
  refine ⟨common4_eq_inter a b ha hb, ?_⟩
  unfold common4
  rw [common4mer_sum_min, common4mer_sum_min]
  have : ∀ (f g : Nat → Nat) n, sumMin f g n = sumMin g f n := by
    intro f g n
    induction n with
    | zero => rfl
    | succ n ih => simp only [sumMin, ih, Nat.min_comm]
  exact this _ _ _

/-! ## 9. IUPAC ambiguity codes: a recorded violation (known finding C15-iupac-prefilter)

The losslessness theorems of §1–§4 are proved for sequences over `a c g t`, where the three kernels agree.  With an
ambiguity code they do not (`Encode4mer` counts it as `a`, `D1Or0` compares bytes, `FastLCSScore` matches codes by
set intersection) and the property, which quantifies over every query and data base, is violated by the code. -/

/-- abstract data of the corpus case `fc1 ktagatak atagatat,atagatat,atagatat` : three identical references, each at
LCS distance 1 of the query (7 matches over 8 columns: `k` matches `t`), 4 shared 4-mers -/
def exU : Nat → Cand := fun _ => ⟨8, 4, 7, 8⟩

/-- **counterexample with an ambiguity code**: on that case the real `D1Or0` answers `-1` for every reference (two
byte mismatches).  Under this kernel reading — the first candidate is compared without bound, the others by `D1Or0` —
`FindClosests` returns one reference out of the three tied at the minimal distance, although the candidates are
sorted and satisfy the q-gram bound; under the reading valid on `a c g t` (`findClosestsK d1or0 = findClosests`) it
returns the three.  The candidate order `[2, 1, 0]` is the one the code computes on that case. -/
theorem findClosests_iupac_counterexample :
    findClosestsK (fun _ => none) .tag1 8 exU [2, 1, 0] = .ok 1 (7, 8) 2 [2] ∧
    findClosestsK (fun _ => none) .tag2 8 exU [2, 1, 0] = .ok 1 (7, 8) 2 [2] ∧
    bruteClosests exU [2, 1, 0] = some (1, [2, 1, 0]) ∧
    findClosests .tag1 8 exU [2, 1, 0] = .ok 1 (7, 8) 2 [2, 1, 0] ∧
    SortedByCw exU [2, 1, 0] ∧ QGramBound 8 exU [2, 1, 0] ∧
    ∀ v lq c o, findClosestsK d1or0 v lq c o = findClosests v lq c o := by
  refine ⟨by decide, by decide, by decide, by decide, by simp [SortedByCw, exU], ?_, findClosestsK_d1or0⟩
  intro i _ d hd
  simp [exU, Cand.dist] at hd ⊢
  omega

end ObiVerif.Props.C15
