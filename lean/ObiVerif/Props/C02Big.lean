import ObiVerif.Props.C02
import ObiVerif.Lemmas.HeaderFast
import ObiVerif.Lemmas.HeaderSize
/-!
# C02, fourth pass — sizes at and above the buffer boundaries

The round-trip theorems of `Props/C02.lean` quantify over every record: no hypothesis bounds the length of the
identifier, of an annotation value, of the definition, of the title line, of the sequence or of the quality line.
`write_read_any_size` makes that explicit: for EVERY four sizes there is a record with exactly these sizes to which the
theorems apply (`every_title_and_sequence_length`: every title-line length ≥ 26 and every sequence length ≥ 1 is
attained), so no buffer size of the real code (4096, 8192, 65536, 1 MiB) can be a limit of the model.  The limits
of the REAL code are listed in `lib/cfg/C02.py` (`level_note`) with the case of `harness/c02_big.go` that exercises each.

`fast_model_is_model`: the linear functions the driver runs on the big cases (`Model/HeaderFast.lean`) ARE the
functions of the theorems, for every input.
-/
namespace ObiVerif.Props.C02
open ObiVerif.Header ObiVerif.Json ObiVerif.HeaderSize ObiVerif.HeaderFast

/-- **Every size.**  For every `n m d k`, the record `sized n m d k` — identifier of `n+1` bytes, a string annotation of
    `m` bytes, a definition of `d` bytes, `k+1` bases with qualities — has a title line of exactly `n + m + d + 26` bytes
    and a sequence (and quality) line of `k + 1` bytes, and is read back unchanged from what the FASTA writer prints
    (60-column folding included) and from what the FASTQ writer prints with any offset 14..172; writing what was read
    gives the same bytes. -/
theorem write_read_any_size (n m d k : Nat) :
    (writeTitle (sized n m d k).id (info goJson (sized n m d k).ann (sized n m d k).defn)).length = n + m + d + 26
    ∧ (sized n m d k).seq.length = k + 1
    ∧ readFasta goJson (writeFasta goJson (sized n m d k)) = some [{ sized n m d k with qual := none }]
    ∧ (∀ sh : UInt8, 14 ≤ sh → sh ≤ 172 →
        readFastq goJson sh (writeFastq goJson sh (sized n m d k))
          = some [{ sized n m d k with
                    qual := some ((qualities (sized n m d k).seq (sized n m d k).qual).map (fun q => min q 93)) }])
    ∧ (∃ r', readFasta goJson (writeFasta goJson (sized n m d k)) = some [r']
          ∧ writeFasta goJson r' = writeFasta goJson (sized n m d k))
    ∧ (∃ r', readFastq goJson 33 (writeFastq goJson 33 (sized n m d k)) = some [r']
          ∧ writeFastq goJson 33 r' = writeFastq goJson 33 (sized n m d k)) := by
  refine ⟨sized_title_length n m d k, sized_seq_length n m d k,
    write_read_fasta_json _ (sized_annOK n m d k) (sized_WF n m d k), ?_,
    write_read_write_fixed_fasta_json _ (sized_annOK n m d k) (sized_WF n m d k),
    write_read_write_fixed_fastq_json 33 (Or.inl rfl) _ (sized_annOK n m d k) (sized_WF n m d k) (sized_qual n m d k)⟩
  intro sh h1 h2
  have h := write_read_fastq_many_anyshift_json sh h1 h2 [sized n m d k]
    (by intro x hx; simp at hx; subst hx; exact sized_annOK n m d k)
    (by intro x hx; simp at hx; subst hx; exact sized_WF n m d k)
    (by intro x hx; simp at hx; subst hx; exact sized_qual n m d k)
  simpa using h

/-- every title-line length from 26 bytes on and every sequence length from 1 base on is the size of a record that
    round-trips (FASTA; FASTQ with the default offset) -/
theorem every_title_and_sequence_length (T K : Nat) (hT : 26 ≤ T) (hK : 1 ≤ K) :
    ∃ r : Record JMems, (writeTitle r.id (info goJson r.ann r.defn)).length = T ∧ r.seq.length = K
      ∧ readFasta goJson (writeFasta goJson r) = some [{ r with qual := none }]
      ∧ readFastq goJson 33 (writeFastq goJson 33 r)
          = some [{ r with qual := some ((qualities r.seq r.qual).map (fun q => min q 93)) }] := by
  obtain ⟨h1, h2, h3, h4, _⟩ := write_read_any_size 0 (T - 26) 0 (K - 1)
  exact ⟨sized 0 (T - 26) 0 (K - 1), by rw [h1]; omega, by rw [h2]; omega, h3, h4 33 (by decide) (by decide)⟩

/-- non-vacuity at 5000 bytes (above the 4096-byte `bufio.Reader` of the chunk parsers: the size class of the seeded
    regression C02-m5) and at 70000 bytes (above the 65536-byte buffers / `bufio.Scanner` token limit): statement-level
    instances — the title line and the sequence line have exactly these lengths — no evaluation of the model -/
example : ∃ r : Record JMems, (writeTitle r.id (info goJson r.ann r.defn)).length = 5000 ∧ r.seq.length = 5000
    ∧ readFasta goJson (writeFasta goJson r) = some [{ r with qual := none }] := by
  obtain ⟨r, h1, h2, h3, _⟩ := every_title_and_sequence_length 5000 5000 (by decide) (by decide)
  exact ⟨r, h1, h2, h3⟩

example : ∃ r : Record JMems, (writeTitle r.id (info goJson r.ann r.defn)).length = 70000 ∧ r.seq.length = 70000
    ∧ readFastq goJson 33 (writeFastq goJson 33 r)
        = some [{ r with qual := some ((qualities r.seq r.qual).map (fun q => min q 93)) }] := by
  obtain ⟨r, h1, h2, _, h4⟩ := every_title_and_sequence_length 70000 70000 (by decide) (by decide)
  exact ⟨r, h1, h2, h4⟩

/-- test (one small input, evaluated): `sized 1 2 3 4` is written `>xx {"definition":"ddd","k":"vv"}⏎aaaaa⏎` -/
example : writeFasta goJson (sized 1 2 3 4)
    = [62, 120, 120, 32, 123, 34, 100, 101, 102, 105, 110, 105, 116, 105, 111, 110, 34, 58, 34, 100, 100, 100, 34, 44, 34,
       107, 34, 58, 34, 118, 118, 34, 125, 10, 97, 97, 97, 97, 97, 10] := by decide

/-- **The fast model is the model.**  The linear, stack-safe functions the driver runs on lines of 64 KiB – 2 MiB
    (buffers accumulated in reverse, tail-recursive loops) compute, for every input, the functions the theorems are
    about: both chunk-parser machines, the JSON string encoder / decoder, the whole encoder and decoder, the header
    the writers print, the 60-column folding. -/
theorem fast_model_is_model :
    (∀ text, parseFastaF text = parseFasta text)
    ∧ (∀ sh wq text, parseFastqF sh wq text = parseFastq sh wq text)
    ∧ (∀ s, encStrBodyF s = encStrBody s) ∧ (∀ s, decStrBodyF s = decStrBody s)
    ∧ (∀ m, encodeObjF m = encodeObj m) ∧ (∀ s, decodeObjF s = decodeObj s)
    ∧ (∀ a d, infoF a d = info goJson a d)
    ∧ (∀ s, fold60F s = fold60 s) ∧ (∀ i f s, formatFastaF i f s = formatFasta i f s) :=
  ⟨parseFastaF_eq, parseFastqF_eq, encStrBodyF_eq, decStrBodyF_eq, encodeObjF_eq, decodeObjF_eq, infoF_eq, fold60F_eq,
   formatFastaF_eq⟩

/-- test (one input): the fast FASTA machine on `>a x⏎ac⏎>b⏎g⏎` -/
example : parseFastaF [62, 97, 32, 120, 10, 97, 99, 10, 62, 98, 10, 103, 10]
    = .ok [⟨[97], [120], [97, 99], none⟩, ⟨[98], [], [103], none⟩] := by rfl

end ObiVerif.Props.C02
