import ObiVerif.Props.C18Proc
import ObiVerif.Lemmas.WriteReg
/-!
# C18 — pipes registered dynamically (property theorems)

`Props/C18Proc.lean` assumes every writer registered before `main` waits.  `Model/WriteReg.lean` drops the assumption:
an output is a *task* whose writer is registered by a launcher goroutine at an arbitrary moment — possibly after `main`
has called `WaitForLastPipe` — with (`covered`) or without (`uncovered`) a registration held on its behalf from before
the `go` statement; `static` tasks are those of `Props/C18Proc.lean`.  For EVERY interleaving of `main`, the launchers
and the writers:

* `reg_counts_holds`: the counter of the `WaitGroup` is exactly the number of registrations held (covers not yet
  released + writers registered that have neither finished nor exited);
* `main_passes_only_at_zero`: what `sync.WaitGroup` guarantees and nothing more: at the step at which `main` passes
  `WaitForLastPipe` no registered writer is unfinished (none is `busy`, none is `reporting`) and no cover is pending —
  but a task whose launcher has not run yet and that has no cover (`uncovered`, `idle`) does not hold `main` back;
* `dyn_exit_nonzero_of_failure`: if some failing output is `static` or `covered`, no interleaving ends with status 0 —
  including those where its writer is registered after `main` started waiting;
* `dyn_exit_not_one_of_no_failure`: no output fails ⇒ no interleaving ends with status 1;
* `dyn_exit_sound`: all outputs `static`/`covered` ⇒ the exit status, once there is one, is 1 iff some output fails;
* `uncovered_window`: an `uncovered` failing output admits an interleaving with exit status 0 (the launcher is scheduled
  after `main` returned): the pattern of `obitagpcr -u` in the code under check (shown on the real command by the
  harness scenario `dyn-unid-fifo`: the command exits 0 before the output was ever opened), and of
  `obimultiplex -u` / `obigrep --save-discarded` before commits 3cf0390 / f938d4e;
* `static_is_proc`: with `static` tasks only, a run of this model is a run of the model of `Props/C18Proc.lean`
  (same exit status for corresponding schedules).
-/
namespace ObiVerif.Props.C18
open ObiVerif.WriteProc

theorem dfoldl_inv {I : DProc → Prop} (hs : ∀ p t, I p → I (dstep p t)) (sched : List DTid) (p : DProc) (h : I p) :
    I (sched.foldl dstep p) := by
  induction sched generalizing p with
  | nil => exact h
  | cons t ts ih => exact ih _ (hs p t h)

/-- the `WaitGroup` counter is the number of registrations held, in every reachable state -/
theorem reg_counts_holds (ks : List (Kind × Bool)) (sched : List DTid) :
    (runD ks sched).reg = holds (runD ks sched).ts :=
  (dfoldl_inv (I := RegInv) (fun _ t h => dstep_regInv h t) sched _ ⟨rfl⟩).cnt

/-- `main` passes `WaitForLastPipe` only in a state where no registered writer is unfinished and no cover is pending -/
theorem main_passes_only_at_zero (ks : List (Kind × Bool)) (sched : List DTid)
    (hw : (runD ks sched).main = .waiting) (hr : (dstep (runD ks sched) .main).main = .returned) :
    ∀ t ∈ (runD ks sched).ts,
      (t.st = .idle ∧ t.cover = false) ∨ (∃ r, t.st = .run r .done ∧ (t.cover = false ∨ r = true)) := by
  have hc := reg_counts_holds ks sched
  generalize runD ks sched = p at hw hr hc
  have hz : p.reg = 0 := by
    unfold dstep at hr
    split at hr
    · rw [hw] at hr; cases hr
    · simp only [hw] at hr
      by_cases h0 : p.reg = 0
      · exact h0
      · rw [if_neg h0, hw] at hr; cases hr
  intro t ht
  exact (Task.holds_zero_iff t).mp (holds_zero (by rw [← hc]; exact hz) t ht)

/-- a failing output that is registered statically or covered: no interleaving exits 0, wherever the launcher runs -/
theorem dyn_exit_nonzero_of_failure (ks : List (Kind × Bool)) (sched : List DTid)
    (h : ∃ k ∈ ks, k.2 = true ∧ k.1 ≠ .uncovered) : exitD ks sched ≠ some 0 := by
  have h0 : SafeInv (dinit ks) := ⟨rfl, init_anyOk ks h, rfl, by simp [dinit]⟩
  exact (dfoldl_inv (I := SafeInv) (fun _ t hh => dstep_safeInv hh t) sched _ h0).ex

/-- … and `main` is still inside `WaitForLastPipe` as long as the process lives -/
theorem dyn_main_blocked (ks : List (Kind × Bool)) (sched : List DTid)
    (h : ∃ k ∈ ks, k.2 = true ∧ k.1 ≠ .uncovered) : (runD ks sched).main = .waiting := by
  have h0 : SafeInv (dinit ks) := ⟨rfl, init_anyOk ks h, rfl, by simp [dinit]⟩
  exact (dfoldl_inv (I := SafeInv) (fun _ t hh => dstep_safeInv hh t) sched _ h0).mn

/-- no false alarm, whatever the kinds -/
theorem dyn_exit_not_one_of_no_failure (ks : List (Kind × Bool)) (sched : List DTid)
    (h : ∀ k ∈ ks, k.2 = false) : exitD ks sched ≠ some 1 := by
  have h0 : GoodInvD (dinit ks) := ⟨init_allGoodT ks h, by simp [dinit]⟩
  exact (dfoldl_inv (I := GoodInvD) (fun _ t hh => dstep_goodInv hh t) sched _ h0).ex

theorem dyn_exit_is_0_or_1 (ks : List (Kind × Bool)) (sched : List DTid) :
    exitD ks sched = none ∨ exitD ks sched = some 0 ∨ exitD ks sched = some 1 := by
  refine dfoldl_inv (I := fun p => p.exit = none ∨ p.exit = some 0 ∨ p.exit = some 1) ?_ sched _ (Or.inl rfl)
  intro p t h
  unfold dstep
  split
  · exact h
  · cases t with
    | main =>
      simp only
      cases p.main with
      | waiting => simp only; split <;> exact h
      | returned => exact Or.inr (Or.inl rfl)
    | launcher i => simp only; rw [dstepT_exit]; split; exact Or.inr (Or.inr rfl); exact h
    | writer i => simp only; rw [dstepT_exit]; split; exact Or.inr (Or.inr rfl); exact h

/-- every output static or covered: the exit status is 1 iff some output fails, for every interleaving -/
theorem dyn_exit_sound (ks : List (Kind × Bool)) (hk : ∀ k ∈ ks, k.1 ≠ .uncovered) (sched : List DTid) (c : Nat)
    (h : exitD ks sched = some c) : c = if ks.any (fun k => k.2) then 1 else 0 := by
  by_cases hf : ∃ k ∈ ks, k.2 = true
  · obtain ⟨k, hm, hk2⟩ := hf
    have h1 := dyn_exit_nonzero_of_failure ks sched ⟨k, hm, hk2, hk k hm⟩
    have hany : ks.any (fun k => k.2) = true := List.any_eq_true.mpr ⟨k, hm, hk2⟩
    rw [hany, if_pos rfl]
    rcases dyn_exit_is_0_or_1 ks sched with h2 | h2 | h2
    · rw [h2] at h; cases h
    · exact absurd h2 h1
    · rw [h2] at h; exact (Option.some.inj h).symm
  · have hall : ∀ k ∈ ks, k.2 = false := by
      intro k hm
      cases hk2 : k.2 with
      | false => rfl
      | true => exact absurd ⟨k, hm, hk2⟩ hf
    have h1 := dyn_exit_not_one_of_no_failure ks sched hall
    have hany : ks.any (fun k => k.2) = false := by
      rw [List.any_eq_false]
      intro x hx
      simp [hall x hx]
    rw [hany]
    rcases dyn_exit_is_0_or_1 ks sched with h2 | h2 | h2
    · rw [h2] at h; cases h
    · rw [h2] at h; exact (Option.some.inj h).symm
    · exact absurd h2 h1

/-- the window: a failing output without cover whose launcher runs after `main` has passed `WaitForLastPipe`: the
process exits 0, the failure is never reported (it has not even happened yet) -/
theorem uncovered_window :
    exitD [(.static, false), (.uncovered, true)] [.writer 0, .main, .main, .launcher 1, .writer 1, .writer 1] = some 0 := by
  decide

/-- the same schedule with the cover held (the code of `obimultiplex -u`, `obigrep --save-discarded`): status 1 -/
theorem covered_same_schedule :
    exitD [(.static, false), (.covered, true)] [.writer 0, .main, .main, .launcher 1, .writer 1, .writer 1] = some 1 := by
  decide

/-- with `uncovered` outputs the soundness statement is false, so its hypothesis cannot be dropped -/
theorem uncovered_not_sound : ∃ ks sched, (∃ k ∈ ks, k.2 = true) ∧ exitD ks sched = some 0 :=
  ⟨[(.static, false), (.uncovered, true)], [.writer 0, .main, .main], ⟨_, List.mem_cons_of_mem _ (List.mem_cons_self ..), rfl⟩,
    by decide⟩

/-! ## static tasks only: the model of `Props/C18Proc.lean` -/

/-- sample (test): static tasks under the schedule of the executable model exit as the static model does -/
theorem static_is_proc_sample :
    exitD [(.static, false), (.static, true)] (lateD 2) = exitOf [false, true] (canon 2) ∧
    exitD [(.static, false), (.static, false)] (lateD 2) = exitOf [false, false] (canon 2) := by decide

/-- with static tasks only, the two models agree on the verdict for every schedule of either: both are sound -/
theorem static_is_proc (fails : List Bool) (sd : List DTid) (sp : List Tid) (c c' : Nat)
    (h : exitD (fails.map fun f => (Kind.static, f)) sd = some c) (h' : exitOf fails sp = some c') : c = c' := by
  have hk : ∀ k ∈ fails.map (fun f => (Kind.static, f)), k.1 ≠ .uncovered := by
    intro k hm
    obtain ⟨f, _, rfl⟩ := List.mem_map.mp hm
    simp
  rw [dyn_exit_sound _ hk sd c h, exit_sound fails sp c' h']
  have : (fails.map fun f => (Kind.static, f)).any (fun k => k.2) = fails.any id := by
    rw [List.any_map]; rfl
  rw [this]

/-! ## non-vacuity -/

/-- `dyn_exit_nonzero_of_failure` on the schedules of the executable model: the launcher runs after `main` polled -/
example : exitD [(.static, false), (.covered, true)] (canonD 2) = some 1 := by decide
example : exitD [(.static, false), (.covered, true)] (lateD 2) = some 1 := by decide
example : exitD [(.static, false), (.covered, false)] (canonD 2) = some 0 := by decide
example : exitD [(.covered, false), (.covered, true), (.static, false)] (lateD 3) = some 1 := by decide

/-- `main_passes_only_at_zero` has satisfiable hypotheses: all writers done, covers released, `main` passes -/
example : (runD [(.static, false), (.covered, false)] [.writer 0, .launcher 1, .launcher 1, .writer 1]).main = .waiting ∧
    (dstep (runD [(.static, false), (.covered, false)] [.writer 0, .launcher 1, .launcher 1, .writer 1]) .main).main = .returned := by
  decide

/-- the cover alone (launcher not yet run) blocks `main` -/
example : (runD [(.covered, true)] [.main, .main, .main]).main = .waiting :=
  dyn_main_blocked _ _ ⟨_, List.mem_cons_self .., rfl, by simp⟩

end ObiVerif.Props.C18
