import ObiVerif.Props.C15S
import ObiVerif.Lemmas.TagStored
set_option Elab.async false
/-!
# C15 — glue pass: references that ALREADY carry an `obitag_ref_index` (property theorems on `Model/TagStored.lean`)

An index is valid only relative to the complete reference list it was computed on.  `obirefidx` (the command whose
job is to build the indices) never reads a stored index: every index it writes is `IndexSequence` on the kept list.
`obitag` trusts a stored index and builds one only when it is missing: its assignment is lossless only if every
stored index was built on the same reference list — stated as the hypothesis `StoredFresh`, with a counterexample
showing that the hypothesis cannot be dropped.
-/
namespace ObiVerif.Props.C15G
open ObiVerif.Tag ObiVerif.Tax ObiVerif.QGram ObiVerif.Kmer ObiVerif.Lcs ObiVerif.Props.C15V ObiVerif.Props.C15W

/-- **`obirefidx` recomputes every index** — whatever `obitag_ref_index` attribute the records carry at input (none,
an empty map, an index built on a sub-list, on another data base, with wrong keys), the record `IndexReferenceDB`
writes for the `b`-th record with a known taxid is that record with the index `IndexSequence` (verbatim kernels,
`indexSequenceV`) builds for it on the list of ALL the records with a known taxid, in file order -/
theorem refidx_recomputes_every_index (t : Taxo) (fuel : Nat) (recs : List RefRecI) (b : Nat) (ow : List Nat) :
    refidxOutI t fuel recs b ow =
      (((plain recs).filter (known t))[b]?).map fun r =>
        (r, indexSequenceV t fuel (((plain recs).filter (known t)).filterMap (fun r => Tax.resolve t r.tid)) b
          (refFn ((plain recs).filter (known t))) ow) :=
  refidxOutI_eq t fuel recs b ow

/-- **the output of `obirefidx` does not depend on the stored indices**: two reference files holding the same records
(bytes, taxid) with different `obitag_ref_index` attributes give the same output, record by record -/
theorem refidx_output_ignores_stored_index (t : Taxo) (fuel : Nat) (recs recs' : List RefRecI)
    (h : plain recs = plain recs') (b : Nat) (ow : List Nat) :
    refidxOutI t fuel recs b ow = refidxOutI t fuel recs' b ow := by
  rw [refidxOutI_eq, refidxOutI_eq, h]

/-- **the exact trust rule of `obitag`** (last record of the file known): the worker of `CLIAssignTaxonomy` is the
verbatim search on the kept list; for a best reference a STORED index is used as is (`IndexSequence` is not run for
it), a missing one is built on the kept list -/
theorem cli_assign_trusts_stored_index (t : Taxo) (fuel : Nat) (nm rk : Nat → Text) (recs : List RefRecI) (q : Bytes)
    (o : List Nat) (ows : Nat → List Nat)
    (hlast : (((plain recs).getLast?).map (fun r => !known t r)).getD false = false) :
    cliAssign1I t fuel nm rk recs q o ows =
      (match findClosestsV .tag1 q (refFn ((plain recs).filter (known t))) o with
        | .error _ => .bad .panic
        | .ok fc => identifyText t fuel fc (fun b =>
            match storedFn (keptI t recs) b with
            | some ix => .ok ix
            | none => freshIndex t fuel nm rk (plain recs) b (ows b))) :=
  cliAssign1I_eq t fuel nm rk recs q o ows hlast

/-- **stored indices built on the same reference list change nothing** (`StoredFresh`: every stored index is the
text of the index `IndexSequence` builds on the kept list of this very file): the worker answers as on the file
without attributes -/
theorem cli_assign_stored_same_list (t : Taxo) (fuel : Nat) (nm rk : Nat → Text) (recs : List RefRecI) (q : Bytes)
    (o : List Nat) (ows : Nat → List Nat)
    (hlast : (((plain recs).getLast?).map (fun r => !known t r)).getD false = false)
    (hs : StoredFresh t fuel nm rk recs ows) :
    cliAssign1I t fuel nm rk recs q o ows = cliAssign1 t fuel nm rk (plain recs) q o ows :=
  cliAssign1I_fresh t fuel nm rk recs q o ows hlast hs

/- FULL statement (FALSE, see `cli_assign_stale_index_overspecific`): the conclusion of `cli_assign_lossless` for
`cliAssign1I` on ANY stored indices. -/
/-- **C15 through `obitag.CLIAssignTaxonomy` on an indexed data base — partial**: under `StoredFresh` (every stored
index was built on the same reference list) and the hypotheses of `cli_assign_lossless`, the assigned taxon is an
ancestor-or-self of the taxon of EVERY kept reference at minimal LCS distance of the query -/
theorem cli_assign_stored_lossless_partial {t : Taxo} {depth : Nat → Nat} {fuel : Nat}
    (wf : WF t 1 depth) (hf : FuelOK t fuel) (nm rk : Nat → Text) (recs : List RefRecI)
    (hlast : (((plain recs).getLast?).map (fun r => !known t r)).getD false = false)
    (htax : ∀ r ∈ plain recs, ∀ x, Tax.resolve t r.tid = some x → ∃ n, t.node x = some n)
    (q : Bytes) (o : List Nat) (ows : Nat → List Nat)
    (hs : StoredFresh t fuel nm rk recs ows)
    (hperm : ∀ j, j ∈ o ↔ j < ((plain recs).filter (known t)).length)
    (hq : IsACGT q)
    (hr : ∀ r ∈ (plain recs).filter (known t), IsACGT r.seq ∧ q.length + r.seq.length + 1 ≤ 30000)
    (hrr : ∀ b, IsACGT (refFn ((plain recs).filter (known t)) b) ∧
      ∀ j ∈ ows b, IsACGT (refFn ((plain recs).filter (known t)) j) ∧
      (refFn ((plain recs).filter (known t)) b).length + (refFn ((plain recs).filter (known t)) j).length + 1 ≤ 30000)
    (hso : SortedByCw (fun i => candOf q (refFn ((plain recs).filter (known t)) i)) o) (z bm n : Nat)
    (h : cliAssign1I t fuel nm rk recs q o ows = .ok z bm n) :
    ∀ i (hi : i < ((plain recs).filter (known t)).length),
      (∀ j, j < ((plain recs).filter (known t)).length →
        (candOf q (((plain recs).filter (known t))[i]'hi).seq).dist ≤
          (candOf q (refFn ((plain recs).filter (known t)) j)).dist) →
      ∃ x, Tax.resolve t (((plain recs).filter (known t))[i]'hi).tid = some x ∧ Anc t z x := by
  rw [cliAssign1I_fresh t fuel nm rk recs q o ows hlast hs] at h
  exact ObiVerif.Props.C15S.cli_assign_lossless wf hf nm rk (plain recs) hlast htax q o ows hperm hq hr hrr hso z bm n h

/-! ## evaluated on tiny data

Taxonomy `4,5 → 2 → 1`, `3 → 1` (`suT`).  Data base `[a, x]`: `a = acgtac` (taxon 4), `x = acgtcc` (taxon 3) at
distance 1 of `a`.  Query `aagtac`: distance 1 of `a`, 2 of `x`.  The index of `a` on `[a, x]` is `{0: 4, 1: 1}`; on
`[a]` alone (a data base indexed BEFORE `x` was added) it is `{0: 4}`. -/

/-- (test) the two indices of `a` -/
example : freshIndex suT 6 (fun _ => ['s', 'p', '@']) (fun _ => []) [suA, suX] 0 [0, 1] =
      .ok [(1, fmtEntry 1 ['s', 'p', '@'] []), (0, fmtEntry 4 ['s', 'p', '@'] [])] ∧
    freshIndex suT 6 (fun _ => ['s', 'p', '@']) (fun _ => []) [suA] 0 [0] =
      .ok [(0, fmtEntry 4 ['s', 'p', '@'] [])] := by
  decide +kernel

/-- **the hypothesis `StoredFresh` cannot be dropped — a stale index is trusted and the assignment is over-specific**:
with `a` carrying the index built on `[a]` alone, the worker of `CLIAssignTaxonomy` assigns taxon 4 to the query,
although `x` (taxon 3, not a descendant of 4) is within the distance of the best match; without stored index — or
after `obirefidx` has recomputed it — it assigns the root, the LCA of 4 and 3 -/
theorem cli_assign_stale_index_overspecific :
    cliAssign1I suT 6 (fun _ => ['s', 'p', '@']) (fun _ => [])
        [⟨suA, some [(0, fmtEntry 4 ['s', 'p', '@'] [])]⟩, ⟨suX, none⟩]
        [97,97,103,116,97,99] [0, 1] (fun b => if b = 0 then [0, 1] else [1, 0]) = .ok 4 0 1 ∧
    cliAssign1 suT 6 (fun _ => ['s', 'p', '@']) (fun _ => []) [suA, suX]
        [97,97,103,116,97,99] [0, 1] (fun b => if b = 0 then [0, 1] else [1, 0]) = .ok 1 0 1 ∧
    (Tax.lca suT 6 4 3 = .ok 1) := by
  decide +kernel

/-- (test, non-vacuity of `cli_assign_stored_same_list`) the stored index of `a` built on `[a, x]` itself: same answer
as without attribute; an EMPTY stored map is trusted too and the selection loop spins -/
example :
    cliAssign1I suT 6 (fun _ => ['s', 'p', '@']) (fun _ => [])
        [⟨suA, some [(1, fmtEntry 1 ['s', 'p', '@'] []), (0, fmtEntry 4 ['s', 'p', '@'] [])]⟩, ⟨suX, none⟩]
        [97,97,103,116,97,99] [0, 1] (fun b => if b = 0 then [0, 1] else [1, 0]) = .ok 1 0 1 ∧
    cliAssign1I suT 6 (fun _ => ['s', 'p', '@']) (fun _ => []) [⟨suA, some []⟩, ⟨suX, none⟩]
        [97,97,103,116,97,99] [0, 1] (fun b => if b = 0 then [0, 1] else [1, 0]) = .bad .hang := by
  decide +kernel

/-- (test) `obirefidx` on `[a, x]` with `a` carrying the stale index: the record written for `a` carries `{0: 4, 1: 1}` -/
example : (refidxOutI suT 6 [⟨suA, some [(0, fmtEntry 4 ['s', 'p', '@'] [])]⟩, ⟨suX, some []⟩] 0 [0, 1]).map
      (fun p => p.2) = some (.ok (.ok [(1, 1), (0, 4)])) := by
  decide +kernel

end ObiVerif.Props.C15G
