import ObiVerif.Model.Kmer
import ObiVerif.Model.DeBruijn
import ObiVerif.Lemmas.Kmer4
import ObiVerif.Lemmas.KmerCanon
import ObiVerif.Lemmas.KmerWin
import ObiVerif.Lemmas.DeBruijn
import ObiVerif.Lemmas.DeBruijnGraph
/-!
# C19 — exact De Bruijn weights and heaviest path; strand-invariant canonical k-mers (property theorems)

The models are those of the code **as repaired** by the five patches `notes/patches/C19-*.diff`
(the unrepaired behaviours are pinned by the first case lines of the corpus of `harness/c19.go`).
-/
namespace ObiVerif.Props.C19
open ObiVerif.Kmer ObiVerif.DeBruijn

/-! ## 4-mers -/

/-- `Encode4mer` returns, for every sequence, the codes of its 4-mers in order (`fourmers`: the code of
`s[i..i+3]` for `i = 0 … |s|-4`, a letter other than a,c,g,t,u counting as `a` through
`__single_base_code__`), and nothing for a sequence shorter than four bases (no panic). -/
theorem encode4_exact (s : Bytes) :
    encode4mer s = fourmers s ∧
    (encode4mer s).length = s.length - 3 ∧
    (s.length < 4 → encode4mer s = []) ∧
    (∀ i (h : i + 3 < s.length),
      (encode4mer s)[i]? = some (code4 (s[i]'(by omega)) (s[i+1]'(by omega)) (s[i+2]'(by omega)) (s[i+3]'h))) := by
  refine ⟨encode4mer_eq s, ?_, ?_, ?_⟩
  · rw [encode4mer_eq, fourmers_length]
  · intro h; simp [encode4mer, h]
  · intro i h
    rw [encode4mer_eq]
    have hl : i < (fourmers s).length := by rw [fourmers_length]; omega
    rw [List.getElem?_eq_getElem hl, fourmers_getElem s i h]

/-- test (sample input): the 4-mers of "acgta" are ACGT = 0x1B and CGTA = 0x6C -/
example : encode4mer [97, 99, 103, 116, 97] = [27, 108] := by decide
/-- test: three bases give no 4-mer -/
example : encode4mer [97, 99, 103] = [] := by decide

/-- `Count4Mer`, complete characterisation: the table has 256 cells and cell `c` holds the number of
occurrences of the 4-mer `c` **modulo 2^16** (the cells are `uint16`). -/
theorem count4_mod (s : Bytes) (c : Nat) (hc : c < 256) :
    (count4mer s).size = 256 ∧ (count4mer s).getD c 0 = (fourmers s).count c % 65536 :=
  ⟨count4mer_size s, count4mer_eq s c hc⟩

/-- Full statement of the property: `∀ s c, c < 256 → (count4mer s).getD c 0 = (fourmers s).count c`.
It is **false** of the code (finding `c4.overflow16`, see `count4_overflow`); it holds for every sequence
shorter than 65539 bases (fewer than 65536 4-mers). -/
theorem count4_exact_partial (s : Bytes) (hs : s.length < 65539) (c : Nat) (hc : c < 256) :
    (count4mer s).getD c 0 = (fourmers s).count c := by
  rw [count4mer_eq s c hc]
  apply Nat.mod_eq_of_lt
  have h1 : (fourmers s).count c ≤ (fourmers s).length := List.count_le_length
  rw [fourmers_length] at h1
  omega

/-- the hypothesis of `count4_exact_partial` is satisfiable on a non-trivial value -/
example : ([97, 99, 103, 116, 97, 99, 103, 116] : Bytes).length < 65539 := by decide

/-- counterexample to the full statement: poly-a of 65539 bases holds 65536 times the 4-mer aaaa and the
table says 0 (the real code agrees: case line `c4 61 65539`). -/
theorem count4_overflow :
    (fourmers (List.replicate 65539 97)).count 0 = 65536 ∧
    (count4mer (List.replicate 65539 97)).getD 0 0 = 0 := by
  have h : fourmers (List.replicate 65539 97) = List.replicate 65536 0 := fourmers_replicate_a 65536
  constructor
  · rw [h, List.count_replicate_self]
  · rw [count4mer_eq _ 0 (by decide), h, List.count_replicate_self]

/-! ## canonical k-mers of the k-mer index

Specification (`Lemmas/KmerCanon.lean`, `Lemmas/KmerWin.lean`): a *plain* base is a byte with exactly one
reading in the table `iupac` (a, c, g, t, u), `plain b` its 2-bit code; `windowsAll k l` lists the windows of
`k` consecutive elements of `l` in order; `canon sparse d` is the smaller of `val (dropMid sparse d)` and
`val (dropMid sparse (rcDigits d))`, `val` reading a list of digits as a base-4 number, `rcDigits` reversing
and complementing it and `dropMid true` erasing the central digit (index `k/2`);
`canonSpec k sparse ds` = the `canon` of every window of `k` plain bases, in order.
`effK k sparse` is the k-mer size `NewKmerMap` really uses (odd in sparse mode, even in dense mode).
`rcSeq s` reverses `s` and complements every byte through the table `revcompnuc`. -/

/-- For every word width `W`, requested size `k0` and mode such that the effective `k` satisfies
`1 ≤ k` and `2k ≤ W` (so also `2k = W`: no panic), every sequence `s` of any length (shorter than, equal to,
longer than `k` or than the machine word; any bytes): `NewKmerMap` succeeds and `NormalizedKmerSlice` returns
exactly the canonical value of every window of `k` plain bases of `s`, in order. -/
theorem canon_exact (W k0 : Nat) (sparse : Bool) (h1 : 1 ≤ effK k0 sparse) (h2 : 2 * effK k0 sparse ≤ W)
    (s : Bytes) :
    ∃ m, newKmerMap W k0 sparse = .ok m ∧ m.kmersize = effK k0 sparse ∧
      normalizedKmerSlice m s = canonSpec (effK k0 sparse) sparse (s.map plain) := by
  obtain ⟨m, hm, hv, hk, _⟩ := newKmerMap_valid W k0 sparse h1 h2
  exact ⟨m, hm, hk, by rw [normalizedKmerSlice_eq m sparse hv s, hk]⟩

/-- each canonical value is the smaller of the k-mer and its reverse complement (central base ignored in
sparse mode) -/
theorem canon_is_min (sparse : Bool) (d : List Nat) :
    canon sparse d = min (val (dropMid sparse d)) (val (dropMid sparse (rcDigits d))) := canon_eq_min sparse d

/-- **Strand invariance**: a sequence and its reverse complement yield the same canonical k-mers, in reverse
order — hence the same multiset (`List.Perm`). -/
theorem canon_strand_invariant (W k0 : Nat) (sparse : Bool) (h1 : 1 ≤ effK k0 sparse)
    (h2 : 2 * effK k0 sparse ≤ W) (s : Bytes) :
    ∃ m, newKmerMap W k0 sparse = .ok m ∧
      normalizedKmerSlice m (rcSeq s) = (normalizedKmerSlice m s).reverse ∧
      (normalizedKmerSlice m (rcSeq s)).Perm (normalizedKmerSlice m s) := by
  obtain ⟨m, hm, hv, hk, _⟩ := newKmerMap_valid W k0 sparse h1 h2
  have e : normalizedKmerSlice m (rcSeq s) = (normalizedKmerSlice m s).reverse := by
    rw [normalizedKmerSlice_eq m sparse hv, normalizedKmerSlice_eq m sparse hv, map_plain_rcSeq,
      canonSpec_rc _ _ hv.kpos]
    intro c hc
    obtain ⟨b, _, hb⟩ := List.mem_map.mp hc
    exact plain_lt b c hb
  exact ⟨m, hm, e, by rw [e]; exact List.reverse_perm _⟩

/-- the hypotheses are satisfiable on the configurations of the property: k = 64 on 128-bit words (dense),
k = 63 (sparse), k = 6 -/
example : 1 ≤ effK 64 false ∧ 2 * effK 64 false ≤ 128 ∧ 1 ≤ effK 63 true ∧ 2 * effK 63 true ≤ 128 ∧
    effK 7 false = 6 ∧ effK 6 true = 7 := by decide

/-- test (sample input): k = 2 on "acgt" (dense): ac/gt → ac = 1, cg/cg → 6, gt/ac → 1 -/
example : canonSpec 2 false (([97, 99, 103, 116] : Bytes).map plain) = [1, 6, 1] := by decide

/-! ## De Bruijn graph

Proved here: the weights for reads without ambiguity code (`push_weights_partial`).  **Not proved in Lean**
(tied to the real code by the correspondence check and checked on the real code by the oracle of
`harness/c19.go` — weights over IUPAC expansions, Kahn elimination for cycles, brute force over all walks and
dynamic programming for the heaviest walk — on every run):

* full `push_weights`: for reads with ambiguity codes,
  `weight x = Σ_reads count × #{windows i | x ∈ IUPAC expansions of window i}`;
* `heaviest_is_walk`, `heaviest_optimal` (`g.hasCycle = some false → g.heaviestPath fuel = .path p →
  p is a walk of g from a head ∧ ∀ walk q from a head, weight q ≤ weight p`), termination within the fuel;
* `none_iff_cycle` beyond the definitional part below: `g.hasCycle = some true ↔ g has a cycle`
  (correctness of the depth-first search);
* `single_read_roundtrip`.  As stated in the property ("a single sequence without repeated k-mer is returned
  unchanged") it is **false** of the code: a repeated (k-1)-mer already closes a cycle in a graph that only
  stores nodes (`roundtrip_counterexample` below, finding `roundtrip.repeated-k-1-mer`). -/

/-- `winSpec val k (s.map plain)` lists the k-mer words of the windows of `k` plain bases of `s`, in order
(`val` = the 2-bit-per-base word).  For every `k` with `1 ≤ k ≤ 32`, every list of reads made of plain bases
(a, c, g, t, u; any length: shorter than, equal to, longer than `k`) with their counts, and every word `x`: the
weight of `x` in the graph is the sum over the reads of count × number of occurrences.  Partial: reads with
ambiguity codes are not covered by this theorem. -/
theorem push_weights_partial (k : Nat) (hk : 1 ≤ k) (h2 : 2 * k ≤ 64) (reads : List (Bytes × Nat))
    (hp : ∀ r ∈ reads, ∀ b ∈ r.1, (plain b).isSome) (x : Nat) :
    (reads.foldl (fun g r => g.push r.1 r.2) (makeGraph k)).weight x
      = (reads.map fun r => r.2 * (winSpec val k (r.1.map plain)).count x).sum := by
  have gen : ∀ (reads : List (Bytes × Nat)) (g : Graph), g.k = k → g.mask = 2 ^ (2 * k) - 1 →
      (∀ r ∈ reads, ∀ b ∈ r.1, (plain b).isSome) →
      (reads.foldl (fun g r => g.push r.1 r.2) g).weight x
        = g.weight x + (reads.map fun r => r.2 * (winSpec val k (r.1.map plain)).count x).sum := by
    intro reads
    induction reads with
    | nil => intros; simp
    | cons r rs ih =>
      intro g hgk hgm hp
      have h1 := push_plain g (by omega) (by omega) (by rw [hgk]; exact hgm) r.1 r.2 x (hp r (by simp))
      have hk' := push_k g r.1 r.2
      rw [List.foldl_cons, ih (g.push r.1 r.2) (by rw [hk'.1, hgk]) (by rw [hk'.2, hgm])
        (fun r' hr' => hp r' (by simp [hr'])), h1, hgk]
      simp [Nat.add_assoc]
  have := gen reads (makeGraph k) rfl (makeGraph_mask k h2) hp
  rw [this]
  simp [Graph.weight, weightOf, makeGraph]

/-- the hypotheses are satisfiable: two reads over acgt, k = 3 -/
example : ∀ r ∈ ([([97, 99, 103, 116], 3), ([99, 103, 116], 2)] : List (Bytes × Nat)), ∀ b ∈ r.1, (plain b).isSome := by
  decide

/-- `HaviestPath` returns nil exactly when `HasCycle` answers true (definitional part of `none_iff_cycle`:
whenever the cycle detection terminates within its fuel) -/
theorem nil_iff_hasCycle (g : Graph) (fuel : Nat) (b : Bool) (h : g.hasCycle = some b) :
    g.heaviestPath fuel = .nil ↔ b = true := by
  unfold Graph.heaviestPath
  rw [h]
  cases b with
  | true => simp
  | false =>
    simp only [Bool.false_eq_true, iff_false]
    cases hpLoop g fuel (hpInit g) with
    | none => simp
    | some hh =>
      simp only []
      generalize g.nodes.length + 2 = n
      generalize hh.hNode = c
      generalize ([] : List Nat) = acc
      induction n generalizing c acc with
      | zero => simp [hpBack]
      | succ n ih =>
        simp only [hpBack]
        split
        · simp
        · split
          · simp
          · exact ih _ _

/-- test (sample input): the single read "acgtcag", k = 3, count 2 comes back unchanged -/
example : ((makeGraph 3).push [97, 99, 103, 116, 99, 97, 103] 2).longestConsensus 100
    = .seq [97, 99, 103, 116, 99, 97, 103] := by decide

/-- counterexample to `single_read_roundtrip` as stated in the property: "aca" with k = 2 has no repeated
2-mer (ac, ca) but the 1-mer a is repeated: ac → ca → ac is a cycle and no consensus is returned
(the real code agrees: case line `g 2 616361:1`) -/
theorem roundtrip_counterexample :
    ((makeGraph 2).push [97, 99, 97] 1).hasCycle = some true ∧
    ((makeGraph 2).push [97, 99, 97] 1).longestConsensus 100 = .err := by decide

end ObiVerif.Props.C19
