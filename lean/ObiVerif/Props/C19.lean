import ObiVerif.Model.Kmer
import ObiVerif.Model.DeBruijn
import ObiVerif.Lemmas.Kmer4
import ObiVerif.Lemmas.KmerCanon
import ObiVerif.Lemmas.KmerWin
import ObiVerif.Lemmas.DeBruijn
import ObiVerif.Lemmas.DeBruijnGraph
import ObiVerif.Lemmas.DeBruijnHeap
import ObiVerif.Lemmas.DeBruijnCov
import ObiVerif.Lemmas.DeBruijnOrder
import ObiVerif.Lemmas.KmerIndex
import ObiVerif.Lemmas.KmerIndexLim
import ObiVerif.Lemmas.DeBruijnRound
import ObiVerif.Lemmas.DeBruijnRoundTrip
import ObiVerif.Lemmas.DeBruijnHist
/-!
# C19 — exact De Bruijn weights and heaviest path; strand-invariant canonical k-mers (property theorems)

The models are those of the code **as repaired** by the six patches `notes/patches/C19-*.diff`
(the unrepaired behaviours are pinned by the first case lines of the corpus of `harness/c19.go`).
-/
namespace ObiVerif.Props.C19
open ObiVerif.Kmer ObiVerif.DeBruijn

/-! ## 4-mers -/

/-- `Encode4mer` returns, for every sequence, the codes of its 4-mers in order (`fourmers`: the code of
`s[i..i+3]` for `i = 0 … |s|-4`, a letter other than a,c,g,t,u counting as `a` through
`__single_base_code__`), and nothing for a sequence shorter than four bases (no panic). -/
theorem encode4_exact (s : Bytes) :
    encode4mer s = fourmers s ∧
    (encode4mer s).length = s.length - 3 ∧
    (s.length < 4 → encode4mer s = []) ∧
    (∀ i (h : i + 3 < s.length),
      (encode4mer s)[i]? = some (code4 (s[i]'(by omega)) (s[i+1]'(by omega)) (s[i+2]'(by omega)) (s[i+3]'h))) := by
  refine ⟨encode4mer_eq s, ?_, ?_, ?_⟩
  · rw [encode4mer_eq, fourmers_length]
  · intro h; simp [encode4mer, h]
  · intro i h
    rw [encode4mer_eq]
    have hl : i < (fourmers s).length := by rw [fourmers_length]; omega
    rw [List.getElem?_eq_getElem hl, fourmers_getElem s i h]

/-- test (sample input): the 4-mers of "acgta" are ACGT = 0x1B and CGTA = 0x6C -/
example : encode4mer [97, 99, 103, 116, 97] = [27, 108] := by decide
/-- test: three bases give no 4-mer -/
example : encode4mer [97, 99, 103] = [] := by decide

/-- `Count4Mer`, complete characterisation: the table has 256 cells and cell `c` holds the number of
occurrences of the 4-mer `c` **modulo 2^16** (the cells are `uint16`). -/
theorem count4_mod (s : Bytes) (c : Nat) (hc : c < 256) :
    (count4mer s).size = 256 ∧ (count4mer s).getD c 0 = (fourmers s).count c % 65536 :=
  ⟨count4mer_size s, count4mer_eq s c hc⟩

/-- Full statement of the property: `∀ s c, c < 256 → (count4mer s).getD c 0 = (fourmers s).count c`.
It is **false** of the code (finding `c4.overflow16`, see `count4_overflow`); it holds for every sequence
shorter than 65539 bases (fewer than 65536 4-mers). -/
theorem count4_exact_partial (s : Bytes) (hs : s.length < 65539) (c : Nat) (hc : c < 256) :
    (count4mer s).getD c 0 = (fourmers s).count c := by
  rw [count4mer_eq s c hc]
  apply Nat.mod_eq_of_lt
  have h1 : (fourmers s).count c ≤ (fourmers s).length := List.count_le_length
  rw [fourmers_length] at h1
  omega

/-- the hypothesis of `count4_exact_partial` is satisfiable on a non-trivial value -/
example : ([97, 99, 103, 116, 97, 99, 103, 116] : Bytes).length < 65539 := by decide

/-- counterexample to the full statement: poly-a of 65539 bases holds 65536 times the 4-mer aaaa and the
table says 0 (the real code agrees: case line `c4 61 65539`). -/
theorem count4_overflow :
    (fourmers (List.replicate 65539 97)).count 0 = 65536 ∧
    (count4mer (List.replicate 65539 97)).getD 0 0 = 0 := by
  have h : fourmers (List.replicate 65539 97) = List.replicate 65536 0 := fourmers_replicate_a 65536
  constructor
  · rw [h, List.count_replicate_self]
  · rw [count4mer_eq _ 0 (by decide), h, List.count_replicate_self]

/-! ## canonical k-mers of the k-mer index

Specification (`Lemmas/KmerCanon.lean`, `Lemmas/KmerWin.lean`): a *plain* base is a byte with exactly one
reading in the table `iupac` (a, c, g, t, u), `plain b` its 2-bit code; `windowsAll k l` lists the windows of
`k` consecutive elements of `l` in order; `canon sparse d` is the smaller of `val (dropMid sparse d)` and
`val (dropMid sparse (rcDigits d))`, `val` reading a list of digits as a base-4 number, `rcDigits` reversing
and complementing it and `dropMid true` erasing the central digit (index `k/2`);
`canonSpec k sparse ds` = the `canon` of every window of `k` plain bases, in order.
`effK k sparse` is the k-mer size `NewKmerMap` really uses (odd in sparse mode, even in dense mode).
`rcSeq s` reverses `s` and complements every byte through the table `revcompnuc`. -/

/-- For every word width `W`, requested size `k0` and mode such that the effective `k` satisfies
`1 ≤ k` and `2k ≤ W` (so also `2k = W`: no panic), every sequence `s` of any length (shorter than, equal to,
longer than `k` or than the machine word; any bytes): `NewKmerMap` succeeds and `NormalizedKmerSlice` returns
exactly the canonical value of every window of `k` plain bases of `s`, in order. -/
theorem canon_exact (W k0 : Nat) (sparse : Bool) (h1 : 1 ≤ effK k0 sparse) (h2 : 2 * effK k0 sparse ≤ W)
    (s : Bytes) :
    ∃ m, newKmerMap W k0 sparse = .ok m ∧ m.kmersize = effK k0 sparse ∧
      normalizedKmerSlice m s = canonSpec (effK k0 sparse) sparse (s.map plain) := by
  obtain ⟨m, hm, hv, hk, _⟩ := newKmerMap_valid W k0 sparse h1 h2
  exact ⟨m, hm, hk, by rw [normalizedKmerSlice_eq m sparse hv s, hk]⟩

/-- each canonical value is the smaller of the k-mer and its reverse complement (central base ignored in
sparse mode) -/
theorem canon_is_min (sparse : Bool) (d : List Nat) :
    canon sparse d = min (val (dropMid sparse d)) (val (dropMid sparse (rcDigits d))) := canon_eq_min sparse d

/-- **Strand invariance**: a sequence and its reverse complement yield the same canonical k-mers, in reverse
order — hence the same multiset (`List.Perm`). -/
theorem canon_strand_invariant (W k0 : Nat) (sparse : Bool) (h1 : 1 ≤ effK k0 sparse)
    (h2 : 2 * effK k0 sparse ≤ W) (s : Bytes) :
    ∃ m, newKmerMap W k0 sparse = .ok m ∧
      normalizedKmerSlice m (rcSeq s) = (normalizedKmerSlice m s).reverse ∧
      (normalizedKmerSlice m (rcSeq s)).Perm (normalizedKmerSlice m s) := by
  obtain ⟨m, hm, hv, hk, _⟩ := newKmerMap_valid W k0 sparse h1 h2
  have e : normalizedKmerSlice m (rcSeq s) = (normalizedKmerSlice m s).reverse := by
    rw [normalizedKmerSlice_eq m sparse hv, normalizedKmerSlice_eq m sparse hv, map_plain_rcSeq,
      canonSpec_rc _ _ hv.kpos]
    intro c hc
    obtain ⟨b, _, hb⟩ := List.mem_map.mp hc
    exact plain_lt b c hb
  exact ⟨m, hm, e, by rw [e]; exact List.reverse_perm _⟩

/-- the hypotheses are satisfiable on the configurations of the property: k = 64 on 128-bit words (dense),
k = 63 (sparse), k = 6 -/
example : 1 ≤ effK 64 false ∧ 2 * effK 64 false ≤ 128 ∧ 1 ≤ effK 63 true ∧ 2 * effK 63 true ≤ 128 ∧
    effK 7 false = 6 ∧ effK 6 true = 7 := by decide

/-- test (sample input): k = 2 on "acgt" (dense): ac/gt → ac = 1, cg/cg → 6, gt/ac → 1 -/
example : canonSpec 2 false (([97, 99, 103, 116] : Bytes).map plain) = [1, 6, 1] := by decide

/-! ## De Bruijn graph

Vocabulary (`Lemmas/DeBruijnGraph.lean`):
* `g.keys` the nodes (the k-mer words present in the map); `g.weight x` the weight of `x` (`Weight`);
* `g.Edge x y` : `y` is one of the nodes returned by `Nexts(x)`; `edge_iff`: under `g.WF`, `x` and `y` are nodes and
  the last `k-1` bases of `x` are the first `k-1` bases of `y` (`y / 4 = x % 4^(k-1)`);
* `g.Walk p` : `p` is a list of nodes, consecutive ones linked by `Edge`; `g.Cyclic` : a walk `x :: (p ++ [x])` exists;
* `g.IsSource x` : a node that no edge enters; `mem_heads_iff`: under `g.WF`, exactly the members of `Heads()`;
* `g.pathWeight p` : sum of the weights of the nodes of `p`; `g.totalWeight` : sum of all the weights;
* `g.WF` : the parameters are those of `MakeDeBruijnGraph(k)` with `1 ≤ k ≤ 32` and every node is a word of `k`
  bases — true of every graph built by `MakeDeBruijnGraph` and `Push` (`wf_pushes`);
* `readings win` : the digit lists obtained by choosing one nucleotide of `iupac b` (generated table
  `Gen.kmerIupac`) for every byte `b` of the window; `kmerReadings win` their words; `winCount k x s` : the number
  of windows of `k` bytes of `s` one of whose readings is `x`; `validPrefix s` : `s` up to the first byte outside
  the IUPAC table (`Push` stops enumerating there; such bytes are outside the contract).

Proved for every graph / every list of reads: `push_weights` (ambiguity codes included), `hasCycle_iff`,
`heaviest_is_walk`, `heaviest_terminates`, `heaviest_optimal`, `none_iff_cycle`, `single_read_roundtrip`.
Two statements of the property are false of the model (and of the code) without a side condition, each with its
counterexample: optimality needs positive weights (`optimal_zero_weight_counterexample`: a read pushed with count
0), the round trip needs "no repeated (k-1)-mer" (`roundtrip_counterexample`). -/

/-- `winSpec val k (s.map plain)` lists the k-mer words of the windows of `k` plain bases of `s`, in order
(`val` = the 2-bit-per-base word).  Special case of `push_weights` for reads made of plain bases (a, c, g, t, u):
the weight of `x` is the sum over the reads of count × number of occurrences. -/
theorem push_weights_partial (k : Nat) (hk : 1 ≤ k) (h2 : 2 * k ≤ 64) (reads : List (Bytes × Nat))
    (hp : ∀ r ∈ reads, ∀ b ∈ r.1, (plain b).isSome) (x : Nat) :
    (reads.foldl (fun g r => g.push r.1 r.2) (makeGraph k)).weight x
      = (reads.map fun r => r.2 * (winSpec val k (r.1.map plain)).count x).sum := by
  have gen : ∀ (reads : List (Bytes × Nat)) (g : Graph), g.k = k → g.mask = 2 ^ (2 * k) - 1 →
      (∀ r ∈ reads, ∀ b ∈ r.1, (plain b).isSome) →
      (reads.foldl (fun g r => g.push r.1 r.2) g).weight x
        = g.weight x + (reads.map fun r => r.2 * (winSpec val k (r.1.map plain)).count x).sum := by
    intro reads
    induction reads with
    | nil => intros; simp
    | cons r rs ih =>
      intro g hgk hgm hp
      have h1 := push_plain g (by omega) (by omega) (by rw [hgk]; exact hgm) r.1 r.2 x (hp r (by simp))
      have hk' := push_k g r.1 r.2
      rw [List.foldl_cons, ih (g.push r.1 r.2) (by rw [hk'.1, hgk]) (by rw [hk'.2, hgm])
        (fun r' hr' => hp r' (by simp [hr'])), h1, hgk]
      simp [Nat.add_assoc]
  have := gen reads (makeGraph k) rfl (makeGraph_mask k h2) hp
  rw [this]
  simp [Graph.weight, weightOf, makeGraph]

/-- the hypotheses are satisfiable: two reads over acgt, k = 3 -/
example : ∀ r ∈ ([([97, 99, 103, 116], 3), ([99, 103, 116], 2)] : List (Bytes × Nat)), ∀ b ∈ r.1, (plain b).isSome := by
  decide

/-- **Weights, in full.**  For every `k` with `1 ≤ k ≤ 32`, every list of pushed reads with their counts (any
bytes, any length — shorter than, equal to, longer than `k` —, ambiguity codes included) and every word `x`: the
weight of `x` in the graph is the sum over the reads of count × the number of windows of `k` bytes of the read
one of whose IUPAC readings is `x`.  (A window whose `n` readings include `x` counts once, whatever `n`; the read
is cut at the first byte outside the IUPAC table, see `push_weights_iupac`.) -/
theorem push_weights (k : Nat) (hk : 1 ≤ k) (h2 : k ≤ 32) (reads : List (Bytes × Nat)) (x : Nat) :
    (reads.foldl (fun g r => g.push r.1 r.2) (makeGraph k)).weight x
      = (reads.map fun r => r.2 * winCount k x (validPrefix r.1)).sum :=
  pushes_weight k hk (by omega) reads x

/-- the same for reads made of IUPAC letters only (a c g t u r y s w k m b d h v n): no cut -/
theorem push_weights_iupac (k : Nat) (hk : 1 ≤ k) (h2 : k ≤ 32) (reads : List (Bytes × Nat))
    (hv : ∀ r ∈ reads, ∀ b ∈ r.1, iupac b.toNat ≠ []) (x : Nat) :
    (reads.foldl (fun g r => g.push r.1 r.2) (makeGraph k)).weight x
      = (reads.map fun r => r.2 * winCount k x r.1).sum := by
  rw [push_weights k hk h2]
  congr 1
  apply List.map_congr_left
  intro r hr
  rw [validPrefix_of_iupac r.1 (hv r hr)]

/-- the hypothesis is satisfiable on reads with ambiguity codes ("ancg", "rcgty") -/
example : ∀ r ∈ ([([97, 110, 99, 103], 2), ([114, 99, 103, 116, 121], 3)] : List (Bytes × Nat)),
    ∀ b ∈ r.1, iupac b.toNat ≠ [] := by decide

/-- test (sample input): on these two reads, k = 3, the word 6 (acg) is a reading of one window of each read
(a[n]cg ∋ acg; [r]cg ∋ acg): weight 2 + 3 -/
example : (([([97, 110, 99, 103], 2), ([114, 99, 103, 116, 121], 3)] : List (Bytes × Nat)).foldl
      (fun g r => g.push r.1 r.2) (makeGraph 3)).weight 6 = 5 ∧
    winCount 3 6 [97, 110, 99, 103] = 1 ∧ winCount 3 6 [114, 99, 103, 116, 121] = 1 := by decide

/-- `HaviestPath` returns nil exactly when `HasCycle` answers true (definitional part of `none_iff_cycle`) -/
theorem nil_iff_hasCycle (g : Graph) (fuel : Nat) (b : Bool) (h : g.hasCycle = some b) :
    g.heaviestPath fuel = .nil ↔ b = true := by
  unfold Graph.heaviestPath
  rw [h]
  cases b with
  | true => simp
  | false =>
    simp only [Bool.false_eq_true, iff_false]
    cases hpLoop g fuel (hpInit g) with
    | none => simp
    | some hh =>
      simp only []
      generalize g.nodes.length + 2 = n
      generalize hh.hNode = c
      generalize ([] : List Nat) = acc
      induction n generalizing c acc with
      | zero => simp [hpBack]
      | succ n ih =>
        simp only [hpBack]
        split
        · simp
        · split
          · simp
          · exact ih _ _

/-- **Correctness of the depth-first cycle detection**, for every graph value (no hypothesis): `HasCycle` always
answers (the recursion depth never exceeds the number of nodes: the fuel of the model is never exhausted),
and it answers true iff the graph has a directed cycle. -/
theorem hasCycle_iff (g : Graph) :
    (g.hasCycle = some true ↔ g.Cyclic) ∧ (g.hasCycle = some false ↔ ¬ g.Cyclic) ∧ g.hasCycle ≠ none := by
  rcases hasCycle_spec g with ⟨h1, h2⟩ | ⟨h1, h2⟩
  · rw [h1]; simp [h2]
  · rw [h1]; simp [h2]

/-- both sides of `hasCycle_iff` occur: "aca", k = 2 is cyclic (walk ac → ca → ac), "acgtcag", k = 3 is not -/
example : ((makeGraph 2).push [97, 99, 97] 1).Cyclic ∧ ¬ ((makeGraph 3).push [97, 99, 103, 116, 99, 97, 103] 2).Cyclic :=
  ⟨((hasCycle_iff _).1).mp (by decide), ((hasCycle_iff _).2.1).mp (by decide)⟩

/-- **The returned path is a walk from a source**: whenever `HaviestPath` returns a path (any fuel), it is a
non-empty list of nodes, consecutive ones linked by `Nexts`, and its first node belongs to `Heads()`, i.e. has no
predecessor. -/
theorem heaviest_is_walk (g : Graph) (hwf : g.WF) (fuel : Nat) (p : List Nat)
    (h : g.heaviestPath fuel = .path p) :
    g.Walk p ∧ ∃ s t, p = s :: t ∧ s ∈ g.heads ∧ g.IsSource s :=
  heaviestPath_is_walk g hwf fuel p h

/-- **Termination**: on a graph without cycle the label-correcting loop ends, and the path reconstruction too, as
soon as the fuel is at least `g.hpBound = n × totalWeight + n` (`n` nodes): every queue insertion strictly
increases a label, and every label is the weight of a walk, hence at most `totalWeight`.  The outcome is then a
path or the `log.Panicf` outcome, never "out of fuel"/hang and never nil; it is a path when the graph is not empty
and the weights are positive.  (The driver hands 2 000 000 to the model: enough whenever `hpBound ≤ 2 000 000`;
the loop itself has no fuel in the Go code.) -/
theorem heaviest_terminates (g : Graph) (hwf : g.WF) (hc : ¬ g.Cyclic) (fuel : Nat) (hf : g.hpBound ≤ fuel) :
    g.heaviestPath fuel ≠ .fuel ∧ g.heaviestPath fuel ≠ .nil ∧
    (g.nodes ≠ [] → (∀ x ∈ g.keys, 0 < g.weight x) → ∃ p, g.heaviestPath fuel = .path p) :=
  heaviestPath_terminates g hwf hc fuel hf

/-- **Optimality**: when the weights are positive (read counts ≥ 1: `pushes_pos`) and `HaviestPath` returns a
path, no walk starting at a node without predecessor has a larger total weight.  (Fixed-point certificate: when
the queue is empty every edge out of a labelled node is relaxed, every label is the weight of a walk, and the
label of the returned end node is the largest one and is the weight of the returned path.) -/
theorem heaviest_optimal (g : Graph) (hwf : g.WF) (hpos : ∀ x ∈ g.keys, 0 < g.weight x) (fuel : Nat)
    (p : List Nat) (h : g.heaviestPath fuel = .path p) :
    ∀ s t, g.IsSource s → g.Walk (s :: t) → g.pathWeight (s :: t) ≤ g.pathWeight p :=
  heaviestPath_optimal g hwf hpos fuel p h

/-- the hypotheses of `heaviest_is_walk`, `heaviest_terminates`, `heaviest_optimal` hold for every graph built by
`MakeDeBruijnGraph(k)`, `1 ≤ k ≤ 32`, and pushes of reads of count ≥ 1 -/
theorem hypotheses_of_pushes (k : Nat) (hk : 1 ≤ k) (h2 : k ≤ 32) (reads : List (Bytes × Nat))
    (hc : ∀ r ∈ reads, 1 ≤ r.2) :
    (reads.foldl (fun g r => g.push r.1 r.2) (makeGraph k)).WF ∧
    ∀ x ∈ (reads.foldl (fun g r => g.push r.1 r.2) (makeGraph k)).keys,
      0 < (reads.foldl (fun g r => g.push r.1 r.2) (makeGraph k)).weight x :=
  ⟨wf_pushes k hk h2 reads, pushes_pos k reads hc⟩

/-- non-vacuity: on the graph of "acgtcag" (count 2) and "acgta" (count 1), k = 3 — a branch at cgt — the fuel
100 is above the bound and a path is returned -/
example : ((([([97, 99, 103, 116, 99, 97, 103], 2), ([97, 99, 103, 116, 97], 1)] : List (Bytes × Nat)).foldl
      (fun g r => g.push r.1 r.2) (makeGraph 3)).hpBound ≤ 100) ∧
    (([([97, 99, 103, 116, 99, 97, 103], 2), ([97, 99, 103, 116, 97], 1)] : List (Bytes × Nat)).foldl
      (fun g r => g.push r.1 r.2) (makeGraph 3)).heaviestPath 100 = .path [6, 27, 45, 52, 18] := by decide

/-- counterexample to optimality without "positive weights": "acgt" pushed with count 0, "gta" with count 5,
"cat" with count 1, k = 3.  The graph has no cycle; acg (6) is a head and acg → cgt → gta is a walk of weight 5,
but the label 0 of acg never makes the test `dist[next] < weight + dist[cur]` succeed on cgt (weight 0): cgt
and gta are never reached and the path returned is [cat], of weight 1. -/
theorem optimal_zero_weight_counterexample :
    let g := ([([97, 99, 103, 116], 0), ([103, 116, 97], 5), ([99, 97, 116], 1)] : List (Bytes × Nat)).foldl
      (fun g r => g.push r.1 r.2) (makeGraph 3)
    g.hasCycle = some false ∧ g.heaviestPath 100 = .path [19] ∧ g.pathWeight [19] = 1 ∧
      6 ∈ g.heads ∧ 27 ∈ g.succ 6 ∧ 44 ∈ g.succ 27 ∧ g.pathWeight [6, 27, 44] = 5 := by decide

/-- **nil iff cycle**, in full: for every graph value and every fuel, `HaviestPath` returns nil exactly when the
graph has a directed cycle. -/
theorem none_iff_cycle (g : Graph) (fuel : Nat) : g.heaviestPath fuel = .nil ↔ g.Cyclic := by
  rcases hasCycle_spec g with ⟨h1, h2⟩ | ⟨h1, h2⟩
  · have := nil_iff_hasCycle g fuel true h1
    simp [this, h2]
  · have := nil_iff_hasCycle g fuel false h1
    simp [this, h2]

/-- **Round trip of a single read**: for `2 ≤ k ≤ 32`, a single read over a, c, g, t of at least `k` bases, pushed
with a count ≥ 1, in which no window of `k-1` bases occurs twice, is returned unchanged by `LongestConsensus`
(fuel above the bound of `heaviest_terminates`).  "No repeated k-mer", as the property says, is not enough:
`roundtrip_counterexample`. -/
theorem single_read_roundtrip (k : Nat) (hk : 2 ≤ k) (h32 : k ≤ 32) (s : Bytes) (w : Nat) (hw : 1 ≤ w)
    (hs : ∀ b ∈ s, b = 97 ∨ b = 99 ∨ b = 103 ∨ b = 116) (hl : k ≤ s.length)
    (hn : (windowsAll (k - 1) s).Nodup) (fuel : Nat) (hf : ((makeGraph k).push s w).hpBound ≤ fuel) :
    ((makeGraph k).push s w).longestConsensus fuel = .seq s := by
  rw [single_read_consensus k hk h32 s w hw (plain_acgt s hs) hl (windows_digit_nodup (k - 1) s hs hn) fuel hf,
    decode_digit_acgt s hs]

/-- the same for any plain bases (u allowed: it comes back as t), the windows being compared on the 2-bit codes -/
theorem single_read_roundtrip_plain (k : Nat) (hk : 2 ≤ k) (h32 : k ≤ 32) (s : Bytes) (w : Nat) (hw : 1 ≤ w)
    (hp : ∀ b ∈ s, (plain b).isSome) (hl : k ≤ s.length) (hn : (windowsAll (k - 1) (s.map digit)).Nodup)
    (fuel : Nat) (hf : ((makeGraph k).push s w).hpBound ≤ fuel) :
    ((makeGraph k).push s w).longestConsensus fuel = .seq ((s.map digit).map decode) :=
  single_read_consensus k hk h32 s w hw hp hl hn fuel hf

/-- the hypotheses of `single_read_roundtrip` are satisfiable: "acgtcag", k = 3, count 2, fuel 100 -/
example : (∀ b ∈ ([97, 99, 103, 116, 99, 97, 103] : Bytes), b = 97 ∨ b = 99 ∨ b = 103 ∨ b = 116) ∧
    (windowsAll (3 - 1) ([97, 99, 103, 116, 99, 97, 103] : Bytes)).Nodup ∧
    ((makeGraph 3).push [97, 99, 103, 116, 99, 97, 103] 2).hpBound ≤ 100 := by decide

/-- test (sample input): the single read "acgtcag", k = 3, count 2 comes back unchanged -/
example : ((makeGraph 3).push [97, 99, 103, 116, 99, 97, 103] 2).longestConsensus 100
    = .seq [97, 99, 103, 116, 99, 97, 103] := by decide

/-- counterexample to `single_read_roundtrip` as stated in the property: "aca" with k = 2 has no repeated
2-mer (ac, ca) but the 1-mer a is repeated: ac → ca → ac is a cycle and no consensus is returned
(the real code agrees: case line `g 2 616361:1`) -/
theorem roundtrip_counterexample :
    ((makeGraph 2).push [97, 99, 97] 1).hasCycle = some true ∧
    ((makeGraph 2).push [97, 99, 97] 1).longestConsensus 100 = .err := by decide

/-! ## deepening round 2

### the queue of `HaviestPath` is the transcription of `container/heap`

`Model/DeBruijnHeap.lean` transcribes `up`, `down`, `heap.Push`, `heap.Pop` of the Go standard library over
`UInt64Heap` (index loops on an array) and `heaviestPathH` / `longestConsensusH` run `HaviestPath` /
`LongestConsensus(id, 0)` on it (this is what the driver executes against the real code).  `IsHeap a`: every cell
is at least its parent `(i-1)/2`. -/

/-- `heap.Push` and `heap.Pop` refine "insert in / extract a minimum of a multiset": both keep the heap order,
`Push` adds exactly `x`, `Pop` removes exactly one element, which is a minimum. -/
theorem heap_refines_multiset (a : Array Nat) (h : IsHeap a) :
    (∀ x, IsHeap (heapPush a x) ∧ (heapPush a x).toList.Perm (x :: a.toList)) ∧
    (heapPop a = none ↔ a.size = 0) ∧
    (a.size ≠ 0 → ∃ m a', heapPop a = some (m, a') ∧ IsHeap a' ∧ a.toList.Perm (m :: a'.toList) ∧
      ∀ y ∈ a.toList, m ≤ y) :=
  ⟨fun x => ⟨heapPush_isHeap a x h, heapPush_perm a x⟩, heapPop_none a, fun hne => heapPop_spec a h hne⟩

/-- the fuel of the two loops of the model never cuts the Go loop short -/
theorem heap_fuel_adequate (a : Array Nat) :
    (∀ j f, j < a.size → j + 1 ≤ f → heapUp f a j = heapUp (j + 1) a j) ∧
    (∀ i n f, n ≤ f → heapDown f a i n = heapDown n a i n) :=
  ⟨fun _ _ hj hf => heapUp_fuel hj hf, fun _ _ _ hf => heapDown_fuel hf⟩

/-- non-vacuity / test (sample input): pushing 5, 3, 8, 1 on the empty heap then popping gives 1 and a heap -/
example : heapPop (heapPush (heapPush (heapPush (heapPush #[] 5) 3) 8) 1) = some (1, #[3, 5, 8]) := by decide

/-- **Refinement**: for every graph value and every fuel, `HaviestPath` / `LongestConsensus(id, 0)` on the binary
heap return what the models on the sorted list return — all the theorems above speak about the transcription. -/
theorem heaviest_transcription (g : Graph) (fuel : Nat) :
    g.heaviestPathH fuel = g.heaviestPath fuel ∧ g.longestConsensusH fuel = g.longestConsensus fuel :=
  ⟨heaviestPathH_eq g fuel, longestConsensusH_eq g fuel⟩

/-- the property theorems, restated on the transcription -/
theorem heaviestH_correct (g : Graph) (hwf : g.WF) (fuel : Nat) :
    (g.heaviestPathH fuel = .nil ↔ g.Cyclic) ∧
    (∀ p, g.heaviestPathH fuel = .path p →
      (g.Walk p ∧ ∃ s t, p = s :: t ∧ s ∈ g.heads ∧ g.IsSource s) ∧
      ((∀ x ∈ g.keys, 0 < g.weight x) → ∀ s t, g.IsSource s → g.Walk (s :: t) → g.pathWeight (s :: t) ≤ g.pathWeight p)) ∧
    (¬ g.Cyclic → g.hpBound ≤ fuel → g.heaviestPathH fuel ≠ .fuel ∧
      (g.nodes ≠ [] → (∀ x ∈ g.keys, 0 < g.weight x) → ∃ p, g.heaviestPathH fuel = .path p)) := by
  rw [heaviestPathH_eq]
  refine ⟨none_iff_cycle g fuel, fun p h => ⟨heaviest_is_walk g hwf fuel p h, fun hpos => heaviest_optimal g hwf hpos fuel p h⟩, ?_⟩
  intro hc hf
  have := heaviest_terminates g hwf hc fuel hf
  exact ⟨this.1, this.2.2⟩

/-! ### the map is a map: nothing depends on the order of its entries -/

/-- **The graph, the heaviest path and the consensus are functions of the multiset of reads**: pushing the same
reads (counts ≥ 1) in another order gives the same finite map word → weight (`Graph.Equiv`: same parameters, same
`lookup`), the same answer of `HasCycle`, the same path and the same consensus — also on the transcription with
the binary heap.  (`heaviestPath_equiv`, `longestConsensus_equiv` in `Lemmas/DeBruijnOrder.lean` say the same of
any two association lists holding the same map with distinct keys: the iteration order of the Go map, which
decides the order of `Heads()` and of the DFS roots, is not observable.) -/
theorem consensus_of_multiset (k : Nat) (hk : 1 ≤ k) (h32 : k ≤ 32) (reads reads' : List (Bytes × Nat))
    (hp : reads.Perm reads') (hc : ∀ r ∈ reads, 1 ≤ r.2) (fuel : Nat) :
    let g := reads.foldl (fun g r => g.push r.1 r.2) (makeGraph k)
    let g' := reads'.foldl (fun g r => g.push r.1 r.2) (makeGraph k)
    g.Equiv g' ∧ g.hasCycle = g'.hasCycle ∧ g.heaviestPathH fuel = g'.heaviestPathH fuel ∧
      g.longestConsensusH fuel = g'.longestConsensusH fuel := by
  intro g g'
  have e := pushes_perm_equiv k hk h32 reads reads' hp hc
  refine ⟨e, e.hasCycle_eq, ?_, ?_⟩
  · rw [heaviestPathH_eq, heaviestPathH_eq]; exact heaviestPath_of_multiset k hk h32 reads reads' hp hc fuel
  · rw [longestConsensusH_eq, longestConsensusH_eq]; exact ObiVerif.DeBruijn.consensus_of_multiset k hk h32 reads reads' hp hc fuel

/-- the hypotheses are satisfiable: two reads in both orders -/
example : ([([97, 99, 103, 116, 99, 97, 103], 2), ([97, 99, 103, 116, 97], 1)] : List (Bytes × Nat)).Perm
    [([97, 99, 103, 116, 97], 1), ([97, 99, 103, 116, 99, 97, 103], 2)] := List.Perm.swap _ _ _

/-! ### `Len`, `MaxWeight`, `FilterMinWeight` -/

/-- `MaxWeight` bounds every weight and, on a non-empty graph, is the weight of a node. -/
theorem max_weight_spec (g : Graph) (hn : g.keys.Nodup) :
    (∀ x, g.weight x ≤ g.maxWeight) ∧ (g.nodes ≠ [] → ∃ x ∈ g.keys, g.weight x = g.maxWeight) :=
  ⟨maxWeight_ge g, maxWeight_attained g hn⟩

/-- `FilterMinWeight(min)` keeps exactly the nodes of weight ≥ `min`, with their weights (nothing for a negative
`min`: `uint(min)` is above every weight), and what is left is again a well-formed graph with distinct keys and
positive weights: every theorem on `HaviestPath` applies to the filtered graph. -/
theorem filter_min_weight_spec (g : Graph) (hn : g.keys.Nodup) (min : Int) :
    (∀ x, x ∈ (g.filterMinWeight min).keys ↔ x ∈ g.keys ∧ 0 ≤ min ∧ min.toNat ≤ g.weight x) ∧
    (∀ x, (g.filterMinWeight min).weight x = if 0 ≤ min ∧ min.toNat ≤ g.weight x then g.weight x else 0) ∧
    (g.filterMinWeight min).keys.Nodup ∧ (g.WF → (g.filterMinWeight min).WF) ∧
    ((∀ x ∈ g.keys, 0 < g.weight x) → ∀ x ∈ (g.filterMinWeight min).keys, 0 < (g.filterMinWeight min).weight x) :=
  ⟨filterMinWeight_keys g hn min, filterMinWeight_weight g hn min, filterMinWeight_nodup g hn min,
   fun h => filterMinWeight_wf g h min, filterMinWeight_pos g hn min⟩

/-- the hypothesis holds for every graph built by `MakeDeBruijnGraph` and `Push` -/
theorem keys_nodup_of_pushes (k : Nat) (reads : List (Bytes × Nat)) :
    (reads.foldl (fun g r => g.push r.1 r.2) (makeGraph k)).keys.Nodup := pushes_nodup k reads

/-- test (sample input): "acgtcag" x 5 and "acgacag" x 2, k = 3, filtered at 3: five nodes are left, the largest
weight is 7 -/
example : let g := (([([97, 99, 103, 116, 99, 97, 103], 5), ([97, 99, 103, 97, 99, 97, 103], 2)] : List (Bytes × Nat)).foldl
      (fun g r => g.push r.1 r.2) (makeGraph 3)).filterMinWeight 3
    g.len = 5 ∧ g.maxWeight = 7 := by decide

/-! ### `LongestConsensus(id, min_cov)` with `min_cov > 0`

`covThreshold mode m e` is `uint(float64(mode)*min_cov + 0.5)` for `min_cov = m × 2^e`, every float operation
being rounded to 53 bits, ties to even (`Model/DeBruijnCov.lean`). -/

/-- **When the float threshold is the exact rational one.**  For `min_cov = a / 2^s` (`s ≥ 1`) resp. an integer
`a`, as long as `mode × a + 2^(s-1) < 2^53` resp. `2 × mode × a + 1 < 2^53`, no operation rounds and the threshold
is `⌊mode × min_cov + 1/2⌋`; it is then at most the mode when `min_cov ≤ 1`. -/
theorem cov_threshold_exact (mode a : Nat) (ha : 1 ≤ a) :
    (∀ s : Nat, 1 ≤ s → mode * a + 2 ^ (s - 1) < 2 ^ 53 →
      covThreshold mode a (-(s : Int)) = (mode * a + 2 ^ (s - 1)) / 2 ^ s ∧
      (a ≤ 2 ^ s → covThreshold mode a (-(s : Int)) ≤ mode)) ∧
    (2 * mode * a + 1 < 2 ^ 53 → covThreshold mode a 0 = mode * a) := by
  refine ⟨fun s hs h => ?_, covThreshold_int mode a ha⟩
  have e := covThreshold_dyadic mode a s ha hs h
  exact ⟨e, fun hle => by rw [e]; exact dyadic_le_mode mode a s hs hle⟩

/-- the hypotheses are satisfiable: mode 7, `min_cov` = 3/4 -> ⌊5.25 + 0.5⌋ = 5; a rounded case for
comparison (test, sample input): `min_cov` = 0.1 (`0x1999999999999a × 2^-56`), mode 5 -> 1 -/
example : covThreshold 7 3 (-2) = 5 ∧ covThreshold 5 0x1999999999999a (-56) = 1 := by decide

/-- **The trimming**, complete characterisation (every path, every threshold): either every node is below the
threshold — the slice expression `path[from:to]` then panics unless the path is empty —, or the path is
`a ++ sp ++ b` with `a`, `b` the longest prefix and suffix of nodes below the threshold and `sp`, which begins and
ends with a node reaching it, is what is kept. -/
theorem trim_spec (w : Nat → Nat) (mp : Nat) (path : List Nat) :
    ((∀ x ∈ path, w x < mp) ∧ trimPath w mp path = if path = [] then .path [] else .panic) ∨
    (∃ a sp b, path = a ++ sp ++ b ∧ (∀ x ∈ a, w x < mp) ∧ (∀ x ∈ b, w x < mp) ∧
      (∃ y t, sp = y :: t ∧ mp ≤ w y) ∧ (∃ t z, sp = t ++ [z] ∧ mp ≤ w z) ∧ trimPath w mp path = .path sp) :=
  trimPath_cases w mp path

/-- **`LongestConsensus` with trimming**: when `HaviestPath` returns `p` (non-empty graph) and `Mode` answers
`md`, with `mp` the threshold: if some node of `p` reaches `mp`, the result is the decoding of the part `sp` of `p`
between the first and the last node reaching `mp` — a walk of the graph, all of whose removed nodes are below
`mp` —; otherwise the call panics (slice bounds out of range). -/
theorem consensus_cov_spec (g : Graph) (hwf : g.WF) (hne : g.nodes ≠ []) (fuel m : Nat) (e : Int)
    (pick : List Nat → Nat) (p : List Nat) (h : g.heaviestPathH fuel = .path p) :
    let mp := covThreshold (pick (p.map g.weight)) m e
    ((∃ x ∈ p, mp ≤ g.weight x) → ∃ a sp b, p = a ++ sp ++ b ∧ (∀ x ∈ a, g.weight x < mp) ∧
      (∀ x ∈ b, g.weight x < mp) ∧ (∃ y t, sp = y :: t ∧ mp ≤ g.weight y) ∧ (∃ t z, sp = t ++ [z] ∧ mp ≤ g.weight z) ∧
      g.Walk sp ∧
      g.longestConsensusCov fuel m e pick = if (g.decodePath sp).isEmpty then .err else .seq (g.decodePath sp)) ∧
    ((∀ x ∈ p, g.weight x < mp) → g.longestConsensusCov fuel m e pick = .panic) := by
  intro mp
  have hw : g.Walk p := by
    rw [heaviestPathH_eq] at h
    exact (heaviest_is_walk g hwf fuel p h).1
  have hpne : p ≠ [] := by
    rw [heaviestPathH_eq] at h
    obtain ⟨_, s, t, e, _⟩ := heaviest_is_walk g hwf fuel p h
    rw [e]; simp
  have hl := longestConsensusCov_of_path g fuel m e pick p hne h
  constructor
  · rintro ⟨x, hx, hxw⟩
    rcases trimPath_cases g.weight mp p with ⟨hall, _⟩ | ⟨a, sp, b, e1, ha, hb, hh, ht, etrim⟩
    · have := hall x hx; omega
    · refine ⟨a, sp, b, e1, ha, hb, hh, ht, ?_, ?_⟩
      · rw [e1] at hw; exact Graph.Walk.infix a sp b hw
      · rw [hl]; show (match trimPath g.weight mp p with | .panic => _ | .path sp => _) = _
        rw [etrim]
  · intro hall
    rcases trimPath_cases g.weight mp p with ⟨_, etrim⟩ | ⟨a, sp, b, e1, _, _, ⟨y, t, e2, hy⟩, _, _⟩
    · rw [hl]; show (match trimPath g.weight mp p with | .panic => _ | .path sp => _) = _
      rw [etrim, if_neg hpne]
    · have := hall y (by rw [e1, e2]; simp); omega

/-- no panic for an exact `min_cov = a / 2^s ≤ 1` when `Mode` returns one of the weights of the path (it always
does on a non-empty path: `mem_modeCands`).  Full statement: for every float `min_cov ≤ 1`; proved here under
the no-rounding hypothesis of `cov_threshold_exact`; the full statement is `consensus_cov_no_panic` below
(deepening round 3). -/
theorem consensus_cov_no_panic_partial (g : Graph) (hwf : g.WF) (hne : g.nodes ≠ []) (fuel : Nat)
    (pick : List Nat → Nat) (p : List Nat) (h : g.heaviestPathH fuel = .path p)
    (hpick : pick (p.map g.weight) ∈ p.map g.weight) (a s : Nat) (ha : 1 ≤ a) (hs : 1 ≤ s) (hle : a ≤ 2 ^ s)
    (hx : pick (p.map g.weight) * a + 2 ^ (s - 1) < 2 ^ 53) :
    g.longestConsensusCov fuel a (-(s : Int)) pick ≠ .panic := by
  obtain ⟨x, hxp, hxw⟩ := List.mem_map.mp hpick
  have hmp := ((cov_threshold_exact (pick (p.map g.weight)) a ha).1 s hs hx).2 hle
  obtain ⟨a', sp, b, _, _, _, _, _, _, e⟩ :=
    (consensus_cov_spec g hwf hne fuel a (-(s : Int)) pick p h).1 ⟨x, hxp, by rw [hxw]; exact hmp⟩
  rw [e]; split <;> intro hh <;> cases hh

/-- `obistats.Mode` returns one of `modeCands`: a most frequent value of the slice (0 on the empty slice); the
list is never empty -/
theorem mode_cands_spec (wp : List Nat) :
    modeCands wp ≠ [] ∧ ∀ v, v ∈ modeCands wp ↔ (wp = [] ∧ v = 0) ∨ (v ∈ wp ∧ ∀ u ∈ wp, wp.count u ≤ wp.count v) :=
  ⟨modeCands_ne_nil wp, mem_modeCands wp⟩

/-- **Exact dependence on the iteration order of a Go map** (the real code agrees, corpus line
`gc 3 3ff0000000000000 ? 616367746361:4 61636774:1`): reads "acgtca" x 4 and "acgt" x 1, k = 3, `min_cov` = 1.
The path acg, cgt, gtc, tca has the weights 5, 5, 4, 4: `Mode` may return 5 or 4, and the consensus is "acgt" or
"acgtca" accordingly.  With `min_cov` = 2 on a single read every node is below the threshold and the call panics. -/
theorem mode_tie_counterexample :
    let g := ([([97, 99, 103, 116, 99, 97], 4), ([97, 99, 103, 116], 1)] : List (Bytes × Nat)).foldl
      (fun g r => g.push r.1 r.2) (makeGraph 3)
    modeCands ([6, 27, 45, 52].map g.weight) = [4, 5] ∧
    g.consensusCovCands 100 1 0 = [.seq [97, 99, 103, 116, 99, 97], .seq [97, 99, 103, 116]] ∧
    ((makeGraph 3).push [97, 99, 103, 116, 99, 97, 103] 4).consensusCovCands 100 2 0 = [.panic] := by decide

/-! ### the k-mer index proper: `Push`, `NewKmerMap`, `Query` -/

/-- **The index, exactly** (no occurrence limit): after `NewKmerMap(refs, k, sparse, -1)` the list stored under
the k-mer `x` is, for the references in order, the reference number repeated as many times as `x` occurs among its
canonical k-mers (`refOcc`); in particular reference `j` occurs `count x (canonical k-mers of ref j)` times. -/
theorem index_exact (m : KmerMap) (refs : List Bytes) (x j : Nat) :
    idxGet (newIndex m (-1) refs) x = refOcc m x 0 refs ∧
    (idxGet (newIndex m (-1) refs) x).count j =
      if j < refs.length then (normalizedKmerSlice m (refs.getD j [])).count x else 0 := by
  refine ⟨idxGet_newIndex m refs x, ?_⟩
  rw [idxGet_newIndex, count_refOcc]
  simp

/-- **`Query`, exactly**, for a query sequence that is not in the index (no occurrence limit; `rank` = the
order of the addresses, injective on the references): reference `j` is reported iff it shares at least one
canonical k-mer occurrence with the query, and the number reported is `shared + 1`, where `shared` sums, over the
canonical k-mers of the query with their repetitions, their multiplicity in reference `j` (the `+ 1` comes from
`n = 1` followed by `n++` on the first element too).  The result does not depend on `rank`. -/
theorem query_exact (m : KmerMap) (refs : List Bytes) (q : Bytes) (rank : Nat → Nat) (qid : Nat)
    (hq : refs.length ≤ qid) (hinj : ∀ a b, a < refs.length → b < refs.length → rank a = rank b → a = b) (j : Nat) :
    (kmQuery m (newIndex m (-1) refs) rank qid q).lookup j =
      if j < refs.length ∧ 0 < shared m refs q j then some (shared m refs q j + 1) else none :=
  kmQuery_fresh m refs q rank qid hq hinj j

/-- **Strand invariance of the shared-k-mer statistic**: in the domain of `canon_exact`, the reverse complement
of the query gets the same answer from the same index. -/
theorem query_strand_invariant (W k0 : Nat) (sparse : Bool) (h1 : 1 ≤ effK k0 sparse) (h2 : 2 * effK k0 sparse ≤ W)
    (refs : List Bytes) (q : Bytes) (rank : Nat → Nat) (qid : Nat) (hq : refs.length ≤ qid)
    (hinj : ∀ a b, a < refs.length → b < refs.length → rank a = rank b → a = b) :
    ∃ m, newKmerMap W k0 sparse = .ok m ∧ ∀ j,
      (kmQuery m (newIndex m (-1) refs) rank qid (rcSeq q)).lookup j =
      (kmQuery m (newIndex m (-1) refs) rank qid q).lookup j := by
  obtain ⟨m, hm, _, hperm⟩ := canon_strand_invariant W k0 sparse h1 h2 q
  refine ⟨m, hm, fun j => ?_⟩
  rw [kmQuery_fresh m refs _ rank qid hq hinj, kmQuery_fresh m refs _ rank qid hq hinj, shared_perm m refs q (rcSeq q) j hperm]

/-- non-vacuity of `query_exact` (sample input): references "acgtacgt", "acgtgg", query "acgt", k = 4 dense on
128-bit words, identity as rank: the query k-mer acgt occurs twice in reference 0 and once in reference 1: 3 and
2 are reported -/
example : ∃ m, newKmerMap 128 4 false = .ok m ∧
    (kmQuery m (newIndex m (-1) [[97, 99, 103, 116, 97, 99, 103, 116], [97, 99, 103, 116, 103, 103]]) id 2
        [97, 99, 103, 116]).lookup 0 = some 3 ∧
    (kmQuery m (newIndex m (-1) [[97, 99, 103, 116, 97, 99, 103, 116], [97, 99, 103, 116, 103, 103]]) id 2
        [97, 99, 103, 116]).lookup 1 = some 2 := by
  refine ⟨_, rfl, ?_, ?_⟩
  · rw [query_exact _ _ _ id 2 (by decide) (fun a b _ _ h => h)]; decide
  · rw [query_exact _ _ _ id 2 (by decide) (fun a b _ _ h => h)]; decide

/-! ## deepening round 3

### the float roundings of `min_cov` (`Lemmas/DeBruijnRound.lean`) -/

/-- **Round-to-nearest-even, as modelled by `rnd`, is monotone and never crosses a representable value.**
For values on a common grid `2^e × ℕ` (`v(q, e') = q × 2^(e'-e)` is the result scaled by `2^-e`):
`n₁ ≤ n₂ → v(rnd n₁ e) ≤ v(rnd n₂ e)`; if `n ≤ K × 2^d` with `K ≤ 2^53` (a representable value) then
`v(rnd n e) ≤ K × 2^d`, and symmetrically from above; the exponent never decreases and the significand fits. -/
theorem rounding_monotone (e : Int) :
    (∀ n1 n2 : Nat, n1 ≤ n2 →
      (rnd n1 e).1 * 2 ^ ((rnd n1 e).2 - e).toNat ≤ (rnd n2 e).1 * 2 ^ ((rnd n2 e).2 - e).toNat) ∧
    (∀ n K d : Nat, K ≤ 2 ^ 53 → n ≤ K * 2 ^ d →
      e ≤ (rnd n e).2 ∧ (rnd n e).1 * 2 ^ ((rnd n e).2 - e).toNat ≤ K * 2 ^ d) ∧
    (∀ n K d : Nat, K < 2 ^ 53 → K * 2 ^ d ≤ n → K * 2 ^ d ≤ (rnd n e).1 * 2 ^ ((rnd n e).2 - e).toNat) ∧
    (∀ n : Nat, (rnd n e).1 ≤ 2 ^ 53) :=
  ⟨fun n1 n2 h => rnd_mono n1 n2 e h, fun n K d hK h => rnd_le_of_le n K d e hK h,
   fun n K d hK h => rnd_ge_of_ge n K d e hK h, fun n => rnd_fst_le n e⟩

/-- test (sample input): 2^53 + 1 is a tie and goes to the even 2^52 × 2, 2^53 + 3 goes up to (2^52 + 2) × 2 -/
example : rnd (2 ^ 53 + 1) 0 = (2 ^ 52, 1) ∧ rnd (2 ^ 53 + 3) 0 = (2 ^ 52 + 2, 1) := by decide

/-- **The float threshold never exceeds the mode**, for **every** positive `float64` `min_cov ≤ 1` (`m × 2^-s`
with `m ≤ 2^s`; every such float has this form) and every `mode < 2^52`: whatever the roundings of the
multiplication and of the addition do. -/
theorem cov_threshold_le_mode (mode m s : Nat) (hmode : mode < 2 ^ 52) (hm : m ≤ 2 ^ s) :
    covThreshold mode m (-(s : Int)) ≤ mode := covThreshold_le_mode mode m s hmode hm

/-- the bound on the mode is sharp: node weights from `2^52` on are outside the domain.  At `mode = 2^52 + 1` and
`min_cov = 1`, `float64(mode) + 0.5` is a tie that goes to the even neighbour `mode + 1`: every node is below the
threshold and `LongestConsensus` panics (the real code agrees: corpus line
`gc 3 3ff0000000000000 ? 61636774:4503599627370497`). -/
theorem cov_threshold_above_mode_counterexample : covThreshold (2 ^ 52 + 1) 1 0 = 2 ^ 52 + 2 := covThreshold_above_mode

/-- **No panic, in full**: for every graph, every positive float `min_cov ≤ 1` and every answer of `Mode` that is one
of the weights of the path (it always is: `mode_cands_spec`) and is below `2^52`, `LongestConsensus(id, min_cov)` does
not panic.  (This is the full statement `consensus_cov_no_panic_partial` pointed at: no "no-rounding" hypothesis.) -/
theorem consensus_cov_no_panic (g : Graph) (hwf : g.WF) (hne : g.nodes ≠ []) (fuel : Nat)
    (pick : List Nat → Nat) (p : List Nat) (h : g.heaviestPathH fuel = .path p)
    (hpick : pick (p.map g.weight) ∈ p.map g.weight) (hlt : pick (p.map g.weight) < 2 ^ 52)
    (m s : Nat) (hle : m ≤ 2 ^ s) :
    g.longestConsensusCov fuel m (-(s : Int)) pick ≠ .panic := by
  obtain ⟨x, hxp, hxw⟩ := List.mem_map.mp hpick
  have hmp := cov_threshold_le_mode (pick (p.map g.weight)) m s hlt hle
  obtain ⟨a', sp, b, _, _, _, _, _, _, e⟩ :=
    (consensus_cov_spec g hwf hne fuel m (-(s : Int)) pick p h).1 ⟨x, hxp, by rw [hxw]; exact hmp⟩
  rw [e]; split <;> intro hh <;> cases hh

/-- the hypotheses are satisfiable on a rounded case: `min_cov` = 0.1 = `0x1999999999999a × 2^-56`, mode 5 -/
example : (0x1999999999999a : Nat) ≤ 2 ^ 56 ∧ (5 : Nat) < 2 ^ 52 ∧ covThreshold 5 0x1999999999999a (-((56 : Nat) : Int)) ≤ 5 := by
  decide

/-! ### the single-read round trip, both directions (finding `C19-roundtrip-km1-repeat`) -/

/-- **Characterisation of the round trip for the code as it is**: a single read of plain bases (`2 ≤ k ≤ 32`, at
least `k` bases, count ≥ 1) is returned unchanged by `LongestConsensus` **iff** no window of `k-1` bases occurs
twice in it.  When one does, the graph has a directed cycle (`x_i → … → x_{j-1} → x_i`), `HasCycle` is true and the
result is the error "cannot identify optimum path" — for every fuel. -/
theorem single_read_roundtrip_iff (k : Nat) (hk : 2 ≤ k) (h32 : k ≤ 32) (s : Bytes) (w : Nat) (hw : 1 ≤ w)
    (hp : ∀ b ∈ s, (plain b).isSome) (hl : k ≤ s.length) (fuel : Nat)
    (hf : ((makeGraph k).push s w).hpBound ≤ fuel) :
    (((makeGraph k).push s w).longestConsensus fuel = .seq ((s.map digit).map decode) ↔
      (windowsAll (k - 1) (s.map digit)).Nodup) ∧
    (¬ (windowsAll (k - 1) (s.map digit)).Nodup →
      ((makeGraph k).push s w).Cyclic ∧ ∀ fuel', ((makeGraph k).push s w).longestConsensus fuel' = .err) := by
  have hcyc : ¬ (windowsAll (k - 1) (s.map digit)).Nodup →
      ((makeGraph k).push s w).Cyclic ∧ ∀ fuel', ((makeGraph k).push s w).longestConsensus fuel' = .err := by
    intro hrep
    have hc := single_read_cyclic_of_repeat k hk h32 s w hw hp hl hrep
    refine ⟨hc, fun fuel' => ?_⟩
    unfold Graph.longestConsensus
    split
    · rfl
    · rw [(none_iff_cycle _ fuel').2 hc]
  refine ⟨⟨fun h => ?_, fun hn => single_read_roundtrip_plain k hk h32 s w hw hp hl hn fuel hf⟩, hcyc⟩
  apply Classical.byContradiction
  intro hrep
  rw [(hcyc hrep).2 fuel] at h
  cases h

/-- the same over a, c, g, t, the windows being those of the read itself -/
theorem single_read_roundtrip_iff_acgt (k : Nat) (hk : 2 ≤ k) (h32 : k ≤ 32) (s : Bytes) (w : Nat) (hw : 1 ≤ w)
    (hs : ∀ b ∈ s, b = 97 ∨ b = 99 ∨ b = 103 ∨ b = 116) (hl : k ≤ s.length) (fuel : Nat)
    (hf : ((makeGraph k).push s w).hpBound ≤ fuel) :
    ((makeGraph k).push s w).longestConsensus fuel = .seq s ↔ (windowsAll (k - 1) s).Nodup := by
  have := (single_read_roundtrip_iff k hk h32 s w hw (plain_acgt s hs) hl fuel hf).1
  rw [decode_digit_acgt s hs, windows_digit_nodup_iff (k - 1) s hs] at this
  exact this

/-- both sides occur (test, sample inputs): "acgtcag" (k = 3) has no repeated 2-mer; "acgacg" has (ac, cg) -/
example : (windowsAll (3 - 1) ([97, 99, 103, 116, 99, 97, 103] : Bytes)).Nodup ∧
    ¬ (windowsAll (3 - 1) ([97, 99, 103, 97, 99, 103] : Bytes)).Nodup := by decide

/-! ### canonical k-mers when the k-mer fills the word (`2k = W`, fix b11761d) -/

/-- `canon_exact` and `canon_strand_invariant` have exactly two hypotheses, `1 ≤ k` and `2k ≤ W`: the case `2k = W`
(k = 32 / 64 / 128 on `Uint64` / `Uint128` / `Uint256`, and every other even width) is inside.  Stated on its own:
dense mode, any even `k ≥ 2`, word of exactly `2k` bits. -/
theorem canon_full_width (k : Nat) (hk : 1 ≤ k) (he : k % 2 = 0) (s : Bytes) :
    ∃ m, newKmerMap (2 * k) k false = .ok m ∧ m.kmersize = k ∧
      normalizedKmerSlice m s = canonSpec k false (s.map plain) ∧
      normalizedKmerSlice m (rcSeq s) = (normalizedKmerSlice m s).reverse := by
  have hek : effK k false = k := by
    unfold effK
    simp [he]
  obtain ⟨m, hm, hks, hsp⟩ := canon_exact (2 * k) k false (by rw [hek]; exact hk) (by rw [hek]; exact Nat.le_refl _) s
  obtain ⟨m', hm', hrev, _⟩ := canon_strand_invariant (2 * k) k false (by rw [hek]; exact hk)
    (by rw [hek]; exact Nat.le_refl _) s
  rw [hm] at hm'
  cases hm'
  exact ⟨m, hm, by rw [hks, hek], by rw [hsp, hek], hrev⟩

/-- the boundary configurations of the three word types, dense (2k = W) and the largest sparse k (2k = W - 2) -/
example : effK 32 false = 32 ∧ 2 * effK 32 false = 64 ∧ effK 64 false = 64 ∧ 2 * effK 64 false = 128 ∧
    effK 128 false = 128 ∧ 2 * effK 128 false = 256 ∧
    effK 31 true = 31 ∧ 2 * effK 31 true ≤ 64 ∧ effK 63 true = 63 ∧ 2 * effK 63 true ≤ 128 ∧
    effK 127 true = 127 ∧ 2 * effK 127 true ≤ 256 ∧
    effK 33 false = 32 ∧ effK 32 true = 33 ∧ ¬ (2 * effK 32 true ≤ 64) := by decide

/-! ### `Push` and the bytes outside the IUPAC table -/

/-- **Each read adds its count once to each distinct reading of each of its windows, up to the first byte that is
not a nucleotide code** — `push_weights` with the cut made explicit: a read `a ++ [b] ++ c` whose byte `b` has no
entry in the table `iupac` (and all bytes of `a` have one) counts as the read `a`; whatever follows `b` is ignored,
and so are the windows that contain `b`. -/
theorem push_weights_cut (k : Nat) (hk : 1 ≤ k) (h2 : k ≤ 32) (reads : List (Bytes × Nat)) (x : Nat)
    (cut : Bytes × Nat → Bytes)
    (hcut : ∀ r ∈ reads, (cut r = r.1 ∧ ∀ b ∈ r.1, iupac b.toNat ≠ []) ∨
      ∃ b c, r.1 = cut r ++ b :: c ∧ iupac b.toNat = [] ∧ ∀ a ∈ cut r, iupac a.toNat ≠ []) :
    (reads.foldl (fun g r => g.push r.1 r.2) (makeGraph k)).weight x
      = (reads.map fun r => r.2 * winCount k x (cut r)).sum := by
  rw [push_weights k hk h2]
  congr 1
  apply List.map_congr_left
  intro r hr
  rcases hcut r hr with ⟨e, hv⟩ | ⟨b, c, e, hb, hv⟩
  · rw [e, validPrefix_of_iupac r.1 hv]
  · congr 2
    rw [e]
    unfold validPrefix
    rw [List.takeWhile_append_of_pos (by intro a ha; simpa using hv a ha)]
    simp [hb]

/-- a window whose readings include `x` several times over (they cannot: the readings of a window are distinct
words) still counts once: `winCount` counts windows, by membership -/
theorem win_count_by_membership (k x : Nat) (s : Bytes) :
    winCount k x s = ((windowsAll k s).filter fun win => decide (x ∈ kmerReadings win)).length := by
  unfold winCount
  rw [List.countP_eq_length_filter]
  congr 1
  apply List.filter_congr
  intro win _
  simp

/-- test (sample input): "ac!gt" is cut at '!' (0x21): k = 2 sees the single window ac -/
example : validPrefix [97, 99, 33, 103, 116] = [97, 99] ∧ winCount 2 1 (validPrefix [97, 99, 33, 103, 116]) = 1 ∧
    winCount 2 11 (validPrefix [97, 99, 33, 103, 116]) = 0 := by decide

/-! ### which heaviest path is returned on a tie -/

/-- **Tie-breaking is deterministic**: when several walks have the maximal weight, the one `HaviestPath` returns is a
function of the map word → weight alone — any two association lists holding the same map (i.e. any two iteration
orders of the Go map, which decide the order of `Heads()` and of the DFS roots) give the same path and the same
consensus, on the transcription with the binary heap too.  (The queue is ordered by k-mer word, `Nexts` lists the
successors by last base a < c < g < t and the heaviest node is replaced only by a strictly heavier one: among the
heaviest end nodes, the first one labelled in that order wins.) -/
theorem heaviest_tie_break_deterministic (g g' : Graph) (e : g.Equiv g') (hn : g.keys.Nodup) (hn' : g'.keys.Nodup)
    (fuel : Nat) :
    g.heaviestPathH fuel = g'.heaviestPathH fuel ∧ g.longestConsensusH fuel = g'.longestConsensusH fuel := by
  rw [heaviestPathH_eq, heaviestPathH_eq, longestConsensusH_eq, longestConsensusH_eq]
  exact ⟨heaviestPath_equiv g g' e hn hn' fuel, longestConsensus_equiv g g' e hn hn' fuel⟩

/-- test (sample input): reads "acga" and "acgt" (count 1 each), k = 3: the walks acg → cga and acg → cgt both weigh 3;
both orders of the reads (two different association lists) return acg → cga (the end node with the smaller word) -/
example :
    ((([([97, 99, 103, 97], 1), ([97, 99, 103, 116], 1)] : List (Bytes × Nat)).foldl
      (fun g r => g.push r.1 r.2) (makeGraph 3)).heaviestPathH 100 = .path [6, 24]) ∧
    ((([([97, 99, 103, 116], 1), ([97, 99, 103, 97], 1)] : List (Bytes × Nat)).foldl
      (fun g r => g.push r.1 r.2) (makeGraph 3)).heaviestPathH 100 = .path [6, 24]) := by decide

/-! ### the index with an occurrence limit; `Query` of a sequence that is itself a reference -/

/-- **The index with an occurrence limit `M ≥ 0`, exactly**: the k-mer `x` lists what the unlimited index lists
(`index_exact`) when it occurs fewer than `M` times in the references (all references together, with
multiplicity), and nothing otherwise. -/
theorem index_limited_exact (m : KmerMap) (M : Nat) (refs : List Bytes) (x : Nat) :
    idxGet (newIndex m (M : Int) refs) x = (if occTotal m refs x < M then refOcc m x 0 refs else []) ∧
    occTotal m refs x = (refs.map fun s => (normalizedKmerSlice m s).count x).sum :=
  ⟨idxGet_newIndex_lim m M refs x, occTotal_eq m refs x⟩

/-- **`Query`, exactly, for any query sequence** — fresh (`qid ≥ |refs|`) or itself a reference (`qid < |refs|`:
`obikmersim --self`) — without occurrence limit: reference `j` is reported iff it is not the query sequence and
shares a canonical k-mer occurrence with the query; the value is `shared + 1`.  The query sequence is never
reported (patch `C19-query-self-last`; the unrepaired code reported it iff its address was the largest of the
matched ones: corpus line `km 64 3 1 4 0 1 ? 6763636361 - 6763636361`).  The result does not depend on `rank`,
the address order. -/
theorem query_any_exact (m : KmerMap) (refs : List Bytes) (q : Bytes) (rank : Nat → Nat) (qid : Nat)
    (hinj : ∀ a b, a < refs.length → b < refs.length → rank a = rank b → a = b) (j : Nat) :
    (kmQuery m (newIndex m (-1) refs) rank qid q).lookup j =
      if j < refs.length ∧ j ≠ qid ∧ 0 < shared m refs q j then some (shared m refs q j + 1) else none :=
  kmQuery_any m refs q rank qid hinj j

/-- **`Query` with an occurrence limit `M ≥ 0`, exactly**, the query being a reference or not: as `query_any_exact`
with `sharedLim`, the shared occurrences counted over the k-mers that occur fewer than `M` times in the references. -/
theorem query_limited_exact (m : KmerMap) (M : Nat) (refs : List Bytes) (q : Bytes) (rank : Nat → Nat) (qid : Nat)
    (hinj : ∀ a b, a < refs.length → b < refs.length → rank a = rank b → a = b) (j : Nat) :
    (kmQuery m (newIndex m (M : Int) refs) rank qid q).lookup j =
      if j < refs.length ∧ j ≠ qid ∧ 0 < sharedLim m M refs q j then some (sharedLim m M refs q j + 1) else none :=
  kmQuery_lim m M refs q rank qid hinj j

/-- **Strand invariance of `Query`, limit or not, query a reference or not**: in the domain of `canon_exact` the
reverse complement of the query (looked up under the same identity) gets the same answer. -/
theorem query_strand_invariant_any (W k0 : Nat) (sparse : Bool) (h1 : 1 ≤ effK k0 sparse) (h2 : 2 * effK k0 sparse ≤ W)
    (refs : List Bytes) (q : Bytes) (rank : Nat → Nat) (qid : Nat)
    (hinj : ∀ a b, a < refs.length → b < refs.length → rank a = rank b → a = b) :
    ∃ m, newKmerMap W k0 sparse = .ok m ∧ ∀ j,
      ((kmQuery m (newIndex m (-1) refs) rank qid (rcSeq q)).lookup j =
        (kmQuery m (newIndex m (-1) refs) rank qid q).lookup j) ∧
      ∀ M : Nat, (kmQuery m (newIndex m (M : Int) refs) rank qid (rcSeq q)).lookup j =
        (kmQuery m (newIndex m (M : Int) refs) rank qid q).lookup j := by
  obtain ⟨m, hm, _, hperm⟩ := canon_strand_invariant W k0 sparse h1 h2 q
  refine ⟨m, hm, fun j => ⟨?_, fun M => ?_⟩⟩
  · rw [kmQuery_any m refs _ rank qid hinj, kmQuery_any m refs _ rank qid hinj, shared_perm m refs q (rcSeq q) j hperm]
  · rw [kmQuery_lim m M refs _ rank qid hinj, kmQuery_lim m M refs _ rank qid hinj,
      sharedLim_perm m M refs q (rcSeq q) j hperm]

/-- non-vacuity (sample input): references "acgtacgt", "acgtgg", "acgt", the query being reference 2, k = 4 dense
on 128-bit words: references 0 and 1 are reported (3 and 2), the query itself is not; with the limit 4 the k-mer
acgt (4 occurrences in the references) is dropped and nothing is reported; with the limit 5 it is kept -/
example : ∃ m, newKmerMap 128 4 false = .ok m ∧
    (let refs : List Bytes := [[97, 99, 103, 116, 97, 99, 103, 116], [97, 99, 103, 116, 103, 103], [97, 99, 103, 116]]
     let q : Bytes := [97, 99, 103, 116]
     (kmQuery m (newIndex m (-1) refs) id 2 q).lookup 0 = some 3 ∧ (kmQuery m (newIndex m (-1) refs) id 2 q).lookup 1 = some 2 ∧
     (kmQuery m (newIndex m (-1) refs) id 2 q).lookup 2 = none ∧
     (kmQuery m (newIndex m ((4 : Nat) : Int) refs) id 2 q).lookup 0 = none ∧
     (kmQuery m (newIndex m ((5 : Nat) : Int) refs) id 2 q).lookup 0 = some 3 ∧
     (kmQuery m (newIndex m ((5 : Nat) : Int) refs) id 2 q).lookup 2 = none) := by
  refine ⟨_, rfl, ?_⟩
  intro refs q
  refine ⟨?_, ?_, ?_, ?_, ?_, ?_⟩
  · rw [query_any_exact _ _ _ id 2 (fun a b _ _ h => h)]; decide
  · rw [query_any_exact _ _ _ id 2 (fun a b _ _ h => h)]; decide
  · rw [query_any_exact _ _ _ id 2 (fun a b _ _ h => h)]; decide
  · rw [query_limited_exact _ _ _ _ id 2 (fun a b _ _ h => h)]; decide
  · rw [query_limited_exact _ _ _ _ id 2 (fun a b _ _ h => h)]; decide
  · rw [query_limited_exact _ _ _ _ id 2 (fun a b _ _ h => h)]; decide

/-! ## fourth pass: histories on ONE object

`DeBruijnGraph` (`kmersize`, `kmermask`, `prevc`, `prevg`, `prevt`, `graph`) and `KmerMap` (`index`, the masks,
`Kmersize`, `SparseAt`) hold **no cached answer** today: the model of the object is the state machine
`Graph.apply` / `Graph.trace` (`Model/DeBruijnHist.lean`) whose queries are functions of the current map.  The
theorems below are the specification the `gh` / `kh` operations of the harness enforce on the real object, query
after query: a regression that memoises an answer and forgets to drop it in one mutator breaks `hist.stale-answer`
(the real object against a fresh real graph holding its own table: `fresh`) and `hist.metamorphic`. -/

/-- **A query is a function of the current state only.**  For every `1 ≤ k ≤ 32`, every history `pre` of pushes
(counts ≥ 1), filters and queries in any order, and whatever follows: the observation made by a query placed after
`pre` is the answer of the state reached by the MUTATORS of `pre` (the queries of `pre` can be deleted:
`after_mutators`); and it is the answer of a FRESH graph holding the same weight table — `fresh k table` is a new
`MakeDeBruijnGraph(k)` into which every k-mer of the table is pushed as a read of `k` bases with its weight as
count, which is what the harness builds from the real object's table: same map, same `HasCycle`, `Len`,
`MaxWeight`, `HaviestPath`, `LongestConsensus(id, 0)`, and the same possible outcomes of
`LongestConsensus(id, min_cov)`. -/
theorem query_after_history (k : Nat) (hk : 1 ≤ k) (h32 : k ≤ 32) (fuel : Nat) (pre post : List Step)
    (hp : ∀ s ∈ pre, s.Pos) :
    let g := (makeGraph k).after pre
    Graph.trace fuel (makeGraph k) (pre ++ Step.query :: post)
        = Graph.trace fuel (makeGraph k) pre ++ Obs.ans (g.answer fuel) g.nodes :: Graph.trace fuel g post ∧
      g = (makeGraph k).after (pre.filter Step.isMut) ∧
      (fresh k g.nodes).Equiv g ∧ (fresh k g.nodes).answer fuel = g.answer fuel ∧
      ∀ m e, (fresh k g.nodes).consensusCovCands fuel m e = g.consensusCovCands fuel m e := by
  intro g
  have hinv : g.Inv := inv_after pre _ (inv_make k hk h32) hp
  have hgk : g.k = k := after_k pre (makeGraph k)
  have hf := fresh_equiv g hinv
  rw [hgk] at hf
  refine ⟨?_, (after_mutators pre _).symm, hf.1, answer_equiv _ _ hf.1 hf.2.nodup hinv.nodup fuel,
    fun m e => consensusCov_equiv _ _ hf.1 hf.2.nodup hinv.nodup fuel m e⟩
  rw [trace_append]
  rfl

/-- the hypotheses are satisfiable and the statement is not empty (test, sample input): "acgtcag" x 5 and the
chimera "cagacg" x 1 (k = 3) make a cycle; a query sees it; `FilterMinWeight(2)` removes it; the next query answers
"no cycle" and returns the read — the history the seeded stale-memo regression gets wrong -/
example : (∀ s ∈ [Step.push [97, 99, 103, 116, 99, 97, 103] 5, Step.push [99, 97, 103, 97, 99, 103] 1, Step.query,
      Step.filter 2], s.Pos) := by
  intro s hs
  simp only [List.mem_cons, List.not_mem_nil, or_false] at hs
  rcases hs with rfl | rfl | rfl | rfl <;> simp [Step.Pos]

example :
    ((makeGraph 3).after [Step.push [97, 99, 103, 116, 99, 97, 103] 5, Step.push [99, 97, 103, 97, 99, 103] 1]).hasCycle
      = some true ∧
    ((makeGraph 3).after [Step.push [97, 99, 103, 116, 99, 97, 103] 5, Step.push [99, 97, 103, 97, 99, 103] 1, Step.query,
      Step.filter 2]).hasCycle = some false ∧
    ((makeGraph 3).after [Step.push [97, 99, 103, 116, 99, 97, 103] 5, Step.push [99, 97, 103, 97, 99, 103] 1, Step.query,
      Step.filter 2]).longestConsensusH 100 = .seq [97, 99, 103, 116, 99, 97, 103] ∧
    (fresh 3 ((makeGraph 3).after [Step.push [97, 99, 103, 116, 99, 97, 103] 5, Step.push [99, 97, 103, 97, 99, 103] 1,
      Step.query, Step.filter 2]).nodes).nodes
      = ((makeGraph 3).after [Step.push [97, 99, 103, 116, 99, 97, 103] 5, Step.push [99, 97, 103, 97, 99, 103] 1,
      Step.query, Step.filter 2]).nodes := by
  decide

/-- **Metamorphic laws of the mutators** (the second object of the harness): inside any history from
`MakeDeBruijnGraph(k)`, (1) a run of pushes (counts ≥ 1) may be done in any order — and, queries being no mutators,
in any interleaving with queries: the final map, the answers and every later observation are the same; (2) two
filters in a row are one filter with the larger threshold as `uint` (`fmax`: a negative threshold wins); (3) the
queries of a history can be deleted without changing the state. -/
theorem history_metamorphic (k : Nat) (hk : 1 ≤ k) (h32 : k ≤ 32) (fuel : Nat) (h1 h2 : List Step)
    (hp1 : ∀ s ∈ h1, s.Pos) (hp2 : ∀ s ∈ h2, s.Pos) :
    (∀ reads reads' : List (Bytes × Nat), reads.Perm reads' → (∀ r ∈ reads, 1 ≤ r.2) →
      let a := (makeGraph k).after (h1 ++ reads.map (fun r => Step.push r.1 r.2) ++ h2)
      let b := (makeGraph k).after (h1 ++ reads'.map (fun r => Step.push r.1 r.2) ++ h2)
      a.Equiv b ∧ a.answer fuel = b.answer fuel) ∧
    (∀ a b : Int, (makeGraph k).after (h1 ++ [Step.filter a, Step.filter b] ++ h2)
      = (makeGraph k).after (h1 ++ [Step.filter (fmax a b)] ++ h2)) ∧
    (∀ h : List Step, (makeGraph k).after (h.filter Step.isMut) = (makeGraph k).after h) := by
  refine ⟨?_, ?_, fun h => after_mutators h _⟩
  · intro reads reads' hperm hc a b
    have hc' : ∀ r ∈ reads', 1 ≤ r.2 := fun r hr => hc r (hperm.mem_iff.2 hr)
    have i1 := inv_after h1 _ (inv_make k hk h32) hp1
    have e : a.Equiv b := by
      show ((makeGraph k).after (h1 ++ reads.map (fun r => Step.push r.1 r.2) ++ h2)).Equiv
        ((makeGraph k).after (h1 ++ reads'.map (fun r => Step.push r.1 r.2) ++ h2))
      rw [after_append, after_append, after_append, after_append, after_pushes, after_pushes]
      exact after_equiv h2 _ _ (pushes_perm_from _ i1 reads reads' hperm hc) (inv_pushes reads _ i1 hc)
        (inv_pushes reads' _ i1 hc') hp2
    have ia : a.Inv := inv_after _ _ (inv_make k hk h32) (by
      intro s hs
      rcases List.mem_append.1 hs with hs | hs
      · rcases List.mem_append.1 hs with hs | hs
        · exact hp1 s hs
        · exact pos_of_pushes reads hc s hs
      · exact hp2 s hs)
    have ib : b.Inv := inv_after _ _ (inv_make k hk h32) (by
      intro s hs
      rcases List.mem_append.1 hs with hs | hs
      · rcases List.mem_append.1 hs with hs | hs
        · exact hp1 s hs
        · exact pos_of_pushes reads' hc' s hs
      · exact hp2 s hs)
    exact ⟨e, answer_equiv a b e ia.nodup ib.nodup fuel⟩
  · intro a b
    rw [after_append, after_append, after_append, after_append]
    congr 1
    show (((makeGraph k).after h1).filterMinWeight a).filterMinWeight b = ((makeGraph k).after h1).filterMinWeight (fmax a b)
    exact filterMinWeight_filterMinWeight _ a b

/-- non-vacuity / test (sample input): thresholds 4 then 2 = 4; 2 then -1 = -1 (everything removed) -/
example : fmax 4 2 = 4 ∧ fmax 2 (-1) = -1 ∧ fmax (-1) 7 = -1 ∧
    ((((makeGraph 3).push [97, 99, 103, 116, 99, 97, 103] 3).filterMinWeight 2).filterMinWeight (-1)).nodes
      = (((makeGraph 3).push [97, 99, 103, 116, 99, 97, 103] 3).filterMinWeight (-1)).nodes := by decide

/-- **The same for the k-mer index**: the observation of a `Query` (and of `FilterMinCount` on the returned
`KmerMatch`, which belongs to the caller) placed after a history is a function of the index reached by the pushes of
that history; queries do not change the index (so the same query twice in a row observes the same); and a run of
`Push` with one occurrence limit from the empty index is the indexing loop of `NewKmerMap`, about which
`index_exact` / `index_limited_exact` / `query_any_exact` speak. -/
theorem index_query_after_history (m : KmerMap) (rank : Nat → Nat) (st : IState) (pre post : List IStep)
    (qid : Nat) (q : Bytes) (mincount : Int) :
    let s := st.after m pre
    itrace m rank st (pre ++ IStep.query qid q mincount :: post)
        = itrace m rank st pre ++
          IObs.matched s.idx.len (kmQuery m s.idx rank qid q) (filterMinCount (kmQuery m s.idx rank qid q) mincount)
            :: itrace m rank s post ∧
      s.after m [IStep.query qid q mincount] = s ∧
      ∀ (maxocc : Int) (refs : List Bytes),
        ((⟨[], 0⟩ : IState).after m (refs.map fun r => IStep.push r maxocc)).idx = kmPushAll m maxocc [] 0 refs := by
  intro s
  refine ⟨?_, rfl, fun maxocc refs => ?_⟩
  · rw [itrace_append]; rfl
  · rw [after_pushes_eq]

end ObiVerif.Props.C19
